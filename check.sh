#!/bin/sh
# Entry point of every MANIFEST command: check.sh <ID> <quick|thorough>
#   check.sh replay <file>   re-executes one recorded case
#   check.sh build           builds the binaries only
# Rebuilds the harness against /repo's current working tree (hooks on: -tags verif).
set -e
cd "$(dirname "$0")"
export GOFLAGS=-mod=mod GOPROXY=off GOSUMDB=off GOTOOLCHAIN=local TZ=UTC
export VERIF_ROOT="$(pwd)"
mkdir -p bin .work
build() {
  go build -tags verif -o bin/vcheck ./cmd/vcheck || { echo "BROKEN: build failed"; exit 2; }
}
build_race() {
  go build -race -tags verif -o bin/vcheck-race ./cmd/vcheck || { echo "BROKEN: race build failed"; exit 2; }
}
case "$1" in
  build) build; build_race; exit 0;;
  replay) build; exec bin/vcheck replay "$2";;
esac
ID="$1"; TIER="${2:-${VERIF_TIER:-quick}}"
build
case "$ID" in
  C13) build_race; exec bin/vcheck-race run "$ID" -tier "$TIER" -seed "${VERIF_SEED:-1}";;
esac
exec bin/vcheck run "$ID" -tier "$TIER" -seed "${VERIF_SEED:-1}"
