// vcheck is the single binary behind every MANIFEST command: driver, worker,
// replay and reproducer sub-commands.
package main

import (
	"flag"
	"fmt"
	"os"
	"path/filepath"
	"strconv"

	"verif/internal/fw"
)

func main() {
	if len(os.Args) < 2 {
		usage()
	}
	exe, _ := os.Executable()
	sub := os.Args[1]
	switch sub {
	case "list":
		for _, id := range fw.IDs() {
			fmt.Println(id)
		}
	case "run":
		if len(os.Args) < 3 {
			usage()
		}
		id := os.Args[2]
		fs := flag.NewFlagSet("run", flag.ExitOnError)
		tier := fs.String("tier", "quick", "")
		seed := fs.Int64("seed", envSeed(), "")
		root := fs.String("root", defaultRoot(exe), "")
		fs.Parse(os.Args[3:])
		os.Exit(fw.Drive(id, *tier, *seed, *root, exe))
	case "worker":
		id := os.Args[2]
		fs := flag.NewFlagSet("worker", flag.ExitOnError)
		tier := fs.String("tier", "quick", "")
		seed := fs.Int64("seed", 1, "")
		shard := fs.Int("shard", 0, "")
		nshards := fs.Int("nshards", 1, "")
		out := fs.String("out", "", "")
		root := fs.String("root", defaultRoot(exe), "")
		fs.Parse(os.Args[3:])
		os.Exit(fw.RunWorker(id, *tier, *seed, *shard, *nshards, *out, *root))
	case "replay":
		path := os.Args[2]
		fs := flag.NewFlagSet("replay", flag.ExitOnError)
		root := fs.String("root", defaultRoot(exe), "")
		fs.Parse(os.Args[3:])
		os.Exit(fw.RunReplay(path, *root))
	case "repro":
		id, fid := os.Args[2], os.Args[3]
		fs := flag.NewFlagSet("repro", flag.ExitOnError)
		root := fs.String("root", defaultRoot(exe), "")
		work := fs.String("work", os.TempDir(), "")
		fs.Parse(os.Args[4:])
		os.Exit(fw.RunRepro(id, fid, *root, *work))
	default:
		usage()
	}
}

func envSeed() int64 {
	if s := os.Getenv("VERIF_SEED"); s != "" {
		if v, err := strconv.ParseInt(s, 10, 64); err == nil {
			return v
		}
	}
	return 1
}

func defaultRoot(exe string) string {
	if r := os.Getenv("VERIF_ROOT"); r != "" {
		return r
	}
	// bin/vcheck -> /verif
	return filepath.Dir(filepath.Dir(exe))
}

func usage() {
	fmt.Fprintln(os.Stderr, "usage: vcheck run <ID> [-tier quick|thorough] [-seed N] | replay <file> | list")
	os.Exit(2)
}
