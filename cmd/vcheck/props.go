package main

import (
	_ "verif/internal/props/c15"
	_ "verif/internal/props/c18"
)
