package main

import (
	_ "verif/internal/props/c18"
)
