package main

import (
	_ "verif/internal/props/c09"
	_ "verif/internal/props/c18"
)
