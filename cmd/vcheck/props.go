package main

import (
	_ "verif/internal/props/c14"
	_ "verif/internal/props/c18"
)
