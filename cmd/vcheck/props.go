package main

import (
	_ "verif/internal/props/c18"
	_ "verif/internal/props/c20"
)
