package main

import (
	_ "verif/internal/props/c01"
	_ "verif/internal/props/c02"
	_ "verif/internal/props/c03"
	_ "verif/internal/props/c04"
	_ "verif/internal/props/c05"
	_ "verif/internal/props/c06"
	_ "verif/internal/props/c07"
	_ "verif/internal/props/c08"
	_ "verif/internal/props/c09"
	_ "verif/internal/props/c10"
	_ "verif/internal/props/c11"
	_ "verif/internal/props/c12"
	_ "verif/internal/props/c13"
	_ "verif/internal/props/c14"
	_ "verif/internal/props/c15"
	_ "verif/internal/props/c16"
	_ "verif/internal/props/c17"
	_ "verif/internal/props/c18"
	_ "verif/internal/props/c19"
	_ "verif/internal/props/c20"
)
