package main

import (
	_ "verif/internal/props/c01"
	_ "verif/internal/props/c15"
	_ "verif/internal/props/c16"
	_ "verif/internal/props/c18"
)
