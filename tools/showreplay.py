#!/usr/bin/env python3
import json,sys
for f in sys.argv[1:]:
    d=json.load(open(f))
    print('=====',f); print(d['what'][:600])
    c=d['case']
    if isinstance(c,dict) and 'src' in c:
        src=c['src']
        for i,l in enumerate(src.split('\n')[:int(__import__('os').environ.get('N','80'))],1): print(f'{i:3} {l}')
        if c.get('twin'): print('--- twin ---'); print(c['twin'][:3000])
    else: print(json.dumps(c)[:3000])
