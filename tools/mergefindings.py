#!/usr/bin/env python3
"""Merges known_findings.d/*.json into known_findings.json (entries already present by id are kept as they are)."""
import json,glob,os
ROOT=os.path.dirname(os.path.dirname(os.path.abspath(__file__)))
kf=json.load(open(os.path.join(ROOT,'known_findings.json')))
ids={f['id'] for f in kf['findings']}
for p in sorted(glob.glob(os.path.join(ROOT,'known_findings.d','*.json'))):
    for f in json.load(open(p))['findings']:
        if f['id'] not in ids:
            kf['findings'].append(f); ids.add(f['id'])
json.dump(kf,open(os.path.join(ROOT,'known_findings.json'),'w'),indent=1)
print(len(kf['findings']),'findings')
