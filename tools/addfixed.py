#!/usr/bin/env python3
"""addfixed.py <id> <property> <what failed> [commit]  -- records a fix commit of /repo (default HEAD) for a finding."""
import json,subprocess,sys
fid,prop,what=sys.argv[1],sys.argv[2],sys.argv[3]
rev=sys.argv[4] if len(sys.argv)>4 else 'HEAD'
commit=subprocess.check_output(['git','-C','/repo','rev-parse','--short',rev],text=True).strip()
p='/verif/known_findings.json'
d=json.load(open(p))
d['findings']=[f for f in d['findings'] if f['id']!=fid]
d['findings'].append({"id":fid,"property":prop,"status":"fixed","commit":commit,"what":f"fixed: property={prop} {commit} {what}"})
json.dump(d,open(p,'w'),indent=1,ensure_ascii=False)
print(fid,commit)
