#!/bin/bash
# tools/trymutant2.sh confirm <PROP> <outdir> <k> <scratch-worktree>
#     confirms a seeded change in a scratch worktree of /repo (pristine HEAD): builds, baseline suite passes with it,
#     the demonstration fails with it and passes without it; writes <outdir>/confirm<k>.json. Several may run in parallel
#     (one per worktree).
# tools/trymutant2.sh check <PROP> <outdir> <k> [check-ids...]
#     applies the change to /repo, runs the named checks (quick tier), restores /repo and the clean-tree evidence, and
#     stores the change under /verif/seeded/<PROP>-${TAG:-m}<k>/ with meta.json (needs confirm<k>.json). Serial.
set -u
MODE=$1; PROP=$2; OUT=$3; K=$4; shift 4
export GOFLAGS=-mod=mod GOPROXY=off GOSUMDB=off GOTOOLCHAIN=local
PATCH=$OUT/patch$K.diff
DEMO=$(ls $OUT/demo${K}_test.go 2>/dev/null)
case "$MODE" in
confirm)
  WT=$1
  cd $WT || exit 2
  git checkout -q -- . ; git clean -fdq
  demo_clean="n/a"; demo_mut="n/a"
  if [ -n "$DEMO" ]; then
    cp $DEMO zz_demo_test.go
    if go test -vet=off -count=1 -run 'Demo|Seeded' . >$OUT/demo_clean$K.log 2>&1; then demo_clean=pass; else demo_clean=FAIL; fi
    rm -f zz_demo_test.go
  fi
  git apply $PATCH || { echo "$PROP-$K: patch does not apply"; exit 2; }
  if go build ./... 2>$OUT/mut_build$K.log; then build=ok; else build=FAIL; fi
  if go test -vet=off -count=1 -timeout 25m ./... >$OUT/mut_suite$K.log 2>&1; then suite=pass; else suite=FAIL; fi
  if [ -n "$DEMO" ]; then
    cp $DEMO zz_demo_test.go
    if go test -vet=off -count=1 -run 'Demo|Seeded' . >$OUT/demo_mut$K.log 2>&1; then demo_mut=pass; else demo_mut=FAIL; fi
    rm -f zz_demo_test.go
  fi
  git checkout -q -- . ; git clean -fdq
  echo "{\"builds\": \"$build\", \"existing_suite_with_change\": \"$suite\", \"demo_without_change\": \"$demo_clean\", \"demo_with_change\": \"$demo_mut\", \"where\": \"scratch worktree of /repo HEAD\"}" > $OUT/confirm$K.json
  echo "$PROP-$K: build=$build suite=$suite demo_clean=$demo_clean demo_mut=$demo_mut"
  ;;
check)
  CHECKS=${@:-$PROP}
  DEST=/verif/seeded/$PROP-${TAG:-m}$K
  [ -f $OUT/confirm$K.json ] || { echo "no confirm$K.json"; exit 2; }
  cd /repo || exit 2
  if [ -n "$(git status --porcelain)" ]; then echo "repo not clean"; exit 2; fi
  restore() { git -C /repo checkout -q -- . ; git -C /repo clean -fdq; }
  trap restore EXIT
  git apply $PATCH || { echo "patch does not apply"; exit 2; }
  results=""
  for c in $CHECKS; do
    cp /verif/evidence/$c.json /tmp/evidence_keep_$c.json 2>/dev/null
    out=$(cd /verif && timeout 1500 ./check.sh $c quick 2>&1)
    [ -f /tmp/evidence_keep_$c.json ] && mv /tmp/evidence_keep_$c.json /verif/evidence/$c.json
    v=$(echo "$out" | grep -c "^VIOLATION")
    first=$(echo "$out" | grep -m1 "what:" | cut -c1-300 | tr '"' "'" | tr '\\' '/' | tr -c '[:print:]' '?')
    results="$results{\"check\":\"$c\",\"tier\":\"quick\",\"violation_lines\":$v,\"first\":\"$first\"},"
    echo "  $PROP-$K $c quick: $v VIOLATION lines; $first"
  done
  restore
  mkdir -p $DEST
  cp $PATCH $DEST/patch.diff
  [ -n "$DEMO" ] && cp $DEMO $DEST/demo_test.go
  awk -v k=$K 'BEGIN{p=0} /^## /{p=0} $0 ~ "^## patch"k"\\.diff" || $0 ~ "^## "k"\\." || $0 ~ "patch"k"\\.diff" {p=1} p{print}' $OUT/NOTES.md > $DEST/notes.md 2>/dev/null
  cat > $DEST/meta.json <<JSON
{
 "property": "$PROP",
 "source": "independent sub-agent given only the property text and a scratch worktree of /repo",
 "needs_to_manifest": "see notes.md",
 "confirmed": $(cat $OUT/confirm$K.json),
 "ran": "git -C /repo apply patch.diff; ./check.sh <ID> quick; git -C /repo checkout -- .",
 "checks": [${results%,}]
}
JSON
  ;;
esac
