#!/usr/bin/env python3
"""Prints a markdown table of /verif/seeded/*/meta.json (which check catches which seeded change)."""
import json,glob,os
rows=[]
for d in sorted(glob.glob('/verif/seeded/*/')):
    m=json.load(open(d+'meta.json'))
    name=os.path.basename(d.rstrip('/'))
    notes=''
    try:
        txt=open(d+'notes.md').read().strip().split('\n')
        notes=txt[0].lstrip('# ').strip()[:110].replace('|','/') if txt and txt[0] else ''
    except Exception: pass
    caught=[f"{c['check']} ({c['violation_lines']})" for c in m['checks'] if c['violation_lines']>0]
    missed=[c['check'] for c in m['checks'] if c['violation_lines']==0]
    conf=m['confirmed']
    ok = conf['builds']=='ok' and conf['existing_suite_with_change']=='pass' and conf['demo_with_change']=='FAIL' and conf['demo_without_change']=='pass'
    rows.append((name,notes,', '.join(caught) or '-',', '.join(missed) or '-','yes' if ok else f"no ({conf})"))
print('| seeded change | what it is | caught by (quick tier, VIOLATION lines) | silent | confirmed (builds, suite passes, demo fails with / passes without) |')
print('|---|---|---|---|---|')
for r in rows: print('| '+' | '.join(r)+' |')
