#!/bin/bash
# tools/trymutant.sh <PROP> <outdir-of-agent> <k> [check-ids...]
# Confirms a seeded change (compiles, suite passes, demo fails with / passes without it), runs the checks against it,
# and stores it under /verif/seeded/<PROP>-m<k>/ with meta.json. /repo is restored afterwards.
set -u
PROP=$1; OUT=$2; K=$3; shift 3
CHECKS=${@:-$PROP}
export GOFLAGS=-mod=mod GOPROXY=off GOSUMDB=off GOTOOLCHAIN=local
PATCH=$OUT/patch$K.diff
DEMO=$(ls $OUT/demo${K}_test.go 2>/dev/null)
DEST=/verif/seeded/$PROP-${TAG:-m}$K
cd /repo || exit 2
if [ -n "$(git status --porcelain)" ]; then echo "repo not clean"; exit 2; fi
restore() { git -C /repo checkout -q -- . ; git -C /repo clean -fdq; }
trap restore EXIT
demo_clean="n/a"; demo_mut="n/a"
if [ -n "$DEMO" ]; then
  cp $DEMO /repo/zz_demo_test.go
  if go test -vet=off -count=1 -run 'Demo|Seeded' . >/tmp/demo_clean.log 2>&1; then demo_clean=pass; else demo_clean=FAIL; fi
  rm -f /repo/zz_demo_test.go
fi
git apply $PATCH || { echo "patch does not apply"; exit 2; }
if go build ./... 2>/tmp/mut_build.log; then build=ok; else build=FAIL; fi
if go test -vet=off -count=1 -timeout 25m ./... >/tmp/mut_suite.log 2>&1; then suite=pass; else suite=FAIL; fi
if [ -n "$DEMO" ]; then
  cp $DEMO /repo/zz_demo_test.go
  if go test -vet=off -count=1 -run 'Demo|Seeded' . >/tmp/demo_mut.log 2>&1; then demo_mut=pass; else demo_mut=FAIL; fi
  rm -f /repo/zz_demo_test.go
fi
results=""
for c in $CHECKS; do
  # the evidence file of a run against a changed tree is not kept: save and put back the clean-tree one
  cp /verif/evidence/$c.json /tmp/evidence_keep_$c.json 2>/dev/null
  out=$(cd /verif && timeout 1500 ./check.sh $c quick 2>&1)
  [ -f /tmp/evidence_keep_$c.json ] && mv /tmp/evidence_keep_$c.json /verif/evidence/$c.json
  v=$(echo "$out" | grep -c "^VIOLATION")
  first=$(echo "$out" | grep -m1 "what:" | cut -c1-300 | tr '"' "'" | tr '\\' '/' | tr -c '[:print:]' '?')
  results="$results{\"check\":\"$c\",\"tier\":\"quick\",\"violation_lines\":$v,\"first\":\"$first\"},"
  echo "  $c quick: $v VIOLATION lines; $first"
done
restore
mkdir -p $DEST
cp $PATCH $DEST/patch.diff
[ -n "$DEMO" ] && cp $DEMO $DEST/demo_test.go
awk -v k=$K 'BEGIN{p=0} /^## /{p=0} $0 ~ "^## patch"k"\\.diff" || $0 ~ "^## "k"\\." || $0 ~ "patch"k"\\.diff" {p=1} p{print}' $OUT/NOTES.md > $DEST/notes.md 2>/dev/null
cat > $DEST/meta.json <<JSON
{
 "property": "$PROP",
 "source": "independent sub-agent given only the property text and a scratch worktree of /repo",
 "needs_to_manifest": "see notes.md",
 "confirmed": {"builds": "$build", "existing_suite_with_change": "$suite", "demo_without_change": "$demo_clean", "demo_with_change": "$demo_mut"},
 "ran": "git -C /repo apply patch.diff; ./check.sh <ID> quick; git -C /repo checkout -- .",
 "checks": [${results%,}]
}
JSON
echo "$PROP-m$K: build=$build suite=$suite demo_clean=$demo_clean demo_mut=$demo_mut"
