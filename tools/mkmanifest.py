#!/usr/bin/env python3
"""Writes /verif/MANIFEST.json from the table below (kept in one place so the
manifest stays consistent with what is built)."""
import json, os, subprocess
ROOT = os.path.dirname(os.path.dirname(os.path.abspath(__file__)))

# id -> (level category, technique, level text, level note, design_ref)
CHECKS = {
 "C18": ("exploration",
   "runtime monitoring: generated operation histories run on the real table library, every step compared online with a Go slice model (reference-model monitor); sort outcomes checked by permutation/order/argument-provenance oracles",
   "Held on the generated list histories and sort inputs of this run (counts in the evidence file); not a proof for all histories.",
   "Trusted: the slice model of Lua 5.1 list functions written from the manual; Go's sort as permutation oracle is not used (the oracle checks the result, not the algorithm).",
   "DESIGN.md section 5 C18"),
}
CHECKS["C01"] = ("exploration",
   "runtime monitoring: generated programs run on the real interpreter; an online reference-interpreter monitor compares the emit trace, results and failure line; metamorphic twins (layout, register padding, literal lifting) compared trace-to-trace",
   "Held on the generated programs of this run (counts, operator/storage coverage and inconclusive cases in the evidence file); a sampled exploration, not a proof over all programs.",
   "Trusted: the reference interpreter internal/lref written from the Lua 5.1 manual; error texts are not compared; sign of computed zeros and non-%.14g-stable number->string conversions are outside the compared domain (counted inconclusive).",
   "DESIGN.md section 5 C01")
PENDING = {}

def hooks_commits():
    try:
        out = subprocess.check_output(["git","-C","/repo","log","--format=%H %s"], text=True)
        return [l.split()[0] for l in out.splitlines() if l.split(" ",1)[1].startswith("verif hooks")]
    except Exception:
        return []

def main():
    props = [json.loads(l) for l in open(os.path.join(ROOT,"properties.jsonl"))]
    checks, na = [], []
    for p in props:
        pid = p["id"]
        if pid in CHECKS:
            cat, tech, text, note, ref = CHECKS[pid]
            checks.append({
                "property_id": pid,
                "quick_cmd": f"./check.sh {pid} quick",
                "thorough_cmd": f"./check.sh {pid} thorough",
                "evidence_file": f"/verif/evidence/{pid}.json",
                "replay_cmd_template": "./check.sh replay {path}",
                "engine": "vcheck",
                "level_claimed": {"category": cat, "text": text, "design_ref": ref},
                "level_note": note,
                "technique": tech,
            })
        else:
            na.append({"property_id": pid, "reason": PENDING.get(pid, "check not built yet in this round (work in progress; runtime monitoring applies, see DESIGN.md section 5)")})
    m = {
        "version": 1,
        "setup_cmd": "./check.sh build",
        "hooks": {
            "guard": "verif",
            "enable": "Go build tag: go build -tags verif (check.sh passes it; /repo/verif_hooks.go is the only guarded file)",
            "baseline_off_cmd": "cd /repo && GOFLAGS=-mod=mod GOPROXY=off GOSUMDB=off GOTOOLCHAIN=local go test -vet=off -count=1 -timeout 25m ./...",
            "source_commits": hooks_commits(),
            "add_only": True,
        },
        "engines": [
            {"name": "vcheck", "path": "/verif/cmd/vcheck", "serves_properties": sorted(CHECKS.keys()),
             "kind_free_text": "Go driver + sharded worker sub-processes running the real gopher-lua (built from /repo with -tags verif) under reference-model monitors, invariant hooks, fault injectors and the race detector"},
        ],
        "checks": checks,
        "notes": "Technique family: runtime monitoring and sanitizers. Every check rebuilds bin/vcheck from /repo's working tree through the go.mod replace directive. known_findings.json lists fixed and open findings.",
        "not_applicable": na,
    }
    with open(os.path.join(ROOT,"MANIFEST.json"),"w") as f:
        json.dump(m, f, indent=1)
        f.write("\n")
    # validate
    try:
        import jsonschema
        jsonschema.validate(m, json.load(open("/root/.vp/MANIFEST.schema.json")))
        print("MANIFEST.json valid:", len(checks), "checks,", len(na), "not_applicable")
    except ImportError:
        print("jsonschema not importable; written without validation")

if __name__ == "__main__":
    main()
