// Package lref is the reference interpreter: a direct tree-walking evaluator
// of the harness AST written from the Lua 5.1 manual. It shares nothing with
// the implementation under test except the language.
package lref

import (
	"fmt"
	"math"
	"strconv"
	"strings"

	"verif/internal/last"
)

// Value is nil | bool | float64 | string | *Table | *Closure | *Builtin | *Coroutine | *Userdata.
type Value = interface{}

type Table struct {
	hash  map[interface{}]Value
	order []interface{}
	pos   map[interface{}]int
	Meta  *Table
}

func NewTable() *Table {
	return &Table{hash: map[interface{}]Value{}, pos: map[interface{}]int{}}
}

func normKey(k Value) interface{} {
	if _, ok := k.(AmbZero); ok {
		return float64(0)
	}
	if f, ok := k.(float64); ok {
		if f == 0 {
			return float64(0)
		}
		return f
	}
	return k
}

func (t *Table) Get(k Value) Value {
	if k == nil {
		return nil
	}
	if f, ok := k.(float64); ok && f != f {
		return nil
	}
	return t.hash[normKey(k)]
}

func (t *Table) Set(k, v Value) {
	k = normKey(k)
	if v == nil {
		delete(t.hash, k)
		return
	}
	if _, ok := t.pos[k]; !ok {
		t.pos[k] = len(t.order)
		t.order = append(t.order, k)
	}
	t.hash[k] = v
}

// Next implements next(t, k) in the model's (insertion) order.
func (t *Table) Next(k Value) (Value, Value, bool) {
	i := 0
	if k != nil {
		p, ok := t.pos[normKey(k)]
		if !ok {
			return nil, nil, false
		}
		i = p + 1
	}
	for ; i < len(t.order); i++ {
		if v, ok := t.hash[t.order[i]]; ok {
			return t.order[i], v, true
		}
	}
	return nil, nil, true
}

// Border returns the smallest border and whether the border is unique.
func (t *Table) Border() (int, bool) {
	n := 0
	for t.hash[float64(n+1)] != nil {
		n++
	}
	unique := true
	for k := range t.hash {
		if f, ok := k.(float64); ok && f > float64(n) && f == math.Floor(f) {
			unique = false
			break
		}
	}
	return n, unique
}

func (t *Table) Len() int { return len(t.hash) }

// AmbZero is a number zero whose sign the reference semantics do not pin
// down (the manual's a - floor(a/b)*b gives +0 where an fmod-based modulo
// gives -0). It behaves as 0 everywhere; dividing by it is outside the model.
type AmbZero struct{}

type Cell struct{ V Value }

type Scope struct {
	name string
	cell *Cell
	next *Scope
}

func (s *Scope) bind(name string, v Value) *Scope {
	return &Scope{name: name, cell: &Cell{V: v}, next: s}
}

func (s *Scope) lookup(name string) *Cell {
	for ; s != nil; s = s.next {
		if s.name == name {
			return s.cell
		}
	}
	return nil
}

type Closure struct {
	F    *last.Func
	Up   *Scope
	FEnv *Table
}

type Builtin struct {
	Name string
	Fn   func(in *Interp, args []Value) []Value
}

type Userdata struct {
	Meta *Table
	Tag  int
}

// LuaError is a Lua-level error in flight.
type LuaError struct {
	Value Value
}

// Abort ends the model run as inconclusive.
type Abort struct{ Reason string }

func (a *Abort) Error() string { return "model abort: " + a.Reason }

// position markers inside error strings
const (
	MarkOpen  = "\x01"
	MarkClose = "\x02"
	RTText    = "<rt>"
)

func posMarker(s *last.Site) string {
	if s == nil {
		return ""
	}
	return MarkOpen + strconv.Itoa(s.First) + "-" + strconv.Itoa(s.Last) + MarkClose
}

func TypeName(v Value) string {
	switch v.(type) {
	case nil:
		return "nil"
	case bool:
		return "boolean"
	case float64, AmbZero:
		return "number"
	case string:
		return "string"
	case *Table:
		return "table"
	case *Closure, *Builtin:
		return "function"
	case *Coroutine:
		return "thread"
	case *Userdata:
		return "userdata"
	}
	return fmt.Sprintf("<%T>", v)
}

func truthy(v Value) bool {
	if v == nil {
		return false
	}
	if b, ok := v.(bool); ok {
		return b
	}
	return true
}

// Num2Str renders a number as Lua would where "%.14g" and shortest round-trip
// formatting agree; otherwise ok=false (outside the model's domain).
func Num2Str(f float64) (string, bool) {
	if f != f || math.IsInf(f, 0) {
		return "", false
	}
	if f == 0 {
		if math.Signbit(f) {
			return "", false
		}
		return "0", true
	}
	if f == math.Trunc(f) {
		if math.Abs(f) < (1 << 53) {
			return strconv.FormatInt(int64(f), 10), true
		}
		return "", false
	}
	a := math.Abs(f)
	if a < 1e-4 || a >= 1e14 {
		return "", false
	}
	s := strconv.FormatFloat(f, 'g', -1, 64)
	if strings.ContainsAny(s, "e") {
		return "", false
	}
	digits := 0
	for _, c := range s {
		if c >= '0' && c <= '9' {
			digits++
		}
	}
	if digits > 14 {
		return "", false
	}
	return s, true
}

func isSpace(b byte) bool {
	return b == ' ' || b == '\t' || b == '\n' || b == '\v' || b == '\f' || b == '\r'
}

// Str2Num converts a string as Lua 5.1 arithmetic coercion / tonumber does,
// for plain decimal and 0x-hexadecimal integer numerals with optional blanks.
func Str2Num(s string) (float64, bool) {
	i, j := 0, len(s)
	for i < j && isSpace(s[i]) {
		i++
	}
	for j > i && isSpace(s[j-1]) {
		j--
	}
	s = s[i:j]
	if s == "" {
		return 0, false
	}
	neg := false
	body := s
	if body[0] == '-' || body[0] == '+' {
		neg = body[0] == '-'
		body = body[1:]
	}
	if len(body) > 2 && body[0] == '0' && (body[1] == 'x' || body[1] == 'X') {
		var v float64
		for k := 2; k < len(body); k++ {
			c := body[k]
			var d int
			switch {
			case c >= '0' && c <= '9':
				d = int(c - '0')
			case c >= 'a' && c <= 'f':
				d = int(c-'a') + 10
			case c >= 'A' && c <= 'F':
				d = int(c-'A') + 10
			default:
				return 0, false
			}
			v = v*16 + float64(d)
		}
		if neg {
			v = -v
		}
		return v, true
	}
	// decimal: digits [. digits] [e [+-] digits]
	k := 0
	nd := 0
	for k < len(body) && body[k] >= '0' && body[k] <= '9' {
		k++
		nd++
	}
	if k < len(body) && body[k] == '.' {
		k++
		for k < len(body) && body[k] >= '0' && body[k] <= '9' {
			k++
			nd++
		}
	}
	if nd == 0 {
		return 0, false
	}
	if k < len(body) && (body[k] == 'e' || body[k] == 'E') {
		k++
		if k < len(body) && (body[k] == '+' || body[k] == '-') {
			k++
		}
		ne := 0
		for k < len(body) && body[k] >= '0' && body[k] <= '9' {
			k++
			ne++
		}
		if ne == 0 {
			return 0, false
		}
	}
	if k != len(body) {
		return 0, false
	}
	v, err := strconv.ParseFloat(body, 64)
	if err != nil && !math.IsInf(v, 0) {
		return 0, false
	}
	if neg {
		v = -v
	}
	return v, true
}

// ToNumber is the arithmetic coercion.
func ToNumber(v Value) (float64, bool) {
	switch x := v.(type) {
	case float64:
		return x, true
	case AmbZero:
		return 0, true
	case string:
		return Str2Num(x)
	}
	return 0, false
}

// plain turns an ambiguous zero into an ordinary 0 where the sign cannot matter.
func plain(v Value) Value {
	if _, ok := v.(AmbZero); ok {
		return float64(0)
	}
	return v
}
