package lref

import (
	"fmt"
	"math"
	"runtime"
	"strconv"
	"strings"

	"verif/internal/canon"
	"verif/internal/last"
)

type ctl int

const (
	ctlNone ctl = iota
	ctlBreak
	ctlReturn
	ctlGoto
)

type tailCall struct {
	fn   Value
	args []Value
}

type Frame struct {
	cl      *Closure
	scope   *Scope // scope at the statement being executed (for debug queries)
	site    *last.Site
	varargs []Value
	ret     []Value
	tail    *tailCall
	gotoLbl string
	tails   int // activations this one replaced by tail calls
}

type thread struct {
	frames []*Frame
	co     *Coroutine
	nC     int // host-call boundaries on this thread's stack
	depth  int
}

type Coroutine struct {
	fn       Value
	status   string
	th       *thread
	resumeCh chan []Value
	yieldCh  chan coMsg
	started  bool
}

type coMsg struct {
	vals  []Value
	err   *LuaError
	abort interface{}
	done  bool
}

// Interp is one model run.
type Interp struct {
	resumeDepth int // nested Resume calls in progress
	G           *Table
	StrMeta     *Table
	th          *thread
	main        *thread
	Steps       int
	MaxSteps    int
	MaxDepth    int
	Trace       []string
	ids         map[interface{}]int
	done        chan struct{}
	usesVA      map[*last.Func]bool
	// statistics for evidence
	StmtKinds map[string]int
	ExprKinds map[string]int
	// Tags raised by the model when it executes an operation a known finding is about.
	Tags map[string]int
	// ChunkName used in position prefixes is implicit (markers), nothing to store.
	Bag []string
	// host-call fault injection: the FaultAt-th emit raises FaultValue (0 = off)
	EmitCount int
	// HandlerDepth > 0 while an xpcall message handler runs.
	HandlerDepth int
	// StackLimit: if >0, a Lua call deeper than this raises a "stack overflow" run-time error.
	StackLimit int
}

func New() *Interp {
	in := &Interp{
		G:         NewTable(),
		MaxSteps:  400000,
		MaxDepth:  190,
		ids:       map[interface{}]int{},
		done:      make(chan struct{}),
		usesVA:    map[*last.Func]bool{},
		StmtKinds: map[string]int{},
		ExprKinds: map[string]int{},
		Tags:      map[string]int{},
	}
	in.main = &thread{}
	in.th = in.main
	in.openBase()
	return in
}

// Close releases suspended coroutine goroutines.
func (in *Interp) Close() {
	select {
	case <-in.done:
	default:
		close(in.done)
	}
}

func (in *Interp) abort(reason string) {
	panic(&Abort{Reason: reason})
}

func (in *Interp) step() {
	in.Steps++
	if in.Steps > in.MaxSteps {
		in.abort("step budget")
	}
}

// Canon renders a value for the trace.
func (in *Interp) Canon(v Value) string {
	switch x := v.(type) {
	case nil:
		return "nil"
	case bool:
		if x {
			return "true"
		}
		return "false"
	case float64:
		return canon.NumStr(x)
	case AmbZero:
		return "0"
	case string:
		return canon.ModelString(x)
	case *Table:
		return "table#" + strconv.Itoa(in.id(x))
	case *Closure, *Builtin:
		return "function#" + strconv.Itoa(in.id(x))
	case *Userdata:
		return "userdata#" + strconv.Itoa(in.id(x))
	case *Coroutine:
		return "thread#" + strconv.Itoa(in.id(x))
	case GoPanicValue:
		return `"<rt>"`
	}
	return fmt.Sprintf("<%T>", v)
}

func (in *Interp) id(p interface{}) int {
	if id, ok := in.ids[p]; ok {
		return id
	}
	id := len(in.ids) + 1
	in.ids[p] = id
	return id
}

func (in *Interp) CanonList(vs []Value) string {
	var sb strings.Builder
	for i, v := range vs {
		if i > 0 {
			sb.WriteByte(',')
		}
		sb.WriteString(in.Canon(v))
	}
	return sb.String()
}

func (in *Interp) Emit(s string) { in.Trace = append(in.Trace, s) }

// ---- errors ----

func (in *Interp) curSite() *last.Site {
	fr := in.th.frames
	if len(fr) == 0 {
		return nil
	}
	return fr[len(fr)-1].site
}

// siteAtLevel returns the site of the Lua function at the given level (1 = the
// running Lua function).
func (in *Interp) siteAtLevel(level int) *last.Site {
	fr := in.th.frames
	if level < 1 {
		return nil
	}
	// lua_getstack: every activation stands for itself and, below it, for the
	// activations it replaced by tail calls; those have no position
	lv := level - 1
	for i := len(fr) - 1; i >= 0; i-- {
		if lv == 0 {
			return fr[i].site
		}
		lv -= 1 + fr[i].tails
		if lv < 0 {
			return nil
		}
	}
	return nil
}

// RTError raises a run-time fault at the current position.
func (in *Interp) RTError(format string, a ...interface{}) {
	msg := fmt.Sprintf(format, a...)
	if !strings.Contains(msg, " ") {
		msg += " error"
	}
	panic(&LuaError{Value: posMarker(in.curSite()) + msg})
}

// Throw raises an arbitrary value without position.
func (in *Interp) Throw(v Value) { panic(&LuaError{Value: v}) }

// ---- metatables ----

func (in *Interp) metatable(v Value) *Table {
	switch x := v.(type) {
	case *Table:
		return x.Meta
	case *Userdata:
		return x.Meta
	case string:
		return in.StrMeta
	}
	return nil
}

func (in *Interp) metaOf(v Value, event string) Value {
	mt := in.metatable(v)
	if mt == nil {
		return nil
	}
	return mt.Get(event)
}

func isFunc(v Value) bool {
	switch v.(type) {
	case *Closure, *Builtin:
		return true
	}
	return false
}

func first(vs []Value) Value {
	if len(vs) == 0 {
		return nil
	}
	return vs[0]
}

// callC calls fn across a host-call boundary (metamethods, pcall, iterators...).
func (in *Interp) callC(fn Value, args ...Value) []Value {
	th := in.th
	th.nC++
	defer func() { th.nC-- }()
	return in.Call(fn, args)
}

func (in *Interp) Index(obj, key Value) Value {
	for loop := 0; loop < 100; loop++ {
		var h Value
		if t, ok := obj.(*Table); ok {
			if v := t.Get(key); v != nil {
				return v
			}
			if t.Meta == nil {
				return nil
			}
			h = t.Meta.Get("__index")
			if h == nil {
				return nil
			}
		} else {
			h = in.metaOf(obj, "__index")
			if h == nil {
				in.RTError("attempt to index a %s value", TypeName(obj))
			}
		}
		if isFunc(h) {
			return first(in.callC(h, obj, key))
		}
		obj = h
	}
	in.RTError("loop in gettable")
	return nil
}

func (in *Interp) checkKey(key Value) {
	if key == nil {
		in.RTError("table index is nil")
	}
	if f, ok := key.(float64); ok && f != f {
		in.RTError("table index is NaN")
	}
}

func (in *Interp) SetIndex(obj, key, val Value) {
	for loop := 0; loop < 100; loop++ {
		var h Value
		if t, ok := obj.(*Table); ok {
			if t.Get(key) != nil || t.Meta == nil {
				in.checkKey(key)
				t.Set(key, val)
				return
			}
			h = t.Meta.Get("__newindex")
			if h == nil {
				in.checkKey(key)
				t.Set(key, val)
				return
			}
		} else {
			h = in.metaOf(obj, "__newindex")
			if h == nil {
				in.RTError("attempt to index a %s value", TypeName(obj))
			}
		}
		if isFunc(h) {
			in.callC(h, obj, key, val)
			return
		}
		obj = h
	}
	in.RTError("loop in settable")
}

// ---- operators ----

func (in *Interp) arithMeta(event string, a, b Value) Value {
	h := in.metaOf(a, event)
	if h == nil {
		h = in.metaOf(b, event)
	}
	if h == nil {
		bad := a
		if _, ok := ToNumber(a); ok {
			bad = b
		}
		in.RTError("attempt to perform arithmetic on a %s value", TypeName(bad))
	}
	return first(in.callC(h, a, b))
}

func luaMod(a, b float64) float64 {
	return a - math.Floor(a/b)*b
}

func (in *Interp) Arith(op string, a, b Value) Value {
	x, ok1 := ToNumber(a)
	y, ok2 := ToNumber(b)
	if ok1 && ok2 {
		_, az := a.(AmbZero)
		_, bz := b.(AmbZero)
		if az || bz {
			// zero of unknown sign: results that do not depend on the sign are exact
			switch op {
			case "+":
				if az && bz || (az && y == 0) || (bz && x == 0) {
					return AmbZero{}
				}
				return x + y
			case "-":
				if az && bz || (az && y == 0) || (bz && x == 0) {
					return AmbZero{}
				}
				return x - y
			case "*":
				if x != x || y != y || math.IsInf(x, 0) || math.IsInf(y, 0) {
					return math.NaN()
				}
				return AmbZero{}
			case "/":
				if bz {
					if y != y || az || x == 0 || x != x {
						return math.NaN()
					}
					in.abort("division by a zero of unspecified sign")
				}
				if y == 0 || y != y {
					return math.NaN()
				}
				return AmbZero{}
			case "%":
				if bz || y == 0 || y != y {
					return math.NaN()
				}
				if math.IsInf(y, 0) {
					in.abort("modulo outside exact domain")
				}
				return AmbZero{}
			case "^":
				if bz {
					return float64(1)
				}
				if y != y {
					return math.NaN()
				}
				if y == 0 {
					return float64(1)
				}
				if y > 0 {
					if y == math.Trunc(y) && math.Mod(y, 2) == 1 {
						return AmbZero{} // odd power keeps the sign
					}
					return float64(0)
				}
				if y == math.Trunc(y) && math.Mod(-y, 2) == 1 {
					in.abort("division by a zero of unspecified sign")
				}
				return math.Inf(1)
			}
		}
		switch op {
		case "+":
			return x + y
		case "-":
			return x - y
		case "*":
			return x * y
		case "/":
			return x / y
		case "%":
			// outside the domain where a - floor(a/b)*b and the fmod-based definition agree bit for bit
			if math.IsInf(x, 0) || math.IsInf(y, 0) || math.Abs(x) >= (1<<53) || math.Abs(y) >= (1<<53) {
				in.abort("modulo outside exact domain")
			}
			if y != 0 && x == x && y == y {
				q := x / y
				if math.Abs(q) >= (1 << 52) {
					in.abort("modulo outside exact domain")
				}
			}
			r := luaMod(x, y)
			if r == 0 && (x < 0 || (x == 0 && math.Signbit(x))) {
				// the manual's formula gives +0, an fmod-based modulo -0
				return AmbZero{}
			}
			return r
		case "^":
			return math.Pow(x, y)
		}
	}
	ev := map[string]string{"+": "__add", "-": "__sub", "*": "__mul", "/": "__div", "%": "__mod", "^": "__pow"}[op]
	return in.arithMeta(ev, a, b)
}

func (in *Interp) Unm(a Value) Value {
	if _, ok := a.(AmbZero); ok {
		return a
	}
	if x, ok := ToNumber(a); ok {
		return -x
	}
	h := in.metaOf(a, "__unm")
	if h == nil {
		in.RTError("attempt to perform arithmetic on a %s value", TypeName(a))
	}
	return first(in.callC(h, a, a))
}

func (in *Interp) Len(a Value) Value {
	switch x := a.(type) {
	case string:
		return float64(len(x))
	case *Table:
		n, unique := x.Border()
		if !unique {
			in.abort("length of a table with holes")
		}
		return float64(n)
	}
	h := in.metaOf(a, "__len")
	if h == nil {
		in.RTError("attempt to get length of a %s value", TypeName(a))
	}
	return first(in.callC(h, a))
}

func (in *Interp) tostr(v Value) (string, bool) {
	switch x := v.(type) {
	case string:
		return x, true
	case AmbZero:
		in.abort("number->string outside model domain")
	case float64:
		s, ok := Num2Str(x)
		if !ok {
			in.abort("number->string outside model domain")
		}
		return s, true
	}
	return "", false
}

func (in *Interp) Concat(a, b Value) Value {
	_, sa := a.(string)
	_, na := plain(a).(float64)
	_, sb := b.(string)
	_, nb := plain(b).(float64)
	if (sa || na) && (sb || nb) {
		x, _ := in.tostr(a)
		y, _ := in.tostr(b)
		if len(x)+len(y) > 1<<20 {
			in.abort("string too long")
		}
		return x + y
	}
	h := in.metaOf(a, "__concat")
	if h == nil {
		h = in.metaOf(b, "__concat")
	}
	if h == nil {
		bad := a
		if sa || na {
			bad = b
		}
		in.RTError("attempt to concatenate a %s value", TypeName(bad))
	}
	return first(in.callC(h, a, b))
}

func RawEqual(a, b Value) bool {
	a, b = plain(a), plain(b)
	if x, ok := a.(float64); ok {
		y, ok2 := b.(float64)
		return ok2 && x == y
	}
	if _, ok := b.(float64); ok {
		return false
	}
	return a == b
}

func (in *Interp) Equal(a, b Value) bool {
	if RawEqual(a, b) {
		return true
	}
	var m1, m2 *Table
	switch x := a.(type) {
	case *Table:
		y, ok := b.(*Table)
		if !ok {
			return false
		}
		m1, m2 = x.Meta, y.Meta
	case *Userdata:
		y, ok := b.(*Userdata)
		if !ok {
			return false
		}
		m1, m2 = x.Meta, y.Meta
	default:
		return false
	}
	if m1 == nil || m2 == nil {
		return false
	}
	h1 := m1.Get("__eq")
	if h1 == nil {
		return false
	}
	if m1 != m2 {
		h2 := m2.Get("__eq")
		if h2 == nil || !RawEqual(h1, h2) {
			return false
		}
	}
	return truthy(first(in.callC(h1, a, b)))
}

func (in *Interp) orderTM(a, b Value, event string) (bool, bool) {
	h1 := in.metaOf(a, event)
	if h1 == nil {
		return false, false
	}
	h2 := in.metaOf(b, event)
	if h2 == nil || !RawEqual(h1, h2) {
		return false, false
	}
	return truthy(first(in.callC(h1, a, b))), true
}

func (in *Interp) orderError(a, b Value) {
	in.RTError("attempt to compare %s with %s", TypeName(a), TypeName(b))
}

func (in *Interp) Less(a, b Value) bool {
	a, b = plain(a), plain(b)
	if TypeName(a) != TypeName(b) {
		in.orderError(a, b)
	}
	switch x := a.(type) {
	case float64:
		return x < b.(float64)
	case string:
		return x < b.(string)
	}
	if r, ok := in.orderTM(a, b, "__lt"); ok {
		return r
	}
	in.orderError(a, b)
	return false
}

func (in *Interp) LessEq(a, b Value) bool {
	a, b = plain(a), plain(b)
	if TypeName(a) != TypeName(b) {
		in.orderError(a, b)
	}
	switch x := a.(type) {
	case float64:
		return x <= b.(float64)
	case string:
		return x <= b.(string)
	}
	if r, ok := in.orderTM(a, b, "__le"); ok {
		return r
	}
	if r, ok := in.orderTM(b, a, "__lt"); ok {
		return !r
	}
	in.orderError(a, b)
	return false
}

// ---- calls ----

func (in *Interp) usesVararg(f *last.Func) bool {
	if v, ok := in.usesVA[f]; ok {
		return v
	}
	v := blockUsesVararg(f.Body)
	in.usesVA[f] = v
	return v
}

// resolveCallable follows __call until a function is found (or raises).
func (in *Interp) resolveCallable(fn Value, args []Value) (Value, []Value) {
	for i := 0; i < 100; i++ {
		if isFunc(fn) {
			return fn, args
		}
		h := in.metaOf(fn, "__call")
		if h == nil || !isFunc(h) {
			in.RTError("attempt to call a %s value", TypeName(fn))
		}
		args = append([]Value{fn}, args...)
		fn = h
	}
	in.RTError("__call chain too long")
	return nil, nil
}

// Call calls fn with args and returns all results. Tail calls are a loop.
func (in *Interp) Call(fn Value, args []Value) []Value {
	tails := 0
	for {
		in.step()
		fn, args = in.resolveCallable(fn, args)
		switch f := fn.(type) {
		case *Builtin:
			return f.Fn(in, args)
		case *Closure:
			res, tc := in.callClosure(f, args, tails)
			if tc == nil {
				return res
			}
			fn, args = tc.fn, tc.args
			tails++
		}
	}
}

func (in *Interp) callClosure(cl *Closure, args []Value, tails int) ([]Value, *tailCall) {
	th := in.th
	th.depth++
	if th.depth > in.MaxDepth {
		if in.StackLimit > 0 {
			th.depth--
			in.RTError("stack overflow")
		}
		in.abort("call depth beyond model budget")
	}
	if in.StackLimit > 0 && len(th.frames)+1 > in.StackLimit {
		th.depth--
		in.RTError("stack overflow")
	}
	fr := &Frame{cl: cl, tails: tails}
	th.frames = append(th.frames, fr)
	defer func() {
		th.frames = th.frames[:len(th.frames)-1]
		th.depth--
	}()
	f := cl.F
	sc := cl.Up
	for i, p := range f.Params {
		var v Value
		if i < len(args) {
			v = args[i]
		}
		sc = sc.bind(p, v)
	}
	if f.Vararg {
		if len(args) > len(f.Params) {
			fr.varargs = append([]Value(nil), args[len(f.Params):]...)
		}
		if !in.usesVararg(f) {
			at := NewTable()
			for i, v := range fr.varargs {
				at.Set(float64(i+1), v)
			}
			at.Set("n", float64(len(fr.varargs)))
			sc = sc.bind("arg", at)
		}
	}
	c := in.execBlock(f.Body, sc, fr)
	switch c {
	case ctlReturn:
		if fr.tail != nil {
			return nil, fr.tail
		}
		return fr.ret, nil
	case ctlGoto:
		in.abort("goto escaped its function (generator bug): " + fr.gotoLbl)
	case ctlBreak:
		in.abort("break outside a loop (generator bug)")
	}
	return nil, nil
}

// ---- statements ----

func (in *Interp) execBlock(b *last.Block, sc *Scope, fr *Frame) ctl {
	var envAt []*Scope
	hasLabel := false
	for _, s := range b.Stmts {
		if _, ok := s.(*last.SLabel); ok {
			hasLabel = true
			break
		}
	}
	if hasLabel {
		envAt = make([]*Scope, len(b.Stmts)+1)
	}
	i := 0
	for i < len(b.Stmts) {
		if envAt != nil {
			envAt[i] = sc
		}
		c, nsc := in.execStmt(b.Stmts[i], sc, fr)
		sc = nsc
		if c == ctlGoto && hasLabel {
			found := -1
			for j, s := range b.Stmts {
				if l, ok := s.(*last.SLabel); ok && l.Name == fr.gotoLbl {
					found = j
					break
				}
			}
			if found >= 0 {
				if found <= i && envAt[found] != nil {
					sc = envAt[found] // backward jump: leave the scope of later locals
				}
				i = found
				in.step()
				continue
			}
		}
		if c != ctlNone {
			return c
		}
		i++
	}
	return ctlNone
}

func (in *Interp) assignName(name string, v Value, sc *Scope, fr *Frame) {
	if c := sc.lookup(name); c != nil {
		c.V = v
		return
	}
	in.SetIndex(fr.cl.FEnv, name, v)
}

func adjust(vs []Value, n int) []Value {
	if len(vs) >= n {
		return vs[:n]
	}
	out := make([]Value, n)
	copy(out, vs)
	return out
}

func (in *Interp) kind(m map[string]int, k string) { m[k]++ }

func (in *Interp) execStmt(s last.Stmt, sc *Scope, fr *Frame) (ctl, *Scope) {
	in.step()
	fr.scope = sc
	switch x := s.(type) {
	case *last.SLocal:
		in.kind(in.StmtKinds, "local")
		fr.site = &x.Site
		vals := adjust(in.evalList(x.Exprs, sc, fr), len(x.Names))
		for i, n := range x.Names {
			sc = sc.bind(n, vals[i])
		}
		return ctlNone, sc
	case *last.SAssign:
		in.kind(in.StmtKinds, "assign")
		fr.site = &x.Site
		type target struct {
			cell     *Cell
			global   string
			obj, key Value
		}
		tg := make([]target, len(x.LHS))
		for i, l := range x.LHS {
			switch e := l.(type) {
			case *last.EName:
				if c := sc.lookup(e.Name); c != nil {
					tg[i].cell = c
				} else {
					tg[i].global = e.Name
				}
			case *last.EIndex:
				tg[i].obj = in.eval(e.Obj, sc, fr)
				tg[i].key = in.eval(e.Key, sc, fr)
			default:
				in.abort("bad assignment target")
			}
		}
		vals := adjust(in.evalList(x.RHS, sc, fr), len(x.LHS))
		if len(tg) > 1 {
			// the order among stores is undefined: a location assigned twice is outside the model
			for i := range tg {
				for j := i + 1; j < len(tg); j++ {
					a, b := tg[i], tg[j]
					same := false
					switch {
					case a.cell != nil && a.cell == b.cell:
						same = true
					case a.global != "" && a.global == b.global:
						same = true
					case a.obj != nil && b.obj != nil && RawEqual(a.obj, b.obj) && RawEqual(normKey(a.key), normKey(b.key)):
						same = true
					}
					if same {
						in.abort("one location assigned twice in a multiple assignment")
					}
				}
			}
		}
		// real Lua stores right to left; with distinct locations and no metamethod
		// side effects the order is unobservable. Stores are done right to left.
		for i := len(tg) - 1; i >= 0; i-- {
			t := tg[i]
			switch {
			case t.cell != nil:
				t.cell.V = vals[i]
			case t.global != "":
				in.SetIndex(fr.cl.FEnv, t.global, vals[i])
			default:
				in.SetIndex(t.obj, t.key, vals[i])
			}
		}
		return ctlNone, sc
	case *last.SCall:
		in.kind(in.StmtKinds, "call")
		fr.site = &x.Site
		in.evalMulti(x.Call, sc, fr)
		return ctlNone, sc
	case *last.SDo:
		in.kind(in.StmtKinds, "do")
		return in.execBlock(x.Body, sc, fr), sc
	case *last.SWhile:
		in.kind(in.StmtKinds, "while")
		for {
			fr.site = &x.Site
			fr.scope = sc // the body's locals are gone when the condition is evaluated again
			in.step()
			if !truthy(in.eval(x.Cond, sc, fr)) {
				return ctlNone, sc
			}
			c := in.execBlock(x.Body, sc, fr)
			if c == ctlBreak {
				return ctlNone, sc
			}
			if c != ctlNone {
				return c, sc
			}
		}
	case *last.SRepeat:
		in.kind(in.StmtKinds, "repeat")
		for {
			in.step()
			// the until expression sees the body's locals: run the body statements inline
			bsc := sc
			var c ctl
			hasLabel := false
			for _, st := range x.Body.Stmts {
				if _, ok := st.(*last.SLabel); ok {
					hasLabel = true
				}
			}
			if hasLabel {
				// labels inside a repeat body: execute as a block (body locals then invisible to until — generator avoids combining both)
				c = in.execBlock(x.Body, sc, fr)
			} else {
				for _, st := range x.Body.Stmts {
					c, bsc = in.execStmt(st, bsc, fr)
					if c != ctlNone {
						break
					}
				}
			}
			if c == ctlBreak {
				return ctlNone, sc
			}
			if c != ctlNone {
				return c, sc
			}
			fr.site = &x.Site
			fr.scope = bsc
			if truthy(in.eval(x.Cond, bsc, fr)) {
				return ctlNone, sc
			}
		}
	case *last.SIf:
		in.kind(in.StmtKinds, "if")
		for i, cnd := range x.Conds {
			if i < len(x.Sites) {
				fr.site = &x.Sites[i]
			}
			if truthy(in.eval(cnd, sc, fr)) {
				return in.execBlock(x.Blocks[i], sc, fr), sc
			}
		}
		if x.Else != nil {
			return in.execBlock(x.Else, sc, fr), sc
		}
		return ctlNone, sc
	case *last.SNumFor:
		in.kind(in.StmtKinds, "numfor")
		fr.site = &x.Site
		v0 := in.eval(x.Start, sc, fr)
		v1 := in.eval(x.Limit, sc, fr)
		var v2 Value = float64(1)
		if x.Step != nil {
			v2 = in.eval(x.Step, sc, fr)
		}
		start, ok0 := ToNumber(v0)
		limit, ok1 := ToNumber(v1)
		stp, ok2 := ToNumber(v2)
		if !ok0 {
			in.RTError("'for' initial value must be a number")
		}
		if !ok1 {
			in.RTError("'for' limit must be a number")
		}
		if !ok2 {
			in.RTError("'for' step must be a number")
		}
		if _, isStr := v0.(string); isStr {
			in.Tags["numfor-string-bound"]++
		}
		if _, isStr := v1.(string); isStr {
			in.Tags["numfor-string-bound"]++
		}
		if _, isStr := v2.(string); isStr {
			in.Tags["numfor-string-bound"]++
		}
		if stp == 0 {
			in.abort("for step 0")
		}
		for v := start; (stp > 0 && v <= limit) || (stp <= 0 && v >= limit); v += stp {
			in.step()
			c := in.execBlock(x.Body, sc.bind(x.Var, v), fr)
			if c == ctlBreak {
				break
			}
			if c != ctlNone {
				return c, sc
			}
		}
		return ctlNone, sc
	case *last.SGenFor:
		in.kind(in.StmtKinds, "genfor")
		fr.site = &x.Site
		vals := adjust(in.evalList(x.Exprs, sc, fr), 3)
		f, st, ctlv := vals[0], vals[1], vals[2]
		for {
			in.step()
			fr.site = &x.Site
			fr.scope = sc // the loop variables are not in scope while the iterator runs
			rs := adjust(in.callC(f, st, ctlv), len(x.Names))
			if rs[0] == nil {
				break
			}
			ctlv = rs[0]
			bsc := sc
			for i, n := range x.Names {
				bsc = bsc.bind(n, rs[i])
			}
			c := in.execBlock(x.Body, bsc, fr)
			if c == ctlBreak {
				break
			}
			if c != ctlNone {
				return c, sc
			}
		}
		return ctlNone, sc
	case *last.SFunc:
		in.kind(in.StmtKinds, "function")
		fr.site = &x.Site
		f := x.F
		cl := &Closure{F: f, Up: sc, FEnv: fr.cl.FEnv}
		if x.Method != "" {
			obj := in.eval(x.Target, sc, fr)
			// `function a.b:m(...)` adds the implicit self parameter (already present in F.Params by construction)
			in.SetIndex(obj, x.Method, cl)
			return ctlNone, sc
		}
		switch t := x.Target.(type) {
		case *last.EName:
			in.assignName(t.Name, cl, sc, fr)
		case *last.EIndex:
			obj := in.eval(t.Obj, sc, fr)
			key := in.eval(t.Key, sc, fr)
			in.SetIndex(obj, key, cl)
		}
		return ctlNone, sc
	case *last.SLocalFunc:
		in.kind(in.StmtKinds, "localfunction")
		fr.site = &x.Site
		sc = sc.bind(x.Name, nil)
		sc.cell.V = &Closure{F: x.F, Up: sc, FEnv: fr.cl.FEnv}
		return ctlNone, sc
	case *last.SReturn:
		in.kind(in.StmtKinds, "return")
		fr.site = &x.Site
		if len(x.Exprs) == 1 {
			switch c := x.Exprs[0].(type) {
			case *last.ECall:
				fn := in.eval(c.Fn, sc, fr)
				args := in.evalList(c.Args, sc, fr)
				fn, args = in.resolveCallable(fn, args)
				in.kind(in.StmtKinds, "tailcall")
				if b, ok := fn.(*Builtin); ok {
					// a host function runs on top of the activation that tail-calls it
					in.step()
					fr.ret = b.Fn(in, args)
					return ctlReturn, sc
				}
				fr.tail = &tailCall{fn: fn, args: args}
				return ctlReturn, sc
			case *last.EMethod:
				obj := in.eval(c.Obj, sc, fr)
				fn := in.Index(obj, c.Name)
				args := append([]Value{obj}, in.evalList(c.Args, sc, fr)...)
				fn, args = in.resolveCallable(fn, args)
				in.kind(in.StmtKinds, "tailcall")
				if b, ok := fn.(*Builtin); ok {
					in.step()
					fr.ret = b.Fn(in, args)
					return ctlReturn, sc
				}
				fr.tail = &tailCall{fn: fn, args: args}
				return ctlReturn, sc
			}
		}
		fr.ret = in.evalList(x.Exprs, sc, fr)
		return ctlReturn, sc
	case *last.SBreak:
		in.kind(in.StmtKinds, "break")
		return ctlBreak, sc
	case *last.SGoto:
		in.kind(in.StmtKinds, "goto")
		fr.gotoLbl = x.Label
		return ctlGoto, sc
	case *last.SLabel:
		return ctlNone, sc
	}
	in.abort(fmt.Sprintf("unknown statement %T", s))
	return ctlNone, sc
}

// ---- expressions ----

func (in *Interp) evalList(es []last.Expr, sc *Scope, fr *Frame) []Value {
	if len(es) == 0 {
		return nil
	}
	out := make([]Value, 0, len(es))
	for i, e := range es {
		if i == len(es)-1 {
			out = append(out, in.evalMulti(e, sc, fr)...)
		} else {
			out = append(out, in.eval(e, sc, fr))
		}
	}
	return out
}

func (in *Interp) evalMulti(e last.Expr, sc *Scope, fr *Frame) []Value {
	switch x := e.(type) {
	case *last.ECall:
		in.kind(in.ExprKinds, "call")
		fn := in.eval(x.Fn, sc, fr)
		args := in.evalList(x.Args, sc, fr)
		return in.Call(fn, args)
	case *last.EMethod:
		in.kind(in.ExprKinds, "method")
		obj := in.eval(x.Obj, sc, fr)
		fn := in.Index(obj, x.Name)
		args := append([]Value{obj}, in.evalList(x.Args, sc, fr)...)
		return in.Call(fn, args)
	case *last.EVararg:
		in.kind(in.ExprKinds, "vararg")
		return append([]Value(nil), fr.varargs...)
	}
	return []Value{in.eval(e, sc, fr)}
}

func (in *Interp) eval(e last.Expr, sc *Scope, fr *Frame) Value {
	switch x := e.(type) {
	case *last.ENil:
		return nil
	case *last.ETrue:
		return true
	case *last.EFalse:
		return false
	case *last.ENum:
		return x.V
	case *last.EStr:
		return x.V
	case *last.EName:
		if c := sc.lookup(x.Name); c != nil {
			return c.V
		}
		in.kind(in.ExprKinds, "global")
		return in.Index(fr.cl.FEnv, x.Name)
	case *last.EVararg, *last.ECall, *last.EMethod:
		return first(in.evalMulti(e, sc, fr))
	case *last.EParen:
		return in.eval(x.X, sc, fr)
	case *last.EIndex:
		in.kind(in.ExprKinds, "index")
		obj := in.eval(x.Obj, sc, fr)
		key := in.eval(x.Key, sc, fr)
		return in.Index(obj, key)
	case *last.EFunc:
		in.kind(in.ExprKinds, "function")
		return &Closure{F: x.F, Up: sc, FEnv: fr.cl.FEnv}
	case *last.ETable:
		in.kind(in.ExprKinds, "table")
		t := NewTable()
		n := 0
		for i, it := range x.Items {
			switch it.Kind {
			case last.TPos:
				if i == len(x.Items)-1 {
					for _, v := range in.evalMulti(it.Val, sc, fr) {
						n++
						t.Set(float64(n), v)
					}
				} else {
					n++
					t.Set(float64(n), in.eval(it.Val, sc, fr))
				}
			case last.TName:
				t.Set(it.Name, in.eval(it.Val, sc, fr))
			case last.TKey:
				k := in.eval(it.Key, sc, fr)
				v := in.eval(it.Val, sc, fr)
				in.checkKey(k)
				t.Set(k, v)
			}
		}
		return t
	case *last.EUn:
		in.kind(in.ExprKinds, "un"+x.Op)
		v := in.eval(x.X, sc, fr)
		switch x.Op {
		case "-":
			return in.Unm(v)
		case "not":
			return !truthy(v)
		case "#":
			return in.Len(v)
		}
	case *last.EBin:
		in.kind(in.ExprKinds, "bin"+x.Op)
		switch x.Op {
		case "and":
			l := in.eval(x.L, sc, fr)
			if !truthy(l) {
				return l
			}
			return in.eval(x.R, sc, fr)
		case "or":
			l := in.eval(x.L, sc, fr)
			if truthy(l) {
				return l
			}
			return in.eval(x.R, sc, fr)
		}
		l := in.eval(x.L, sc, fr)
		r := in.eval(x.R, sc, fr)
		switch x.Op {
		case "+", "-", "*", "/", "%", "^":
			in.zeroSignGuard(x, l, r)
			return in.Arith(x.Op, l, r)
		case "..":
			return in.Concat(l, r)
		case "==":
			return in.Equal(l, r)
		case "~=":
			return !in.Equal(l, r)
		case "<":
			return in.Less(l, r)
		case "<=":
			return in.LessEq(l, r)
		case ">":
			return in.Less(r, l)
		case ">=":
			return in.LessEq(r, l)
		}
	}
	in.abort(fmt.Sprintf("unknown expression %T", e))
	return nil
}

// zeroSignGuard ends the run as inconclusive when the result of a division or
// power depends on the sign of a zero that was computed at run time. The sign
// of a computed zero is outside the compared domain: the manual's modulo
// formula and an fmod-based modulo differ in it, and in Lua 5.1 itself zero
// constants of either sign share one constant slot. A literal 0 divisor is
// unambiguous (the generator leaves no other zero-valued literal subtree).
func (in *Interp) zeroSignGuard(x *last.EBin, l, r Value) {
	isLitZero := func(e last.Expr) bool {
		for {
			if p, ok := e.(*last.EParen); ok {
				e = p.X
				continue
			}
			break
		}
		n, ok := e.(*last.ENum)
		return ok && n.V == 0 && !math.Signbit(n.V)
	}
	a, ok1 := ToNumber(l)
	b, ok2 := ToNumber(r)
	if !ok1 || !ok2 {
		return
	}
	switch x.Op {
	case "/":
		if b == 0 && a != 0 && a == a && !isLitZero(x.R) {
			in.abort("division by a computed zero (sign of zero outside the compared domain)")
		}
	case "^":
		if a == 0 && b < 0 && !isLitZero(x.L) {
			in.abort("division by a computed zero (sign of zero outside the compared domain)")
		}
	}
}

// ---- vararg analysis ----

func blockUsesVararg(b *last.Block) bool {
	for _, s := range b.Stmts {
		if stmtUsesVararg(s) {
			return true
		}
	}
	return false
}

func exprsUseVararg(es []last.Expr) bool {
	for _, e := range es {
		if exprUsesVararg(e) {
			return true
		}
	}
	return false
}

func stmtUsesVararg(s last.Stmt) bool {
	switch x := s.(type) {
	case *last.SLocal:
		return exprsUseVararg(x.Exprs)
	case *last.SAssign:
		return exprsUseVararg(x.LHS) || exprsUseVararg(x.RHS)
	case *last.SCall:
		return exprUsesVararg(x.Call)
	case *last.SDo:
		return blockUsesVararg(x.Body)
	case *last.SWhile:
		return exprUsesVararg(x.Cond) || blockUsesVararg(x.Body)
	case *last.SRepeat:
		return exprUsesVararg(x.Cond) || blockUsesVararg(x.Body)
	case *last.SIf:
		if exprsUseVararg(x.Conds) {
			return true
		}
		for _, b := range x.Blocks {
			if blockUsesVararg(b) {
				return true
			}
		}
		return x.Else != nil && blockUsesVararg(x.Else)
	case *last.SNumFor:
		return exprUsesVararg(x.Start) || exprUsesVararg(x.Limit) || (x.Step != nil && exprUsesVararg(x.Step)) || blockUsesVararg(x.Body)
	case *last.SGenFor:
		return exprsUseVararg(x.Exprs) || blockUsesVararg(x.Body)
	case *last.SFunc:
		return exprUsesVararg(x.Target)
	case *last.SReturn:
		return exprsUseVararg(x.Exprs)
	}
	return false
}

func exprUsesVararg(e last.Expr) bool {
	switch x := e.(type) {
	case *last.EVararg:
		return true
	case *last.EIndex:
		return exprUsesVararg(x.Obj) || exprUsesVararg(x.Key)
	case *last.ECall:
		return exprUsesVararg(x.Fn) || exprsUseVararg(x.Args)
	case *last.EMethod:
		return exprUsesVararg(x.Obj) || exprsUseVararg(x.Args)
	case *last.EBin:
		return exprUsesVararg(x.L) || exprUsesVararg(x.R)
	case *last.EUn:
		return exprUsesVararg(x.X)
	case *last.EParen:
		return exprUsesVararg(x.X)
	case *last.ETable:
		for _, it := range x.Items {
			if (it.Key != nil && exprUsesVararg(it.Key)) || exprUsesVararg(it.Val) {
				return true
			}
		}
	}
	return false
}

// ---- running a chunk ----

// Result of a model run.
type Result struct {
	Trace    []string
	Results  []Value
	Failed   bool
	ErrValue Value
	Abort    string // non-empty: inconclusive
}

// Run executes the chunk as the main function with the given arguments.
func (in *Interp) Run(c *last.Chunk, args ...Value) (res Result) {
	defer func() {
		if r := recover(); r != nil {
			switch x := r.(type) {
			case *LuaError:
				res.Failed = true
				res.ErrValue = x.Value
			case *Abort:
				res.Abort = x.Reason
			default:
				if err, ok := r.(runtime.Error); ok && strings.Contains(err.Error(), "stack overflow") {
					res.Abort = "go stack overflow in model"
				} else {
					panic(r)
				}
			}
		}
		res.Trace = in.Trace
		in.Close()
	}()
	mainFn := &last.Func{Vararg: true, Body: c.Body}
	in.usesVA[mainFn] = true // the main chunk has no `arg` table
	cl := &Closure{F: mainFn, FEnv: in.G}
	res.Results = in.Call(cl, args)
	return
}

// GoPanicValue is the error value the model uses for "a Go panic inside a host
// function reached the protected call": the implementation delivers some
// string describing the panic; only its class is compared.
type GoPanicValue struct{}

// RTErrorMsg raises msg (verbatim) with the position of the running Lua function (luaL_error).
func (in *Interp) RTErrorMsg(msg string) {
	panic(&LuaError{Value: posMarker(in.curSite()) + msg})
}

// CallHost calls fn across a host-function boundary (as a Go function calling L.Call would).
func (in *Interp) CallHost(fn Value, args []Value) []Value {
	return in.callC(fn, args...)
}

// ---- debug support (C17) ----

// PosMarkerAtLevel returns the position marker of the Lua function at level (1 = running function).
func (in *Interp) PosMarkerAtLevel(level int) string { return posMarker(in.siteAtLevel(level)) }

// Local is one named local variable of an activation.
type Local struct {
	Name string
	Cell *Cell
}

// FrameLocals returns the named locals in scope in the function at level, in declaration order.
func (in *Interp) FrameLocals(level int) []Local {
	fr := in.th.frames
	i := len(fr) - level
	if i < 0 || i >= len(fr) {
		return nil
	}
	f := fr[i]
	var rev []Local
	for s := f.scope; s != nil && s != f.cl.Up; s = s.next {
		rev = append(rev, Local{Name: s.name, Cell: s.cell})
	}
	out := make([]Local, 0, len(rev))
	for k := len(rev) - 1; k >= 0; k-- {
		out = append(out, rev[k])
	}
	return out
}

// ClosureFunc exposes the AST function of a closure.
func (c *Closure) Func() *last.Func { return c.F }

// Upvalue resolves name in the closure's defining scope (nil if it is a global there).
func (c *Closure) Upvalue(name string) *Cell { return c.Up.lookup(name) }
