package lref

import (
	"math"
	"runtime"
	"sort"
	"strings"
)

func (in *Interp) reg(t *Table, name string, fn func(in *Interp, args []Value) []Value) *Builtin {
	b := &Builtin{Name: name, Fn: fn}
	t.Set(name, b)
	return b
}

// Register installs a host function under a global name.
func (in *Interp) Register(name string, fn func(in *Interp, args []Value) []Value) {
	in.reg(in.G, name, fn)
}

func arg(args []Value, i int) Value {
	if i < len(args) {
		return args[i]
	}
	return nil
}

// argError raises a "bad argument" error positioned like luaL_argerror (level 1 = the caller).
func (in *Interp) argError(i int, fname, msg string) {
	in.RTError("bad argument #%d to '%s' (%s)", i+1, fname, msg)
}

func (in *Interp) checkTable(args []Value, i int, fname string) *Table {
	t, ok := arg(args, i).(*Table)
	if !ok {
		in.argError(i, fname, "table expected, got "+TypeName(arg(args, i)))
	}
	return t
}

func (in *Interp) checkNum(args []Value, i int, fname string) float64 {
	v, ok := ToNumber(arg(args, i))
	if !ok {
		in.argError(i, fname, "number expected, got "+TypeName(arg(args, i)))
	}
	return v
}

func (in *Interp) checkInt(args []Value, i int, fname string) int {
	v := in.checkNum(args, i, fname)
	if v != v || math.Abs(v) > 1e15 {
		in.abort("integer argument outside model domain")
	}
	return int(v) // C cast truncation toward zero
}

func (in *Interp) optInt(args []Value, i int, fname string, def int) int {
	if arg(args, i) == nil {
		return def
	}
	return in.checkInt(args, i, fname)
}

func (in *Interp) checkStr(args []Value, i int, fname string) string {
	switch x := arg(args, i).(type) {
	case string:
		return x
	case float64, AmbZero:
		s, _ := in.tostr(x)
		return s
	}
	in.argError(i, fname, "string expected, got "+TypeName(arg(args, i)))
	return ""
}

// ToStringMeta implements tostring(v).
func (in *Interp) ToStringMeta(v Value) Value {
	if h := in.metaOf(v, "__tostring"); h != nil {
		return first(in.callC(h, v))
	}
	switch x := v.(type) {
	case nil:
		return "nil"
	case bool:
		if x {
			return "true"
		}
		return "false"
	case float64, string, AmbZero:
		s, _ := in.tostr(x)
		return s
	}
	// an address: both sides canonicalise a string with a blank to <rt>; generated
	// programs only emit such a string
	return TypeName(v) + ": address"
}

func (in *Interp) openBase() {
	G := in.G
	G.Set("_G", G)
	in.reg(G, "type", func(in *Interp, a []Value) []Value {
		if len(a) == 0 {
			in.argError(0, "type", "value expected")
		}
		return []Value{TypeName(a[0])}
	})
	in.reg(G, "tostring", func(in *Interp, a []Value) []Value {
		if len(a) == 0 {
			in.argError(0, "tostring", "value expected")
		}
		return []Value{in.ToStringMeta(a[0])}
	})
	in.reg(G, "tonumber", func(in *Interp, a []Value) []Value {
		if len(a) == 0 {
			in.argError(0, "tonumber", "value expected")
		}
		if arg(a, 1) != nil {
			in.abort("tonumber with base (C16)")
		}
		if v, ok := ToNumber(a[0]); ok {
			return []Value{v}
		}
		return []Value{nil}
	})
	in.reg(G, "select", func(in *Interp, a []Value) []Value {
		if s, ok := arg(a, 0).(string); ok && s == "#" {
			return []Value{float64(len(a) - 1)}
		}
		n := in.checkInt(a, 0, "select")
		if n < 0 {
			n = len(a) + n
		} else if n > len(a)-1 {
			n = len(a)
		}
		if n < 1 {
			in.argError(0, "select", "index out of range")
		}
		return append([]Value(nil), a[n:]...)
	})
	in.reg(G, "unpack", func(in *Interp, a []Value) []Value {
		t := in.checkTable(a, 0, "unpack")
		i := in.optInt(a, 1, "unpack", 1)
		var j int
		if arg(a, 2) == nil {
			n, unique := t.Border()
			if !unique {
				in.abort("length of a table with holes")
			}
			j = n
		} else {
			j = in.checkInt(a, 2, "unpack")
		}
		if j-i > 5000 {
			in.abort("unpack too many")
		}
		var out []Value
		for k := i; k <= j; k++ {
			out = append(out, t.Get(float64(k)))
		}
		return out
	})
	in.reg(G, "rawget", func(in *Interp, a []Value) []Value {
		t := in.checkTable(a, 0, "rawget")
		if len(a) < 2 {
			in.argError(1, "rawget", "value expected") // luaL_checkany(L, 2)
		}
		return []Value{t.Get(arg(a, 1))}
	})
	in.reg(G, "rawset", func(in *Interp, a []Value) []Value {
		t := in.checkTable(a, 0, "rawset")
		if len(a) < 3 {
			in.argError(len(a), "rawset", "value expected") // luaL_checkany(L, 2), (L, 3)
		}
		in.checkKey(arg(a, 1))
		t.Set(arg(a, 1), arg(a, 2))
		return []Value{t}
	})
	in.reg(G, "rawequal", func(in *Interp, a []Value) []Value {
		if len(a) < 2 {
			in.argError(len(a), "rawequal", "value expected") // luaL_checkany(L, 1), (L, 2)
		}
		return []Value{RawEqual(arg(a, 0), arg(a, 1))}
	})
	next := in.reg(G, "next", func(in *Interp, a []Value) []Value {
		t := in.checkTable(a, 0, "next")
		k, v, ok := t.Next(arg(a, 1))
		if !ok {
			in.RTError("invalid key to 'next'")
		}
		if k == nil {
			return []Value{nil}
		}
		return []Value{k, v}
	})
	in.reg(G, "pairs", func(in *Interp, a []Value) []Value {
		t := in.checkTable(a, 0, "pairs")
		return []Value{next, t, nil}
	})
	ipairsAux := &Builtin{Name: "ipairs_aux", Fn: func(in *Interp, a []Value) []Value {
		t := in.checkTable(a, 0, "ipairs")
		i := in.checkNum(a, 1, "ipairs") + 1
		v := t.Get(i)
		if v == nil {
			return []Value{nil}
		}
		return []Value{i, v}
	}}
	in.reg(G, "ipairs", func(in *Interp, a []Value) []Value {
		t := in.checkTable(a, 0, "ipairs")
		return []Value{ipairsAux, t, float64(0)}
	})
	in.reg(G, "setmetatable", func(in *Interp, a []Value) []Value {
		t := in.checkTable(a, 0, "setmetatable")
		var mt *Table
		switch m := arg(a, 1).(type) {
		case nil:
			if len(a) < 2 {
				in.argError(1, "setmetatable", "nil or table expected")
			}
		case *Table:
			mt = m
		default:
			in.argError(1, "setmetatable", "nil or table expected")
		}
		if t.Meta != nil && t.Meta.Get("__metatable") != nil {
			in.RTError("cannot change a protected metatable")
		}
		t.Meta = mt
		return []Value{t}
	})
	in.reg(G, "getmetatable", func(in *Interp, a []Value) []Value {
		if len(a) == 0 {
			in.argError(0, "getmetatable", "value expected")
		}
		mt := in.metatable(a[0])
		if mt == nil {
			return []Value{nil}
		}
		if p := mt.Get("__metatable"); p != nil {
			return []Value{p}
		}
		return []Value{mt}
	})
	in.reg(G, "error", func(in *Interp, a []Value) []Value {
		level := in.optInt(a, 1, "error", 1)
		v := arg(a, 0)
		if s, ok := v.(string); ok && level > 0 {
			// level 1 = the function that called error
			v = posMarker(in.siteAtLevel(level)) + s
			if level >= 2 {
				in.Tags["error-level-2"]++
			}
		}
		panic(&LuaError{Value: v})
	})
	in.reg(G, "assert", func(in *Interp, a []Value) []Value {
		if len(a) == 0 {
			in.argError(0, "assert", "value expected")
		}
		if !truthy(a[0]) {
			if len(a) > 1 {
				panic(&LuaError{Value: a[1]})
			}
			panic(&LuaError{Value: "assertion failed!"})
		}
		return a
	})
	in.reg(G, "pcall", func(in *Interp, a []Value) []Value {
		if len(a) == 0 {
			in.argError(0, "pcall", "value expected")
		}
		ok, res := in.PCall(a[0], a[1:], nil)
		return append([]Value{ok}, res...)
	})
	in.reg(G, "xpcall", func(in *Interp, a []Value) []Value {
		if len(a) < 2 {
			in.argError(1, "xpcall", "value expected")
		}
		ok, res := in.PCall(a[0], nil, a[1])
		return append([]Value{ok}, res...)
	})
	in.reg(G, "getfenv", func(in *Interp, a []Value) []Value {
		switch f := arg(a, 0).(type) {
		case *Closure:
			return []Value{f.FEnv}
		case *Builtin:
			return []Value{in.G}
		}
		level := in.optInt(a, 0, "getfenv", 1)
		if level == 0 {
			return []Value{in.G} // thread environment
		}
		fr := in.th.frames
		if level < 0 || level > len(fr) {
			in.argError(0, "getfenv", "invalid level")
		}
		return []Value{fr[len(fr)-level].cl.FEnv}
	})
	in.reg(G, "setfenv", func(in *Interp, a []Value) []Value {
		env := in.checkTable(a, 1, "setfenv")
		switch f := arg(a, 0).(type) {
		case *Closure:
			f.FEnv = env
			return []Value{f}
		case *Builtin:
			in.RTError("'setfenv' cannot change environment of given object")
		}
		level := in.checkInt(a, 0, "setfenv")
		if level == 0 {
			in.abort("setfenv(0) changes the thread environment (not modelled)")
		}
		fr := in.th.frames
		if level < 0 || level > len(fr) {
			in.argError(0, "setfenv", "invalid level")
		}
		cl := fr[len(fr)-level].cl
		cl.FEnv = env
		return []Value{cl}
	})

	// coroutine
	co := NewTable()
	G.Set("coroutine", co)
	in.reg(co, "create", func(in *Interp, a []Value) []Value {
		if !isFunc(arg(a, 0)) {
			in.argError(0, "create", "Lua function expected")
		}
		return []Value{in.newCoroutine(a[0])}
	})
	in.reg(co, "resume", func(in *Interp, a []Value) []Value {
		c, ok := arg(a, 0).(*Coroutine)
		if !ok {
			in.argError(0, "resume", "coroutine expected")
		}
		ok2, res := in.Resume(c, a[1:])
		return append([]Value{ok2}, res...)
	})
	in.reg(co, "yield", func(in *Interp, a []Value) []Value {
		return in.Yield(a)
	})
	in.reg(co, "status", func(in *Interp, a []Value) []Value {
		c, ok := arg(a, 0).(*Coroutine)
		if !ok {
			in.argError(0, "status", "coroutine expected")
		}
		return []Value{c.status}
	})
	in.reg(co, "running", func(in *Interp, a []Value) []Value {
		if in.th.co == nil {
			return []Value{nil}
		}
		return []Value{in.th.co}
	})
	in.reg(co, "wrap", func(in *Interp, a []Value) []Value {
		if !isFunc(arg(a, 0)) {
			in.argError(0, "wrap", "Lua function expected")
		}
		c := in.newCoroutine(a[0])
		return []Value{&Builtin{Name: "wrapped", Fn: func(in *Interp, args []Value) []Value {
			ok, res := in.Resume(c, args)
			if !ok {
				// (luaB_auxwrap may add position information to string errors; generated
				// programs observe only the type of an error propagated by wrap)
				panic(&LuaError{Value: first(res)})
			}
			return res
		}}}
	})

	// string (a small subset; the full library is C14/C15's business)
	str := NewTable()
	G.Set("string", str)
	in.StrMeta = NewTable()
	in.StrMeta.Set("__index", str)
	in.reg(str, "len", func(in *Interp, a []Value) []Value {
		return []Value{float64(len(in.checkStr(a, 0, "len")))}
	})
	in.reg(str, "sub", func(in *Interp, a []Value) []Value {
		s := in.checkStr(a, 0, "sub")
		l := len(s)
		i := in.checkInt(a, 1, "sub")
		j := in.optInt(a, 2, "sub", -1)
		if i < 0 {
			i = l + i + 1
			if i < 0 {
				i = 0
			}
		}
		if j < 0 {
			j = l + j + 1
			if j < 0 {
				j = 0
			}
		}
		if i < 1 {
			i = 1
		}
		if j > l {
			j = l
		}
		if i > j {
			return []Value{""}
		}
		return []Value{s[i-1 : j]}
	})
	in.reg(str, "byte", func(in *Interp, a []Value) []Value {
		s := in.checkStr(a, 0, "byte")
		l := len(s)
		i := in.optInt(a, 1, "byte", 1)
		if i < 0 {
			i = l + i + 1
			if i < 0 {
				i = 0
			}
		}
		j := in.optInt(a, 2, "byte", i)
		if j < 0 {
			j = l + j + 1
			if j < 0 {
				j = 0
			}
		}
		if i < 1 {
			i = 1
		}
		if j > l {
			j = l
		}
		var out []Value
		for k := i; k <= j; k++ {
			out = append(out, float64(s[k-1]))
		}
		return out
	})
	in.reg(str, "rep", func(in *Interp, a []Value) []Value {
		s := in.checkStr(a, 0, "rep")
		n := in.checkInt(a, 1, "rep")
		if n <= 0 {
			return []Value{""}
		}
		if n*len(s) > 1<<20 {
			in.abort("string too long")
		}
		return []Value{strings.Repeat(s, n)}
	})
	in.reg(str, "upper", func(in *Interp, a []Value) []Value {
		b := []byte(in.checkStr(a, 0, "upper"))
		for i, c := range b {
			if c >= 'a' && c <= 'z' {
				b[i] = c - 32
			}
		}
		return []Value{string(b)}
	})
	in.reg(str, "lower", func(in *Interp, a []Value) []Value {
		b := []byte(in.checkStr(a, 0, "lower"))
		for i, c := range b {
			if c >= 'A' && c <= 'Z' {
				b[i] = c + 32
			}
		}
		return []Value{string(b)}
	})
	in.reg(str, "reverse", func(in *Interp, a []Value) []Value {
		b := []byte(in.checkStr(a, 0, "reverse"))
		for i, j := 0, len(b)-1; i < j; i, j = i+1, j-1 {
			b[i], b[j] = b[j], b[i]
		}
		return []Value{string(b)}
	})

	// math
	m := NewTable()
	G.Set("math", m)
	m.Set("huge", math.Inf(1))
	in.reg(m, "floor", func(in *Interp, a []Value) []Value {
		if _, ok := arg(a, 0).(AmbZero); ok {
			return []Value{AmbZero{}}
		}
		return []Value{math.Floor(in.checkNum(a, 0, "floor"))}
	})
	in.reg(m, "ceil", func(in *Interp, a []Value) []Value {
		if _, ok := arg(a, 0).(AmbZero); ok {
			return []Value{AmbZero{}}
		}
		return []Value{math.Ceil(in.checkNum(a, 0, "ceil"))}
	})
	in.reg(m, "abs", func(in *Interp, a []Value) []Value { return []Value{math.Abs(in.checkNum(a, 0, "abs"))} })
	in.reg(m, "max", func(in *Interp, a []Value) []Value {
		r := in.checkNum(a, 0, "max")
		for i := 1; i < len(a); i++ {
			if v := in.checkNum(a, i, "max"); v > r {
				r = v
			}
		}
		return []Value{r}
	})
	in.reg(m, "min", func(in *Interp, a []Value) []Value {
		r := in.checkNum(a, 0, "min")
		for i := 1; i < len(a); i++ {
			if v := in.checkNum(a, i, "min"); v < r {
				r = v
			}
		}
		return []Value{r}
	})

	// table
	tb := NewTable()
	G.Set("table", tb)
	listLen := func(in *Interp, t *Table) int {
		n, unique := t.Border()
		if !unique {
			in.abort("length of a table with holes")
		}
		return n
	}
	in.reg(tb, "insert", func(in *Interp, a []Value) []Value {
		t := in.checkTable(a, 0, "insert")
		n := listLen(in, t)
		switch len(a) {
		case 2:
			t.Set(float64(n+1), a[1])
		case 3:
			pos := in.checkInt(a, 1, "insert")
			if pos < 1 || pos > n+1 {
				in.abort("table.insert position out of the list (C18 domain)")
			}
			for i := n; i >= pos; i-- {
				t.Set(float64(i+1), t.Get(float64(i)))
			}
			t.Set(float64(pos), a[2])
		default:
			in.RTError("wrong number of arguments to 'insert'")
		}
		return nil
	})
	in.reg(tb, "remove", func(in *Interp, a []Value) []Value {
		t := in.checkTable(a, 0, "remove")
		n := listLen(in, t)
		pos := in.optInt(a, 1, "remove", n)
		if n == 0 {
			return []Value{nil}
		}
		if pos < 1 || pos > n {
			in.abort("table.remove position out of the list (C18 domain)")
		}
		v := t.Get(float64(pos))
		for i := pos; i < n; i++ {
			t.Set(float64(i), t.Get(float64(i+1)))
		}
		t.Set(float64(n), nil)
		return []Value{v}
	})
	in.reg(tb, "concat", func(in *Interp, a []Value) []Value {
		t := in.checkTable(a, 0, "concat")
		sep := ""
		if arg(a, 1) != nil {
			sep = in.checkStr(a, 1, "concat")
		}
		i := in.optInt(a, 2, "concat", 1)
		j := in.optInt(a, 3, "concat", listLen(in, t))
		var parts []string
		for k := i; k <= j; k++ {
			s, ok := in.tostr(t.Get(float64(k)))
			if !ok {
				in.RTError("invalid value (at index %d) in table for 'concat'", k)
			}
			parts = append(parts, s)
		}
		return []Value{strings.Join(parts, sep)}
	})
	in.reg(tb, "sort", func(in *Interp, a []Value) []Value {
		t := in.checkTable(a, 0, "sort")
		n := listLen(in, t)
		vals := make([]Value, n)
		for i := range vals {
			vals[i] = t.Get(float64(i + 1))
		}
		cmp := arg(a, 1)
		// the comparison sequence of the implementation's algorithm is not specified:
		// only comparators without observable effects are in the model's domain.
		sort.SliceStable(vals, func(x, y int) bool {
			if cmp != nil {
				return truthy(first(in.callC(cmp, vals[x], vals[y])))
			}
			return in.Less(vals[x], vals[y])
		})
		for i, v := range vals {
			t.Set(float64(i+1), v)
		}
		return nil
	})
}

// PCall runs fn protected; handler (may be nil) is xpcall's message handler.
func (in *Interp) PCall(fn Value, args []Value, handler Value) (ok bool, res []Value) {
	th := in.th
	nframes := len(th.frames)
	depth := th.depth
	nC := th.nC
	defer func() {
		if r := recover(); r != nil {
			le, isLua := r.(*LuaError)
			if !isLua {
				panic(r)
			}
			if in.th != th {
				// cannot happen: errors cross threads only through resume
				panic(r)
			}
			th.frames = th.frames[:nframes]
			th.depth = depth
			th.nC = nC
			ok = false
			if handler != nil {
				res = in.runHandler(handler, le.Value)
			} else {
				res = []Value{le.Value}
			}
		}
	}()
	th.nC++
	r := in.Call(fn, args)
	th.nC--
	return true, r
}

// runHandler calls xpcall's message handler. An error inside the handler is
// not specified usefully by 5.1 (the handler is re-entered until the C stack
// overflows): the model returns that error as xpcall's result and tags the run.
func (in *Interp) runHandler(handler Value, errv Value) (res []Value) {
	in.HandlerDepth++
	defer func() { in.HandlerDepth-- }()
	defer func() {
		if r := recover(); r != nil {
			le, isLua := r.(*LuaError)
			if !isLua {
				panic(r)
			}
			in.Tags["error-in-handler"]++
			res = []Value{le.Value}
		}
	}()
	return []Value{first(in.callC(handler, errv))}
}

// ---- coroutines ----

// maxNestedResumes: the nesting depth of resumes at which resume fails. The
// exact number is an implementation constant (LUAI_MAXCCALLS = 200 counts C
// calls of any kind); generated programs only observe that unbounded nesting
// ends in a failure that pcall can catch.
const maxNestedResumes = 190

func (in *Interp) newCoroutine(fn Value) *Coroutine {
	co := &Coroutine{fn: fn, status: "suspended", resumeCh: make(chan []Value), yieldCh: make(chan coMsg)}
	co.th = &thread{co: co}
	return co
}

// NewCoroutine creates a suspended coroutine for fn (what a host does with NewThread).
func (in *Interp) NewCoroutine(fn Value) *Coroutine { return in.newCoroutine(fn) }

// Status is the coroutine's status as coroutine.status reports it.
func (c *Coroutine) Status() string { return c.status }

// ResumeNew creates a coroutine for fn and resumes it once (what a host does
// with NewThread + Resume).
func (in *Interp) ResumeNew(fn Value, args []Value) (bool, []Value) {
	return in.Resume(in.newCoroutine(fn), args)
}

func (in *Interp) Resume(co *Coroutine, args []Value) (bool, []Value) {
	if co.status != "suspended" {
		if co.status == "dead" {
			return false, []Value{"cannot resume dead coroutine"}
		}
		return false, []Value{"cannot resume non-suspended coroutine"}
	}
	// lua_resume: "C stack overflow" once LUAI_MAXCCALLS (200) resumes are nested
	if in.resumeDepth >= maxNestedResumes {
		return false, []Value{"C stack overflow"}
	}
	in.resumeDepth++
	defer func() { in.resumeDepth-- }()
	prev := in.th
	if prev.co != nil {
		prev.co.status = "normal"
	}
	co.status = "running"
	in.th = co.th
	if !co.started {
		co.started = true
		go func() {
			killed := false
			defer func() {
				if killed {
					return
				}
				msg := coMsg{done: true}
				if r := recover(); r != nil {
					switch x := r.(type) {
					case *LuaError:
						msg.err = x
					default:
						msg.abort = r
					}
				}
				if msg.err == nil && msg.abort == nil && !msg.done {
					return
				}
				select {
				case co.yieldCh <- msg:
				case <-in.done:
				}
			}()
			var a []Value
			select {
			case a = <-co.resumeCh:
			case <-in.done:
				killed = true
				runtime.Goexit()
			}
			res := in.Call(co.fn, a)
			// normal return
			select {
			case co.yieldCh <- coMsg{vals: res, done: true}:
			case <-in.done:
			}
			killed = true
		}()
	}
	co.resumeCh <- args
	msg := <-co.yieldCh
	in.th = prev
	if prev.co != nil {
		prev.co.status = "running"
	}
	if msg.abort != nil {
		co.status = "dead"
		panic(msg.abort)
	}
	if msg.err != nil {
		co.status = "dead"
		return false, []Value{msg.err.Value}
	}
	if msg.done {
		co.status = "dead"
	} else {
		co.status = "suspended"
	}
	return true, msg.vals
}

func (in *Interp) Yield(vals []Value) []Value {
	co := in.th.co
	if co == nil {
		in.RTError("attempt to yield from outside a coroutine")
	}
	if in.th.nC > 0 {
		in.Tags["yield-across-host-boundary"]++
		in.RTError("attempt to yield across metamethod/C-call boundary")
	}
	co.yieldCh <- coMsg{vals: append([]Value(nil), vals...)}
	select {
	case a := <-co.resumeCh:
		return a
	case <-in.done:
		// the run is over: unwind this goroutine without touching shared state
		panic(killSignal{})
	}
}

type killSignal struct{}
