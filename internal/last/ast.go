// Package last is the harness's own Lua AST (independent of /repo/ast), with a
// renderer that records the line span of every statement site.
package last

// Site is a source position the reference interpreter can attribute an error
// to: a simple statement, or the header of a compound one. The renderer fills
// First/Last with the lines its tokens occupy.
type Site struct {
	ID    int
	First int
	Last  int
}

type Expr interface{}

type (
	ENil    struct{}
	ETrue   struct{}
	EFalse  struct{}
	EVararg struct{}
	ENum    struct {
		V    float64
		Text string // optional spelling; empty = canonical
	}
	EStr struct {
		V string
	}
	EName struct {
		Name string
	}
	EIndex struct {
		Obj, Key Expr
		Dot      bool // render obj.name when Key is an identifier-like EStr
	}
	ECall struct {
		Fn   Expr
		Args []Expr
		// Sugar: 1 = f"str", 2 = f{table} (only honoured when there is exactly one such argument)
		Sugar int
	}
	EMethod struct {
		Obj   Expr
		Name  string
		Args  []Expr
		Sugar int
	}
	EFunc struct {
		F *Func
	}
	EBin struct {
		Op   string
		L, R Expr
	}
	EUn struct {
		Op string // "-", "not", "#"
		X  Expr
	}
	EParen struct {
		X Expr
	}
	ETable struct {
		Items []TItem
	}
)

// TItem kinds
const (
	TPos  = 0
	TName = 1
	TKey  = 2
)

type TItem struct {
	Kind int
	Name string
	Key  Expr
	Val  Expr
}

type Func struct {
	ID     int
	Params []string
	Vararg bool
	Body   *Block
	// filled by the renderer
	LineDefined     int
	LastLineDefined int
	DefFirst        int // line of the `function` keyword
	DefLast         int // line of the `)` closing the parameter list
	// UsesVararg is set by the generator/analysis when the body mentions `...`
	// (decides whether the compatibility `arg` table exists).
	UsesVararg bool
}

type Block struct {
	Stmts []Stmt
}

type Stmt interface{}

type (
	SLocal struct {
		Site  Site
		Names []string
		Exprs []Expr
	}
	SAssign struct {
		Site Site
		LHS  []Expr
		RHS  []Expr
	}
	SCall struct {
		Site Site
		Call Expr
	}
	SDo struct {
		Site Site
		Body *Block
	}
	SWhile struct {
		Site Site
		Cond Expr
		Body *Block
	}
	SRepeat struct {
		Site Site // the until line
		Body *Block
		Cond Expr
	}
	SIf struct {
		Sites  []Site // one per condition
		Conds  []Expr
		Blocks []*Block
		Else   *Block
	}
	SNumFor struct {
		Site               Site
		Var                string
		Start, Limit, Step Expr // Step may be nil
		Body               *Block
	}
	SGenFor struct {
		Site  Site
		Names []string
		Exprs []Expr
		Body  *Block
	}
	// SFunc is `function a.b.c:m(...) ... end`
	SFunc struct {
		Site   Site
		Target Expr // EName or EIndex chain with Dot
		Method string
		F      *Func
	}
	SLocalFunc struct {
		Site Site
		Name string
		F    *Func
	}
	SReturn struct {
		Site  Site
		Exprs []Expr
	}
	SBreak struct {
		Site Site
	}
	SGoto struct {
		Site  Site
		Label string
	}
	SLabel struct {
		Site Site
		Name string
	}
)

// Chunk is a whole program.
type Chunk struct {
	Body *Block
}

// Helpers to build nodes tersely.
func N(name string) *EName           { return &EName{Name: name} }
func Num(v float64) *ENum            { return &ENum{V: v} }
func Str(s string) *EStr             { return &EStr{V: s} }
func Bin(op string, l, r Expr) *EBin { return &EBin{Op: op, L: l, R: r} }
func Un(op string, x Expr) *EUn      { return &EUn{Op: op, X: x} }
func Call(fn Expr, args ...Expr) *ECall {
	return &ECall{Fn: fn, Args: args}
}
func CallN(name string, args ...Expr) *ECall {
	return &ECall{Fn: &EName{Name: name}, Args: args}
}
func Idx(obj, key Expr) *EIndex { return &EIndex{Obj: obj, Key: key} }
func Dot(obj Expr, name string) *EIndex {
	return &EIndex{Obj: obj, Key: &EStr{V: name}, Dot: true}
}
func CallS(fn Expr, args ...Expr) *SCall { return &SCall{Call: &ECall{Fn: fn, Args: args}} }
func CallSN(name string, args ...Expr) *SCall {
	return &SCall{Call: &ECall{Fn: &EName{Name: name}, Args: args}}
}
func Local(names []string, exprs ...Expr) *SLocal { return &SLocal{Names: names, Exprs: exprs} }
func Local1(name string, e Expr) *SLocal {
	if e == nil {
		return &SLocal{Names: []string{name}}
	}
	return &SLocal{Names: []string{name}, Exprs: []Expr{e}}
}
func Assign1(lhs, rhs Expr) *SAssign { return &SAssign{LHS: []Expr{lhs}, RHS: []Expr{rhs}} }
func Return(exprs ...Expr) *SReturn  { return &SReturn{Exprs: exprs} }
func Blk(stmts ...Stmt) *Block       { return &Block{Stmts: stmts} }
func Fn(params []string, vararg bool, body *Block) *EFunc {
	return &EFunc{F: &Func{Params: params, Vararg: vararg, Body: body}}
}
