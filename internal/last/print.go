package last

import (
	"math"
	"math/rand"
	"strconv"
	"strings"
)

// Layout selects how a chunk is rendered.
type Layout struct {
	Wild bool       // random line breaks, comments, blank lines, alternative spellings
	R    *rand.Rand // required when Wild
	EOL  string     // line terminator ("\n" default)
	// PNewline is the probability (0..100) of a line break between two tokens in wild mode.
	PNewline int
	// AltStrings allows long-bracket / single-quote / escape spellings of string literals.
	AltStrings bool
	// Semis inserts optional semicolons after statements.
	Semis bool
	// ExtraParens wraps random operands (never list tails) in redundant parentheses.
	ExtraParens bool
	// Indent canonical output.
	NoIndent bool
	// Inflate, when set, inserts extra lines (blank lines, full-line comments,
	// multi-line block comments) at line breaks between tokens, drawing from its
	// own PRNG so that the layout choices drawn from R are unaffected. LineMap
	// then maps every line of the un-inflated rendering on which a token starts
	// to its line in this rendering.
	Inflate *rand.Rand
	LineMap map[int]int
	// FirstLine is the number of the first line of the rendering (default 1):
	// 2 when the text will be preceded by one header line ("#!...").
	FirstLine int
	// FuncLines records, per Func.ID-less pointer order, nothing; see Func fields.
}

type printer struct {
	sb          strings.Builder
	lay         *Layout
	line        int
	prev        string // previous token
	indent      int
	atBOL       bool
	lastTok     int       // line of the last token emitted
	baseLine    int       // line number had no inflation happened
	prevStmtEnd int       // byte offset right after the previous statement in the same block (-1 none)
	onFirst     func(int) // receives the line of each token of the active site
	funcKwLine  int       // line of the most recent `function` keyword
}

// Render prints the chunk, filling Site and Func line fields in place.
func Render(c *Chunk, lay *Layout) string {
	if lay == nil {
		lay = &Layout{}
	}
	if lay.EOL == "" {
		lay.EOL = "\n"
	}
	first := 1
	if lay.FirstLine > 1 {
		first = lay.FirstLine
	}
	p := &printer{lay: lay, line: first, baseLine: first, atBOL: true, prevStmtEnd: -1}
	if lay.Inflate != nil {
		lay.LineMap = map[int]int{}
	}
	p.block(c.Body)
	if !p.atBOL {
		p.newline()
	}
	return p.sb.String()
}

func isWordByte(b byte) bool {
	return b == '_' || b >= '0' && b <= '9' || b >= 'a' && b <= 'z' || b >= 'A' && b <= 'Z'
}

func (p *printer) needSpace(prev, next string) bool {
	if prev == "" {
		return false
	}
	a, b := prev[len(prev)-1], next[0]
	if isWordByte(a) && isWordByte(b) {
		return true
	}
	// numbers next to dots
	if (a >= '0' && a <= '9' || a == '.') && b == '.' {
		return true
	}
	if a == '.' && (b >= '0' && b <= '9') {
		return true
	}
	if a == '-' && b == '-' {
		return true
	}
	if a == '[' && (b == '[' || b == '=') {
		return true
	}
	if a == '=' && b == '=' || a == '~' && b == '=' || a == '<' && b == '=' || a == '>' && b == '=' {
		return true
	}
	switch next {
	case ")", "]", ",", ";", ".", ":":
		return false
	case "(", "[":
		// call / index directly after a prefix expression
		return !(isWordByte(a) || a == ')' || a == ']' || a == '"' || a == '\'') || isKeyword(prev)
	}
	switch prev {
	case "(", "[", ".", ":", "#":
		return false
	case "-":
		return true // binary or unary: keep simple
	}
	return true
}

var keywords = map[string]bool{"and": true, "break": true, "do": true, "else": true, "elseif": true, "end": true,
	"false": true, "for": true, "function": true, "goto": true, "if": true, "in": true, "local": true, "nil": true,
	"not": true, "or": true, "repeat": true, "return": true, "then": true, "true": true, "until": true, "while": true}

func isKeyword(s string) bool { return keywords[s] }

// IsIdent reports whether s can be printed as a Name.
func IsIdent(s string) bool {
	if s == "" || keywords[s] {
		return false
	}
	for i := 0; i < len(s); i++ {
		b := s[i]
		if !(isWordByte(b)) || (i == 0 && b >= '0' && b <= '9') {
			return false
		}
	}
	return true
}

func (p *printer) newline() {
	p.sb.WriteString(p.lay.EOL)
	p.line++
	p.baseLine++
	if r := p.lay.Inflate; r != nil {
		// line-monotone edit: material that occupies whole extra lines
		for k := r.Intn(4); k > 0; k-- {
			switch r.Intn(4) {
			case 0:
				p.sb.WriteString("   -- inserted comment " + strconv.Itoa(r.Intn(1000)))
			case 1:
				p.sb.WriteString("--[[ inserted")
				p.sb.WriteString(p.lay.EOL)
				p.line++
				p.sb.WriteString("block ]]")
			case 2:
				p.sb.WriteString("\t")
			}
			p.sb.WriteString(p.lay.EOL)
			p.line++
		}
	}
	p.atBOL = true
	p.prev = ""
}

func (p *printer) junk() {
	// wild mode only: comment / blank line material between tokens
	r := p.lay.R
	switch r.Intn(10) {
	case 6:
		// `--[` followed by `=`s but no second bracket opens nothing: a short comment
		p.sb.WriteString([]string{" --[= not a long bracket", " --[==", " --[=]=] still short", " --[", " --[==x[ ]]"}[r.Intn(5)])
		p.newline()
	case 7:
		p.sb.WriteString("\f")
	case 8:
		p.sb.WriteString(" \v")
	case 9:
		p.sb.WriteString(" --[=[ ]] ]=]--[[]]")
	case 0:
		p.sb.WriteString(" -- c" + strconv.Itoa(r.Intn(100)))
		p.newline()
	case 1:
		p.sb.WriteString(" --[[ x ]] ")
	case 2:
		p.sb.WriteString(" --[==[ y")
		p.newline()
		p.sb.WriteString(" z ]==] ")
		p.atBOL = false
	case 3:
		p.newline()
		p.newline()
	case 4:
		p.sb.WriteString("\t")
	default:
		p.newline()
	}
}

// tok emits one token. noBreakBefore forbids a line break between the
// previous token and this one (call parentheses).
func (p *printer) tokNB(t string, noBreakBefore bool) {
	if p.lay.Wild && !p.atBOL && !noBreakBefore && p.prev != "" {
		r := p.lay.R
		if r.Intn(100) < p.lay.PNewline {
			if r.Intn(3) == 0 {
				p.junk()
			} else {
				p.newline()
			}
		}
	}
	if p.atBOL {
		if !p.lay.NoIndent && !p.lay.Wild {
			for i := 0; i < p.indent; i++ {
				p.sb.WriteString("  ")
			}
		} else if p.lay.Wild && p.lay.R.Intn(2) == 0 {
			p.sb.WriteString(strings.Repeat(" ", p.lay.R.Intn(5)))
		}
		p.atBOL = false
	} else if p.needSpace(p.prev, t) {
		p.sb.WriteByte(' ')
	}
	if p.lay.LineMap != nil {
		if _, ok := p.lay.LineMap[p.baseLine]; !ok {
			p.lay.LineMap[p.baseLine] = p.line
		}
	}
	if t == "function" {
		p.funcKwLine = p.line
	}
	p.sb.WriteString(t)
	// tokens may contain raw newlines (long strings)
	if strings.ContainsAny(t, "\n\r") {
		k := countLines(t)
		p.line += k
		p.baseLine += k
	}
	p.lastTok = p.line
	p.prev = t
}

func countLines(s string) int {
	n := 0
	for i := 0; i < len(s); i++ {
		if s[i] == '\n' || s[i] == '\r' {
			if i+1 < len(s) && (s[i+1] == '\n' || s[i+1] == '\r') && s[i+1] != s[i] {
				i++
			}
			n++
		}
	}
	return n
}

func (p *printer) tok(t string) { p.tokNB(t, false) }

func (p *printer) block(b *Block) {
	savedPrevEnd := p.prevStmtEnd
	p.prevStmtEnd = -1
	for _, s := range b.Stmts {
		p.stmt(s)
	}
	p.prevStmtEnd = savedPrevEnd
}

func (p *printer) body(b *Block) {
	p.endLine()
	p.indent++
	p.block(b)
	p.indent--
}

// endLine finishes a canonical line (wild mode: maybe).
func (p *printer) endLine() {
	if p.lay.Wild {
		switch p.lay.R.Intn(4) {
		case 0:
			return // stay on the line
		case 1:
			p.junk()
			return
		}
	}
	if !p.atBOL {
		p.newline()
	}
}

func (p *printer) stmt(s Stmt) {
	// A statement beginning with '(' after another statement needs a ';' in between.
	startOff := p.sb.Len()
	prevEnd := p.prevStmtEnd
	site := func(st *Site, f func()) {
		// First = line of first token: emit tokens, recording the line at first emission
		fl := 0
		p.onFirst = func(l int) {
			if fl == 0 {
				fl = l
			}
		}
		f()
		p.onFirst = nil
		if fl == 0 {
			fl = p.line
		}
		st.First, st.Last = fl, p.lastTok
	}
	switch x := s.(type) {
	case *SLocal:
		site(&x.Site, func() {
			p.t("local")
			p.names(x.Names)
			if len(x.Exprs) > 0 {
				p.t("=")
				p.exprList(x.Exprs)
			}
		})
	case *SAssign:
		site(&x.Site, func() {
			for i, l := range x.LHS {
				if i > 0 {
					p.t(",")
				}
				p.expr(l, 0)
			}
			p.t("=")
			p.exprList(x.RHS)
		})
	case *SCall:
		site(&x.Site, func() { p.expr(x.Call, 0) })
	case *SDo:
		site(&x.Site, func() { p.t("do") })
		p.body(x.Body)
		p.t("end")
	case *SWhile:
		site(&x.Site, func() {
			p.t("while")
			p.expr(x.Cond, 0)
			p.t("do")
		})
		p.body(x.Body)
		p.t("end")
	case *SRepeat:
		p.t("repeat")
		p.body(x.Body)
		site(&x.Site, func() {
			p.t("until")
			p.expr(x.Cond, 0)
		})
	case *SIf:
		if len(x.Sites) != len(x.Conds) {
			x.Sites = make([]Site, len(x.Conds))
		}
		for i := range x.Conds {
			site(&x.Sites[i], func() {
				if i == 0 {
					p.t("if")
				} else {
					p.t("elseif")
				}
				p.expr(x.Conds[i], 0)
				p.t("then")
			})
			p.body(x.Blocks[i])
		}
		if x.Else != nil {
			p.t("else")
			p.body(x.Else)
		}
		p.t("end")
	case *SNumFor:
		site(&x.Site, func() {
			p.t("for")
			p.t(x.Var)
			p.t("=")
			p.expr(x.Start, 0)
			p.t(",")
			p.expr(x.Limit, 0)
			if x.Step != nil {
				p.t(",")
				p.expr(x.Step, 0)
			}
			p.t("do")
		})
		p.body(x.Body)
		p.t("end")
	case *SGenFor:
		site(&x.Site, func() {
			p.t("for")
			p.names(x.Names)
			p.t("in")
			p.exprList(x.Exprs)
			p.t("do")
		})
		p.body(x.Body)
		p.t("end")
	case *SFunc:
		site(&x.Site, func() {
			p.t("function")
			p.expr(x.Target, 0)
			if x.Method != "" {
				p.tNB(":")
				p.tNB(x.Method)
				p.funcBodySkip(x.F, p.lastTok, 1)
			} else {
				p.funcBody(x.F, p.lastTok)
			}
		})
	case *SLocalFunc:
		site(&x.Site, func() {
			p.t("local")
			p.t("function")
			p.t(x.Name)
			p.funcBody(x.F, p.lastTok)
		})
	case *SReturn:
		site(&x.Site, func() {
			p.t("return")
			p.exprList(x.Exprs)
		})
	case *SBreak:
		site(&x.Site, func() { p.t("break") })
	case *SGoto:
		site(&x.Site, func() {
			p.t("goto")
			p.t(x.Label)
		})
	case *SLabel:
		site(&x.Site, func() {
			p.t("::")
			p.t(x.Name)
			p.t("::")
		})
	default:
		panic("last: unknown statement")
	}
	// ambiguity guard: this statement's text begins with '(' and follows another statement
	if prevEnd >= 0 {
		txt := p.sb.String()[startOff:]
		trim := strings.TrimLeft(txt, " \t\r\n")
		for strings.HasPrefix(trim, "--") { // skip comments junk
			if strings.HasPrefix(trim, "--[") {
				break
			}
			if i := strings.IndexAny(trim, "\r\n"); i >= 0 {
				trim = strings.TrimLeft(trim[i:], " \t\r\n")
			} else {
				break
			}
		}
		if strings.HasPrefix(trim, "(") || strings.HasPrefix(trim, "--[") {
			// insert ';' right after the previous statement
			all := p.sb.String()
			p.sb.Reset()
			p.sb.WriteString(all[:prevEnd])
			p.sb.WriteString(";")
			p.sb.WriteString(all[prevEnd:])
		}
	}
	if p.lay.Semis && p.lay.R != nil && p.lay.R.Intn(3) == 0 {
		p.tokNB(";", true)
	}
	p.prevStmtEnd = p.sb.Len()
	p.endLine()
}

func (p *printer) names(ns []string) {
	for i, n := range ns {
		if i > 0 {
			p.t(",")
		}
		p.t(n)
	}
}

func (p *printer) exprList(es []Expr) {
	for i, e := range es {
		if i > 0 {
			p.t(",")
		}
		p.expr(e, 0)
	}
}

// t emits a token and reports the first-token line to the active site.
func (p *printer) t(s string) {
	p.tok(s)
	if p.onFirst != nil {
		// the token has been written; its starting line is p.line minus the lines it spans
		p.onFirst(p.line - countLinesIf(s))
	}
}

func (p *printer) tNB(s string) {
	p.tokNB(s, true)
	if p.onFirst != nil {
		p.onFirst(p.line - countLinesIf(s))
	}
}

func countLinesIf(s string) int {
	if strings.ContainsAny(s, "\n\r") {
		return countLines(s)
	}
	return 0
}

func (p *printer) funcBody(f *Func, defLine int) { p.funcBodySkip(f, defLine, 0) }

// funcBodySkip prints the body, omitting the first skip parameters (the implicit self of a method).
func (p *printer) funcBodySkip(f *Func, defLine int, skip int) {
	f.LineDefined = defLine
	p.tNB("(")
	f.DefFirst = p.funcKwLine
	if f.DefFirst == 0 || f.DefFirst > defLine {
		f.DefFirst = defLine
	}
	for i, n := range f.Params[skip:] {
		if i > 0 {
			p.t(",")
		}
		p.t(n)
	}
	if f.Vararg {
		if len(f.Params) > skip {
			p.t(",")
		}
		p.t("...")
	}
	p.t(")")
	f.DefLast = p.lastTok
	// nested function bodies have their own statement chain
	savedPrev := p.prevStmtEnd
	savedOn := p.onFirst
	p.onFirst = nil
	p.body(f.Body)
	p.onFirst = savedOn
	p.prevStmtEnd = savedPrev
	p.t("end")
	f.LastLineDefined = p.lastTok
}

const (
	precOr = iota + 1
	precAnd
	precCmp
	precConcat
	precAdd
	precMul
	precUnary
	precPow
	precAtom
)

func binPrec(op string) (prec int, rightAssoc bool) {
	switch op {
	case "or":
		return precOr, false
	case "and":
		return precAnd, false
	case "<", ">", "<=", ">=", "~=", "==":
		return precCmp, false
	case "..":
		return precConcat, true
	case "+", "-":
		return precAdd, false
	case "*", "/", "%":
		return precMul, false
	case "^":
		return precPow, true
	}
	panic("last: unknown binary operator " + op)
}

func exprPrec(e Expr) int {
	switch x := e.(type) {
	case *EBin:
		p, _ := binPrec(x.Op)
		return p
	case *EUn:
		return precUnary
	case *ENum:
		if x.V < 0 || math.IsNaN(x.V) || math.IsInf(x.V, 0) || (x.V == 0 && math.Signbit(x.V)) {
			return 0 // rendered as a parenthesised expression
		}
	}
	return precAtom
}

// FormatNumber renders a non-negative finite number as a Lua numeral.
func FormatNumber(v float64) string {
	if v == math.Trunc(v) && v < 1e15 {
		return strconv.FormatFloat(v, 'f', -1, 64)
	}
	return strconv.FormatFloat(v, 'g', -1, 64)
}

// QuoteCanonical renders a string as a double-quoted literal with 3-digit decimal escapes.
func QuoteCanonical(s string) string {
	var sb strings.Builder
	sb.WriteByte('"')
	for i := 0; i < len(s); i++ {
		b := s[i]
		switch {
		case b == '"' || b == '\\':
			sb.WriteByte('\\')
			sb.WriteByte(b)
		case b >= 0x20 && b < 0x7f:
			sb.WriteByte(b)
		default:
			sb.WriteByte('\\')
			sb.WriteString(pad3(int(b)))
		}
	}
	sb.WriteByte('"')
	return sb.String()
}

func pad3(n int) string {
	s := strconv.Itoa(n)
	for len(s) < 3 {
		s = "0" + s
	}
	return s
}

func (p *printer) strLit(s string) string {
	if !p.lay.AltStrings || p.lay.R == nil {
		return QuoteCanonical(s)
	}
	r := p.lay.R
	switch r.Intn(4) {
	case 0:
		// long bracket when safe
		if !strings.ContainsAny(s, "\r") {
			for lvl := 0; lvl < 3; lvl++ {
				cl := "]" + strings.Repeat("=", lvl) + "]"
				if strings.Contains(s, cl) || strings.HasSuffix(s, "]"+strings.Repeat("=", lvl)) {
					continue
				}
				op := "[" + strings.Repeat("=", lvl) + "["
				if strings.HasPrefix(s, "\n") || r.Intn(3) == 0 {
					return op + "\n" + s + cl
				}
				return op + s + cl
			}
		}
		return QuoteCanonical(s)
	case 1:
		// single quotes, named escapes
		var sb strings.Builder
		sb.WriteByte('\'')
		for i := 0; i < len(s); i++ {
			b := s[i]
			switch {
			case b == '\'' || b == '\\':
				sb.WriteByte('\\')
				sb.WriteByte(b)
			case b == '\n':
				sb.WriteString("\\n")
			case b == '\t':
				sb.WriteString("\\t")
			case b == '\r':
				sb.WriteString("\\r")
			case b == 0x07:
				sb.WriteString("\\a")
			case b == 0x08:
				sb.WriteString("\\b")
			case b == 0x0c:
				sb.WriteString("\\f")
			case b == 0x0b:
				sb.WriteString("\\v")
			case b >= 0x20 && b < 0x7f:
				sb.WriteByte(b)
			default:
				nextDigit := i+1 < len(s) && s[i+1] >= '0' && s[i+1] <= '9'
				if nextDigit {
					sb.WriteByte('\\')
					sb.WriteString(pad3(int(b)))
				} else {
					sb.WriteByte('\\')
					sb.WriteString(strconv.Itoa(int(b)))
				}
			}
		}
		sb.WriteByte('\'')
		return sb.String()
	}
	return QuoteCanonical(s)
}

func (p *printer) number(x *ENum) {
	v := x.V
	switch {
	case math.IsNaN(v):
		p.t("(")
		p.t("0")
		p.t("/")
		p.t("0")
		p.t(")")
	case math.IsInf(v, 1):
		p.t("(")
		p.t("1")
		p.t("/")
		p.t("0")
		p.t(")")
	case math.IsInf(v, -1):
		p.t("(")
		p.t("-")
		p.t("1")
		p.t("/")
		p.t("0")
		p.t(")")
	case v < 0 || (v == 0 && math.Signbit(v)):
		p.t("(")
		p.t("-")
		p.t(FormatNumber(-v))
		p.t(")")
	default:
		if x.Text != "" {
			p.t(x.Text)
		} else {
			p.t(FormatNumber(v))
		}
	}
}

func isPrefixExp(e Expr) bool {
	switch e.(type) {
	case *EName, *EIndex, *ECall, *EMethod, *EParen:
		return true
	}
	return false
}

func (p *printer) prefix(e Expr) {
	if isPrefixExp(e) {
		p.expr(e, 0)
		return
	}
	p.t("(")
	p.expr(e, 0)
	p.t(")")
}

func (p *printer) args(args []Expr, sugar int) {
	if len(args) == 1 && sugar != 0 {
		switch a := args[0].(type) {
		case *EStr:
			if sugar == 1 {
				p.tNB(QuoteCanonical(a.V))
				return
			}
		case *ETable:
			if sugar == 2 {
				p.table(a, true)
				return
			}
		}
	}
	p.tNB("(")
	p.exprList(args)
	p.t(")")
}

func (p *printer) table(x *ETable, nb bool) {
	if nb {
		p.tNB("{")
	} else {
		p.t("{")
	}
	for i, it := range x.Items {
		if i > 0 {
			if p.lay.Wild && p.lay.R.Intn(3) == 0 {
				p.t(";")
			} else {
				p.t(",")
			}
		}
		switch it.Kind {
		case TName:
			p.t(it.Name)
			p.t("=")
		case TKey:
			p.t("[")
			p.expr(it.Key, 0)
			p.t("]")
			p.t("=")
		}
		p.expr(it.Val, 0)
	}
	if p.lay.Wild && len(x.Items) > 0 && p.lay.R.Intn(4) == 0 {
		p.t(",")
	}
	p.t("}")
}

// expr prints e; minPrec is the lowest precedence that may appear unparenthesised.
func (p *printer) expr(e Expr, minPrec int) {
	if exprPrec(e) < minPrec {
		p.t("(")
		p.expr(e, 0)
		p.t(")")
		return
	}
	if p.lay.ExtraParens && p.lay.R != nil && minPrec > 0 && p.lay.R.Intn(12) == 0 {
		// operand position: parentheses are semantically neutral here
		p.t("(")
		p.expr(e, 0)
		p.t(")")
		return
	}
	switch x := e.(type) {
	case *ENil:
		p.t("nil")
	case *ETrue:
		p.t("true")
	case *EFalse:
		p.t("false")
	case *EVararg:
		p.t("...")
	case *ENum:
		p.number(x)
	case *EStr:
		p.t(p.strLit(x.V))
	case *EName:
		p.t(x.Name)
	case *EIndex:
		p.prefix(x.Obj)
		if k, ok := x.Key.(*EStr); ok && x.Dot && IsIdent(k.V) {
			p.tNB(".")
			p.tNB(k.V)
		} else {
			p.tNB("[")
			p.expr(x.Key, 0)
			p.t("]")
		}
	case *ECall:
		p.prefix(x.Fn)
		p.args(x.Args, x.Sugar)
	case *EMethod:
		p.prefix(x.Obj)
		p.tNB(":")
		p.tNB(x.Name)
		p.args(x.Args, x.Sugar)
	case *EFunc:
		p.t("function")
		p.funcBody(x.F, p.lastTok)
	case *EBin:
		prec, right := binPrec(x.Op)
		lp, rp := prec, prec+1
		if right {
			lp, rp = prec+1, prec
		}
		p.expr(x.L, lp)
		p.t(x.Op)
		p.expr(x.R, rp)
	case *EUn:
		p.t(x.Op)
		p.expr(x.X, precUnary)
	case *EParen:
		p.t("(")
		p.expr(x.X, 0)
		p.t(")")
	case *ETable:
		p.table(x, false)
	default:
		panic("last: unknown expression")
	}
}
