// Package lrun runs one program on the implementation (real gopher-lua) and
// on the reference interpreter with the same host functions, and compares
// the two traces.
package lrun

import (
	"context"
	"fmt"
	"os"
	"regexp"
	"sort"
	"strings"

	lua "github.com/yuin/gopher-lua"

	"verif/internal/canon"
	"verif/internal/gl"
	"verif/internal/last"
	"verif/internal/lref"
)

// Config of one run (same on both sides).
type Config struct {
	Opts lua.Options
	// FaultAt > 0: the FaultAt-th emit call raises instead of recording.
	FaultAt   int
	FaultKind string // "string" | "table" | "nil" | "number" | "gopanic" | "goruntime"
	// Ctx, when non-nil, is attached with SetContext before running (implementation only).
	Ctx context.Context
	CtxBefore context.Context // attached before Ctx and replaced by it (an earlier, possibly ended, piece of work)
	// Args passed to the chunk.
	MaxSteps int
	// StackLimit for the model (C12).
	StackLimit int
	// OnState lets a property register more host functions on the implementation state.
	OnState func(L *lua.LState, r *ImplRun)
	// OnModel likewise for the model.
	OnModel func(in *lref.Interp)
	// KeepState: do not close the state (caller closes).
	KeepState bool
	// FileHeader, when non-empty, makes the implementation load the program
	// through LoadFile: the text FileHeader+src is written to a file named
	// "<string>" in the current directory (so that the chunk name, and with it
	// every position prefix, is the same as for Load). For "#!" first lines.
	FileHeader string
}

// ImplRun is the observation of one implementation run.
type ImplRun struct {
	Trace      []string
	Results    []string
	Failed     bool
	ErrCanon   string
	ErrText    string
	GoPanic    string
	RTFault    string // Go run-time fault text surfacing in an error
	Unbalanced string // state balance canary
	LoadErr    string
	Snaps      []lua.VerifState
	EmitCount  int
	ids        *gl.IDMap
	bag        []string
	L          *lua.LState
}

func (r *ImplRun) canonVal(v lua.LValue) string {
	if s, ok := v.(lua.LString); ok {
		return canon.ImplString(string(s))
	}
	return gl.Canon(v, r.ids)
}

func (r *ImplRun) canonArgs(L *lua.LState, from int) string {
	var sb strings.Builder
	top := L.GetTop()
	for i := from; i <= top; i++ {
		if i > from {
			sb.WriteByte(',')
		}
		sb.WriteString(r.canonVal(L.Get(i)))
	}
	return sb.String()
}

const FaultMsg = "Efault"

// RunImpl runs src on the real interpreter.
func RunImpl(src string, cfg *Config) *ImplRun {
	r := &ImplRun{ids: gl.NewIDMap()}
	L := lua.NewState(cfg.Opts)
	r.L = L
	if !cfg.KeepState {
		defer L.Close()
	}
	if cfg.CtxBefore != nil {
		L.SetContext(cfg.CtxBefore)
	}
	if cfg.Ctx != nil {
		L.SetContext(cfg.Ctx)
	}
	L.SetGlobal("emit", L.NewFunction(func(L *lua.LState) int {
		r.EmitCount++
		if cfg.FaultAt > 0 && r.EmitCount == cfg.FaultAt {
			switch cfg.FaultKind {
			case "table":
				t := L.NewTable()
				t.RawSetString("code", lua.LNumber(7))
				L.Error(t, 1)
			case "number":
				L.Error(lua.LNumber(42), 1)
			case "nil":
				L.Error(lua.LNil, 1)
			case "bool":
				L.Error(lua.LFalse, 1)
			case "gopanic":
				panic("boom boom")
			case "goruntime":
				var m map[string]int
				m["x"] = 1
			default:
				L.RaiseError("%s", FaultMsg)
			}
		}
		r.Trace = append(r.Trace, r.canonArgs(L, 1))
		return 0
	}))
	L.SetGlobal("bag", L.NewFunction(func(L *lua.LState) int {
		r.bag = append(r.bag, r.canonArgs(L, 1))
		return 0
	}))
	L.SetGlobal("bagflush", L.NewFunction(func(L *lua.LState) int {
		sort.Strings(r.bag)
		r.Trace = append(r.Trace, "bag{"+strings.Join(r.bag, ";")+"}")
		r.bag = nil
		return 0
	}))
	L.SetGlobal("scrub", L.NewFunction(func(L *lua.LState) int {
		n := L.OptInt(1, 16)
		L.SetTop(0)
		for i := 0; i < n; i++ {
			L.Push(lua.LNumber(-7777 - i))
		}
		L.SetTop(0)
		return 0
	}))
	L.SetGlobal("hostret", L.NewFunction(func(L *lua.LState) int {
		// returns its first n arguments after n
		n := L.CheckInt(1)
		top := L.GetTop()
		if n > top-1 {
			n = top - 1
		}
		vals := make([]lua.LValue, 0, n)
		for i := 0; i < n; i++ {
			vals = append(vals, L.Get(2+i))
		}
		for _, v := range vals {
			L.Push(v)
		}
		return n
	}))
	L.SetGlobal("hosttop", L.NewFunction(func(L *lua.LState) int {
		// leaves all arguments on the stack and returns n: exactly the top-most n are the results
		n := L.CheckInt(1)
		top := L.GetTop()
		if n > top-1 {
			n = top - 1
		}
		return n
	}))
	L.SetGlobal("newud", L.NewFunction(func(L *lua.LState) int {
		ud := L.NewUserData()
		if mt, ok := L.Get(1).(*lua.LTable); ok {
			ud.Metatable = mt
		}
		L.Push(ud)
		return 1
	}))
	L.SetGlobal("hosth", L.NewFunction(func(L *lua.LState) int {
		// a host function usable as a metamethod handler: records its
		// arguments and returns them all
		r.Trace = append(r.Trace, "hosth:"+r.canonArgs(L, 1))
		return L.GetTop()
	}))
	L.SetGlobal("goresume", L.NewFunction(func(L *lua.LState) int {
		// drives a coroutine through the Go API: goresume(f, ...) -> true, results... | false, error value;
		// the activation's own list must be what it was before the Resume
		fn, ok := L.Get(1).(*lua.LFunction)
		if !ok {
			L.RaiseError("goresume: function expected")
		}
		var args []lua.LValue
		for i := 2; i <= L.GetTop(); i++ {
			args = append(args, L.Get(i))
		}
		top := L.GetTop()
		th, _ := L.NewThread()
		st, err, vals := L.Resume(th, fn, args...)
		if L.GetTop() != top {
			L.SetTop(0)
			L.Push(lua.LString("GORESUME-CHANGED-THE-RESUMERS-STACK"))
			L.Push(lua.LNumber(L.GetTop() - top))
			return 2
		}
		L.SetTop(0)
		if st == lua.ResumeError {
			L.Push(lua.LFalse)
			if ae, ok := err.(*lua.ApiError); ok && ae.Object != nil {
				L.Push(ae.Object)
			} else {
				L.Push(lua.LString(err.Error()))
			}
			return 2
		}
		L.Push(lua.LTrue)
		for _, v := range vals {
			L.Push(v)
		}
		return 1 + len(vals)
	}))
	L.SetGlobal("godrive", L.NewFunction(func(L *lua.LState) int {
		// drives a coroutine through the Go API to its end: godrive(f, maxsteps, ...) ->
		// per step a tag ("Y" yielded, "R" returned, "E" failed), the number of values and the
		// values; a final "D" when the finished coroutine refuses another resume
		fn, ok := L.Get(1).(*lua.LFunction)
		if !ok {
			L.RaiseError("godrive: function expected")
		}
		max := int(lua.LVAsNumber(L.Get(2)))
		var args []lua.LValue
		for i := 3; i <= L.GetTop(); i++ {
			args = append(args, L.Get(i))
		}
		top := L.GetTop()
		th, _ := L.NewThread()
		var out []lua.LValue
		for step := 1; step <= max; step++ {
			st, err, vals := L.Resume(th, fn, args...)
			if L.GetTop() != top {
				out = append(out, lua.LString("GODRIVE-CHANGED-THE-RESUMERS-STACK"))
				break
			}
			if st == lua.ResumeError {
				out = append(out, lua.LString("E"), lua.LNumber(1))
				if ae, ok := err.(*lua.ApiError); ok && ae.Object != nil {
					out = append(out, ae.Object)
				} else {
					out = append(out, lua.LString(err.Error()))
				}
			} else {
				tag := "Y"
				if st == lua.ResumeOK {
					tag = "R"
				}
				out = append(out, lua.LString(tag), lua.LNumber(len(vals)))
				out = append(out, vals...)
			}
			if st != lua.ResumeYield {
				// a finished coroutine refuses every further resume, however often it is tried
				tag := "D"
				for again := 0; again < 300; again++ {
					if st2, _, _ := L.Resume(th, fn); st2 != lua.ResumeError {
						tag = "RESUMED-A-FINISHED-COROUTINE"
						break
					}
				}
				out = append(out, lua.LString(tag))
				break
			}
			args = []lua.LValue{lua.LNumber(step * 100), lua.LNumber(len(vals))}
		}
		L.SetTop(0)
		for _, v := range out {
			L.Push(v)
		}
		return len(out)
	}))
	L.SetGlobal("gores", L.NewFunction(func(L *lua.LState) int {
		// resumes an existing, already started coroutine through the Go API:
		// gores(co, ...) -> "refused" | true, values... | false, error value
		th, ok := L.Get(1).(*lua.LState)
		if !ok {
			L.RaiseError("gores: coroutine expected")
		}
		var args []lua.LValue
		for i := 2; i <= L.GetTop(); i++ {
			args = append(args, L.Get(i))
		}
		top := L.GetTop()
		st, err, vals := L.Resume(th, nil, args...)
		if L.GetTop() != top {
			L.SetTop(0)
			L.Push(lua.LString("GORES-CHANGED-THE-RESUMERS-STACK"))
			return 1
		}
		L.SetTop(0)
		if st == lua.ResumeError {
			if ae, ok := err.(*lua.ApiError); ok && ae.Object != nil {
				if s, ok := ae.Object.(lua.LString); ok && strings.HasPrefix(string(s), "can not resume") {
					L.Push(lua.LString("refused"))
					return 1
				}
				L.Push(lua.LFalse)
				L.Push(ae.Object)
				return 2
			}
			L.Push(lua.LFalse)
			L.Push(lua.LString(err.Error()))
			return 2
		}
		L.Push(lua.LTrue)
		for _, v := range vals {
			L.Push(v)
		}
		return 1 + len(vals)
	}))
	L.SetGlobal("hosty", L.NewFunction(func(L *lua.LState) int {
		// a host function that yields its arguments the way the README shows
		var args []lua.LValue
		for i := 1; i <= L.GetTop(); i++ {
			args = append(args, L.Get(i))
		}
		return L.Yield(args...)
	}))
	L.SetGlobal("hostpanic", L.NewFunction(func(L *lua.LState) int {
		panic("host function panics")
	}))
	L.SetGlobal("hostymore", L.NewFunction(func(L *lua.LState) int {
		// yields more values than it was given: its arguments and two of its own
		var args []lua.LValue
		for i := 1; i <= L.GetTop(); i++ {
			args = append(args, L.Get(i))
		}
		return L.Yield(append(args, lua.LString("own1"), lua.LNumber(2))...)
	}))
	L.SetGlobal("snap", L.NewFunction(func(L *lua.LState) int {
		r.Snaps = append(r.Snaps, lua.VerifSnapshot(L))
		return 0
	}))
	L.SetGlobal("hostcall", L.NewFunction(func(L *lua.LState) int {
		// host function -> L.Call -> Lua re-entry; returns all results
		top := L.GetTop()
		L.Call(top-1, lua.MultRet)
		return L.GetTop()
	}))
	if cfg.OnState != nil {
		cfg.OnState(L, r)
	}
	var fn *lua.LFunction
	var err error
	if cfg.FileHeader != "" && cfg.FileHeader[0] != '#' {
		// a plain first line (a comment): same loader, the text just starts later
		fn, err = L.Load(strings.NewReader(cfg.FileHeader+src), "<string>")
	} else if cfg.FileHeader != "" {
		if werr := os.WriteFile("<string>", []byte(cfg.FileHeader+src), 0o644); werr != nil {
			panic("lrun: cannot write the program file: " + werr.Error())
		}
		fn, err = L.LoadFile("<string>")
		os.Remove("<string>")
	} else {
		fn, err = L.Load(strings.NewReader(src), "<string>")
	}
	if err != nil {
		r.LoadErr = err.Error()
		r.Failed = true
		return r
	}
	top := L.GetTop()
	o := gl.Protect(func() error {
		L.Push(fn)
		return L.PCall(0, lua.MultRet, nil)
	})
	if o.GoPanic != nil {
		r.GoPanic = o.PanicStr
		r.Failed = true
		return r
	}
	if o.Err != nil {
		r.Failed = true
		r.ErrText = o.Err.Error()
		if obj := gl.ErrObject(o.Err); obj != nil {
			r.ErrCanon = r.canonVal(obj)
			if s, ok := obj.(lua.LString); ok && gl.IsGoRuntimeErrorText(string(s)) {
				r.RTFault = string(s)
			}
		} else {
			r.ErrCanon = canon.ImplString(o.Err.Error())
		}
		if ae, ok := o.Err.(*lua.ApiError); ok && ae.Type == lua.ApiErrorPanic && !(cfg.FaultAt > 0 && strings.HasPrefix(cfg.FaultKind, "go")) {
			r.RTFault = "ApiErrorPanic: " + fw200(ae.Object.String())
		}
	} else {
		n := L.GetTop() - top
		for i := 1; i <= n; i++ {
			r.Results = append(r.Results, r.canonVal(L.Get(top+i)))
		}
	}
	L.SetTop(top)
	if cfg.Ctx == nil {
		r.Unbalanced = gl.Balanced(L)
	}
	return r
}

var lineRe = regexp.MustCompile(`\\x01\d+\\x02`)

func fw200(s string) string {
	if len(s) > 200 {
		return s[:200]
	}
	return s
}

// ModelRun is the observation of one reference-interpreter run.
type ModelRun struct {
	lref.Result
	ResultsCanon []string
	ErrCanon     string
	In           *lref.Interp
}

// RunModel runs the chunk on the reference interpreter.
func RunModel(c *last.Chunk, cfg *Config) *ModelRun {
	in := lref.New()
	if cfg.MaxSteps > 0 {
		in.MaxSteps = cfg.MaxSteps
	}
	in.StackLimit = cfg.StackLimit
	in.Register("emit", func(in *lref.Interp, a []lref.Value) []lref.Value {
		in.EmitCount++
		if cfg.FaultAt > 0 && in.EmitCount == cfg.FaultAt {
			if in.HandlerDepth > 0 {
				in.Tags["fault-in-handler"]++
			}
			switch cfg.FaultKind {
			case "table":
				t := lref.NewTable()
				t.Set("code", float64(7))
				in.Throw(t)
			case "number":
				in.Throw(float64(42))
			case "nil":
				in.Throw(nil)
			case "bool":
				in.Throw(false)
			case "gopanic", "goruntime":
				in.Throw(lref.GoPanicValue{})
			default:
				// luaL_error: position of the Lua caller
				in.RTErrorMsg(FaultMsg)
			}
		}
		in.Emit(in.CanonList(a))
		return nil
	})
	in.Register("bag", func(in *lref.Interp, a []lref.Value) []lref.Value {
		in.Bag = append(in.Bag, in.CanonList(a))
		return nil
	})
	in.Register("bagflush", func(in *lref.Interp, a []lref.Value) []lref.Value {
		sort.Strings(in.Bag)
		in.Emit("bag{" + strings.Join(in.Bag, ";") + "}")
		in.Bag = nil
		return nil
	})
	in.Register("scrub", func(in *lref.Interp, a []lref.Value) []lref.Value { return nil })
	in.Register("snap", func(in *lref.Interp, a []lref.Value) []lref.Value { return nil })
	in.Register("hostret", func(in *lref.Interp, a []lref.Value) []lref.Value {
		n, _ := lref.ToNumber(first(a))
		k := int(n)
		if k > len(a)-1 {
			k = len(a) - 1
		}
		if k < 0 {
			k = 0
		}
		return append([]lref.Value(nil), a[1:1+k]...)
	})
	in.Register("hosttop", func(in *lref.Interp, a []lref.Value) []lref.Value {
		n, _ := lref.ToNumber(first(a))
		k := int(n)
		if k > len(a)-1 {
			k = len(a) - 1
		}
		if k < 0 {
			k = 0
		}
		return append([]lref.Value(nil), a[len(a)-k:]...)
	})
	in.Register("newud", func(in *lref.Interp, a []lref.Value) []lref.Value {
		ud := &lref.Userdata{}
		if mt, ok := first(a).(*lref.Table); ok {
			ud.Meta = mt
		}
		return []lref.Value{ud}
	})
	in.Register("hosth", func(in *lref.Interp, a []lref.Value) []lref.Value {
		in.Emit("hosth:" + in.CanonList(a))
		return append([]lref.Value(nil), a...)
	})
	in.Register("goresume", func(in *lref.Interp, a []lref.Value) []lref.Value {
		if len(a) == 0 {
			in.RTError("goresume: function expected")
		}
		ok, res := in.ResumeNew(a[0], a[1:])
		if ok && len(res) == 0 {
			res = []lref.Value{nil} // LState.Resume reports one nil when there are no values
		}
		return append([]lref.Value{ok}, res...)
	})
	in.Register("godrive", func(in *lref.Interp, a []lref.Value) []lref.Value {
		if len(a) == 0 {
			in.RTError("godrive: function expected")
		}
		max := 0
		if f, ok := first(a[1:]).(float64); ok {
			max = int(f)
		}
		var args []lref.Value
		if len(a) > 2 {
			args = a[2:]
		}
		co := in.NewCoroutine(a[0])
		var out []lref.Value
		for step := 1; step <= max; step++ {
			ok, res := in.Resume(co, args)
			if !ok {
				out = append(out, "E", float64(1), first(res))
			} else {
				if len(res) == 0 {
					res = []lref.Value{nil} // LState.Resume reports one nil when there are no values
				}
				tag := "Y"
				if co.Status() == "dead" {
					tag = "R"
				}
				out = append(out, tag, float64(len(res)))
				out = append(out, res...)
			}
			if co.Status() == "dead" {
				out = append(out, "D")
				break
			}
			args = []lref.Value{float64(step * 100), float64(len(res))}
		}
		return out
	})
	in.Register("gores", func(in *lref.Interp, a []lref.Value) []lref.Value {
		co, ok := first(a).(*lref.Coroutine)
		if !ok {
			in.RTError("gores: coroutine expected")
		}
		if co.Status() != "suspended" {
			return []lref.Value{"refused"}
		}
		ok2, res := in.Resume(co, a[1:])
		if ok2 && len(res) == 0 {
			res = []lref.Value{nil}
		}
		return append([]lref.Value{ok2}, res...)
	})
	in.Register("hosty", func(in *lref.Interp, a []lref.Value) []lref.Value {
		return in.Yield(a)
	})
	in.Register("hostpanic", func(in *lref.Interp, a []lref.Value) []lref.Value {
		in.Throw(lref.GoPanicValue{})
		return nil
	})
	in.Register("hostymore", func(in *lref.Interp, a []lref.Value) []lref.Value {
		return in.Yield(append(append([]lref.Value(nil), a...), "own1", float64(2)))
	})
	in.Register("hostcall", func(in *lref.Interp, a []lref.Value) []lref.Value {
		if len(a) == 0 {
			in.RTError("bad argument #1 to 'hostcall'")
		}
		return in.CallHost(a[0], a[1:])
	})
	if cfg.OnModel != nil {
		cfg.OnModel(in)
	}
	m := &ModelRun{In: in}
	m.Result = in.Run(c)
	for _, v := range m.Results {
		m.ResultsCanon = append(m.ResultsCanon, in.Canon(v))
	}
	if m.Failed {
		m.ErrCanon = in.Canon(m.ErrValue)
	}
	return m
}

func first(a []lref.Value) lref.Value {
	if len(a) == 0 {
		return nil
	}
	return a[0]
}

// Diff describes the first disagreement between model and implementation ("" = agree).
type Diff struct {
	Kind  string // trace | results | failed | errvalue | gopanic | rtfault | unbalanced | load
	Index int    // first differing trace index (Kind trace)
	Msg   string
}

func (d *Diff) String() string {
	if d == nil {
		return ""
	}
	return fmt.Sprintf("%s: %s", d.Kind, d.Msg)
}

func sh(s string) string {
	if len(s) > 160 {
		return s[:160] + "…"
	}
	return s
}

func at(tr []string, i int) string {
	if i < len(tr) {
		return sh(tr[i])
	}
	return "<end of trace>"
}

// Compare decides whether the implementation run agrees with the model run.
func Compare(m *ModelRun, r *ImplRun) *Diff {
	if r.GoPanic != "" {
		return &Diff{Kind: "gopanic", Msg: "Go panic escaped PCall: " + sh(r.GoPanic)}
	}
	if r.LoadErr != "" {
		return &Diff{Kind: "load", Msg: "generated program rejected by the loader: " + sh(r.LoadErr)}
	}
	if i := canon.FirstDiff(m.Trace, r.Trace); i >= 0 {
		return &Diff{Kind: "trace", Index: i, Msg: fmt.Sprintf("event %d: model %s / impl %s (model %d events, impl %d; impl error: %s)", i, at(m.Trace, i), at(r.Trace, i), len(m.Trace), len(r.Trace), sh(r.ErrText))}
	}
	if r.RTFault != "" {
		return &Diff{Kind: "rtfault", Msg: "Go run-time fault surfaced: " + sh(r.RTFault)}
	}
	if m.Failed != r.Failed {
		return &Diff{Kind: "failed", Index: len(m.Trace), Msg: fmt.Sprintf("model failed=%v (%s) impl failed=%v (%s)", m.Failed, sh(m.ErrCanon), r.Failed, sh(r.ErrText))}
	}
	if m.Failed {
		if !canon.EventsEqual(m.ErrCanon, r.ErrCanon) {
			return &Diff{Kind: "errvalue", Index: len(m.Trace), Msg: fmt.Sprintf("error value: model %s / impl %s (%s)", sh(m.ErrCanon), sh(r.ErrCanon), sh(r.ErrText))}
		}
	} else {
		if i := canon.FirstDiff(m.ResultsCanon, r.Results); i >= 0 {
			return &Diff{Kind: "results", Msg: fmt.Sprintf("chunk result %d: model %s / impl %s", i, at(m.ResultsCanon, i), at(r.Results, i))}
		}
	}
	if r.Unbalanced != "" {
		return &Diff{Kind: "unbalanced", Msg: r.Unbalanced}
	}
	return nil
}

// CompareImpl compares two implementation runs (metamorphic oracle); line
// numbers inside position markers are ignored when ignoreLines is set.
func CompareImpl(a, b *ImplRun, ignoreLines bool) *Diff {
	norm := func(s string) string {
		if !ignoreLines {
			return s
		}
		return lineRe.ReplaceAllString(s, `\x01N\x02`)
	}
	n := len(a.Trace)
	if len(b.Trace) < n {
		n = len(b.Trace)
	}
	for i := 0; i < n; i++ {
		if norm(a.Trace[i]) != norm(b.Trace[i]) {
			return &Diff{Kind: "trace", Index: i, Msg: fmt.Sprintf("event %d: %s / %s", i, sh(a.Trace[i]), sh(b.Trace[i]))}
		}
	}
	if len(a.Trace) != len(b.Trace) {
		return &Diff{Kind: "trace", Index: n, Msg: fmt.Sprintf("trace lengths %d / %d", len(a.Trace), len(b.Trace))}
	}
	if a.Failed != b.Failed {
		return &Diff{Kind: "failed", Msg: fmt.Sprintf("failed %v (%s) / %v (%s)", a.Failed, sh(a.ErrText), b.Failed, sh(b.ErrText))}
	}
	if a.Failed && norm(a.ErrCanon) != norm(b.ErrCanon) {
		return &Diff{Kind: "errvalue", Msg: fmt.Sprintf("error %s / %s", sh(a.ErrCanon), sh(b.ErrCanon))}
	}
	if strings.Join(a.Results, ",") != strings.Join(b.Results, ",") {
		return &Diff{Kind: "results", Msg: fmt.Sprintf("results %s / %s", sh(strings.Join(a.Results, ",")), sh(strings.Join(b.Results, ",")))}
	}
	return nil
}

// ResourceAbort reports whether the implementation must not be run on a
// program the model gave up on. That is every abort: a model that stopped
// early - for a resource reason (steps, depth, string size) or because a value
// left its compared domain - has not executed the rest of the program and so
// cannot vouch that it terminates within reasonable time and memory (a
// thorough C01 run met a program that triples a string 30 times behind a
// "sign of zero" abort: 2.5 GB in the implementation, worker dead).
func ResourceAbort(reason string) bool {
	return reason != ""
}

// CanonValue renders a value with the run's identity map (for property-specific host functions).
func CanonValue(r *ImplRun, v lua.LValue) string { return r.canonVal(v) }
