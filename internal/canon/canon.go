// Package canon holds the trace canonicalisation shared by the model side and
// the implementation side, and the trace comparer.
package canon

import (
	"math"
	"regexp"
	"strconv"
	"strings"
)

// NumStr renders a float64 exactly; NaNs merged. -0 and 0 are not
// distinguished here: in Lua 5.1 itself the sign of a zero *constant* depends
// on which other constants the function has (constants are keyed by value),
// so the sign of zero is only compared where a program observes it (1/x).
func NumStr(f float64) string {
	switch {
	case math.IsNaN(f):
		return "nan"
	case math.IsInf(f, 1):
		return "inf"
	case math.IsInf(f, -1):
		return "-inf"
	case f == 0:
		return "0"
	}
	if f == math.Trunc(f) && math.Abs(f) < 1e15 {
		return strconv.FormatInt(int64(f), 10)
	}
	return strconv.FormatFloat(f, 'g', -1, 64)
}

const (
	MarkOpen  = "\x01"
	MarkClose = "\x02"
	RTText    = "<rt>"
)

var implPosRe = regexp.MustCompile(`^<string>:(\d+): ?`)

// ImplString canonicalises a string produced by the implementation: leading
// `<string>:N:` position prefixes become markers; a remaining message that
// contains a blank is an implementation-worded message and becomes <rt>.
func ImplString(s string) string {
	var sb strings.Builder
	for {
		m := implPosRe.FindStringSubmatch(s)
		if m == nil {
			break
		}
		sb.WriteString(MarkOpen + m[1] + MarkClose)
		s = s[len(m[0]):]
	}
	if strings.Contains(s, " ") {
		s = RTText
	}
	sb.WriteString(s)
	return strconv.Quote(sb.String())
}

// ModelString canonicalises a model string (markers already inside).
func ModelString(s string) string {
	// split leading markers
	rest := s
	var sb strings.Builder
	for strings.HasPrefix(rest, MarkOpen) {
		j := strings.Index(rest, MarkClose)
		if j < 0 {
			break
		}
		sb.WriteString(rest[:j+1])
		rest = rest[j+1:]
	}
	if strings.Contains(rest, " ") {
		rest = RTText
	}
	sb.WriteString(rest)
	return strconv.Quote(sb.String())
}

var markRe = regexp.MustCompile(`\\x01(\d+)(?:-(\d+))?\\x02`)

// EventsEqual compares a model event with an implementation event: equal
// text, except that a model line-range marker a-b matches an implementation
// marker n with a <= n <= b.
func EventsEqual(model, impl string) bool {
	if model == impl {
		return true
	}
	if !strings.Contains(model, `\x01`) {
		return false
	}
	mi := markRe.FindAllStringSubmatchIndex(model, -1)
	ii := markRe.FindAllStringSubmatchIndex(impl, -1)
	if len(mi) != len(ii) {
		return false
	}
	pm, pi := 0, 0
	for k := range mi {
		if model[pm:mi[k][0]] != impl[pi:ii[k][0]] {
			return false
		}
		a, _ := strconv.Atoi(model[mi[k][2]:mi[k][3]])
		b := a
		if mi[k][4] >= 0 {
			b, _ = strconv.Atoi(model[mi[k][4]:mi[k][5]])
		}
		n, _ := strconv.Atoi(impl[ii[k][2]:ii[k][3]])
		if n < a || n > b {
			return false
		}
		pm, pi = mi[k][1], ii[k][1]
	}
	return model[pm:] == impl[pi:]
}

// FirstDiff returns the index of the first differing event, or -1.
func FirstDiff(model, impl []string) int {
	n := len(model)
	if len(impl) < n {
		n = len(impl)
	}
	for i := 0; i < n; i++ {
		if !EventsEqual(model[i], impl[i]) {
			return i
		}
	}
	if len(model) != len(impl) {
		return n
	}
	return -1
}
