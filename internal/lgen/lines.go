package lgen

import (
	"fmt"

	. "verif/internal/last"
)

// LineProgram generates a program about source positions and debug queries (C17):
// caught run-time errors and error() at level 1/2, curline()/emitfn() probes,
// probe()/setl()/probeup() over locals and upvalues in nested scopes.
func (g *Gen) LineProgram() *Chunk {
	b := &Block{}
	b.Stmts = append(b.Stmts, &SLocalFunc{Name: "thrower", F: &Func{Params: []string{"k", "lvl"}, Body: Blk(
		CallSN("error", Bin("..", Str("E"), N("k")), N("lvl")))}})
	g.lineBlock(b, 0, 8+g.R.Intn(14))
	return &Chunk{Body: b}
}

func (g *Gen) lineLocalVal() Expr {
	switch g.R.Intn(4) {
	case 0:
		return Str(g.strPool[1+g.R.Intn(5)])
	case 1:
		return &ETrue{}
	}
	return Num(float64(g.R.Intn(100)))
}

func (g *Gen) failingExpr() Expr {
	// a multi-operand expression so that wild layouts spread it over lines
	pad := Bin("+", Num(float64(g.R.Intn(9))), Bin("*", Num(2), Num(float64(g.R.Intn(9)))))
	switch g.R.Intn(5) {
	case 0:
		return Bin("+", pad, &ENil{})
	case 1:
		return Bin("..", Str("s"), &ETable{})
	case 2:
		return Bin("<", pad, Str("x"))
	case 3:
		return Dot(&EParen{X: &ENil{}}, "field")
	}
	return Call(&EParen{X: &ENil{}}, pad)
}

func (g *Gen) lineBlock(b *Block, depth int, n int) {
	var locals []string
	for i := 0; i < n; i++ {
		k := g.R.Intn(16)
		g.cover("linestmt:%d", k)
		switch k {
		case 0, 1:
			v := g.fresh("v")
			locals = append(locals, v)
			b.Stmts = append(b.Stmts, Local1(v, g.lineLocalVal()))
		case 2:
			b.Stmts = append(b.Stmts, CallSN("emitline", Str(g.fresh("cl")), CallN("curline")))
		case 3, 4:
			// caught run-time error inside an anonymous function
			body := Blk(Local1(g.fresh("pad"), Num(1)))
			if g.R.Intn(2) == 0 {
				body.Stmts = append(body.Stmts, Local1(g.fresh("z"), g.failingExpr()))
			} else {
				body.Stmts = append(body.Stmts, CallSN("emit", g.failingExpr()))
			}
			b.Stmts = append(b.Stmts, CallSN("emit", Str("rt"), CallN("pcall", Fn(nil, false, body))))
		case 5:
			// error() at level 1 and 2
			lvl := 1 + g.R.Intn(2)
			body := Blk(Local1(g.fresh("pad"), Num(1)), CallSN("thrower", Num(float64(g.R.Intn(9))), Num(float64(lvl))), Local1(g.fresh("pad"), Num(2)))
			b.Stmts = append(b.Stmts, CallSN("emit", Str(fmt.Sprintf("lvl%d", lvl)), CallN("pcall", Fn(nil, false, body))))
		case 6:
			b.Stmts = append(b.Stmts, CallSN("emit", Str("lvl1"), CallN("pcall", Fn(nil, false, Blk(CallSN("error", Str("Edirect")))))))
		case 7:
			// function definition lines
			f := g.fresh("fn")
			params := []string{}
			for j, m := 0, g.R.Intn(3); j < m; j++ {
				params = append(params, g.fresh("p"))
			}
			fb := &Block{}
			if depth < 3 {
				g.lineBlock(fb, depth+1, 1+g.R.Intn(4))
			}
			fb.Stmts = append(fb.Stmts, CallSN("emitline", Str("in:"+f), CallN("curline")))
			var decl Stmt
			if g.R.Intn(2) == 0 {
				decl = &SLocalFunc{Name: f, F: &Func{Params: params, Body: fb}}
			} else {
				decl = Local1(f, &EFunc{F: &Func{Params: params, Body: fb}})
			}
			locals = append(locals, f)
			b.Stmts = append(b.Stmts, decl, CallSN("emitfn", Str("def:"+f), N(f)), &SCall{Call: Call(N(f), Num(1), Num(2))})
		case 8, 9:
			// enumerate locals here
			b.Stmts = append(b.Stmts, CallSN("probe", Str(g.fresh("pl"))))
		case 10:
			if len(locals) > 0 {
				v := locals[g.R.Intn(len(locals))]
				b.Stmts = append(b.Stmts, CallSN("setl", Str(v), Num(float64(900+g.R.Intn(90)))), CallSN("probe", Str(g.fresh("after-setl"))))
			}
		case 11:
			// block-scoped locals whose registers are reused afterwards
			if depth < 3 {
				inner := &Block{}
				g.lineBlock(inner, depth+1, 1+g.R.Intn(4))
				b.Stmts = append(b.Stmts, &SDo{Body: inner})
				v := g.fresh("v")
				locals = append(locals, v)
				b.Stmts = append(b.Stmts, Local1(v, g.lineLocalVal()), CallSN("probe", Str(g.fresh("after-block"))))
			}
		case 12:
			// loops with locals
			if depth < 3 {
				inner := &Block{}
				g.lineBlock(inner, depth+1, 1+g.R.Intn(3))
				iv := g.fresh("i")
				if g.R.Intn(2) == 0 {
					b.Stmts = append(b.Stmts, &SNumFor{Var: iv, Start: Num(1), Limit: Num(float64(1 + g.R.Intn(2))), Body: inner})
				} else {
					kv := g.fresh("k")
					b.Stmts = append(b.Stmts, &SGenFor{Names: []string{kv, iv}, Exprs: []Expr{CallN("ipairs", &ETable{Items: []TItem{{Kind: TPos, Val: Num(7)}}})}, Body: inner})
				}
			}
		case 13:
			// upvalues of a closure
			if len(locals) > 0 {
				f := g.fresh("cf")
				refs := []Expr{}
				for j, m := 0, 1+g.R.Intn(3); j < m; j++ {
					refs = append(refs, N(locals[g.R.Intn(len(locals))]))
				}
				locals = append(locals, f)
				b.Stmts = append(b.Stmts, Local1(f, Fn(nil, false, Blk(Return(refs...)))), CallSN("probeup", Str(g.fresh("up")), N(f)))
			}
		case 14:
			// shadowing
			if len(locals) > 0 {
				v := locals[g.R.Intn(len(locals))]
				b.Stmts = append(b.Stmts, Local1(v, g.lineLocalVal()), CallSN("probe", Str(g.fresh("shadow"))))
			}
		default:
			if len(locals) > 0 {
				v := locals[g.R.Intn(len(locals))]
				b.Stmts = append(b.Stmts, CallSN("emit", Str("read"), N(v)))
			}
		}
	}
}
