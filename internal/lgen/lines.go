package lgen

import (
	"fmt"

	. "verif/internal/last"
)

// LineProgram generates a program about source positions and debug queries (C17):
// caught run-time errors and error() at level 1/2, curline()/emitfn() probes,
// probe()/setl()/probeup() over locals and upvalues in nested scopes.
func (g *Gen) LineProgram() *Chunk {
	b := &Block{}
	b.Stmts = append(b.Stmts, &SLocalFunc{Name: "thrower", F: &Func{Params: []string{"k", "lvl"}, Body: Blk(
		CallSN("error", Bin("..", Str("E"), N("k")), N("lvl")))}})
	// an object whose handlers ask for the locals of the frame that is stopped
	// at the very instruction that invoked them
	h := func(tag string, params []string, ret Expr) TItem {
		body := Blk(CallSN("probe2", Str("mm-"+tag)))
		if ret != nil {
			body.Stmts = append(body.Stmts, Return(ret))
		}
		return TItem{Kind: TName, Name: "__" + tag, Val: Fn(params, false, body)}
	}
	b.Stmts = append(b.Stmts, Local1("mtp", CallN("setmetatable", &ETable{}, &ETable{Items: []TItem{
		h("add", []string{"a", "b"}, Num(0)), h("index", []string{"t", "k"}, Num(0)), h("concat", []string{"a", "b"}, Str("")),
		h("unm", []string{"a"}, Num(0)), h("lt", []string{"a", "b"}, &ETrue{}), h("call", []string{"self"}, Num(0)),
		h("newindex", []string{"t", "k", "v"}, nil)}})))
	g.lineBlock(b, 0, 8+g.R.Intn(14))
	return &Chunk{Body: b}
}

func (g *Gen) lineLocalVal() Expr {
	switch g.R.Intn(4) {
	case 0:
		return Str(g.strPool[1+g.R.Intn(5)])
	case 1:
		return &ETrue{}
	}
	return Num(float64(g.R.Intn(100)))
}

func (g *Gen) failingExpr() Expr {
	// a multi-operand expression so that wild layouts spread it over lines
	pad := Bin("+", Num(float64(g.R.Intn(9))), Bin("*", Num(2), Num(float64(g.R.Intn(9)))))
	switch g.R.Intn(5) {
	case 0:
		return Bin("+", pad, &ENil{})
	case 1:
		return Bin("..", Str("s"), &ETable{})
	case 2:
		return Bin("<", pad, Str("x"))
	case 3:
		return Dot(&EParen{X: &ENil{}}, "field")
	}
	return Call(&EParen{X: &ENil{}}, pad)
}

func (g *Gen) lineBlock(b *Block, depth int, n int) {
	var locals []string
	for i := 0; i < n; i++ {
		k := g.R.Intn(19)
		g.cover("linestmt:%d", k)
		switch k {
		case 16, 17, 18:
			// a metamethod handler enumerates this function's locals while it is
			// stopped at the first instruction of this statement
			var operand Expr = Num(float64(g.R.Intn(9)))
			if len(locals) > 0 && g.R.Intn(2) == 0 {
				operand = N(locals[g.R.Intn(len(locals))])
			}
			var e Expr
			switch g.R.Intn(6) {
			case 0:
				e = Bin("+", N("mtp"), operand)
			case 1:
				e = Dot(N("mtp"), "k")
			case 2:
				e = Bin("..", N("mtp"), Str("s"))
			case 3:
				e = Un("-", N("mtp"))
			case 4:
				e = Bin("<", N("mtp"), N("mtp"))
			default:
				e = Call(N("mtp"))
			}
			switch g.R.Intn(4) {
			case 0:
				b.Stmts = append(b.Stmts, Assign1(Dot(N("mtp"), "k"), operand))
			case 1:
				if tv := locals[len(locals)*0:]; len(tv) > 0 {
					t := tv[g.R.Intn(len(tv))]
					if t[0] == 'v' {
						b.Stmts = append(b.Stmts, Assign1(N(t), e))
						break
					}
				}
				fallthrough
			default:
				v := g.fresh("v")
				locals = append(locals, v)
				b.Stmts = append(b.Stmts, Local1(v, e))
			}
		case 0, 1:
			v := g.fresh("v")
			locals = append(locals, v)
			b.Stmts = append(b.Stmts, Local1(v, g.lineLocalVal()))
		case 2:
			b.Stmts = append(b.Stmts, CallSN("emitline", Str(g.fresh("cl")), CallN("curline")))
		case 3, 4:
			// caught run-time error inside an anonymous function
			body := Blk(Local1(g.fresh("pad"), Num(1)))
			switch g.R.Intn(4) {
			case 0:
				body.Stmts = append(body.Stmts, Local1(g.fresh("z"), g.failingExpr()))
			case 1:
				body.Stmts = append(body.Stmts, CallSN("emit", g.failingExpr()))
			default:
				// the failing instruction is the first one of its statement (operands
				// are locals), directly after a statement of another shape
				p, q := g.fresh("p"), g.fresh("q")
				body.Stmts = append(body.Stmts, Local([]string{p, q}, &ENil{}, Num(1)))
				switch g.R.Intn(5) {
				case 0:
					body.Stmts = append(body.Stmts, Local1(g.fresh("o"), Bin("or", N(q), &ETable{})))
				case 1:
					body.Stmts = append(body.Stmts, Local1(g.fresh("o"), Bin("and", N(p), N(q))))
				case 2:
					body.Stmts = append(body.Stmts, Assign1(N(q), Bin("or", N(p), Num(2))))
				case 3:
					body.Stmts = append(body.Stmts, Local1(g.fresh("o"), Bin("and", N(q), Bin("or", N(p), Num(3)))))
				}
				var fe Expr
				switch g.R.Intn(7) {
				case 0:
					fe = Bin("+", N(p), N(q))
				case 1:
					fe = Dot(N(p), "f")
				case 2:
					fe = Call(N(p))
				case 3:
					fe = Un("-", N(p))
				case 4:
					fe = Un("#", N(p))
				case 5:
					fe = Bin("..", N(p), N(q))
				default:
					fe = Bin("<", N(p), N(q))
				}
				if g.R.Intn(3) == 0 {
					body.Stmts = append(body.Stmts, Assign1(N(q), fe))
				} else {
					body.Stmts = append(body.Stmts, Local1(g.fresh("z"), fe))
				}
				g.cover("fail:first-instruction")
			}
			b.Stmts = append(b.Stmts, CallSN("emit", Str("rt"), CallN("pcall", Fn(nil, false, body))))
		case 5:
			// error() at level 1 and 2
			lvl := 1 + g.R.Intn(2)
			body := Blk(Local1(g.fresh("pad"), Num(1)), CallSN("thrower", Num(float64(g.R.Intn(9))), Num(float64(lvl))), Local1(g.fresh("pad"), Num(2)))
			b.Stmts = append(b.Stmts, CallSN("emit", Str(fmt.Sprintf("lvl%d", lvl)), CallN("pcall", Fn(nil, false, body))))
		case 6:
			if g.R.Intn(2) == 0 {
				// level 2 of a function that was called by a host function which was
				// called by pcall: two host frames lie between it and the calling
				// Lua statement
				thr := Fn(nil, false, Blk(Local1(g.fresh("pad"), Num(1)), CallSN("error", Str("Ego"), Num(2))))
				switch g.R.Intn(3) {
				case 0:
					b.Stmts = append(b.Stmts, CallSN("emit", Str("lvl2-host-frames"), CallN("pcall", N("hostcall"), thr)))
				case 1:
					b.Stmts = append(b.Stmts, CallSN("emit", Str("lvl2-host-frames"), CallN("pcall", N("pcall"), thr)))
				default:
					b.Stmts = append(b.Stmts, CallSN("emit", Str("lvl2-host-frames"), CallN("pcall", N("hostcall"), N("hostcall"), thr)))
				}
				g.cover("lvl2-through-host-frames")
				break
			}
			if g.R.Intn(3) == 0 {
				// levels that name no Lua function: nothing is added to the message.
				// The caller was replaced by a tail call, the level lies beyond the
				// bottom of the stack, or the function is the body of a coroutine
				raise := func(lvl int) *EFunc {
					return Fn(nil, false, Blk(Local1(g.fresh("pad"), Num(1)), CallSN("error", Str("Enolevel"), Num(float64(lvl)))))
				}
				switch g.R.Intn(5) {
				case 0: // tail-called: level 2 is the tail call
					t, u := g.fresh("tc"), g.fresh("tu")
					b.Stmts = append(b.Stmts, Local1(t, raise(2)),
						Local1(u, Fn(nil, false, Blk(Local1(g.fresh("pad"), Num(1)), Return(Call(N(t)))))),
						CallSN("emit", Str("lvl2-is-a-tail-call"), CallN("pcall", Fn(nil, false, Blk(Local1("r", Call(N(u))), Return(N("r")))))))
				case 1: // called normally by a function that was tail-called: level 2 exists, level 3 does not
					lvl := 2 + g.R.Intn(2)
					t, u := g.fresh("tc"), g.fresh("tu")
					b.Stmts = append(b.Stmts, Local1(t, raise(lvl)),
						Local1(u, Fn(nil, false, Blk(Local1(g.fresh("pad"), Num(1)), Local1("r", Call(N(t))), Return(N("r"))))),
						CallSN("emit", Str(fmt.Sprintf("lvl%d-below-a-tail-called-function", lvl)), CallN("pcall", Fn(nil, false, Blk(Return(Call(N(u))))))))
				case 2: // the body of a coroutine has no caller
					lvl := 2 + g.R.Intn(2)
					if g.R.Intn(2) == 0 {
						b.Stmts = append(b.Stmts, CallSN("emit", Str("coroutine-body-level"), Call(Dot(N("coroutine"), "resume"), Call(Dot(N("coroutine"), "create"), raise(lvl)))))
					} else {
						b.Stmts = append(b.Stmts, CallSN("emit", Str("coroutine-body-level"), CallN("pcall", Call(Dot(N("coroutine"), "wrap"), raise(lvl)))))
					}
				case 3: // a level far beyond the stack
					b.Stmts = append(b.Stmts, CallSN("emit", Str("level-beyond-the-stack"), CallN("pcall", raise(30+g.R.Intn(50)))))
				default: // several tail calls in a row, then level 1 (kept) and 2..4 (all tail calls)
					lvl := 1 + g.R.Intn(4)
					t, u, w := g.fresh("tc"), g.fresh("tu"), g.fresh("tw")
					b.Stmts = append(b.Stmts, Local1(t, raise(lvl)),
						Local1(u, Fn(nil, false, Blk(Return(Call(N(t)))))),
						Local1(w, Fn(nil, false, Blk(Return(Call(N(u)))))),
						CallSN("emit", Str(fmt.Sprintf("lvl%d-after-two-tail-calls", lvl)), CallN("pcall", Fn(nil, false, Blk(Return(Call(N(w))))))))
				}
				g.cover("level-names-no-function")
				break
			}
			b.Stmts = append(b.Stmts, CallSN("emit", Str("lvl1"), CallN("pcall", Fn(nil, false, Blk(CallSN("error", Str("Edirect")))))))
		case 7:
			// function definition lines
			f := g.fresh("fn")
			params := []string{}
			for j, m := 0, g.R.Intn(3); j < m; j++ {
				params = append(params, g.fresh("p"))
			}
			fb := &Block{}
			if depth < 3 {
				g.lineBlock(fb, depth+1, 1+g.R.Intn(4))
			}
			fb.Stmts = append(fb.Stmts, CallSN("emitline", Str("in:"+f), CallN("curline")))
			vararg := g.R.Intn(3) == 0
			if len(params) > 0 {
				// the parameters are locals too: set one, enumerate, read it back
				pn := params[g.R.Intn(len(params))]
				fb.Stmts = append(fb.Stmts, CallSN("setl", Str(pn), Num(float64(800+g.R.Intn(90)))), CallSN("probe", Str(g.fresh("pl-param"))), CallSN("emit", Str("read"), N(pn)))
			}
			if vararg {
				fb.Stmts = append(fb.Stmts, CallSN("emit", Str("va"), CallN("select", Str("#"), &EVararg{}), &EVararg{}))
				g.cover("fn:vararg-%d-params", len(params))
			}
			var decl Stmt
			if g.R.Intn(2) == 0 {
				decl = &SLocalFunc{Name: f, F: &Func{Params: params, Vararg: vararg, UsesVararg: vararg, Body: fb}}
			} else {
				decl = Local1(f, &EFunc{F: &Func{Params: params, Vararg: vararg, UsesVararg: vararg, Body: fb}})
			}
			locals = append(locals, f)
			args := []Expr{Num(1), Num(2)}
			for j, m := 0, g.R.Intn(3); vararg && j < m; j++ {
				args = append(args, Num(float64(3+j)))
			}
			b.Stmts = append(b.Stmts, decl, CallSN("emitfn", Str("def:"+f), N(f)), &SCall{Call: Call(N(f), args...)})
		case 8, 9:
			// enumerate locals here
			if g.R.Intn(5) == 0 {
				b.Stmts = append(b.Stmts, CallSN("badidx"))
				g.cover("badidx")
			}
			b.Stmts = append(b.Stmts, CallSN("probe", Str(g.fresh("pl"))))
		case 10:
			if len(locals) > 0 {
				v := locals[g.R.Intn(len(locals))]
				b.Stmts = append(b.Stmts, CallSN("setl", Str(v), Num(float64(900+g.R.Intn(90)))), CallSN("probe", Str(g.fresh("after-setl"))))
			}
		case 11:
			// block-scoped locals whose registers are reused afterwards
			if depth < 3 {
				inner := &Block{}
				g.lineBlock(inner, depth+1, 1+g.R.Intn(4))
				b.Stmts = append(b.Stmts, &SDo{Body: inner})
				v := g.fresh("v")
				locals = append(locals, v)
				b.Stmts = append(b.Stmts, Local1(v, g.lineLocalVal()), CallSN("probe", Str(g.fresh("after-block"))))
			}
		case 12:
			// loops with locals
			if depth < 3 {
				inner := &Block{}
				g.lineBlock(inner, depth+1, 1+g.R.Intn(3))
				iv := g.fresh("i")
				if g.R.Intn(4) == 0 {
					// what is attributed to the iterator call belongs to the loop header:
					// the current line seen from inside the iterator, and the position of a
					// failing iterator (not callable, raising at level 1 and 2)
					var itf Expr
					switch g.R.Intn(4) {
					case 0:
						itf = Fn([]string{"s", "c"}, false, Blk(CallSN("emitline", Str(g.fresh("itl")), CallN("curline2")),
							&SIf{Sites: make([]Site, 1), Conds: []Expr{Bin("<", N("c"), Num(2))}, Blocks: []*Block{Blk(Return(Bin("+", N("c"), Num(1))))}}))
					case 1:
						itf = &ENil{}
					case 2:
						itf = Fn(nil, false, Blk(CallSN("error", Str("Eiter"), Num(2))))
					default:
						itf = N("hostfail")
					}
					b.Stmts = append(b.Stmts, CallSN("emit", Str("iter-pos"), CallN("pcall", Fn(nil, false, Blk(
						Local1(g.fresh("pad"), Num(1)),
						&SGenFor{Names: []string{iv}, Exprs: []Expr{itf, &ENil{}, Num(0)}, Body: inner},
						Local1(g.fresh("pad"), Num(2)))))))
					g.cover("loop:iterator-position")
				} else if g.R.Intn(3) == 0 {
					// the iterator asks for the locals of the looping function at every call
					b.Stmts = append(b.Stmts, &SGenFor{Names: []string{iv}, Exprs: []Expr{
						Fn([]string{"s", "c"}, false, Blk(CallSN("probe2", Str(g.fresh("iter"))),
							&SIf{Sites: make([]Site, 1), Conds: []Expr{Bin("<", N("c"), Num(float64(1+g.R.Intn(2))))}, Blocks: []*Block{Blk(Return(Bin("+", N("c"), Num(1))))}})),
						&ENil{}, Num(0)}, Body: inner})
					g.cover("loop:probing-iterator")
				} else if g.R.Intn(2) == 0 {
					b.Stmts = append(b.Stmts, &SNumFor{Var: iv, Start: Num(1), Limit: Num(float64(1 + g.R.Intn(2))), Body: inner})
				} else {
					kv := g.fresh("k")
					b.Stmts = append(b.Stmts, &SGenFor{Names: []string{kv, iv}, Exprs: []Expr{CallN("ipairs", &ETable{Items: []TItem{{Kind: TPos, Val: Num(7)}}})}, Body: inner})
				}
			}
		case 13:
			// upvalues of a closure
			if len(locals) > 0 {
				f := g.fresh("cf")
				refs := []Expr{}
				for j, m := 0, 1+g.R.Intn(3); j < m; j++ {
					refs = append(refs, N(locals[g.R.Intn(len(locals))]))
				}
				locals = append(locals, f)
				b.Stmts = append(b.Stmts, Local1(f, Fn(nil, false, Blk(Return(refs...)))), CallSN("probeup", Str(g.fresh("up")), N(f)))
			}
		case 14:
			// shadowing
			if len(locals) > 0 {
				v := locals[g.R.Intn(len(locals))]
				b.Stmts = append(b.Stmts, Local1(v, g.lineLocalVal()), CallSN("probe", Str(g.fresh("shadow"))))
			}
		default:
			if len(locals) > 0 {
				v := locals[g.R.Intn(len(locals))]
				b.Stmts = append(b.Stmts, CallSN("emit", Str("read"), N(v)))
			}
		}
	}
}
