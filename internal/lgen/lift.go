package lgen

import (
	"fmt"
	"math/rand"

	. "verif/internal/last"
)

// LiftLiterals replaces up to max number/string literals of the chunk by
// references to fresh locals declared (and initialised with the literal) at the
// top of the chunk. Returns the number of literals lifted. This defeats constant
// folding and constant operands without changing the meaning.
func LiftLiterals(c *Chunk, max int, r *rand.Rand) int {
	var names []string
	var vals []Expr
	n := 0
	var liftE func(e Expr) Expr
	var liftB func(b *Block)
	liftList := func(es []Expr) {
		for i := range es {
			es[i] = liftE(es[i])
		}
	}
	liftE = func(e Expr) Expr {
		switch x := e.(type) {
		case *ENum:
			if n < max && r.Intn(2) == 0 {
				n++
				nm := fmt.Sprintf("K%d", n)
				names = append(names, nm)
				vals = append(vals, &ENum{V: x.V, Text: x.Text})
				return N(nm)
			}
		case *EStr:
			if n < max && r.Intn(2) == 0 {
				n++
				nm := fmt.Sprintf("K%d", n)
				names = append(names, nm)
				vals = append(vals, &EStr{V: x.V})
				return N(nm)
			}
		case *EIndex:
			x.Obj = liftE(x.Obj)
			if !x.Dot {
				x.Key = liftE(x.Key)
			}
		case *ECall:
			x.Fn = liftE(x.Fn)
			liftList(x.Args)
		case *EMethod:
			x.Obj = liftE(x.Obj)
			liftList(x.Args)
		case *EFunc:
			liftB(x.F.Body)
		case *EBin:
			x.L = liftE(x.L)
			x.R = liftE(x.R)
		case *EUn:
			x.X = liftE(x.X)
		case *EParen:
			x.X = liftE(x.X)
		case *ETable:
			for i := range x.Items {
				if x.Items[i].Kind == TKey {
					x.Items[i].Key = liftE(x.Items[i].Key)
				}
				x.Items[i].Val = liftE(x.Items[i].Val)
			}
		}
		return e
	}
	liftB = func(b *Block) {
		for _, s := range b.Stmts {
			switch x := s.(type) {
			case *SLocal:
				liftList(x.Exprs)
			case *SAssign:
				liftList(x.LHS)
				liftList(x.RHS)
			case *SCall:
				x.Call = liftE(x.Call)
			case *SDo:
				liftB(x.Body)
			case *SWhile:
				x.Cond = liftE(x.Cond)
				liftB(x.Body)
			case *SRepeat:
				liftB(x.Body)
				x.Cond = liftE(x.Cond)
			case *SIf:
				liftList(x.Conds)
				for _, bb := range x.Blocks {
					liftB(bb)
				}
				if x.Else != nil {
					liftB(x.Else)
				}
			case *SNumFor:
				x.Start = liftE(x.Start)
				x.Limit = liftE(x.Limit)
				if x.Step != nil {
					x.Step = liftE(x.Step)
				}
				liftB(x.Body)
			case *SGenFor:
				liftList(x.Exprs)
				liftB(x.Body)
			case *SFunc:
				liftB(x.F.Body)
			case *SLocalFunc:
				liftB(x.F.Body)
			case *SReturn:
				liftList(x.Exprs)
			}
		}
	}
	liftB(c.Body)
	if n == 0 {
		return 0
	}
	// declare in groups of 1..8 names per local statement
	var decls []Stmt
	for i := 0; i < len(names); {
		k := 1 + r.Intn(8)
		if i+k > len(names) {
			k = len(names) - i
		}
		decls = append(decls, &SLocal{Names: names[i : i+k], Exprs: vals[i : i+k]})
		i += k
	}
	c.Body.Stmts = append(decls, c.Body.Stmts...)
	return n
}
