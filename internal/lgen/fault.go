package lgen

import (
	"fmt"

	. "verif/internal/last"
)

// FaultOpts selects the flavour of a C05 program.
type FaultOpts struct {
	// Outer: "pcall" | "xpcall" | "go" (the harness calls BODY through the Go API)
	Outer string
	// ModelSafe: keep to constructs the reference interpreter models deterministically
	// (no sort comparators / gsub callbacks with side effects).
	ModelSafe bool
}

type faultGen struct {
	g      *Gen
	opts   FaultOpts
	nreg   int
	nstep  int
	budget int
}

// FaultInfo describes the region tree of a generated fault program.
type FaultInfo struct {
	Parent map[string]string // region -> parent region ("TOP" for R0)
	Xpcall map[string]bool   // region protected by xpcall (has a handler step)
}

func (f *faultGen) step(region string) Stmt {
	f.nstep++
	return CallSN("step", Str(fmt.Sprintf("%s:s%d", region, f.nstep)))
}

// regionBody generates the statements of a protected region.
func (f *faultGen) regionBody(region string, depth int) *Block {
	g := f.g
	b := &Block{}
	n := 2 + g.R.Intn(5)
	for i := 0; i < n && f.budget > 0; i++ {
		f.budget--
		k := g.R.Intn(17)
		g.cover("faultstmt:%d", k)
		switch k {
		case 0, 1, 2:
			b.Stmts = append(b.Stmts, f.step(region))
		case 3:
			iv := g.fresh("i")
			b.Stmts = append(b.Stmts, &SNumFor{Var: iv, Start: Num(1), Limit: Num(float64(1 + g.R.Intn(3))), Body: Blk(f.step(region))})
		case 4:
			// nested Lua calls, non-tail and tail
			fn := g.fresh("h")
			inner := Blk(f.step(region), Local1(g.fresh("pad"), Num(1)), f.step(region))
			if g.R.Intn(2) == 0 {
				inner.Stmts = append(inner.Stmts, Return(CallN("hostret", Num(1), Num(5))))
			}
			b.Stmts = append(b.Stmts, &SLocalFunc{Name: fn, F: &Func{Params: []string{"a"}, Body: inner}}, &SCall{Call: Call(N(fn), Num(1))})
		case 5, 6:
			// nested region
			if depth < 3 {
				b.Stmts = append(b.Stmts, f.region(region, depth+1)...)
			}
		case 7:
			// closure capturing a region local, kept for the post section
			v := g.fresh("cv")
			b.Stmts = append(b.Stmts, Local1(v, Num(float64(g.R.Intn(50)))),
				Assign1(Idx(N("FS"), Bin("+", Un("#", N("FS")), Num(1))), Fn(nil, false, Blk(Assign1(N(v), Bin("+", N(v), Num(1))), Return(N(v))))),
				f.step(region))
		case 8:
			// metamethod handler re-entry
			t := g.fresh("mo")
			b.Stmts = append(b.Stmts, Local1(t, CallN("setmetatable", &ETable{}, &ETable{Items: []TItem{
				{Kind: TName, Name: "__index", Val: Fn([]string{"t", "k"}, false, Blk(f.step(region), Return(Num(3))))},
				{Kind: TName, Name: "__add", Val: Fn([]string{"a", "b"}, false, Blk(f.step(region), Return(Num(4))))}}})),
				Local1(g.fresh("mv"), Bin("+", Dot(N(t), "missing"), Bin("+", N(t), Num(1)))))
		case 9:
			// generic-for over a closure iterator
			c := g.fresh("ic")
			iv := g.fresh("i")
			b.Stmts = append(b.Stmts, Local1(c, Num(0)), &SGenFor{Names: []string{iv}, Exprs: []Expr{Fn(nil, false, Blk(
				Assign1(N(c), Bin("+", N(c), Num(1))), f.step(region),
				&SIf{Conds: []Expr{Bin("<=", N(c), Num(float64(1+g.R.Intn(2))))}, Blocks: []*Block{Blk(Return(N(c)))}}))}, Body: Blk(f.step(region))})
		case 10:
			// host function -> L.Call -> Lua
			b.Stmts = append(b.Stmts, &SCall{Call: CallN("hostcall", Fn([]string{"x"}, false, Blk(f.step(region), Return(N("x")))), Num(2))})
		case 11:
			if !f.opts.ModelSafe {
				t := g.fresh("st")
				b.Stmts = append(b.Stmts, Local1(t, &ETable{Items: []TItem{{Kind: TPos, Val: Num(3)}, {Kind: TPos, Val: Num(1)}, {Kind: TPos, Val: Num(2)}, {Kind: TPos, Val: Num(5)}, {Kind: TPos, Val: Num(4)}}}),
					&SCall{Call: Call(Dot(N("table"), "sort"), N(t), Fn([]string{"a", "b"}, false, Blk(f.step(region), Return(Bin("<", N("a"), N("b"))))))})
			} else {
				b.Stmts = append(b.Stmts, f.step(region))
			}
		case 12:
			if !f.opts.ModelSafe {
				b.Stmts = append(b.Stmts, &SCall{Call: Call(Dot(N("string"), "gsub"), Str("a-b-c"), Str("%a"), Fn([]string{"m"}, false, Blk(f.step(region), Return(Str("x")))))})
			} else {
				b.Stmts = append(b.Stmts, f.step(region))
			}
		case 16:
			// a function reached through the key "" (its traceback name is empty)
			t := g.fresh("et")
			b.Stmts = append(b.Stmts, Local1(t, &ETable{Items: []TItem{{Kind: TKey, Key: Str(""), Val: Fn(nil, false, Blk(f.step(region), f.step(region)))}}}),
				&SCall{Call: Call(Idx(N(t), Str("")))})
		case 13:
			// table and string work between steps (pure)
			t := g.fresh("wt")
			b.Stmts = append(b.Stmts, Local1(t, &ETable{Items: []TItem{{Kind: TPos, Val: Num(1)}, {Kind: TName, Name: "k", Val: Str("v")}}}),
				Assign1(Idx(N(t), Num(2)), Bin("..", Dot(N(t), "k"), Str("w"))), f.step(region))
		case 14:
			// varargs and multiple results around a step
			fn := g.fresh("va")
			b.Stmts = append(b.Stmts, &SLocalFunc{Name: fn, F: &Func{Vararg: true, Body: Blk(f.step(region), Return(&EVararg{}))}},
				Local(append([]string{}, g.fresh("r"), g.fresh("r"), g.fresh("r")), Call(N(fn), Num(1), Num(2))))
		default:
			// a deliberate, ordinary error inside a region (part of the fault-free behaviour)
			if depth >= 1 && g.R.Intn(2) == 0 {
				switch g.R.Intn(3) {
				case 0:
					// (no blanks: blank-containing messages are compared as "some run-time message";
					// the percent signs must arrive untouched)
					b.Stmts = append(b.Stmts, CallSN("error", Str([]string{"Eown", "Eown100%full", "E%d%s%v%%own", "%"}[g.R.Intn(4)])))
				case 1:
					if g.R.Intn(2) == 0 {
						// the fault is the first instruction of a function whose body starts on another line
						b.Stmts = append(b.Stmts, Local1(g.fresh("z"), Call(Fn([]string{"p"}, false, Blk(Return(Dot(N("p"), "x")))))))
						break
					}
					b.Stmts = append(b.Stmts, Local1(g.fresh("z"), Bin("+", &ENil{}, Num(1))))
				default:
					b.Stmts = append(b.Stmts, CallSN("error", &ETable{}))
				}
				return b
			}
			b.Stmts = append(b.Stmts, f.step(region))
		}
	}
	b.Stmts = append(b.Stmts, f.step(region))
	return b
}

// region generates a nested protected call inside parent.
func (f *faultGen) region(parent string, depth int) []Stmt {
	g := f.g
	f.nreg++
	id := fmt.Sprintf("R%d", f.nreg)
	g.Fault.Parent[id] = parent
	body := f.regionBody(id, depth)
	ok, e := g.fresh("ok"), g.fresh("e")
	var call Expr
	if g.R.Intn(2) == 0 {
		call = CallN("pcall", Fn(nil, false, body))
		g.cover("region:pcall")
	} else {
		hb := Blk(CallSN("step", Str(parent+":handler-of-"+id)), Return(N("m")))
		if f.opts.ModelSafe && g.R.Intn(4) == 0 {
			// a message handler that fails by itself
			hb = Blk(CallSN("step", Str(parent+":handler-of-"+id)), CallSN("error", Str("Ehandler")))
			g.cover("region:xpcall-failing-handler")
		} else if f.opts.ModelSafe && g.R.Intn(3) == 0 {
			// the handler's result is what the caller receives, whatever it is
			switch g.R.Intn(4) {
			case 0:
				hb = Blk(CallSN("step", Str(parent+":handler-of-"+id)))
			case 1:
				hb = Blk(CallSN("step", Str(parent+":handler-of-"+id)), Return(&ENil{}))
			case 2:
				hb = Blk(CallSN("step", Str(parent+":handler-of-"+id)), Return(&EFalse{}, N("m")))
			default:
				hb = Blk(CallSN("step", Str(parent+":handler-of-"+id)), Return(Str("Hreplaced"), Num(2)))
			}
			g.cover("region:xpcall-handler-replaces-the-error")
		}
		call = CallN("xpcall", Fn(nil, false, body), &EFunc{F: &Func{Params: []string{"m"}, Body: hb}})
		g.Fault.Xpcall[id] = true
		g.cover("region:xpcall")
	}
	return []Stmt{
		&SLocal{Names: []string{ok, e}, Exprs: []Expr{call}},
		CallSN("emit", Str("caught:"+id+":in:"+parent), N(ok), CallN("eclass", N(e)), CallN("epos", N(e))),
	}
}

// FaultProgram generates a journal-style program for C05.
//
//	step(tag)  appends tag to the journal J and emits it
//	BODY()     the outermost protected body (region R0)
//	POST()     probe battery run after the protected call
func (g *Gen) FaultProgram(opts FaultOpts) *Chunk {
	f := &faultGen{g: g, opts: opts, budget: 10 + g.R.Intn(25)}
	g.Fault = &FaultInfo{Parent: map[string]string{"R0": "TOP"}, Xpcall: map[string]bool{"R0": opts.Outer == "xpcall" || opts.Outer == "gohandler"}}
	b := &Block{}
	b.Stmts = append(b.Stmts,
		Assign1(N("J"), &ETable{}),
		Assign1(N("FS"), &ETable{}),
		&SFunc{Target: N("step"), F: &Func{Params: []string{"tag"}, Body: Blk(
			Assign1(Idx(N("J"), Bin("+", Un("#", N("J")), Num(1))), N("tag")),
			CallSN("emit", N("tag")))}},
	)
	// caller state that must survive
	k1, k2, up := g.fresh("keep"), g.fresh("keep"), g.fresh("up")
	bump := g.fresh("bump")
	b.Stmts = append(b.Stmts,
		Local1(k1, Num(float64(g.R.Intn(100)))), Local1(k2, Str("kept")), Local1(up, Num(0)),
		&SLocalFunc{Name: bump, F: &Func{Body: Blk(Assign1(N(up), Bin("+", N(up), Num(1))), Return(N(up)))}},
		&SFunc{Target: N("BODY"), F: &Func{Vararg: true, Body: f.regionBody("R0", 0)}},
	)
	// POST: fixed probe battery
	co := g.fresh("co")
	b.Stmts = append(b.Stmts, &SFunc{Target: N("POST"), F: &Func{Body: Blk(
		CallSN("scrub", Num(24)),
		CallSN("emit", Str("post:bump"), Call(N(bump)), Call(N(bump))),
		// closures made inside (possibly failed) regions must still be callable
		func() Stmt {
			if opts.ModelSafe {
				// with the reference interpreter as oracle the values the escaped closures see are comparable
				return &SGenFor{Names: []string{"i", "fn"}, Exprs: []Expr{CallN("ipairs", N("FS"))}, Body: Blk(
					CallSN("emit", Str("post:closure"), N("i"), CallN("pcall", N("fn"))))}
			}
			return &SGenFor{Names: []string{"i", "fn"}, Exprs: []Expr{CallN("ipairs", N("FS"))}, Body: Blk(
				Local1("okc", &EParen{X: CallN("pcall", N("fn"))}),
				&SIf{Conds: []Expr{Un("not", N("okc"))}, Blocks: []*Block{Blk(CallSN("emit", Str("post:closure-failed"), N("i")))}})}
		}(),
		Local1("co2", Call(Dot(N("coroutine"), "wrap"), Fn(nil, false, Blk(
			&SCall{Call: CallN("pcall", N("error"), Str("Ex"))},
			Local1("v", Call(Dot(N("coroutine"), "yield"), Num(1))),
			&SCall{Call: CallN("xpcall", Fn(nil, false, Blk(CallSN("error", Str("Ey")))), Fn([]string{"m"}, false, Blk(Return(N("m")))))},
			Return(Call(Dot(N("coroutine"), "yield"), Bin("+", N("v"), Num(1)))))))),
		CallSN("emit", Str("post:co2"), &EParen{X: CallN("pcall", N("co2"))}, &EParen{X: CallN("pcall", N("co2"), Num(5))}, CallN("pcall", N("co2"), Num(7))),
		Local1(co, Call(Dot(N("coroutine"), "wrap"), Fn([]string{"a"}, false, Blk(
			Local1("b", Call(Dot(N("coroutine"), "yield"), Bin("+", N("a"), Num(1)))), Return(Bin("*", N("b"), Num(2))))))),
		CallSN("emit", Str("post:co"), Call(N(co), Num(1)), Call(N(co), Num(10))),
		CallSN("emit", Str("post:lib"), &EMethod{Obj: Str("ab"), Name: "rep", Args: []Expr{Num(3)}}, Call(Dot(N("table"), "concat"), &ETable{Items: []TItem{{Kind: TPos, Val: Num(1)}, {Kind: TPos, Val: Num(2)}}}, Str("-"))),
		CallSN("emit", Str("post:pcall"), CallN("pcall", N("error"), Str("Epost"))),
		// a coroutine driven by the host through the Go API: contained errors leave the host's stack alone
		CallSN("emit", Str("post:goresume"), CallN("goresume", Fn([]string{"a"}, false, Blk(CallSN("error", &ETable{Items: []TItem{{Kind: TName, Name: "code", Val: N("a")}}}))), Num(5))),
		CallSN("emit", Str("post:goresume2"), CallN("goresume", Fn([]string{"a"}, false, Blk(CallSN("error", Str("Eres%d")))), Num(6))),
		CallSN("emit", Str("post:goresume3"), CallN("goresume", Fn([]string{"a"}, false, Blk(Return(Bin("+", N("a"), Num(1)), Str("two")))), Num(7))),
		CallSN("emit", Str("post:goresume4"), CallN("pcall", N("goresume"), Fn(nil, false, Blk(Local1("z", Bin("+", &ENil{}, Num(1))))))),
		// an error value of any type is delivered as that value, whatever level goes with it
		CallSN("emit", Str("post:error-value-with-level"), CallN("pcall", Fn(nil, false, Blk(CallSN("error", &ETable{Items: []TItem{{Kind: TName, Name: "code", Val: Num(7)}}}, Num(2))))),
			CallN("select", Num(2), CallN("pcall", N("error"), &EFalse{}, Num(0))), CallN("type", &EParen{X: CallN("select", Num(2), CallN("pcall", N("error"), &ETable{}, Num(0)))}),
			CallN("select", Str("#"), CallN("pcall", N("error"), &ENil{}, Num(1)))),
		// an error that crosses two wrap boundaries on its way to the protected call
		Local1("w2inner", Call(Dot(N("coroutine"), "wrap"), Fn(nil, false, Blk(&SCall{Call: Call(Dot(N("coroutine"), "yield"), Num(1))}, CallSN("error", &ETable{Items: []TItem{{Kind: TName, Name: "code", Val: Num(5)}}}))))),
		Local1("w2outer", Call(Dot(N("coroutine"), "wrap"), Fn(nil, false, Blk(&SWhile{Cond: &ETrue{}, Body: Blk(&SCall{Call: Call(Dot(N("coroutine"), "yield"), Bin("*", Call(N("w2inner")), Num(2)))})})))),
		CallSN("emit", Str("post:two-wraps"), Call(N("w2outer")), CallN("pcall", N("w2outer"))),
		Local1("w3inner", Call(Dot(N("coroutine"), "wrap"), Fn(nil, false, Blk(CallSN("error", Str("Einner")))))),
		Local1("w3mid", Call(Dot(N("coroutine"), "wrap"), Fn(nil, false, Blk(Return(Call(N("w3inner"))))))),
		Local1("w3outer", Call(Dot(N("coroutine"), "wrap"), Fn(nil, false, Blk(Return(Call(N("w3mid"))))))),
		CallSN("emit", Str("post:three-wraps"), CallN("pcall", N("w3outer"))),
		// an error in a coroutine reaches the protected call around its wrap call as an error, also
		// after the running coroutine was (rightly) refused through the other entry point
		CallSN("emit", Str("post:wrap-after-refused"), CallN("pcall", Call(Dot(N("coroutine"), "wrap"), Fn(nil, false, Blk(
			CallSN("emit", Str("post:self-resume"), &EParen{X: Call(Dot(N("coroutine"), "resume"), Call(Dot(N("coroutine"), "running")))}),
			CallSN("error", &ETable{Items: []TItem{{Kind: TName, Name: "code", Val: Num(3)}}})))))),
		// a number as the error value arrives as that number (the position prefix is for strings)
		CallSN("emit", Str("post:number-error-value"), &EParen{X: CallN("select", Num(2), CallN("pcall", N("error"), Num(42)))},
			&EParen{X: CallN("select", Num(2), CallN("pcall", Fn(nil, false, Blk(CallSN("error", Num(4.5))))))},
			CallN("select", Num(2), CallN("pcall", Fn(nil, false, Blk(CallSN("error", Num(7), Num(2))))))),
		// a Go panic in a host function called inside a coroutine is that coroutine's error: the resume /
		// the protected call around the wrap call reports it, the coroutine is dead afterwards and the
		// resumer is the running thread again
		Local1("pth", &ENil{}),
		Local1("pw", Call(Dot(N("coroutine"), "wrap"), Fn(nil, false, Blk(Assign1(N("pth"), Call(Dot(N("coroutine"), "running"))),
			&SCall{Call: Call(Dot(N("coroutine"), "yield"), Num(1))}, CallSN("hostpanic"), Return(Num(2)))))),
		CallSN("emit", Str("post:gopanic-in-wrap"), Call(N("pw")), &EParen{X: CallN("pcall", N("pw"))}),
		CallSN("emit", Str("post:gopanic-in-wrap-status"), Call(Dot(N("coroutine"), "status"), N("pth")), &EParen{X: Call(Dot(N("coroutine"), "resume"), N("pth"))}, &EParen{X: CallN("pcall", N("pw"))}),
		Local1("pco", Call(Dot(N("coroutine"), "create"), Fn(nil, false, Blk(CallSN("hostpanic"))))),
		CallSN("emit", Str("post:gopanic-in-resume"), &EParen{X: Call(Dot(N("coroutine"), "resume"), N("pco"))}, Call(Dot(N("coroutine"), "status"), N("pco")), Call(Dot(N("coroutine"), "running"))),
		CallSN("emit", Str("post:pcall-ok"), CallN("pcall", Fn(nil, false, Blk(Return(Num(1), Num(2)))))),
		CallSN("emit", Str("post:select"), CallN("select", Str("#"), Num(1), &ENil{}, &ENil{})),
	)}})
	switch opts.Outer {
	case "pcall", "xpcall":
		ok, e := g.fresh("ok"), g.fresh("e")
		b.Stmts = append(b.Stmts, &SLocal{Names: []string{ok, e}})
		var call Expr
		if opts.Outer == "pcall" {
			call = CallN("pcall", N("BODY"), Num(1), Num(2))
		} else {
			call = CallN("xpcall", N("BODY"), Fn([]string{"m"}, false, Blk(CallSN("step", Str("TOP:handler-of-R0")), Return(N("m")))))
		}
		b.Stmts = append(b.Stmts,
			CallSN("snap"),
			&SAssign{LHS: []Expr{N(ok), N(e)}, RHS: []Expr{call}},
			CallSN("snap"),
			CallSN("emit", Str("caught:R0:in:TOP"), N(ok), CallN("eclass", N(e)), CallN("epos", N(e))),
			CallSN("emit", Str("locals"), N(k1), N(k2), N(up)),
			CallSN("POST"),
			CallSN("emit", Str("locals2"), N(k1), N(k2), N(up)))
	default:
		// the harness drives BODY and POST through the Go API; expose the locals
		b.Stmts = append(b.Stmts, &SFunc{Target: N("LOCALS"), F: &Func{Body: Blk(CallSN("emit", Str("locals"), N(k1), N(k2), N(up)))}})
	}
	return &Chunk{Body: b}
}
