package lgen

import (
	"fmt"

	. "verif/internal/last"
)

func (g *Gen) rootCtx() ectx {
	return ectx{depth: 0, calls: g.F.Calls && g.R.Intn(3) == 0}
}

func (g *Gen) scalarKind() Kind {
	return []Kind{KInt, KInt, KInt, KStr, KStr, KBool, KNum}[g.R.Intn(7)]
}

// newVar declares a variable of kind k in a random storage class and returns the declaring statements.
func (g *Gen) newVar(k Kind, init Expr) ([]Stmt, *Var) {
	st := g.R.Intn(10)
	switch {
	case st < 6 || k == KList || k == KTab || k == KFun:
		v := &Var{Name: g.fresh("v"), Kind: k, Volatile: g.F.Closures && g.R.Intn(4) == 0}
		s := Local1(v.Name, init)
		g.declare(v)
		g.cover("decl:local:%d", k)
		return []Stmt{s}, v
	case st < 8:
		v := &Var{Name: g.fresh("G"), Kind: k, Storage: 1}
		s := Assign1(N(v.Name), init)
		// globals are visible everywhere afterwards: declare at the outermost scope of the current function chain
		root := g.sc
		for root.parent != nil {
			root = root.parent
		}
		if g.inConditional() {
			// a global first assigned inside a conditional/loop body may not exist later: keep it block-scoped for the generator
			g.declare(v)
		} else {
			v.FnLevel = 0
			root.vars = append(root.vars, v)
		}
		g.cover("decl:global:%d", k)
		return []Stmt{s}, v
	default:
		// field of a holder table
		h := g.pickVar(KTab, false, false)
		var pre []Stmt
		if h == nil || h.Storage != 0 || h.FnLevel != g.fn.level {
			h = &Var{Name: g.fresh("t"), Kind: KTab}
			pre = append(pre, Local1(h.Name, &ETable{}))
			g.declare(h)
		}
		name := g.fresh("f")
		var lhs Expr = Dot(N(h.Name), name)
		if g.R.Intn(4) == 0 {
			lhs = Idx(N(h.Name), Str(name))
		}
		v := &Var{Name: name, Kind: k, Storage: 2, Holder: h.Name}
		g.declare(v)
		g.cover("decl:field:%d", k)
		return append(pre, Assign1(lhs, init)), v
	}
}

func (g *Gen) inConditional() bool {
	return g.depth > 0 || g.fn.level > 0
}

func (g *Gen) emitStmt() Stmt {
	n := 1 + g.R.Intn(3)
	args := []Expr{}
	c := g.rootCtx()
	for i := 0; i < n; i++ {
		args = append(args, g.expr(g.anyEmitKind(), c))
	}
	return CallSN("emit", args...)
}

func (g *Gen) anyEmitKind() Kind {
	return []Kind{KInt, KInt, KStr, KBool, KNum, KAny}[g.R.Intn(6)]
}

// simpleStmt generates one non-compound statement (possibly with a declaration before it).
func (g *Gen) simpleStmt() []Stmt {
	g.stmts++
	if g.F.Calls && g.R.Intn(40) == 0 {
		// a store whose object is a literal (a string, a number, nil, a boolean): it
		// fails, it does not land in some table
		obj := []Expr{Str("abc"), Num(5), &ENil{}, &ETrue{}, Str("")}[g.R.Intn(5)]
		var lhs Expr = Dot(&EParen{X: obj}, "x")
		if g.R.Intn(2) == 0 {
			lhs = Idx(&EParen{X: obj}, Num(1))
		}
		witness := g.fresh("wt")
		g.cover("assign:literal-object")
		return []Stmt{Local1(witness, &ETable{}),
			CallSN("emit", Str("literal-object-store"), &EParen{X: CallN("pcall", Fn(nil, false, Blk(Assign1(lhs, Num(1)))))}, Dot(N(witness), "x"), Idx(N(witness), Num(1)))}
	}
	if g.R.Intn(30) == 0 {
		// a non-integral number is a key of its own, next to the integer keys around it
		t, h := g.fresh("ft"), g.fresh("fh")
		n := 3 + 2*g.R.Intn(3) // odd length: #t/2 is x.5
		items := []TItem{}
		for i := 1; i <= n; i++ {
			items = append(items, TItem{Kind: TPos, Val: Num(float64(i * 10))})
		}
		g.cover("index:fractional-number-keys")
		return []Stmt{Local1(t, &ETable{Items: items}), Local1(h, Bin("/", Un("#", N(t)), Num(2))),
			CallSN("emit", Str("fractional-read"), Idx(N(t), N(h)), Idx(N(t), Num(1.5)), Idx(N(t), Bin("+", N(h), Num(0.5))), Idx(N(t), Bin("-", Num(1), Num(0.75)))),
			Assign1(Idx(N(t), N(h)), Str("half")),
			Assign1(Idx(N(t), Num(2.5)), Str("x")),
			CallSN("emit", Str("fractional-store"), Idx(N(t), N(h)), Idx(N(t), Num(2.5)), Idx(N(t), Num(2)), Idx(N(t), Num(3)), Un("#", N(t)),
				CallN("rawget", N(t), N(h)), CallN("rawget", N(t), Call(Dot(N("math"), "floor"), N(h))))}
	}
	if g.R.Intn(40) == 0 {
		// an open last item behind a whole number of flush batches (50 positional items each), and one item
		// off either way: the open values continue the list
		t, mf := g.fresh("bt"), g.fresh("mf")
		np := 50*(1+g.R.Intn(3)) + []int{0, 0, 0, -1, 1}[g.R.Intn(5)]
		tab := &ETable{}
		for i := 1; i <= np; i++ {
			tab.Items = append(tab.Items, TItem{Kind: TPos, Val: Num(float64(i))})
		}
		tab.Items = append(tab.Items, TItem{Kind: TPos, Val: Call(N(mf))})
		g.cover("constructor:open-tail-behind-%d-items", np)
		return []Stmt{
			Local1(mf, Fn(nil, false, Blk(Return(Str("x"), Str("y"), Str("z"))))),
			Local1(t, tab),
			CallSN("emit", Str("open-tail"), Un("#", N(t)), Idx(N(t), Num(1)), Idx(N(t), Num(float64(np))), Idx(N(t), Num(float64(np+1))), Idx(N(t), Num(float64(np+3))), Idx(N(t), Num(float64(np+4)))),
		}
	}
	if g.R.Intn(30) == 0 {
		// a constructor or a function expression as a condition is always true - but its fields are still
		// evaluated, in order, exactly once
		cf, n := g.fresh("cf"), g.fresh("cn")
		call := func(k int) Expr { return Call(N(cf), Num(float64(k))) }
		tab := func(ks ...int) Expr {
			t := &ETable{}
			for i, k := range ks {
				if i%2 == 0 {
					t.Items = append(t.Items, TItem{Kind: TPos, Val: call(k)})
				} else {
					t.Items = append(t.Items, TItem{Kind: TName, Name: "k", Val: call(k)})
				}
			}
			return t
		}
		ifs := func(cond Expr, tag string) Stmt {
			return &SIf{Sites: make([]Site, 1), Conds: []Expr{cond}, Blocks: []*Block{Blk(CallSN("emit", Str("then-"+tag)))}, Else: Blk(CallSN("emit", Str("else-"+tag)))}
		}
		g.cover("condition:constructor-with-side-effects")
		return []Stmt{
			Local1(cf, Fn([]string{"x"}, false, Blk(CallSN("emit", Str("cond-field"), N("x")), Return(N("x"))))),
			Local1(n, Num(0)),
			ifs(tab(1, 2), "1"),
			ifs(Bin("and", call(3), tab(4)), "2"),
			ifs(Bin("or", &ENil{}, tab(5, 6, 7)), "3"),
			ifs(Un("not", tab(8)), "4"),
			ifs(Bin("and", tab(9), tab(10)), "5"),
			ifs(Fn(nil, false, Blk(CallSN("emit", Str("never-called")))), "6"),
			&SWhile{Cond: tab(11), Body: Blk(Assign1(N(n), Bin("+", N(n), Num(1))), &SIf{Sites: make([]Site, 1), Conds: []Expr{Bin(">=", N(n), Num(2))}, Blocks: []*Block{Blk(&SBreak{})}})},
			&SRepeat{Body: Blk(Assign1(N(n), Bin("+", N(n), Num(1)))), Cond: tab(12, 13)},
			CallSN("emit", Str("cond-value"), N(n), Bin("~=", &EParen{X: Bin("and", call(14), tab(15))}, &ENil{})),
		}
	}
	if g.R.Intn(30) == 0 {
		// x op c1 op c2 groups from the left: with floating-point operands the
		// grouping is observable (compared with the same computation done in steps)
		x, s1 := g.fresh("fx"), g.fresh("fs")
		xs := []Expr{Num(0.1), Bin("^", Num(2), Num(53)), Num(1e308), Un("-", Num(1e308)), Num(0.7), Num(3)}
		cs := [][2]float64{{0.2, 0.3}, {1, 1}, {10, 0.1}, {1e308, 1e308}, {0.1, 0.2}, {1e-17, 1e-17}}
		k := g.R.Intn(len(xs))
		c := cs[g.R.Intn(len(cs))]
		op := []string{"+", "*", "+", "-"}[g.R.Intn(4)]
		g.cover("float-grouping:%s", op)
		return []Stmt{Local1(x, xs[k]), Local1(s1, Bin(op, N(x), Num(c[0]))), Assign1(N(s1), Bin(op, N(s1), Num(c[1]))),
			CallSN("emit", Str("grouping"), Bin("==", Bin(op, Bin(op, N(x), Num(c[0])), Num(c[1])), N(s1)),
				Bin("==", Bin(op, Bin(op, Num(c[0]), N(x)), Num(c[1])), Bin(op, &EParen{X: Bin(op, Num(c[0]), N(x))}, Num(c[1]))))}
	}
	switch g.R.Intn(12) {
	case 0, 1, 2:
		return []Stmt{g.emitStmt()}
	case 3, 4:
		k := g.scalarKind()
		s, _ := g.newVar(k, g.expr(k, g.rootCtx()))
		return s
	case 5, 6, 7:
		return g.assignStmt()
	case 8:
		return g.multiAssign()
	case 9:
		if g.R.Intn(2) == 0 {
			s, _ := g.newVar(KList, g.listCons(ectx{depth: 1}))
			return s
		}
		return g.listOp()
	case 10:
		return g.multiLocal()
	default:
		// shadowing: `local v = <expr reading the outer v>`
		k := g.scalarKind()
		if v := g.pickVar(k, true, false); v != nil && v.Storage == 0 && v.FnLevel == g.fn.level {
			init := g.expr(k, g.rootCtx())
			if k == KInt {
				init = Bin("%", init, Num(997))
			} else if k == KStr {
				init = &EMethod{Obj: init, Name: "sub", Args: []Expr{Num(1), Num(5)}}
			}
			s := Local1(v.Name, init)
			g.declare(&Var{Name: v.Name, Kind: k, Volatile: v.Volatile})
			g.cover("decl:shadow:%d", k)
			return []Stmt{s}
		}
		return []Stmt{g.emitStmt()}
	}
}

func (g *Gen) assignStmt() []Stmt {
	k := g.scalarKind()
	v := g.pickVar(k, true, false)
	if v == nil {
		s, _ := g.newVar(k, g.expr(k, g.rootCtx()))
		return s
	}
	g.cover("assign:%s:%d", v.storageName(), k)
	c := g.rootCtx()
	var rhs Expr
	if k == KInt {
		// keep integers bounded: v = (expr) % m  or v + small
		switch g.R.Intn(3) {
		case 0:
			rhs = Bin("%", g.expr(KInt, c), Num(float64(7+g.R.Intn(90))))
		case 1:
			rhs = Bin("%", Bin("+", v.Ref(), g.expr(KInt, ectx{depth: 2, calls: c.calls})), Num(1000))
		default:
			rhs = g.expr(KInt, ectx{depth: g.F.ExprDepth - 1, calls: c.calls})
		}
	} else if k == KStr {
		// keep strings short
		rhs = &EMethod{Obj: g.expr(KStr, c), Name: "sub", Args: []Expr{Num(1), Num(float64(4 + g.R.Intn(8)))}}
	} else {
		rhs = g.expr(k, c)
	}
	return []Stmt{Assign1(v.Ref(), rhs)}
}

// multiAssign: swaps, rotations and overlapping source/target assignments.
func (g *Gen) multiAssign() []Stmt {
	k := []Kind{KInt, KInt, KStr}[g.R.Intn(3)]
	a := g.pickVar(k, true, false)
	b := g.pickVar(k, true, false)
	if a == nil || b == nil || a == b {
		s1, a1 := g.newVar(k, g.expr(k, ectx{depth: 2}))
		s2, b1 := g.newVar(k, g.expr(k, ectx{depth: 2}))
		a, b = a1, b1
		pre := append(s1, s2...)
		return append(pre, g.multiAssignOn(k, a, b)...)
	}
	return g.multiAssignOn(k, a, b)
}

func (g *Gen) multiAssignOn(k Kind, a, b *Var) []Stmt {
	g.cover("multiassign:%s,%s", a.storageName(), b.storageName())
	c := ectx{depth: 2}
	bounded := func(e Expr) Expr {
		switch k {
		case KStr:
			return &EMethod{Obj: e, Name: "sub", Args: []Expr{Num(1), Num(8)}}
		case KInt:
			return Bin("%", e, Num(1000))
		}
		return e
	}
	switch g.R.Intn(7) {
	case 6:
		// surplus right-hand sides are evaluated before any store too: a call
		// among them still sees the old values of the (local) targets
		x, y, peek := g.fresh("x"), g.fresh("y"), g.fresh("peek")
		var as *SAssign
		switch g.R.Intn(4) {
		case 0:
			as = &SAssign{LHS: []Expr{N(x)}, RHS: []Expr{Num(10), Call(N(peek))}}
		case 1:
			as = &SAssign{LHS: []Expr{N(x), N(y)}, RHS: []Expr{Num(10), Num(20), Call(N(peek))}}
		case 2:
			as = &SAssign{LHS: []Expr{N(x), N(y)}, RHS: []Expr{Num(10), Call(N(peek)), Call(N(peek)), a.Ref()}}
		default:
			as = &SAssign{LHS: []Expr{N(y), N(x)}, RHS: []Expr{Call(N(peek)), b.Ref(), Call(N(peek))}}
		}
		g.cover("multiassign:surplus-values-observe-targets")
		return []Stmt{
			&SLocal{Names: []string{x, y}, Exprs: []Expr{Num(1), Num(2)}},
			&SLocalFunc{Name: peek, F: &Func{Body: Blk(CallSN("emit", Str("peek"), N(x), N(y)), Return(Num(9)))}},
			as,
			CallSN("emit", N(x), N(y)),
		}
	case 0: // swap
		return []Stmt{&SAssign{LHS: []Expr{a.Ref(), b.Ref()}, RHS: []Expr{b.Ref(), a.Ref()}}}
	case 1: // a, b = b, a <op> b
		var e Expr
		if k == KStr {
			e = &EMethod{Obj: Bin("..", a.Ref(), b.Ref()), Name: "sub", Args: []Expr{Num(1), Num(6)}}
		} else {
			e = Bin("%", Bin("+", a.Ref(), b.Ref()), Num(1000))
		}
		return []Stmt{&SAssign{LHS: []Expr{a.Ref(), b.Ref()}, RHS: []Expr{b.Ref(), e}}}
	case 2: // more targets than values
		return []Stmt{&SAssign{LHS: []Expr{a.Ref(), b.Ref()}, RHS: []Expr{bounded(g.expr(k, c))}}, Assign1(b.Ref(), bounded(g.expr(k, c)))}
	case 3: // more values than targets
		return []Stmt{&SAssign{LHS: []Expr{a.Ref()}, RHS: []Expr{b.Ref(), g.expr(k, c), g.expr(KAny, c)}}}
	case 4:
		// i, t[i] = i+1, v : the key uses the old i
		if k != KInt {
			return []Stmt{&SAssign{LHS: []Expr{a.Ref(), b.Ref()}, RHS: []Expr{b.Ref(), a.Ref()}}}
		}
		t := g.fresh("t")
		i := g.fresh("i")
		g.declare(&Var{Name: i, Kind: KInt})
		// in every order and with the table itself among the targets: table and key
		// of a target are evaluated before any store
		var as *SAssign
		switch g.R.Intn(5) {
		case 0:
			as = &SAssign{LHS: []Expr{N(i), Idx(N(t), N(i))}, RHS: []Expr{Bin("+", N(i), Num(1)), a.Ref()}}
		case 1:
			as = &SAssign{LHS: []Expr{Idx(N(t), N(i)), N(i)}, RHS: []Expr{a.Ref(), Bin("+", N(i), Num(1))}}
		case 2:
			as = &SAssign{LHS: []Expr{Idx(N(t), N(i)), N(i), Idx(N(t), Bin("+", N(i), Num(1)))}, RHS: []Expr{a.Ref(), Bin("+", N(i), Num(2)), Str("third")}}
		case 3:
			as = &SAssign{LHS: []Expr{Idx(N(t), N(i)), N(i)}, RHS: []Expr{Str("x")}} // i becomes nil after the key was taken
		default:
			as = &SAssign{LHS: []Expr{N(i), Idx(N(t), N(i)), Idx(N(t), Bin("+", N(i), Num(1)))}, RHS: []Expr{Num(4), a.Ref()}}
		}
		g.cover("multiassign:key-local-is-a-target")
		return []Stmt{
			Local1(t, &ETable{}),
			Local1(i, Num(float64(1+g.R.Intn(2)))),
			as,
			CallSN("emit", N(i), Idx(N(t), Num(1)), Idx(N(t), Num(2)), Idx(N(t), Num(3)), Idx(N(t), Num(4))),
			Assign1(N(i), Num(1)),
		}
	default:
		// t[i], t[j] = t[j], t[i] on a fresh list
		t := g.fresh("t")
		return []Stmt{
			Local1(t, &ETable{Items: []TItem{{Kind: TPos, Val: a.Ref()}, {Kind: TPos, Val: b.Ref()}, {Kind: TPos, Val: g.expr(k, c)}}}),
			&SAssign{LHS: []Expr{Idx(N(t), Num(1)), Idx(N(t), Num(3))}, RHS: []Expr{Idx(N(t), Num(3)), Idx(N(t), Num(1))}},
			CallSN("emit", Idx(N(t), Num(1)), Idx(N(t), Num(2)), Idx(N(t), Num(3))),
		}
	}
}

func (g *Gen) multiLocal() []Stmt {
	n := 2 + g.R.Intn(2)
	names := make([]string, n)
	kinds := make([]Kind, n)
	var exprs []Expr
	ne := g.R.Intn(n + 2)
	for i := 0; i < n; i++ {
		names[i] = g.fresh("v")
		kinds[i] = g.scalarKind()
	}
	c := g.rootCtx()
	for i := 0; i < ne; i++ {
		if i < n {
			exprs = append(exprs, g.expr(kinds[i], c))
		} else {
			exprs = append(exprs, g.expr(KAny, c))
		}
	}
	s := &SLocal{Names: names, Exprs: exprs}
	for i := 0; i < n; i++ {
		k := kinds[i]
		if i >= ne {
			k = KNil
		}
		g.declare(&Var{Name: names[i], Kind: k})
	}
	return []Stmt{s}
}

func (g *Gen) listOp() []Stmt {
	v := g.pickVar(KList, false, false)
	if v == nil {
		s, _ := g.newVar(KList, g.listCons(ectx{depth: 1}))
		return s
	}
	c := ectx{depth: 2}
	k := g.R.Intn(4)
	if v.Frozen > 0 && k < 2 {
		k = 2
	}
	switch k {
	case 0:
		return []Stmt{Assign1(Idx(v.Ref(), Bin("+", Un("#", v.Ref()), Num(1))), g.expr(KInt, c))}
	case 1:
		return []Stmt{CallS(Dot(N("table"), "insert"), v.Ref(), g.expr(KInt, c))}
	case 2:
		return []Stmt{CallSN("emit", Un("#", v.Ref()), Idx(v.Ref(), Num(1)), Idx(v.Ref(), Un("#", v.Ref())))}
	default:
		return []Stmt{CallSN("emit", Call(Dot(N("table"), "concat"), v.Ref(), Str(",")))}
	}
}

// block generates a nested block with up to n statements.
func (g *Gen) block(n int, loop bool) *Block {
	g.push(loop)
	if loop {
		g.fn.inLoop++
	}
	b := &Block{}
	for i := 0; i < n && g.stmts < g.F.MaxStmts; i++ {
		b.Stmts = append(b.Stmts, g.stmt()...)
	}
	if loop {
		g.fn.inLoop--
	}
	g.pop()
	return b
}

// maybeDirectBreak sometimes ends a loop body with an unconditional break, or
// reduces the body to a lone break (both are ordinary Lua; the compiler threads
// the jumps differently).
func (g *Gen) maybeDirectBreak(body *Block) {
	switch g.R.Intn(14) {
	case 0:
		body.Stmts = append(body.Stmts, &SBreak{})
		g.cover("loopbody:ends-in-break")
	case 1:
		body.Stmts = []Stmt{&SBreak{}}
		g.cover("loopbody:only-break")
	case 2:
		body.Stmts = append([]Stmt{&SDo{Body: Blk(&SBreak{})}}, body.Stmts...)
		g.cover("loopbody:starts-with-do-break")
	}
}

func (g *Gen) breakStmt() Stmt {
	// `break` must be the last statement of a block in 5.1
	return &SIf{Conds: []Expr{g.expr(KBool, ectx{depth: 2})}, Blocks: []*Block{Blk(&SBreak{})}}
}

// nilLocalsAtJumpTargets: locals declared without a value (LOADNIL) right
// before and right at a jump target - the head of a repeat/while body, a
// label, the join after an if/else, a short-circuit - whose registers are
// neighbours. Each pass through the target must see a fresh nil, however the
// text is laid out (a compiler that merges neighbouring LOADNILs across the
// target initialises the second local only once).
func (g *Gen) nilLocalsAtJumpTargets() []Stmt {
	g.stmts++
	x, y, n := g.fresh("nx"), g.fresh("ny"), g.fresh("nn")
	use := func(tag string) Stmt { return CallSN("emit", Str(tag), N(x), N(y), N(n)) }
	switch g.R.Intn(5) {
	case 0:
		g.cover("nil-locals:repeat-head")
		return []Stmt{&SDo{Body: Blk(Local1(n, Num(0)), &SLocal{Names: []string{x}},
			&SRepeat{Body: Blk(&SLocal{Names: []string{y}}, use("nl-repeat"), Assign1(N(y), N(n)), Assign1(N(x), N(n)), Assign1(N(n), Bin("+", N(n), Num(1)))), Cond: Bin(">=", N(n), Num(3))})}}
	case 1:
		g.cover("nil-locals:while-head")
		return []Stmt{&SDo{Body: Blk(Local1(n, Num(0)), &SLocal{Names: []string{x}},
			&SWhile{Cond: Bin("<", N(n), Num(3)), Body: Blk(&SLocal{Names: []string{y}}, use("nl-while"), Assign1(N(y), N(n)), Assign1(N(x), N(n)), Assign1(N(n), Bin("+", N(n), Num(1))))})}}
	case 2:
		if !g.F.Goto {
			break
		}
		g.cover("nil-locals:label")
		top := g.fresh("Lnl")
		return []Stmt{&SDo{Body: Blk(Local1(n, Num(0)), &SLocal{Names: []string{x}}, &SLabel{Name: top}, &SDo{Body: Blk(
			&SLocal{Names: []string{y}}, use("nl-label"), Assign1(N(y), N(n)), Assign1(N(x), N(n)), Assign1(N(n), Bin("+", N(n), Num(1))),
			&SIf{Sites: make([]Site, 1), Conds: []Expr{Bin("<", N(n), Num(3))}, Blocks: []*Block{Blk(&SGoto{Label: top})}})})}}
	case 3:
		g.cover("nil-locals:if-join")
		p := g.fresh("np")
		return []Stmt{&SNumFor{Var: n, Start: Num(1), Limit: Num(2), Body: Blk(
			Local1(p, Num(5)), Local1(x, Num(6)),
			&SIf{Sites: make([]Site, 1), Conds: []Expr{Bin("==", N(n), Num(1))}, Blocks: []*Block{Blk(Assign1(N(p), Num(2)))}, Else: Blk(Assign1(N(p), &ENil{}))},
			&SLocal{Names: []string{y}}, use("nl-join"), CallSN("emit", N(p)))}}
	}
	g.cover("nil-locals:short-circuit")
	c := g.fresh("nc")
	return []Stmt{&SNumFor{Var: n, Start: Num(1), Limit: Num(2), Body: Blk(
		Local1(c, Bin("==", N(n), Num(1))),
		Local1(x, Bin("and", N(c), &ENil{})),
		&SLocal{Names: []string{y}}, use("nl-and"))}}
}

// stmt generates any statement.
func (g *Gen) stmt() []Stmt {
	if g.depth >= g.F.MaxDepth || g.stmts >= g.F.MaxStmts {
		return g.simpleStmt()
	}
	r := g.R.Intn(30)
	if r < 12 && g.R.Intn(12) == 0 {
		return g.nilLocalsAtJumpTargets()
	}
	switch {
	case r < 12:
		return g.simpleStmt()
	case r < 15:
		return g.ifStmt()
	case r < 17:
		return g.whileStmt()
	case r < 19:
		return g.repeatStmt()
	case r < 22:
		return g.numForStmt()
	case r < 24:
		return g.genForStmt()
	case r < 25:
		g.stmts++
		return []Stmt{&SDo{Body: g.block(1+g.R.Intn(3), false)}}
	case r < 26:
		if g.fn.inLoop > 0 && g.sc.loop {
			g.stmts++
			return []Stmt{g.breakStmt()}
		}
		return g.simpleStmt()
	case r < 28:
		if g.F.Goto {
			return g.gotoStmt()
		}
		return g.simpleStmt()
	case r < 29:
		if g.F.Calls {
			switch g.R.Intn(6) {
			case 0:
				return g.scopeOfLocalFunctionValue()
			case 1:
				return g.bareIteratorFor()
			}
			return g.funcDecl()
		}
		return g.simpleStmt()
	default:
		if g.F.Errors && g.R.Intn(4) == 0 {
			return g.failingStmt()
		}
		return g.simpleStmt()
	}
}

func (g *Gen) ifStmt() []Stmt {
	g.stmts++
	s := &SIf{}
	n := 1 + g.R.Intn(3)
	for i := 0; i < n; i++ {
		c := g.rootCtx()
		var cond Expr
		if g.R.Intn(5) == 0 {
			cond = g.expr(KAny, c) // truthiness of arbitrary values
		} else {
			cond = g.expr(KBool, c)
		}
		s.Conds = append(s.Conds, cond)
		if g.R.Intn(8) == 0 {
			// an empty block (no statement, not even a semicolon)
			s.Blocks = append(s.Blocks, &Block{})
			g.cover("if:empty-block")
		} else {
			s.Blocks = append(s.Blocks, g.block(1+g.R.Intn(3), false))
		}
	}
	switch g.R.Intn(6) {
	case 0, 1, 2:
		s.Else = g.block(1+g.R.Intn(2), false)
	case 3:
		s.Else = &Block{}
		g.cover("if:empty-else")
	}
	if g.R.Intn(6) == 0 {
		// directly followed by an if with an empty then-block and no elseif / else
		g.cover("if:followed-by-empty-if")
		return []Stmt{s, &SIf{Conds: []Expr{g.expr(KBool, g.rootCtx())}, Blocks: []*Block{{}}}, g.emitStmt()}
	}
	return []Stmt{s}
}

func (g *Gen) whileStmt() []Stmt {
	g.stmts++
	cn := g.fresh("c")
	g.declare(&Var{Name: cn, Kind: KInt, Const: true})
	limit := float64(1 + g.R.Intn(6))
	cond := Bin("<", N(cn), Num(limit))
	if g.R.Intn(2) == 0 {
		cond = Bin("and", cond, Bin("or", g.expr(KBool, ectx{depth: 2}), &ETrue{}))
	}
	body := g.block(1+g.R.Intn(3), true)
	g.maybeDirectBreak(body)
	body.Stmts = append([]Stmt{Assign1(N(cn), Bin("+", N(cn), Num(1)))}, body.Stmts...)
	if g.R.Intn(10) == 0 {
		// a lone break as the whole body
		body.Stmts = []Stmt{&SBreak{}}
	}
	return []Stmt{Local1(cn, Num(0)), &SWhile{Cond: cond, Body: body}}
}

func (g *Gen) repeatStmt() []Stmt {
	g.stmts++
	cn := g.fresh("c")
	g.declare(&Var{Name: cn, Kind: KInt, Const: true})
	limit := float64(1 + g.R.Intn(5))
	g.push(true)
	g.fn.inLoop++
	body := &Block{}
	body.Stmts = append(body.Stmts, Assign1(N(cn), Bin("+", N(cn), Num(1))))
	// a body local the until expression reads
	bl := g.fresh("u")
	body.Stmts = append(body.Stmts, Local1(bl, Bin("*", N(cn), Num(2))))
	g.declare(&Var{Name: bl, Kind: KInt, Const: true})
	for i, n := 0, g.R.Intn(3); i < n && g.stmts < g.F.MaxStmts; i++ {
		body.Stmts = append(body.Stmts, g.stmt()...)
	}
	cond := Bin(">=", N(bl), Num(limit*2))
	g.fn.inLoop--
	g.pop()
	return []Stmt{Local1(cn, Num(0)), &SRepeat{Body: body, Cond: cond}}
}

func (g *Gen) numForStmt() []Stmt {
	g.stmts++
	iv := g.fresh("i")
	var start, limit, step Expr
	c := ectx{depth: 2}
	switch g.R.Intn(8) {
	case 0:
		start, limit = Num(1), Num(float64(g.R.Intn(6)))
	case 1:
		start, limit, step = Num(float64(3+g.R.Intn(4))), Num(0), Un("-", Num(float64(1+g.R.Intn(2))))
	case 2:
		start, limit, step = Num(0), Num(2), Num(0.5)
	case 3:
		start, limit, step = Num(1), Num(0), nil // empty
	case 4:
		start, limit, step = g.expr(KInt, c), Bin("+", g.expr(KInt, c), Num(3)), Num(float64(1+g.R.Intn(3)))
		// bound the trip count: limit - start could be large; use modulo forms
		start = Bin("%", start, Num(5))
		limit = Bin("%", limit, Num(9))
	case 5:
		start, limit, step = Num(1), Num(3), Num(1)
		if g.R.Intn(2) == 0 {
			// numeric strings are legal bounds (manual 2.4.5: tonumber)
			start = Str("1")
			g.cover("numfor:stringbound")
		}
	case 6:
		start, limit, step = Num(10), Num(1), Un("-", Num(3))
	default:
		start, limit, step = Num(1), Un("#", g.expr(KStr, c)), nil
	}
	g.push(true)
	g.fn.inLoop++
	g.declare(&Var{Name: iv, Kind: KInt, Const: g.R.Intn(4) != 0})
	body := &Block{}
	if g.R.Intn(2) == 0 {
		body.Stmts = append(body.Stmts, CallSN("emit", N(iv)))
	}
	for i, n := 0, 1+g.R.Intn(3); i < n && g.stmts < g.F.MaxStmts; i++ {
		body.Stmts = append(body.Stmts, g.stmt()...)
	}
	g.fn.inLoop--
	g.pop()
	g.maybeDirectBreak(body)
	return []Stmt{&SNumFor{Var: iv, Start: start, Limit: limit, Step: step, Body: body}}
}

func (g *Gen) genForStmt() []Stmt {
	g.stmts++
	var pre []Stmt
	switch g.R.Intn(5) {
	case 4:
		// the first expression of the list is an operator expression over calls:
		// its operands need temporaries of their own above the control slots
		mkit, pick, holder, mk := g.fresh("mkit"), g.fresh("pick"), g.fresh("holder"), g.fresh("mk")
		i, v := g.fresh("i"), g.fresh("x")
		s, cvar := g.fresh("s"), g.fresh("c")
		iter := Fn([]string{s, cvar}, false, Blk(
			&SIf{Conds: []Expr{Bin("<", N(cvar), N(s))}, Blocks: []*Block{Blk(Return(Bin("+", N(cvar), Num(1)), Bin("*", N(cvar), N(cvar))))}},
		))
		pre = []Stmt{
			&SLocalFunc{Name: mkit, F: &Func{Body: Blk(Return(iter))}},
			&SLocalFunc{Name: pick, F: &Func{Params: []string{"a"}, Body: Blk(CallSN("emit", Str("pick"), CallN("type", N("a"))), Return(N("a")))}},
			&SLocalFunc{Name: holder, F: &Func{Body: Blk(Return(&ETable{Items: []TItem{{Kind: TName, Name: "it", Val: Call(N(mkit))}}}))}},
			&SLocalFunc{Name: mk, F: &Func{Params: []string{"n"}, Body: Blk(Return(CallN("setmetatable",
				&ETable{Items: []TItem{{Kind: TName, Name: "n", Val: N("n")}}},
				&ETable{Items: []TItem{
					{Kind: TName, Name: "__sub", Val: Fn([]string{"p", "q"}, false, Blk(CallSN("emit", Str("sub"), Dot(N("p"), "n"), Dot(N("q"), "n")), Return(Call(N(mkit)))))},
					{Kind: TName, Name: "__concat", Val: Fn([]string{"p", "q"}, false, Blk(CallSN("emit", Str("concat"), CallN("type", N("p")), CallN("type", N("q"))), Return(Call(N(mkit)))))},
				}})))}},
		}
		var first Expr
		switch g.R.Intn(9) {
		case 0:
			first = Bin("or", Call(N(pick), &EFalse{}), Call(N(mkit)))
		case 1:
			first = Bin("and", Call(N(mkit)), Call(N(pick), Call(N(mkit))))
		case 2:
			first = &EParen{X: Call(N(mkit))}
		case 3:
			first = Dot(Call(N(holder)), "it")
		case 4:
			first = Idx(Call(N(holder)), Call(N(pick), Str("it")))
		case 5:
			first = Bin("-", Call(N(mk), Str("A")), Call(N(mk), Str("B")))
		case 6:
			first = Bin("..", Call(N(mk), Str("A")), Str("tail"))
		case 7:
			first = Bin("..", Call(N(pick), Str("head")), Call(N(mk), Str("B")))
		default:
			first = Call(Call(N(pick), N(mkit)))
		}
		rest := []Expr{Num(float64(1 + g.R.Intn(3))), Num(0)}
		if g.R.Intn(2) == 0 {
			rest = []Expr{Call(N(pick), Num(float64(1+g.R.Intn(3)))), Call(N(pick), Num(0))}
		}
		g.cover("genfor:operator-expression-first")
		return append(pre, &SGenFor{Names: []string{i, v}, Exprs: append([]Expr{first}, rest...), Body: Blk(CallSN("emit", N(i), N(v)))})
	case 0, 1: // ipairs over a list
		lv := g.pickVar(KList, false, false)
		if lv == nil {
			pre, lv = g.newVar(KList, g.listCons(ectx{depth: 1}))
		}
		i, v := g.fresh("i"), g.fresh("x")
		g.push(true)
		g.fn.inLoop++
		g.declare(&Var{Name: i, Kind: KInt, Const: true})
		g.declare(&Var{Name: v, Kind: KInt, Const: true})
		body := &Block{Stmts: []Stmt{CallSN("emit", N(i), N(v))}}
		lv.Frozen++
		for k, n := 0, g.R.Intn(3); k < n && g.stmts < g.F.MaxStmts; k++ {
			body.Stmts = append(body.Stmts, g.stmt()...)
		}
		lv.Frozen--
		g.fn.inLoop--
		g.pop()
		g.maybeDirectBreak(body)
		return append(pre, &SGenFor{Names: []string{i, v}, Exprs: []Expr{CallN("ipairs", lv.Ref())}, Body: body})
	case 2: // pairs with bag
		t := g.fresh("t")
		k, v := g.fresh("k"), g.fresh("x")
		tc := g.tableCons(ectx{depth: 1})
		body := Blk(CallSN("bag", N(k), N(v)))
		if g.R.Intn(6) == 0 {
			body = Blk(&SBreak{})
			g.cover("loopbody:pairs-only-break")
		}
		return []Stmt{Local1(t, tc), &SGenFor{Names: []string{k, v}, Exprs: []Expr{CallN("pairs", N(t))}, Body: body}, CallSN("bagflush")}
	default: // stateless Lua iterator: for i, sq in function(s, c) ... end, limit, 0
		i, v := g.fresh("i"), g.fresh("x")
		s, cvar := g.fresh("s"), g.fresh("c")
		iter := Fn([]string{s, cvar}, false, Blk(
			&SIf{Conds: []Expr{Bin("<", N(cvar), N(s))}, Blocks: []*Block{Blk(Return(Bin("+", N(cvar), Num(1)), Bin("*", N(cvar), N(cvar))))}},
		))
		g.push(true)
		g.fn.inLoop++
		g.declare(&Var{Name: i, Kind: KInt, Const: true})
		g.declare(&Var{Name: v, Kind: KInt, Const: true})
		body := &Block{Stmts: []Stmt{CallSN("emit", N(i), N(v))}}
		for k, n := 0, g.R.Intn(2); k < n && g.stmts < g.F.MaxStmts; k++ {
			body.Stmts = append(body.Stmts, g.stmt()...)
		}
		g.fn.inLoop--
		g.pop()
		g.maybeDirectBreak(body)
		return []Stmt{&SGenFor{Names: []string{i, v}, Exprs: []Expr{iter, Num(float64(g.R.Intn(5))), Num(0)}, Body: body}}
	}
}

func (g *Gen) gotoStmt() []Stmt {
	g.stmts++
	g.fn.labels++
	lbl := fmt.Sprintf("L%d_%d", g.fn.level, g.n+g.fn.labels*1000)
	g.n++
	switch g.R.Intn(5) {
	case 3, 4:
		// forward jump over local declarations to a label that ends its block
		// (a label at the end of a block is outside the scope of the block's
		// locals): in a do block, a loop body, an if block or a function body
		x := g.fresh("sk")
		mkBody := func(cond Expr) *Block {
			return Blk(
				&SIf{Conds: []Expr{cond}, Blocks: []*Block{Blk(&SGoto{Label: lbl})}},
				Local1(x, Num(float64(g.R.Intn(50)))),
				CallSN("emit", Str("not-skipped"), N(x)),
				&SLabel{Name: lbl})
		}
		constCond := func() Expr { return Bin("<", Num(float64(g.R.Intn(4))), Num(2)) }
		switch g.R.Intn(4) {
		case 0:
			g.cover("goto:skip-local-do")
			return []Stmt{&SDo{Body: mkBody(constCond())}}
		case 1:
			g.cover("goto:skip-local-loop")
			iv := g.fresh("i")
			return []Stmt{&SNumFor{Var: iv, Start: Num(1), Limit: Num(3), Body: mkBody(Bin("==", Bin("%", N(iv), Num(2)), Num(0)))}}
		case 2:
			g.cover("goto:skip-local-if")
			return []Stmt{&SIf{Sites: make([]Site, 1), Conds: []Expr{&ETrue{}}, Blocks: []*Block{mkBody(constCond())}}}
		default:
			g.cover("goto:skip-local-function-body")
			f := g.fresh("gf")
			fn := &Func{Params: []string{"a"}, Body: mkBody(N("a"))}
			if g.R.Intn(2) == 0 {
				return []Stmt{&SLocalFunc{Name: f, F: fn}, CallS(N(f), &ETrue{}), CallS(N(f), &EFalse{})}
			}
			return []Stmt{Local1(f, &EFunc{F: fn}), CallS(N(f), &EFalse{}), CallS(N(f), &ETrue{})}
		}
	case 0:
		// continue idiom inside a numeric for
		iv := g.fresh("i")
		g.push(true)
		g.fn.inLoop++
		g.declare(&Var{Name: iv, Kind: KInt, Const: true})
		body := &Block{}
		body.Stmts = append(body.Stmts, &SIf{Conds: []Expr{Bin("==", Bin("%", N(iv), Num(2)), Num(float64(g.R.Intn(2))))}, Blocks: []*Block{Blk(&SGoto{Label: lbl})}})
		// no local declarations between the goto and the label at this block level
		g.push(false)
		inner := &Block{}
		for k, n := 0, 1+g.R.Intn(2); k < n && g.stmts < g.F.MaxStmts; k++ {
			inner.Stmts = append(inner.Stmts, g.stmt()...)
		}
		g.pop()
		body.Stmts = append(body.Stmts, &SDo{Body: inner}, CallSN("emit", Str("body"), N(iv)), &SLabel{Name: lbl})
		g.fn.inLoop--
		g.pop()
		return []Stmt{&SNumFor{Var: iv, Start: Num(1), Limit: Num(float64(2 + g.R.Intn(4))), Body: body}}
	case 1:
		// backward loop
		cn := g.fresh("c")
		g.push(false)
		defer g.pop()
		g.declare(&Var{Name: cn, Kind: KInt, Const: true})
		out := []Stmt{Local1(cn, Num(0)), &SLabel{Name: lbl}, Assign1(N(cn), Bin("+", N(cn), Num(1))), CallSN("emit", Str("loop"), N(cn))}
		g.push(false)
		inner := &Block{}
		for k, n := 0, g.R.Intn(2); k < n && g.stmts < g.F.MaxStmts; k++ {
			inner.Stmts = append(inner.Stmts, g.stmt()...)
		}
		g.pop()
		out = append(out, &SDo{Body: inner})
		out = append(out, &SIf{Conds: []Expr{Bin("<", N(cn), Num(float64(1+g.R.Intn(4))))}, Blocks: []*Block{Blk(&SGoto{Label: lbl})}})
		// the whole construct sits in its own block so that the label is visible only here
		return []Stmt{&SDo{Body: &Block{Stmts: out}}}
	default:
		// exit from nested loops
		i, j := g.fresh("i"), g.fresh("j")
		inner := Blk(
			CallSN("emit", N(i), N(j)),
			&SIf{Conds: []Expr{Bin("==", Bin("+", N(i), N(j)), Num(float64(2+g.R.Intn(4))))}, Blocks: []*Block{Blk(&SGoto{Label: lbl})}},
		)
		outer := Blk(&SNumFor{Var: j, Start: Num(1), Limit: Num(3), Body: inner})
		return []Stmt{&SDo{Body: Blk(&SNumFor{Var: i, Start: Num(1), Limit: Num(3), Body: outer}, &SLabel{Name: lbl}, CallSN("emit", Str("out")))}}
	}
}

// funcDecl declares a pure helper function usable inside expressions.
func (g *Gen) funcDecl() []Stmt {
	g.stmts++
	np := g.R.Intn(4)
	va := g.F.Varargs && g.R.Intn(3) == 0
	ret := []Kind{KInt, KInt, KStr, KBool}[g.R.Intn(4)]
	name := g.fresh("fn")
	fl := g.funcLit(np, va, ret).(*EFunc)
	v := &Var{Name: name, Kind: KFun, NParams: np, Vararg: va, RetKind: ret, Pure: true}
	switch g.R.Intn(3) {
	case 0:
		g.declare(v)
		return []Stmt{&SLocalFunc{Name: name, F: fl.F}}
	case 1:
		g.declare(v)
		return []Stmt{Local1(name, fl)}
	default:
		v.Storage = 1
		v.Name = g.fresh("GF")
		g.declare(v)
		return []Stmt{&SFunc{Target: N(v.Name), F: fl.F}}
	}
}

// scopeOfLocalFunctionValue: `local g = function() return g end` refers to the
// global g inside (only `local function g` sees itself).
func (g *Gen) scopeOfLocalFunctionValue() []Stmt {
	g.stmts++
	name := g.fresh("GS")
	g.cover("scope:local-x-equals-function")
	inner := g.fresh("r")
	return []Stmt{
		Assign1(N(name), Str("global-"+name)),
		&SDo{Body: Blk(
			Local1(name, Fn(nil, false, Blk(Return(N(name))))),
			Local1(inner, Call(N(name))),
			CallSN("emit", Str("scope"), CallN("type", N(inner)), Bin("==", N(inner), N(name))),
			&SLocalFunc{Name: name, F: &Func{Params: []string{"n"}, Body: Blk(
				&SIf{Conds: []Expr{Bin("<=", N("n"), Num(0))}, Blocks: []*Block{Blk(Return(Num(0)))}},
				Return(Bin("+", Num(1), Call(N(name), Bin("-", N("n"), Num(1))))))}},
			CallSN("emit", Str("scope2"), Call(N(name), Num(3))),
		)},
	}
}

// bareIteratorFor: `for k in f do` with a single non-call expression: the state
// and control values are nil, whatever the registers held before.
func (g *Gen) bareIteratorFor() []Stmt {
	g.stmts++
	it := g.fresh("it")
	cnt := g.fresh("n")
	g.cover("genfor:bare-iterator")
	names := []string{g.fresh("k")}
	if g.R.Intn(2) == 0 {
		names = append(names, g.fresh("x"))
	}
	return []Stmt{&SDo{Body: Blk(
		Local1(cnt, Num(0)),
		&SLocalFunc{Name: it, F: &Func{Params: []string{"s", "c"}, Body: Blk(
			CallSN("emit", Str("itargs"), N("s"), N("c")),
			Assign1(N(cnt), Bin("+", N(cnt), Num(1))),
			// the loop ends only on nil: false as first value keeps it going
			&SIf{Conds: []Expr{Bin("==", N(cnt), Num(1))}, Blocks: []*Block{Blk(Return(&EFalse{}, Num(5)))}},
			&SIf{Conds: []Expr{Bin("<=", N(cnt), Num(3))}, Blocks: []*Block{Blk(Return(N(cnt), Bin("*", N(cnt), Num(10))))}},
		)}},
		&SDo{Body: Blk(&SLocal{Names: []string{g.fresh("j"), g.fresh("j"), g.fresh("j"), g.fresh("j")}, Exprs: []Expr{Num(11), Num(22), Num(33), Num(44)}})},
		&SGenFor{Names: names, Exprs: []Expr{N(it)}, Body: Blk(CallSN("emit", Str("bare"), N(names[0])))},
	)}}
}

// failingStmt produces a statement that raises a run-time error.
func (g *Gen) failingStmt() []Stmt {
	g.stmts++
	g.errN++
	c := ectx{depth: 2}
	switch g.R.Intn(8) {
	case 0:
		return []Stmt{Local1(g.fresh("z"), Bin("+", &ENil{}, g.expr(KInt, c)))}
	case 1:
		return []Stmt{Local1(g.fresh("z"), Bin("<", g.expr(KInt, c), g.expr(KStr, c)))}
	case 2:
		return []Stmt{CallSN(g.fresh("undefinedFn"))}
	case 3:
		return []Stmt{Local1(g.fresh("z"), Dot(&EParen{X: &ENil{}}, "field"))}
	case 4:
		return []Stmt{Local1(g.fresh("z"), Bin("..", g.expr(KStr, c), &ETable{}))}
	case 5:
		return []Stmt{CallSN("error", Str(fmt.Sprintf("E%d", g.errN)))}
	case 6:
		return []Stmt{CallSN("error", &ETable{Items: []TItem{{Kind: TName, Name: "code", Val: Num(float64(g.errN))}}})}
	default:
		return []Stmt{Assign1(Dot(N(g.fresh("undefinedT")), "x"), Num(1))}
	}
}

// Program generates a whole chunk for the core language (C01 flavour).
func (g *Gen) Program() *Chunk {
	b := &Block{}
	if g.F.BigConsts {
		// force > 256 constants so that later constants need LOADK + register
		t := &ETable{}
		for i := 0; i < 270; i++ {
			t.Items = append(t.Items, TItem{Kind: TPos, Val: Num(float64(1000 + i))})
		}
		b.Stmts = append(b.Stmts, Local1(g.fresh("big"), t))
	}
	for g.stmts < g.F.MaxStmts {
		b.Stmts = append(b.Stmts, g.stmt()...)
	}
	// final observation of some variables
	var args []Expr
	for _, v := range g.visible(func(v *Var) bool { return v.Kind <= KBool && v.FnLevel == 0 }) {
		if len(args) < 6 {
			args = append(args, v.Ref())
		}
	}
	if len(args) > 0 {
		b.Stmts = append(b.Stmts, CallSN("emit", args...))
	}
	if g.R.Intn(3) == 0 {
		b.Stmts = append(b.Stmts, Return(g.expr(KInt, ectx{depth: 2}), g.expr(KStr, ectx{depth: 2})))
	}
	c := &Chunk{Body: b}
	NormalizeZeros(c)
	return c
}
