package lgen

import (
	. "verif/internal/last"
)

var arithEvents = []string{"__add", "__sub", "__mul", "__div", "__mod", "__pow", "__concat"}
var arithOps = map[string]string{"__add": "+", "__sub": "-", "__mul": "*", "__div": "/", "__mod": "%", "__pow": "^", "__concat": ".."}

// handler builds `function(a, b) emit(tag, a, b) return <ret> end`; operands are
// emitted through id() so that numbers/strings/tables all render canonically.
func (g *Gen) handler(tag string, nparams int, ret Expr) Expr {
	if nparams >= 2 && g.R.Intn(6) == 0 {
		// a host (Go) function as handler: it records and returns its arguments
		g.cover("handler:host")
		return N("hosth")
	}
	params := []string{"a", "b", "c"}[:nparams]
	args := []Expr{Str(tag)}
	for _, p := range params {
		args = append(args, N(p))
	}
	g.NHandlers++
	body := Blk(CallSN("emit", args...))
	if ret != nil {
		body.Stmts = append(body.Stmts, Return(ret))
	}
	return &EFunc{F: &Func{Params: params, Body: body}}
}

func (g *Gen) handlerRet() Expr {
	switch g.R.Intn(6) {
	case 0:
		return &ENil{}
	case 1:
		return &EFalse{}
	case 2:
		return Str("r")
	case 3:
		return &ETrue{}
	}
	return Num(float64(g.R.Intn(100)))
}

// MetaProgram generates a program about metamethod selection (C04).
func (g *Gen) MetaProgram() *Chunk {
	b := &Block{}
	nobj := 2 + g.R.Intn(3)
	var objs []string
	var tabObjs []string
	var mts []string
	// shared handler functions (the "identical handler" rule of __eq/__lt/__le)
	shEq, shLt, shLe := g.fresh("heq"), g.fresh("hlt"), g.fresh("hle")
	b.Stmts = append(b.Stmts,
		Local1(shEq, g.handler("eq", 2, g.handlerRet())),
		Local1(shLt, g.handler("lt", 2, g.handlerRet())),
		Local1(shLe, g.handler("le", 2, g.handlerRet())))
	for i := 0; i < nobj; i++ {
		mt := g.fresh("mt")
		obj := g.fresh("o")
		tab := &ETable{}
		tag := func(ev string) string { return ev + "@" + obj }
		// subset of events
		for _, ev := range arithEvents {
			if g.R.Intn(3) == 0 {
				tab.Items = append(tab.Items, TItem{Kind: TName, Name: ev, Val: g.handler(tag(ev), 2, g.handlerRet())})
			}
		}
		if g.R.Intn(2) == 0 {
			tab.Items = append(tab.Items, TItem{Kind: TName, Name: "__unm", Val: g.handler(tag("__unm"), 1, g.handlerRet())})
		}
		switch g.R.Intn(4) {
		case 0:
			tab.Items = append(tab.Items, TItem{Kind: TName, Name: "__eq", Val: N(shEq)})
		case 1:
			tab.Items = append(tab.Items, TItem{Kind: TName, Name: "__eq", Val: g.handler(tag("__eq"), 2, g.handlerRet())})
		}
		switch g.R.Intn(4) {
		case 0:
			tab.Items = append(tab.Items, TItem{Kind: TName, Name: "__lt", Val: N(shLt)})
		case 1:
			tab.Items = append(tab.Items, TItem{Kind: TName, Name: "__lt", Val: g.handler(tag("__lt"), 2, g.handlerRet())})
		}
		switch g.R.Intn(4) {
		case 0:
			tab.Items = append(tab.Items, TItem{Kind: TName, Name: "__le", Val: N(shLe)})
		case 1:
			tab.Items = append(tab.Items, TItem{Kind: TName, Name: "__le", Val: g.handler(tag("__le"), 2, g.handlerRet())})
		}
		switch g.R.Intn(4) {
		case 0:
			tab.Items = append(tab.Items, TItem{Kind: TName, Name: "__index", Val: g.handler(tag("__index"), 2, g.handlerRet())})
		case 1:
			// table handler, possibly chained to an earlier object
			var h Expr = &ETable{Items: []TItem{{Kind: TName, Name: "k1", Val: Num(float64(i))}, {Kind: TName, Name: "k2", Val: Str("v")}}}
			if len(objs) > 0 && g.R.Intn(2) == 0 {
				h = N(objs[g.R.Intn(len(objs))])
			}
			tab.Items = append(tab.Items, TItem{Kind: TName, Name: "__index", Val: h})
		}
		switch g.R.Intn(4) {
		case 0:
			tab.Items = append(tab.Items, TItem{Kind: TName, Name: "__newindex", Val: g.handler(tag("__newindex"), 3, nil)})
		case 1:
			var h Expr = &ETable{}
			if len(objs) > 0 && g.R.Intn(2) == 0 {
				h = N(objs[g.R.Intn(len(objs))])
			}
			tab.Items = append(tab.Items, TItem{Kind: TName, Name: "__newindex", Val: h})
		}
		if g.R.Intn(8) == 0 {
			tab.Items = append(tab.Items, TItem{Kind: TName, Name: "__call", Val: N([]string{"hosth", "rawget", "rawequal"}[g.R.Intn(3)])})
			g.cover("handler:host-call")
		} else if g.R.Intn(3) == 0 {
			tab.Items = append(tab.Items, TItem{Kind: TName, Name: "__call", Val: &EFunc{F: &Func{Params: []string{"self"}, Vararg: true, Body: Blk(
				CallSN("emit", Str(tag("__call")), N("self"), CallN("select", Str("#"), &EVararg{}), &EVararg{}),
				Return(g.handlerRet(), &EVararg{}))}}})
		}
		if g.R.Intn(3) == 0 {
			tab.Items = append(tab.Items, TItem{Kind: TName, Name: "__tostring", Val: g.handler(tag("__tostring"), 1, Str("S"+obj))})
		}
		if g.R.Intn(5) == 0 {
			tab.Items = append(tab.Items, TItem{Kind: TName, Name: "__metatable", Val: Str("locked")})
		}
		// shared metatable with an earlier object, sometimes
		if len(mts) > 0 && g.R.Intn(4) == 0 {
			mt = mts[g.R.Intn(len(mts))]
		} else {
			b.Stmts = append(b.Stmts, Local1(mt, tab))
			if g.R.Intn(4) == 0 {
				// the metatable has a metatable of its own: handlers are looked up raw,
				// so nothing "inherited" through it may ever be consulted
				var parent Expr
				if g.R.Intn(2) == 0 {
					parent = &ETable{Items: []TItem{{Kind: TName, Name: "__index", Val: &ETable{Items: []TItem{
						{Kind: TName, Name: "__metatable", Val: Str("inherited-lock")},
						{Kind: TName, Name: "__add", Val: g.handler("inherited-add", 2, Num(1))},
						{Kind: TName, Name: "__index", Val: g.handler("inherited-index", 2, Num(2))},
						{Kind: TName, Name: "__newindex", Val: g.handler("inherited-newindex", 3, nil)},
						{Kind: TName, Name: "__eq", Val: N(shEq)}, {Kind: TName, Name: "__lt", Val: N(shLt)}, {Kind: TName, Name: "__le", Val: N(shLe)},
						{Kind: TName, Name: "__call", Val: g.handler("inherited-call", 2, Num(3))},
						{Kind: TName, Name: "__concat", Val: g.handler("inherited-concat", 2, Str("c"))},
						{Kind: TName, Name: "__unm", Val: g.handler("inherited-unm", 1, Num(4))},
						{Kind: TName, Name: "__tostring", Val: g.handler("inherited-tostring", 1, Str("T"))}}}}}}
				} else {
					parent = &ETable{Items: []TItem{{Kind: TName, Name: "__index", Val: Fn([]string{"t", "k"}, false, Blk(CallSN("emit", Str("metatable-of-metatable-consulted"), N("k"))))}}}
				}
				b.Stmts = append(b.Stmts, &SCall{Call: CallN("setmetatable", N(mt), parent)})
				g.cover("mt:has-own-metatable")
			}
		}
		var mk Expr
		if g.R.Intn(4) == 0 {
			mk = CallN("newud", N(mt))
			g.cover("obj:userdata")
		} else {
			tabObjs = append(tabObjs, obj)
			mk = CallN("setmetatable", &ETable{Items: []TItem{{Kind: TName, Name: "k1", Val: Num(float64(10 + i))},
				{Kind: TName, Name: "kf", Val: &EFalse{}}, {Kind: TName, Name: "k0", Val: Num(0)}, {Kind: TName, Name: "ke", Val: Str("")},
				{Kind: TPos, Val: &EFalse{}}, {Kind: TKey, Key: &ETrue{}, Val: &EFalse{}}}}, N(mt))
			g.cover("obj:table")
		}
		b.Stmts = append(b.Stmts, Local1(obj, mk), CallSN("emit", Str("obj"), N(obj)))
		objs = append(objs, obj)
		mts = append(mts, mt)
	}
	// plain operands
	plain := func() Expr {
		switch g.R.Intn(7) {
		case 0:
			return Num(float64(1 + g.R.Intn(9)))
		case 1:
			return Str("7")
		case 2:
			return Str("zz")
		case 3:
			return &ENil{}
		case 4:
			return &ETrue{}
		case 5:
			return &ETable{}
		}
		return N(objs[g.R.Intn(len(objs))])
	}
	operand := func() Expr {
		if g.R.Intn(3) != 0 {
			return N(objs[g.R.Intn(len(objs))])
		}
		return plain()
	}
	kl := g.fresh("kl")
	b.Stmts = append(b.Stmts, Local1(kl, Num(float64(2+g.R.Intn(5)))))
	viaLocal := func(e Expr) Expr {
		// constant vs register operand form
		if n, ok := e.(*ENum); ok && g.R.Intn(2) == 0 {
			_ = n
			return N(kl)
		}
		return e
	}
	ks, kf := g.fresh("ks"), g.fresh("kf")
	b.Stmts = append(b.Stmts, Local1(ks, Str([]string{"k1", "kf", "newkey2"}[g.R.Intn(3)])), Local1(kf, &EFalse{}))
	nops := 8 + g.R.Intn(25)
	for i := 0; i < nops; i++ {
		var e Expr
		k := g.R.Intn(21)
		if k == 15 && g.R.Intn(2) == 0 {
			k = 8
		}
		g.cover("metaop:%d", k)
		switch k {
		case 0, 1, 2:
			ev := arithEvents[g.R.Intn(len(arithEvents))]
			e = Bin(arithOps[ev], viaLocal(operand()), viaLocal(operand()))
		case 3:
			e = Bin([]string{"==", "~="}[g.R.Intn(2)], operand(), operand())
		case 4, 5:
			e = Bin([]string{"<", "<=", ">", ">="}[g.R.Intn(4)], operand(), operand())
		case 6:
			e = Un("-", operand())
		case 7:
			e = Idx(operand(), Str([]string{"k1", "k2", "missing"}[g.R.Intn(3)]))
		case 8:
			// assignment to present / absent keys: the key as a constant, in a
			// local, a number or a boolean; present values that are false, 0 or "";
			// through the statement or through rawset
			o := N(objs[g.R.Intn(len(objs))])
			var key Expr
			switch g.R.Intn(8) {
			case 0, 1:
				key = Str([]string{"k1", "newkey", "k2", "kf", "k0", "ke"}[g.R.Intn(6)])
			case 2:
				key = Str("kf")
			case 3:
				key = N(ks)
			case 4:
				key = Num(float64(1 + g.R.Intn(2)))
			case 5:
				key = &ETrue{}
			case 6:
				key = N(kf)
			default:
				key = o
			}
			var val Expr
			switch g.R.Intn(5) {
			case 0:
				val = &EFalse{}
			case 1:
				val = &ENil{}
			case 2:
				val = Str("s")
			default:
				val = Num(float64(i))
			}
			set := Assign1(Idx(o, key), val)
			how := "set"
			if g.R.Intn(5) == 0 {
				how = "rawset"
				b.Stmts = append(b.Stmts, CallSN("emit", Str(how), &EParen{X: CallN("pcall", N("rawset"), o, key, val)}))
			} else {
				b.Stmts = append(b.Stmts, CallSN("emit", Str(how), &EParen{X: CallN("pcall", Fn(nil, false, Blk(set)))}))
			}
			g.cover("assign:%s", how)
			b.Stmts = append(b.Stmts, CallSN("emit", Str("rawget"), CallN("pcall", N("rawget"), o, key)))
			continue
		case 16:
			// indexing with every key form, and the method-call form (OP_SELF)
			o := operand()
			switch g.R.Intn(5) {
			case 0:
				e = Idx(o, N(ks))
			case 1:
				e = Idx(o, Num(float64(1+g.R.Intn(2))))
			case 2:
				e = Idx(o, N(kf))
			case 3:
				e = &EMethod{Obj: o, Name: []string{"k1", "missing", "kf"}[g.R.Intn(3)], Args: []Expr{Num(1)}}
			default:
				e = Idx(o, o)
			}
		case 19, 20:
			// a handler is removed, the operation is tried (and misses), the handler
			// (the old one or a new one) is installed again, the operation is retried
			mtn := mts[g.R.Intn(len(mts))]
			var owner string
			for oi, m := range mts {
				if m == mtn {
					owner = objs[oi]
				}
			}
			evs := []string{"__index", "__newindex", "__add", "__concat", "__eq", "__lt", "__le", "__call", "__unm", "__tostring"}
			ev := evs[g.R.Intn(len(evs))]
			use := func() Expr {
				o := N(owner)
				switch ev {
				case "__index":
					return Dot(o, "missing")
				case "__add":
					return Bin("+", o, Num(1))
				case "__concat":
					return Bin("..", o, Str("s"))
				case "__eq":
					return Bin("==", o, N(objs[g.R.Intn(len(objs))]))
				case "__lt":
					return Bin("<", o, o)
				case "__le":
					return Bin("<=", o, o)
				case "__call":
					return Call(o, Num(1))
				case "__unm":
					return Un("-", o)
				case "__tostring":
					return Bin("==", CallN("tostring", o), CallN("tostring", o))
				}
				return nil
			}
			try := func(tag string) {
				if ev == "__newindex" {
					b.Stmts = append(b.Stmts, CallSN("emit", Str(tag), &EParen{X: CallN("pcall", Fn(nil, false, Blk(Assign1(Dot(N(owner), g.fresh("nk")), Num(1)))))}))
					return
				}
				okv, rv := g.fresh("ok"), g.fresh("r")
				b.Stmts = append(b.Stmts, &SLocal{Names: []string{okv, rv}, Exprs: []Expr{CallN("pcall", Fn(nil, false, Blk(Return(use()))))}},
					CallSN("emit", Str(tag), N(okv), &EParen{X: Bin("or", Bin("and", N(okv), N(rv)), CallN("type", N(rv)))}))
			}
			saved := g.fresh("saved")
			b.Stmts = append(b.Stmts, Local1(saved, CallN("rawget", N(mtn), Str(ev))))
			try("before")
			b.Stmts = append(b.Stmts, &SCall{Call: CallN("rawset", N(mtn), Str(ev), &ENil{})})
			try("removed")
			var again Expr = N(saved)
			if g.R.Intn(2) == 0 {
				np := 2
				if ev == "__newindex" {
					np = 3
				}
				if ev == "__unm" || ev == "__tostring" {
					np = 1
				}
				var ret Expr = g.handlerRet()
				if ev == "__tostring" {
					ret = Str("again")
				}
				if ev == "__newindex" {
					ret = nil
				}
				again = g.handler("reinstalled:"+ev, np, ret)
			}
			if g.R.Intn(2) == 0 {
				b.Stmts = append(b.Stmts, Assign1(Dot(N(mtn), ev), again))
			} else {
				b.Stmts = append(b.Stmts, &SCall{Call: CallN("rawset", N(mtn), Str(ev), again)})
			}
			try("reinstalled")
			g.cover("reinstall:%s", ev)
			continue
		case 17:
			// __call as the iterator of a generic for
			mtI, it := g.fresh("mti"), g.fresh("it")
			lim := 1 + g.R.Intn(3)
			var mkIt Expr = CallN("setmetatable", &ETable{}, N(mtI))
			if g.R.Intn(3) == 0 {
				mkIt = CallN("newud", N(mtI))
			}
			va, vb := g.fresh("a"), g.fresh("b")
			b.Stmts = append(b.Stmts,
				Local1(mtI, &ETable{Items: []TItem{{Kind: TName, Name: "__call", Val: Fn([]string{"self", "s", "c"}, false, Blk(
					CallSN("emit", Str("iter"), N("self"), N("s"), N("c")),
					&SIf{Sites: make([]Site, 1), Conds: []Expr{Bin("<", N("c"), Num(float64(lim)))}, Blocks: []*Block{Blk(Return(Bin("+", N("c"), Num(1)), Str("x")))}}))}}}),
				Local1(it, mkIt),
				&SGenFor{Names: []string{va, vb}, Exprs: []Expr{N(it), Str("st"), Num(0)}, Body: Blk(CallSN("emit", Str("body"), N(va), N(vb)))})
			g.cover("forin:__call")
			continue
		case 9:
			o := operand()
			e = Call(o, g.simpleVal(), g.simpleVal())
		case 10:
			if g.R.Intn(3) == 0 {
				// strings carry a metatable too (getmetatable("")): tostring honours its __tostring while it is set
				smt := g.fresh("smt")
				b.Stmts = append(b.Stmts,
					Local1(smt, CallN("getmetatable", Str(""))),
					Assign1(Idx(N(smt), Str("__tostring")), g.handler("__tostring@string", 1, Str("Sstring"))),
					CallSN("emit", Str("ts-string"), &EParen{X: CallN("pcall", N("tostring"), Str("abc"))}, CallN("pcall", N("tostring"), N(ks))),
					CallSN("emit", Str("ts-string2"), CallN("tostring", Str("12")), CallN("tostring", Num(12))),
					Assign1(Idx(N(smt), Str("__tostring")), &ENil{}),
					CallSN("emit", Str("ts-string-off"), CallN("tostring", Str("abc"))))
				g.cover("metaop:tostring-string-metatable")
				continue
			}
			e = CallN("tostring", operand())
		case 11:
			e = CallN("getmetatable", operand())
		case 12:
			e = CallN("rawequal", operand(), operand())
		case 13:
			// concatenation chains with objects at each position
			e = Bin("..", viaLocal(operand()), Bin("..", viaLocal(plain()), viaLocal(operand())))
		case 14:
			// __call in tail position and as a for-in iterator is exercised through pcall'd functions
			o := N(objs[g.R.Intn(len(objs))])
			if g.R.Intn(3) == 0 {
				// the object itself as the function of pcall / xpcall (callable or not)
				if g.R.Intn(2) == 0 {
					e = CallN("xpcall", operand(), Fn([]string{"m"}, false, Blk(CallSN("emit", Str("xh"), CallN("type", N("m"))), Return(CallN("type", N("m"))))))
					g.cover("metaop:xpcall-object")
				} else {
					e = CallN("pcall", operand(), Num(7))
					g.cover("metaop:pcall-object")
				}
				b.Stmts = append(b.Stmts, CallSN("emit", Str("pc"), CallN("select", Str("#"), e), &EParen{X: e}))
				continue
			}
			e = Call(Fn(nil, false, Blk(Return(Call(o, Num(1), Num(2))))))
		default:
			// setmetatable's first argument is a table in 5.1 (other types are outside the statement)
			var target Expr = &ETable{}
			if len(tabObjs) > 0 {
				target = N(tabObjs[g.R.Intn(len(tabObjs))])
			}
			e = CallN("setmetatable", target, &ETable{})
		}
		// every operation runs protected so that an expected error does not end the program
		res := g.fresh("r")
		ok := g.fresh("ok")
		b.Stmts = append(b.Stmts,
			&SLocal{Names: []string{ok, res}, Exprs: []Expr{CallN("pcall", Fn(nil, false, Blk(Return(e))))}},
			CallSN("emit", Str("res"), N(ok), &EParen{X: Bin("or", Bin("and", N(ok), N(res)), CallN("type", N(res)))}))
	}
	// __index / __newindex chain to the loop limit
	if g.R.Intn(4) == 0 {
		depth := []int{3, 5, 99, 100, 101, 150}[g.R.Intn(6)]
		ch := g.fresh("chain")
		iv := g.fresh("i")
		b.Stmts = append(b.Stmts,
			Local1(ch, &ETable{Items: []TItem{{Kind: TName, Name: "deep", Val: Num(42)}}}),
			&SNumFor{Var: iv, Start: Num(1), Limit: Num(float64(depth)), Body: Blk(
				Assign1(N(ch), CallN("setmetatable", &ETable{}, &ETable{Items: []TItem{{Kind: TName, Name: "__index", Val: N(ch)}}})))},
			CallSN("emit", Str("chain"), Num(float64(depth)), &EParen{X: CallN("pcall", Fn(nil, false, Blk(Return(Dot(N(ch), "deep")))))}))
		g.cover("chain:%d", depth)
	}
	// __newindex chain through tables to the loop limit
	if g.R.Intn(4) == 0 {
		depth := []int{2, 5, 98, 99, 100, 101, 150}[g.R.Intn(7)]
		ch, bottom := g.fresh("nchain"), g.fresh("bottom")
		iv := g.fresh("i")
		b.Stmts = append(b.Stmts,
			Local1(bottom, &ETable{Items: []TItem{{Kind: TName, Name: "present", Val: &EFalse{}}}}),
			Local1(ch, N(bottom)),
			&SNumFor{Var: iv, Start: Num(1), Limit: Num(float64(depth)), Body: Blk(
				Assign1(N(ch), CallN("setmetatable", &ETable{}, &ETable{Items: []TItem{{Kind: TName, Name: "__newindex", Val: N(ch)}}})))},
			CallSN("emit", Str("nchain"), Num(float64(depth)), &EParen{X: CallN("pcall", Fn(nil, false, Blk(Assign1(Dot(N(ch), "deepkey"), Num(7)))))},
				CallN("rawget", N(bottom), Str("deepkey")), CallN("rawget", N(ch), Str("deepkey"))),
			CallSN("emit", Str("nchain2"), &EParen{X: CallN("pcall", Fn(nil, false, Blk(Assign1(Dot(N(ch), "present"), Num(8)))))},
				CallN("rawget", N(bottom), Str("present"))))
		g.cover("nchain:%d", depth)
	}
	// global reads and assignments are indexing operations on the function's
	// environment: its handlers apply, whatever the globals table itself carries
	if g.R.Intn(4) == 0 {
		env, store, fn := g.fresh("env"), g.fresh("store"), g.fresh("envfn")
		var ni Expr
		if g.R.Intn(2) == 0 {
			ni = Fn([]string{"t", "k", "v"}, false, Blk(CallSN("emit", Str("env-newindex"), N("k"), N("v")), &SCall{Call: CallN("rawset", N("t"), N("k"), N("v"))}))
		} else {
			ni = N(store) // a table: the store is redirected
		}
		var idx Expr
		if g.R.Intn(2) == 0 {
			idx = Fn([]string{"t", "k"}, false, Blk(CallSN("emit", Str("env-index"), N("k")), Return(CallN("rawget", N(store), N("k")))))
		} else {
			idx = N(store)
		}
		b.Stmts = append(b.Stmts,
			Local1(store, &ETable{Items: []TItem{{Kind: TName, Name: "emit", Val: N("emit")}, {Kind: TName, Name: "gpreset", Val: Num(5)}}}),
			Local1(env, CallN("setmetatable", &ETable{}, &ETable{Items: []TItem{{Kind: TName, Name: "__newindex", Val: ni}, {Kind: TName, Name: "__index", Val: idx}}})),
			Local1(fn, CallN("setfenv", Fn(nil, false, Blk(
				Assign1(N("genv1"), Num(1)),
				Assign1(N("genv1"), Num(2)), // present now (if the handler stored it raw): no handler
				&SAssign{LHS: []Expr{N("genv2"), N("genv3")}, RHS: []Expr{N("gpreset"), Str("three")}},
				&SFunc{Target: N("genvf"), F: &Func{Body: Blk(Return(N("genv1")))}},
				Return(N("genv1"), N("genv2"), N("gpreset")))), N(env))),
			CallSN("emit", Str("env-results"), &EParen{X: CallN("pcall", N(fn))}, CallN("select", Num(2), CallN("pcall", N(fn)))),
			CallSN("emit", Str("env-raw"), CallN("rawget", N(env), Str("genv1")), CallN("rawget", N(env), Str("genv3")), CallN("type", CallN("rawget", N(env), Str("genvf"))),
				CallN("rawget", N(store), Str("genv1")), CallN("rawget", N(store), Str("genv3")), CallN("type", CallN("rawget", N(store), Str("genvf"))),
				CallN("rawget", N("_G"), Str("genv1")), CallN("rawget", N("_G"), Str("genv3"))))
		g.cover("env:handlers-on-a-function-environment")
	}
	return &Chunk{Body: b}
}
