package lgen

import (
	"math"

	. "verif/internal/last"
)

// NormalizeZeros replaces every all-literal arithmetic subexpression whose
// value is negative zero by the literal 0. A compiler may fold such a
// subexpression into a constant, and in Lua 5.1 the sign of a zero constant is
// not well defined (constants are keyed by value, so -0 and 0 share a slot
// depending on what else the function contains); run-time negative zeros are
// unaffected.
func NormalizeZeros(c *Chunk) {
	var fixB func(b *Block)
	var fixE func(e Expr) (Expr, float64, bool)
	fixList := func(es []Expr) {
		for i := range es {
			es[i], _, _ = fixE(es[i])
		}
	}
	zero := func(e Expr, v float64, ok bool) (Expr, float64, bool) {
		if ok && v == 0 {
			if n, isNum := e.(*ENum); isNum && !math.Signbit(n.V) {
				return e, 0, true
			}
			// a zero computed from literals: a folding compiler may give it either
			// sign (fmod-based vs floor-based modulo, -0 literal): write it as 0
			return Num(0), 0, true
		}
		return e, v, ok
	}
	fixE = func(e Expr) (Expr, float64, bool) {
		switch x := e.(type) {
		case *ENum:
			return zero(e, x.V, true)
		case *EParen:
			var v float64
			var ok bool
			x.X, v, ok = fixE(x.X)
			return zero(e, v, ok)
		case *EUn:
			var v float64
			var ok bool
			x.X, v, ok = fixE(x.X)
			if ok && x.Op == "-" {
				return zero(e, -v, true)
			}
			return e, 0, false
		case *EBin:
			var a, b float64
			var oka, okb bool
			x.L, a, oka = fixE(x.L)
			x.R, b, okb = fixE(x.R)
			if oka && okb {
				var r float64
				switch x.Op {
				case "+":
					r = a + b
				case "-":
					r = a - b
				case "*":
					r = a * b
				case "/":
					r = a / b
				case "%":
					r = a - math.Floor(a/b)*b
				case "^":
					r = math.Pow(a, b)
				default:
					return e, 0, false
				}
				return zero(e, r, true)
			}
			return e, 0, false
		case *EIndex:
			x.Obj, _, _ = fixE(x.Obj)
			x.Key, _, _ = fixE(x.Key)
		case *ECall:
			x.Fn, _, _ = fixE(x.Fn)
			fixList(x.Args)
		case *EMethod:
			x.Obj, _, _ = fixE(x.Obj)
			fixList(x.Args)
		case *EFunc:
			fixB(x.F.Body)
		case *ETable:
			for i := range x.Items {
				if x.Items[i].Key != nil {
					x.Items[i].Key, _, _ = fixE(x.Items[i].Key)
				}
				x.Items[i].Val, _, _ = fixE(x.Items[i].Val)
			}
		}
		return e, 0, false
	}
	fixB = func(b *Block) {
		for _, s := range b.Stmts {
			switch x := s.(type) {
			case *SLocal:
				fixList(x.Exprs)
			case *SAssign:
				fixList(x.LHS)
				fixList(x.RHS)
			case *SCall:
				x.Call, _, _ = fixE(x.Call)
			case *SDo:
				fixB(x.Body)
			case *SWhile:
				x.Cond, _, _ = fixE(x.Cond)
				fixB(x.Body)
			case *SRepeat:
				fixB(x.Body)
				x.Cond, _, _ = fixE(x.Cond)
			case *SIf:
				fixList(x.Conds)
				for _, bb := range x.Blocks {
					fixB(bb)
				}
				if x.Else != nil {
					fixB(x.Else)
				}
			case *SNumFor:
				x.Start, _, _ = fixE(x.Start)
				x.Limit, _, _ = fixE(x.Limit)
				if x.Step != nil {
					x.Step, _, _ = fixE(x.Step)
				}
				fixB(x.Body)
			case *SGenFor:
				fixList(x.Exprs)
				fixB(x.Body)
			case *SFunc:
				fixB(x.F.Body)
			case *SLocalFunc:
				fixB(x.F.Body)
			case *SReturn:
				fixList(x.Exprs)
			}
		}
	}
	fixB(c.Body)
}
