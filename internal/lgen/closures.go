package lgen

import (
	. "verif/internal/last"
)

// reuseRegs returns statements that overwrite dead registers: a call with many
// arguments, a table constructor, many locals in a block, and the host scrub().
func (g *Gen) reuseRegs() []Stmt {
	var out []Stmt
	switch g.R.Intn(4) {
	case 0:
		out = append(out, CallSN("scrub", Num(float64(8+g.R.Intn(40)))))
	case 1:
		names := []string{}
		var vals []Expr
		for i, n := 0, 3+g.R.Intn(12); i < n; i++ {
			names = append(names, g.fresh("junk"))
			vals = append(vals, Num(float64(-1000-i)))
		}
		out = append(out, &SDo{Body: Blk(&SLocal{Names: names, Exprs: vals})})
	case 2:
		t := &ETable{}
		for i, n := 0, 3+g.R.Intn(10); i < n; i++ {
			t.Items = append(t.Items, TItem{Kind: TPos, Val: Num(float64(-2000 - i))})
		}
		out = append(out, &SDo{Body: Blk(Local1(g.fresh("junk"), t))})
	default:
		args := []Expr{}
		for i, n := 0, 3+g.R.Intn(10); i < n; i++ {
			args = append(args, Num(float64(-3000-i)))
		}
		out = append(out, &SCall{Call: CallN("select", append([]Expr{Str("#")}, args...)...)})
	}
	out = append(out, CallSN("scrub", Num(float64(4+g.R.Intn(20)))))
	return out
}

// ClosureProgram generates a program about captured variables on every exit path (C03).
func (g *Gen) ClosureProgram() *Chunk {
	b := &Block{}
	fs := g.fresh("fs")
	b.Stmts = append(b.Stmts, Local1(fs, &ETable{}))
	push := func(f Expr) Stmt {
		return Assign1(Idx(N(fs), Bin("+", Un("#", N(fs)), Num(1))), f)
	}
	// a variable of the main chunk shared with closures and changed later by main code
	shared := g.fresh("sh")
	b.Stmts = append(b.Stmts, Local1(shared, Num(float64(g.R.Intn(50)))),
		push(Fn(nil, false, Blk(Return(N(shared))))),
		push(Fn([]string{"d"}, false, Blk(Assign1(N(shared), Bin("+", N(shared), Bin("or", N("d"), Num(1)))), Return(N(shared))))))

	nscen := 2 + g.R.Intn(5)
	for s := 0; s < nscen; s++ {
		kind := g.R.Intn(21)
		g.cover("exit:%d", kind)
		v := g.fresh("x")
		getter := func(name string) Expr { return Fn(nil, false, Blk(Return(N(name)))) }
		bump := func(name string) Expr {
			return Fn(nil, false, Blk(Assign1(N(name), Bin("+", N(name), Num(1))), Return(N(name))))
		}
		switch kind {
		case 0: // loop body local + loop variable, fall through / break
			iv := g.fresh("i")
			body := Blk(Local1(v, Bin("*", N(iv), Num(10))), push(bump(v)), push(getter(v)), push(getter(iv)))
			if g.R.Intn(2) == 0 {
				body.Stmts = append(body.Stmts, &SIf{Conds: []Expr{Bin("==", N(iv), Num(float64(2+g.R.Intn(2))))}, Blocks: []*Block{Blk(&SBreak{})}})
				g.cover("exit:break")
			}
			b.Stmts = append(b.Stmts, &SNumFor{Var: iv, Start: Num(1), Limit: Num(float64(2 + g.R.Intn(3))), Body: body})
		case 14: // a loop-body local captured by a closure built inside a nested block of the body, observed in later iterations
			iv := g.fresh("i")
			var nested Stmt
			if g.R.Intn(2) == 0 {
				nested = &SIf{Conds: []Expr{&ETrue{}}, Blocks: []*Block{Blk(push(getter(v)), push(bump(v)))}}
			} else {
				nested = &SDo{Body: Blk(Local1(g.fresh("y"), Num(1)), push(getter(v)))}
			}
			b.Stmts = append(b.Stmts, &SNumFor{Var: iv, Start: Num(1), Limit: Num(3), Body: Blk(
				Local1(v, Bin("*", N(iv), Num(10))),
				nested,
				CallSN("emit", Str("later-iteration"), N(iv), Call(Idx(N(fs), Num(3)))),
			)})
			g.cover("exit:capture-in-nested-block-of-loop-body")
		case 12: // captures in descending declaration order inside a fresh coroutine (no lower open upvalue on that thread)
			a, bb := g.fresh("a"), g.fresh("b")
			body := Blk(
				&SLocal{Names: []string{a, bb}, Exprs: []Expr{Num(float64(g.R.Intn(9))), Num(float64(10 + g.R.Intn(9)))}},
				push(getter(bb)), // the later-declared local first
				push(bump(a)),
				push(bump(bb)),
				push(getter(a)),
			)
			if g.R.Intn(2) == 0 {
				body.Stmts = append(body.Stmts, &SCall{Call: Call(Dot(N("coroutine"), "yield"), Num(1))})
			}
			b.Stmts = append(b.Stmts, &SCall{Call: Call(Call(Dot(N("coroutine"), "wrap"), Fn(nil, false, body)))})
			g.cover("exit:descending-capture-in-coroutine")
		case 13: // the same function expression evaluated twice: two closures, two environments
			env := g.fresh("env")
			gname := g.fresh("GV")
			fl := g.fresh("fl")
			iv := g.fresh("i")
			b.Stmts = append(b.Stmts,
				Assign1(N(gname), Str("global")),
				Local1(env, &ETable{Items: []TItem{{Kind: TName, Name: gname, Val: Str("sandbox")}}}),
				Local1(fl, &ETable{}),
				&SNumFor{Var: iv, Start: Num(1), Limit: Num(3), Body: Blk(Assign1(Idx(N(fl), N(iv)), Fn(nil, false, Blk(Return(N(gname))))))},
				&SCall{Call: CallN("setfenv", Idx(N(fl), Num(2)), N(env))},
				CallSN("emit", Str("twice"), Call(Idx(N(fl), Num(1))), Call(Idx(N(fl), Num(2))), Call(Idx(N(fl), Num(3))),
					Bin("==", Idx(N(fl), Num(1)), Idx(N(fl), Num(2))), Bin("==", CallN("getfenv", Idx(N(fl), Num(3))), CallN("getfenv", Num(1)))))
			g.cover("exit:fenv-per-closure")
		case 11: // break (and goto) out of a nested block that itself declares the captured local
			c := g.fresh("c")
			inner := Blk(Local1(v, Bin("+", N(c), Num(300))), push(bump(v)), push(getter(v)))
			if g.R.Intn(2) == 0 {
				inner.Stmts = append(inner.Stmts, &SDo{Body: Blk(Local1(g.fresh("y"), Num(2)), push(getter(v)), &SBreak{})})
			} else {
				inner.Stmts = append(inner.Stmts, &SBreak{})
			}
			b.Stmts = append(b.Stmts, Local1(c, Num(0)), &SWhile{Cond: &ETrue{}, Body: Blk(
				Assign1(N(c), Bin("+", N(c), Num(1))),
				&SDo{Body: inner},
			)})
			g.cover("exit:break-from-nested-block")
		case 1: // while with captured local, break from nested block
			c := g.fresh("c")
			b.Stmts = append(b.Stmts, Local1(c, Num(0)), &SWhile{Cond: Bin("<", N(c), Num(3)), Body: Blk(
				Assign1(N(c), Bin("+", N(c), Num(1))),
				Local1(v, Bin("+", N(c), Num(100))),
				push(bump(v)),
				&SDo{Body: Blk(Local1(g.fresh("y"), Num(1)), &SIf{Conds: []Expr{Bin("==", N(c), Num(2))}, Blocks: []*Block{Blk(&SBreak{})}})},
			)})
		case 2: // repeat whose until reads a captured body local
			c := g.fresh("c")
			b.Stmts = append(b.Stmts, Local1(c, Num(0)), &SRepeat{Body: Blk(
				Assign1(N(c), Bin("+", N(c), Num(1))),
				Local1(v, Bin("*", N(c), Num(7))),
				push(bump(v)), push(getter(v)),
			), Cond: func() Expr {
				// the loop is left through every kind of jump the condition compiles to
				done := Bin(">=", N(v), Num(14))
				switch g.R.Intn(5) {
				case 0:
					return Bin("or", done, Bin(">", N(c), Num(5)))
				case 1:
					return Bin("or", Bin(">", N(c), Num(5)), done)
				case 2:
					return Un("not", &EParen{X: Bin("and", Bin("<", N(v), Num(14)), Bin("<", N(c), Num(6)))})
				case 3:
					return Bin("and", done, Bin(">=", N(c), Num(2)))
				}
				return done
			}()})
		case 15: // a break that is compiled before the closure which captures the local, and executed after it (through a backward goto)
			first, again := g.fresh("first"), g.fresh("Lagain")
			b.Stmts = append(b.Stmts, &SWhile{Cond: &ETrue{}, Body: Blk(
				&SLocal{Names: []string{v, first}, Exprs: []Expr{Num(float64(1 + g.R.Intn(9))), &ETrue{}}},
				&SLabel{Name: again},
				&SIf{Conds: []Expr{Un("not", N(first))}, Blocks: []*Block{Blk(&SBreak{})}},
				push(getter(v)), push(bump(v)),
				Assign1(N(first), &EFalse{}),
				&SGoto{Label: again},
			)})
			g.cover("exit:break-compiled-before-capture")
		case 16: // a backward goto to a label above the captured local, compiled before the closure appears
			top, mid, n := g.fresh("Ltop"), g.fresh("Lmid"), g.fresh("n")
			b.Stmts = append(b.Stmts, Local1(n, Num(0)), &SDo{Body: Blk(
				&SLabel{Name: top},
				Local1(v, Bin("*", N(n), Num(10))),
				&SLabel{Name: mid},
				Assign1(N(n), Bin("+", N(n), Num(1))),
				&SIf{Conds: []Expr{Bin("==", N(n), Num(2))}, Blocks: []*Block{Blk(&SGoto{Label: top})}},
				push(getter(v)), push(bump(v)),
				&SIf{Conds: []Expr{Bin("==", N(n), Num(1))}, Blocks: []*Block{Blk(&SGoto{Label: mid})}},
			)})
			g.cover("exit:backward-goto-compiled-before-capture")
		case 17: // the closure is made in a part of the block reached by a forward goto and left by a backward one
			top, back, mk, done, i := g.fresh("Ltop"), g.fresh("Lback"), g.fresh("Lmake"), g.fresh("Ldone"), g.fresh("i")
			b.Stmts = append(b.Stmts, &SDo{Body: Blk(
				Local1(i, Num(0)),
				&SLabel{Name: top},
				Local1(v, Bin("+", N(i), Num(100))),
				&SGoto{Label: mk},
				&SLabel{Name: back},
				&SIf{Conds: []Expr{Bin("<", N(i), Num(3))}, Blocks: []*Block{Blk(&SGoto{Label: top})}},
				&SGoto{Label: done},
				&SLabel{Name: mk},
				push(getter(v)),
				Assign1(N(i), Bin("+", N(i), Num(1))),
				&SGoto{Label: back},
				&SLabel{Name: done},
			)})
			g.cover("exit:capture-behind-forward-goto")
		case 18: // a forward goto (continue idiom) leaves a nested block whose own local is captured; the label's block captures nothing
			lbl := g.fresh("Lcont")
			iv := g.fresh("i")
			var nested Stmt
			inner := Blk(Local1(v, Bin("*", N(iv), Num(10))), push(bump(v)),
				&SIf{Conds: []Expr{Bin(">=", N(iv), Num(1))}, Blocks: []*Block{Blk(&SGoto{Label: lbl})}},
				CallSN("emit", Str("not-reached"), N(v)))
			switch g.R.Intn(3) {
			case 0:
				nested = &SDo{Body: inner}
			case 1:
				nested = &SIf{Conds: []Expr{&ETrue{}}, Blocks: []*Block{inner}}
			default:
				nested = &SNumFor{Var: g.fresh("j"), Start: Num(1), Limit: Num(1), Body: inner}
			}
			b.Stmts = append(b.Stmts, &SNumFor{Var: iv, Start: Num(1), Limit: Num(3), Body: Blk(nested, &SLabel{Name: lbl})})
			g.cover("exit:forward-goto-out-of-capturing-block")
		case 19: // assignments through open upvalues across coroutines: a coroutine writes its creator's live local, outside code writes a suspended coroutine's local
			y, setter := g.fresh("y"), g.fresh("setter")
			b.Stmts = append(b.Stmts,
				Local1(v, Num(1)), &SLocal{Names: []string{setter}},
				Local1(y, Call(Dot(N("coroutine"), "wrap"), Fn(nil, false, Blk(
					Assign1(N(v), Bin("+", N(v), Num(10))), // the creator's local, still open
					Local1("own", Num(5)),
					Assign1(N(setter), Fn([]string{"n"}, false, Blk(Assign1(N("own"), N("n")), Return(N("own"))))),
					&SCall{Call: Call(Dot(N("coroutine"), "yield"), N("own"))},
					Assign1(N(v), Bin("+", N(v), Num(100))),
					Return(N("own"), N(v)))))),
				CallSN("emit", Str("co-wrote-creator-local"), Call(N(y)), N(v)),
				CallSN("emit", Str("outside-wrote-co-local"), Call(N(setter), Num(77))),
				CallSN("emit", Str("co-sees"), Call(N(y)), N(v)),
				push(getter(v)))
			g.cover("exit:cross-coroutine-upvalue-writes")
		case 20: // while: a fresh body local per iteration
			c := g.fresh("c")
			b.Stmts = append(b.Stmts, Local1(c, Num(0)), &SWhile{Cond: Bin("<", N(c), Num(3)), Body: Blk(
				Assign1(N(c), Bin("+", N(c), Num(1))),
				Local1(v, Bin("*", N(c), Num(10))),
				push(bump(v)), push(getter(v)))})
			g.cover("exit:while-per-iteration")
		case 3: // goto out of nested blocks holding captured locals
			lbl := g.fresh("Lout")
			iv := g.fresh("i")
			b.Stmts = append(b.Stmts, &SDo{Body: Blk(
				&SNumFor{Var: iv, Start: Num(1), Limit: Num(3), Body: Blk(
					Local1(v, Bin("+", N(iv), Num(40))),
					&SDo{Body: Blk(
						Local1(g.fresh("z"), Num(5)),
						push(bump(v)),
						&SIf{Conds: []Expr{Bin("==", N(iv), Num(2))}, Blocks: []*Block{Blk(&SGoto{Label: lbl})}},
					)},
				)},
				&SLabel{Name: lbl},
			)})
		case 4: // continue-style goto and backward goto around captured locals
			lbl := g.fresh("Ltop")
			c := g.fresh("c")
			b.Stmts = append(b.Stmts, &SDo{Body: Blk(
				Local1(c, Num(0)),
				&SLabel{Name: lbl},
				Assign1(N(c), Bin("+", N(c), Num(1))),
				&SDo{Body: Blk(Local1(v, Bin("*", N(c), Num(3))), push(bump(v)))},
				&SIf{Conds: []Expr{Bin("<", N(c), Num(3))}, Blocks: []*Block{Blk(&SGoto{Label: lbl})}},
			)})
		case 5: // factory: parameters and locals captured, function returns normally / by tail call
			mk := g.fresh("mk")
			p := g.fresh("p")
			var ret Stmt = Return(bump(v), getter(v), getter(p))
			if g.R.Intn(2) == 0 {
				// return through a tail call
				ret = Return(CallN("hostret", Num(3), bump(v), getter(v), getter(p)))
				g.cover("exit:tailcall")
			}
			a, bb, cc := g.fresh("a"), g.fresh("b"), g.fresh("c")
			b.Stmts = append(b.Stmts,
				&SLocalFunc{Name: mk, F: &Func{Params: []string{p}, Body: Blk(Local1(v, Bin("*", N(p), Num(2))), ret)}},
				&SLocal{Names: []string{a, bb, cc}, Exprs: []Expr{Call(N(mk), Num(float64(1+g.R.Intn(9))))}},
				push(N(a)), push(N(bb)), push(N(cc)))
			// a second activation gets fresh variables
			b.Stmts = append(b.Stmts, &SLocal{Names: []string{g.fresh("a"), g.fresh("b")}, Exprs: []Expr{Call(N(mk), Num(50))}})
		case 6, 7: // error caught by pcall / xpcall after the closure was created
			h := g.fresh("h")
			body := Blk(
				Local1(v, Num(float64(60+g.R.Intn(9)))),
				push(bump(v)), push(getter(v)),
				&SDo{Body: Blk(Local1(g.fresh("w"), Num(1)), push(Fn(nil, false, Blk(Return(Bin("+", N(v), N(shared)))))))},
			)
			switch g.R.Intn(3) {
			case 0:
				body.Stmts = append(body.Stmts, CallSN("error", Str("Ex")))
			case 1:
				body.Stmts = append(body.Stmts, Local1(g.fresh("q"), Bin("+", &ENil{}, Num(1))))
			default:
				body.Stmts = append(body.Stmts, CallSN("error", &ETable{}))
			}
			if kind == 6 {
				b.Stmts = append(b.Stmts, CallSN("emit", Str("pcall"), &EParen{X: CallN("pcall", Fn(nil, false, body))}))
			} else {
				hbody := Blk(CallSN("emit", Str("handler"), CallN("type", N("e"))), Return(Str("handled")))
				if g.R.Intn(3) == 0 {
					// the message handler fails too
					hbody = Blk(CallSN("emit", Str("handler"), CallN("type", N("e"))), CallSN("error", Str("Ehandler")))
					g.cover("exit:xpcall-failing-handler")
				}
				b.Stmts = append(b.Stmts,
					&SLocalFunc{Name: h, F: &Func{Params: []string{"e"}, Body: hbody}},
					CallSN("emit", Str("xpcall"), &EParen{X: CallN("xpcall", Fn(nil, false, body), N(h))}))
				g.cover("exit:xpcall")
			}
		case 8: // coroutine: closures created inside, used while suspended and after death
			co := g.fresh("co")
			b.Stmts = append(b.Stmts,
				Local1(co, Call(Dot(N("coroutine"), "create"), Fn([]string{"a"}, false, Blk(
					Local1(v, Bin("+", N("a"), Num(1))),
					push(bump(v)), push(getter(v)),
					&SCall{Call: Call(Dot(N("coroutine"), "yield"), N(v))},
					Assign1(N(v), Bin("+", N(v), Num(100))),
					func() Stmt {
						switch g.R.Intn(6) {
						case 5:
							// the coroutine dies by a fault raised by an instruction of the very
							// function whose local is captured
							g.cover("exit:coroutine-dies-by-instruction-fault")
							return Local1(g.fresh("z"), Bin("+", &ENil{}, N(v)))
						case 0, 1:
							return CallSN("error", Str("Eco"))
						case 2:
							// the body ends by tail-calling a host function
							g.cover("exit:coroutine-body-tailcalls-host-function")
							return Return(CallN("hostret", Num(1), N(v)))
						case 3:
							// ... by a tail-called yield: the next resume's values are the body's results
							g.cover("exit:coroutine-body-tail-yield")
							return Return(Call(Dot(N("coroutine"), "yield"), N(v)))
						}
						return Return(N(v))
					}(),
				)))),
				CallSN("emit", Str("resume1"), Call(Dot(N("coroutine"), "resume"), N(co), Num(float64(g.R.Intn(9))))))
			b.Stmts = append(b.Stmts, g.reuseRegs()...)
			b.Stmts = append(b.Stmts, CallSN("emit", Str("suspended"), Call(Idx(N(fs), Un("#", N(fs)))), Call(Idx(N(fs), Bin("-", Un("#", N(fs)), Num(1))))))
			b.Stmts = append(b.Stmts, CallSN("emit", Str("resume2"), &EParen{X: Call(Dot(N("coroutine"), "resume"), N(co))}, Call(Dot(N("coroutine"), "status"), N(co))))
			// (a tail-yield is pending now for one of the endings: its resume values must not land on the captured variable)
			b.Stmts = append(b.Stmts, CallSN("emit", Str("resume3"), Call(Dot(N("coroutine"), "resume"), N(co), Num(777), Num(888), Num(999))),
				CallSN("emit", Str("after-resume3"), Call(Idx(N(fs), Un("#", N(fs)))), Call(Idx(N(fs), Bin("-", Un("#", N(fs)), Num(1))))))
		case 9: // sibling closures sharing an upvalue of an upvalue (3 levels)
			mk := g.fresh("mk")
			b.Stmts = append(b.Stmts,
				&SLocalFunc{Name: mk, F: &Func{Body: Blk(
					Local1(v, Num(float64(g.R.Intn(9)))),
					Return(Fn(nil, false, Blk(
						Return(Fn(nil, false, Blk(Assign1(N(v), Bin("+", N(v), Num(1))), Return(N(v)))), getter(v)),
					))),
				)}},
			)
			a, bb := g.fresh("a"), g.fresh("b")
			b.Stmts = append(b.Stmts, &SLocal{Names: []string{a, bb}, Exprs: []Expr{Call(Call(N(mk)))}}, push(N(a)), push(N(bb)))
		default: // environments
			env := g.fresh("env")
			f := g.fresh("f")
			gname := g.fresh("GV")
			b.Stmts = append(b.Stmts,
				Assign1(N(gname), Num(float64(g.R.Intn(9)))),
				Local1(env, &ETable{Items: []TItem{{Kind: TName, Name: gname, Val: Num(500)}, {Kind: TName, Name: "emit", Val: N("emit")}}}),
				&SLocalFunc{Name: f, F: &Func{Body: Blk(
					Assign1(N(gname), Bin("+", N(gname), Num(1))),
					// a nested closure inherits the environment of its creator
					Return(N(gname), Fn(nil, false, Blk(Return(N(gname))))),
				)}},
				CallSN("emit", Str("env0"), &EParen{X: Call(N(f))}),
				&SCall{Call: CallN("setfenv", N(f), N(env))},
			)
			inner := g.fresh("in")
			r1 := g.fresh("r")
			b.Stmts = append(b.Stmts,
				&SLocal{Names: []string{r1, inner}, Exprs: []Expr{Call(N(f))}},
				CallSN("emit", Str("env1"), N(r1), Call(N(inner)), N(gname), Dot(N(env), gname), Bin("==", CallN("getfenv", N(f)), N(env)), Bin("==", CallN("getfenv", N(inner)), N(env))))
			g.cover("exit:fenv")
		}
		// unrelated code reuses the registers, then every closure held so far is used
		b.Stmts = append(b.Stmts, g.reuseRegs()...)
		if g.R.Intn(2) == 0 {
			b.Stmts = append(b.Stmts, Assign1(N(shared), Bin("+", N(shared), Num(1000))))
		}
		k, f := g.fresh("k"), g.fresh("f")
		b.Stmts = append(b.Stmts, &SGenFor{Names: []string{k, f}, Exprs: []Expr{CallN("ipairs", N(fs))}, Body: Blk(CallSN("emit", N(k), Call(N(f))))})
	}
	return &Chunk{Body: b}
}
