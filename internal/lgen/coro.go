package lgen

import (
	. "verif/internal/last"
)

func (g *Gen) payload(maxn int) []Expr {
	n := g.R.Intn(maxn + 1)
	var out []Expr
	for i := 0; i < n; i++ {
		out = append(out, g.simpleVal())
	}
	return out
}

func co(name string, args ...Expr) *ECall { return Call(Dot(N("coroutine"), name), args...) }

// coroBody builds a coroutine body function: emits its arguments, yields from
// nested calls / loops, keeps locals across suspensions, ends by return /
// tail call / error.
func (g *Gen) coroBody(tag string, others []string) *Func {
	np := g.R.Intn(3)
	params := make([]string, np)
	for i := range params {
		params[i] = g.fresh("a")
	}
	va := g.R.Intn(2) == 0
	b := &Block{}
	ev := []Expr{Str(tag + ":start")}
	for _, p := range params {
		ev = append(ev, N(p))
	}
	if va {
		ev = append(ev, CallN("select", Str("#"), &EVararg{}), &EVararg{})
	}
	b.Stmts = append(b.Stmts, CallSN("emit", ev...))
	st := g.fresh("st") // a local that must survive suspensions
	b.Stmts = append(b.Stmts, Local1(st, Num(float64(g.R.Intn(9)))))
	// helper that yields from a nested Lua call of some depth
	deep := g.fresh("deep")
	b.Stmts = append(b.Stmts, &SLocalFunc{Name: deep, F: &Func{Params: []string{"d"}, Vararg: true, Body: Blk(
		&SIf{Conds: []Expr{Bin("<=", N("d"), Num(0))}, Blocks: []*Block{Blk(Return(co("yield", &EVararg{})))}},
		// not a tail call: the frame stays
		Local(append([]string{}, "r1", "r2", "r3"), Call(N(deep), Bin("-", N("d"), Num(1)), &EVararg{})),
		Return(N("r1"), N("r2"), N("r3")),
	)}})
	nsteps := 1 + g.R.Intn(4)
	for i := 0; i < nsteps; i++ {
		k := g.R.Intn(11)
		g.cover("costep:%d", k)
		switch k {
		case 0, 1:
			// plain yield, results of the pending yield are the next resume's arguments
			r := []string{g.fresh("y"), g.fresh("y"), g.fresh("y")}
			b.Stmts = append(b.Stmts, &SLocal{Names: r, Exprs: []Expr{co("yield", g.payload(4)...)}},
				Assign1(N(st), Bin("+", N(st), Num(1))),
				CallSN("emit", Str(tag+":resumed"), N(r[0]), N(r[1]), N(r[2]), N(st)))
		case 2:
			// yield from a nested call
			r := g.fresh("y")
			args := append([]Expr{Num(float64(1 + g.R.Intn(5)))}, g.payload(3)...)
			b.Stmts = append(b.Stmts, Local1(r, Call(N(deep), args...)), CallSN("emit", Str(tag+":deep"), N(r), N(st)))
		case 3:
			// generator loop
			iv := g.fresh("i")
			b.Stmts = append(b.Stmts, &SNumFor{Var: iv, Start: Num(1), Limit: Num(float64(1 + g.R.Intn(3))), Body: Blk(
				&SCall{Call: co("yield", N(iv), Bin("*", N(iv), N(st)))})})
		case 4:
			b.Stmts = append(b.Stmts, CallSN("emit", Str(tag+":status"), co("status", co("running")), Bin("==", co("running"), &ENil{})))
			// status of every created coroutine as seen from inside (resumers and their resumers are "normal")
			b.Stmts = append(b.Stmts, &SGenFor{Names: []string{"i", "h"}, Exprs: []Expr{CallN("ipairs", N("CO"))}, Body: Blk(
				CallSN("emit", Str(tag+":sees"), N("i"), co("status", N("h")), Bin("==", N("h"), co("running"))))})
			g.cover("co:status-of-all")
		case 10:
			// protected calls that fail (also with a failing message handler) must not spoil later legal yields
			b.Stmts = append(b.Stmts, CallSN("emit", Str(tag+":xpcall-failing-handler"),
				&EParen{X: CallN("xpcall", Fn(nil, false, Blk(CallSN("error", Str("Ea")))), Fn([]string{"m"}, false, Blk(CallSN("error", Str("Eh")))))},
				&EParen{X: CallN("pcall", Fn(nil, false, Blk(Return(Idx(CallN("setmetatable", &ETable{}, &ETable{Items: []TItem{{Kind: TName, Name: "__index", Val: Fn([]string{"t", "k"}, false, Blk(CallSN("error", Str("Em"))))}}}), Str("x"))))))}))
			g.cover("co:failing-protected-calls")
		case 8:
			// resume some coroutine by handle: possibly the own resumer, a grandparent (normal), itself (running) or a dead one
			b.Stmts = append(b.Stmts, CallSN("emit", Str(tag+":resume-any"), co("resume", Idx(N("CO"), Num(float64(1+g.R.Intn(4)))), Num(5))))
			g.cover("co:resume-by-handle")
		case 9:
			// a wrapped coroutine that dies by an error inside this coroutine, then status/running of this one
			w := g.fresh("w")
			b.Stmts = append(b.Stmts, Local1(w, co("wrap", Fn(nil, false, Blk(CallSN("error", Str("Ewrapped")))))),
				CallSN("emit", Str(tag+":wrapped-error"), &EParen{X: CallN("pcall", N(w))}, &EParen{X: CallN("pcall", N(w))}, co("status", co("running"))))
			g.cover("co:wrapped-error-inside")
		case 5:
			// resume another coroutine from inside (nested resume; status normal seen from inside)
			if len(others) > 0 {
				o := others[g.R.Intn(len(others))]
				b.Stmts = append(b.Stmts, CallSN("emit", Str(tag+":nested"), co("status", N(o)), co("resume", append([]Expr{N(o)}, g.payload(2)...)...)))
			}
		case 6:
			// yield across a host-call boundary: Lua 5.1 raises here
			b.Stmts = append(b.Stmts, CallSN("emit", Str(tag+":ypcall"), CallN("pcall", Fn(nil, false, Blk(Return(co("yield", Num(1))))))))
			g.cover("co:yield-in-pcall")
		default:
			// closure created here, shared with main through a global list
			b.Stmts = append(b.Stmts, Assign1(Idx(N("SHARED"), Bin("+", Un("#", N("SHARED")), Num(1))),
				Fn(nil, false, Blk(Assign1(N(st), Bin("+", N(st), Num(10))), Return(N(st))))))
		}
	}
	switch g.R.Intn(6) {
	case 5:
		// the body itself ends by tail-calling yield
		b.Stmts = append(b.Stmts, Return(co("yield", g.payload(3)...)))
		g.cover("coend:tail-yield")
	case 0:
		b.Stmts = append(b.Stmts, CallSN("error", Str("E"+tag)))
		g.cover("coend:error-string")
	case 1:
		b.Stmts = append(b.Stmts, CallSN("error", &ETable{Items: []TItem{{Kind: TName, Name: "t", Val: Str(tag)}}}))
		g.cover("coend:error-table")
	case 2:
		// finish by a tail call
		b.Stmts = append(b.Stmts, Return(CallN("hostret", Num(2), N(st), Str(tag+":tail"), Num(3))))
		g.cover("coend:tailcall")
	case 3:
		g.cover("coend:fallthrough")
	default:
		b.Stmts = append(b.Stmts, Return(append([]Expr{Str(tag + ":ret"), N(st)}, g.payload(3)...)...))
		g.cover("coend:return")
	}
	return &Func{Params: params, Vararg: va, Body: b}
}

// CoroutineProgram generates a program about coroutine transfer (C06).
func (g *Gen) CoroutineProgram() *Chunk {
	b := &Block{}
	b.Stmts = append(b.Stmts, Assign1(N("SHARED"), &ETable{}), Assign1(N("CO"), &ETable{}))
	n := 1 + g.R.Intn(4)
	var names []string
	wrapped := map[string]bool{}
	for i := 0; i < n; i++ {
		name := g.fresh("co")
		f := g.coroBody(name, names)
		g.NCoroutines++
		if g.R.Intn(3) == 0 {
			b.Stmts = append(b.Stmts, Local1(name, co("wrap", &EFunc{F: f})))
			wrapped[name] = true
			g.cover("co:wrap")
		} else {
			b.Stmts = append(b.Stmts, Local1(name, co("create", &EFunc{F: f})), Assign1(Idx(N("CO"), Bin("+", Un("#", N("CO")), Num(1))), N(name)))
			g.cover("co:create")
			names = append(names, name)
		}
		if !wrapped[name] {
			// only created coroutines can be resumed by later bodies
		}
	}
	all := append([]string{}, names...)
	for w := range wrapped {
		all = append(all, w)
	}
	// sort for determinism (map iteration)
	for i := range all {
		for j := i + 1; j < len(all); j++ {
			if all[j] < all[i] {
				all[i], all[j] = all[j], all[i]
			}
		}
	}
	nops := 4 + g.R.Intn(18)
	for i := 0; i < nops; i++ {
		c := all[g.R.Intn(len(all))]
		k := g.R.Intn(10)
		switch {
		case wrapped[c]:
			// a wrapped coroutine raises on error / when dead: always protected
			// (the text of a string error may gain a position prefix in 5.1's auxwrap: only its type is observed)
			ok, r1, r2, r3 := g.fresh("ok"), g.fresh("w"), g.fresh("w"), g.fresh("w")
			b.Stmts = append(b.Stmts, &SLocal{Names: []string{ok, r1, r2, r3}, Exprs: []Expr{CallN("pcall", append([]Expr{N(c)}, g.payload(3)...)...)}},
				CallSN("emit", Str("wrapcall"), N(ok), &EParen{X: Bin("or", Bin("and", N(ok), N(r1)), CallN("type", N(r1)))}, N(r2), N(r3)))
		case k < 6:
			b.Stmts = append(b.Stmts, CallSN("emit", Str("resume"), co("resume", append([]Expr{N(c)}, g.payload(4)...)...)))
		case k < 7:
			b.Stmts = append(b.Stmts, CallSN("emit", Str("status"), co("status", N(c))))
		case k < 8:
			b.Stmts = append(b.Stmts, g.reuseRegs()...)
		case k < 9:
			// use closures created inside coroutines while those are suspended or dead
			kk, f := g.fresh("k"), g.fresh("f")
			b.Stmts = append(b.Stmts, &SGenFor{Names: []string{kk, f}, Exprs: []Expr{CallN("ipairs", N("SHARED"))}, Body: Blk(CallSN("emit", Str("shared"), N(kk), Call(N(f))))})
		default:
			b.Stmts = append(b.Stmts, CallSN("emit", Str("mainyield"), CallN("pcall", Dot(N("coroutine"), "yield"), Num(1))),
				CallSN("emit", Str("running"), co("running")))
		}
	}
	// a coroutine created inside another one, used after its creator has
	// finished (returned / failed) or while the creator is suspended
	if g.R.Intn(3) == 0 {
		inner, outer := g.fresh("inner"), g.fresh("outer")
		var how Stmt = Return(Num(1))
		switch g.R.Intn(3) {
		case 0:
			how = CallSN("error", Str("Eouter"))
			g.cover("co:orphan-creator-failed")
		case 1:
			how = &SCall{Call: co("yield", Num(2))}
			g.cover("co:orphan-creator-suspended")
		default:
			g.cover("co:orphan-creator-returned")
		}
		mk := "create"
		if g.R.Intn(3) == 0 {
			mk = "wrap"
		}
		body := Fn([]string{"a"}, false, Blk(
			CallSN("emit", Str("inner:start"), N("a")),
			Local1("b", co("yield", Bin("+", N("a"), Num(1)))),
			CallSN("emit", Str("inner:resumed"), N("b")),
			Return(Bin("*", N("b"), Num(2)))))
		b.Stmts = append(b.Stmts,
			&SLocal{Names: []string{inner}},
			Local1(outer, co("create", Fn(nil, false, Blk(Assign1(N(inner), co(mk, body)), how)))),
			CallSN("emit", Str("outer"), co("resume", N(outer))),
			CallSN("emit", Str("outer-status"), co("status", N(outer))))
		if mk == "wrap" {
			b.Stmts = append(b.Stmts,
				CallSN("emit", Str("inner1"), CallN("pcall", N(inner), Num(10))),
				CallSN("emit", Str("inner2"), CallN("pcall", N(inner), Num(5))),
				CallSN("emit", Str("inner3"), &EParen{X: CallN("pcall", N(inner), Num(1))}))
		} else {
			b.Stmts = append(b.Stmts,
				CallSN("emit", Str("inner1"), co("resume", N(inner), Num(10))),
				CallSN("emit", Str("inner2"), co("resume", N(inner), Num(5))),
				CallSN("emit", Str("inner-status"), co("status", N(inner))))
		}
	}
	// the thread behind a wrap function, obtained with coroutine.running(), driven by coroutine.resume
	if g.R.Intn(4) == 0 {
		h, f := g.fresh("h"), g.fresh("wf")
		var end Stmt = Return(Str("wrapped:ret"), N("r"))
		if g.R.Intn(3) == 0 {
			end = CallSN("error", &ETable{Items: []TItem{{Kind: TName, Name: "code", Val: Num(3)}}})
		}
		b.Stmts = append(b.Stmts,
			&SLocal{Names: []string{h}},
			Local1(f, co("wrap", Fn([]string{"a"}, false, Blk(
				Assign1(N(h), co("running")),
				CallSN("emit", Str("wrapped:start"), N("a")),
				Local1("r", co("yield", Bin("+", N("a"), Num(1)))),
				CallSN("emit", Str("wrapped:resumed"), N("r")),
				Local1("r2", co("yield", Str("second"))),
				CallSN("emit", Str("wrapped:resumed2"), N("r2")),
				end)))),
			CallSN("emit", Str("by-wrap"), CallN("pcall", N(f), Num(1))),
			CallSN("emit", Str("by-resume"), co("resume", N(h), Num(5))),
			CallSN("emit", Str("status"), co("status", N(h))))
		if g.R.Intn(2) == 0 {
			b.Stmts = append(b.Stmts, CallSN("emit", Str("by-wrap-again"), CallN("pcall", N(f), Num(6))))
		} else {
			b.Stmts = append(b.Stmts, CallSN("emit", Str("by-resume-again"), co("resume", N(h), Num(6))))
		}
		b.Stmts = append(b.Stmts, CallSN("emit", Str("status"), co("status", N(h))), CallSN("emit", Str("dead"), co("resume", N(h))), CallSN("emit", Str("dead-wrap"), &EParen{X: CallN("pcall", N(f))}))
		g.cover("co:resume-thread-of-wrap")
	}
	// a host (Go) function as the body
	if g.R.Intn(5) == 0 {
		hc := g.fresh("hc")
		b.Stmts = append(b.Stmts,
			Local1(hc, co("create", N("hostret"))),
			CallSN("emit", Str("host-body"), co("resume", N(hc), Num(2), Str("a"), Str("b"), Str("c"))),
			CallSN("emit", Str("host-body-status"), co("status", N(hc)), Bin("==", co("running"), &ENil{})),
			CallSN("emit", Str("host-body-wrap"), Call(co("wrap", N("hostret")), Num(1), Str("w"))),
			CallSN("emit", Str("host-body-dead"), co("resume", N(hc))))
		g.cover("co:host-function-body")
	}
	// a host function as the iterator of a generic for inside a coroutine: it is
	// called across a host boundary like any iterator, so a yielding one is refused
	if g.R.Intn(8) == 0 {
		b.Stmts = append(b.Stmts,
			CallSN("emit", Str("yielding-host-iterator"), co("resume", co("create", Fn(nil, false, Blk(
				CallSN("emit", Str("in-co"), CallN("pcall", Fn(nil, false, Blk(
					&SGenFor{Names: []string{"v"}, Exprs: []Expr{Dot(N("coroutine"), "yield"), Str("st"), Num(1)}, Body: Blk(CallSN("emit", Str("body"), N("v")), &SBreak{})})))),
				Return(Str("co-done"))))))),
			CallSN("emit", Str("hostret-iterator"), co("resume", co("create", Fn(nil, false, Blk(
				&SGenFor{Names: []string{"a", "b"}, Exprs: []Expr{N("hostret"), Num(2), Num(0)}, Body: Blk(CallSN("emit", Str("body2"), N("a"), N("b")), &SBreak{})},
				Return(Str("co-done2"))))))))
		g.cover("co:host-iterator")
	}
	// coroutines driven through the Go API (NewThread + Resume in a host function)
	if g.R.Intn(8) == 0 {
		b.Stmts = append(b.Stmts,
			CallSN("emit", Str("go-api-fail"), CallN("goresume", Fn([]string{"a"}, false, Blk(CallSN("error", &ETable{Items: []TItem{{Kind: TName, Name: "code", Val: N("a")}}}))), Num(3))),
			CallSN("emit", Str("go-api-rt"), &EParen{X: CallN("goresume", Fn(nil, false, Blk(Local1("z", Bin("+", &ENil{}, Num(1))))))}),
			CallSN("emit", Str("go-api-ok"), CallN("goresume", Fn([]string{"a", "b"}, false, Blk(Return(N("b"), N("a")))), Num(1), Num(2))),
			CallSN("emit", Str("go-api-yield"), CallN("goresume", Fn([]string{"a"}, false, Blk(&SCall{Call: co("yield", N("a"), Str("y"))}, Return(Num(0)))), Num(9))))
		g.cover("co:go-api")
	}
	if g.R.Intn(6) == 0 {
		yield := func(args ...Expr) Expr { return co("yield", args...) }
		switch g.R.Intn(4) {
		case 0:
			yield = func(args ...Expr) Expr { return CallN("hosty", args...) }
			g.cover("co:host-function-yields")
		case 1:
			// (yields its arguments and two values of its own: more than it was given)
			yield = func(args ...Expr) Expr { return CallN("hostymore", args...) }
			g.cover("co:host-function-yields-more-than-its-arguments")
		}
		max := Num(float64(3 + g.R.Intn(4)))
		switch g.R.Intn(7) {
		case 0: // the body ends in a tail-position yield: the last resume's values are its results
			b.Stmts = append(b.Stmts, CallSN("emit", Str("drive-tail"), CallN("godrive", Fn([]string{"a"}, false, Blk(
				Local1("b", yield(Bin("+", N("a"), Num(1)))), Return(yield(Bin("+", N("b"), Num(1)), Str("t"))))), max, Num(1))))
		case 1:
			b.Stmts = append(b.Stmts, CallSN("emit", Str("drive-plain"), CallN("godrive", Fn([]string{"a", "b"}, false, Blk(
				&SLocal{Names: []string{"c", "d"}, Exprs: []Expr{yield(N("a"), N("b"))}}, CallSN("emit", Str("in"), N("c"), N("d")), Return(N("d"), N("c"), N("a")))), max, Num(1), Num(2))))
		case 2: // no values at all
			b.Stmts = append(b.Stmts, CallSN("emit", Str("drive-none"), CallN("godrive", Fn(nil, false, Blk(&SCall{Call: yield()}, Return())), max)),
				CallSN("emit", Str("drive-tail-none"), CallN("godrive", Fn(nil, false, Blk(Return(yield()))), max)))
		case 3: // fails after a yield
			b.Stmts = append(b.Stmts, CallSN("emit", Str("drive-err"), CallN("godrive", Fn(nil, false, Blk(&SCall{Call: yield(Num(1))}, CallSN("error", &ETable{}))), max)))
		case 4: // left suspended after the budget of steps
			b.Stmts = append(b.Stmts, CallSN("emit", Str("drive-cut"), CallN("godrive", Fn(nil, false, Blk(
				&SNumFor{Var: "i", Start: Num(1), Limit: Num(10), Body: Blk(&SCall{Call: yield(N("i"))})})), Num(3))))
		case 5: // a yield where the interpreter loop was entered from Go is refused, for host functions too
			b.Stmts = append(b.Stmts,
				Local1("hco", co("create", Fn(nil, false, Blk(
					CallSN("emit", Str("h1"), CallN("pcall", N("hosty"), Num(1))),
					CallSN("emit", Str("h2"), CallN("hosty", Num(2))),
					&SGenFor{Names: []string{"v"}, Exprs: []Expr{N("hosty"), Num(1), Num(2)}, Body: Blk(&SBreak{})},
					Return(Str("end")))))),
				CallSN("emit", Str("hco1"), co("resume", N("hco"))),
				CallSN("emit", Str("hco2"), co("resume", N("hco"), Str("r"))),
				CallSN("emit", Str("hco3"), co("status", N("hco")), co("resume", N("hco"))))
			g.cover("co:host-yield-across-boundary")
		default: // the Go API refuses coroutines that are not suspended
			b.Stmts = append(b.Stmts,
				&SLocal{Names: []string{"gouter"}},
				Assign1(N("gouter"), co("create", Fn(nil, false, Blk(
					Local1("ginner", co("create", Fn(nil, false, Blk(CallSN("emit", Str("inner"), CallN("gores", N("gouter"), Num(1))), Return(Str("inner-done")))))),
					CallSN("emit", Str("res-inner"), co("resume", N("ginner"))),
					CallSN("emit", Str("self"), CallN("gores", N("gouter"))),
					Local1("x", co("yield", Num(5))),
					CallSN("emit", Str("x"), N("x")),
					Return(Str("outer-done")))))),
				CallSN("emit", Str("gouter1"), co("resume", N("gouter"))),
				CallSN("emit", Str("gouter2"), CallN("gores", N("gouter"), Num(7))),
				CallSN("emit", Str("gouter3"), CallN("gores", N("gouter")), co("status", N("gouter"))))
			g.cover("co:go-api-refusals")
		}
		g.cover("co:go-api-drive")
	}
	if g.R.Intn(8) == 0 {
		b.Stmts = append(b.Stmts,
			Local1("hm", co("create", Fn([]string{"p"}, false, Blk(
				&SLocal{Names: []string{"r1", "r2"}, Exprs: []Expr{CallN("hostymore", N("p"))}},
				CallSN("emit", Str("hm-got"), N("r1"), N("r2")),
				&SLocal{Names: []string{"r3"}, Exprs: []Expr{CallN("hostymore")}},
				Return(N("r3"), CallN("hostymore", Num(1), Num(2), Num(3))))))),
			CallSN("emit", Str("hm1"), co("resume", N("hm"), Num(5))),
			CallSN("emit", Str("hm2"), co("resume", N("hm"), Str("a"), Str("b"), Str("c"))),
			CallSN("emit", Str("hm3"), co("resume", N("hm"), Str("d"))),
			CallSN("emit", Str("hm4"), co("resume", N("hm"), Str("e"), Str("f"))),
			CallSN("emit", Str("hm5"), co("status", N("hm"))),
			&SGenFor{Names: []string{"x", "y", "z"}, Exprs: []Expr{co("wrap", Fn(nil, false, Blk(&SCall{Call: CallN("hostymore", Num(1))}, &SCall{Call: CallN("hostymore")})))}, Body: Blk(CallSN("emit", Str("hm-for"), N("x"), N("y"), N("z")))})
		g.cover("co:hostymore-direct")
	}
	// a Go panic inside a host function called by a coroutine kills that coroutine and
	// reaches its resumer like any error; an error that crosses two wrap boundaries
	// arrives as the value that was raised
	if g.R.Intn(6) == 0 {
		b.Stmts = append(b.Stmts,
			Local1("pco", co("create", Fn(nil, false, Blk(&SCall{Call: co("yield", Num(1))}, CallSN("hostpanic"), Return(Str("not-reached")))))),
			CallSN("emit", Str("panic-co-1"), co("resume", N("pco"))),
			CallSN("emit", Str("panic-co-2"), &EParen{X: co("resume", N("pco"))}, co("status", N("pco"))),
			CallSN("emit", Str("panic-co-3"), &EParen{X: co("resume", N("pco"))}, co("running")),
			CallSN("emit", Str("panic-wrap"), &EParen{X: CallN("pcall", co("wrap", Fn(nil, false, Blk(CallSN("hostpanic")))))}),
			Local1("w2inner", co("wrap", Fn(nil, false, Blk(&SCall{Call: co("yield", Num(1))}, CallSN("error", &ETable{Items: []TItem{{Kind: TName, Name: "code", Val: Num(5)}}}))))),
			Local1("w2outer", co("wrap", Fn(nil, false, Blk(&SWhile{Cond: &ETrue{}, Body: Blk(&SCall{Call: co("yield", Bin("*", Call(N("w2inner")), Num(2)))})})))),
			CallSN("emit", Str("two-wraps"), Call(N("w2outer")), CallN("pcall", N("w2outer"))),
			CallSN("emit", Str("two-wraps-after"), &EParen{X: CallN("pcall", N("w2outer"))}, &EParen{X: CallN("pcall", N("w2inner"))}))
		g.cover("co:go-panic-and-two-wrap-errors")
	}
	// the Go API resumes a thread that a wrap function drove last: values and failure
	// come back as the API documents them, not the way the wrap call would report them
	if g.R.Intn(8) == 0 {
		b.Stmts = append(b.Stmts,
			&SLocal{Names: []string{"wth"}},
			Local1("ww", co("wrap", Fn(nil, false, Blk(
				Assign1(N("wth"), co("running")),
				&SCall{Call: co("yield", Num(1))},
				&SCall{Call: co("yield", Num(2), Num(3))},
				CallSN("error", &ETable{}))))),
			CallSN("emit", Str("ww1"), Call(N("ww"))),
			CallSN("emit", Str("gores-on-wrap-thread"), CallN("gores", N("wth"))),
			CallSN("emit", Str("gores-on-wrap-thread-failure"), CallN("gores", N("wth"))),
			CallSN("emit", Str("gores-on-wrap-thread-status"), co("status", N("wth")), CallN("gores", N("wth"))))
		g.cover("co:go-api-on-a-wrap-driven-thread")
	}
	// a resume that supplies fewer values than the pending yield assigns: the rest is
	// nil and stays nil when the next thing the coroutine does is a call made by the
	// interpreter itself (a metamethod handler, an iterator, a comparison handler)
	if g.R.Intn(5) == 0 {
		supplied := g.R.Intn(3)
		args := []Expr{}
		for i := 0; i < supplied; i++ {
			args = append(args, Num(float64(70+i)))
		}
		var after Stmt
		switch g.R.Intn(4) {
		case 0:
			after = Local1("sx", Dot(N("smt"), "k")) // __index function
		case 1:
			after = Local1("sx", Bin("+", N("smt"), Num(1))) // __add
		case 2:
			after = &SGenFor{Names: []string{"si"}, Exprs: []Expr{Fn([]string{"s", "c"}, false, Blk(&SIf{Conds: []Expr{Bin("<", N("c"), Num(2))}, Blocks: []*Block{Blk(Return(Bin("+", N("c"), Num(1))))}})), &ENil{}, Num(0)}, Body: Blk(CallSN("emit", Str("short-iter"), N("si")))}
		default:
			after = Local1("sx", Bin("..", N("smt"), Str("z"))) // __concat
		}
		b.Stmts = append(b.Stmts,
			Local1("sco", co("wrap", Fn(nil, false, Blk(
				Local1("smt", CallN("setmetatable", &ETable{}, &ETable{Items: []TItem{
					{Kind: TName, Name: "__index", Val: Fn(nil, false, Blk(Return(Num(42))))},
					{Kind: TName, Name: "__add", Val: Fn(nil, false, Blk(Return(Num(43))))},
					{Kind: TName, Name: "__concat", Val: Fn(nil, false, Blk(Return(Str("cc"))))}}})),
				&SLocal{Names: []string{"sa", "sb", "sc", "sd"}, Exprs: []Expr{co("yield", Str("first"))}},
				after,
				Return(N("sa"), N("sb"), N("sc"), N("sd"), CallN("type", N("sb")), CallN("type", N("sd"))))))),
			CallSN("emit", Str("short-resume-1"), Call(N("sco"))),
			CallSN("emit", Str("short-resume-2"), CallN("pcall", append([]Expr{N("sco")}, args...)...)))
		g.cover("co:resume-with-fewer-values-then-interpreter-call")
	}
	// a closure over a local of a coroutine that dies by a fault of its own function
	// keeps the value the local had (the dying coroutine's registers are cleared)
	if g.R.Intn(6) == 0 {
		b.Stmts = append(b.Stmts,
			&SLocal{Names: []string{"esc"}},
			Local1("dco", co("create", Fn([]string{"p"}, false, Blk(
				Local1("dv", Bin("*", N("p"), Num(10))),
				Assign1(N("esc"), Fn(nil, false, Blk(Assign1(N("dv"), Bin("+", N("dv"), Num(1))), Return(N("dv"), N("p"))))),
				&SCall{Call: Call(N("esc"))},
				Local1("dz", Bin("+", &ENil{}, N("dv"))))))),
			CallSN("emit", Str("dying"), &EParen{X: co("resume", N("dco"), Num(float64(1+g.R.Intn(5))))}, co("status", N("dco"))),
			CallSN("emit", Str("escaped"), Call(N("esc"))),
			CallSN("emit", Str("escaped-again"), Call(N("esc"))))
		g.cover("co:closure-escapes-a-dying-coroutine")
	}
	// a refused resume through the other entry point does not change how the
	// running coroutine reports its own failure afterwards
	if g.R.Intn(8) == 0 {
		b.Stmts = append(b.Stmts,
			Local1("rw", co("wrap", Fn(nil, false, Blk(
				CallSN("emit", Str("self-resume"), co("resume", co("running"))),
				Local1("child", co("create", Fn([]string{"p"}, false, Blk(CallSN("emit", Str("child-resumes-parent"), co("resume", N("p"))))))),
				CallSN("emit", Str("child"), co("resume", N("child"), co("running"))),
				CallSN("error", Str("Ewrapped")))))),
			CallSN("emit", Str("wrap-after-refused"), CallN("pcall", N("rw"))),
			// the thread behind a wrap function resumed by coroutine.resume calls its own wrap function
			&SLocal{Names: []string{"rw2", "rth"}},
			Assign1(N("rw2"), co("wrap", Fn(nil, false, Blk(
				Assign1(N("rth"), co("running")),
				&SCall{Call: co("yield", Num(1))},
				CallSN("emit", Str("own-wrap"), &EParen{X: CallN("pcall", N("rw2"))}), // (a wrap function may add a position to the refusal)
				CallSN("error", Str("Eresumed")))))),
			CallSN("emit", Str("rw2-first"), Call(N("rw2"))),
			CallSN("emit", Str("resume-after-refused"), CallN("pcall", Dot(N("coroutine"), "resume"), N("rth"))))
		g.cover("co:refused-resume-then-failure")
	}
	// many contained failures of wrap functions leave nothing behind: afterwards coroutines work as before
	if g.R.Intn(10) == 0 {
		n := []int{199, 201, 250, 420}[g.R.Intn(4)]
		i, cnt := g.fresh("i"), g.fresh("cnt")
		b.Stmts = append(b.Stmts, Local1(cnt, Num(0)),
			&SNumFor{Var: i, Start: Num(1), Limit: Num(float64(n)), Body: Blk(
				&SIf{Sites: make([]Site, 1), Conds: []Expr{Un("not", &EParen{X: CallN("pcall", co("wrap", Fn(nil, false, Blk(CallSN("error", &ETable{})))))})}, Blocks: []*Block{Blk(Assign1(N(cnt), Bin("+", N(cnt), Num(1))))}})},
			CallSN("emit", Str("wrap-failures"), N(cnt)),
			CallSN("emit", Str("after-wrap-failures"), co("resume", co("create", Fn([]string{"a"}, false, Blk(Return(Bin("*", N("a"), Num(2)))))), Num(21)), Call(co("wrap", Fn(nil, false, Blk(Return(Str("w"))))))))
		g.cover("co:many-wrap-failures")
	}
	// a coroutine is as deep and as wide as the main thread: 150 nested calls, 250 values at once
	if g.R.Intn(8) == 0 {
		deepf, wide := g.fresh("deepf"), g.fresh("wide")
		b.Stmts = append(b.Stmts,
			&SLocalFunc{Name: deepf, F: &Func{Params: []string{"n"}, Body: Blk(
				&SIf{Sites: make([]Site, 1), Conds: []Expr{Bin("==", N("n"), Num(0))}, Blocks: []*Block{Blk(Return(co("yield", Str("bottom"))))}},
				Local([]string{"p", "q"}, N("n"), Bin("*", N("n"), Num(2))),
				Return(Bin("+", Call(N(deepf), Bin("-", N("n"), Num(1))), Bin("-", N("q"), Bin("*", N("p"), Num(2))))))}},
			Local1(wide, &ETable{}),
			&SNumFor{Var: "i", Start: Num(1), Limit: Num(250), Body: Blk(Assign1(Idx(N(wide), N("i")), N("i")))},
			CallSN("emit", Str("deep-coroutine"), Call(co("wrap", Fn(nil, false, Blk(Return(Call(N(deepf), Num(150)))))))),
			CallSN("emit", Str("wide-coroutine"), CallN("select", Str("#"), Call(co("wrap", Fn(nil, true, Blk(Return(&EVararg{})))), CallN("unpack", N(wide)))),
				CallN("select", Num(250), co("resume", co("create", Fn(nil, true, Blk(Return(co("yield", &EVararg{}))))), CallN("unpack", N(wide))))))
		g.cover("co:deep-and-wide")
	}
	// resumes nested without bound end in an error, not in a dead process
	if g.R.Intn(8) == 0 {
		rf := g.fresh("nest")
		b.Stmts = append(b.Stmts,
			&SLocalFunc{Name: rf, F: &Func{Body: Blk(Return(&EParen{X: Call(co("wrap", N(rf)))}))}},
			CallSN("emit", Str("runaway-nesting"), &EParen{X: CallN("pcall", N(rf))}),
			CallSN("emit", Str("after-runaway"), co("status", co("create", Fn(nil, false, Blk()))), Bin("==", co("running"), &ENil{})))
		g.cover("co:runaway-nesting")
	}
	// drain: resume everything until dead, bounded
	for _, c := range names {
		iv := g.fresh("i")
		b.Stmts = append(b.Stmts, &SNumFor{Var: iv, Start: Num(1), Limit: Num(12), Body: Blk(
			&SIf{Conds: []Expr{Bin("==", co("status", N(c)), Str("dead"))}, Blocks: []*Block{Blk(&SBreak{})}},
			CallSN("emit", Str("drain"), co("resume", N(c), N(iv))))},
			CallSN("emit", Str("final"), co("status", N(c)), co("resume", N(c))))
	}
	return &Chunk{Body: b}
}
