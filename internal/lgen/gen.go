// Package lgen generates seeded, scope- and termination-aware Lua programs
// over the harness AST.
package lgen

import (
	"fmt"
	"math/rand"

	. "verif/internal/last"
)

type Kind int

const (
	KInt Kind = iota // small integer-valued number
	KNum             // any number
	KStr
	KBool
	KTab  // table with string fields of known kinds
	KList // array-like table of KInt without holes
	KFun
	KAny
	KNil
)

// Features select the sub-language.
type Features struct {
	Calls      bool
	Closures   bool
	Varargs    bool
	Meta       bool
	PCall      bool
	Errors     bool // deliberately failing operations (outside pcall they end the program)
	Coroutines bool
	Goto       bool
	Fenv       bool
	Debug      bool
	BigConsts  bool // force > 256 constants
	// MaxStmts bounds the number of statements generated for the main body.
	MaxStmts  int
	MaxDepth  int // block nesting
	ExprDepth int
}

type Var struct {
	Name     string
	Kind     Kind
	Storage  int    // 0 local, 1 global, 2 field of a local table
	Holder   string // table local name for Storage 2
	Volatile bool   // may be assigned from inside closures
	Const    bool   // never reassigned (loop variables)
	Frozen   int    // >0: a list being iterated by ipairs; must not grow
	FnLevel  int    // function nesting level of the declaration
	// for KFun
	NParams int
	Vararg  bool
	RetKind Kind // kind of the first result (KAny if unknown), KNil if no results
	Pure    bool // callable inside expressions (emits only)
	// for KList: current static length unknown; for KTab: fields
	Fields map[string]Kind
}

type scope struct {
	vars   []*Var
	parent *scope
	fn     *fnCtx
	loop   bool // directly a loop body
}

type fnCtx struct {
	level   int
	vararg  bool
	parent  *fnCtx
	inLoop  int
	labels  int
	retKind Kind
	noYield bool
}

type Gen struct {
	R     *rand.Rand
	F     Features
	sc    *scope
	fn    *fnCtx
	n     int // name counter
	stmts int // statements generated so far
	depth int
	// coverage counters: (operator x left storage x right storage) etc.
	Cover map[string]int
	// statistics the properties use for non-triviality
	NCalls, NClosures, NHandlers, NPCalls, NCoroutines int
	errN                                               int
	strPool                                            []string
	// Fault is filled by FaultProgram.
	Fault *FaultInfo
}

func New(r *rand.Rand, f Features) *Gen {
	if f.MaxStmts == 0 {
		f.MaxStmts = 40
	}
	if f.MaxDepth == 0 {
		f.MaxDepth = 4
	}
	if f.ExprDepth == 0 {
		f.ExprDepth = 4
	}
	g := &Gen{R: r, F: f, Cover: map[string]int{}}
	g.fn = &fnCtx{level: 0, vararg: true}
	g.sc = &scope{fn: g.fn}
	g.strPool = []string{"", "a", "b", "abc", "A", "zz", "10", "3", "-2", "0x10", "1.5", "x\x00y", "\xff", "a\nb", "7", "k1", "k2"}
	return g
}

func (g *Gen) cover(format string, a ...interface{}) { g.Cover[fmt.Sprintf(format, a...)]++ }

func (g *Gen) fresh(prefix string) string {
	g.n++
	return fmt.Sprintf("%s%d", prefix, g.n)
}

func (g *Gen) push(loop bool) {
	g.sc = &scope{parent: g.sc, fn: g.fn, loop: loop}
	g.depth++
}
func (g *Gen) pop() {
	g.sc = g.sc.parent
	g.depth--
}

func (g *Gen) declare(v *Var) *Var {
	v.FnLevel = g.fn.level
	g.sc.vars = append(g.sc.vars, v)
	return v
}

// visible returns variables of a kind usable now. write: must be assignable.
func (g *Gen) visible(pred func(*Var) bool) []*Var {
	var out []*Var
	seen := map[string]bool{}
	for s := g.sc; s != nil; s = s.parent {
		for i := len(s.vars) - 1; i >= 0; i-- {
			v := s.vars[i]
			key := v.Name
			if v.Storage == 2 {
				key = v.Holder + "." + v.Name
			}
			if seen[key] {
				continue
			}
			seen[key] = true
			if pred(v) {
				out = append(out, v)
			}
		}
	}
	return out
}

func kindIs(k Kind, want Kind) bool {
	if k == want {
		return true
	}
	if want == KNum && k == KInt {
		return true
	}
	if want == KAny {
		return true
	}
	return false
}

func (g *Gen) pickVar(want Kind, forWrite bool, noVolatile bool) *Var {
	vs := g.visible(func(v *Var) bool {
		if forWrite {
			if v.Const || v.Kind != want {
				return false
			}
			// a closure may assign an outer local only if it was declared volatile
			if v.Storage == 0 && v.FnLevel != g.fn.level && !v.Volatile {
				return false
			}
			return true
		}
		if noVolatile && v.Volatile {
			return false
		}
		return kindIs(v.Kind, want)
	})
	if len(vs) == 0 {
		return nil
	}
	// prefer recent variables a little
	if g.R.Intn(3) == 0 {
		return vs[g.R.Intn((len(vs)+1)/2)]
	}
	return vs[g.R.Intn(len(vs))]
}

func (v *Var) Ref() Expr {
	switch v.Storage {
	case 2:
		if len(v.Name) > 0 && v.Name[0] == '#' {
			// numeric field
			var n float64
			fmt.Sscanf(v.Name[1:], "%g", &n)
			return Idx(N(v.Holder), Num(n))
		}
		return Dot(N(v.Holder), v.Name)
	}
	return N(v.Name)
}

func (v *Var) storageName() string {
	switch v.Storage {
	case 1:
		return "global"
	case 2:
		return "field"
	}
	if v.Volatile {
		return "upval"
	}
	return "local"
}

// ---------- expressions ----------

type ectx struct {
	depth int
	calls bool // calls allowed; volatile locals are then excluded
}

func (g *Gen) intLit() Expr {
	switch g.R.Intn(10) {
	case 0:
		return Num(0)
	case 1:
		return Un("-", Num(float64(1+g.R.Intn(9))))
	case 2:
		return Num(float64(g.R.Intn(1000)))
	case 3:
		return &ENum{V: float64(g.R.Intn(256)), Text: fmt.Sprintf("0x%X", 0)} // patched below
	}
	return Num(float64(g.R.Intn(12)))
}

func (g *Gen) intLitFixed() Expr {
	e := g.intLit()
	if n, ok := e.(*ENum); ok && n.Text != "" {
		n.Text = fmt.Sprintf("0x%x", int(n.V))
		if g.R.Intn(2) == 0 {
			n.Text = fmt.Sprintf("0X%X", int(n.V))
		}
	}
	return e
}

func (g *Gen) strLit() Expr {
	return Str(g.strPool[g.R.Intn(len(g.strPool))])
}

var numStrs = []string{"10", "3", "-2", "0x10", "7", " 5 ", "1.5", "0"}

func (g *Gen) leaf(k Kind, c ectx) Expr {
	if g.R.Intn(3) != 0 {
		if v := g.pickVar(k, false, c.calls); v != nil {
			g.cover("read:%s:%d", v.storageName(), v.Kind)
			return v.Ref()
		}
	}
	switch k {
	case KInt:
		return g.intLitFixed()
	case KNum:
		switch g.R.Intn(8) {
		case 0:
			return Num(0.5)
		case 1:
			return Num(1.25)
		case 2:
			return Num(1e10)
		case 3:
			return Num(9007199254740992)
		case 4:
			return Num(1e300)
		case 5:
			return Num(0.1)
		}
		return g.intLitFixed()
	case KStr:
		return g.strLit()
	case KBool:
		if g.R.Intn(2) == 0 {
			return &ETrue{}
		}
		return &EFalse{}
	case KNil:
		return &ENil{}
	case KTab:
		return g.tableCons(c)
	case KList:
		return g.listCons(c)
	case KFun:
		return g.funcLit(g.R.Intn(3), false, KInt)
	case KAny:
		return g.leaf([]Kind{KInt, KStr, KBool, KNil, KNum}[g.R.Intn(5)], c)
	}
	return &ENil{}
}

func (g *Gen) listCons(c ectx) Expr {
	t := &ETable{}
	n := g.R.Intn(6)
	if g.R.Intn(10) == 0 {
		n = 48 + g.R.Intn(8) // cross FieldsPerFlush
	}
	for i := 0; i < n; i++ {
		t.Items = append(t.Items, TItem{Kind: TPos, Val: g.expr(KInt, ectx{depth: c.depth + 2, calls: c.calls})})
	}
	return t
}

func (g *Gen) tableCons(c ectx) Expr {
	t := &ETable{}
	n := g.R.Intn(5)
	used := map[string]bool{}
	for i := 0; i < n; i++ {
		k := []Kind{KInt, KStr, KBool}[g.R.Intn(3)]
		switch g.R.Intn(3) {
		case 0:
			t.Items = append(t.Items, TItem{Kind: TPos, Val: g.expr(k, ectx{depth: c.depth + 2, calls: c.calls})})
		case 1:
			nm := fmt.Sprintf("f%d", g.R.Intn(6))
			if used[nm] {
				continue
			}
			used[nm] = true
			t.Items = append(t.Items, TItem{Kind: TName, Name: nm, Val: g.expr(k, ectx{depth: c.depth + 2, calls: c.calls})})
		default:
			key := fmt.Sprintf("k%d", g.R.Intn(6))
			if used[key] {
				continue
			}
			used[key] = true
			var ke Expr = Str(key)
			if g.R.Intn(2) == 0 {
				ke = Bin("..", Str("k"), Num(float64(key[1]-'0')))
			}
			t.Items = append(t.Items, TItem{Kind: TKey, Key: ke, Val: g.expr(k, ectx{depth: c.depth + 2, calls: c.calls})})
		}
	}
	return t
}

func (g *Gen) expr(k Kind, c ectx) Expr {
	if c.depth >= g.F.ExprDepth || g.R.Intn(4) == 0 {
		return g.leaf(k, c)
	}
	d := ectx{depth: c.depth + 1, calls: c.calls}
	switch k {
	case KInt:
		switch g.R.Intn(12) {
		case 0, 1, 2:
			op := []string{"+", "-"}[g.R.Intn(2)]
			g.cover("op:%s", op)
			return Bin(op, g.expr(KInt, d), g.expr(KInt, d))
		case 3:
			g.cover("op:*")
			return Bin("*", g.expr(KInt, d), Num(float64(g.R.Intn(4))))
		case 4:
			g.cover("op:%%")
			m := float64(2 + g.R.Intn(9))
			var me Expr = Num(m)
			if g.R.Intn(3) == 0 {
				me = Un("-", Num(m))
			}
			return Bin("%", g.expr(KInt, d), me)
		case 5:
			g.cover("op:#")
			if g.R.Intn(2) == 0 {
				return Un("#", g.expr(KStr, d))
			}
			if v := g.pickVar(KList, false, c.calls); v != nil {
				return Un("#", v.Ref())
			}
			return Un("#", g.expr(KStr, d))
		case 6:
			// proper ternary: KInt is always truthy
			return Bin("or", Bin("and", g.expr(KBool, d), g.expr(KInt, d)), g.expr(KInt, d))
		case 7:
			// numeric string coercion
			g.cover("coerce:str->num")
			s := numStrs[g.R.Intn(len(numStrs))]
			if s == "1.5" {
				s = "4"
			}
			return Bin([]string{"+", "-", "*"}[g.R.Intn(3)], Str(s), g.expr(KInt, d))
		case 8:
			if c.calls && g.F.Calls {
				if e := g.callExpr(KInt, d); e != nil {
					return e
				}
			}
			return Un("-", g.expr(KInt, d))
		case 9:
			if v := g.pickVar(KList, false, c.calls); v != nil {
				// element read; may be nil when out of range: guard with `or`
				return Bin("or", Idx(v.Ref(), g.expr(KInt, d)), g.intLitFixed())
			}
			return &EParen{X: g.expr(KInt, d)}
		case 10:
			if g.fn.vararg && g.F.Varargs {
				return CallN("select", Str("#"), &EVararg{})
			}
			return g.expr(KInt, d)
		default:
			return CallN("tonumber", Str(numStrs[g.R.Intn(5)]))
		}
	case KNum:
		switch g.R.Intn(8) {
		case 0, 1:
			op := []string{"+", "-", "*", "/"}[g.R.Intn(4)]
			g.cover("op:%s", op)
			return Bin(op, g.expr(KNum, d), g.expr(KNum, d))
		case 2:
			g.cover("op:^")
			return Bin("^", g.expr(KNum, d), g.expr(KInt, d))
		case 3:
			g.cover("op:unm")
			return Un("-", g.expr(KNum, d))
		case 4:
			g.cover("op:/0")
			return Bin("/", g.expr(KInt, d), Num(0))
		case 5:
			// modulo on exact dyadics
			return Bin("%", g.expr(KInt, d), Num([]float64{0.5, 2.5, 4, 0.25}[g.R.Intn(4)]))
		case 6:
			return Call(Dot(N("math"), "floor"), g.expr(KNum, d))
		}
		return g.expr(KInt, d)
	case KStr:
		switch g.R.Intn(9) {
		case 0, 1:
			g.cover("op:..")
			return Bin("..", g.expr(KStr, d), g.expr(KStr, d))
		case 2:
			g.cover("coerce:num->str")
			if g.R.Intn(2) == 0 {
				return Bin("..", g.expr(KInt, d), g.expr(KStr, d))
			}
			return Bin("..", g.expr(KStr, d), g.expr(KInt, d))
		case 3:
			return CallN("tostring", g.expr([]Kind{KInt, KBool, KNil, KStr}[g.R.Intn(4)], d))
		case 4:
			return CallN("type", g.expr(KAny, d))
		case 5:
			return Bin("or", Bin("and", g.expr(KBool, d), g.expr(KStr, d)), g.expr(KStr, d))
		case 6:
			return &EMethod{Obj: g.expr(KStr, d), Name: "rep", Args: []Expr{Num(float64(g.R.Intn(4)))}}
		case 7:
			return &EMethod{Obj: g.expr(KStr, d), Name: "sub", Args: []Expr{g.expr(KInt, d), g.expr(KInt, d)}}
		default:
			// chain of 3..6 operands, mixed
			n := 3 + g.R.Intn(4)
			var e Expr = g.expr(KStr, d)
			for i := 1; i < n; i++ {
				var o Expr
				if g.R.Intn(3) == 0 {
					o = g.leaf(KInt, d)
				} else {
					o = g.leaf(KStr, d)
				}
				e = Bin("..", o, e)
			}
			return e
		}
	case KBool:
		switch g.R.Intn(9) {
		case 0, 1:
			op := []string{"<", "<=", ">", ">=", "==", "~="}[g.R.Intn(6)]
			g.cover("op:%s", op)
			return Bin(op, g.expr(KInt, d), g.expr(KInt, d))
		case 2:
			op := []string{"<", "<=", ">", ">=", "==", "~="}[g.R.Intn(6)]
			g.cover("op:%s:str", op)
			return Bin(op, g.expr(KStr, d), g.expr(KStr, d))
		case 3:
			op := []string{"==", "~="}[g.R.Intn(2)]
			return Bin(op, g.expr(KAny, d), g.expr(KAny, d))
		case 4:
			g.cover("op:not")
			return Un("not", g.expr(KAny, d))
		case 5:
			g.cover("op:and")
			return Bin("and", g.expr(KBool, d), g.expr(KBool, d))
		case 6:
			g.cover("op:or")
			return Bin("or", g.expr(KBool, d), g.expr(KBool, d))
		case 7:
			op := []string{"<", "<=", ">", ">="}[g.R.Intn(4)]
			return Bin(op, g.expr(KNum, d), g.expr(KNum, d))
		}
		return Bin("==", CallN("type", g.expr(KAny, d)), Str([]string{"number", "string", "nil", "table"}[g.R.Intn(4)]))
	case KAny:
		switch g.R.Intn(7) {
		case 0:
			g.cover("op:and:any")
			return Bin("and", g.expr(KAny, d), g.expr(KAny, d))
		case 1:
			g.cover("op:or:any")
			return Bin("or", g.expr(KAny, d), g.expr(KAny, d))
		case 2:
			if v := g.pickVar(KTab, false, c.calls); v != nil {
				return Idx(v.Ref(), g.expr([]Kind{KStr, KInt}[g.R.Intn(2)], d))
			}
		case 3:
			if c.calls && g.F.Calls {
				if e := g.callExpr(KAny, d); e != nil {
					return e
				}
			}
		case 4:
			return &EParen{X: g.expr(KAny, d)}
		}
		return g.expr([]Kind{KInt, KStr, KBool, KNum, KNil}[g.R.Intn(5)], d)
	}
	return g.leaf(k, c)
}

// callExpr returns a call to a visible pure function whose first result has kind k.
func (g *Gen) callExpr(k Kind, c ectx) Expr {
	vs := g.visible(func(v *Var) bool {
		return v.Kind == KFun && v.Pure && (k == KAny || v.RetKind == k) && (!c.calls || !v.Volatile)
	})
	if len(vs) == 0 {
		return nil
	}
	f := vs[g.R.Intn(len(vs))]
	g.NCalls++
	return Call(f.Ref(), g.argList(f.NParams+g.R.Intn(2)-g.R.Intn(2), ectx{depth: c.depth + 1, calls: c.calls})...)
}

func (g *Gen) argList(n int, c ectx) []Expr {
	if n < 0 {
		n = 0
	}
	var out []Expr
	for i := 0; i < n; i++ {
		out = append(out, g.expr([]Kind{KInt, KInt, KStr, KBool, KNil}[g.R.Intn(5)], c))
	}
	return out
}

// funcLit builds a pure helper function literal: emits its arguments' count and returns a value of kind ret.
func (g *Gen) funcLit(nparams int, vararg bool, ret Kind) Expr {
	params := make([]string, nparams)
	saveFn, saveSc, saveDepth := g.fn, g.sc, g.depth
	g.fn = &fnCtx{level: saveFn.level + 1, vararg: vararg, parent: saveFn, retKind: ret}
	g.sc = &scope{parent: saveSc, fn: g.fn}
	for i := range params {
		params[i] = g.fresh("p")
		g.declare(&Var{Name: params[i], Kind: KAny})
	}
	body := &Block{}
	if g.R.Intn(2) == 0 {
		args := []Expr{Str(g.fresh("F"))}
		for _, p := range params {
			args = append(args, N(p))
		}
		if vararg {
			args = append(args, &EVararg{})
		}
		body.Stmts = append(body.Stmts, CallSN("emit", args...))
	}
	if nparams > 0 && g.R.Intn(5) == 0 {
		// the last parameter receives the (parenthesised) result of a call that reads it
		lp := params[nparams-1]
		body.Stmts = append(body.Stmts, Assign1(N(lp), &EParen{X: CallN("type", N(lp))}), CallSN("emit", Str("lastparam"), N(lp)))
		g.cover("call:result-into-last-parameter")
	}
	n := g.R.Intn(3)
	for i := 0; i < n && g.stmts < g.F.MaxStmts; i++ {
		body.Stmts = append(body.Stmts, g.simpleStmt()...)
	}
	if ret != KNil {
		body.Stmts = append(body.Stmts, Return(g.expr(ret, ectx{depth: 1})))
	}
	g.fn, g.sc, g.depth = saveFn, saveSc, saveDepth
	g.NClosures++
	return &EFunc{F: &Func{Params: params, Vararg: vararg, Body: body}}
}
