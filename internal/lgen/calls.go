package lgen

import (
	"fmt"

	. "verif/internal/last"
)

// fnSig describes a generated callee.
type fnSig struct {
	ref     Expr // how to name it at a call site
	method  bool // call as obj:m(...)
	obj     Expr
	mname   string
	nparams int
	vararg  bool
}

func (g *Gen) simpleVal() Expr {
	switch g.R.Intn(7) {
	case 0:
		return &ENil{}
	case 1:
		return &ETrue{}
	case 2:
		return &EFalse{}
	case 3:
		return Str(g.strPool[g.R.Intn(len(g.strPool))])
	}
	return Num(float64(g.R.Intn(90)))
}

// valList builds an expression list of n single values optionally ending in an open (multi-value) expression.
func (g *Gen) valList(n int, sigs []fnSig, inVararg bool, depth int) []Expr {
	var out []Expr
	for i := 0; i < n; i++ {
		out = append(out, g.simpleVal())
	}
	switch g.R.Intn(8) {
	case 0:
		if inVararg {
			out = append(out, &EVararg{})
			g.cover("tail:vararg")
		}
	case 1, 2:
		if depth < 3 && len(sigs) > 0 {
			out = append(out, g.callOf(sigs[g.R.Intn(len(sigs))], sigs, inVararg, depth+1))
			g.cover("tail:call")
		}
	case 3:
		if depth < 3 && len(sigs) > 0 {
			out = append(out, &EParen{X: g.callOf(sigs[g.R.Intn(len(sigs))], sigs, inVararg, depth+1)})
			g.cover("tail:parencall")
		}
	case 4:
		// unpack of a literal table with range
		t := &ETable{}
		m := g.R.Intn(4)
		for i := 0; i < m; i++ {
			t.Items = append(t.Items, TItem{Kind: TPos, Val: Num(float64(100 + i))})
		}
		switch g.R.Intn(3) {
		case 0:
			out = append(out, CallN("unpack", t))
		case 1:
			out = append(out, CallN("unpack", t, Num(float64(1+g.R.Intn(3)))))
		default:
			i := g.R.Intn(4)
			out = append(out, CallN("unpack", t, Num(float64(i)), Num(float64(i-1+g.R.Intn(5)))))
		}
		g.cover("tail:unpack")
	case 5:
		if inVararg {
			out = append(out, CallN("select", Num(float64(1+g.R.Intn(3))), &EVararg{}))
			g.cover("tail:select")
		}
	case 6:
		// host callee returning its first / top-most n arguments
		hn := []string{"hostret", "hosttop"}[g.R.Intn(2)]
		args := []Expr{Num(float64(g.R.Intn(4)))}
		for i, m := 0, g.R.Intn(5); i < m; i++ {
			args = append(args, g.simpleVal())
		}
		if g.R.Intn(3) == 0 {
			// exactly one value, however many the host function leaves above its arguments
			out = append(out, &EParen{X: CallN(hn, args...)})
			g.cover("tail:paren-" + hn)
			break
		}
		out = append(out, CallN(hn, args...))
		g.cover("tail:" + hn)
	case 7:
		if g.R.Intn(2) == 0 {
			// a parenthesised call of a library function (its arguments stay below its results)
			var e Expr
			switch g.R.Intn(5) {
			case 0:
				e = CallN("tostring", g.simpleVal())
			case 1:
				e = CallN("select", Num(float64(1+g.R.Intn(2))), g.simpleVal(), g.simpleVal(), g.simpleVal())
			case 2:
				e = CallN("unpack", &ETable{Items: []TItem{{Kind: TPos, Val: Num(7)}, {Kind: TPos, Val: Num(8)}, {Kind: TPos, Val: Num(9)}}})
			case 3:
				e = &EMethod{Obj: Str("abca"), Name: "byte", Args: []Expr{Num(float64(1 + g.R.Intn(2))), Num(float64(2 + g.R.Intn(3)))}}
			default:
				e = CallN("rawget", &ETable{Items: []TItem{{Kind: TPos, Val: g.simpleVal()}}}, Num(1))
			}
			out = append(out, &EParen{X: e})
			g.cover("tail:paren-library-call")
		}
	}
	return out
}

func (g *Gen) callOf(s fnSig, sigs []fnSig, inVararg bool, depth int) Expr {
	n := s.nparams + g.R.Intn(3) - 1
	if n < 0 {
		n = 0
	}
	if g.R.Intn(5) == 0 {
		n = g.R.Intn(7)
	}
	args := g.valList(n, sigs, inVararg, depth)
	g.NCalls++
	g.cover("call:nargs=%d,nparams=%d,vararg=%v", min(len(args), 6), s.nparams, s.vararg)
	if s.method {
		return &EMethod{Obj: s.obj, Name: s.mname, Args: args}
	}
	if g.R.Intn(8) == 0 {
		// through pcall: a pass-through that prepends true
		return CallN("pcall", append([]Expr{s.ref}, args...)...)
	}
	return Call(s.ref, args...)
}

func min(a, b int) int {
	if a < b {
		return a
	}
	return b
}

// CallProgram generates a program about argument/result adjustment (C02).
func (g *Gen) CallProgram() *Chunk {
	b := &Block{}
	if g.R.Intn(5) == 0 {
		// more than 256 (sometimes more than 512) constants in this function: names then travel through registers
		t := &ETable{}
		for i, n := 0, []int{270, 530}[g.R.Intn(2)]; i < n; i++ {
			t.Items = append(t.Items, TItem{Kind: TPos, Val: Num(float64(5000 + i))})
		}
		b.Stmts = append(b.Stmts, Local1(g.fresh("big"), t))
		// method call whose receiver is an expression, not a local
		b.Stmts = append(b.Stmts, CallSN("emit", Str("selfexpr"), &EMethod{Obj: Str("len"), Name: "upper"}, &EMethod{Obj: &EParen{X: Str("abc")}, Name: "rep", Args: []Expr{Num(2)}}))
		g.cover("call:many-constants")
	}
	var sigs []fnSig
	nf := 2 + g.R.Intn(4)
	for i := 0; i < nf; i++ {
		np := g.R.Intn(5)
		va := g.R.Intn(2) == 0
		name := g.fresh("f")
		params := make([]string, np)
		for j := range params {
			params[j] = g.fresh("p")
		}
		body := &Block{}
		// observe what arrived
		ev := []Expr{Str(name)}
		for _, p := range params {
			ev = append(ev, N(p))
		}
		usesDots := false
		var argMut []Stmt
		if va {
			switch g.R.Intn(6) {
			case 4, 5:
				// ... (parenthesised or not, alone or last in a list) assigned to
				// locals that already exist, with other locals living above them
				usesDots = true
				ls := []string{g.fresh("l"), g.fresh("l"), g.fresh("l"), g.fresh("l")}
				body.Stmts = append(body.Stmts, Local(ls, Str("L1"), Str("L2"), Str("L3"), Str("L4")))
				var dots Expr = &EVararg{}
				if g.R.Intn(3) != 0 {
					dots = &EParen{X: &EVararg{}}
				}
				ti := g.R.Intn(3)
				switch g.R.Intn(4) {
				case 0:
					body.Stmts = append(body.Stmts, Assign1(N(ls[ti]), dots))
				case 1:
					body.Stmts = append(body.Stmts, &SAssign{LHS: []Expr{N(ls[ti]), N(ls[ti+1])}, RHS: []Expr{Num(7), dots}})
				case 2:
					body.Stmts = append(body.Stmts, &SAssign{LHS: []Expr{N(ls[ti+1]), N(ls[ti])}, RHS: []Expr{dots}})
				default:
					body.Stmts = append(body.Stmts, Assign1(N(ls[ti]), CallN("select", Num(1), dots)), Assign1(N(ls[ti]), Bin("or", dots, Str("none"))))
				}
				ev = append(ev, N(ls[0]), N(ls[1]), N(ls[2]), N(ls[3]), CallN("type", N("arg")))
				g.cover("callee:dots-into-existing-locals")
			case 0:
				ev = append(ev, CallN("select", Str("#"), &EVararg{}), &EVararg{})
				usesDots = true
				g.cover("callee:dots")
			case 1:
				// compatibility arg table (only exists when `...` is not mentioned)
				ev = append(ev, Dot(N("arg"), "n"), Idx(N("arg"), Num(1)), Idx(N("arg"), Num(2)), Idx(N("arg"), Num(3)), Dot(N("arg"), "left"))
				// every call gets a table of its own: what one call leaves in it is gone in the next
				argMut = []Stmt{
					Assign1(Dot(N("arg"), "left"), Str("by:"+name)),
					Assign1(Idx(N("arg"), Bin("+", Dot(N("arg"), "n"), Num(1))), Str("appended")),
					Assign1(Dot(N("arg"), "n"), Bin("+", Dot(N("arg"), "n"), Num(1))),
				}
				g.cover("callee:argtable")
			case 2:
				usesDots = true
				lt := g.fresh("t")
				body.Stmts = append(body.Stmts, Local1(lt, &ETable{Items: []TItem{{Kind: TPos, Val: &EVararg{}}}}))
				ev = append(ev, Idx(N(lt), Num(1)), Idx(N(lt), Num(2)), Idx(N(lt), Num(3)))
				g.cover("callee:dots-in-table")
			default:
				usesDots = true
				a, bb := g.fresh("a"), g.fresh("b")
				body.Stmts = append(body.Stmts, &SLocal{Names: []string{a, bb}, Exprs: []Expr{&EVararg{}}})
				ev = append(ev, N(a), N(bb))
				g.cover("callee:dots-in-local")
			}
		}
		body.Stmts = append(body.Stmts, CallSN("emit", ev...))
		body.Stmts = append(body.Stmts, argMut...)
		// results
		nr := g.R.Intn(4)
		rets := g.valList(nr, sigs, va && usesDots, 1)
		if len(params) > 0 && g.R.Intn(2) == 0 {
			rets = append([]Expr{N(params[g.R.Intn(len(params))])}, rets...)
		}
		if g.R.Intn(6) != 0 {
			body.Stmts = append(body.Stmts, Return(rets...))
		}
		fl := &Func{Params: params, Vararg: va, Body: body}
		sig := fnSig{nparams: np, vararg: va}
		switch g.R.Intn(5) {
		case 0:
			b.Stmts = append(b.Stmts, &SLocalFunc{Name: name, F: fl})
			sig.ref = N(name)
		case 1:
			b.Stmts = append(b.Stmts, &SFunc{Target: N(name), F: fl})
			sig.ref = N(name)
		case 2:
			// method on an object: function obj:m(...) — implicit self
			obj := g.fresh("o")
			fl.Params = append([]string{"self"}, fl.Params...)
			b.Stmts = append(b.Stmts, Local1(obj, &ETable{}), &SFunc{Target: N(obj), Method: name, F: fl})
			sig.method, sig.obj, sig.mname = true, N(obj), name
			g.cover("callee:method")
		case 3:
			// callable table
			obj := g.fresh("c")
			fl.Params = append([]string{g.fresh("self")}, fl.Params...)
			b.Stmts = append(b.Stmts, Local1(obj, CallN("setmetatable", &ETable{}, &ETable{Items: []TItem{{Kind: TName, Name: "__call", Val: &EFunc{F: fl}}}})))
			sig.ref = N(obj)
			g.cover("callee:__call")
		default:
			b.Stmts = append(b.Stmts, Local1(name, &EFunc{F: fl}))
			sig.ref = N(name)
		}
		sigs = append(sigs, sig)
	}
	// call sites in every result context
	ns := 6 + g.R.Intn(14)
	for i := 0; i < ns; i++ {
		s := sigs[g.R.Intn(len(sigs))]
		call := g.callOf(s, sigs, true, 0)
		ctx := g.R.Intn(11)
		g.cover("context:%d", ctx)
		switch ctx {
		case 9:
			// last position of a constructor behind a whole number of flush batches (50 positional items
			// each) and one item off either way: all results continue the list
			t := g.fresh("t")
			np := 50*(1+g.R.Intn(2)) + []int{0, 0, 0, -1, 1}[g.R.Intn(5)]
			tab := &ETable{}
			for j := 1; j <= np; j++ {
				tab.Items = append(tab.Items, TItem{Kind: TPos, Val: Num(float64(j))})
			}
			tab.Items = append(tab.Items, TItem{Kind: TPos, Val: call})
			b.Stmts = append(b.Stmts, Local1(t, tab),
				CallSN("emit", Str("cons-batch"), Idx(N(t), Num(1)), Idx(N(t), Num(2)), Idx(N(t), Num(float64(np))), Idx(N(t), Num(float64(np+1))), Idx(N(t), Num(float64(np+2))), Idx(N(t), Num(float64(np+3)))))
			continue
		case 10:
			// xpcall is a host callee with two parameters: surplus arguments (also an open list of them)
			// are dropped, the caller gets true and exactly the results of the protected function
			extra := []Expr{}
			for j, n := 0, 1+g.R.Intn(3); j < n; j++ {
				extra = append(extra, g.simpleVal())
			}
			if g.R.Intn(2) == 0 {
				extra = append(extra, g.callOf(sigs[g.R.Intn(len(sigs))], sigs, true, 0))
			}
			args := append([]Expr{Fn(nil, true, Blk(Return(call))), Fn([]string{"m"}, false, Blk(Return(N("m"))))}, extra...)
			b.Stmts = append(b.Stmts, CallSN("emit", Str("xpcall-surplus"), CallN("xpcall", args...)),
				CallSN("emit", Str("xpcall-surplus-count"), CallN("select", Str("#"), CallN("xpcall", args...))))
			continue
		case 0:
			b.Stmts = append(b.Stmts, &SCall{Call: call})
		case 1:
			b.Stmts = append(b.Stmts, CallSN("emit", Str("open"), call))
		case 2:
			b.Stmts = append(b.Stmts, CallSN("emit", Str("mid"), call, Str("end")))
		case 3:
			b.Stmts = append(b.Stmts, CallSN("emit", Str("paren"), &EParen{X: call}))
		case 4:
			n := 1 + g.R.Intn(4)
			names := make([]string, n)
			args := []Expr{Str("adjust")}
			for j := range names {
				names[j] = g.fresh("r")
				args = append(args, N(names[j]))
			}
			b.Stmts = append(b.Stmts, &SLocal{Names: names, Exprs: []Expr{g.simpleVal(), call}}, CallSN("emit", args...))
		case 5:
			t := g.fresh("t")
			b.Stmts = append(b.Stmts, Local1(t, &ETable{Items: []TItem{{Kind: TPos, Val: Num(1)}, {Kind: TPos, Val: call}}}),
				CallSN("emit", Str("cons"), Idx(N(t), Num(1)), Idx(N(t), Num(2)), Idx(N(t), Num(3)), Idx(N(t), Num(4)), Idx(N(t), Num(5))))
		case 6:
			b.Stmts = append(b.Stmts, CallSN("emit", Str("count"), CallN("select", Str("#"), call)))
		case 7:
			// multiple assignment to existing globals
			a, bb := g.fresh("G"), g.fresh("G")
			b.Stmts = append(b.Stmts, &SAssign{LHS: []Expr{N(a), N(bb)}, RHS: []Expr{call}}, CallSN("emit", Str("assign"), N(a), N(bb)))
		default:
			// operand position
			b.Stmts = append(b.Stmts, CallSN("emit", Str("operand"), Bin("==", call, g.simpleVal())))
		}
	}
	// a vararg function with several named parameters entered from Go (pcall, a host
	// function calling back, a for-in iterator, a coroutine body, a metamethod) with
	// fewer arguments than names: the missing ones are nil, the given ones stay in place
	if g.R.Intn(3) == 0 {
		vf := g.fresh("vf")
		np := 2 + g.R.Intn(3)
		params := []string{}
		ev := []Expr{Str("vf")}
		for i := 0; i < np; i++ {
			params = append(params, fmt.Sprintf("q%d", i))
			ev = append(ev, N(params[i]))
		}
		ev = append(ev, CallN("select", Str("#"), &EVararg{}))
		given := []Expr{}
		for i, n := 0, 1+g.R.Intn(np-1); i < n; i++ {
			given = append(given, g.simpleVal())
		}
		b.Stmts = append(b.Stmts,
			&SLocalFunc{Name: vf, F: &Func{Params: params, Vararg: true, Body: Blk(CallSN("emit", ev...), Return(N(params[0]), &EVararg{}))}},
			CallSN("emit", Str("vf-pcall"), CallN("pcall", append([]Expr{N(vf)}, given...)...)),
			CallSN("emit", Str("vf-hostcall"), CallN("hostcall", append([]Expr{N(vf)}, given...)...)),
			CallSN("emit", Str("vf-coroutine"), Call(Call(Dot(N("coroutine"), "wrap"), N(vf)), given...)),
			CallSN("emit", Str("vf-direct"), Call(N(vf), given...)),
			&SGenFor{Names: []string{"fv"}, Exprs: []Expr{N(vf), given[0]}, Body: Blk(&SBreak{})},
			CallSN("emit", Str("vf-index"), Idx(CallN("setmetatable", &ETable{}, &ETable{Items: []TItem{{Kind: TName, Name: "__index", Val: N(vf)}}}), given[0])))
		g.cover("callee:vararg-with-names-entered-from-go")
	}
	// select with negative selectors, down to the one that names the first value
	if g.R.Intn(3) == 0 {
		vals := []Expr{}
		n := 1 + g.R.Intn(4)
		for i := 0; i < n; i++ {
			vals = append(vals, g.simpleVal())
		}
		k := 1 + g.R.Intn(n)
		b.Stmts = append(b.Stmts,
			CallSN("emit", Str("select-negative"), CallN("select", append([]Expr{Num(float64(-k))}, vals...)...)),
			CallSN("emit", Str("select-negative-all"), CallN("select", append([]Expr{Num(float64(-n))}, vals...)...)),
			CallSN("emit", Str("select-negative-beyond"), &EParen{X: CallN("pcall", append([]Expr{N("select"), Num(float64(-n - 1))}, vals...)...)}),
			CallSN("emit", Str("select-negative-dots"), Call(Fn(nil, true, Blk(Return(CallN("select", Un("-", CallN("select", Str("#"), &EVararg{})), &EVararg{})))), vals...)))
		g.cover("select:negative")
	}
	// the values of a resume are the results of the pending yield call and are adjusted
	// like any call's results: to one in parentheses, to the number of targets otherwise
	if g.R.Intn(3) == 0 {
		yield := func(args ...Expr) Expr { return Call(Dot(N("coroutine"), "yield"), args...) }
		wrap := func(body *Block) Expr { return Call(Dot(N("coroutine"), "wrap"), Fn(nil, false, body)) }
		many := []Expr{}
		for i, n := 0, g.R.Intn(5); i < n; i++ {
			many = append(many, g.simpleVal())
		}
		b.Stmts = append(b.Stmts,
			Local1("pco", wrap(Blk(Return(&EParen{X: yield()})))), &SCall{Call: Call(N("pco"))},
			CallSN("emit", Str("paren-yield"), CallN("select", Str("#"), Call(N("pco"), many...)), Num(float64(len(many)))),
			Local1("pco3", wrap(Blk(&SLocal{Names: []string{"a", "b"}, Exprs: []Expr{yield()}}, Return(N("a"), N("b"), &EParen{X: yield(N("a"))})))), &SCall{Call: Call(N("pco3"))},
			CallSN("emit", Str("paren-yield-mixed"), Call(N("pco3"), many...)),
			CallSN("emit", Str("paren-yield-mixed2"), Call(N("pco3"), many...)),
			Local1("pco4", wrap(Blk(Local1("t", &ETable{Items: []TItem{{Kind: TPos, Val: &EParen{X: yield()}}, {Kind: TPos, Val: yield(Num(0))}}}), Return(Idx(N("t"), Num(1)), Idx(N("t"), Num(2)), Idx(N("t"), Num(3)), CallN("hostret", Num(1), &EParen{X: yield(Num(1))}))))),
			&SCall{Call: Call(N("pco4"))},
			CallSN("emit", Str("paren-yield-constructor"), Call(N("pco4"), many...), Call(N("pco4"), many...), Call(N("pco4"), many...)))
		g.cover("yield:results-adjusted-like-a-call")
	}
	// tiny callees (no temporaries at all) reached through tail calls from fixed-arity and vararg callers
	{
		t1, t2, t3, t4 := g.fresh("tiny"), g.fresh("tiny"), g.fresh("tiny"), g.fresh("tiny")
		b.Stmts = append(b.Stmts,
			&SLocalFunc{Name: t1, F: &Func{Params: []string{"a", "b"}, Body: Blk(Return(N("b")))}},
			&SLocalFunc{Name: t2, F: &Func{Params: []string{"a", "b"}, Vararg: true, Body: Blk(Return(N("arg")))}},
			&SLocalFunc{Name: t3, F: &Func{Params: []string{"a", "b"}, Body: Blk(&SIf{Conds: []Expr{N("b")}, Blocks: []*Block{Blk(Return(N("a")))}})}},
			&SLocalFunc{Name: t4, F: &Func{Params: []string{"a", "b", "c"}, Body: Blk(&SIf{Conds: []Expr{Bin("<", N("a"), N("b"))}, Blocks: []*Block{Blk(Return(N("c")))}}, Return(N("a")))}},
		)
		for _, tn := range []string{t1, t2, t3, t4} {
			via, viav := g.fresh("via"), g.fresh("viav")
			b.Stmts = append(b.Stmts,
				&SLocalFunc{Name: via, F: &Func{Params: []string{"x", "y", "z"}, Body: Blk(Return(Call(N(tn), N("x"), N("y"), N("z"))))}},
				&SLocalFunc{Name: viav, F: &Func{Vararg: true, Body: Blk(Return(Call(N(tn), &EVararg{})))}})
			for k, m := 0, 1+g.R.Intn(3); k < m; k++ {
				args := []Expr{Num(float64(g.R.Intn(9))), Num(float64(g.R.Intn(9)))}
				if g.R.Intn(2) == 0 {
					args = append(args, g.simpleVal())
				}
				if g.R.Intn(3) == 0 {
					args = append(args, g.simpleVal(), g.simpleVal())
				}
				caller := []string{via, viav}[g.R.Intn(2)]
				if tn == t2 {
					r := g.fresh("r")
					b.Stmts = append(b.Stmts, Local1(r, Call(N(caller), args...)),
						CallSN("emit", Str("tiny-arg"), CallN("type", N(r)), Bin("and", N(r), Dot(N(r), "n")), Bin("and", N(r), Idx(N(r), Num(1)))))
				} else {
					b.Stmts = append(b.Stmts, CallSN("emit", Str("tiny"), Call(N(caller), args...)))
				}
			}
		}
		g.cover("callee:tiny-through-tailcall")
	}
	// proper tail calls: deep self and mutual recursion
	depth := []int{1000, 20000, 100000}[g.R.Intn(3)]
	lp := g.fresh("loop")
	switch g.R.Intn(7) {
	case 5:
		// the tail-calling function created closures over its own locals and parameters first
		b.Stmts = append(b.Stmts,
			&SLocalFunc{Name: lp, F: &Func{Params: []string{"n", "acc"}, Body: Blk(
				Local1("step", Num(2)),
				Local1("cb", Fn(nil, false, Blk(Return(Bin("+", N("acc"), N("step")))))),
				&SIf{Conds: []Expr{Bin("==", N("n"), Num(0))}, Blocks: []*Block{Blk(Return(N("acc")))}},
				&SDo{Body: Blk(Local1("inner", N("n")), Local1("cb2", Fn(nil, false, Blk(Return(N("inner"))))),
					&SIf{Conds: []Expr{Bin("==", Bin("%", N("n"), Num(3)), Num(0))}, Blocks: []*Block{Blk(Return(Call(N(lp), Bin("-", Call(N("cb2")), Num(1)), Call(N("cb")))))}})},
				Return(Call(N(lp), Bin("-", N("n"), Num(1)), Call(N("cb")))),
			)}},
			CallSN("emit", Str("tail-after-captures"), Call(N(lp), Num(float64(depth)), Num(0))))
		g.cover("tail:after-captured-locals")
	case 6:
		// continuation-passing: every step builds the continuation of the next
		b.Stmts = append(b.Stmts,
			&SLocalFunc{Name: lp, F: &Func{Params: []string{"n", "k"}, Body: Blk(
				&SIf{Conds: []Expr{Bin("==", N("n"), Num(0))}, Blocks: []*Block{Blk(Return(Call(N("k"), Num(0))))}},
				Return(Call(N(lp), Bin("-", N("n"), Num(1)), Fn([]string{"v"}, false, Blk(
					&SIf{Conds: []Expr{Bin("==", Bin("%", N("n"), Num(1000)), Num(0))}, Blocks: []*Block{Blk(Return(Call(N("k"), Bin("+", N("v"), Num(1)))))}},
					Return(Call(N("k"), N("v"))))))),
			)}},
			CallSN("emit", Str("tail-cps"), Call(N(lp), Num(float64(depth)), Fn([]string{"v"}, false, Blk(Return(N("v"), Str("done")))))))
		g.cover("tail:continuation-passing")
	case 0:
		b.Stmts = append(b.Stmts,
			&SLocalFunc{Name: lp, F: &Func{Params: []string{"n", "acc"}, Body: Blk(
				&SIf{Conds: []Expr{Bin("==", N("n"), Num(0))}, Blocks: []*Block{Blk(Return(N("acc")))}},
				Return(Call(N(lp), Bin("-", N("n"), Num(1)), Bin("+", N("acc"), Num(2)))),
			)}},
			CallSN("emit", Str("tail"), Call(N(lp), Num(float64(depth)), Num(0))))
	case 1:
		ev, od := g.fresh("even"), g.fresh("odd")
		b.Stmts = append(b.Stmts,
			&SLocal{Names: []string{ev, od}},
			Assign1(N(ev), Fn([]string{"n"}, true, Blk(
				&SIf{Conds: []Expr{Bin("==", N("n"), Num(0))}, Blocks: []*Block{Blk(Return(&ETrue{}, &EVararg{}))}},
				Return(Call(N(od), Bin("-", N("n"), Num(1)), &EVararg{}))))),
			Assign1(N(od), Fn([]string{"n"}, true, Blk(
				&SIf{Conds: []Expr{Bin("==", N("n"), Num(0))}, Blocks: []*Block{Blk(Return(&EFalse{}, &EVararg{}))}},
				Return(Call(N(ev), Bin("-", N("n"), Num(1)), &EVararg{}))))),
			CallSN("emit", Str("mutual"), Call(N(ev), Num(float64(depth+g.R.Intn(2))), Str("x"), Num(7))))
	case 3:
		// a long chain whose calling frames are vararg
		b.Stmts = append(b.Stmts,
			&SLocalFunc{Name: lp, F: &Func{Params: []string{"n"}, Vararg: true, Body: Blk(
				&SIf{Conds: []Expr{Bin("==", N("n"), Num(0))}, Blocks: []*Block{Blk(Return(CallN("select", Str("#"), &EVararg{}), &EVararg{}))}},
				Return(Call(N(lp), Bin("-", N("n"), Num(1)), &EVararg{})),
			)}},
			CallSN("emit", Str("tailvararg"), Call(N(lp), Num(float64(depth)), Num(1), Str("a"), &ENil{}, Num(4))))
	default:
		// tail call through a host function and through pcall at the end of the chain
		b.Stmts = append(b.Stmts,
			&SLocalFunc{Name: lp, F: &Func{Params: []string{"n"}, Vararg: true, Body: Blk(
				&SIf{Conds: []Expr{Bin("==", N("n"), Num(0))}, Blocks: []*Block{Blk(Return(CallN("hostret", Num(2), &EVararg{})))}},
				Return(Call(N(lp), Bin("-", N("n"), Num(1)), &EVararg{})),
			)}},
			CallSN("emit", Str("tailhost"), Call(N(lp), Num(float64(depth/10)), Num(1), Num(2), Num(3))))
	}
	g.cover(fmt.Sprintf("taildepth:%d", depth))
	return &Chunk{Body: b}
}
