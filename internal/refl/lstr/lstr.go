// Package lstr holds the reference models of the Lua 5.1 string library
// functions that property C15 is checked against: the position arithmetic of
// string.sub / string.byte / plain string.find written after lstrlib.c 5.1.4
// (posrelat + the per-function clamping), the byte-wise functions with the
// C-locale case map, and (printf.go) a small C99 printf interpreter for
// string.format.
//
// Everything here works on byte slices and int64 positions, is deliberately
// naive, and never calls into gopher-lua.
package lstr

// Posrelat is lstrlib.c's posrelat: a negative position counts from the end;
// a position that is still negative afterwards becomes 0.
func Posrelat(pos, n int64) int64 {
	if pos < 0 {
		pos += n + 1
	}
	if pos >= 0 {
		return pos
	}
	return 0
}

// Sub models string.sub(s, i [, j]); a missing j is passed as -1 by the caller
// (luaL_optinteger(L, 3, -1)).
func Sub(s []byte, i, j int64) []byte {
	n := int64(len(s))
	start := Posrelat(i, n)
	end := Posrelat(j, n)
	if start < 1 {
		start = 1
	}
	if end > n {
		end = n
	}
	if start <= end {
		return append([]byte{}, s[start-1:end]...)
	}
	return []byte{}
}

// Byte models string.byte(s [, i [, j]]): i defaults to 1, j defaults to i
// (the value of i after posrelat, as in str_byte).
func Byte(s []byte, hasI bool, i int64, hasJ bool, j int64) []int {
	n := int64(len(s))
	if !hasI {
		i = 1
	}
	posi := Posrelat(i, n)
	if !hasJ {
		j = posi
	}
	pose := Posrelat(j, n)
	if posi <= 0 {
		posi = 1
	}
	if pose > n {
		pose = n
	}
	out := []int{}
	if posi > pose {
		return out
	}
	for k := posi; k <= pose; k++ {
		out = append(out, int(s[k-1]))
	}
	return out
}

// FindPlain models string.find(s, p [, init], true) (and find without the
// plain flag when p holds no pattern special, which str_find_aux also routes
// to lmemfind). ok=false means "nil".
func FindPlain(s, p []byte, hasInit bool, init int64) (start, end int64, ok bool) {
	l1 := int64(len(s))
	l2 := int64(len(p))
	if !hasInit {
		init = 1
	}
	in := Posrelat(init, l1) - 1
	if in < 0 {
		in = 0
	} else if in > l1 {
		in = l1
	}
	// lmemfind(s+in, l1-in, p, l2)
	if l2 == 0 {
		return in + 1, in, true
	}
	for k := in; k+l2 <= l1; k++ {
		match := true
		for q := int64(0); q < l2; q++ {
			if s[k+q] != p[q] {
				match = false
				break
			}
		}
		if match {
			return k + 1, k + l2, true
		}
	}
	return 0, 0, false
}

// Upper / Lower: toupper/tolower of the "C" locale applied to every byte.
func Upper(s []byte) []byte {
	out := make([]byte, len(s))
	for i, b := range s {
		if b >= 'a' && b <= 'z' {
			b = b - 'a' + 'A'
		}
		out[i] = b
	}
	return out
}

func Lower(s []byte) []byte {
	out := make([]byte, len(s))
	for i, b := range s {
		if b >= 'A' && b <= 'Z' {
			b = b - 'A' + 'a'
		}
		out[i] = b
	}
	return out
}

func Reverse(s []byte) []byte {
	out := make([]byte, 0, len(s))
	for i := len(s) - 1; i >= 0; i-- {
		out = append(out, s[i])
	}
	return out
}

// Rep: n <= 0 gives the empty string.
func Rep(s []byte, n int64) []byte {
	out := []byte{}
	for ; n > 0; n-- {
		out = append(out, s...)
	}
	return out
}

// HasSpecial reports whether p contains one of lstrlib's SPECIALS
// ("^$*+?.([%-"); strpbrk stops at the first NUL of p, as in C.
func HasSpecial(p []byte) bool {
	for _, b := range p {
		if b == 0 {
			return false
		}
		switch b {
		case '^', '$', '*', '+', '?', '.', '(', '[', '%', '-':
			return true
		}
	}
	return false
}
