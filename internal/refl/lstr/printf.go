package lstr

import (
	"math"
	"strconv"
	"strings"
)

// Spec is one conversion specification of a string.format format string as
// lstrlib.c 5.1.4 accepts it: flags out of "-+ #0" (at most 5 characters),
// a width of at most 2 digits, a precision of at most 2 digits.
type Spec struct {
	Flags string `json:"f,omitempty"` // flag characters as written (order and repeats kept)
	Width int    `json:"w"`           // -1 = none
	Prec  int    `json:"p"`           // -1 = none; -2 = "." without digits (precision 0)
	Conv  string `json:"c"`           // one conversion character
}

// Text is the directive as it appears in the format string.
func (s Spec) Text() string {
	var sb strings.Builder
	sb.WriteByte('%')
	sb.WriteString(s.Flags)
	if s.Width >= 0 {
		sb.WriteString(strconv.Itoa(s.Width))
	}
	if s.Prec >= 0 {
		sb.WriteByte('.')
		sb.WriteString(strconv.Itoa(s.Prec))
	} else if s.Prec == -2 {
		sb.WriteByte('.')
	}
	sb.WriteString(s.Conv)
	return sb.String()
}

// FArg is one argument of string.format: a Lua string or a Lua number.
type FArg struct {
	IsStr bool
	S     []byte
	N     float64
}

// Out is what the model says about one directive applied to one argument.
type Out struct {
	Alts [][]byte // acceptable renderings (any one)
	Err  bool     // the call must raise a Lua error (argument not convertible)
	Open string   // non-empty: C / the manual leave the result open; only the canaries apply
	Info bool     // conversion outside the property statement (%g %G %u): compared, never a violation
}

type flagSet struct{ minus, plus, space, sharp, zero bool }

func parseFlags(s string) (f flagSet) {
	for i := 0; i < len(s); i++ {
		switch s[i] {
		case '-':
			f.minus = true
		case '+':
			f.plus = true
		case ' ':
			f.space = true
		case '#':
			f.sharp = true
		case '0':
			f.zero = true
		}
	}
	return
}

func rep(b byte, n int) string {
	if n <= 0 {
		return ""
	}
	return strings.Repeat(string([]byte{b}), n)
}

// pad places prefix+body in a field: left-justified with '-', zero-filled
// between prefix and body when the 0 flag applies, space-filled on the left
// otherwise.
func pad(f flagSet, width int, prefix, body string, zeroApplies bool) string {
	n := len(prefix) + len(body)
	if width <= n {
		return prefix + body
	}
	fill := width - n
	switch {
	case f.minus:
		return prefix + body + rep(' ', fill)
	case f.zero && zeroApplies:
		return prefix + rep('0', fill) + body
	}
	return rep(' ', fill) + prefix + body
}

func upperASCII(s string) string { return string(Upper([]byte(s))) }

// fmtInt: C99 7.19.6.1 for d i (signed) and o x X (unsigned).
func fmtInt(sp Spec, neg bool, mag uint64, conv byte) string {
	f := parseFlags(sp.Flags)
	prec := sp.Prec
	if prec == -2 {
		prec = 0
	}
	base := 10
	switch conv {
	case 'o':
		base = 8
	case 'x', 'X':
		base = 16
	}
	digits := strconv.FormatUint(mag, base)
	if conv == 'X' {
		digits = upperASCII(digits)
	}
	if prec >= 0 {
		if prec == 0 && mag == 0 {
			digits = ""
		}
		if len(digits) < prec {
			digits = rep('0', prec-len(digits)) + digits
		}
	}
	prefix := ""
	if conv == 'd' || conv == 'i' {
		switch {
		case neg:
			prefix = "-"
		case f.plus:
			prefix = "+"
		case f.space:
			prefix = " "
		}
	}
	if f.sharp {
		switch conv {
		case 'o':
			if digits == "" || digits[0] != '0' {
				digits = "0" + digits
			}
		case 'x':
			if mag != 0 {
				prefix += "0x"
			}
		case 'X':
			if mag != 0 {
				prefix += "0X"
			}
		}
	}
	return pad(f, sp.Width, prefix, digits, prec < 0)
}

func stripFracZeros(m string) string {
	if !strings.Contains(m, ".") {
		return m
	}
	m = strings.TrimRight(m, "0")
	return strings.TrimSuffix(m, ".")
}

// fmtFloatBody renders |x| (finite) for e E f g G without sign and padding.
func fmtFloatBody(ax float64, conv byte, prec int, sharp bool) string {
	if prec == -2 {
		prec = 0
	}
	if prec < 0 {
		prec = 6
	}
	var s string
	switch conv {
	case 'e', 'E':
		s = strconv.FormatFloat(ax, 'e', prec, 64)
		if sharp && prec == 0 {
			i := strings.IndexByte(s, 'e')
			s = s[:i] + "." + s[i:]
		}
	case 'f':
		s = strconv.FormatFloat(ax, 'f', prec, 64)
		if sharp && prec == 0 {
			s += "."
		}
	case 'g', 'G':
		P := prec
		if P == 0 {
			P = 1
		}
		e := strconv.FormatFloat(ax, 'e', P-1, 64)
		i := strings.IndexByte(e, 'e')
		X, _ := strconv.Atoi(e[i+1:])
		if X >= -4 && X < P {
			s = strconv.FormatFloat(ax, 'f', P-1-X, 64)
			if !sharp {
				s = stripFracZeros(s)
			} else if !strings.Contains(s, ".") {
				s += "."
			}
		} else {
			m, ex := e[:i], e[i:]
			if !sharp {
				m = stripFracZeros(m)
			} else if !strings.Contains(m, ".") {
				m += "."
			}
			s = m + ex
		}
	}
	if conv == 'E' || conv == 'G' {
		s = upperASCII(s)
	}
	return s
}

func fmtFloat(sp Spec, x float64, conv byte) []string {
	f := parseFlags(sp.Flags)
	sign := ""
	switch {
	case math.Signbit(x):
		sign = "-"
	case f.plus:
		sign = "+"
	case f.space:
		sign = " "
	}
	up := conv == 'E' || conv == 'G'
	if math.IsInf(x, 0) {
		// "[-]inf or [-]infinity -- which style is implementation-defined"; no zero padding
		var out []string
		for _, b := range []string{"inf", "infinity"} {
			if up {
				b = upperASCII(b)
			}
			out = append(out, pad(f, sp.Width, sign, b, false))
		}
		return out
	}
	if math.IsNaN(x) {
		// "[-]nan or [-]nan(n-char-sequence)": whether a sign is shown is not pinned down either
		b := "nan"
		if up {
			b = "NAN"
		}
		signs := map[string]bool{"": true, "-": true, sign: true}
		if f.plus {
			signs["+"] = true
		} else if f.space {
			signs[" "] = true
		}
		var out []string
		for s := range signs {
			out = append(out, pad(f, sp.Width, s, b, false))
		}
		return out
	}
	body := fmtFloatBody(math.Abs(x), conv, sp.Prec, f.sharp)
	return []string{pad(f, sp.Width, sign, body, true)}
}

const wsC = " \t\n\v\f\r"

// Str2Number models the string->number coercion of lua_tonumber (luaO_str2d:
// strtod, then strtoul base 16 for "0x", trailing white space allowed) for
// the plain decimal and hexadecimal-integer forms. status: 1 = number,
// 0 = not a number (the call must fail), -1 = a form whose acceptance depends
// on the C library's strtod (inf, nan, hex floats...): left open.
func Str2Number(b []byte) (v float64, status int) {
	s := strings.Trim(string(b), wsC)
	if strings.IndexByte(string(b), 0) >= 0 {
		// luaO_str2d works on the C string: what follows a NUL is not looked at
		return 0, -1
	}
	t := s
	neg := false
	if len(t) > 0 && (t[0] == '+' || t[0] == '-') {
		neg = t[0] == '-'
		t = t[1:]
	}
	if len(t) == 0 {
		return 0, 0
	}
	low := strings.ToLower(t)
	if strings.HasPrefix(low, "inf") || strings.HasPrefix(low, "nan") {
		return 0, -1
	}
	if strings.HasPrefix(low, "0x") {
		h := low[2:]
		if h == "" {
			return 0, -1
		}
		for i := 0; i < len(h); i++ {
			c := h[i]
			if !(c >= '0' && c <= '9' || c >= 'a' && c <= 'f') {
				if c == '.' || c == 'p' {
					return 0, -1
				}
				return 0, 0
			}
		}
		u, err := strconv.ParseUint(h, 16, 64)
		if err != nil {
			return 0, -1
		}
		v = float64(u)
		if neg {
			v = -v
		}
		return v, 1
	}
	// decimal: digits [. digits] | . digits, then optional exponent
	i, nd := 0, 0
	for i < len(t) && t[i] >= '0' && t[i] <= '9' {
		i++
		nd++
	}
	if i < len(t) && t[i] == '.' {
		i++
		for i < len(t) && t[i] >= '0' && t[i] <= '9' {
			i++
			nd++
		}
	}
	if nd == 0 {
		return 0, 0
	}
	if i < len(t) && (t[i] == 'e' || t[i] == 'E') {
		j := i + 1
		if j < len(t) && (t[j] == '+' || t[j] == '-') {
			j++
		}
		ne := 0
		for j < len(t) && t[j] >= '0' && t[j] <= '9' {
			j++
			ne++
		}
		if ne == 0 {
			return 0, 0
		}
		i = j
	}
	if i != len(t) {
		return 0, 0
	}
	fv, err := strconv.ParseFloat(t, 64)
	if err != nil && !math.IsInf(fv, 0) {
		return 0, -1
	}
	if neg {
		fv = -fv
	}
	return fv, 1
}

// Num2Str models tostring(number) ("%.14g") only where every sane rendering
// agrees: integers below 1e14 (not -0) and quarter-integers below 1e6.
// (Number->text conversion in general is property C16's subject.)
func Num2Str(x float64) (string, bool) {
	if math.IsNaN(x) || math.IsInf(x, 0) || (x == 0 && math.Signbit(x)) {
		return "", false
	}
	if x == math.Trunc(x) && math.Abs(x) < 1e14 {
		return strconv.FormatInt(int64(x), 10), true
	}
	if 4*x == math.Trunc(4*x) && math.Abs(x) < 1e6 {
		return strconv.FormatFloat(x, 'f', -1, 64), true
	}
	return "", false
}

func addNulCut(alts [][]byte) [][]byte {
	// lstrlib 5.1 appends strlen(buff) bytes of the sprintf output: an output
	// containing a NUL is cut there. Both the full C output and the cut one are accepted.
	out := alts
	for _, a := range alts {
		if i := strings.IndexByte(string(a), 0); i >= 0 {
			out = append(out, append([]byte{}, a[:i]...))
		}
	}
	return out
}

// Render is the model of one directive applied to one argument.
func Render(sp Spec, a FArg) Out {
	if len(sp.Conv) != 1 {
		return Out{Open: "bad-spec"}
	}
	conv := sp.Conv[0]
	f := parseFlags(sp.Flags)
	info := conv == 'g' || conv == 'G' || conv == 'u'
	num := func() (float64, *Out) {
		if !a.IsStr {
			return a.N, nil
		}
		v, st := Str2Number(a.S)
		switch st {
		case 0:
			return 0, &Out{Err: true, Info: info}
		case -1:
			return 0, &Out{Open: "strtod-dependent-numeral"}
		}
		return v, nil
	}
	switch conv {
	case 'd', 'i':
		x, o := num()
		if o != nil {
			return *o
		}
		if f.sharp {
			return Out{Open: "flag-#-undefined-for-d"}
		}
		if math.IsNaN(x) || math.IsInf(x, 0) || math.Abs(math.Trunc(x)) >= 9.2233720368547e18 {
			return Out{Open: "number-outside-long-range"}
		}
		v := int64(math.Trunc(x))
		mag := uint64(v)
		if v < 0 {
			mag = uint64(-v)
		}
		return Out{Alts: [][]byte{[]byte(fmtInt(sp, v < 0, mag, conv))}}
	case 'o', 'u', 'x', 'X':
		x, o := num()
		if o != nil {
			return *o
		}
		if math.IsNaN(x) || math.IsInf(x, 0) || math.Trunc(x) < 0 || math.Trunc(x) >= 9.2233720368547e18 {
			return Out{Open: "number-outside-nonnegative-long-range"}
		}
		if conv == 'u' {
			if f.sharp {
				return Out{Open: "flag-#-undefined-for-u"}
			}
			return Out{Alts: [][]byte{[]byte(fmtInt(sp, false, uint64(math.Trunc(x)), 'u'))}, Info: true}
		}
		return Out{Alts: [][]byte{[]byte(fmtInt(sp, false, uint64(math.Trunc(x)), conv))}}
	case 'c':
		x, o := num()
		if o != nil {
			return *o
		}
		if f.sharp || f.zero {
			return Out{Open: "flag-#/0-undefined-for-c"}
		}
		if sp.Prec != -1 {
			return Out{Open: "precision-undefined-for-c"}
		}
		if math.IsNaN(x) || math.Abs(math.Trunc(x)) > 2147483647 {
			return Out{Open: "number-outside-int-range"}
		}
		b := byte(int64(math.Trunc(x)) & 0xff)
		s := pad(f, sp.Width, "", string([]byte{b}), false)
		return Out{Alts: addNulCut([][]byte{[]byte(s)})}
	case 'e', 'E', 'f', 'g', 'G':
		x, o := num()
		if o != nil {
			return *o
		}
		var alts [][]byte
		for _, s := range fmtFloat(sp, x, conv) {
			alts = append(alts, []byte(s))
		}
		return Out{Alts: alts, Info: info}
	case 's':
		var s []byte
		if a.IsStr {
			s = a.S
		} else {
			t, ok := Num2Str(a.N)
			if !ok {
				return Out{Open: "number-to-text-is-C16"}
			}
			s = []byte(t)
		}
		if f.sharp || f.zero {
			return Out{Open: "flag-#/0-undefined-for-s"}
		}
		prec := sp.Prec
		if prec == -2 {
			prec = 0
		}
		render := func(s []byte) []byte {
			if prec >= 0 && len(s) > prec {
				s = s[:prec]
			}
			return []byte(pad(f, sp.Width, "", string(s), false))
		}
		alts := [][]byte{render(s)}
		if i := strings.IndexByte(string(s), 0); i >= 0 {
			// "This function does not accept string values containing embedded
			// zeros": sprintf stops at the NUL unless lstrlib copies the string
			// verbatim (no precision and length >= 100). Both readings accepted.
			if !(sp.Prec == -1 && len(s) >= 100) {
				alts = append(alts, render(s[:i]))
			}
		}
		return Out{Alts: alts}
	}
	return Out{Open: "conversion-not-modelled"}
}
