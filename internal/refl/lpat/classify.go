package lpat

// Static well-formedness of a pattern per the Lua 5.1 manual (section 5.4.1).
//
//   WF         every '%' is followed by a character, every set is closed, every
//              ')' closes an open capture and none is left open, '%b' has two
//              arguments, '%n' (1-9) names a capture that exists and is closed at
//              that point.
//   Malformed  one of the above is violated (the 5.1 matcher raises an error
//              when, and only when, matching reaches the malformed spot).
//   Undefined  the manual gives the pattern no meaning or does not describe it:
//              an embedded NUL, more than 32 captures (LUA_MAXCAPTURES is a limit of
//              the C implementation), '%f' (in lstrlib 5.1 but not in the manual), a
//              set in which a range has a class or '%' as an end point or in
//              which a '-' directly follows a range or a class without being the
//              last character of the set ("the interaction between ranges and
//              classes is not defined").

type Class int

const (
	WF Class = iota
	Malformed
	Undefined
)

func (c Class) String() string {
	return [...]string{"wf", "malformed", "undefined"}[c]
}

// Info is the result of Classify.
type Info struct {
	Class Class
	Why   string // first reason for Malformed / Undefined

	NCaps        int
	Anchored     bool // leading '^'
	TailAnchor   bool // trailing '$' acting as anchor
	HasQuant     bool
	HasSet       bool
	HasCapture   bool
	HasPosCap    bool
	HasBackref   bool
	HasBalance   bool
	BackrefPos   bool // some %n names a position capture
	BackrefOpen  bool // some %n names a capture that is still open at that point
	RangeEndDash bool // some set contains a range whose upper end is '-'
}

type capInfo struct{ open, pos bool }

// Classify analyses pat statically. caretAnchors tells whether a leading '^'
// is the anchor (find, match, gsub) or an ordinary character (gmatch).
func Classify(pat []byte, caretAnchors bool) Info {
	var in Info
	malformed := func(why string) {
		if in.Class == WF {
			in.Class = Malformed
			in.Why = why
		}
	}
	undefined := func(why string) {
		if in.Class != Undefined {
			in.Class = Undefined
			in.Why = why
		}
	}
	// The walk below reads the pattern to its real end (eos), not to the first
	// NUL: a pattern with an embedded NUL is Undefined anyway, and the flags
	// (BackrefPos, RangeEndDash, ...) must describe what an implementation that
	// does not stop at a NUL gets to see.
	const eos = -1
	at := func(i int) int {
		if i < len(pat) {
			return int(pat[i])
		}
		return eos
	}
	for _, c := range pat {
		if c == 0 {
			undefined("embedded NUL")
			break
		}
	}
	var caps []capInfo
	p := 0
	if caretAnchors && at(0) == '^' {
		in.Anchored = true
		p = 1
	}
	// classEnd returns the index after the single-character class at p, or -1.
	classEnd := func(p int) int {
		c := at(p)
		p++
		switch c {
		case lEsc:
			if at(p) == eos {
				malformed("ends with '%'")
				return -1
			}
			return p + 1
		case '[':
			if at(p) == '^' {
				p++
			}
			for {
				if at(p) == eos {
					malformed("missing ']'")
					return -1
				}
				c := at(p)
				p++
				if c == lEsc && at(p) != eos {
					p++
				}
				if at(p) == ']' {
					break
				}
			}
			return p + 1
		}
		return p
	}
	analyseSet := func(p, ec int) {
		in.HasSet = true
		if at(p+1) == '^' {
			p++
		}
		prev := 0 // 0 none, 1 single, 2 class/escape, 3 range
		for p++; p < ec; p++ {
			switch {
			case at(p) == lEsc:
				p++
				prev = 2
			case at(p+1) == '-' && p+2 < ec:
				if at(p) == '-' && prev >= 2 {
					undefined("'-' directly after a range or class inside a set")
				}
				if at(p+2) == lEsc {
					undefined("range with '%' as its upper end")
				}
				if at(p+2) == '-' {
					in.RangeEndDash = true
				}
				p += 2
				prev = 3
			default:
				if at(p) == '-' && prev >= 2 && p+1 < ec {
					undefined("'-' directly after a range or class inside a set")
				}
				prev = 1
			}
		}
	}
	for at(p) != eos {
		switch c := at(p); {
		case c == '(':
			if len(caps) >= MaxCaptures {
				// LUA_MAXCAPTURES is a limit of the C implementation, not of the manual's pattern language
				undefined("more than 32 captures")
			}
			in.HasCapture = true
			if at(p+1) == ')' {
				in.HasPosCap = true
				caps = append(caps, capInfo{pos: true})
				p += 2
			} else {
				caps = append(caps, capInfo{open: true})
				p++
			}
			continue
		case c == ')':
			l := len(caps) - 1
			for ; l >= 0; l-- {
				if caps[l].open {
					break
				}
			}
			if l < 0 {
				malformed("')' without an open capture")
			} else {
				caps[l].open = false
			}
			p++
			continue
		case c == lEsc && at(p+1) == 'b':
			in.HasBalance = true
			if at(p+2) == eos || at(p+3) == eos {
				malformed("'%b' without two arguments")
				in.NCaps = len(caps)
				return in
			}
			p += 4
			continue
		case c == lEsc && at(p+1) == 'f':
			undefined("'%f' is not in the 5.1 manual")
			p += 2
			if at(p) != '[' {
				malformed("missing '[' after '%f'")
				continue // keep walking for the flags
			}
			ep := classEnd(p)
			if ep < 0 {
				in.NCaps = len(caps)
				return in
			}
			analyseSet(p, ep-1)
			p = ep
			continue
		case c == lEsc && isDigit(at(p+1)):
			in.HasBackref = true
			n := at(p+1) - '1'
			switch {
			case n < 0:
				malformed("'%0' in a pattern")
			case n >= len(caps):
				malformed("'%n' names a capture that does not exist yet")
			case caps[n].open:
				in.BackrefOpen = true
				malformed("'%n' names a capture that is still open")
			case caps[n].pos:
				in.BackrefPos = true
			}
			p += 2
			continue
		case c == '$' && at(p+1) == eos:
			in.TailAnchor = true
			p++
			continue
		}
		ep := classEnd(p)
		if ep < 0 {
			in.NCaps = len(caps)
			return in
		}
		if at(p) == '[' {
			analyseSet(p, ep-1)
		}
		switch at(ep) {
		case '?', '*', '+', '-':
			in.HasQuant = true
			ep++
		}
		p = ep
	}
	for _, c := range caps {
		if c.open {
			malformed("unfinished capture")
		}
	}
	in.NCaps = len(caps)
	return in
}
