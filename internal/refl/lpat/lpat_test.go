package lpat

import (
	"fmt"
	"strings"
	"testing"
)

func vals(vs []Value) string {
	var p []string
	for _, v := range vs {
		p = append(p, v.String())
	}
	return strings.Join(p, ",")
}

func find(s, p string, init int, find bool) string {
	r, err := Find([]byte(s), []byte(p), init, find, false, 0)
	if err != nil {
		return "error: " + err.Error()
	}
	if !r.Found {
		return "nil"
	}
	if find {
		return strings.TrimSuffix(fmt.Sprintf("%d,%d,%s", r.Start, r.End, vals(r.Vals)), ",")
	}
	return vals(r.Vals)
}

func gsubS(s, p, r string, n int, has bool) string {
	out, k, err := Gsub([]byte(s), []byte(p), &Replacer{Kind: 's', Str: []byte(r)}, n, has, 0)
	if err != nil {
		return "error: " + err.Error()
	}
	return fmt.Sprintf("%s|%d", out, k)
}

// Results below are documented Lua 5.1 behaviour (reference manual and PiL examples).
func TestKnown(t *testing.T) {
	cases := []struct{ got, want string }{
		{find("hello world", "wor", 1, true), "7,9"},
		{find("hello", "l+", 1, true), "3,4"},
		{find("  abc", "^%s*", 1, true), "1,2"},
		{find("THE (quick) fox", "%((%a+)%)", 1, true), `5,11,"quick"`},
		{find("abc", "b", -1, true), "nil"},
		{find("abc", "c", -1, true), "3,3"},
		{find("abc", "", 10, true), "4,3"},
		{find("abc", "", 2, true), "2,1"},
		{find("a\x00b", "%z", 1, true), "2,2"},
		{find("[[]]", "[]]", 1, true), "3,3"},
		{find("aXb", "%u", 1, true), "2,2"},
		{find("abc", "[a-c]+", 1, true), "1,3"},
		{find("abc", "[^a]", 1, true), "2,2"},
		{find("a+b", "+", 1, true), "2,2"},
		{find("a", "()%1", 1, true), "nil"},
		{find("a", "(a%1)", 1, true), "error: invalid capture index"},
		{find("a", "%", 1, true), "error: malformed pattern (ends with '%')"},
		{find("a", "[a", 1, true), "error: malformed pattern (missing ']')"},
		{find("b", "a[", 1, true), "nil"},
		{find("a", "(a", 1, true), "error: unfinished capture"},
		{find("a", "a)", 1, true), "nil"}, // no specials: plain search
		{find("a", "a)", 1, false), "error: invalid pattern capture"},
		{find("a", "%ba", 1, true), "error: unbalanced pattern"},
		{find("x-y", "[a--]", 1, true), "nil"},
		{find("x,y", "[+--]", 1, true), "2,2"},
		{find("a$b", "a$b", 1, true), "1,3"},
		{find("a^b", "a^b", 1, true), "1,3"},
		{find("ab", "(a)*", 1, true), "nil"},
		{find("a*", "(a)*", 1, true), `1,2,"a"`},
		{find("THE END", "%f[%a]%a+", 5, true), "5,7"},
		{find("key = value", "(%w+)%s*=%s*(%w+)", 1, false), `"key","value"`},
		{find("hello", "()ll()", 1, false), "3,5"},
		{find("abcabc", "(abc)%1", 1, false), `"abc"`},
		{find("abc;", "(%a-);", 1, false), `"abc"`},
		{find("  x", "^%s*$", 1, false), "nil"},
		{find("f(a(b)c)d", "%b()", 1, false), `"(a(b)c)"`},
		{find("aaa", "a-$", 1, false), `"aaa"`},
		{find("aaab", "a*?b", 1, false), "nil"},
		{find("aaa?b", "a*?b", 1, false), `"aaa?b"`},
		{gsubS("hello world", "(%w+)", "%1 %1", 0, false), "hello hello world world|2"},
		{gsubS("hello world", "%w+", "%0 %0", 1, true), "hello hello world|1"},
		{gsubS("hello world from Lua", "(%w+)%s*(%w+)", "%2 %1", 0, false), "world hello Lua from|2"},
		{gsubS("abc", "", "-", 0, false), "-a-b-c-|4"},
		{gsubS("hello", "l*", "x", 0, false), "xhxexxox|5"},
		{gsubS("THE (quick) fox", "%b()", "", 0, false), "THE  fox|1"},
		{gsubS("abc", "%w", "%%%0", 0, false), "%a%b%c|3"},
		{gsubS("abc", "%w", "%1", 0, false), "abc|3"},
		{gsubS("abc", "%w", "%2", 0, false), "error: invalid capture index"},
		{gsubS("abc", "^%w", "x", 0, false), "xbc|1"},
		{gsubS("abc", "%w", "x", 0, true), "abc|0"},
		{gsubS("abc", "%w", "x", -1, true), "abc|0"},
		{gsubS("abc", "()", "%1", 0, false), "1a2b3c4|4"},
	}
	for i, c := range cases {
		if c.got != c.want {
			t.Errorf("case %d: got %s want %s", i, c.got, c.want)
		}
	}
	g, err := Gmatch([]byte("one two"), []byte("%a+"), 0)
	if err != nil || len(g) != 2 || vals(g[0]) != `"one"` || vals(g[1]) != `"two"` {
		t.Errorf("gmatch: %v %v", g, err)
	}
	g, _ = Gmatch([]byte("^a^a"), []byte("^a"), 0)
	if len(g) != 2 {
		t.Errorf("gmatch caret: %v", g)
	}
	out, n, _ := Gsub([]byte("hello world"), []byte("o"), &Replacer{Kind: 't', Lookup: func(k Value) RVal {
		if k.S == "o" {
			return RVal{Kind: RStr, S: "0"}
		}
		return RVal{}
	}}, 0, false, 0)
	if out != "hell0 w0rld" || n != 2 {
		t.Errorf("gsub table: %s %d", out, n)
	}
	if _, err := Find([]byte(strings.Repeat("a", 40)), []byte("a*a*a*a*a*a*a*b"), 1, true, false, 100000); err != ErrBudget {
		t.Errorf("budget: %v", err)
	}
}

func TestClassify(t *testing.T) {
	cases := []struct {
		p    string
		want Class
	}{
		{"", WF}, {"a*", WF}, {"(a)(b)%2", WF}, {"()%1", WF}, {"[a--]", WF}, {"[]-a]", WF}, {"[^]]", WF}, {"%b()", WF},
		{"a$b", WF}, {"^*", WF}, {"[a-]", WF}, {"[-a]", WF}, {"[%a-]", WF}, {"(()())", WF},
		{"%", Malformed}, {"a%", Malformed}, {"[a", Malformed}, {"[]", Malformed}, {"[^]", Malformed}, {"(a", Malformed}, {"a)", Malformed},
		{"%b", Malformed}, {"%ba", Malformed}, {"%0", Malformed}, {"%1", Malformed}, {"(a%1)", Malformed}, {"(a)%2", Malformed}, {"[a%]", Malformed},
		{"[%a-z]", Undefined}, {"[a-%%]", Undefined}, {"[a-z-9]", Undefined}, {"%f[a]", Undefined}, {"a\x00b", Undefined}, {"[%--/]", Undefined},
	}
	for _, c := range cases {
		if got := Classify([]byte(c.p), true); got.Class != c.want {
			t.Errorf("%q: got %v (%s) want %v", c.p, got.Class, got.Why, c.want)
		}
	}
	if !Classify([]byte("[a--]"), true).RangeEndDash || !Classify([]byte("()%1"), true).BackrefPos || !Classify([]byte("(a%1)"), true).BackrefOpen {
		t.Error("flags")
	}
	// the flags look past an embedded NUL and past a bare %f (an implementation that does not stop there sees the rest)
	for _, p := range []string{"%\x00-()%1", "%f-()%1$", "a\x00()%1"} {
		if in := Classify([]byte(p), true); in.Class != Undefined || !in.BackrefPos {
			t.Errorf("%q: %v backrefpos=%v", p, in.Class, in.BackrefPos)
		}
	}
	if in := Classify([]byte("((.[a\x00-)(].-(%2)))"), true); !in.BackrefOpen {
		t.Errorf("open back-reference behind a NUL not flagged: %+v", in)
	}
}
