// Package lpat is a reference model of the Lua 5.1 pattern matcher: a naive,
// direct re-statement of the recursive backtracking matcher of lstrlib.c
// (match, max_expand, min_expand, start_capture, end_capture, match_capture,
// matchbalance, singlematch, class and set matching through C-locale ctype
// tables) together with the find / match / gmatch / gsub drivers. It never
// looks at the implementation under test. Every matcher step is charged to a
// budget so that catastrophic backtracking in the model ends as ErrBudget
// ("inconclusive"), not as a hang.
package lpat

import (
	"errors"
	"strconv"
)

// MaxCaptures is LUA_MAXCAPTURES of Lua 5.1.
const MaxCaptures = 32

const (
	capUnfinished = -1
	capPosition   = -2
	lEsc          = '%'
)

// Error is a Lua error raised by the matcher (malformed pattern or replacement).
type Error struct{ Msg string }

func (e *Error) Error() string { return e.Msg }

// ErrBudget is returned when the step budget is exhausted.
var ErrBudget = errors.New("lpat: step budget exhausted")

type budgetPanic struct{}

// ---- C locale ctype ----

func isUpper(c int) bool  { return 'A' <= c && c <= 'Z' }
func isLower(c int) bool  { return 'a' <= c && c <= 'z' }
func isAlpha(c int) bool  { return isUpper(c) || isLower(c) }
func isDigit(c int) bool  { return '0' <= c && c <= '9' }
func isAlnum(c int) bool  { return isAlpha(c) || isDigit(c) }
func isCntrl(c int) bool  { return (0 <= c && c < 32) || c == 127 }
func isSpace(c int) bool  { return c == ' ' || (9 <= c && c <= 13) }
func isXDigit(c int) bool { return isDigit(c) || ('a' <= c && c <= 'f') || ('A' <= c && c <= 'F') }
func isPunct(c int) bool  { return 32 < c && c < 127 && !isAlnum(c) } // isgraph && !isalnum
func toLower(c int) int {
	if isUpper(c) {
		return c + 32
	}
	return c
}

// MatchClass is match_class of lstrlib.c: does byte c belong to class letter cl (the byte after '%')?
func MatchClass(c, cl int) bool {
	var res bool
	switch toLower(cl) {
	case 'a':
		res = isAlpha(c)
	case 'c':
		res = isCntrl(c)
	case 'd':
		res = isDigit(c)
	case 'l':
		res = isLower(c)
	case 'p':
		res = isPunct(c)
	case 's':
		res = isSpace(c)
	case 'u':
		res = isUpper(c)
	case 'w':
		res = isAlnum(c)
	case 'x':
		res = isXDigit(c)
	case 'z':
		res = c == 0
	default:
		return cl == c
	}
	if isLower(cl) {
		return res
	}
	return !res
}

// ---- match state ----

// State is MatchState of lstrlib.c.
type State struct {
	src     []byte
	pat     []byte
	level   int
	capInit [MaxCaptures]int
	capLen  [MaxCaptures]int
	Steps   int64
	Budget  int64 // <= 0: unlimited
}

// pc reads pattern byte p; the pattern is NUL-terminated as a C string.
func (ms *State) pc(p int) int {
	if p < len(ms.pat) {
		return int(ms.pat[p])
	}
	return 0
}

// sc reads subject byte s; Lua strings carry a terminating NUL.
func (ms *State) sc(s int) int {
	if s < len(ms.src) {
		return int(ms.src[s])
	}
	return 0
}

func (ms *State) step() {
	ms.Steps++
	if ms.Budget > 0 && ms.Steps > ms.Budget {
		panic(budgetPanic{})
	}
}

func luaError(msg string) { panic(&Error{msg}) }

func (ms *State) checkCapture(l int) int {
	l -= '1'
	if l < 0 || l >= ms.level || ms.capLen[l] == capUnfinished {
		luaError("invalid capture index")
	}
	return l
}

func (ms *State) captureToClose() int {
	for level := ms.level - 1; level >= 0; level-- {
		if ms.capLen[level] == capUnfinished {
			return level
		}
	}
	luaError("invalid pattern capture")
	return 0
}

func (ms *State) classEnd(p int) int {
	c := ms.pc(p)
	p++
	switch c {
	case lEsc:
		if ms.pc(p) == 0 {
			luaError("malformed pattern (ends with '%')")
		}
		return p + 1
	case '[':
		if ms.pc(p) == '^' {
			p++
		}
		for { // look for a ']'
			if ms.pc(p) == 0 {
				luaError("malformed pattern (missing ']')")
			}
			c := ms.pc(p)
			p++
			if c == lEsc && ms.pc(p) != 0 {
				p++ // skip escapes (e.g. '%]')
			}
			if ms.pc(p) == ']' {
				break
			}
		}
		return p + 1
	default:
		return p
	}
}

// matchBracketClass: p is the index of '[', ec the index of the closing ']'.
func (ms *State) matchBracketClass(c, p, ec int) bool {
	sig := true
	if ms.pc(p+1) == '^' {
		sig = false
		p++ // skip the '^'
	}
	for p++; p < ec; p++ {
		if ms.pc(p) == lEsc {
			p++
			if MatchClass(c, ms.pc(p)) {
				return sig
			}
		} else if ms.pc(p+1) == '-' && p+2 < ec {
			p += 2
			if ms.pc(p-2) <= c && c <= ms.pc(p) {
				return sig
			}
		} else if ms.pc(p) == c {
			return sig
		}
	}
	return !sig
}

func (ms *State) singleMatch(c, p, ep int) bool {
	ms.step()
	switch ms.pc(p) {
	case '.':
		return true
	case lEsc:
		return MatchClass(c, ms.pc(p+1))
	case '[':
		return ms.matchBracketClass(c, p, ep-1)
	default:
		return ms.pc(p) == c
	}
}

func (ms *State) matchBalance(s, p int) int {
	if ms.pc(p) == 0 || ms.pc(p+1) == 0 {
		luaError("unbalanced pattern")
	}
	if s >= len(ms.src) || int(ms.src[s]) != ms.pc(p) {
		// *s != *p; at the end of the subject *s is the terminating NUL, which
		// can never equal *p (a NUL there was rejected above)
		return -1
	}
	b, e := ms.pc(p), ms.pc(p+1)
	cont := 1
	for s++; s < len(ms.src); s++ {
		ms.step()
		if int(ms.src[s]) == e {
			cont--
			if cont == 0 {
				return s + 1
			}
		} else if int(ms.src[s]) == b {
			cont++
		}
	}
	return -1 // string ends out of balance
}

func (ms *State) maxExpand(s, p, ep int) int {
	i := 0
	for s+i < len(ms.src) && ms.singleMatch(int(ms.src[s+i]), p, ep) {
		i++
	}
	for i >= 0 { // keeps trying to match with the maximum repetitions
		if res := ms.match(s+i, ep+1); res != -1 {
			return res
		}
		i--
	}
	return -1
}

func (ms *State) minExpand(s, p, ep int) int {
	for {
		if res := ms.match(s, ep+1); res != -1 {
			return res
		} else if s < len(ms.src) && ms.singleMatch(int(ms.src[s]), p, ep) {
			s++ // try with one more repetition
		} else {
			return -1
		}
	}
}

func (ms *State) startCapture(s, p, what int) int {
	level := ms.level
	if level >= MaxCaptures {
		luaError("too many captures")
	}
	ms.capInit[level] = s
	ms.capLen[level] = what
	ms.level = level + 1
	res := ms.match(s, p)
	if res == -1 { // match failed?
		ms.level-- // undo capture
	}
	return res
}

func (ms *State) endCapture(s, p int) int {
	l := ms.captureToClose()
	ms.capLen[l] = s - ms.capInit[l] // close capture
	res := ms.match(s, p)
	if res == -1 { // match failed?
		ms.capLen[l] = capUnfinished // undo capture
	}
	return res
}

func (ms *State) matchCapture(s, l int) int {
	l = ms.checkCapture(l)
	n := ms.capLen[l]
	if n < 0 {
		// CAP_POSITION (-2) cast to size_t is huge: the length test fails, no match
		return -1
	}
	if len(ms.src)-s >= n {
		a := ms.capInit[l]
		for i := 0; i < n; i++ {
			if ms.src[a+i] != ms.src[s+i] {
				return -1
			}
		}
		return s + n
	}
	return -1
}

// match returns the end of the match of pattern suffix p at subject index s, or -1.
func (ms *State) match(s, p int) int {
	for { // "init:" of the C code
		ms.step()
		switch ms.pc(p) {
		case '(': // start capture
			if ms.pc(p+1) == ')' { // position capture?
				return ms.startCapture(s, p+2, capPosition)
			}
			return ms.startCapture(s, p+1, capUnfinished)
		case ')': // end capture
			return ms.endCapture(s, p+1)
		case 0: // end of pattern
			return s
		}
		if ms.pc(p) == lEsc {
			switch nx := ms.pc(p + 1); {
			case nx == 'b': // balanced string?
				s = ms.matchBalance(s, p+2)
				if s == -1 {
					return -1
				}
				p += 4
				continue
			case nx == 'f': // frontier (undocumented in 5.1, present in lstrlib 5.1)
				p += 2
				if ms.pc(p) != '[' {
					luaError("missing '[' after '%f' in pattern")
				}
				ep := ms.classEnd(p)
				prev := 0
				if s != 0 {
					prev = int(ms.src[s-1])
				}
				if ms.matchBracketClass(prev, p, ep-1) || !ms.matchBracketClass(ms.sc(s), p, ep-1) {
					return -1
				}
				p = ep
				continue
			case isDigit(nx): // capture results (%0-%9)?
				s = ms.matchCapture(s, nx)
				if s == -1 {
					return -1
				}
				p += 2
				continue
			}
		} else if ms.pc(p) == '$' && ms.pc(p+1) == 0 { // is the '$' the last char in pattern?
			if s == len(ms.src) {
				return s
			}
			return -1
		}
		// default: it is a pattern item
		ep := ms.classEnd(p)
		m := s < len(ms.src) && ms.singleMatch(int(ms.src[s]), p, ep)
		switch ms.pc(ep) {
		case '?': // optional
			if m {
				if res := ms.match(s+1, ep+1); res != -1 {
					return res
				}
			}
			p = ep + 1
			continue
		case '*': // 0 or more repetitions
			return ms.maxExpand(s, p, ep)
		case '+': // 1 or more repetitions
			if m {
				return ms.maxExpand(s+1, p, ep)
			}
			return -1
		case '-': // 0 or more repetitions (minimum)
			return ms.minExpand(s, p, ep)
		default:
			if !m {
				return -1
			}
			s++
			p = ep
		}
	}
}

// ---- values and captures ----

// Value is a Lua value produced by the drivers: a string or an (integer) number.
type Value struct {
	IsNum bool
	N     int
	S     string
}

func (v Value) String() string {
	if v.IsNum {
		return strconv.Itoa(v.N)
	}
	return strconv.Quote(v.S)
}

// tostring as luaL_addvalue would render it
func (v Value) text() string {
	if v.IsNum {
		return strconv.Itoa(v.N)
	}
	return v.S
}

// RawCap is one capture as the matcher left it.
type RawCap struct {
	Init int
	Len  int // >= 0 substring, -1 unfinished, -2 position
}

// Match is a successful match: [Start,End) and the raw captures.
type Match struct {
	Start, End int
	Caps       []RawCap
}

func (ms *State) snapshot(s, e int) *Match {
	m := &Match{Start: s, End: e}
	for i := 0; i < ms.level; i++ {
		m.Caps = append(m.Caps, RawCap{ms.capInit[i], ms.capLen[i]})
	}
	return m
}

// oneCapture is push_onecapture: capture i of match m (whole match if there are no captures and i == 0).
func oneCapture(src []byte, m *Match, i int) Value {
	if i >= len(m.Caps) {
		if i == 0 {
			return Value{S: string(src[m.Start:m.End])}
		}
		luaError("invalid capture index")
	}
	c := m.Caps[i]
	if c.Len == capUnfinished {
		luaError("unfinished capture")
	}
	if c.Len == capPosition {
		return Value{IsNum: true, N: c.Init + 1}
	}
	return Value{S: string(src[c.Init : c.Init+c.Len])}
}

// pushCaptures is push_captures; whole tells whether the whole match stands in when there are no captures.
func pushCaptures(src []byte, m *Match, whole bool) []Value {
	n := len(m.Caps)
	if n == 0 && whole {
		n = 1
	}
	var vs []Value
	for i := 0; i < n; i++ {
		vs = append(vs, oneCapture(src, m, i))
	}
	return vs
}

// Captures returns the values string.match / gmatch / a gsub function would receive for m.
func Captures(src []byte, m *Match, whole bool) (vs []Value, err error) {
	defer catch(&err)
	return pushCaptures(src, m, whole), nil
}

func catch(err *error) {
	if r := recover(); r != nil {
		switch x := r.(type) {
		case *Error:
			*err = x
		case budgetPanic:
			*err = ErrBudget
		default:
			panic(r)
		}
	}
}

// New prepares a matcher over src and pat with the given step budget.
func New(src, pat []byte, budget int64) *State {
	return &State{src: src, pat: pat, Budget: budget}
}

// MatchAt runs match() at subject index s with the pattern starting at index p (level reset).
func (ms *State) MatchAt(s, p int) (m *Match, err error) {
	defer catch(&err)
	ms.level = 0
	e := ms.match(s, p)
	if e == -1 {
		return nil, nil
	}
	return ms.snapshot(s, e), nil
}

// ---- drivers ----

func posrelat(pos, n int) int {
	if pos < 0 {
		pos += n + 1
	}
	if pos >= 0 {
		return pos
	}
	return 0
}

const specials = "^$*+?.([%-"

func hasSpecials(p []byte) bool {
	for _, c := range p {
		if c == 0 {
			return false // strpbrk stops at the NUL
		}
		for i := 0; i < len(specials); i++ {
			if c == specials[i] {
				return true
			}
		}
	}
	return false
}

// FindResult is what string.find / string.match return.
type FindResult struct {
	Found      bool
	Start, End int     // 1-based inclusive (find only)
	Vals       []Value // captures (find), captures or whole match (match)
}

// Find is str_find_aux: find=true for string.find, false for string.match.
// init is the Lua-level third argument (1 when absent).
func Find(src, pat []byte, init int, find, plain bool, budget int64) (r FindResult, err error) {
	defer catch(&err)
	l1 := len(src)
	in := posrelat(init, l1) - 1
	if in < 0 {
		in = 0
	} else if in > l1 {
		in = l1
	}
	if find && (plain || !hasSpecials(pat)) {
		// plain search (lmemfind); the length of the pattern is its full length
		for s := in; s+len(pat) <= l1; s++ {
			if string(src[s:s+len(pat)]) == string(pat) {
				return FindResult{Found: true, Start: s + 1, End: s + len(pat)}, nil
			}
		}
		return FindResult{}, nil
	}
	ms := New(src, pat, budget)
	p := 0
	anchor := false
	if ms.pc(0) == '^' {
		anchor = true
		p = 1
	}
	s1 := in
	for {
		ms.level = 0
		if e := ms.match(s1, p); e != -1 {
			m := ms.snapshot(s1, e)
			if find {
				return FindResult{Found: true, Start: s1 + 1, End: e, Vals: pushCaptures(src, m, false)}, nil
			}
			return FindResult{Found: true, Vals: pushCaptures(src, m, true)}, nil
		}
		if !(s1 < l1 && !anchor) {
			break
		}
		s1++
	}
	return FindResult{}, nil
}

// Scan returns the successive matches a gmatch-style scan finds from subject
// offset off: after a non-empty match the scan resumes at its end, after an
// empty one a position further. anchorCaret=true treats a leading '^' as the
// anchor find/match/gsub give it (one attempt only, at off); false passes the
// pattern to the matcher unchanged, as gmatch_aux of Lua 5.1 does (so '^' is an
// ordinary character there). limit < 0 means no limit.
func Scan(src, pat []byte, off, limit int, anchorCaret bool, budget int64) (ms []*Match, err error) {
	defer catch(&err)
	st := New(src, pat, budget)
	p := 0
	anchor := false
	if anchorCaret && st.pc(0) == '^' {
		anchor = true
		p = 1
	}
	for s := off; s <= len(src); {
		if limit >= 0 && len(ms) >= limit {
			break
		}
		st.level = 0
		e := st.match(s, p)
		if e != -1 {
			ms = append(ms, st.snapshot(s, e))
			if e == s {
				s++
			} else {
				s = e
			}
		} else {
			s++
		}
		if anchor {
			break
		}
	}
	return ms, nil
}

// Gmatch returns the value lists successive calls of the string.gmatch iterator yield.
// A lazily detected malformation is returned as err together with the lists yielded before it.
func Gmatch(src, pat []byte, budget int64) (out [][]Value, err error) {
	defer catch(&err)
	st := New(src, pat, budget)
	for s := 0; s <= len(src); {
		st.level = 0
		e := st.match(s, 0)
		if e != -1 {
			out = append(out, pushCaptures(src, st.snapshot(s, e), true))
			if e == s {
				s++
			} else {
				s = e
			}
		} else {
			s++
		}
	}
	return out, nil
}

// RKind is the kind of value a table lookup or a replacement function gives back.
type RKind int

const (
	RNil RKind = iota
	RFalse
	RStr
	RNum
	ROther // anything else: "invalid replacement value"
)

// RVal is a replacement value.
type RVal struct {
	Kind RKind
	S    string
	N    int
	Type string // type name for ROther
}

// Replacer is the third argument of string.gsub.
type Replacer struct {
	Kind   byte                    // 's' string, 't' table, 'f' function
	Str    []byte                  // 's'
	Lookup func(key Value) RVal    // 't'
	Call   func(args []Value) RVal // 'f'
}

func addS(out []byte, src []byte, m *Match, news []byte) []byte {
	for i := 0; i < len(news); i++ {
		if news[i] != lEsc {
			out = append(out, news[i])
			continue
		}
		i++ // skip ESC
		c := 0
		if i < len(news) {
			c = int(news[i]) // past the end the C code reads the terminating NUL
		}
		switch {
		case !isDigit(c):
			out = append(out, byte(c))
		case c == '0':
			out = append(out, src[m.Start:m.End]...)
		default:
			out = append(out, oneCapture(src, m, c-'1').text()...)
		}
	}
	return out
}

func addValue(out []byte, src []byte, m *Match, r *Replacer) []byte {
	var v RVal
	switch r.Kind {
	case 's':
		return addS(out, src, m, r.Str)
	case 'f':
		v = r.Call(pushCaptures(src, m, true))
	case 't':
		v = r.Lookup(oneCapture(src, m, 0))
	}
	switch v.Kind {
	case RNil, RFalse:
		return append(out, src[m.Start:m.End]...) // keep original text
	case RStr:
		return append(out, v.S...)
	case RNum:
		return append(out, strconv.Itoa(v.N)...)
	}
	luaError("invalid replacement value (a " + v.Type + ")")
	return out
}

// Gsub is str_gsub. hasMax=false means the fourth argument is absent (max = len+1).
func Gsub(src, pat []byte, r *Replacer, maxN int, hasMax bool, budget int64) (res string, n int, err error) {
	defer catch(&err)
	if !hasMax {
		maxN = len(src) + 1
	}
	st := New(src, pat, budget)
	p := 0
	anchor := false
	if st.pc(0) == '^' {
		anchor = true
		p = 1
	}
	var out []byte
	s := 0
	for n < maxN {
		st.level = 0
		e := st.match(s, p)
		if e != -1 {
			n++
			out = addValue(out, src, st.snapshot(s, e), r)
		}
		if e != -1 && e > s { // non empty match?
			s = e // skip it
		} else if s < len(src) {
			out = append(out, src[s])
			s++
		} else {
			break
		}
		if anchor {
			break
		}
	}
	out = append(out, src[s:]...)
	return string(out), n, nil
}
