// Package bcv is a structural verifier for compiled FunctionProto trees. It
// decodes instructions with the shifts and masks the VM hard-codes (not with
// opcode.go's helpers) and checks the rules of property C07.
package bcv

import (
	"fmt"

	lua "github.com/yuin/gopher-lua"
)

const (
	opMaxSbx   = (1<<18 - 1) >> 1
	bitRK      = 1 << 8
	frameLimit = 200 // the compiler's register limit (maxRegisters)
)

type mode int

const (
	mNone  mode = iota // unused / plain number
	mReg               // register
	mRK                // register or constant
	mUpval             // upvalue index
	mKStr              // RK that must be a string constant
)

type opInfo struct {
	name string
	aReg bool
	b, c mode
	bx   string // "", "const", "conststr", "proto", "sbx"
	test bool   // conditional skip: must be followed by a JMP
}

var ops = []opInfo{
	lua.OP_MOVE:       {name: "MOVE", aReg: true, b: mReg},
	lua.OP_MOVEN:      {name: "MOVEN", aReg: true, b: mReg},
	lua.OP_LOADK:      {name: "LOADK", aReg: true, bx: "const"},
	lua.OP_LOADBOOL:   {name: "LOADBOOL", aReg: true},
	lua.OP_LOADNIL:    {name: "LOADNIL", aReg: true, b: mReg},
	lua.OP_GETUPVAL:   {name: "GETUPVAL", aReg: true, b: mUpval},
	lua.OP_GETGLOBAL:  {name: "GETGLOBAL", aReg: true, bx: "conststr"},
	lua.OP_GETTABLE:   {name: "GETTABLE", aReg: true, b: mReg, c: mRK},
	lua.OP_GETTABLEKS: {name: "GETTABLEKS", aReg: true, b: mReg, c: mKStr},
	lua.OP_SETGLOBAL:  {name: "SETGLOBAL", aReg: true, bx: "conststr"},
	lua.OP_SETUPVAL:   {name: "SETUPVAL", aReg: true, b: mUpval},
	lua.OP_SETTABLE:   {name: "SETTABLE", aReg: true, b: mRK, c: mRK},
	lua.OP_SETTABLEKS: {name: "SETTABLEKS", aReg: true, b: mKStr, c: mRK},
	lua.OP_NEWTABLE:   {name: "NEWTABLE", aReg: true},
	lua.OP_SELF:       {name: "SELF", aReg: true, b: mReg, c: mKStr},
	lua.OP_ADD:        {name: "ADD", aReg: true, b: mRK, c: mRK},
	lua.OP_SUB:        {name: "SUB", aReg: true, b: mRK, c: mRK},
	lua.OP_MUL:        {name: "MUL", aReg: true, b: mRK, c: mRK},
	lua.OP_DIV:        {name: "DIV", aReg: true, b: mRK, c: mRK},
	lua.OP_MOD:        {name: "MOD", aReg: true, b: mRK, c: mRK},
	lua.OP_POW:        {name: "POW", aReg: true, b: mRK, c: mRK},
	lua.OP_UNM:        {name: "UNM", aReg: true, b: mRK},
	lua.OP_NOT:        {name: "NOT", aReg: true, b: mReg},
	lua.OP_LEN:        {name: "LEN", aReg: true, b: mRK},
	lua.OP_CONCAT:     {name: "CONCAT", aReg: true, b: mReg, c: mReg},
	lua.OP_JMP:        {name: "JMP", bx: "sbx"},
	lua.OP_EQ:         {name: "EQ", b: mRK, c: mRK, test: true},
	lua.OP_LT:         {name: "LT", b: mRK, c: mRK, test: true},
	lua.OP_LE:         {name: "LE", b: mRK, c: mRK, test: true},
	lua.OP_TEST:       {name: "TEST", aReg: true, test: true},
	lua.OP_TESTSET:    {name: "TESTSET", aReg: true, b: mReg, test: true},
	lua.OP_CALL:       {name: "CALL", aReg: true},
	lua.OP_TAILCALL:   {name: "TAILCALL", aReg: true},
	lua.OP_RETURN:     {name: "RETURN", aReg: true},
	lua.OP_FORLOOP:    {name: "FORLOOP", aReg: true, bx: "sbx"},
	lua.OP_FORPREP:    {name: "FORPREP", aReg: true, bx: "sbx"},
	lua.OP_TFORLOOP:   {name: "TFORLOOP", aReg: true, test: true},
	lua.OP_SETLIST:    {name: "SETLIST", aReg: true},
	lua.OP_CLOSE:      {name: "CLOSE"},
	lua.OP_CLOSURE:    {name: "CLOSURE", aReg: true, bx: "proto"},
	lua.OP_VARARG:     {name: "VARARG", aReg: true},
	lua.OP_NOP:        {name: "NOP"},
}

// lastWriterIsStringLoadK scans backwards from pc for the nearest instruction
// that may write register r and reports whether it is a LOADK of a string
// constant (straight-line approximation, conservative: any other writer fails).
func lastWriterIsStringLoadK(p *lua.FunctionProto, code []uint32, start []bool, pc, r int) bool {
	for q := pc - 1; q >= 0; q-- {
		if !start[q] {
			continue
		}
		w := code[q]
		op := int(w >> 26)
		A := int(w>>18) & 0xff
		B := int(w & 0x1ff)
		C := int(w>>9) & 0x1ff
		switch op {
		case lua.OP_LOADK:
			if A == r {
				if bx := int(w & 0x3ffff); bx < len(p.Constants) {
					_, ok := p.Constants[bx].(lua.LString)
					return ok
				}
				return false
			}
		case lua.OP_LOADNIL:
			if A <= r && r <= B {
				return false
			}
		case lua.OP_CALL, lua.OP_VARARG:
			if A <= r {
				return false
			}
		case lua.OP_SELF:
			if A == r || A+1 == r {
				return false
			}
		case lua.OP_FORLOOP, lua.OP_FORPREP:
			if A <= r && r <= A+3 {
				return false
			}
		case lua.OP_TFORLOOP:
			if A+3 <= r && r <= A+2+C {
				return false
			}
		case lua.OP_MOVEN:
			if A == r {
				return false
			}
			for k := 1; k <= C && q+k < len(code); k++ {
				if int(code[q+k]>>18)&0xff == r {
					return false
				}
			}
		case lua.OP_MOVE, lua.OP_LOADBOOL, lua.OP_GETUPVAL, lua.OP_GETGLOBAL, lua.OP_GETTABLE, lua.OP_GETTABLEKS, lua.OP_NEWTABLE,
			lua.OP_ADD, lua.OP_SUB, lua.OP_MUL, lua.OP_DIV, lua.OP_MOD, lua.OP_POW, lua.OP_UNM, lua.OP_NOT, lua.OP_LEN, lua.OP_CONCAT,
			lua.OP_TESTSET, lua.OP_CLOSURE:
			if A == r {
				return false
			}
		}
	}
	return false
}

// OpName returns the mnemonic.
func OpName(op int) string {
	if op >= 0 && op < len(ops) && ops[op].name != "" {
		return ops[op].name
	}
	return fmt.Sprintf("OP%d", op)
}

// Problem is one structural defect.
type Problem struct {
	Class string // stable class key, e.g. "reg-operand:CLOSURE.A"
	Msg   string
}

// Stats of what was checked.
type Stats struct {
	Protos       int
	Instructions int
	PerOp        map[string]int
	JumpTargets  int
	Groups       int // multi-word groups checked
	ImplicitOver int // implicit ranges reaching beyond NumUsedRegisters (reported, not asserted)
	MaxRegs      int
	MaxConsts    int
}

func NewStats() *Stats { return &Stats{PerOp: map[string]int{}} }

// Verify walks the prototype tree.
func Verify(p *lua.FunctionProto, st *Stats) []Problem {
	var out []Problem
	verify(p, st, &out, 0)
	return out
}

func verify(p *lua.FunctionProto, st *Stats, out *[]Problem, depth int) {
	st.Protos++
	add := func(class, format string, a ...interface{}) {
		if len(*out) < 50 {
			*out = append(*out, Problem{Class: class, Msg: fmt.Sprintf("proto@line%d: ", p.LineDefined) + fmt.Sprintf(format, a...)})
		}
	}
	code := p.Code
	n := len(code)
	nreg := int(p.NumUsedRegisters)
	if nreg > st.MaxRegs {
		st.MaxRegs = nreg
	}
	if len(p.Constants) > st.MaxConsts {
		st.MaxConsts = len(p.Constants)
	}
	if len(p.DbgSourcePositions) != n {
		add("line-table", "line table has %d entries for %d instructions", len(p.DbgSourcePositions), n)
	}
	if nreg > frameLimit {
		add("frame-limit", "NumUsedRegisters %d exceeds the frame limit %d", nreg, frameLimit)
	}
	if nreg < int(p.NumParameters) {
		add("frame-params", "NumUsedRegisters %d < NumParameters %d", nreg, p.NumParameters)
	}
	sc := lua.VerifStringConstants(p)
	if len(sc) != len(p.Constants) {
		add("string-constants", "stringConstants has %d entries for %d constants", len(sc), len(p.Constants))
	} else {
		for i, k := range p.Constants {
			if s, ok := k.(lua.LString); ok && sc[i] != string(s) {
				add("string-constants", "stringConstants[%d]=%q differs from the constant %q", i, sc[i], string(s))
			}
		}
	}
	if n == 0 {
		add("no-code", "empty code")
		return
	}
	// pass 1: instruction starts
	start := make([]bool, n)
	moveInGroup := make([]bool, n) // k-th MOVE word of a bulk move: a complete MOVE of the un-merged stream
	for pc := 0; pc < n; {
		inst := code[pc]
		op := int(inst >> 26)
		start[pc] = true
		if op > lua.OP_NOP {
			add("opcode", "pc %d: opcode %d out of range", pc, op)
			pc++
			continue
		}
		switch op {
		case lua.OP_CLOSURE:
			bx := int(inst & 0x3ffff)
			nup := 0
			if bx < len(p.FunctionPrototypes) {
				nup = int(p.FunctionPrototypes[bx].NumUpvalues)
			}
			pc += 1 + nup
		case lua.OP_SETLIST:
			if (inst>>9)&0x1ff == 0 {
				pc += 2
			} else {
				pc++
			}
		case lua.OP_MOVEN:
			c := int(inst>>9) & 0x1ff
			for k := 1; k <= c && pc+k < n; k++ {
				moveInGroup[pc+k] = true
			}
			pc += 1 + c
		default:
			pc++
		}
	}
	checkReg := func(pc int, opn, field string, r int) {
		if r >= nreg {
			add("reg-operand:"+opn+"."+field, "pc %d %s: register operand %s=%d >= NumUsedRegisters %d", pc, opn, field, r, nreg)
		}
	}
	checkRK := func(pc int, opn, field string, v int, m mode) {
		if v&bitRK != 0 {
			idx := v &^ bitRK
			if idx >= len(p.Constants) {
				add("const-index:"+opn, "pc %d %s: constant operand %s index %d >= %d constants", pc, opn, field, idx, len(p.Constants))
				return
			}
			if m == mKStr {
				if _, ok := p.Constants[idx].(lua.LString); !ok {
					add("const-not-string:"+opn, "pc %d %s: operand %s names constant %d which is not a string", pc, opn, field, idx)
				}
			}
			return
		}
		if m == mKStr {
			// beyond the RK range the compiler loads the string constant into a
			// register right before the instruction: the operand then names that
			// register, which must have just received a string constant
			ok := lastWriterIsStringLoadK(p, code, start, pc, v)
			if !ok {
				add("ks-operand-not-string-constant:"+opn, "pc %d %s: string-keyed operand %s=%d is neither a string constant nor a register just loaded with one", pc, opn, field, v)
				return
			}
		}
		checkReg(pc, opn, field, v)
	}
	target := func(pc int, opn string, t int) {
		st.JumpTargets++
		if t < 0 || t >= n {
			add("jump-range:"+opn, "pc %d %s: target %d outside [0,%d)", pc, opn, t, n)
			return
		}
		if !start[t] {
			if moveInGroup[t] {
				w := code[t]
				if int(w>>26) == lua.OP_MOVE && int(w>>18)&0xff < nreg && int(w&0x1ff) < nreg {
					return
				}
			}
			add("jump-into-group:"+opn, "pc %d %s: target %d is inside a multi-word group", pc, opn, t)
		}
	}
	implicit := func(last int) {
		if last >= nreg {
			st.ImplicitOver++
		}
		if last > 255 {
			add("implicit-range", "implicit register range reaches %d (beyond the 8-bit register space)", last)
		}
	}
	// registers an instruction writes without naming them one by one (results of
	// a call, the method slot of SELF, loop variables, the values of a fixed-count
	// VARARG) belong to the frame like any operand
	written := func(pc int, opn string, last int) {
		implicit(last)
		if last >= nreg && last <= 255 {
			add("implicit-write-over-count:"+opn, "pc %d %s writes registers up to %d, NumUsedRegisters is %d", pc, opn, last, nreg)
		}
	}
	lastOp := -1
	for pc := 0; pc < n; {
		inst := code[pc]
		op := int(inst >> 26)
		if op > lua.OP_NOP {
			pc++
			continue
		}
		info := ops[op]
		st.Instructions++
		st.PerOp[info.name]++
		lastOp = op
		A := int(inst>>18) & 0xff
		B := int(inst & 0x1ff)
		C := int(inst>>9) & 0x1ff
		Bx := int(inst & 0x3ffff)
		if info.aReg {
			checkReg(pc, info.name, "A", A)
		}
		switch info.bx {
		case "const", "conststr":
			if Bx >= len(p.Constants) {
				add("const-index:"+info.name, "pc %d %s: Bx %d >= %d constants", pc, info.name, Bx, len(p.Constants))
			} else if info.bx == "conststr" {
				if _, ok := p.Constants[Bx].(lua.LString); !ok {
					add("const-not-string:"+info.name, "pc %d %s: constant %d is not a string", pc, info.name, Bx)
				}
			}
		case "sbx":
			if op != lua.OP_JMP || true {
				target(pc, info.name, pc+1+(Bx-opMaxSbx))
			}
		case "proto":
			if Bx >= len(p.FunctionPrototypes) {
				add("proto-index", "pc %d CLOSURE: prototype %d >= %d", pc, Bx, len(p.FunctionPrototypes))
			}
		default:
			switch info.b {
			case mReg:
				checkReg(pc, info.name, "B", B)
			case mRK, mKStr:
				checkRK(pc, info.name, "B", B, info.b)
			case mUpval:
				if B >= int(p.NumUpvalues) {
					add("upvalue-index:"+info.name, "pc %d %s: upvalue %d >= %d", pc, info.name, B, p.NumUpvalues)
				}
			}
			switch info.c {
			case mReg:
				checkReg(pc, info.name, "C", C)
			case mRK, mKStr:
				checkRK(pc, info.name, "C", C, info.c)
			}
		}
		next := pc + 1
		switch op {
		case lua.OP_LOADNIL:
			if B < A {
				add("loadnil-range", "pc %d LOADNIL: B %d < A %d", pc, B, A)
			}
		case lua.OP_LOADBOOL:
			if C != 0 {
				target(pc, "LOADBOOL", pc+2)
			}
		case lua.OP_CALL, lua.OP_TAILCALL:
			if B > 0 {
				implicit(A + B - 1)
			}
			if op == lua.OP_CALL && C > 1 {
				written(pc, "CALL", A+C-2)
			}
		case lua.OP_RETURN:
			if B > 1 {
				implicit(A + B - 2)
			}
		case lua.OP_CONCAT:
			if C < B {
				add("concat-range", "pc %d CONCAT: C %d < B %d", pc, C, B)
			}
		case lua.OP_SELF:
			written(pc, "SELF", A+1)
		case lua.OP_FORLOOP, lua.OP_FORPREP:
			written(pc, "FORLOOP/FORPREP", A+3)
		case lua.OP_TFORLOOP:
			written(pc, "TFORLOOP", A+2+C)
			if pc+1 >= n || int(code[pc+1]>>26) != lua.OP_JMP {
				add("test-without-jump:TFORLOOP", "pc %d TFORLOOP is not followed by a JMP", pc)
			}
			target(pc, "TFORLOOP", pc+2)
		case lua.OP_VARARG:
			if B > 1 {
				written(pc, "VARARG", A+B-2)
			}
		case lua.OP_SETLIST:
			implicit(A + B)
			if C == 0 {
				st.Groups++
				if pc+1 >= n {
					add("setlist-ext", "pc %d SETLIST: extension word missing", pc)
				} else if code[pc+1] < 1 {
					add("setlist-ext", "pc %d SETLIST: extension word is %d, not a batch number >= 1", pc, code[pc+1])
				}
				next = pc + 2
			}
		case lua.OP_EQ, lua.OP_LT, lua.OP_LE, lua.OP_TEST, lua.OP_TESTSET:
			// (a JMP to the very next instruction is rewritten to NOP by the compiler)
			if pc+1 >= n || (int(code[pc+1]>>26) != lua.OP_JMP && int(code[pc+1]>>26) != lua.OP_NOP) {
				add("test-without-jump:"+info.name, "pc %d %s is not followed by a JMP", pc, info.name)
			}
			target(pc, info.name, pc+2)
		case lua.OP_CLOSURE:
			st.Groups++
			if Bx < len(p.FunctionPrototypes) {
				child := p.FunctionPrototypes[Bx]
				nup := int(child.NumUpvalues)
				for k := 1; k <= nup; k++ {
					if pc+k >= n {
						add("closure-captures", "pc %d CLOSURE: capture list truncated", pc)
						break
					}
					w := code[pc+k]
					wop := int(w >> 26)
					wb := int(w & 0x1ff)
					switch wop {
					case lua.OP_MOVE:
						if wb >= nreg {
							add("reg-operand:CLOSURE.capture", "pc %d CLOSURE capture %d: register %d >= NumUsedRegisters %d", pc, k, wb, nreg)
						}
					case lua.OP_GETUPVAL:
						if wb >= int(p.NumUpvalues) {
							add("upvalue-index:CLOSURE.capture", "pc %d CLOSURE capture %d: upvalue %d >= %d", pc, k, wb, p.NumUpvalues)
						}
					default:
						add("closure-captures", "pc %d CLOSURE capture %d is %s, not MOVE/GETUPVAL", pc, k, OpName(wop))
					}
				}
				next = pc + 1 + nup
			}
		case lua.OP_MOVEN:
			st.Groups++
			for k := 1; k <= C; k++ {
				if pc+k >= n {
					add("moven-group", "pc %d MOVEN: group of %d truncated", pc, C)
					break
				}
				w := code[pc+k]
				if int(w>>26) != lua.OP_MOVE {
					add("moven-group", "pc %d MOVEN: word %d is %s, not MOVE", pc, k, OpName(int(w>>26)))
					continue
				}
				checkReg(pc+k, "MOVEN.move", "A", int(w>>18)&0xff)
				checkReg(pc+k, "MOVEN.move", "B", int(w&0x1ff))
			}
			next = pc + 1 + C
		}
		pc = next
	}
	if lastOp != lua.OP_RETURN {
		add("no-final-return", "code does not end in RETURN (last opcode %s)", OpName(lastOp))
	}
	if depth < 64 {
		for _, c := range p.FunctionPrototypes {
			verify(c, st, out, depth+1)
		}
	}
}
