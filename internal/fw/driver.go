package fw

import (
	"context"
	"crypto/sha1"
	"encoding/binary"
	"encoding/hex"
	"encoding/json"
	"fmt"
	"os"
	"os/exec"
	"path/filepath"
	"sort"
	"strconv"
	"strings"
	"sync"
	"syscall"
	"time"
)

// Drive runs one property check: reproducers of known findings first, then
// the sharded workload; merges, writes evidence, prints the verdict lines and
// returns the process exit code.
func Drive(id, tier string, seed int64, root, exe string) int {
	p := Lookup(id)
	if p == nil {
		fmt.Fprintln(os.Stderr, "unknown property", id)
		return 2
	}
	start := time.Now()
	os.MkdirAll(filepath.Join(root, ".work"), 0o755)
	out, err := os.MkdirTemp(filepath.Join(root, ".work"), id+"-"+tier+"-")
	if err != nil {
		fmt.Fprintln(os.Stderr, err)
		return 2
	}
	defer os.RemoveAll(out)

	findings, ferr := LoadFindings(root)
	if ferr != nil {
		fmt.Fprintln(os.Stderr, "known_findings.json:", ferr)
		return 2
	}

	// 1. pinned reproducers of open findings
	knownLines := map[string]string{}
	var stale []string
	for _, f := range findings {
		if f.Property != id || f.Status != "open" {
			continue
		}
		if p.Reproducers == nil || p.Reproducers[f.ID] == nil {
			fmt.Fprintf(os.Stderr, "BROKEN: open finding %s has no reproducer in the check\n", f.ID)
			return 2
		}
		ctx, cancel := context.WithTimeout(context.Background(), 10*time.Minute)
		cmd := exec.CommandContext(ctx, exe, "repro", id, f.ID, "-root", root, "-work", out)
		ob, _ := cmd.CombinedOutput()
		cancel()
		code := cmd.ProcessState.ExitCode()
		switch {
		case code == 3:
			knownLines[f.ID] = f.What
		case code == 0:
			stale = append(stale, f.ID)
		default:
			// the reproducer process died: only a finding whose matcher is "crash" expects that
			if f.Matcher == "crash" {
				knownLines[f.ID] = f.What
			} else {
				fmt.Printf("BROKEN: reproducer %s died (exit %d): %s\n", f.ID, code, Short(sanitize(string(ob)), 400))
				return 2
			}
		}
	}

	// 2. workload
	nshards := p.Shards
	if nshards <= 0 {
		nshards = 16
	}
	wd := p.WatchdogQuick
	if wd == 0 {
		wd = 900
	}
	if tier == "thorough" {
		wd = p.WatchdogThorough
		if wd == 0 {
			wd = 3 * 3600
		}
	}
	mem := p.MemMB
	if mem == 0 {
		mem = 3500
	}
	type wres struct {
		exit     int
		timedOut bool
		sig      string
	}
	results := make([]wres, nshards)
	var wg sync.WaitGroup
	sem := make(chan struct{}, 16)
	for s := 0; s < nshards; s++ {
		wg.Add(1)
		go func(s int) {
			defer wg.Done()
			sem <- struct{}{}
			defer func() { <-sem }()
			ctx, cancel := context.WithTimeout(context.Background(), time.Duration(wd)*time.Second)
			defer cancel()
			args := []string{"worker", id, "-tier", tier, "-seed", strconv.FormatInt(seed, 10),
				"-shard", strconv.Itoa(s), "-nshards", strconv.Itoa(nshards), "-out", out, "-root", root}
			var cmd *exec.Cmd
			if p.Race {
				cmd = exec.CommandContext(ctx, exe, args...)
			} else {
				sh := fmt.Sprintf("ulimit -v %d; exec \"$0\" \"$@\"", mem*1024)
				cmd = exec.CommandContext(ctx, "sh", append([]string{"-c", sh, exe}, args...)...)
			}
			cmd.Env = append(os.Environ(), "GOTRACEBACK=all", "VERIF_WORKER=1")
			if p.Race {
				// exploration mode: do not stop at the first report, collect them in per-process log files
				cmd.Env = append(cmd.Env, fmt.Sprintf("GORACE=halt_on_error=0 log_path=%s", filepath.Join(out, fmt.Sprintf("race.%d", s))))
			}
			so, _ := os.Create(filepath.Join(out, fmt.Sprintf("stdout.%d", s)))
			se, _ := os.Create(filepath.Join(out, fmt.Sprintf("stderr.%d", s)))
			cmd.Stdout, cmd.Stderr = so, se
			cmd.SysProcAttr = &syscall.SysProcAttr{Setpgid: true}
			cmd.Cancel = func() error {
				// QUIT first so the goroutine dump lands in stderr, then kill the group
				syscall.Kill(-cmd.Process.Pid, syscall.SIGQUIT)
				time.Sleep(2 * time.Second)
				return syscall.Kill(-cmd.Process.Pid, syscall.SIGKILL)
			}
			err := cmd.Run()
			so.Close()
			se.Close()
			r := wres{}
			if ctx.Err() == context.DeadlineExceeded {
				r.timedOut = true
			}
			if err != nil {
				r.exit = cmd.ProcessState.ExitCode()
				if ws, ok := cmd.ProcessState.Sys().(syscall.WaitStatus); ok && ws.Signaled() {
					r.sig = ws.Signal().String()
				}
				if r.exit == 0 {
					r.exit = -1
				}
			}
			results[s] = r
		}(s)
	}
	wg.Wait()

	// 3. merge
	total := Report{Counters: map[string]int64{}, Known: map[string]int64{}, KnownDetail: map[string]string{}, Inconclusive: map[string]int64{}}
	hashes := map[uint64]struct{}{}
	var viols []Violation
	broken := ""
	type hungCase struct {
		shard, k int
		v        Violation
	}
	var hungAll []hungCase
	for s := 0; s < nshards; s++ {
		var rep Report
		b, err := os.ReadFile(filepath.Join(out, fmt.Sprintf("report.%d.json", s)))
		if err == nil {
			json.Unmarshal(b, &rep)
		}
		total.Evaluations += rep.Evaluations
		for k, v := range rep.Counters {
			total.Counters[k] += v
		}
		for k, v := range rep.Known {
			total.Known[k] += v
		}
		for k, v := range rep.KnownDetail {
			if _, ok := total.KnownDetail[k]; !ok {
				total.KnownDetail[k] = v
			}
		}
		for k, v := range rep.Inconclusive {
			total.Inconclusive[k] += v
		}
		total.Notes = append(total.Notes, rep.Notes...)
		if len(total.Samples) < 6 {
			for _, sm := range rep.Samples {
				if len(total.Samples) < 6 {
					total.Samples = append(total.Samples, sm)
				}
			}
		}
		var hung []Violation
		for _, v := range rep.Violations {
			if strings.HasPrefix(v.What, "the case did not finish within") {
				hung = append(hung, v)
			} else {
				viols = append(viols, v)
			}
		}
		if hb, err := os.ReadFile(filepath.Join(out, fmt.Sprintf("hashes.%d.bin", s))); err == nil {
			for i := 0; i+8 <= len(hb); i += 8 {
				hashes[binary.LittleEndian.Uint64(hb[i:])] = struct{}{}
			}
		} else {
			total.Nontrivial += rep.Nontrivial // crashed shard: count from its last checkpoint
		}
		r := results[s]
		if rep.Done && r.exit == 0 {
			continue
		}
		// the worker did not finish
		inflight, has := ReadJournal(filepath.Join(out, fmt.Sprintf("journal.%d", s)))
		tail := tailFile(filepath.Join(out, fmt.Sprintf("stderr.%d", s)), 1500)
		if r.exit == 3 || len(hung) > 0 {
			// the worker itself reported a case that outlived the per-case wall-clock bound and stopped. The
			// bound is wall clock, so a stalled or overloaded machine can fire it too: the verdict is taken
			// from a second run of that case alone in a fresh process under a generous bound (10 minutes for
			// a case that takes milliseconds). Only a case that does not finish there either is reported as
			// non-terminating; one that finishes is counted inconclusive (and a violation the second run
			// reports by itself is kept).
			for k, hv := range hung {
				hungAll = append(hungAll, hungCase{s, k, hv})
			}
			total.Counters["shards_incomplete"]++
			continue
		}
		if r.timedOut {
			total.Inconclusive["worker_watchdog"]++
			total.Notes = append(total.Notes, fmt.Sprintf("shard %d hit the %ds wall-clock watchdog (inconclusive); case in flight: %s", s, wd, Short(string(inflight), 300)))
			continue
		}
		if !has {
			broken = fmt.Sprintf("worker %d died outside any case (exit %d %s): %s", s, r.exit, r.sig, Short(sanitize(tail), 600))
			continue
		}
		// re-run the case alone in a fresh process to see whether the death repeats
		repeat := false
		if p.Replay != nil {
			cf := filepath.Join(out, fmt.Sprintf("inflight.%d.json", s))
			rb, _ := json.Marshal(ReplayFile{Property: id, Tier: tier, Seed: seed, What: "in flight at worker death", Case: inflight})
			os.WriteFile(cf, rb, 0o644)
			ctx, cancel := context.WithTimeout(context.Background(), 5*time.Minute)
			sh := fmt.Sprintf("ulimit -v %d; exec \"$0\" \"$@\"", mem*1024)
			cmd := exec.CommandContext(ctx, "sh", "-c", sh, exe, "replay", cf, "-root", root)
			if p.Race {
				cmd = exec.CommandContext(ctx, exe, "replay", cf, "-root", root)
			}
			cmd.Run()
			cancel()
			code := cmd.ProcessState.ExitCode()
			repeat = code != 0 && code != 1 || ctx.Err() != nil
			if code == 1 {
				repeat = true // replay reproduced a violation by itself
			}
		} else {
			repeat = true
		}
		what := fmt.Sprintf("worker process died (exit %d %s) while running the case; repeatable=%v; stderr tail: %s", r.exit, r.sig, repeat, Short(sanitize(tail), 500))
		if repeat && p.CrashIsViolation {
			viols = append(viols, Violation{What: what, Case: inflight})
		} else {
			total.Inconclusive["worker_died"]++
			total.Notes = append(total.Notes, fmt.Sprintf("shard %d: %s", s, what))
		}
		total.Counters["shards_incomplete"]++
	}
	total.Nontrivial += int64(len(hashes))

	// second runs of the cases that outlived the per-case bound, all at once
	if len(hungAll) > 0 {
		type verdict struct {
			confirmed, timedOut bool
			code                int
		}
		vs := make([]verdict, len(hungAll))
		var hw sync.WaitGroup
		for i, hc := range hungAll {
			if p.Replay == nil {
				vs[i] = verdict{confirmed: true}
				continue
			}
			hw.Add(1)
			go func(i int, hc hungCase) {
				defer hw.Done()
				cf := filepath.Join(out, fmt.Sprintf("hung.%d.%d.json", hc.shard, hc.k))
				rb, _ := json.Marshal(ReplayFile{Property: id, Tier: tier, Seed: seed, What: hc.v.What, Case: hc.v.Case})
				os.WriteFile(cf, rb, 0o644)
				bound := 10 * time.Minute
				if v, err := strconv.Atoi(os.Getenv("VERIF_HANG_CONFIRM_SECONDS")); err == nil && v > 0 {
					bound = time.Duration(v) * time.Second // for testing the harness only
				}
				ctx, cancel := context.WithTimeout(context.Background(), bound)
				cmd := exec.CommandContext(ctx, exe, "replay", cf, "-root", root)
				cmd.Run()
				timedOut := ctx.Err() != nil
				cancel()
				code := -1
				if cmd.ProcessState != nil {
					code = cmd.ProcessState.ExitCode()
				}
				vs[i] = verdict{confirmed: timedOut || code == 1, timedOut: timedOut, code: code}
			}(i, hc)
		}
		hw.Wait()
		for i, hc := range hungAll {
			hv := hc.v
			if !vs[i].confirmed {
				total.Inconclusive["case_outlived_the_wall_clock_bound_but_finishes_alone"]++
				total.Notes = append(total.Notes, fmt.Sprintf("shard %d: a case outlived the per-case wall-clock bound but finished (exit %d) when run alone in a fresh process: machine stall, inconclusive; case: %s", hc.shard, vs[i].code, Short(string(hv.Case), 300)))
				continue
			}
			if vs[i].timedOut {
				hv.What += "; confirmed: the same case alone in a fresh process did not finish within its second, longer bound either"
			}
			viols = append(viols, hv)
		}
	}

	// race detector reports (counted from the log files, not from exit codes)
	if p.Race {
		files, _ := filepath.Glob(filepath.Join(out, "race.*"))
		dedup := map[string]string{}
		nrep := 0
		for _, f := range files {
			b, err := os.ReadFile(f)
			if err != nil {
				continue
			}
			for _, blk := range strings.Split(string(b), "==================") {
				if !strings.Contains(blk, "WARNING: DATA RACE") {
					continue
				}
				nrep++
				// de-duplicate by the function names of the two top frames
				var tops []string
				for _, ln := range strings.Split(blk, "\n") {
					t := strings.TrimSpace(ln)
					if strings.HasPrefix(t, "github.com/") || strings.HasPrefix(t, "verif/") || strings.HasPrefix(t, "main.") {
						// "pkg.(*T).Method(args)": cut the argument list, not the receiver
						if i := strings.LastIndex(t, "("); i > 0 {
							t = t[:i]
						}
						tops = append(tops, t)
						if len(tops) == 4 {
							break
						}
					}
				}
				dedup[strings.Join(tops, " | ")] = blk
			}
		}
		total.Counters["race_reports"] = int64(nrep)
		total.Counters["race_reports_distinct"] = int64(len(dedup))
		total.Counters["race_log_files"] = int64(len(files))
		for key, blk := range dedup {
			cb, _ := json.Marshal(map[string]string{"kind": "race-report", "frames": key, "report": Short(blk, 6000)})
			if strings.Contains(blk, "/repo/") {
				viols = append(viols, Violation{What: "DATA RACE reported by the Go race detector in interpreter code: " + key, Case: cb})
			} else {
				broken = "race report with both stacks outside /repo (harness race): " + key
			}
		}
	}

	// 4. replay files + verdict lines
	os.MkdirAll(filepath.Join(root, "replays"), 0o755)
	seen := map[string]bool{}
	nviol := 0
	for i := range viols {
		v := &viols[i]
		rf := ReplayFile{Property: id, Tier: tier, Seed: seed, What: v.What, Case: v.Case}
		b, _ := json.MarshalIndent(rf, "", " ")
		sum := sha1.Sum(v.Case)
		name := fmt.Sprintf("%s-%s.json", id, hex.EncodeToString(sum[:6]))
		if seen[name] {
			continue
		}
		seen[name] = true
		path := filepath.Join(root, "replays", name)
		os.WriteFile(path, b, 0o644)
		v.Path = path
		nviol++
		fmt.Printf("VIOLATION property=%s replay=%s\n", id, path)
		fmt.Printf("  what: %s\n", Short(sanitize(v.What), 700))
	}
	var kids []string
	for k := range knownLines {
		kids = append(kids, k)
	}
	sort.Strings(kids)
	for _, k := range kids {
		fmt.Printf("KNOWN-FINDING: property=%s %s [%s; pinned reproducer still fails; workload cases attributed: %d]\n", id, knownLines[k], k, total.Known[k])
	}
	for k, n := range total.Known {
		if _, ok := knownLines[k]; !ok {
			// the matcher absorbed cases although the reproducer did not fail: that is a violation of the protocol
			fmt.Printf("BROKEN: %d workload cases attributed to finding %s whose pinned reproducer does not fail\n", n, k)
			broken = "attribution without failing reproducer: " + k
		}
	}
	for _, k := range stale {
		fmt.Printf("note: open finding %s no longer reproduces on this tree\n", k)
	}

	wall := time.Since(start).Seconds()
	cov := map[string]any{
		"evaluations":               total.Evaluations,
		"distinct_nontrivial":       total.Nontrivial,
		"rule":                      p.Rule,
		"samples":                   total.Samples,
		"observed":                  total.Counters,
		"inconclusive":              total.Inconclusive,
		"known_findings_attributed": total.Known,
		"known_findings_reproduced": kids,
		"shards":                    nshards,
	}
	if p.Exhaustive {
		cov["exhaustive"] = true
	}
	if len(total.Notes) > 0 {
		if len(total.Notes) > 30 {
			total.Notes = total.Notes[:30]
		}
		cov["notes"] = total.Notes
	}
	if total.Samples == nil {
		cov["samples"] = []any{}
	}
	ev := map[string]any{
		"property_id": id,
		"tier":        tier,
		"seed":        seed,
		"level":       p.Level,
		"coverage":    cov,
		"assumptions": p.Assumptions,
		"wall_s":      float64(int(wall*10)) / 10,
		"violations":  nviol,
	}
	os.MkdirAll(filepath.Join(root, "evidence"), 0o755)
	eb, _ := json.MarshalIndent(ev, "", " ")
	os.WriteFile(filepath.Join(root, "evidence", id+".json"), append(eb, '\n'), 0o644)

	var inc int64
	for _, n := range total.Inconclusive {
		inc += n
	}
	fmt.Printf("%s %s seed=%d: evaluations=%d distinct_nontrivial=%d violations=%d known=%d inconclusive=%d wall=%.1fs\n",
		id, tier, seed, total.Evaluations, total.Nontrivial, nviol, len(kids), inc, wall)
	var ckeys []string
	for k := range total.Counters {
		ckeys = append(ckeys, k)
	}
	sort.Strings(ckeys)
	var sb strings.Builder
	for _, k := range ckeys {
		fmt.Fprintf(&sb, " %s=%d", k, total.Counters[k])
	}
	fmt.Printf("  observed:%s\n", Short(sb.String(), 3000))
	for k, n := range total.Inconclusive {
		fmt.Printf("  inconclusive: %s=%d\n", k, n)
	}
	for _, n := range total.Notes {
		fmt.Printf("  note: %s\n", Short(sanitize(n), 400))
	}
	if nviol > 0 {
		return 1
	}
	if broken != "" {
		fmt.Printf("BROKEN: %s\n", broken)
		return 2
	}
	if total.Evaluations == 0 || total.Nontrivial < 2 {
		fmt.Printf("BROKEN: the monitors observed nothing (evaluations=%d, non-trivial=%d)\n", total.Evaluations, total.Nontrivial)
		return 2
	}
	return 0
}

func tailFile(path string, n int) string {
	b, err := os.ReadFile(path)
	if err != nil {
		return ""
	}
	// prefer the head of a Go fatal error / panic message when present
	s := string(b)
	for _, marker := range []string{"fatal error:", "panic:", "WARNING: DATA RACE"} {
		if i := strings.Index(s, marker); i >= 0 {
			e := i + n
			if e > len(s) {
				e = len(s)
			}
			return s[i:e]
		}
	}
	if len(s) > n {
		s = s[len(s)-n:]
	}
	return s
}

// RunRepro is the body of `vcheck repro`: exit 3 = still fails, 0 = no longer fails.
func RunRepro(id, fid, root, work string) int {
	p := Lookup(id)
	if p == nil || p.Reproducers == nil || p.Reproducers[fid] == nil {
		fmt.Fprintln(os.Stderr, "no reproducer", id, fid)
		return 2
	}
	w, _ := os.MkdirTemp(work, "repro")
	c := newCtx(p, "quick", 1, 0, 1, w, root)
	fails, detail := p.Reproducers[fid](c)
	if fails {
		fmt.Printf("still fails: %s\n", detail)
		return 3
	}
	fmt.Printf("no longer fails: %s\n", detail)
	return 0
}
