// Package fw is the small framework every property check is written against:
// worker context (seeded PRNG, counters, samples, violations, known-finding
// bookkeeping, journal of the case in flight) and the driver that shards a
// check over worker sub-processes, merges their reports and writes evidence.
package fw

import (
	"encoding/binary"
	"encoding/json"
	"fmt"
	"hash/fnv"
	"math/rand"
	"os"
	"path/filepath"
	"sort"
	"strings"
	"sync"
	"time"
)

// Prop describes one property check.
type Prop struct {
	ID          string
	Level       string // exploration | fault_enumeration | ...
	Rule        string
	Assumptions []string
	// A repeatable worker death while a case is in flight is a violation
	// (true) or inconclusive (false).
	CrashIsViolation bool
	// Number of worker shards (0 = default 16).
	Shards int
	// Needs the race-detector binary.
	Race bool
	// Run executes this shard's part of the workload.
	Run func(c *Ctx)
	// Replay re-executes one recorded case (the "case" member of a replay file).
	Replay func(c *Ctx, raw json.RawMessage)
	// Reproducers: finding id -> function that re-runs the pinned reproducer
	// and reports whether it still fails in the recorded way.
	Reproducers map[string]func(c *Ctx) (stillFails bool, detail string)
	// Exhaustive is set when the run enumerates a finite space completely.
	Exhaustive bool
	// Per-worker wall-clock watchdog (seconds) per tier; 0 = default.
	WatchdogQuick, WatchdogThorough int
	// Memory cap per worker in MB (ulimit -v); 0 = default 6000.
	MemMB int
	// HangSeconds > 0: a single case in flight for longer than this many
	// seconds of wall clock is reported as a violation ("does not terminate").
	// Only for checks whose cases are known to be tiny (the reference model
	// finished the same program within its step budget): the margin between
	// the normal case time (< 10 ms) and this limit must be >= 1000x.
	HangSeconds int
}

var registry = map[string]*Prop{}

func Register(p *Prop) { registry[p.ID] = p }
func Lookup(id string) *Prop {
	return registry[id]
}
func IDs() []string {
	var ids []string
	for k := range registry {
		ids = append(ids, k)
	}
	sort.Strings(ids)
	return ids
}

// Violation is one refuting observation.
type Violation struct {
	What string          `json:"what"`
	Case json.RawMessage `json:"case"`
	Path string          `json:"path,omitempty"`
}

// Report is what one worker hands back to the driver.
type Report struct {
	Shard        int               `json:"shard"`
	Evaluations  int64             `json:"evaluations"`
	Nontrivial   int64             `json:"nontrivial"`
	Counters     map[string]int64  `json:"counters"`
	Samples      []any             `json:"samples"`
	Violations   []Violation       `json:"violations"`
	Known        map[string]int64  `json:"known"`
	KnownDetail  map[string]string `json:"known_detail"`
	Inconclusive map[string]int64  `json:"inconclusive"`
	Notes        []string          `json:"notes"`
	Done         bool              `json:"done"`
}

// Ctx is the per-worker context.
type Ctx struct {
	Prop    *Prop
	Tier    string
	Seed    int64
	Shard   int
	NShards int
	R       *rand.Rand
	Work    string // scratch directory of this worker (removed by the driver)
	Root    string // /verif

	mu        sync.Mutex
	rep       Report
	hashes    map[uint64]struct{}
	journal   *os.File
	inflight  []byte
	hangLimit int // per-case override of Prop.HangSeconds (0 = none)
	since     time.Time
	findings  []Finding
	maxViol   int
	replay    bool
}

func (c *Ctx) Quick() bool { return c.Tier != "thorough" }

// Pick returns q in the quick tier and t in the thorough tier.
func (c *Ctx) Pick(q, t int) int {
	if c.Quick() {
		return q
	}
	return t
}

// Share returns this shard's share of a total of n cases (n split evenly,
// remainder to the low shards).
func (c *Ctx) Share(n int) int {
	k := n / c.NShards
	if c.Shard < n%c.NShards {
		k++
	}
	return k
}

// Mine reports whether global case index i belongs to this shard.
func (c *Ctx) Mine(i int) bool { return i%c.NShards == c.Shard }

// SubRand returns a PRNG determined by (seed, property, tag, i) only.
func (c *Ctx) SubRand(tag string, i int) *rand.Rand {
	h := fnv.New64a()
	fmt.Fprintf(h, "%s/%d/%s/%d", c.Prop.ID, c.Seed, tag, i)
	return rand.New(rand.NewSource(int64(h.Sum64())))
}

// Begin journals the case about to run so that a crash can be attributed.
// HangLimit sets the wall-clock bound for the cases begun from now on (0 =
// the property's HangSeconds). For properties whose cases differ by orders of
// magnitude in legitimate duration.
func (c *Ctx) HangLimit(seconds int) {
	c.mu.Lock()
	c.hangLimit = seconds
	c.mu.Unlock()
}

func (c *Ctx) Begin(desc any) {
	if c.journal == nil {
		return
	}
	b, err := json.Marshal(desc)
	if err != nil {
		b = []byte(fmt.Sprintf("%q", fmt.Sprint(desc)))
	}
	c.mu.Lock()
	c.inflight, c.since = b, time.Now()
	c.mu.Unlock()
	var hdr [8]byte
	binary.LittleEndian.PutUint64(hdr[:], uint64(len(b)))
	c.journal.WriteAt(append(hdr[:], b...), 0)
}

// BeginRaw journals raw bytes (e.g. a source text) cheaply.
func (c *Ctx) BeginRaw(kind string, b []byte) {
	if c.journal == nil {
		return
	}
	c.Begin(map[string]any{"kind": kind, "bytes": b})
}

// End closes the case in flight. key identifies the case for distinctness;
// nontrivial states whether it counts by the property's rule.
func (c *Ctx) End(nontrivial bool, key string) {
	c.mu.Lock()
	c.inflight = nil
	c.rep.Evaluations++
	if nontrivial {
		h := fnv.New64a()
		h.Write([]byte(key))
		c.hashes[h.Sum64()] = struct{}{}
	}
	c.mu.Unlock()
	if c.journal != nil {
		var hdr [8]byte
		c.journal.WriteAt(hdr[:], 0)
	}
}

func (c *Ctx) Count(key string, n int64) {
	c.mu.Lock()
	c.rep.Counters[key] += n
	c.mu.Unlock()
}

func (c *Ctx) Counter(key string) int64 {
	c.mu.Lock()
	defer c.mu.Unlock()
	return c.rep.Counters[key]
}

// Sample keeps up to 3 samples per worker (the driver keeps a handful overall).
func (c *Ctx) Sample(v any) {
	c.mu.Lock()
	if len(c.rep.Samples) < 3 {
		c.rep.Samples = append(c.rep.Samples, v)
	}
	c.mu.Unlock()
}

func (c *Ctx) WantSample() bool {
	c.mu.Lock()
	defer c.mu.Unlock()
	return len(c.rep.Samples) < 3
}

func (c *Ctx) Note(format string, a ...any) {
	c.mu.Lock()
	if len(c.rep.Notes) < 20 {
		c.rep.Notes = append(c.rep.Notes, fmt.Sprintf(format, a...))
	}
	c.mu.Unlock()
}

// Violation records a refuting observation together with the full case.
func (c *Ctx) Violation(what string, caseData any) {
	b, err := json.Marshal(caseData)
	if err != nil {
		b, _ = json.Marshal(fmt.Sprint(caseData))
	}
	c.mu.Lock()
	defer c.mu.Unlock()
	if c.replay {
		fmt.Printf("REPLAY-VIOLATION property=%s %s\n", c.Prop.ID, what)
	}
	if len(c.rep.Violations) >= c.maxViol {
		c.rep.Counters["violations_dropped"]++
		return
	}
	c.rep.Violations = append(c.rep.Violations, Violation{What: what, Case: b})
}

func (c *Ctx) NumViolations() int {
	c.mu.Lock()
	defer c.mu.Unlock()
	return len(c.rep.Violations)
}

// Inconclusive counts a case that could not be decided.
func (c *Ctx) Inconclusive(reason string) {
	c.mu.Lock()
	c.rep.Inconclusive[reason]++
	c.mu.Unlock()
}

// FindingOpen reports whether known_findings.json lists id as open for this property.
func (c *Ctx) FindingOpen(id string) bool {
	for _, f := range c.findings {
		if f.ID == id && f.Property == c.Prop.ID && f.Status == "open" {
			return true
		}
	}
	return false
}

// Finding returns the entry (open or fixed) or nil.
func (c *Ctx) Finding(id string) *Finding {
	for i, f := range c.findings {
		if f.ID == id {
			return &c.findings[i]
		}
	}
	return nil
}

// Known attributes the current divergence to an open finding. The caller
// must have checked FindingOpen(id) and its matcher first.
func (c *Ctx) Known(id string, detail string) {
	c.mu.Lock()
	c.rep.Known[id]++
	if _, ok := c.rep.KnownDetail[id]; !ok {
		c.rep.KnownDetail[id] = detail
	}
	c.mu.Unlock()
}

// ViolationOrKnown files the divergence under finding id when that finding is
// listed as open and matched is true; otherwise it is a violation.
func (c *Ctx) ViolationOrKnown(id string, matched bool, what string, caseData any) {
	if matched && c.FindingOpen(id) {
		c.Known(id, what)
		return
	}
	c.Violation(what, caseData)
}

// Finding is one entry of /verif/known_findings.json.
type Finding struct {
	ID         string          `json:"id"`
	Property   string          `json:"property"`
	Status     string          `json:"status"` // open | fixed
	Commit     string          `json:"commit,omitempty"`
	What       string          `json:"what"`
	Matcher    string          `json:"matcher,omitempty"`
	Reproducer json.RawMessage `json:"reproducer,omitempty"`
}

type findingsFile struct {
	Findings []Finding `json:"findings"`
	Fixed    []string  `json:"fixed_log,omitempty"`
}

func LoadFindings(root string) ([]Finding, error) {
	b, err := os.ReadFile(filepath.Join(root, "known_findings.json"))
	if err != nil {
		if os.IsNotExist(err) {
			return nil, nil
		}
		return nil, err
	}
	var ff findingsFile
	if err := json.Unmarshal(b, &ff); err != nil {
		return nil, err
	}
	return ff.Findings, nil
}

func newCtx(p *Prop, tier string, seed int64, shard, nshards int, work, root string) *Ctx {
	h := fnv.New64a()
	fmt.Fprintf(h, "%s/%d/%d", p.ID, seed, shard)
	c := &Ctx{
		Prop: p, Tier: tier, Seed: seed, Shard: shard, NShards: nshards,
		R:    rand.New(rand.NewSource(int64(h.Sum64()))),
		Work: work, Root: root,
		hashes:  map[uint64]struct{}{},
		maxViol: 5,
	}
	c.rep = Report{Shard: shard, Counters: map[string]int64{}, Known: map[string]int64{},
		KnownDetail: map[string]string{}, Inconclusive: map[string]int64{}}
	c.findings, _ = LoadFindings(root)
	return c
}

// RunWorker is the body of `vcheck worker`.
func RunWorker(id, tier string, seed int64, shard, nshards int, out, root string) int {
	p := Lookup(id)
	if p == nil {
		fmt.Fprintln(os.Stderr, "unknown property", id)
		return 2
	}
	work := filepath.Join(out, fmt.Sprintf("w%d", shard))
	os.MkdirAll(work, 0o755)
	c := newCtx(p, tier, seed, shard, nshards, work, root)
	j, err := os.OpenFile(filepath.Join(out, fmt.Sprintf("journal.%d", shard)), os.O_CREATE|os.O_RDWR|os.O_TRUNC, 0o644)
	if err == nil {
		c.journal = j
	}
	// periodic checkpoint of the report so that a crash keeps the counters
	stop := make(chan struct{})
	var wg sync.WaitGroup
	wg.Add(1)
	go func() {
		defer wg.Done()
		t := time.NewTicker(2 * time.Second)
		defer t.Stop()
		for {
			select {
			case <-stop:
				return
			case <-t.C:
				c.writeReport(out, false)
				if p.HangSeconds > 0 {
					c.mu.Lock()
					limit := p.HangSeconds
					if c.hangLimit > 0 {
						limit = c.hangLimit
					}
					stuck := c.inflight != nil && time.Since(c.since) > time.Duration(limit)*time.Second
					var cs json.RawMessage
					if stuck {
						cs = append(json.RawMessage(nil), c.inflight...)
						c.rep.Violations = append(c.rep.Violations, Violation{
							What: fmt.Sprintf("the case did not finish within %d s of wall clock although such cases normally take milliseconds (non-termination)", limit), Case: cs})
						c.inflight = nil
					}
					c.mu.Unlock()
					if stuck {
						c.writeReport(out, false)
						os.Exit(3)
					}
				}
			}
		}
	}()
	p.Run(c)
	close(stop)
	wg.Wait()
	c.writeReport(out, true)
	return 0
}

func (c *Ctx) writeReport(out string, done bool) {
	c.mu.Lock()
	c.rep.Done = done
	c.rep.Nontrivial = int64(len(c.hashes))
	b, _ := json.Marshal(&c.rep)
	hs := make([]byte, 0, 8*len(c.hashes))
	if done {
		var buf [8]byte
		for h := range c.hashes {
			binary.LittleEndian.PutUint64(buf[:], h)
			hs = append(hs, buf[:]...)
		}
	}
	c.mu.Unlock()
	tmp := filepath.Join(out, fmt.Sprintf("report.%d.tmp", c.Shard))
	os.WriteFile(tmp, b, 0o644)
	os.Rename(tmp, filepath.Join(out, fmt.Sprintf("report.%d.json", c.Shard)))
	if done {
		os.WriteFile(filepath.Join(out, fmt.Sprintf("hashes.%d.bin", c.Shard)), hs, 0o644)
	}
}

// ReadJournal returns the case in flight recorded in a journal file, if any.
func ReadJournal(path string) (json.RawMessage, bool) {
	b, err := os.ReadFile(path)
	if err != nil || len(b) < 8 {
		return nil, false
	}
	n := binary.LittleEndian.Uint64(b[:8])
	if n == 0 || int(n) > len(b)-8 {
		return nil, false
	}
	return json.RawMessage(b[8 : 8+n]), true
}

// ReplayFile is the on-disk format of a replay.
type ReplayFile struct {
	Property string          `json:"property"`
	Tier     string          `json:"tier"`
	Seed     int64           `json:"seed"`
	What     string          `json:"what"`
	Case     json.RawMessage `json:"case"`
}

// RunReplay re-executes one replay file in-process.
func RunReplay(path, root string) int {
	b, err := os.ReadFile(path)
	if err != nil {
		fmt.Fprintln(os.Stderr, err)
		return 2
	}
	var rf ReplayFile
	if err := json.Unmarshal(b, &rf); err != nil {
		fmt.Fprintln(os.Stderr, err)
		return 2
	}
	p := Lookup(rf.Property)
	if p == nil || p.Replay == nil {
		fmt.Fprintln(os.Stderr, "no replay for", rf.Property)
		return 2
	}
	work, _ := os.MkdirTemp(filepath.Join(root, ".work"), "replay")
	defer os.RemoveAll(work)
	c := newCtx(p, rf.Tier, rf.Seed, 0, 1, work, root)
	c.replay = true
	p.Replay(c, rf.Case)
	if len(c.rep.Violations) > 0 || len(c.rep.Known) > 0 {
		for _, v := range c.rep.Violations {
			fmt.Printf("reproduced: %s\n", v.What)
		}
		for k, d := range c.rep.KnownDetail {
			fmt.Printf("reproduced as known finding %s: %s\n", k, d)
		}
		return 1
	}
	fmt.Println("replay: no violation observed")
	return 0
}

// Short trims a string for messages.
func Short(s string, n int) string {
	if len(s) <= n {
		return s
	}
	return s[:n] + "…"
}

func sanitize(s string) string {
	return strings.Map(func(r rune) rune {
		if r == '\n' || r == '\r' {
			return ' '
		}
		return r
	}, s)
}
