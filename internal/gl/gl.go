// Package gl holds the helpers every check uses to drive the real gopher-lua:
// protected execution with Go-panic capture, value canonicalisation for
// traces, and the universal canaries.
package gl

import (
	"fmt"
	"regexp"
	"strconv"
	"strings"

	lua "github.com/yuin/gopher-lua"

	"verif/internal/canon"
)

// Outcome of running something on the implementation.
type Outcome struct {
	Err      error  // error returned by DoString/PCall/...
	GoPanic  any    // non-nil if a Go panic escaped the API call
	PanicStr string // its text
}

// Protect runs f and captures a Go panic escaping from it.
func Protect(f func() error) (o Outcome) {
	defer func() {
		if r := recover(); r != nil {
			o.GoPanic = r
			o.PanicStr = fmt.Sprint(r)
		}
	}()
	o.Err = f()
	return
}

var rtErrRe = regexp.MustCompile(`runtime error:|index out of range|nil pointer dereference|interface conversion|slice bounds out of range|makeslice|invalid memory address`)

// IsGoRuntimeErrorText reports whether an error text shows a Go run-time fault
// surfacing through the interpreter (universal canary 4.5).
func IsGoRuntimeErrorText(s string) bool { return rtErrRe.MatchString(s) }

// IDMap canonicalises reference values by order of first appearance.
type IDMap struct {
	ids map[any]int
}

func NewIDMap() *IDMap { return &IDMap{ids: map[any]int{}} }

func (m *IDMap) ID(p any) int {
	if id, ok := m.ids[p]; ok {
		return id
	}
	id := len(m.ids) + 1
	m.ids[p] = id
	return id
}

// NumStr renders a float64 for traces (see canon.NumStr).
func NumStr(f float64) string { return canon.NumStr(f) }

// Canon renders an LValue for a trace.
func Canon(v lua.LValue, m *IDMap) string {
	switch x := v.(type) {
	case *lua.LNilType:
		return "nil"
	case lua.LBool:
		if bool(x) {
			return "true"
		}
		return "false"
	case lua.LNumber:
		return NumStr(float64(x))
	case lua.LString:
		return strconv.Quote(string(x))
	case *lua.LTable:
		return "table#" + strconv.Itoa(m.ID(x))
	case *lua.LFunction:
		return "function#" + strconv.Itoa(m.ID(x))
	case *lua.LUserData:
		return "userdata#" + strconv.Itoa(m.ID(x))
	case *lua.LState:
		return "thread#" + strconv.Itoa(m.ID(x))
	case lua.LChannel:
		return "channel"
	}
	if v == nil {
		return "<go-nil>"
	}
	return "<" + v.Type().String() + ">"
}

// CanonList renders a list of values.
func CanonList(vs []lua.LValue, m *IDMap) string {
	var sb strings.Builder
	for i, v := range vs {
		if i > 0 {
			sb.WriteByte(',')
		}
		sb.WriteString(Canon(v, m))
	}
	return sb.String()
}

// Call calls fn protected with MultRet and returns results, error and Go panic.
func Call(L *lua.LState, fn lua.LValue, args ...lua.LValue) (res []lua.LValue, o Outcome) {
	top := L.GetTop()
	o = Protect(func() error {
		return L.CallByParam(lua.P{Fn: fn, NRet: lua.MultRet, Protect: true}, args...)
	})
	if o.GoPanic != nil || o.Err != nil {
		if L.GetTop() > top {
			L.SetTop(top)
		}
		return nil, o
	}
	n := L.GetTop() - top
	for i := 1; i <= n; i++ {
		res = append(res, L.Get(top+i))
	}
	L.SetTop(top)
	return res, o
}

// MustLoad compiles a helper chunk and runs it, returning its first result.
func MustLoad(L *lua.LState, src string) lua.LValue {
	fn, err := L.LoadString(src)
	if err != nil {
		panic("harness chunk does not load: " + err.Error())
	}
	L.Push(fn)
	if err := L.PCall(0, 1, nil); err != nil {
		panic("harness chunk failed: " + err.Error())
	}
	v := L.Get(-1)
	L.Pop(1)
	return v
}

// Balanced checks the top-level state balance canary.
func Balanced(L *lua.LState) string {
	s := lua.VerifSnapshot(L)
	if L.GetTop() != 0 {
		return fmt.Sprintf("GetTop()=%d at top level", L.GetTop())
	}
	if s.Sp != 0 {
		return fmt.Sprintf("call depth Sp=%d at top level", s.Sp)
	}
	if s.HasFrame {
		return "current frame present at top level"
	}
	for i, r := range s.OpenUpvalues {
		if r >= s.RegTop && !s.OpenUpvaluesClosed[i] {
			return fmt.Sprintf("open upvalue at register %d >= top %d", r, s.RegTop)
		}
	}
	return ""
}

// ErrText returns the text of an error value (nil-safe).
func ErrText(err error) string {
	if err == nil {
		return ""
	}
	return err.Error()
}

// ErrObject returns the Lua value carried by an ApiError, if any.
func ErrObject(err error) lua.LValue {
	if ae, ok := err.(*lua.ApiError); ok {
		return ae.Object
	}
	return nil
}
