// Package c16: text <-> value round trips (string literals, numerals read four
// ways, %q, tostring/tonumber, os.date/os.time), decided by running the real
// lexer/compiler/libraries on enumerated and generated inputs and comparing
// each observation with small models written from the Lua 5.1 manual.
package c16

import (
	"encoding/json"
	"fmt"
	"strconv"
	"time"

	lua "github.com/yuin/gopher-lua"

	"verif/internal/fw"
	"verif/internal/gl"
)

// Finding ids (known_findings.json).
const (
	fOctal    = "C16-parsenumber-octal-leading-zero"
	fGoSyntax = "C16-parsenumber-go-only-syntax"
	fRange    = "C16-parsenumber-range-error"
	fTonumber = "C16-tonumber-adhoc-reader"
	fLexExp   = "C16-lexer-exponent-no-digits"
	fLexDot   = "C16-lexer-leading-dot-second-fraction"
	fQuote    = "C16-format-q-go-quoting"
	fStrftime = "C16-strftime-table-a-c-x"
	fYday     = "C16-osdate-yday-zero"
)

func init() {
	fw.Register(&fw.Prop{
		ID:    "C16",
		Level: "exploration",
		Rule: "one case = one input (byte string / numeral spelling+route / base+string / float64 / timestamp+zone) compared with a model; " +
			"lit: every 0-,1-,2-byte string in every short-literal rendering (raw, named escape, \\d, \\dd, \\ddd, line continuation; both quotes; full cross product per byte) and every safe long-bracket level 0-3 with each newline style, plus seeded random strings to 200 bytes - non-trivial = string non-empty; " +
			"q: same strings through string.format('%q') and loadstring - non-trivial = the string contains a byte outside printable ASCII or a quote/backslash; " +
			"num: all strings over a 12/16-symbol numeral alphabet up to length 5/6 + a fixed negative list + seeded grammar-generated numerals with blank/sign/mutation variants, each read as literal (when it is a single numeral token or a certain syntax error), tonumber, s+0, -s, math.max(s) - non-trivial = not a plain decimal integer of <=15 digits without leading zero; " +
			"base: tonumber(s,b) for b=2..36 over all strings of length 1-3 from a per-base alphabet of valid/invalid digits, signs, blank, '.', '_', 'x' + seeded longer digit strings - non-trivial = base != 10; " +
			"rt: tonumber(tostring(x))==x over a special pool and seeded random bit patterns - non-trivial = x is not an integer below 2^31; " +
			"date: os.date('*t')/os.time/os.date(format) in UTC and two fixed-offset zones for every 7919th second 1970-2100 and every second of selected days - every timestamp is non-trivial; distinct by content hash",
		Assumptions: []string{
			"strconv.ParseFloat on a normalised plain decimal spelling (digits 'e' exponent) is a correctly rounded decimal->float64 conversion; uint64->float64 conversion is correctly rounded",
			"a numeral is what Lua 5.1 section 2.1 and tonumber in section 5.1 describe: decimal digits with optional fraction and optional decimal exponent, or 0x/0X followed by hex digits; an optional sign directly before a decimal numeral is accepted in strings (what every 5.1 user relies on); blanks are space, tab and newline (other isspace characters, signed hex, hex with more than 16 digits, NUL bytes, signs with an explicit base, 0x with an explicit base are not asserted)",
			"a decimal numeral whose correctly rounded value exceeds the float64 range denotes +inf (IEEE round-to-nearest, and what strtod gives the reference implementation)",
			"the time zone is switched by assigning time.Local to a time.FixedZone in the worker process; the implementation reads the zone only through time.Local (time.Unix, time.Date(...,time.Local))",
			"strftime in the C locale: %a %A %b %B English names, %c = '%a %b %e %H:%M:%S %Y', %x = '%m/%d/%y', %X = '%H:%M:%S', %p AM/PM, %P am/pm (glibc), %z +hhmm, %Z the zone abbreviation",
		},
		CrashIsViolation: true,
		Exhaustive:       false,
		Run:              run,
		Replay:           replay,
		Reproducers:      reproducers,
	})
}

// Case is one recorded case (also the replay format).
type Case struct {
	K     string `json:"k"`               // lit | q | num | base | rt | date
	S     []byte `json:"s,omitempty"`     // lit/q: intended bytes; num/base: the string handed to the reader
	Show  string `json:"show,omitempty"`  // S, Go-quoted, for the human reader only
	Src   []byte `json:"src,omitempty"`   // lit: the chunk source
	Form  string `json:"form,omitempty"`  // lit: description of the rendering
	Route string `json:"route,omitempty"` // num: literal | tonumber | add | unm | lib
	Base  int    `json:"base,omitempty"`  // base
	X     uint64 `json:"x,omitempty"`     // rt: float64 bits
	T     int64  `json:"t,omitempty"`     // date
	Zone  string `json:"zone,omitempty"`  // date
	Fmt   string `json:"fmt,omitempty"`   // date: format string
}

// div is one divergence between implementation and model.
type div struct {
	What    string
	Got     string
	Finding string // "" = plain violation; otherwise the finding whose matcher holds
}

func (d *div) report(c *fw.Ctx, cs Case) {
	if d.Finding != "" {
		c.ViolationOrKnown(d.Finding, true, d.What, cs)
	} else {
		c.Violation(d.What, cs)
	}
}

const helpers = `
local tonumber, tostring, loadstring, format, max = tonumber, tostring, loadstring, string.format, math.max
local date, time = os.date, os.time
return {
  tn   = function(s) return tonumber(s) end,
  tnb  = function(s, b) return tonumber(s, b) end,
  add  = function(s) return s + 0 end,
  unm  = function(s) return -s end,
  lib  = function(s) return max(s) end,
  q    = function(s)
           local q = format("%q", s)
           local f, e = loadstring("return " .. q)
           if not f then return q, false, e end
           return q, true, f()
         end,
  rt   = function(x) local s = tostring(x); return s, tonumber(s) end,
  date = function(t, fmt)
           local d = date("*t", t)
           return d.year, d.month, d.day, d.hour, d.min, d.sec, d.wday, d.yday, d.isdst, time(d), date(fmt, t)
         end,
  udate = function(t, fmt)
           local d = date("!*t", t)
           return d.year, d.month, d.day, d.hour, d.min, d.sec, d.wday, d.yday, d.isdst, date("!" .. fmt, t)
         end,
}
`

type env struct {
	L                                          *lua.LState
	tn, tnb, add, unm, lib, q, rt, date, udate lua.LValue
}

func newEnv() *env {
	L := lua.NewState()
	e := &env{L: L}
	h := gl.MustLoad(L, helpers).(*lua.LTable)
	e.tn = h.RawGetString("tn")
	e.tnb = h.RawGetString("tnb")
	e.add = h.RawGetString("add")
	e.unm = h.RawGetString("unm")
	e.lib = h.RawGetString("lib")
	e.q = h.RawGetString("q")
	e.rt = h.RawGetString("rt")
	e.date = h.RawGetString("date")
	e.udate = h.RawGetString("udate")
	return e
}

// holder owns the state and replaces it after a Go panic (the state may be
// inconsistent then).
type holder struct{ e *env }

func (h *holder) get() *env {
	if h.e == nil {
		h.e = newEnv()
	}
	return h.e
}

func (h *holder) poison() {
	if h.e != nil {
		h.e.L.Close()
		h.e = nil
	}
}

// canary maps an outcome to the universal-canary divergences.
func canary(h *holder, o gl.Outcome, where string) *div {
	if o.GoPanic != nil {
		h.poison()
		return &div{What: "Go panic escaped from " + where + ": " + fw.Short(o.PanicStr, 300), Got: "panic"}
	}
	if o.Err != nil && gl.IsGoRuntimeErrorText(o.Err.Error()) {
		return &div{What: "Go run-time fault surfaced from " + where + ": " + fw.Short(o.Err.Error(), 300), Got: "goruntime"}
	}
	return nil
}

func show(b []byte) string { return strconv.Quote(string(b)) }

func canon(vs []lua.LValue) string { return gl.CanonList(vs, gl.NewIDMap()) }

func run(c *fw.Ctx) {
	h := &holder{}
	// wall-clock is used for the informational per-clause cost note only
	for _, cl := range []struct {
		name string
		f    func(*fw.Ctx, *holder)
	}{{"lit", runLit}, {"q", runQuote}, {"num", runNum}, {"base", runBase}, {"rt", runRT}, {"date", runDate}} {
		t0 := time.Now()
		cl.f(c, h)
		if c.Shard == 0 {
			c.Note("shard 0 clause %s took %.1fs", cl.name, time.Since(t0).Seconds())
		}
	}
	h.poison()
}

func checkCase(c *fw.Ctx, h *holder, cs *Case) *div {
	switch cs.K {
	case "lit":
		return checkLit(h, cs)
	case "q":
		return checkQuote(h, cs)
	case "num":
		return checkNum(c, h, cs, false)
	case "base":
		return checkBase(c, h, cs, false)
	case "rt":
		return checkRT(c, h, cs, false)
	case "date", "yday":
		return checkDate(c, h, cs, false)
	}
	return &div{What: "unknown case kind " + cs.K}
}

func replay(c *fw.Ctx, raw json.RawMessage) {
	var cs Case
	if err := json.Unmarshal(raw, &cs); err != nil {
		fmt.Println("bad case:", err)
		return
	}
	h := &holder{}
	defer h.poison()
	if d := checkCase(c, h, &cs); d != nil {
		d.report(c, cs)
	}
}

// reproducer helper: the pinned case must still diverge, be attributed to the
// same finding and show the recorded observation.
func pinned(id string, cs Case, wantGot string) func(c *fw.Ctx) (bool, string) {
	return func(c *fw.Ctx) (bool, string) {
		h := &holder{}
		defer h.poison()
		d := checkCase(c, h, &cs)
		if d == nil {
			return false, "no divergence"
		}
		return d.Finding == id && d.Got == wantGot, d.What
	}
}

var reproducers = map[string]func(c *fw.Ctx) (bool, string){
	fOctal:    pinned(fOctal, Case{K: "num", S: []byte("0010"), Route: "literal"}, "8"),
	fGoSyntax: pinned(fGoSyntax, Case{K: "num", S: []byte("0b11"), Route: "add"}, "3"),
	fRange:    pinned(fRange, Case{K: "num", S: []byte("1e999"), Route: "literal"}, "nan"),
	fTonumber: pinned(fTonumber, Case{K: "num", S: []byte("1e2"), Route: "tonumber"}, "nil"),
	fLexExp:   pinned(fLexExp, Case{K: "num", S: []byte("1e"), Route: "literal"}, "nan"),
	fLexDot:   pinned(fLexDot, Case{K: "num", S: []byte(".0.1"), Route: "literal"}, "nan"),
	fQuote:    pinned(fQuote, Case{K: "q", S: []byte{0}}, `"x00"`),
	fStrftime: pinned(fStrftime, Case{K: "date", T: 86400*4 + 13*3600 + 61, Zone: "UTC", Fmt: "%a|%c|%x"}, "mon|05 Jan 70 13:01 UTC|13/01/01"),
	fYday:     pinned(fYday, Case{K: "yday", T: 86400 * 40, Zone: "UTC", Fmt: "%d"}, "yday=0"),
}
