package c16

import (
	"errors"
	"fmt"
	"math"
	"math/rand"
	"strconv"
	"strings"

	lua "github.com/yuin/gopher-lua"

	"verif/internal/fw"
	"verif/internal/gl"
)

// ---- the numeral model (manual 2.1, 2.2.1, tonumber in 5.1) ----

type verdict int

const (
	vAccept verdict = iota
	vReject
	vOpen // the manual / property leave it open: nothing asserted
)

// numeral is the parse of one numeral proper (no blanks, no sign).
type numeral struct {
	hex      bool
	hexd     string
	intd     string
	fracd    string
	hasDot   bool
	hasExp   bool
	expNeg   bool
	expd     string
	overflow bool // decimal value beyond the float64 range
	v        float64
	open     string // non-empty: value not asserted (reason)
}

func isHexDig(b byte) bool {
	return isDig(b) || b >= 'a' && b <= 'f' || b >= 'A' && b <= 'F'
}

// scanNumeral recognises
//
//	decimal := D+ ['.' D*] [exp] | '.' D+ [exp]     exp := (e|E) [+|-] D+
//	hex     := 0 (x|X) H+
//
// and computes the denoted float64.
func scanNumeral(s string) (n numeral, ok bool) {
	if len(s) >= 2 && s[0] == '0' && (s[1] == 'x' || s[1] == 'X') {
		h := s[2:]
		if h == "" {
			return n, false
		}
		for i := 0; i < len(h); i++ {
			if !isHexDig(h[i]) {
				return n, false
			}
		}
		n.hex, n.hexd = true, h
		sig := strings.TrimLeft(h, "0")
		if len(sig) > 16 {
			n.open = "hex numeral beyond 64 bits (the reference implementation saturates, the manual is silent)"
			return n, true
		}
		var u uint64
		for i := 0; i < len(sig); i++ {
			c := sig[i]
			var d uint64
			switch {
			case isDig(c):
				d = uint64(c - '0')
			case c >= 'a':
				d = uint64(c-'a') + 10
			default:
				d = uint64(c-'A') + 10
			}
			u = u<<4 | d
		}
		n.v = float64(u)
		return n, true
	}
	i := 0
	for i < len(s) && isDig(s[i]) {
		i++
	}
	n.intd = s[:i]
	if i < len(s) && s[i] == '.' {
		n.hasDot = true
		i++
		j := i
		for i < len(s) && isDig(s[i]) {
			i++
		}
		n.fracd = s[j:i]
	}
	if n.intd == "" && n.fracd == "" {
		return n, false
	}
	if i < len(s) && (s[i] == 'e' || s[i] == 'E') {
		i++
		if i < len(s) && (s[i] == '+' || s[i] == '-') {
			n.expNeg = s[i] == '-'
			i++
		}
		j := i
		for i < len(s) && isDig(s[i]) {
			i++
		}
		if i == j {
			return n, false
		}
		n.hasExp, n.expd = true, s[j:i]
	}
	if i != len(s) {
		return n, false
	}
	// value: mantissa digits without leading zeros, exponent adjusted by the
	// number of fraction digits, handed to ParseFloat as "<digits>e<exp>"
	mant := strings.TrimLeft(n.intd+n.fracd, "0")
	if mant == "" {
		n.v = 0
		return n, true
	}
	exp := 0
	if n.hasExp {
		ed := strings.TrimLeft(n.expd, "0")
		switch {
		case ed == "":
			exp = 0
		case len(ed) > 6:
			exp = 1000000 // far beyond the float64 range either way
		default:
			exp, _ = strconv.Atoi(ed)
		}
		if n.expNeg {
			exp = -exp
		}
	}
	exp -= len(n.fracd)
	v, err := strconv.ParseFloat(mant+"e"+strconv.Itoa(exp), 64)
	if err != nil {
		if errors.Is(err, strconv.ErrRange) && math.IsInf(v, 1) {
			n.overflow = true
			n.v = v
			return n, true
		}
		panic("c16 model: normalised numeral does not parse: " + mant + "e" + strconv.Itoa(exp))
	}
	n.v = v
	return n, true
}

func isBlank(b byte) bool      { return b == ' ' || b == '\t' || b == '\n' }
func isOtherSpace(b byte) bool { return b == '\r' || b == '\v' || b == '\f' }

// strInfo is the model's reading of a string handed to tonumber / arithmetic.
type strInfo struct {
	verdict verdict
	v       float64
	why     string // for vOpen
	// openVals: an open verdict that still bounds the outcome - the text is either
	// rejected or denotes one of these values (the readings the reference
	// implementation has on different C libraries)
	openVals []float64
	core    string // the text after trimming blanks and sign
	neg     bool
	signed  bool
	num     numeral
	isNum   bool
}

func classifyStr(s string) strInfo {
	var in strInfo
	if strings.IndexByte(s, 0) >= 0 {
		in.verdict, in.why = vOpen, "embedded NUL (the reference implementation stops at it)"
		return in
	}
	a, b := 0, len(s)
	for a < b && isBlank(s[a]) {
		a++
	}
	for b > a && isBlank(s[b-1]) {
		b--
	}
	t := s[a:b]
	if t != "" && (isOtherSpace(t[0]) || isOtherSpace(t[len(t)-1])) {
		in.verdict, in.why = vOpen, "surrounding CR/VT/FF (isspace but not a blank)"
		return in
	}
	if t == "" {
		in.verdict = vReject
		return in
	}
	if t[0] == '+' || t[0] == '-' {
		in.signed, in.neg = true, t[0] == '-'
		t = t[1:]
	}
	in.core = t
	n, ok := scanNumeral(t)
	if !ok {
		in.verdict = vReject
		return in
	}
	in.num, in.isNum = n, true
	if n.open != "" {
		in.verdict, in.why = vOpen, n.open
		return in
	}
	if in.signed && n.hex {
		in.verdict, in.why = vOpen, "signed hexadecimal (depends on the C library's strtod)"
		// C99 strtod reads the sign; where strtod stops at the x, strtoul reads the
		// sign too and '-' wraps modulo 2^64
		if in.neg {
			in.openVals = []float64{-n.v, 18446744073709551616.0 - n.v}
		} else {
			in.openVals = []float64{n.v}
		}
		return in
	}
	in.verdict, in.v = vAccept, n.v
	if in.neg {
		in.v = -n.v
	}
	return in
}

// literalEligible: the chunk "return "+s is either exactly one numeral token
// or a syntax error under every tokenisation the manual allows. Excluded are
// spellings that could form a valid expression (binary minus/plus, "..",
// and/or) and spellings with blanks at the ends.
func literalEligible(s string) bool {
	if s == "" || isBlank(s[0]) || isBlank(s[len(s)-1]) {
		return false
	}
	if !(isDig(s[0]) || s[0] == '.' && len(s) > 1 && isDig(s[1])) {
		return false
	}
	if strings.Contains(s, "..") {
		return false
	}
	signs := 0
	for i := 0; i < len(s); i++ {
		c := s[i]
		switch {
		case isDig(c) || c >= 'a' && c <= 'z' || c >= 'A' && c <= 'Z' || c == '_' || c == '.' || c == ' ' || c == '\t':
		case c == '+' || c == '-':
			signs++
			if signs > 1 || i < 2 || !(s[i-1] == 'e' || s[i-1] == 'E') {
				return false
			}
			for _, p := range []byte(s[:i-1]) {
				if !(isDig(p) || p == '.') {
					return false
				}
			}
		default:
			return false
		}
	}
	for _, w := range strings.FieldsFunc(s, func(r rune) bool { return r == ' ' || r == '\t' || r == '.' || r == '+' || r == '-' }) {
		if w == "and" || w == "or" {
			return false
		}
	}
	return true
}

// ---- matchers of the known findings (narrow predicates on route + input) ----

// goAccepts: Go's integer (base 0) or float syntax accepts the trimmed text.
func goAccepts(core string, signed, neg bool) bool {
	t := core
	if signed {
		if neg {
			t = "-" + t
		} else {
			t = "+" + t
		}
	}
	if _, err := strconv.ParseInt(t, 0, 64); err == nil {
		return true
	}
	_, err := strconv.ParseFloat(t, 64)
	return err == nil
}

// needsFloatReader: an accepted decimal numeral without '.' that an
// integer-only reader cannot read (exponent, or value beyond int64).
func needsFloatReader(n numeral) bool {
	if n.hex || n.hasDot {
		return false
	}
	if n.hasExp {
		return true
	}
	d := strings.TrimLeft(n.intd, "0")
	return len(d) > 19 || len(d) == 19 && d > "9223372036854775807"
}

func outOfGoRange(n numeral) bool {
	if n.hex {
		return n.open == "" && n.v >= 9223372036854775808.0
	}
	return n.overflow
}

func octalLooking(t string) bool {
	if len(t) < 2 || t[0] != '0' {
		return false
	}
	for i := 0; i < len(t); i++ {
		if t[i] < '0' || t[i] > '7' {
			return false
		}
	}
	return true
}

// attributeNum decides which open finding, if any, explains a divergence on
// (route, s). got is the canonical observation.
func attributeNum(route string, s string, in strInfo, base int, got string) string {
	gotNumber := got != "nil" && got != "error" && got != "loaderror"
	switch route {
	case "literal":
		n, ok := scanNumeral(s)
		if !ok {
			// '.' digits '.' : the lexer reads a second fraction into the same token
			if lexDotTwice(s) && got == "nan" {
				return fLexDot
			}
			// exponent marker directly after a decimal mantissa, not followed by [sign] digits
			if lexExpNoDigits(s) && got == "nan" {
				return fLexExp
			}
			return ""
		}
		// the lexer drops one leading zero before the text reaches parseNumber
		t := s
		if len(t) > 1 && t[0] == '0' && isDig(t[1]) {
			t = t[1:]
		}
		if !n.hex && !n.hasDot && !n.hasExp && octalLooking(t) && gotNumber {
			return fOctal
		}
		if outOfGoRange(n) && got == "nan" {
			return fRange
		}
	case "add", "unm", "lib":
		if in.verdict == vAccept {
			if !in.num.hex && !in.num.hasDot && !in.num.hasExp && octalLooking(in.core) && gotNumber {
				return fOctal
			}
			if outOfGoRange(in.num) && got == "error" {
				return fRange
			}
		}
		if in.verdict == vReject && gotNumber && goAccepts(in.core, in.signed, in.neg) {
			return fGoSyntax
		}
	case "tonumber":
		hasDot := strings.Contains(in.core, ".")
		if base == 0 || base == 10 {
			if in.verdict == vAccept && got == "nil" {
				if !hasDot && needsFloatReader(in.num) {
					return fTonumber // text without '.' only goes to the integer reader
				}
				if outOfGoRange(in.num) {
					return fTonumber // range errors of strconv treated as "not a number"
				}
			}
			if in.verdict == vReject && gotNumber && hasDot {
				if _, err := strconv.ParseFloat(signedText(in), 64); err == nil {
					return fTonumber // text with '.' goes to Go's float syntax unchecked
				}
			}
			if in.verdict == vReject && gotNumber && base == 0 && !in.signed && hexPrefixThenSigned(in.core) {
				return fTonumber // "0x" is stripped and the rest goes to a signed integer reader
			}
		} else {
			if in.verdict == vReject && gotNumber && hasDot {
				if _, err := strconv.ParseFloat(signedText(in), 64); err == nil {
					return fTonumber // text with '.' ignores the base
				}
			}
		}
	}
	return ""
}

// hexPrefixThenSigned: 0x/0X, one sign, then hex digits only.
func hexPrefixThenSigned(t string) bool {
	if len(t) < 4 || t[0] != '0' || !(t[1] == 'x' || t[1] == 'X') || !(t[2] == '+' || t[2] == '-') {
		return false
	}
	for i := 3; i < len(t); i++ {
		if !isHexDig(t[i]) {
			return false
		}
	}
	return true
}

func signedText(in strInfo) string {
	if in.signed {
		if in.neg {
			return "-" + in.core
		}
		return "+" + in.core
	}
	return in.core
}

// lexDotTwice: s starts with '.', one or more digits, and a second '.'.
func lexDotTwice(s string) bool {
	if len(s) < 3 || s[0] != '.' || !isDig(s[1]) {
		return false
	}
	i := 1
	for i < len(s) && isDig(s[i]) {
		i++
	}
	return i < len(s) && s[i] == '.'
}

// lexExpNoDigits: s starts with a decimal mantissa followed by e/E and then
// something other than [sign] digit (including end of input).
func lexExpNoDigits(s string) bool {
	i := 0
	for i < len(s) && (isDig(s[i]) || s[i] == '.') {
		i++
	}
	if i == 0 || i >= len(s) || !(s[i] == 'e' || s[i] == 'E') {
		return false
	}
	if strings.Count(s[:i], ".") > 1 {
		return false
	}
	i++
	if i < len(s) && (s[i] == '+' || s[i] == '-') {
		i++
	}
	return i >= len(s) || !isDig(s[i])
}

// ---- clause (b): one spelling, one route ----

func numEq(got lua.LValue, want float64) bool {
	n, ok := got.(lua.LNumber)
	return ok && float64(n) == want // -0 == +0 as in Lua; NaN never equal
}

func checkNum(c *fw.Ctx, h *holder, cs *Case, count bool) *div {
	e := h.get()
	s := string(cs.S)
	cnt := func(k string) {
		if count {
			c.Count(k, 1)
		}
	}
	if cs.Route == "literal" {
		n, ok := scanNumeral(s)
		if ok && n.open != "" {
			cnt("num_literal_open")
			return nil
		}
		var fn *lua.LFunction
		o := gl.Protect(func() error {
			var err error
			fn, err = e.L.LoadString("return " + s)
			return err
		})
		if d := canary(h, o, "LoadString"); d != nil {
			return d
		}
		if o.Err != nil {
			if ok {
				return &div{What: fmt.Sprintf("numeral literal %s (= %s) is rejected: %s", show(cs.S), gl.NumStr(n.v), fw.Short(o.Err.Error(), 160)), Got: "loaderror",
					Finding: attributeNum("literal", s, strInfo{}, 0, "loaderror")}
			}
			cnt("num_literal_rejected_ok")
			return nil
		}
		res, o := gl.Call(e.L, fn)
		if d := canary(h, o, "calling the numeral chunk"); d != nil {
			return d
		}
		got := "error"
		if o.Err == nil {
			got = canon(res)
		}
		if !ok {
			return &div{What: fmt.Sprintf("`return %s` is not a numeral and not an expression, yet it loads and gives %s", s, got), Got: got,
				Finding: attributeNum("literal", s, strInfo{}, 0, got)}
		}
		if o.Err == nil && len(res) == 1 && numEq(res[0], n.v) {
			cnt("num_literal_value_ok")
			return nil
		}
		return &div{What: fmt.Sprintf("numeral literal %s denotes %s, intended %s", show(cs.S), got, gl.NumStr(n.v)), Got: got,
			Finding: attributeNum("literal", s, strInfo{}, 0, got)}
	}
	in := classifyStr(s)
	if in.verdict == vOpen && in.openVals == nil {
		cnt("num_" + cs.Route + "_open")
		return nil
	}
	var fn lua.LValue
	want := in.v
	switch cs.Route {
	case "tonumber":
		fn = e.tn
	case "add":
		fn = e.add
	case "unm":
		fn, want = e.unm, -in.v
	case "lib":
		fn = e.lib
	default:
		return &div{What: "unknown route " + cs.Route}
	}
	res, o := gl.Call(e.L, fn, lua.LString(s))
	if d := canary(h, o, cs.Route+" of "+show(cs.S)); d != nil {
		return d
	}
	got := "error"
	if o.Err == nil {
		got = canon(res)
	}
	if in.verdict == vOpen {
		// rejected, or one of the admissible readings
		if o.Err != nil || len(res) == 1 && res[0] == lua.LNil {
			cnt("num_" + cs.Route + "_open_rejected")
			return nil
		}
		for _, v := range in.openVals {
			if cs.Route == "unm" {
				v = -v
			}
			if len(res) == 1 && numEq(res[0], v) {
				cnt("num_" + cs.Route + "_open_value_admissible")
				return nil
			}
		}
		return &div{What: fmt.Sprintf("%s of %s gives %s: neither rejected nor one of the readings %v (%s)", cs.Route, show(cs.S), got, in.openVals, in.why), Got: got,
			Finding: attributeNum(cs.Route, s, in, 0, got)}
	}
	if in.verdict == vAccept {
		if o.Err == nil && len(res) == 1 && numEq(res[0], want) {
			cnt("num_" + cs.Route + "_value_ok")
			return nil
		}
		return &div{What: fmt.Sprintf("%s of %s gives %s, intended %s", cs.Route, show(cs.S), got, gl.NumStr(want)), Got: got,
			Finding: attributeNum(cs.Route, s, in, 0, got)}
	}
	// rejected spelling
	if cs.Route == "tonumber" {
		if o.Err == nil && len(res) == 1 && res[0] == lua.LNil {
			cnt("num_tonumber_rejected_ok")
			return nil
		}
	} else if o.Err != nil {
		cnt("num_" + cs.Route + "_rejected_ok")
		return nil
	}
	return &div{What: fmt.Sprintf("%s of %s gives %s, but the text is not a numeral", cs.Route, show(cs.S), got), Got: got,
		Finding: attributeNum(cs.Route, s, in, 0, got)}
}

var strRoutes = []string{"tonumber", "add", "unm", "lib"}

func numNontrivial(s string) bool {
	if len(s) == 0 || len(s) > 15 || s[0] == '0' && len(s) > 1 {
		return true
	}
	for i := 0; i < len(s); i++ {
		if !isDig(s[i]) {
			return true
		}
	}
	return false
}

var sigmaQuick = []byte("018.ex+- _bp")
var sigmaThorough = []byte("018.ex+- _bpoinf")

var fixedSpellings = []string{
	"", " ", "  \t\n", "0x", "0X", "1e", "1e+", "1e-", "1E", "..5", "0b1", "0B1", "0b11", "0o7", "0O7", "0o17", "1_0", "1_000", "0x1p4", "0X1P4", "0x1p-2", "0x1.8p1", "0x1.8", "0x.8",
	"inf", "Inf", "INF", "infinity", "Infinity", "-inf", "+inf", "nan", "NaN", "NAN", "-nan", "inf.", "nan.", "1 2", "1e5e", "1.2.3", "1,5", "1e5.5", "0x1g", "5x", "5 x", "x5", "0xx1", "00x1",
	"1__0", "_1", "1_", "1e_5", "1_e5", "1._5", "1_.5", "0_7", "0x_ff", "0xf_f", "0b", "0o", "0b2", "0o8", "1d5", "1f", "1L", "1u", "1i", "0x-1", "--1", "+-1", "-+1", "- 1", "+ 1", "1-", "1+", "1e5-",
	"e5", ".e5", ".", "..", "...", "0.0.0", "١", "1\xa0", "\xa01", "0x 1", "0 x1", "1 e5", "1e 5", "1e+ 5", "1 .5", "1. 5", "$1", "1$", "#1", "1;", "(1)", "1--", "1e1000x", "1ex", "5e+x", "5.e", ".5e",
	"0", "00", "000", "7", "07", "007", "0010", "010", "0777", "08", "09", "089", "0089", "00123", "0123456789", "1", "10", "1.", ".1", "0.", ".0", "00.5", "0010.5", "010e1", "1e0", "1e00", "1e+00", "1e-00",
	"1e2", "1E2", "1e+2", "1E-2", "1.e2", ".5e1", "5.e-1", "1e308", "1e309", "1e999", "1.0e999", "1e-999", "1e-324", "5e-324", "4.9e-324", "2.4703282292062327e-324", "2.4703282292062328e-324",
	"1.7976931348623157e308", "1.7976931348623158e308", "1.7976931348623159e308", "17976931348623157" + strings.Repeat("0", 292), "0." + strings.Repeat("0", 400) + "1", strings.Repeat("9", 400),
	"1e99999999999999999999", "1e-99999999999999999999", "0e99999999999999999999", "0x0", "0x1", "0xa", "0XA", "0xff", "0xFF", "0xfF", "0x10", "0x000A", "0xDeadBeef", "0x7fffffffffffffff", "0x8000000000000000",
	"0xffffffffffffffff", "0x00ffffffffffffffff", "0x1ffffffffffffffff", "0x20000000000001", "0x20000000000003", "9007199254740992", "9007199254740993", "9007199254740995", "9223372036854775807", "9223372036854775808",
	"18446744073709551615", "18446744073709551616", "123456789012345678901234567890", "0.1", "0.3", "0.30000000000000004", "3.141592653589793", "2.2250738585072014e-308", "2.2250738585072011e-308",
	"-5", "+5", "-0", "-5.5", "-1e2", "+1e2", "-.5", "-5.", "-0x10", "+0x10", "- 5", "-010", "+010", "-1_0", "-0b1", "-1e999", " 5", "5 ", " 5 ", "\t5\n", "5\r", "\v5", "5\f", " 0x10 ", " 1e2 ", "\n010\n",
}

func genDigits(r *rand.Rand, min, max int) string {
	n := min + r.Intn(max-min+1)
	b := make([]byte, n)
	for i := range b {
		b[i] = byte('0' + r.Intn(10))
	}
	return string(b)
}

// genNumeral draws a spelling from the numeral grammar.
func genNumeral(r *rand.Rand) string {
	if r.Intn(5) == 0 {
		pre := []string{"0x", "0X"}[r.Intn(2)]
		n := 1 + r.Intn(16)
		b := make([]byte, n)
		for i := range b {
			b[i] = "0123456789abcdefABCDEF"[r.Intn(22)]
		}
		z := ""
		if r.Intn(6) == 0 {
			z = strings.Repeat("0", 1+r.Intn(3))
		}
		return pre + z + string(b)
	}
	var sb strings.Builder
	// integer part
	ip := ""
	switch r.Intn(8) {
	case 0:
		ip = ""
	case 1:
		ip = "0"
	case 2:
		ip = strings.Repeat("0", 1+r.Intn(3)) + genDigits(r, 1, 6) // leading zeros
	case 3:
		ip = genDigits(r, 15, 25)
	case 4:
		ip = strings.Repeat("0", 1+r.Intn(2)) + string("01234567"[r.Intn(8)]) + string("01234567"[r.Intn(8)])
	default:
		ip = genDigits(r, 1, 8)
	}
	fp := ""
	hasDot := false
	switch r.Intn(6) {
	case 0:
		hasDot = true
	case 1, 2:
		hasDot, fp = true, genDigits(r, 1, 6)
	case 3:
		hasDot, fp = true, genDigits(r, 10, 25)
	}
	if ip == "" && fp == "" {
		if r.Intn(2) == 0 {
			ip = genDigits(r, 1, 3)
		} else {
			hasDot, fp = true, genDigits(r, 1, 3)
		}
	}
	sb.WriteString(ip)
	if hasDot {
		sb.WriteByte('.')
		sb.WriteString(fp)
	}
	if r.Intn(3) == 0 {
		sb.WriteByte("eE"[r.Intn(2)])
		sb.WriteString([]string{"", "+", "-"}[r.Intn(3)])
		switch r.Intn(6) {
		case 0:
			sb.WriteString(strings.Repeat("0", 1+r.Intn(2)) + genDigits(r, 1, 2))
		case 1:
			sb.WriteString(strconv.Itoa(280 + r.Intn(80))) // around the range limits
		default:
			sb.WriteString(genDigits(r, 1, 2))
		}
	}
	return sb.String()
}

var mutAlphabet = []byte("0123456789abcdefxXeEpP.+-_ \tniou")
// notBlankWraps: byte sequences that are "space" to Unicode-aware trimming
// (NBSP, NEL, EM SPACE, IDEOGRAPHIC SPACE, LINE SEPARATOR as UTF-8; lone
// 0xA0 / 0x85) but not blanks of the C locale: a numeral wrapped in them is
// not a numeral.
var notBlankWraps = [][2]string{{"\xc2\xa0", ""}, {"", "\xc2\xa0"}, {"\xc2\x85", ""}, {"", "\xe2\x80\x83"}, {"\xe3\x80\x80", ""}, {"", "\xe2\x80\xa8"},
	{"\xa0", ""}, {"", "\x85"}, {"\xc2\xa0", "\xc2\xa0"}, {" \xc2\xa0", ""}, {"", "\xe2\x80\x83 "}}

var blankWraps = [][2]string{{" ", ""}, {"", " "}, {" ", " "}, {"\t", "\n"}, {"  ", "\t "}, {"\n\n", ""}, {"", "\t\t"}}

func mutate(r *rand.Rand, s string) string {
	b := []byte(s)
	switch r.Intn(3) {
	case 0: // insert
		p := r.Intn(len(b) + 1)
		b = append(b[:p:p], append([]byte{mutAlphabet[r.Intn(len(mutAlphabet))]}, b[p:]...)...)
	case 1: // delete
		if len(b) > 0 {
			p := r.Intn(len(b))
			b = append(b[:p:p], b[p+1:]...)
		}
	default: // replace
		if len(b) > 0 {
			b[r.Intn(len(b))] = mutAlphabet[r.Intn(len(mutAlphabet))]
		}
	}
	return string(b)
}

func runNum(c *fw.Ctx, h *holder) {
	// one spelling through every applicable route; one case per (spelling, route)
	spell := func(s string, family string) {
		routes := strRoutes
		if literalEligible(s) {
			routes = append([]string{"literal"}, routes...)
		}
		for _, rt := range routes {
			cs := Case{K: "num", S: []byte(s), Show: strconv.Quote(s), Route: rt}
			c.Begin(cs)
			c.Count("num_route_"+rt, 1)
			if d := checkNum(c, h, &cs, true); d != nil {
				d.report(c, cs)
				c.End(false, "")
				continue
			}
			c.End(numNontrivial(s), "num:"+rt+":"+s)
		}
		c.Count("num_spellings_"+family, 1)
		in := classifyStr(s)
		switch in.verdict {
		case vAccept:
			c.Count("num_model_accept", 1)
		case vReject:
			c.Count("num_model_reject", 1)
		default:
			c.Count("num_model_open", 1)
		}
	}
	// 1. exhaustive small scope: all strings over the alphabet up to length k
	sigma, maxLen := sigmaQuick, 5
	if !c.Quick() {
		sigma, maxLen = sigmaThorough, 6
	}
	idx := 0
	buf := make([]byte, 0, maxLen)
	var rec func(depth int)
	rec = func(depth int) {
		if depth > 0 {
			if c.Mine(idx) {
				spell(string(buf), "exhaustive")
			}
			idx++
		}
		if depth == maxLen {
			return
		}
		for _, ch := range sigma {
			buf = append(buf, ch)
			rec(depth + 1)
			buf = buf[:len(buf)-1]
		}
	}
	rec(0)
	// 2. fixed list
	for i, s := range fixedSpellings {
		if c.Mine(i) {
			spell(s, "fixed")
		}
	}
	// 3. grammar-generated numerals with blank / sign / mutation variants
	n := c.Share(c.Pick(16000, 1000000))
	for i := 0; i < n; i++ {
		s := genNumeral(c.R)
		spell(s, "grammar")
		w := blankWraps[c.R.Intn(len(blankWraps))]
		spell(w[0]+s+w[1], "grammar_blanks")
		if c.R.Intn(4) == 0 {
			u := notBlankWraps[c.R.Intn(len(notBlankWraps))]
			spell(u[0]+s+u[1], "grammar_non_ascii_space")
		}
		if c.R.Intn(2) == 0 {
			spell([]string{"-", "+"}[c.R.Intn(2)]+s, "grammar_signed")
		}
		m := mutate(c.R, s)
		if c.R.Intn(4) == 0 {
			m = mutate(c.R, m)
		}
		spell(m, "grammar_mutated")
		if i < 1 && c.Shard == 0 {
			c.Sample(map[string]any{"clause": "num", "spelling": s, "intended": gl.NumStr(classifyStr(s).v), "mutant": m, "mutant_is_numeral": classifyStr(m).verdict == vAccept})
		}
	}
}

// ---- tonumber(s, base) ----

type baseInfo struct {
	verdict  verdict
	v        float64
	why      string
	signed   bool
	neg      bool
	core     string
	signOpen bool // open only because of the sign: the weak sanity rule applies
}

func digitVal(b byte) int {
	switch {
	case isDig(b):
		return int(b - '0')
	case b >= 'a' && b <= 'z':
		return int(b-'a') + 10
	case b >= 'A' && b <= 'Z':
		return int(b-'A') + 10
	}
	return 99
}

// classifyBase: manual 5.1 tonumber: base 10 reads like the default; in other
// bases only unsigned integers of that base are accepted (letters either
// case), surrounding blanks allowed.
func classifyBase(s string, base int) baseInfo {
	var in baseInfo
	if base == 10 {
		si := classifyStr(s)
		in.verdict, in.v, in.why, in.signed, in.neg, in.core = si.verdict, si.v, si.why, si.signed, si.neg, si.core
		if si.isNum && si.num.hex && si.verdict == vAccept {
			in.verdict, in.why = vOpen, "0x numeral with explicit base 10"
		}
		return in
	}
	if strings.IndexByte(s, 0) >= 0 {
		in.verdict, in.why = vOpen, "embedded NUL"
		return in
	}
	a, b := 0, len(s)
	for a < b && isBlank(s[a]) {
		a++
	}
	for b > a && isBlank(s[b-1]) {
		b--
	}
	t := s[a:b]
	if t != "" && (isOtherSpace(t[0]) || isOtherSpace(t[len(t)-1])) {
		in.verdict, in.why = vOpen, "surrounding CR/VT/FF"
		return in
	}
	if t == "" {
		in.verdict = vReject
		return in
	}
	if t[0] == '+' || t[0] == '-' {
		in.signed, in.neg = true, t[0] == '-'
		t = t[1:]
	}
	in.core = t
	if base == 16 && len(t) >= 2 && t[0] == '0' && (t[1] == 'x' || t[1] == 'X') {
		// The manual is silent on the prefix and strtoul(.., 16) accepts "0x" directly followed by hexadecimal
		// digits, so such a text stays open. Anything else behind the prefix (nothing, a sign, a blank, a
		// non-digit) is a numeral under neither reading: strtoul stops at the 'x', the manual has no digit 'x'.
		rest := t[2:]
		allHex := rest != ""
		for i := 0; i < len(rest); i++ {
			if digitVal(rest[i]) >= 16 {
				allHex = false
			}
		}
		if allHex {
			in.verdict, in.why = vOpen, "0x prefix with explicit base 16 (strtoul accepts it, the manual is silent)"
			return in
		}
		in.verdict = vReject
		return in
	}
	if t == "" {
		in.verdict = vReject
		return in
	}
	var u uint64
	for i := 0; i < len(t); i++ {
		d := digitVal(t[i])
		if d >= base {
			in.verdict = vReject
			return in
		}
		hi := u
		u = u*uint64(base) + uint64(d)
		if hi > (math.MaxUint64-uint64(d))/uint64(base) {
			in.verdict, in.why = vOpen, "beyond 64 bits"
			return in
		}
	}
	in.v = float64(u)
	if u >= 1<<63 {
		in.verdict, in.why = vOpen, "beyond 63 bits with an explicit base (width of unsigned long in the reference implementation; the manual gives no range)"
		return in
	}
	if in.signed {
		in.verdict, in.why, in.signOpen = vOpen, "sign with an explicit base (manual: unsigned only; strtoul: accepted, '-' wraps)", true
		return in
	}
	in.verdict = vAccept
	return in
}

func checkBase(c *fw.Ctx, h *holder, cs *Case, count bool) *div {
	e := h.get()
	s := string(cs.S)
	cnt := func(k string) {
		if count {
			c.Count(k, 1)
		}
	}
	in := classifyBase(s, cs.Base)
	res, o := gl.Call(e.L, e.tnb, lua.LString(s), lua.LNumber(cs.Base))
	if d := canary(h, o, fmt.Sprintf("tonumber(%s, %d)", show(cs.S), cs.Base)); d != nil {
		return d
	}
	got := "error"
	if o.Err == nil {
		got = canon(res)
	}
	attr := func() string {
		si := strInfo{verdict: in.verdict, v: in.v, core: in.core, signed: in.signed, neg: in.neg}
		if cs.Base == 10 {
			si = classifyStr(s)
		}
		return attributeNum("tonumber", s, si, cs.Base, got)
	}
	switch in.verdict {
	case vOpen:
		cnt("base_open")
		if in.signOpen && o.Err == nil && len(res) == 1 {
			// weak sanity rule for signed digits: nil, the signed value, or the value wrapped modulo 2^64
			ok := res[0] == lua.LNil || numEq(res[0], in.v) && !in.neg || in.neg && (numEq(res[0], -in.v) || numEq(res[0], 18446744073709551616.0-in.v))
			if !ok {
				return &div{What: fmt.Sprintf("tonumber(%s, %d) gives %s: neither nil nor the signed nor the wrapped value of %s", show(cs.S), cs.Base, got, gl.NumStr(in.v)), Got: got}
			}
			if res[0] == lua.LNil {
				cnt("base_signed_rejected(info)")
			} else {
				cnt("base_signed_accepted(info)")
			}
		}
		return nil
	case vAccept:
		if o.Err == nil && len(res) == 1 && numEq(res[0], in.v) {
			cnt("base_value_ok")
			return nil
		}
		return &div{What: fmt.Sprintf("tonumber(%s, %d) gives %s, intended %s", show(cs.S), cs.Base, got, gl.NumStr(in.v)), Got: got, Finding: attr()}
	}
	if o.Err == nil && len(res) == 1 && res[0] == lua.LNil {
		cnt("base_rejected_ok")
		return nil
	}
	return &div{What: fmt.Sprintf("tonumber(%s, %d) gives %s, but the text is not an unsigned base-%d integer", show(cs.S), cs.Base, got, cs.Base), Got: got, Finding: attr()}
}

const digitChars = "0123456789abcdefghijklmnopqrstuvwxyz"

// baseAlphabet: valid digits (0, 1, the largest), the first invalid one, a
// letter of the other case, blank, signs, '.', '_', 'x', 'e'.
func baseAlphabet(base int) []byte {
	set := []byte{'0', '1', digitChars[base-1]}
	if base < 36 {
		set = append(set, digitChars[base])
	} else {
		set = append(set, '{')
	}
	if base > 10 {
		set = append(set, digitChars[base-1]-32) // upper case of the largest digit
	} else {
		set = append(set, 'a')
	}
	set = append(set, '9', 'Z', ' ', '-', '+', '.', '_', 'x', 'e')
	// drop duplicates, keep order
	var out []byte
	seen := map[byte]bool{}
	for _, b := range set {
		if !seen[b] {
			seen[b] = true
			out = append(out, b)
		}
	}
	return out
}

func runBase(c *fw.Ctx, h *holder) {
	one := func(s string, base int) {
		cs := Case{K: "base", S: []byte(s), Show: strconv.Quote(s), Base: base}
		c.Begin(cs)
		c.Count("base_cases", 1)
		if d := checkBase(c, h, &cs, true); d != nil {
			d.report(c, cs)
			c.End(false, "")
			return
		}
		c.End(base != 10 && s != "", fmt.Sprintf("base:%d:%s", base, s))
	}
	idx := 0
	for base := 2; base <= 36; base++ {
		al := baseAlphabet(base)
		buf := make([]byte, 0, 3)
		var rec func(depth int)
		rec = func(depth int) {
			if depth > 0 {
				if c.Mine(idx) {
					one(string(buf), base)
				}
				idx++
			}
			if depth == 3 {
				return
			}
			for _, ch := range al {
				buf = append(buf, ch)
				rec(depth + 1)
				buf = buf[:len(buf)-1]
			}
		}
		rec(0)
	}
	// behind a 0x / 0X prefix with base 16: every string of length 0-3 over the base-16 alphabet, bare, signed
	// and blank-wrapped (a prefix must not make a sign, a blank or a non-digit behind it acceptable)
	{
		al := baseAlphabet(16)
		buf := make([]byte, 0, 3)
		var rec func(depth int)
		rec = func(depth int) {
			for _, pre := range []string{"0x", "0X", "-0x", " 0x", "+0X"} {
				if c.Mine(idx) {
					c.Count("base_behind_0x_prefix", 1)
					one(pre+string(buf), 16)
				}
				idx++
			}
			if depth == 3 {
				return
			}
			for _, ch := range al {
				buf = append(buf, ch)
				rec(depth + 1)
				buf = buf[:len(buf)-1]
			}
		}
		rec(0)
	}
	n := c.Share(c.Pick(8000, 400000))
	for i := 0; i < n; i++ {
		base := 2 + c.R.Intn(35)
		ln := 1 + c.R.Intn(14)
		b := make([]byte, ln)
		for k := range b {
			ch := digitChars[c.R.Intn(base)]
			if ch >= 'a' && c.R.Intn(2) == 0 {
				ch -= 32
			}
			b[k] = ch
		}
		s := string(b)
		switch c.R.Intn(6) {
		case 0:
			w := blankWraps[c.R.Intn(len(blankWraps))]
			s = w[0] + s + w[1]
		case 1:
			s = mutate(c.R, s)
		case 2:
			if c.R.Intn(3) == 0 {
				u := notBlankWraps[c.R.Intn(len(notBlankWraps))]
				s = u[0] + s + u[1]
			}
		}
		one(s, base)
		if i < 1 && c.Shard == 1 {
			in := classifyBase(s, base)
			c.Sample(map[string]any{"clause": "base", "string": s, "base": base, "model_accepts": in.verdict == vAccept, "intended": gl.NumStr(in.v)})
		}
	}
}
