package c16

import (
	"bytes"
	"fmt"
	"math/rand"
	"strconv"
	"strings"
	"unicode/utf8"

	lua "github.com/yuin/gopher-lua"

	"verif/internal/fw"
	"verif/internal/gl"
)

// ---- rendering of a byte string as a Lua 5.1 literal (manual section 2.1) ----

// per-byte modes of a short literal
const (
	mRaw = iota
	mNamed
	mD1 // \d    (b < 10)
	mD2 // \dd   (b < 100, zero padded)
	mD3 // \ddd
	mContLF
	mContCR
	mContCRLF
	mContLFCR
	nModes
)

var modeName = [...]string{"raw", "named", "d1", "d2", "d3", "contLF", "contCR", "contCRLF", "contLFCR"}

var namedEsc = map[byte]byte{7: 'a', 8: 'b', 12: 'f', 10: 'n', 13: 'r', 9: 't', 11: 'v', '\\': '\\', '"': '"', '\'': '\''}

func modeOK(b, quote byte, m int) bool {
	switch m {
	case mRaw:
		return b != quote && b != '\\' && b != '\n' && b != '\r'
	case mNamed:
		_, ok := namedEsc[b]
		return ok
	case mD1:
		return b < 10
	case mD2:
		return b < 100
	case mD3:
		return true
	default:
		return b == '\n'
	}
}

func isDig(b byte) bool { return b >= '0' && b <= '9' }

// renderShort renders s between quote characters with the given per-byte
// modes. A \d or \dd escape directly followed by a raw decimal digit would
// absorb it, so it is widened to \ddd there (the 3-digit stop is what the
// (d3, raw digit) combinations test).
func renderShort(s []byte, quote byte, modes []int) []byte {
	var b bytes.Buffer
	b.WriteByte(quote)
	for i, ch := range s {
		m := modes[i]
		if (m == mD1 || m == mD2) && i+1 < len(s) && modes[i+1] == mRaw && isDig(s[i+1]) {
			m = mD3
		}
		switch m {
		case mRaw:
			b.WriteByte(ch)
		case mNamed:
			b.WriteByte('\\')
			b.WriteByte(namedEsc[ch])
		case mD1:
			fmt.Fprintf(&b, "\\%d", ch)
		case mD2:
			fmt.Fprintf(&b, "\\%02d", ch)
		case mD3:
			fmt.Fprintf(&b, "\\%03d", ch)
		case mContLF:
			b.WriteString("\\\n")
		case mContCR:
			b.WriteString("\\\r")
		case mContCRLF:
			b.WriteString("\\\r\n")
		case mContLFCR:
			b.WriteString("\\\n\r")
		}
	}
	b.WriteByte(quote)
	return b.Bytes()
}

var nlSeq = [...]string{"", "\n", "\r", "\r\n", "\n\r"} // index 0 = none (lead only)

// longSafe: s can be written in a long bracket of this level at all: it has
// no CR (a raw CR reads back as LF) and the closing bracket does not occur
// earlier than at the very end of s+closing.
func longSafe(s []byte, level int) bool {
	if bytes.IndexByte(s, '\r') >= 0 {
		return false
	}
	cl := []byte("]" + strings.Repeat("=", level) + "]")
	return bytes.Index(append(append([]byte{}, s...), cl...), cl) == len(s)
}

// renderLong writes s as [=*[ ... ]=*]. lead selects the newline written right
// after the opening bracket (0 none, 1 LF, 2 CR, 3 CRLF, 4 LFCR; the reader
// skips it), nl(k) the spelling of the k-th LF of s (1..4). Two adjacent
// newline spellings must not fuse into one CRLF/LFCR pair; a spelling that
// would fuse with its predecessor is replaced by one that starts with the
// same character as the predecessor.
func renderLong(s []byte, level, lead int, nl func(k int) int) []byte {
	var b bytes.Buffer
	b.WriteString("[" + strings.Repeat("=", level) + "[")
	var prev byte // last newline spelling was a lone LF / lone CR
	emit := func(style int) {
		seq := nlSeq[style]
		if prev == '\n' && seq[0] == '\r' {
			if len(seq) == 1 {
				seq = "\n"
			} else {
				seq = "\n\r"
			}
		} else if prev == '\r' && seq[0] == '\n' {
			if len(seq) == 1 {
				seq = "\r"
			} else {
				seq = "\r\n"
			}
		}
		b.WriteString(seq)
		prev = 0
		if len(seq) == 1 {
			prev = seq[0]
		}
	}
	if lead != 0 {
		emit(lead)
	}
	k := 0
	for _, ch := range s {
		if ch == '\n' {
			emit(nl(k))
			k++
			continue
		}
		b.WriteByte(ch)
		prev = 0
	}
	b.WriteString("]" + strings.Repeat("=", level) + "]")
	return b.Bytes()
}

type rendering struct {
	src  []byte
	form string
}

func modesDesc(quote byte, modes []int) string {
	var sb strings.Builder
	sb.WriteString("short ")
	sb.WriteByte(quote)
	for _, m := range modes {
		sb.WriteByte(' ')
		sb.WriteString(modeName[m])
	}
	return sb.String()
}

// allForms enumerates every rendering of a short string s (len <= 2 in the
// exhaustive part): the cross product of the applicable per-byte modes for
// both quotes, and every safe long-bracket level 0..3 with each lead style
// and each (uniform) newline style.
func allForms(s []byte, full bool, rot int) []rendering {
	var out []rendering
	for _, q := range []byte{'"', '\''} {
		modes := make([]int, len(s))
		var rec func(i int)
		rec = func(i int) {
			if i == len(s) {
				out = append(out, rendering{append([]byte("return "), renderShort(s, q, modes)...), modesDesc(q, modes)})
				return
			}
			for m := 0; m < nModes; m++ {
				if modeOK(s[i], q, m) {
					modes[i] = m
					rec(i + 1)
				}
			}
		}
		rec(0)
	}
	hasNL := bytes.IndexByte(s, '\n') >= 0
	for level := 0; level <= 3; level++ {
		if !longSafe(s, level) {
			continue
		}
		for lead := 0; lead <= 4; lead++ {
			if !full && len(s) > 1 && !hasNL && lead != 0 && lead != 1+(rot+level)%4 {
				continue // quick tier: no lead and one rotating lead style per level for 2-byte strings
			}
			if lead == 0 && len(s) > 0 && s[0] == '\n' {
				continue // the reader would skip the first LF of the content
			}
			styles := []int{1}
			if hasNL {
				styles = []int{1, 2, 3, 4}
			}
			for _, st := range styles {
				st := st
				src := renderLong(s, level, lead, func(int) int { return st })
				out = append(out, rendering{append([]byte("return "), src...), fmt.Sprintf("long level=%d lead=%d nl=%d", level, lead, st)})
			}
		}
	}
	return out
}

// randomForm picks one rendering of an arbitrary s.
func randomForm(r *rand.Rand, s []byte) rendering {
	if r.Intn(3) == 0 {
		var levels []int
		for level := 0; level <= 3; level++ {
			if longSafe(s, level) {
				levels = append(levels, level)
			}
		}
		if len(levels) > 0 {
			level := levels[r.Intn(len(levels))]
			lead := r.Intn(5)
			if lead == 0 && len(s) > 0 && s[0] == '\n' {
				lead = 1 + r.Intn(4)
			}
			seed := r.Int63()
			rr := rand.New(rand.NewSource(seed))
			src := renderLong(s, level, lead, func(int) int { return 1 + rr.Intn(4) })
			return rendering{append([]byte("return "), src...), fmt.Sprintf("long level=%d lead=%d nl=random", level, lead)}
		}
	}
	q := []byte{'"', '\''}[r.Intn(2)]
	modes := make([]int, len(s))
	bias := r.Intn(4) // 0: prefer raw, 1: prefer escapes, 2,3: uniform
	for i, ch := range s {
		var ok []int
		for m := 0; m < nModes; m++ {
			if modeOK(ch, q, m) {
				ok = append(ok, m)
			}
		}
		m := ok[r.Intn(len(ok))]
		if bias == 0 && modeOK(ch, q, mRaw) && r.Intn(4) != 0 {
			m = mRaw
		}
		if bias == 1 && m == mRaw && len(ok) > 1 {
			m = ok[1+r.Intn(len(ok)-1)]
		}
		modes[i] = m
	}
	desc := "short " + string(q) + " random modes"
	if len(s) <= 8 {
		desc = modesDesc(q, modes)
	}
	return rendering{append([]byte("return "), renderShort(s, q, modes)...), desc}
}

// ---- clause (a): the chunk `return <literal>` yields exactly s ----

func checkLit(h *holder, cs *Case) *div {
	e := h.get()
	var fn *lua.LFunction
	o := gl.Protect(func() error {
		var err error
		fn, err = e.L.LoadString(string(cs.Src))
		return err
	})
	if d := canary(h, o, "LoadString"); d != nil {
		return d
	}
	if o.Err != nil {
		return &div{What: fmt.Sprintf("literal [%s] of %s does not load: %s", cs.Form, show(cs.S), fw.Short(o.Err.Error(), 200)), Got: "loaderror"}
	}
	res, o := gl.Call(e.L, fn)
	if d := canary(h, o, "calling the literal chunk"); d != nil {
		return d
	}
	if o.Err != nil {
		return &div{What: fmt.Sprintf("literal [%s] of %s fails at run time: %s", cs.Form, show(cs.S), fw.Short(o.Err.Error(), 200)), Got: "error"}
	}
	if len(res) != 1 {
		return &div{What: fmt.Sprintf("literal [%s] of %s returned %d values", cs.Form, show(cs.S), len(res)), Got: canon(res)}
	}
	got, ok := res[0].(lua.LString)
	if !ok || string(got) != string(cs.S) {
		return &div{What: fmt.Sprintf("literal [%s] source %s denotes %s, intended %s", cs.Form, show(cs.Src), canon(res), show(cs.S)), Got: canon(res)}
	}
	return nil
}

// smallString maps the global index 0..65792 to the empty string, the 256
// one-byte strings and the 65536 two-byte strings.
const nSmall = 1 + 256 + 65536

func smallString(i int) []byte {
	switch {
	case i == 0:
		return []byte{}
	case i <= 256:
		return []byte{byte(i - 1)}
	}
	i -= 257
	return []byte{byte(i >> 8), byte(i)}
}

var trickyBytes = []byte("]]==[[\"'\\\\\n\n\r0123456789\x00\xff\x7f\x80 aZ=]")

func randomBytes(r *rand.Rand) []byte {
	n := r.Intn(201)
	switch r.Intn(4) {
	case 0:
		n = r.Intn(9)
	case 1:
		n = r.Intn(40)
	}
	s := make([]byte, n)
	kind := r.Intn(4)
	for i := range s {
		switch kind {
		case 0: // uniform bytes
			s[i] = byte(r.Intn(256))
		case 1: // the characters the readers care about
			s[i] = trickyBytes[r.Intn(len(trickyBytes))]
		case 2: // printable ASCII with a few tricky ones
			if r.Intn(6) == 0 {
				s[i] = trickyBytes[r.Intn(len(trickyBytes))]
			} else {
				s[i] = byte(32 + r.Intn(95))
			}
		default: // no CR so that long brackets stay applicable
			s[i] = byte(r.Intn(256))
			if s[i] == '\r' {
				s[i] = '\n'
			}
		}
	}
	return s
}

func runLit(c *fw.Ctx, h *holder) {
	one := func(s []byte, forms []rendering) {
		bad := false
		sh := show(s)
		for _, f := range forms {
			cs := Case{K: "lit", S: s, Show: sh, Src: f.src, Form: f.form}
			c.Begin(cs) // the journal holds the rendering in flight, so a crash replays exactly it
			c.Count("lit_renderings", 1)
			if f.form[0] == 'l' {
				c.Count("lit_renderings_long", 1)
			}
			if d := checkLit(h, &cs); d != nil {
				d.report(c, cs)
				bad = true
			}
		}
		c.End(!bad && len(s) > 0, "lit:"+string(s))
	}
	for i := 0; i < nSmall; i++ {
		if !c.Mine(i) {
			continue
		}
		s := smallString(i)
		forms := allForms(s, !c.Quick(), i)
		if i == 257+('\n'<<8|'?') { // owned by shard 0
			c.Sample(map[string]any{"clause": "lit", "string": show(s), "renderings": len(forms), "first": show(forms[0].src), "last": show(forms[len(forms)-1].src)})
		}
		c.Count("lit_small_strings_exhaustive", 1)
		one(s, forms)
	}
	// two-byte line ends inside a literal that straddle a read boundary of the loader (it reads the chunk in
	// 4096-byte fills): the pair must still be one line end. The first byte of the pair is put at every offset
	// from 4 before to 4 behind the 4096th and 8192nd byte, in a continued short string, inside a long
	// bracket and as the skipped first line end of a long bracket.
	bidx := 0
	for _, boundary := range []int{4096, 8192, 12288} {
		for shift := -5; shift <= 4; shift++ {
			for _, pair := range []string{"\r\n", "\n\r"} {
				for _, f := range []struct {
					name, pre, post, want string
				}{
					{"short-continued", "\"a\\", "b\"", "a\nb"},
					{"long-inner", "[[a", "b]]", "a\nb"},
					{"long-inner-level2", "[==[a", "b]==]", "a\nb"},
					{"long-lead", "[[", "ab]]", "ab"},
					{"short-continued-twice", "'\\" + pair + "a\\", "b'", "\na\nb"},
				} {
					bidx++
					if !c.Mine(bidx) {
						continue
					}
					head := "return "
					pad := boundary + shift - len(head) - len(f.pre) - 3 // "--" + pad + "\n"
					src := "--" + strings.Repeat("x", pad) + "\n" + head + f.pre + pair + f.post
					c.Count("lit_pair_across_read_boundary", 1)
					one([]byte(f.want), []rendering{{src: []byte(src), form: fmt.Sprintf("boundary:%s:%d%+d:%q", f.name, boundary, shift, pair)}})
				}
			}
		}
	}
	n := c.Share(c.Pick(20000, 1500000))
	for i := 0; i < n; i++ {
		s := randomBytes(c.R)
		var forms []rendering
		for k := 0; k < 6; k++ {
			forms = append(forms, randomForm(c.R, s))
		}
		c.Count("lit_random_strings", 1)
		one(s, forms)
	}
}

// ---- clause (c): loadstring("return "..string.format("%q", s))() == s ----

// goQuoteUnreadable is the matcher of finding C16-format-q-go-quoting: %q is
// produced by Go's strconv quoting, which writes \xNN, \uNNNN or \UNNNNNNNN
// for exactly these contents (invalid UTF-8, DEL, control characters without a
// single-letter escape, non-printable runes); the Lua reader has no such
// escapes.
func goQuoteUnreadable(s []byte) bool {
	for i := 0; i < len(s); {
		r, w := utf8.DecodeRune(s[i:])
		if r == utf8.RuneError && w == 1 {
			return true
		}
		switch r {
		case '\a', '\b', '\f', '\n', '\r', '\t', '\v':
		default:
			if !strconv.IsPrint(r) {
				return true
			}
		}
		i += w
	}
	return false
}

func checkQuote(h *holder, cs *Case) *div {
	e := h.get()
	res, o := gl.Call(e.L, e.q, lua.LString(cs.S))
	if d := canary(h, o, "string.format('%q')/loadstring"); d != nil {
		return d
	}
	attr := ""
	if goQuoteUnreadable(cs.S) {
		attr = fQuote
	}
	if o.Err != nil {
		return &div{What: fmt.Sprintf("%%q round trip of %s raised: %s", show(cs.S), fw.Short(o.Err.Error(), 200)), Got: "error", Finding: attr}
	}
	if len(res) < 2 {
		return &div{What: fmt.Sprintf("%%q helper returned %s", canon(res)), Got: canon(res)}
	}
	q, _ := res[0].(lua.LString)
	if res[1] == lua.LFalse {
		return &div{What: fmt.Sprintf("string.format('%%q', %s) = %s is not loadable: %s", show(cs.S), show([]byte(q)), fw.Short(canon(res[2:]), 200)), Got: "loaderror", Finding: attr}
	}
	back := res[2:]
	if len(back) == 1 {
		if g, ok := back[0].(lua.LString); ok && string(g) == string(cs.S) {
			return nil
		}
	}
	return &div{What: fmt.Sprintf("string.format('%%q', %s) = %s reads back as %s", show(cs.S), show([]byte(q)), fw.Short(canon(back), 300)), Got: canon(back), Finding: attr}
}

func quoteNontrivial(s []byte) bool {
	for _, b := range s {
		if b < 32 || b > 126 || b == '"' || b == '\\' {
			return true
		}
	}
	return false
}

func runQuote(c *fw.Ctx, h *holder) {
	sampled := false
	one := func(s []byte) {
		cs := Case{K: "q", S: s, Show: show(s)}
		c.Begin(cs)
		d := checkQuote(h, &cs)
		if goQuoteUnreadable(s) {
			c.Count("q_strings_in_known_matcher_class", 1)
		} else {
			c.Count("q_strings_outside_matcher_class", 1)
		}
		if d != nil {
			d.report(c, cs)
			c.End(false, "")
			return
		}
		c.Count("q_roundtrip_ok", 1)
		if c.Shard == 1 && !sampled && len(s) == 2 && quoteNontrivial(s) {
			sampled = true
			c.Sample(map[string]any{"clause": "q", "string": show(s), "observed": "loadstring('return '..string.format('%q', s))() == s"})
		}
		c.End(quoteNontrivial(s), "q:"+string(s))
	}
	for i := 0; i < nSmall; i++ {
		if c.Mine(i) {
			one(smallString(i))
		}
	}
	n := c.Share(c.Pick(20000, 1500000))
	for i := 0; i < n; i++ {
		one(randomBytes(c.R))
	}
}
