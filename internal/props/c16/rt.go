package c16

import (
	"fmt"
	"math"
	"math/rand"
	"strings"

	lua "github.com/yuin/gopher-lua"

	"verif/internal/fw"
	"verif/internal/gl"
)

// ---- clause (d): tonumber(tostring(x)) == x; integral |x| < 2^53 prints as plain digits ----

func plainDigits(s string) bool {
	if strings.HasPrefix(s, "-") {
		s = s[1:]
	}
	if s == "" {
		return false
	}
	for i := 0; i < len(s); i++ {
		if !isDig(s[i]) {
			return false
		}
	}
	return true
}

func checkRT(c *fw.Ctx, h *holder, cs *Case, count bool) *div {
	e := h.get()
	x := math.Float64frombits(cs.X)
	if math.IsNaN(x) || math.IsInf(x, 0) {
		return nil // the property speaks of finite numbers
	}
	res, o := gl.Call(e.L, e.rt, lua.LNumber(x))
	if d := canary(h, o, "tostring/tonumber of "+gl.NumStr(x)); d != nil {
		return d
	}
	if o.Err != nil {
		return &div{What: fmt.Sprintf("tostring/tonumber of %s raised: %s", gl.NumStr(x), fw.Short(o.Err.Error(), 200)), Got: "error"}
	}
	if len(res) != 2 {
		return &div{What: "rt helper returned " + canon(res), Got: canon(res)}
	}
	txt, ok := res[0].(lua.LString)
	if !ok {
		return &div{What: fmt.Sprintf("tostring(%s) is not a string: %s", gl.NumStr(x), canon(res[:1])), Got: canon(res[:1])}
	}
	s := string(txt)
	if x == math.Trunc(x) && math.Abs(x) < 9007199254740992.0 {
		if count {
			c.Count("rt_integral_below_2p53", 1)
		}
		if !plainDigits(s) {
			return &div{What: fmt.Sprintf("tostring of the integer %s is %q: not plain digits", gl.NumStr(x), s), Got: s}
		}
	}
	if numEq(res[1], x) {
		if count {
			if strings.ContainsAny(s, "eE") {
				c.Count("rt_ok_exponent_form", 1)
			} else if strings.Contains(s, ".") {
				c.Count("rt_ok_fraction_form", 1)
			} else {
				c.Count("rt_ok_integer_form", 1)
			}
		}
		return nil
	}
	got := canon(res[1:])
	d := &div{What: fmt.Sprintf("tonumber(tostring(x)) ~= x for x = %s (bits %#x): tostring gives %q, tonumber of that gives %s", gl.NumStr(x), cs.X, s, got), Got: got}
	// matcher of C16-tonumber-adhoc-reader on the text that reaches tonumber
	if in := classifyStr(s); in.verdict == vAccept && numEq(lua.LNumber(in.v), x) {
		d.Finding = attributeNum("tonumber", s, in, 0, got)
	}
	return d
}

func specialFloats() []float64 {
	var out []float64
	add := func(f float64) { out = append(out, f, -f) }
	for _, f := range []float64{0, 1, 2, 3, 10, 0.1, 0.2, 0.3, 0.5, 1.0 / 3, 2.0 / 3, math.Pi, math.E, math.MaxFloat64, math.SmallestNonzeroFloat64,
		2.2250738585072014e-308, 2.225073858507201e-308, 1e15, 1e16, 1e17, 123456789012345680, 0.1 + 0.2, 100, 1e-5, 1e-4, 1e-7, 1234.5, 4294967296, 2147483648, 2147483647,
		9223372036854775807, 9223372036854775808, 18446744073709551616, 9223372036854774784} {
		add(f)
	}
	for k := -64; k <= 64; k++ { // every integer around 2^53 that float64 can hold
		add(9007199254740992.0 + float64(k))
		add(4503599627370496.0 + float64(k)/2)
	}
	for k := -330; k <= 310; k++ {
		p := math.Pow(10, float64(k))
		add(p)
		add(math.Nextafter(p, 0))
		add(math.Nextafter(p, math.Inf(1)))
		for d := 2.0; d <= 9; d++ {
			add(d * p)
		}
	}
	for k := -1074; k <= 1023; k++ {
		p := math.Ldexp(1, k)
		add(p)
		add(math.Nextafter(p, 0))
		add(math.Nextafter(p, math.Inf(1)))
	}
	return out
}

func randomFloat(r *rand.Rand) float64 {
	switch r.Intn(8) {
	case 0: // integers below 2^53
		return float64(r.Int63n(1<<53)) * float64(1-2*r.Intn(2))
	case 1: // small integers
		return float64(r.Intn(200001) - 100000)
	case 2: // short decimals
		return float64(r.Intn(2000001)-1000000) / math.Pow(10, float64(r.Intn(7)))
	case 3: // integers between 2^53 and 2^64
		return math.Ldexp(float64(r.Int63n(1<<53)|1<<52), r.Intn(12))
	case 4: // one or two significant digits times a power of ten
		return float64(1+r.Intn(99)) * math.Pow(10, float64(r.Intn(640)-330))
	default: // any bit pattern
		for {
			f := math.Float64frombits(r.Uint64())
			if !math.IsNaN(f) && !math.IsInf(f, 0) {
				return f
			}
		}
	}
}

func runRT(c *fw.Ctx, h *holder) {
	one := func(x float64) {
		cs := Case{K: "rt", X: math.Float64bits(x), Show: gl.NumStr(x)}
		c.Begin(cs)
		c.Count("rt_values", 1)
		if d := checkRT(c, h, &cs, true); d != nil {
			d.report(c, cs)
			c.End(false, "")
			return
		}
		c.End(!(x == math.Trunc(x) && math.Abs(x) < 2147483648), fmt.Sprintf("rt:%x", cs.X))
	}
	for i, x := range specialFloats() {
		if c.Mine(i) {
			one(x)
		}
	}
	n := c.Share(c.Pick(100000, 10000000))
	for i := 0; i < n; i++ {
		x := randomFloat(c.R)
		one(x)
		if i == 0 && c.Shard == 1 {
			c.Sample(map[string]any{"clause": "rt", "x": gl.NumStr(x), "bits": fmt.Sprintf("%#x", math.Float64bits(x))})
		}
	}
}
