package c16

import (
	"fmt"
	"math/rand"
	"strings"
	"time"

	lua "github.com/yuin/gopher-lua"

	"verif/internal/fw"
	"verif/internal/gl"
)

// ---- clause (e): broken-down time, os.time round trip, strftime directives ----

type zone struct {
	name string
	off  int64 // seconds east of UTC
	loc  *time.Location
}

var zones = []zone{
	{"UTC", 0, time.UTC},
	{"FXA", 5*3600 + 1800, time.FixedZone("FXA", 5*3600+1800)},
	{"FXB", -(3*3600 + 1800), time.FixedZone("FXB", -(3*3600 + 1800))},
}

func zoneByName(n string) *zone {
	for i := range zones {
		if zones[i].name == n {
			return &zones[i]
		}
	}
	return nil
}

// civil is the model's broken-down time (proleptic Gregorian, no leap seconds).
type civil struct {
	year, month, day, hour, min, sec int
	wday                             int // 0 = Sunday
	yday                             int // 1..366
}

func leap(y int) bool { return y%4 == 0 && (y%100 != 0 || y%400 == 0) }

func daysInYear(y int) int64 {
	if leap(y) {
		return 366
	}
	return 365
}

func daysInMonth(y, m int) int64 {
	switch m {
	case 2:
		if leap(y) {
			return 29
		}
		return 28
	case 4, 6, 9, 11:
		return 30
	}
	return 31
}

// civilFrom walks years and months from 1970-01-01 (a Thursday).
func civilFrom(t, off int64) civil {
	local := t + off
	days := local / 86400
	rem := local % 86400
	if rem < 0 {
		rem += 86400
		days--
	}
	var c civil
	c.hour, c.min, c.sec = int(rem/3600), int(rem%3600/60), int(rem%60)
	c.wday = int(((days % 7) + 7 + 4) % 7)
	y := 1970
	d := days
	for d < 0 {
		y--
		d += daysInYear(y)
	}
	for d >= daysInYear(y) {
		d -= daysInYear(y)
		y++
	}
	c.year, c.yday = y, int(d)+1
	m := 1
	for d >= daysInMonth(y, m) {
		d -= daysInMonth(y, m)
		m++
	}
	c.month, c.day = m, int(d)+1
	return c
}

// daysFromCivil is written independently of civilFrom (forward summation).
func daysFromCivil(y, m, d int) int64 {
	var n int64
	for yy := 1970; yy < y; yy++ {
		n += daysInYear(yy)
	}
	for yy := y; yy < 1970; yy++ {
		n -= daysInYear(yy)
	}
	for mm := 1; mm < m; mm++ {
		n += daysInMonth(y, mm)
	}
	return n + int64(d-1)
}

var dayNames = [...]string{"Sunday", "Monday", "Tuesday", "Wednesday", "Thursday", "Friday", "Saturday"}
var monthNames = [...]string{"January", "February", "March", "April", "May", "June", "July", "August", "September", "October", "November", "December"}

const supportedDirectives = "aAbBcdFHImMpPSxXyYzZw%"

// render is strftime in the C locale for the supported directives. With
// buggy it reproduces the recorded wrong renderings of %a, %c and %x (finding
// C16-strftime-table-a-c-x) so that a divergence is attributed only when it is
// exactly that. ok is false when the format contains anything else after '%'.
func render(c civil, z *zone, format string, buggy bool) (string, bool) {
	var sb strings.Builder
	for i := 0; i < len(format); i++ {
		ch := format[i]
		if ch != '%' {
			sb.WriteByte(ch)
			continue
		}
		i++
		if i >= len(format) {
			return "", false
		}
		h12 := c.hour % 12
		if h12 == 0 {
			h12 = 12
		}
		switch format[i] {
		case 'a':
			if buggy {
				sb.WriteString("mon")
			} else {
				sb.WriteString(dayNames[c.wday][:3])
			}
		case 'A':
			sb.WriteString(dayNames[c.wday])
		case 'b':
			sb.WriteString(monthNames[c.month-1][:3])
		case 'B':
			sb.WriteString(monthNames[c.month-1])
		case 'c':
			if buggy {
				fmt.Fprintf(&sb, "%02d %s %02d %02d:%02d %s", c.day, monthNames[c.month-1][:3], c.year%100, c.hour, c.min, z.name)
			} else {
				fmt.Fprintf(&sb, "%s %s %2d %02d:%02d:%02d %d", dayNames[c.wday][:3], monthNames[c.month-1][:3], c.day, c.hour, c.min, c.sec, c.year)
			}
		case 'd':
			fmt.Fprintf(&sb, "%02d", c.day)
		case 'F':
			fmt.Fprintf(&sb, "%d-%02d-%02d", c.year, c.month, c.day)
		case 'H':
			fmt.Fprintf(&sb, "%02d", c.hour)
		case 'I':
			fmt.Fprintf(&sb, "%02d", h12)
		case 'm':
			fmt.Fprintf(&sb, "%02d", c.month)
		case 'M':
			fmt.Fprintf(&sb, "%02d", c.min)
		case 'p':
			if c.hour < 12 {
				sb.WriteString("AM")
			} else {
				sb.WriteString("PM")
			}
		case 'P':
			if c.hour < 12 {
				sb.WriteString("am")
			} else {
				sb.WriteString("pm")
			}
		case 'S':
			fmt.Fprintf(&sb, "%02d", c.sec)
		case 'x':
			if buggy {
				fmt.Fprintf(&sb, "%02d/%02d/%02d", c.hour, c.min, c.sec)
			} else {
				fmt.Fprintf(&sb, "%02d/%02d/%02d", c.month, c.day, c.year%100)
			}
		case 'X':
			fmt.Fprintf(&sb, "%02d:%02d:%02d", c.hour, c.min, c.sec)
		case 'y':
			fmt.Fprintf(&sb, "%02d", c.year%100)
		case 'Y':
			fmt.Fprintf(&sb, "%d", c.year)
		case 'z':
			off := z.off
			sign := byte('+')
			if off < 0 {
				sign, off = '-', -off
			}
			fmt.Fprintf(&sb, "%c%02d%02d", sign, off/3600, off%3600/60)
		case 'Z':
			sb.WriteString(z.name)
		case 'w':
			fmt.Fprintf(&sb, "%d", c.wday)
		case '%':
			sb.WriteByte('%')
		default:
			return "", false
		}
	}
	return sb.String(), true
}

func hasACX(format string) bool {
	for i := 0; i+1 < len(format); i++ {
		if format[i] == '%' {
			switch format[i+1] {
			case 'a', 'c', 'x':
				return true
			}
			i++
		}
	}
	return false
}

const (
	// farFmt: no year directive (how C renders years outside 1000..9999 is not pinned here)
	farFmt   = "%A|%b|%d|%H|%I|%m|%M|%p|%S|%X|%w|%%"
	cleanFmt = "%A|%b|%B|%d|%F|%H|%I|%m|%M|%p|%P|%S|%X|%y|%Y|%z|%Z|%w|%%"
	acxFmt   = "%a|%c|%x"
)

func num(v lua.LValue) (int64, bool) {
	n, ok := v.(lua.LNumber)
	if !ok || float64(n) != float64(int64(n)) {
		return 0, false
	}
	return int64(n), true
}

func fieldsDiffer(res []lua.LValue, m civil) string {
	want := []int{m.year, m.month, m.day, m.hour, m.min, m.sec, m.wday + 1}
	names := []string{"year", "month", "day", "hour", "min", "sec", "wday"}
	for i, w := range want {
		g, ok := num(res[i])
		if !ok || g != int64(w) {
			return fmt.Sprintf("field %s = %s, computed %d", names[i], canon(res[i:i+1]), w)
		}
	}
	if res[8] != lua.LFalse {
		return "field isdst = " + canon(res[8:9]) + " in a zone without daylight saving"
	}
	return ""
}

// checkDate: K=="date": fields (except yday), os.time round trip and the format
// in the local zone, plus the "!" variants in a non-UTC zone. K=="yday": the
// yday field only (kept apart because it is a known finding on this tree).
func checkDate(c *fw.Ctx, h *holder, cs *Case, count bool) *div {
	e := h.get()
	z := zoneByName(cs.Zone)
	if z == nil {
		return &div{What: "unknown zone " + cs.Zone}
	}
	saved := time.Local
	time.Local = z.loc
	defer func() { time.Local = saved }()
	m := civilFrom(cs.T, z.off)
	want, ok := render(m, z, cs.Fmt, false)
	if !ok {
		if count {
			c.Inconclusive("date_format_outside_model")
		}
		return nil
	}
	res, o := gl.Call(e.L, e.date, lua.LNumber(cs.T), lua.LString(cs.Fmt))
	where := fmt.Sprintf("os.date/os.time at t=%d zone %s", cs.T, z.name)
	if d := canary(h, o, where); d != nil {
		return d
	}
	if o.Err != nil {
		return &div{What: where + " raised: " + fw.Short(o.Err.Error(), 200), Got: "error"}
	}
	if len(res) != 11 {
		return &div{What: where + ": helper returned " + canon(res), Got: canon(res)}
	}
	if cs.K == "yday" {
		g, ok := num(res[7])
		if ok && g == int64(m.yday) {
			return nil
		}
		d := &div{What: fmt.Sprintf("%s: os.date('*t').yday = %s, computed %d", where, canon(res[7:8]), m.yday), Got: "yday=" + canon(res[7:8])}
		if ok && g == 0 {
			d.Finding = fYday // matcher: the field is the constant 0
		}
		return d
	}
	if w := fieldsDiffer(res, m); w != "" {
		return &div{What: where + ": os.date('*t') " + w, Got: canon(res[:9])}
	}
	if g, ok := num(res[9]); !ok || g != cs.T {
		return &div{What: fmt.Sprintf("%s: os.time(os.date('*t', t)) = %s", where, canon(res[9:10])), Got: canon(res[9:10])}
	}
	cmpFmt := func(got lua.LValue, want string, mm civil, zz *zone, pfx string) *div {
		g, ok := got.(lua.LString)
		if ok && string(g) == want {
			return nil
		}
		d := &div{What: fmt.Sprintf("%s: os.date(%q) = %s, C strftime gives %q", where, pfx+cs.Fmt, canon([]lua.LValue{got}), want), Got: string(g)}
		if hasACX(cs.Fmt) {
			if bug, _ := render(mm, zz, cs.Fmt, true); ok && string(g) == bug {
				d.Finding = fStrftime
			}
		}
		return d
	}
	if d := cmpFmt(res[10], want, m, z, ""); d != nil {
		return d
	}
	if z.off != 0 {
		um := civilFrom(cs.T, 0)
		uz := &zones[0]
		res, o := gl.Call(e.L, e.udate, lua.LNumber(cs.T), lua.LString(cs.Fmt))
		if d := canary(h, o, where+" ('!' forms)"); d != nil {
			return d
		}
		if o.Err != nil || len(res) != 10 {
			return &div{What: where + " ('!' forms) failed: " + gl.ErrText(o.Err) + canon(res), Got: "error"}
		}
		full := append(append([]lua.LValue{}, res[:9]...), lua.LNil, res[9])
		if w := fieldsDiffer(full, um); w != "" {
			return &div{What: where + ": os.date('!*t') " + w, Got: canon(res[:9])}
		}
		uwant, _ := render(um, uz, cs.Fmt, false)
		if d := cmpFmt(res[9], uwant, um, uz, "!"); d != nil {
			return d
		}
		if count {
			c.Count("date_utc_forms_in_offset_zone_ok", 1)
		}
	}
	return nil
}

var selectedDays = [][3]int{
	{1970, 1, 1}, {1972, 2, 29}, {1999, 12, 31}, {2000, 2, 29}, {2000, 12, 31}, {2038, 1, 19}, {2100, 2, 28}, {2100, 3, 1},
	// thorough tier only from here
	{1970, 12, 31}, {1971, 1, 1}, {1972, 3, 1}, {1972, 12, 31}, {2000, 1, 1}, {2000, 3, 1}, {2001, 1, 1}, {2001, 9, 9}, {2004, 2, 29}, {2004, 12, 31},
	{2009, 2, 13}, {2016, 12, 31}, {2024, 2, 29}, {2026, 9, 25}, {2033, 5, 18}, {2038, 1, 18}, {2038, 1, 20}, {2096, 2, 29}, {2099, 12, 31}, {2100, 1, 1},
	{2100, 12, 31}, {2101, 1, 1},
}

var fmtLiterals = []string{"", " ", "-", "T", ":", "/", "Jan", "Mon", "2006", "15:04:05", "x", "day ", "é", ", ", "%%"}

func randomFormat(r *rand.Rand) string {
	var sb strings.Builder
	n := 1 + r.Intn(6)
	for i := 0; i < n; i++ {
		sb.WriteString(fmtLiterals[r.Intn(len(fmtLiterals))])
		sb.WriteByte('%')
		sb.WriteByte(supportedDirectives[r.Intn(len(supportedDirectives))])
	}
	sb.WriteString(fmtLiterals[r.Intn(len(fmtLiterals))])
	return sb.String()
}

func runDate(c *fw.Ctx, h *holder) {
	one := func(kind string, t int64, z *zone, format string) {
		cs := Case{K: kind, T: t, Zone: z.name, Fmt: format}
		c.Begin(cs)
		c.Count("date_cases_"+kind+"_"+z.name, 1)
		if d := checkDate(c, h, &cs, true); d != nil {
			d.report(c, cs)
			c.End(false, "")
			return
		}
		c.End(true, fmt.Sprintf("%s:%d:%s:%s", kind, t, z.name, format))
	}
	// A. every 7919th second 1970..2100, phase chosen by the seed
	const tMax = 4102444800 // 2100-01-01T00:00:00Z
	stride := int64(7919)
	phase := c.Seed % stride
	if phase < 0 {
		phase += stride
	}
	i := 0
	for t := phase; t < tMax; t += stride {
		if c.Mine(i) {
			z := &zones[i/c.NShards%len(zones)]
			if !c.Quick() {
				for k := range zones {
					one("date", t, &zones[k], cleanFmt)
				}
			} else {
				one("date", t, z, cleanFmt)
			}
			if !c.Quick() || i/c.NShards%4 == 1 {
				one("date", t, z, acxFmt)
				one("yday", t, z, "%d")
			}
			if i/c.NShards%4 == 0 {
				rf := randomFormat(c.SubRand("fmt", i))
				one("date", t, z, rf)
				c.Count("date_random_formats", 1)
				if i/c.NShards == 0 {
					m := civilFrom(t, z.off)
					w, _ := render(m, z, rf, false)
					c.Sample(map[string]any{"clause": "date", "t": t, "zone": z.name, "format": rf, "model_renders": w, "model_fields": fmt.Sprintf("%+v", m)})
				}
			}
		}
		i++
	}
	// A2. far years: one instant per month of the astronomical years -2..2,
	// 999/1000, 9999/10000 and a spread of years -4000..12000 (a year of -1, 0
	// or another "special" number is a year like any other)
	{
		years := []int{-2, -1, 0, 1, 2, 99, 100, 999, 1000, 1582, 1899, 1900, 1901, 1969, 9999, 10000}
		for y := -4000; y <= 12000; y += 331 {
			years = append(years, y)
		}
		fi := 0
		for _, y := range years {
			for mth := 1; mth <= 12; mth++ {
				t := daysFromCivil(y, mth, 1+(mth*7)%int(daysInMonth(y, mth)))*86400 + int64((mth*7919+y*13)%86400+86400)%86400
				for k := range zones {
					if c.Mine(fi) {
						one("date", t, &zones[k], farFmt)
						c.Count("date_far_year_instants", 1)
					}
					fi++
				}
			}
		}
	}
	// B. every second of selected days (UTC day boundaries), every zone
	nd := c.Pick(8, len(selectedDays))
	days := append([][3]int{}, selectedDays[:nd]...)
	if !c.Quick() {
		r := c.SubRand("days", 0)
		for k := 0; k < 20; k++ {
			y := 1970 + r.Intn(131)
			mth := 1 + r.Intn(12)
			days = append(days, [3]int{y, mth, 1 + r.Intn(int(daysInMonth(y, mth)))})
		}
	}
	// (quick tier: one zone per day every second, the other two every 11th second)
	i = 0
	for di, d := range days {
		t0 := daysFromCivil(d[0], d[1], d[2]) * 86400
		for s := int64(0); s < 86400; s++ {
			for k := range zones {
				if c.Quick() && k != di%len(zones) && s%11 != 0 {
					continue
				}
				if c.Mine(i) {
					one("date", t0+s, &zones[k], cleanFmt)
					if s%61 == 0 {
						one("date", t0+s, &zones[k], acxFmt)
						one("yday", t0+s, &zones[k], "%d")
					}
				}
				i++
			}
		}
	}
	if c.Shard == 0 {
		c.Count("date_selected_days_every_second", int64(len(days)))
	}
}
