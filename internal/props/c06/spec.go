package c06

import (
	"verif/internal/fw"
	"verif/internal/last"
	"verif/internal/lgen"
	"verif/internal/lrun"
	"verif/internal/props/pcommon"
)

const quickN, thoroughN = 25000, 1500000

const rule = "programs: 1-4 coroutines (create and wrap) whose generated bodies emit their arguments, keep a local across suspensions, yield payloads of 0-4 values directly, from nested Lua calls of depth 1-6, from loops, " +
	"resume each other (status normal seen from inside), create closures shared with the main chunk, and end by return / tail call / tail-called yield / error(string|table) / fall-through; " +
	"the main chunk drives them with a generated history of 4-22 resume / wrapped call / status / running / yield-from-main operations with payloads of 0-4 values, reuses registers in between and finally drains every coroutine; " +
	"added shapes: a coroutine created inside another one and used after its creator returned / failed / while it is suspended; the thread behind a wrap function (coroutine.running()) driven by coroutine.resume; a host function as body; 199-420 contained wrap failures followed by ordinary use; 150 nested calls and 250-value payloads inside a coroutine; unbounded resume nesting (must end in a catchable error); " +
	"trace compared with the reference interpreter; non-trivial = >=2 coroutines or >=4 transfers; distinct by source hash"

var assumptions = []string{
	"reference interpreter models coroutines as strict hand-off goroutines per manual 2.11/5.2; yield across pcall/metamethod/iterator raises as in Lua 5.1",
	"the text of a string error propagated by coroutine.wrap is not compared (5.1 adds position information), only its type",
}

var reproducers = map[string]func(c *fw.Ctx) (bool, string){}

// config: every third program runs with Options.IncludeGoStackTrace (it only adds Go's
// stack to what the Go caller can print; how a failure travels between coroutines must
// not depend on it).
func config(c *fw.Ctx, idx int) *lrun.Config {
	cfg := defaultConfig()
	if idx%3 == 1 {
		cfg.Opts.IncludeGoStackTrace = true
	}
	return cfg
}

func classify(c *fw.Ctx, o *pcommon.Outcome, cs pcommon.Case) {
	c.Violation("implementation diverges from the reference interpreter: "+o.Diff.String(), cs)
}

func nontrivial(o *pcommon.Outcome, g *lgen.Gen) bool {
	transfers := 0
	for _, e := range o.Impl.Trace {
		if len(e) > 8 && (e[:8] == `"resume"` || e[:7] == `"drain"`) {
			transfers++
		}
	}
	return g.NCoroutines >= 2 || transfers >= 4
}

func extra(c *fw.Ctx, idx int, chunk *last.Chunk, o *pcommon.Outcome, count bool) {}
