package c20

import (
	"fmt"
	"os"
	"path/filepath"
	"strconv"
	"strings"

	lua "github.com/yuin/gopher-lua"
	"github.com/yuin/gopher-lua/parse"

	"verif/internal/fw"
	"verif/internal/gl"
)

// event is one observation made from inside a loader (through the host
// function emit, or directly by a Go loader).
//
//	enter  id  [nargs, args...]   loader entry; K = how often this definition has been entered
//	ret    id  [v]                the value the loader is about to return
//	set    id  [v]                the value the loader has just stored in package.loaded[name]
//	mod    id  [_M,_NAME,_PACKAGE] after module(...)
//	nested id  [ok, v]            outcome of a require made by the loader
type event struct {
	Kind string
	ID   int
	K    int
	Vals []lua.LValue
}

// def is one loader definition (one "def" op creates one, source "both" two).
type def struct {
	id   int
	name string
	src  string // luapre | gopre | file | init
	beh  string
	t    string // target module of req / preq
}

type harness struct {
	c         *fw.Ctx
	L         *lua.LState
	dir       string
	ev        []event
	calls     map[int]int
	requireFn lua.LValue
	clrFn     lua.LValue
	unpFn     lua.LValue
	newpreFn  lua.LValue
	pkg       *lua.LTable
	wrote     []string // module files written by this history
	overflow  bool
}

// directories already created by this process (they are kept between histories;
// only the module files are removed)
var madeDirs = map[string]bool{}

func mkdir(dir string) {
	if madeDirs[dir] {
		return
	}
	if err := os.MkdirAll(dir, 0o755); err != nil {
		panic("harness: " + err.Error())
	}
	madeDirs[dir] = true
}

const maxEvents = 4000

// protoCache: the harness's own chunks (helper table, package.preload
// assignments) are compiled once per process and instantiated per state;
// module *files* are always written out and compiled by require itself.
var protoCache = map[string]*lua.FunctionProto{}

func compile(src string) *lua.FunctionProto {
	if p, ok := protoCache[src]; ok {
		return p
	}
	chunk, err := parse.Parse(strings.NewReader(src), "c20")
	if err != nil {
		panic("harness: chunk does not parse: " + err.Error() + "\n" + src)
	}
	p, err := lua.Compile(chunk, "c20")
	if err != nil {
		panic("harness: chunk does not compile: " + err.Error() + "\n" + src)
	}
	protoCache[src] = p
	return p
}

const helperSrc = `
return {
  clr = function(n) package.loaded[n] = nil end,
  unp = function(n) package.preload[n] = nil end,
  newpre = function() package.preload = {} end,
}
`

// newHarness returns a fresh state; the string is non-empty when the state
// lacks what every script relies on (that is an observation, not a harness fault).
func newHarness(c *fw.Ctx) (*harness, string) {
	h := &harness{c: c, calls: map[int]int{}}
	h.dir = filepath.Join(c.Work, "mods")
	mkdir(h.dir)
	L := lua.NewState()
	h.L = L
	L.SetGlobal("emit", L.NewFunction(h.emitFn))
	h.pkg, _ = L.GetGlobal("package").(*lua.LTable)
	if h.pkg == nil {
		return h, "after lua.NewState() the global package is not a table: " + cv(L.GetGlobal("package"))
	}
	if _, ok := L.GetGlobal("require").(*lua.LFunction); !ok {
		return h, "after lua.NewState() the global require is not a function"
	}
	L.SetField(h.pkg, "path", lua.LString(h.dir+"/?.lua;"+h.dir+"/?/init.lua"))
	hv, o := gl.Call(L, L.NewFunctionFromProto(compile(helperSrc)))
	if o.Err != nil || o.GoPanic != nil || len(hv) != 1 {
		return h, "a three-line helper chunk does not run on a fresh state: " + gl.ErrText(o.Err) + o.PanicStr
	}
	hp, ok := hv[0].(*lua.LTable)
	if !ok {
		return h, "helper chunk did not return its table"
	}
	h.clrFn = hp.RawGetString("clr")
	h.unpFn = hp.RawGetString("unp")
	h.newpreFn = hp.RawGetString("newpre")
	h.requireFn = L.GetGlobal("require")
	return h, ""
}

func (h *harness) close() {
	h.L.Close()
	for _, p := range h.wrote {
		os.Remove(p)
	}
}

// candidates returns the files the path search must try for a module, in order.
func (h *harness) candidates(name string) []string {
	rel := strings.ReplaceAll(name, ".", string(os.PathSeparator))
	return []string{filepath.Join(h.dir, rel+".lua"), filepath.Join(h.dir, rel, "init.lua")}
}

func (h *harness) record(e event) int {
	if len(h.ev) >= maxEvents {
		h.overflow = true
		return 0
	}
	if e.Kind == "enter" {
		h.calls[e.ID]++
		e.K = h.calls[e.ID]
	}
	h.ev = append(h.ev, e)
	return e.K
}

// emitFn is the host function `emit(kind, id, ...)` the Lua loaders call.
func (h *harness) emitFn(L *lua.LState) int {
	kind := L.CheckString(1)
	id := L.CheckInt(2)
	n := L.GetTop()
	vals := make([]lua.LValue, 0, n-2)
	for i := 3; i <= n; i++ {
		vals = append(vals, L.Get(i))
	}
	k := h.record(event{Kind: kind, ID: id, Vals: vals})
	if kind == "enter" {
		L.Push(lua.LNumber(k))
		return 1
	}
	return 0
}

const luaPrelude = "local emit, require, pcall, error, select, module, package = emit, require, pcall, error, select, module, package\n"

// luaBody renders the loader body of a definition as Lua source. All globals
// it needs are captured as locals first because module(...) replaces the
// function environment.
func luaBody(d *def) string {
	id := strconv.Itoa(d.id)
	q := strconv.Quote(d.name)
	s := "local k = emit('enter', " + id + ", select('#', ...), ...)\n"
	tab := "local t = {} emit('ret', " + id + ", t) return t\n"
	switch d.beh {
	case "tab":
		s += tab
	case "str":
		s += "local s = 'S" + id + ":' .. k emit('ret', " + id + ", s) return s\n"
	case "false":
		s += "emit('ret', " + id + ", false) return false\n"
	case "none":
		s += "return\n"
	case "multi":
		s += "local t = {} emit('ret', " + id + ", t) return t, 'extra', {}\n"
	case "assign":
		s += "local t = {} package.loaded[" + q + "] = t emit('set', " + id + ", t)\n"
	case "assignret":
		s += "local t, u = {}, {} package.loaded[" + q + "] = t emit('set', " + id + ", t) emit('ret', " + id + ", u) return u\n"
	case "assignsame":
		s += "local t = {} package.loaded[" + q + "] = t emit('set', " + id + ", t) emit('ret', " + id + ", t) return t\n"
	case "module":
		s += "module(...)\nemit('mod', " + id + ", _M, _NAME, _PACKAGE)\n"
	case "peek":
		// the loader looks at its own package.loaded entry while it is being loaded
		s += "local x = package.loaded[" + q + "]\nlocal ok1, r1 = pcall(function() return type(getmetatable(x)) .. tostring(getmetatable(x)) .. type(debug.getfenv(x)) end)\nlocal ok2, r2 = pcall(tostring, x)\nlocal ok3, r3 = pcall(function() return x == x and x ~= nil end)\n" +
			"emit('peek', " + id + ", ok1 or tostring(r1), ok2 or tostring(r2), ok3 or tostring(r3))\n" + tab
	case "fail":
		s += "error('E-boom:" + id + ":' .. k)\n"
	case "failonce":
		s += "if k == 1 then error('E-boom:" + id + ":' .. k) end\n" + tab
	case "req":
		s += "local v = require(" + strconv.Quote(d.t) + ")\nemit('nested', " + id + ", true, v)\n" + tab
	case "preq":
		s += "local ok, v = pcall(require, " + strconv.Quote(d.t) + ")\nemit('nested', " + id + ", ok, v)\n" + tab
	default:
		panic("harness: unknown behaviour " + d.beh)
	}
	return s
}

// goLoader implements the same behaviours as luaBody as an LGFunction.
func (h *harness) goLoader(d *def) lua.LGFunction {
	return func(L *lua.LState) int {
		n := L.GetTop()
		vals := []lua.LValue{lua.LNumber(n)}
		for i := 1; i <= n; i++ {
			vals = append(vals, L.Get(i))
		}
		k := h.record(event{Kind: "enter", ID: d.id, Vals: vals})
		emit := func(kind string, vs ...lua.LValue) { h.record(event{Kind: kind, ID: d.id, Vals: vs}) }
		loaded := func() lua.LValue { return L.GetField(L.GetGlobal("package"), "loaded") }
		tab := func() int {
			t := L.NewTable()
			emit("ret", t)
			L.Push(t)
			return 1
		}
		switch d.beh {
		case "tab":
			return tab()
		case "str":
			s := lua.LString(fmt.Sprintf("S%d:%d", d.id, k))
			emit("ret", s)
			L.Push(s)
			return 1
		case "false":
			emit("ret", lua.LFalse)
			L.Push(lua.LFalse)
			return 1
		case "none":
			return 0
		case "multi":
			t := L.NewTable()
			emit("ret", t)
			L.Push(t)
			L.Push(lua.LString("extra"))
			L.Push(L.NewTable())
			return 3
		case "assign":
			t := L.NewTable()
			L.SetField(loaded(), d.name, t)
			emit("set", t)
			return 0
		case "assignret":
			t, u := L.NewTable(), L.NewTable()
			L.SetField(loaded(), d.name, t)
			emit("set", t)
			emit("ret", u)
			L.Push(u)
			return 1
		case "assignsame":
			t := L.NewTable()
			L.SetField(loaded(), d.name, t)
			emit("set", t)
			emit("ret", t)
			L.Push(t)
			return 1
		case "peek":
			x := L.GetField(loaded(), d.name)
			look := func(f func()) lua.LValue {
				if o := gl.Protect(func() error { f(); return nil }); o.GoPanic != nil {
					return lua.LString("Go panic: " + o.PanicStr)
				} else if o.Err != nil {
					return lua.LString(o.Err.Error())
				}
				return lua.LTrue
			}
			emit("peek", look(func() { _ = L.GetMetatable(x).Type() }), look(func() { L.ToStringMeta(x) }), look(func() { L.Equal(x, x) }))
			return tab()
		case "fail":
			L.RaiseError("E-boom:%d:%d", d.id, k)
		case "failonce":
			if k == 1 {
				L.RaiseError("E-boom:%d:%d", d.id, k)
			}
			return tab()
		case "req":
			L.Push(L.GetGlobal("require"))
			L.Push(lua.LString(d.t))
			L.Call(1, 1) // an error propagates through this Go frame, as it does through a Lua loader
			v := L.Get(-1)
			L.Pop(1)
			emit("nested", lua.LTrue, v)
			return tab()
		case "preq":
			L.Push(L.GetGlobal("require"))
			L.Push(lua.LString(d.t))
			if err := L.PCall(1, 1, nil); err != nil {
				emit("nested", lua.LFalse, lua.LString(err.Error()))
			} else {
				v := L.Get(-1)
				L.Pop(1)
				emit("nested", lua.LTrue, v)
			}
			return tab()
		default:
			panic("harness: behaviour not available to Go loaders: " + d.beh)
		}
		return 0
	}
}

// define installs a loader definition in the implementation.
func (h *harness) define(d *def) gl.Outcome {
	L := h.L
	switch d.src {
	case "luapre":
		src := luaPrelude + "package.preload[" + strconv.Quote(d.name) + "] = function(...)\n" + luaBody(d) + "end\n"
		_, o := gl.Call(L, L.NewFunctionFromProto(compile(src)))
		return o
	case "gopre":
		return gl.Protect(func() error {
			L.PreloadModule(d.name, h.goLoader(d))
			return nil
		})
	case "file", "init":
		c := h.candidates(d.name)
		path := c[0]
		if d.src == "init" {
			path = c[1]
		}
		src := luaPrelude + luaBody2(d)
		h.wrote = append(h.wrote, path)
		mkdir(filepath.Dir(path))
		if err := os.WriteFile(path, []byte(src), 0o644); err != nil {
			panic("harness: " + err.Error())
		}
		return gl.Outcome{}
	}
	panic("harness: unknown source " + d.src)
}

// luaBody2 is luaBody plus the file-only behaviour "badsyntax".
func luaBody2(d *def) string {
	if d.beh == "badsyntax" {
		return "return return -- does not compile\n"
	}
	return luaBody(d)
}

// blockFile puts a regular file at <dir>/<name> (no extension).
func (h *harness) blockFile(name string) {
	path := filepath.Join(h.dir, name)
	if err := os.WriteFile(path, []byte("return nil\n"), 0o644); err != nil {
		panic("c20: cannot write " + path + ": " + err.Error())
	}
	h.wrote = append(h.wrote, path)
}

func (h *harness) deleteFiles(name string) {
	for _, p := range h.candidates(name) {
		os.Remove(p)
	}
}

func (h *harness) loadedTable() *lua.LTable {
	t, _ := h.pkg.RawGetString("loaded").(*lua.LTable)
	return t
}

func (h *harness) loadedGet(name string) lua.LValue {
	t := h.loadedTable()
	if t == nil {
		return lua.LNil
	}
	return t.RawGetString(name)
}

// globalPath looks a dotted module name up through the globals, raw.
func (h *harness) globalPath(name string) lua.LValue {
	var cur lua.LValue = h.L.Get(lua.GlobalsIndex)
	for _, part := range strings.Split(name, ".") {
		t, ok := cur.(*lua.LTable)
		if !ok {
			return lua.LNil
		}
		cur = t.RawGetString(part)
	}
	return cur
}

func (h *harness) trace(m *gl.IDMap) string {
	var sb strings.Builder
	for i, e := range h.ev {
		if i > 0 {
			sb.WriteString("; ")
		}
		if i >= 40 {
			fmt.Fprintf(&sb, "... %d more", len(h.ev)-i)
			break
		}
		fmt.Fprintf(&sb, "%s#%d", e.Kind, e.ID)
		if e.Kind == "enter" {
			fmt.Fprintf(&sb, "/%d", e.K)
		}
		sb.WriteString("(" + fw.Short(gl.CanonList(e.Vals, m), 160) + ")")
	}
	return sb.String()
}
