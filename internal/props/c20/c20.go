// Package c20: require loads each module once, from preload first, and
// reports loops (model-based monitoring, bounded-exhaustive over short
// histories plus seeded random longer ones).
package c20

import (
	"encoding/json"
	"fmt"
	"math/rand"
	"strings"

	lua "github.com/yuin/gopher-lua"

	"verif/internal/fw"
	"verif/internal/gl"
)

func init() {
	fw.Register(&fw.Prop{
		ID:    "C20",
		Level: "exploration",
		Rule: "histories of def(name,source,behaviour) / require / package.loaded[name]=nil / package.preload[name]=nil / delete file / RegisterModule ops on one fresh lua.NewState(), " +
			"each op followed by a replay of the loaders' emit log through a model of the 5.1 require algorithm (which loader is entered, with which arguments, nested results, result identity) " +
			"and a read-back of package.loaded[n] and the module globals for every name. Bounded-exhaustive part: ALL histories of length <= 4 (quick) / <= 5, host family <= 6 (thorough) over four pruned alphabets " +
			"(cache: names a,b x 14 behaviours, source variants luapre/gopre/file/both; select: names a,a.b x sources luapre/gopre/file/init + non-compiling file + unregister + delete; " +
			"cycle: names a,b,c x require/protected-require of a,b,c + table/fail/failonce, under luapre/gopre/file; host: RegisterModule/module()/table on a,a.b), pruned by (i) last op must be a require/RegisterModule " +
			"(any other history is observation-equivalent to its prefix, which is enumerated), (ii) interchangeable names appear in first-mention order a,b,c; " +
			"cache/cycle histories run under every source variant up to length 3 (quick) / 4 (thorough), the longest length under one variant chosen by (index+seed) rotation. " +
			"stat-failure histories: a regular file where a directory is expected (blk op), names beyond NAME_MAX, a NUL byte: the not-found error must still list every candidate; " +
			"Random part: seeded histories of length 1-30 over the full alphabet (4 names, all sources, all behaviours, any require target). " +
			"non-trivial = at least one loader ran and at least two requires (top-level or nested) were evaluated; distinct by content hash of (family, source variant, ops)",
		Assumptions: []string{
			"the model of require/module/luaL_register transcribed from the Lua 5.1 manual (5.3, 4.8) is correct",
			"where the statement is silent (state left by a failing loader; loader assigns package.loaded[name] and returns a different value) either 5.1-compatible outcome is accepted and only consistency is asserted",
			"package.path is the two templates <dir>/?.lua;<dir>/?/init.lua over a private directory; LUA_PATH is not consulted after start-up",
		},
		CrashIsViolation: true,
		Exhaustive:       true,
		Run:              run,
		Replay:           replay,
		Reproducers: map[string]func(c *fw.Ctx) (bool, string){
			"C20-package-not-in-loaded": func(c *fw.Ctx) (bool, string) {
				d := runStd(c, false)
				return d != nil && d.Tag == "std:package", fmt.Sprint(d)
			},
			"C20-registermodule-reuse-drops-funcs": func(c *fw.Ctx) (bool, string) {
				cs := &Case{Fam: "repro", Ops: []Op{
					{K: "def", N: "a", Src: "luapre", Beh: "tab"}, {K: "req", N: "a"}, {K: "host", N: "a"}}}
				d := runCase(c, cs, false)
				return d != nil && d.Tag == "host-reuse-nofuncs" && d.Step == 2, fmt.Sprint(d)
			},
		},
	})
}

// Op is one step of a history.
type Op struct {
	K   string `json:"k"` // def | req | clr | unp | del | host
	N   string `json:"n"`
	Src string `json:"src,omitempty"` // luapre | gopre | file | init | both ("" = the case's source variant)
	Beh string `json:"beh,omitempty"`
	T   string `json:"t,omitempty"` // target of req / preq
}

// Case is the replayable unit.
type Case struct {
	Fam string `json:"fam"`           // cache | select | cycle | host | random | repro | stdlib
	Var string `json:"var,omitempty"` // source used by def ops that name none
	Ops []Op   `json:"ops,omitempty"`
}

type divergence struct {
	Step  int    `json:"step"`
	Op    Op     `json:"op"`
	Msg   string `json:"msg"`
	Tag   string `json:"tag,omitempty"`
	Trace string `json:"trace,omitempty"`
}

func (d *divergence) String() string {
	if d == nil {
		return "no divergence"
	}
	return fmt.Sprintf("step %d %+v: %s [events of the step: %s]", d.Step, d.Op, d.Msg, d.Trace)
}

var allNames = []string{"a", "b", "c", "a.b"}

const hostFunc = "hf"

// defsOf expands a def op into loader definitions (ids are positional).
func defsOf(i int, op Op, variant string) []*def {
	src := op.Src
	if src == "" {
		src = variant
	}
	if op.Beh == "module" && src == "gopre" {
		src = "luapre" // module() cannot be called from a host function (5.1: "not called from a Lua function")
	}
	if op.Beh == "badsyntax" && src != "init" {
		src = "file"
	}
	d := &def{id: 10*i + 1, name: op.N, src: src, beh: op.Beh, t: op.T}
	if src == "both" {
		d.src = "luapre"
		return []*def{d, {id: 10*i + 2, name: op.N, src: "file", beh: "tab"}}
	}
	return []*def{d}
}

func opString(op Op, variant string) string {
	switch op.K {
	case "def":
		src := op.Src
		if src == "" {
			src = variant
		}
		s := "def " + op.N + " " + src + "/" + op.Beh
		if op.T != "" {
			s += "(" + op.T + ")"
		}
		return s
	case "req":
		return "require " + op.N
	case "clr":
		return "package.loaded." + op.N + "=nil"
	case "unp":
		return "package.preload." + op.N + "=nil"
	case "del":
		return "delete files of " + op.N
	case "newpre":
		return "package.preload={}"
	case "host":
		return "RegisterModule " + op.N + " +require"
	case "blk":
		return "regular file <dir>/" + op.N + " (no extension: blocks " + op.N + ".* as a directory)"
	}
	return op.K
}

// runCase executes one history on the implementation and the model.
func runCase(c *fw.Ctx, cs *Case, count bool, transcript ...*[]string) (dv *divergence) {
	h, broken := newHarness(c)
	defer h.close()
	if broken != "" {
		return &divergence{Msg: broken}
	}
	m := newSim(h)
	L := h.L
	kinds := map[string]int64{}
	ids := gl.NewIDMap()
	step := 0
	var cur Op
	var softDv *divergence
	defer func() {
		if r := recover(); r != nil {
			d, ok := r.(diverge)
			if !ok {
				panic(r)
			}
			dv = &divergence{Step: step, Op: cur, Msg: d.msg, Tag: d.tag, Trace: h.trace(gl.NewIDMap())}
		}
		if count {
			for k, v := range kinds {
				c.Count(k, v)
			}
			for k, v := range m.st {
				c.Count(k, v)
			}
			if dv == nil {
				b, _ := json.Marshal(cs)
				c.End(m.st["loads"] >= 1 && m.st["requires"] >= 2, string(b))
			}
		}
	}()
	canary := func(o gl.Outcome, what string) {
		if o.GoPanic != nil {
			m.fail("", "Go panic escaped %s: %s", what, fw.Short(o.PanicStr, 300))
		}
		if o.Err != nil && gl.IsGoRuntimeErrorText(o.Err.Error()) {
			m.fail("", "Go run-time fault surfaced from %s: %s", what, fw.Short(o.Err.Error(), 300))
		}
	}
	for i, op := range cs.Ops {
		step, cur = i, op
		h.ev = h.ev[:0]
		m.pos = 0
		kinds["op_"+op.K]++
		outcome := "ok"
		show := func(vals []lua.LValue, o gl.Outcome) {
			if o.Err != nil {
				outcome = "error " + fw.Short(strings.Join(strings.Fields(o.Err.Error()), " "), 160)
			} else {
				outcome = "returns " + gl.CanonList(vals, ids)
			}
		}
		switch op.K {
		case "def":
			for _, d := range defsOf(i, op, cs.Var) {
				kinds["def_src_"+d.src]++
				kinds["def_beh_"+d.beh]++
				o := h.define(d)
				canary(o, "def")
				if o.Err != nil {
					m.fail("", "registering a loader failed: %s", fw.Short(o.Err.Error(), 200))
				}
				m.define(d)
			}
		case "req":
			vals, o := gl.Call(L, h.requireFn, lua.LString(op.N))
			show(vals, o)
			canary(o, "require")
			if h.overflow {
				m.fail("", "more than %d loader events in one require (runaway loading)", maxEvents)
			}
			r := m.require(op.N)
			m.checkTop(op.N, r, vals, o)
		case "clr":
			_, o := gl.Call(L, h.clrFn, lua.LString(op.N))
			canary(o, "package.loaded[n]=nil")
			if o.Err != nil {
				m.fail("", "package.loaded[%q]=nil failed: %s", op.N, fw.Short(o.Err.Error(), 200))
			}
			s := m.slot(op.N)
			s.st, s.v, s.w = sEmpty, nil, nil
		case "unp":
			_, o := gl.Call(L, h.unpFn, lua.LString(op.N))
			canary(o, "package.preload[n]=nil")
			if o.Err != nil {
				m.fail("", "package.preload[%q]=nil failed: %s", op.N, fw.Short(o.Err.Error(), 200))
			}
			delete(m.preload, op.N)
		case "newpre":
			// the script replaces the whole table: every registration made so far is
			// gone, every later one - from Lua or through PreloadModule - goes into
			// the table that package.preload names now
			_, o := gl.Call(L, h.newpreFn)
			canary(o, "package.preload={}")
			if o.Err != nil {
				m.fail("", "package.preload={} failed: %s", fw.Short(o.Err.Error(), 200))
			}
			for k := range m.preload {
				delete(m.preload, k)
			}
		case "del":
			h.deleteFiles(op.N)
			for _, p := range h.candidates(op.N) {
				delete(m.files, p)
			}
		case "blk":
			// a regular file where the search for N.x expects a directory: stat of
			// <dir>/N/x.lua then fails with ENOTDIR, not ENOENT. Not a module file
			// of any name (no template ends without extension): the model ignores it.
			h.blockFile(op.N)
		case "host":
			var rv lua.LValue
			o := gl.Protect(func() error {
				rv = L.RegisterModule(op.N, map[string]lua.LGFunction{hostFunc: func(L *lua.LState) int { return 0 }})
				return nil
			})
			canary(o, "RegisterModule")
			m.hostRegister(op.N, rv, hostFunc)
			if m.soft != nil && softDv == nil {
				softDv = &divergence{Step: i, Op: op, Msg: m.soft.msg, Tag: m.soft.tag}
			}
			// reachable through require (no loader runs) ...
			vals, o2 := gl.Call(L, h.requireFn, lua.LString(op.N))
			show(vals, o2)
			canary(o2, "require")
			r := m.require(op.N)
			m.checkTop(op.N, r, vals, o2)
			// ... and through its global name, whenever the model has the global name bound to this table
			if g, ok := m.gtab[op.N]; ok && g == rv {
				if got := h.globalPath(op.N); got != rv {
					m.fail("", "host module %s is not reachable through its global name: observed %s", op.N, cv(got))
				}
				kinds["host_global_name_checks"]++
			}
		default:
			panic("c20: unknown op " + op.K)
		}
		m.endOp()
		if s := gl.Balanced(L); s != "" {
			m.fail("", "state not balanced after the op: %s", s)
		}
		m.checkState(allNames)
		if len(transcript) > 0 {
			*transcript[0] = append(*transcript[0], fmt.Sprintf("%d %s: %s; loader events: [%s]", i, opString(op, cs.Var), outcome, h.trace(ids)))
		}
	}
	return softDv // nil unless a soft divergence was recorded and nothing harder followed
}

// ---- standard libraries opened by lua.NewState() ----

var stdNames = []string{"package", "table", "io", "os", "string", "math", "debug", "channel", "coroutine", "_G"}

// runStd: every library opened by NewState() is registered through
// RegisterModule; it must be reachable through require and through its
// global name, as the identical table.
func runStd(c *fw.Ctx, count bool) *divergence {
	L := lua.NewState()
	defer L.Close()
	req := L.GetGlobal("require")
	var first *divergence
	for i, n := range stdNames {
		op := Op{K: "req", N: n}
		mk := func(msg string) {
			if first == nil {
				first = &divergence{Step: i, Op: op, Msg: msg, Tag: "std:" + n}
			} else if first.Tag != "std:"+n {
				// a second library failing is a different matter than the first: keep both visible
				first.Msg += " | also " + n + ": " + msg
				first.Tag = "std:several"
			}
		}
		g := L.GetGlobal(n)
		if !isTable(g) {
			mk(fmt.Sprintf("global %s is %s, not a table", n, cv(g)))
			continue
		}
		vals, o := gl.Call(L, req, lua.LString(n))
		if count {
			c.Count("std_require_checks", 1)
		}
		switch {
		case o.GoPanic != nil:
			mk("Go panic escaped require: " + fw.Short(o.PanicStr, 200))
		case o.Err != nil:
			mk(fmt.Sprintf("library %s is open (global %s is a table) but require(%q) fails: %s", n, n, n, fw.Short(o.Err.Error(), 300)))
		case len(vals) != 1 || vals[0] != g:
			mk(fmt.Sprintf("require(%q) is not the global %s", n, n))
		default:
			pl, _ := L.GetField(L.GetGlobal("package"), "loaded").(*lua.LTable)
			if pl == nil || pl.RawGetString(n) != g {
				mk(fmt.Sprintf("package.loaded[%q] is not the global %s", n, n))
			}
		}
	}
	if count {
		c.End(true, "stdlib")
	}
	return first
}

// runStdPartial: a state opened with SkipOpenLibs and a hand-picked set of libraries that does not include the
// package library. require is part of the base library; what the host registered (the opened libraries, a module
// of its own) is cached and every require of such a name returns the identical cached value.
func runStdPartial(c *fw.Ctx, count bool) *divergence {
	L := lua.NewState(lua.Options{SkipOpenLibs: true})
	defer L.Close()
	var first *divergence
	mk := func(i int, n, msg string) {
		if first == nil {
			first = &divergence{Step: i, Op: Op{K: "req", N: n}, Msg: msg, Tag: "partial:" + n}
		}
	}
	o := gl.Protect(func() error {
		for _, lib := range []struct {
			n string
			f lua.LGFunction
		}{{lua.BaseLibName, lua.OpenBase}, {lua.StringLibName, lua.OpenString}, {lua.TabLibName, lua.OpenTable}} {
			L.Push(L.NewFunction(lib.f))
			L.Push(lua.LString(lib.n))
			L.Call(1, 0)
		}
		return nil
	})
	if o.GoPanic != nil || o.Err != nil {
		mk(0, "open", fmt.Sprintf("opening base, string and table on a SkipOpenLibs state failed: %v %v", o.GoPanic, o.Err))
		return first
	}
	host := L.RegisterModule("hostmod", map[string]lua.LGFunction{"f": func(L *lua.LState) int { return 0 }})
	req := L.GetGlobal("require")
	for i, n := range []string{"string", "table", "_G", "hostmod", "hostmod", "string"} {
		want := L.GetGlobal(n)
		if n == "hostmod" {
			want = host
		}
		vals, o := gl.Call(L, req, lua.LString(n))
		if count {
			c.Count("std_require_checks_without_package_library", 1)
		}
		switch {
		case o.GoPanic != nil:
			mk(i, n, "Go panic escaped require: "+fw.Short(o.PanicStr, 200))
		case o.Err != nil:
			mk(i, n, fmt.Sprintf("state without the package library: %s was registered by the host but require(%q) fails: %s", n, n, fw.Short(o.Err.Error(), 300)))
		case len(vals) != 1 || vals[0] != want:
			mk(i, n, fmt.Sprintf("state without the package library: require(%q) is not the registered table", n))
		}
	}
	if count {
		c.End(first == nil, "stdlib-partial")
	}
	return first
}

// ---- enumeration ----

type family struct {
	name     string
	alpha    []Op
	sym      []string // interchangeable names, canonical first-mention order
	variants []string // source variants for def ops without a source
	maxQ     int      // quick: all lengths <= maxQ
	maxT     int      // thorough: all lengths <= maxT
	// Histories of length <= maxQ-1 (quick) / <= maxQ (thorough) run under every
	// source variant; longer ones under one variant chosen by (index+seed) rotation.
}

func families() []family {
	var fams []family
	// cache: what require does with the loader's result
	{
		var a []Op
		for _, n := range []string{"a", "b"} {
			o := "b"
			if n == "b" {
				o = "a"
			}
			for _, b := range []string{"tab", "str", "false", "none", "assign", "assignret", "assignsame", "module", "fail", "failonce"} {
				a = append(a, Op{K: "def", N: n, Beh: b})
			}
			a = append(a, Op{K: "def", N: n, Beh: "req", T: o}, Op{K: "def", N: n, Beh: "req", T: n},
				Op{K: "def", N: n, Beh: "preq", T: o}, Op{K: "def", N: n, Beh: "preq", T: n})
		}
		for _, n := range []string{"a", "b"} {
			a = append(a, Op{K: "req", N: n}, Op{K: "clr", N: n})
		}
		fams = append(fams, family{name: "cache", alpha: a, sym: []string{"a", "b"}, variants: []string{"luapre", "gopre", "file", "both"}, maxQ: 4, maxT: 5})
	}
	// select: which loader is found
	{
		var a []Op
		for _, n := range []string{"a", "a.b"} {
			for _, s := range []string{"luapre", "gopre", "file", "init"} {
				a = append(a, Op{K: "def", N: n, Src: s, Beh: "tab"})
			}
			a = append(a, Op{K: "def", N: n, Src: "file", Beh: "badsyntax"})
			a = append(a, Op{K: "unp", N: n}, Op{K: "del", N: n}, Op{K: "req", N: n}, Op{K: "clr", N: n})
		}
		fams = append(fams, family{name: "select", alpha: a, variants: []string{""}, maxQ: 4, maxT: 5})
	}
	// cycle: modules requiring each other
	{
		var a []Op
		names := []string{"a", "b", "c"}
		for _, n := range names {
			for _, t := range names {
				a = append(a, Op{K: "def", N: n, Beh: "req", T: t}, Op{K: "def", N: n, Beh: "preq", T: t})
			}
			for _, b := range []string{"tab", "fail", "failonce"} {
				a = append(a, Op{K: "def", N: n, Beh: b})
			}
		}
		for _, n := range names {
			a = append(a, Op{K: "req", N: n}, Op{K: "clr", N: n})
		}
		fams = append(fams, family{name: "cycle", alpha: a, sym: names, variants: []string{"luapre", "gopre", "file"}, maxQ: 4, maxT: 5})
	}
	// host: RegisterModule, module() and the global names
	{
		var a []Op
		for _, n := range []string{"a", "a.b"} {
			a = append(a, Op{K: "host", N: n}, Op{K: "def", N: n, Src: "luapre", Beh: "module"}, Op{K: "def", N: n, Src: "luapre", Beh: "tab"},
				Op{K: "req", N: n}, Op{K: "clr", N: n})
		}
		fams = append(fams, family{name: "host", alpha: a, variants: []string{""}, maxQ: 4, maxT: 6})
	}
	return fams
}

func observing(op Op) bool { return op.K == "req" || op.K == "host" }

// canonical: interchangeable names must be mentioned first in list order.
func canonical(ops []Op, sym []string) bool {
	if len(sym) == 0 {
		return true
	}
	next := 0
	rank := func(n string) int {
		for i, s := range sym {
			if s == n {
				return i
			}
		}
		return -1
	}
	see := func(n string) bool {
		if n == "" {
			return true
		}
		r := rank(n)
		if r < 0 || r < next {
			return true
		}
		if r > next {
			return false
		}
		next++
		return true
	}
	for _, op := range ops {
		if !see(op.N) || !see(op.T) {
			return false
		}
	}
	return true
}

// enumerate calls f for every accepted (history, variant) of a family, with a
// running global index. digits are decoded little-endian from a counter so
// that the order is a function of the family only.
func enumerate(fam family, maxLen, allVarLen int, rot int, idx *int, f func(i int, cs *Case)) {
	n := len(fam.alpha)
	ops := make([]Op, 0, maxLen)
	digits := make([]int, maxLen)
	for l := 1; l <= maxLen; l++ {
		for i := range digits {
			digits[i] = 0
		}
		for {
			if observing(fam.alpha[digits[l-1]]) {
				ops = ops[:0]
				for j := 0; j < l; j++ {
					ops = append(ops, fam.alpha[digits[j]])
				}
				if canonical(ops, fam.sym) {
					vs := fam.variants
					if l > allVarLen && len(vs) > 1 {
						vs = []string{vs[(*idx+rot)%len(vs)]}
					}
					for _, v := range vs {
						i := *idx
						*idx++
						f(i, &Case{Fam: fam.name, Var: v, Ops: ops})
					}
				}
			}
			// increment
			j := 0
			for j < l {
				digits[j]++
				if digits[j] < n {
					break
				}
				digits[j] = 0
				j++
			}
			if j == l {
				break
			}
		}
	}
}

// scramble spreads consecutive global indices over the shards: the source
// variants of one history are consecutive and the file-backed ones cost more,
// so plain i%NShards would give some shards only the expensive variants.
func scramble(i int) int { return int((uint64(i) * 0x9E3779B97F4A7C15) >> 40) }

// ---- random histories ----

var allBehs = []string{"tab", "str", "false", "none", "multi", "assign", "assignret", "assignsame", "module", "fail", "failonce", "req", "preq", "req", "preq", "tab", "peek"}
var allSrcs = []string{"luapre", "gopre", "file", "init", "both", "luapre", "file"}

func genRandom(r *rand.Rand) *Case {
	cs := &Case{Fam: "random"}
	n := 1 + r.Intn(30)
	names := allNames
	if r.Intn(3) == 0 {
		names = allNames[:1+r.Intn(len(allNames))] // fewer names: denser interaction
	}
	name := func() string { return names[r.Intn(len(names))] }
	for len(cs.Ops) < n {
		var op Op
		switch k := r.Intn(100); {
		case k < 34:
			op = Op{K: "def", N: name(), Src: allSrcs[r.Intn(len(allSrcs))], Beh: allBehs[r.Intn(len(allBehs))]}
			if op.Beh == "req" || op.Beh == "preq" {
				op.T = name()
			}
			if (op.Src == "file" || op.Src == "init") && r.Intn(12) == 0 {
				op.Beh, op.T = "badsyntax", ""
			}
		case k < 76:
			op = Op{K: "req", N: name()}
		case k < 88:
			op = Op{K: "clr", N: name()}
		case k < 91:
			op = Op{K: "unp", N: name()}
		case k < 92:
			op = Op{K: "newpre"}
		case k < 96:
			op = Op{K: "del", N: name()}
		default:
			op = Op{K: "host", N: name()}
		}
		cs.Ops = append(cs.Ops, op)
	}
	return cs
}

// ---- driver ----

const (
	fPackage = "C20-package-not-in-loaded"
	fReuse   = "C20-registermodule-reuse-drops-funcs"
)

func report(c *fw.Ctx, cs *Case, d *divergence) {
	cp := *cs
	cp.Ops = append([]Op(nil), cs.Ops...)
	what := "require history diverges from the model: " + d.String()
	switch d.Tag {
	case "host-reuse-nofuncs":
		// narrow: RegisterModule on a name whose package.loaded slot already holds a table
		c.ViolationOrKnown(fReuse, d.Op.K == "host", what, &cp)
	default:
		c.Violation(what, &cp)
	}
	c.End(false, "")
}

func run(c *fw.Ctx) {
	// 1. standard libraries (one case, shard 0)
	if c.Shard == 0 {
		cs := &Case{Fam: "stdlib"}
		c.Begin(cs)
		if d := runStd(c, true); d != nil {
			c.ViolationOrKnown(fPackage, d.Tag == "std:package",
				"standard library not reachable through require: "+d.String(), cs)
		}
	}
	if c.Shard == 1%c.NShards {
		cs := &Case{Fam: "stdlib-partial"}
		c.Begin(cs)
		if d := runStdPartial(c, true); d != nil {
			c.Violation("host-registered module not reachable through require: "+d.String(), cs)
		}
	}
	// 2. bounded-exhaustive families
	idx := 0
	sampled := map[string]int{}
	for fi, fam := range families() {
		maxLen, allVarLen := fam.maxQ, fam.maxQ-1
		if !c.Quick() {
			maxLen, allVarLen = fam.maxT, fam.maxQ
		}
		before := idx
		enumerate(fam, maxLen, allVarLen, int(c.Seed), &idx, func(i int, cs *Case) {
			if !c.Mine(scramble(i)) {
				return
			}
			c.Begin(cs)
			d := runCase(c, cs, true)
			if d != nil {
				report(c, cs, d)
			}
			c.Count("enumerated_"+fam.name, 1)
			if c.Shard == fi && d == nil && len(cs.Ops) == fam.maxQ && i%53 == 0 && sampled[fam.name] < 1 {
				sampled[fam.name]++
				c.Sample(sample(c, cs))
			}
		})
		if c.Shard == 0 {
			c.Note("family %s: alphabet of %d ops, %d accepted (history, source) cases up to length %d", fam.name, len(fam.alpha), idx-before, maxLen)
		}
	}
	// 2b. "lists what was tried" when a candidate cannot be examined for a
	// reason other than "no such file": a path component that is a regular
	// file (ENOTDIR), a name longer than NAME_MAX (ENAMETOOLONG), a NUL byte
	// (EINVAL). Fixed list, run by one shard.
	if c.Shard == 5%c.NShards {
		for _, cs := range statFailCases() {
			c.Begin(cs)
			d := runCase(c, cs, true)
			if d != nil {
				report(c, cs, d)
			}
			c.Count("statfail_histories", 1)
		}
	}
	// 3. seeded random histories over the full alphabet
	nr := c.Share(c.Pick(16000, 400000))
	for i := 0; i < nr; i++ {
		cs := genRandom(c.R)
		c.Begin(cs)
		d := runCase(c, cs, true)
		if d != nil {
			report(c, cs, d)
		}
		c.Count("random_histories", 1)
		c.Count("random_ops", int64(len(cs.Ops)))
		if i == 0 && c.Shard == 4 {
			c.Sample(sample(c, cs))
		}
	}
}

// statFailCases: missing modules whose candidate files fail stat with an
// error other than ENOENT; alone and between loads of an ordinary module.
func statFailCases() []*Case {
	long := strings.Repeat("n", 300)
	var out []*Case
	// ... and names that are ordinary file names but look like format directives
	for _, name := range []string{"blk.sub", "blk.sub.deep", long, "a." + long, long + ".b", "nul\x00x", "rate%d", "100%", "%s%s%s%s", "a%20b.c%", "%!v(MISSING)"} {
		pre := []Op{}
		if strings.HasPrefix(name, "blk.") {
			pre = []Op{{K: "blk", N: "blk"}}
		}
		out = append(out,
			&Case{Fam: "statfail", Var: "luapre", Ops: append(append([]Op{}, pre...), Op{K: "req", N: name})},
			&Case{Fam: "statfail", Var: "file", Ops: append(append([]Op{{K: "def", N: "a", Beh: "tab"}, {K: "req", N: "a"}}, pre...),
				Op{K: "req", N: name}, Op{K: "req", N: name}, Op{K: "req", N: "a"})})
	}
	// the script replaces the preload table, then registrations from both sides
	for _, src := range []string{"gopre", "luapre"} {
		out = append(out,
			&Case{Fam: "statfail", Var: src, Ops: []Op{{K: "newpre"}, {K: "def", N: "a", Src: src, Beh: "tab"}, {K: "req", N: "a"}, {K: "req", N: "a"}}},
			&Case{Fam: "statfail", Var: src, Ops: []Op{{K: "def", N: "a", Src: src, Beh: "tab"}, {K: "newpre"}, {K: "req", N: "a"}, {K: "def", N: "a", Src: src, Beh: "str"}, {K: "req", N: "a"}}},
			&Case{Fam: "statfail", Var: src, Ops: []Op{{K: "def", N: "b", Src: src, Beh: "tab"}, {K: "req", N: "b"}, {K: "newpre"}, {K: "clr", N: "b"}, {K: "req", N: "b"}, {K: "def", N: "b", Src: src, Beh: "none"}, {K: "req", N: "b"}}})
	}
	return out
}

// sample re-runs a case with a transcript of what was observed at each step.
func sample(c *fw.Ctx, cs *Case) any {
	cp := *cs
	cp.Ops = append([]Op(nil), cs.Ops...)
	var tr []string
	runCase(c, &cp, false, &tr)
	return map[string]any{"case": &cp, "observed": tr}
}

func replay(c *fw.Ctx, raw json.RawMessage) {
	var cs Case
	if err := json.Unmarshal(raw, &cs); err != nil {
		fmt.Println("bad case:", err)
		return
	}
	if cs.Fam == "stdlib" {
		if d := runStd(c, false); d != nil {
			c.ViolationOrKnown(fPackage, d.Tag == "std:package", "standard library not reachable through require: "+d.String(), &cs)
		}
		return
	}
	if cs.Fam == "stdlib-partial" {
		if d := runStdPartial(c, false); d != nil {
			c.Violation("host-registered module not reachable through require: "+d.String(), &cs)
		}
		return
	}
	if d := runCase(c, &cs, false); d != nil {
		what := "require history diverges from the model: " + d.String()
		if d.Tag == "host-reuse-nofuncs" {
			c.ViolationOrKnown(fReuse, d.Op.K == "host", what, &cs)
		} else {
			c.Violation(what, &cs)
		}
		fmt.Println(strings.TrimSpace(what))
	}
}
