package c20

import (
	"fmt"
	"regexp"
	"strings"

	lua "github.com/yuin/gopher-lua"

	"verif/internal/fw"
	"verif/internal/gl"
)

// The reference model of `require` (Lua 5.1 manual, section 5.3) over
//
//	loaded   module name -> slot      (package.loaded)
//	preload  module name -> loader    (package.preload)
//	files    file path   -> loader    (the module directory on package.path)
//	globals  dotted name -> exists    (tables created by module()/luaL_register)
//
// It never calls the implementation. It is run after each top-level operation
// over the log of events the loaders emitted while the implementation executed
// that operation: the model predicts which event must come next (which loader
// is entered, with which arguments, what a nested require yields) and takes
// from the log only the *identities* of the values the loaders created.
// Where the manual and the property statement leave the outcome open the slot
// keeps both alternatives and collapses on the first observation.

type slotState int

const (
	sEmpty   slotState = iota
	sVal               // holds v
	sEither            // holds v (assigned by the loader) or w (returned by it): open in the statement
	sLoading           // sentinel: the loader is running
	sFailed            // loader (or chunk compilation) failed: the statement does not say what is left behind
)

type slot struct {
	st   slotState
	v, w lua.LValue
}

type merr struct {
	class string // loop | notfound | boom | loaderr | any
	name  string
	cands []string
	id, k int
}

type result struct {
	err *merr
	s   *slot
}

// diverge is the panic value used to leave the model at the first mismatch.
type diverge struct {
	msg string
	tag string
}

type sim struct {
	h       *harness
	pos     int
	loaded  map[string]*slot
	preload map[string]*def
	files   map[string]*def
	gexists map[string]bool
	gtab    map[string]lua.LValue
	mcalls  map[int]int
	loading []string
	soft    *diverge // first divergence that does not invalidate the rest of the history

	// statistics of the case (evidence)
	st map[string]int64
}

func newSim(h *harness) *sim {
	return &sim{h: h, loaded: map[string]*slot{}, preload: map[string]*def{}, files: map[string]*def{},
		gexists: map[string]bool{}, gtab: map[string]lua.LValue{}, mcalls: map[int]int{}, st: map[string]int64{}}
}

func (m *sim) fail(tag, format string, a ...any) {
	panic(diverge{msg: fmt.Sprintf(format, a...), tag: tag})
}

func (m *sim) slot(name string) *slot {
	s := m.loaded[name]
	if s == nil {
		s = &slot{}
		m.loaded[name] = s
	}
	return s
}

func cv(v lua.LValue) string { return gl.Canon(v, gl.NewIDMap()) }

func isTable(v lua.LValue) bool { _, ok := v.(*lua.LTable); return ok }

func truthy(v lua.LValue) bool { return v != lua.LNil && v != lua.LFalse }

// next consumes the next event, which must be of the given kind and definition.
func (m *sim) next(kind string, id int, why string) event {
	if m.pos >= len(m.h.ev) {
		m.fail("", "model expects event %s#%d (%s) but the log ends", kind, id, why)
	}
	e := m.h.ev[m.pos]
	if e.Kind != kind || e.ID != id {
		m.fail("", "model expects event %s#%d (%s) but observed %s#%d(%s)", kind, id, why, e.Kind, e.ID, fw.Short(gl.CanonList(e.Vals, gl.NewIDMap()), 120))
	}
	m.pos++
	m.st["events"]++
	return e
}

func (m *sim) peekEnter(id int) bool {
	return m.pos < len(m.h.ev) && m.h.ev[m.pos].Kind == "enter" && m.h.ev[m.pos].ID == id
}

// match compares an observed value with a slot that holds a value, collapsing an open slot.
func (m *sim) match(s *slot, got lua.LValue, what string) {
	switch s.st {
	case sVal:
		if got != s.v {
			m.fail("", "%s: expected the cached value %s, observed %s", what, cv(s.v), cv(got))
		}
	case sEither:
		switch got {
		case s.v:
			m.st["open_assign_vs_return:assigned_kept"]++
		case s.w:
			m.st["open_assign_vs_return:returned_kept"]++
			s.v = s.w
		default:
			m.fail("", "%s: loader assigned %s and returned %s, observed neither but %s", what, cv(s.v), cv(s.w), cv(got))
		}
		s.st, s.w = sVal, nil
	default:
		m.fail("", "%s: internal: slot holds no value", what)
	}
}

// findLoader: preload first, then the path search.
func (m *sim) findLoader(name string) (*def, []string) {
	if d := m.preload[name]; d != nil {
		return d, nil
	}
	cands := m.h.candidates(name)
	for _, p := range cands {
		if d := m.files[p]; d != nil {
			return d, cands
		}
	}
	return nil, cands
}

// require is the 5.1 algorithm.
func (m *sim) require(name string) result {
	m.st["requires"]++
	s := m.slot(name)
	switch s.st {
	case sVal, sEither:
		if s.st == sEither || truthy(s.v) {
			m.st["require_cached"]++
			return result{s: s}
		}
	case sLoading:
		m.st["require_loop"]++
		return result{err: &merr{class: "loop", name: name}}
	case sFailed:
		// Open: 5.1 keeps the sentinel ("loop or previous error"); a retry is equally
		// compatible with the statement. Follow what the log shows.
		d, _ := m.findLoader(name)
		if d == nil || d.beh == "badsyntax" || !m.peekEnter(d.id) {
			m.st["require_after_failure:error"]++
			return result{err: &merr{class: "any", name: name}}
		}
		m.st["require_after_failure:retry"]++
	}
	d, cands := m.findLoader(name)
	if d == nil {
		m.st["require_notfound"]++
		return result{err: &merr{class: "notfound", name: name, cands: cands}}
	}
	if d.beh == "badsyntax" {
		m.st["require_chunk_does_not_compile"]++
		s.st, s.v, s.w = sFailed, nil, nil
		return result{err: &merr{class: "loaderr", name: name}}
	}
	s.st, s.v, s.w = sLoading, nil, nil
	m.loading = append(m.loading, name)
	m.st["loads"]++
	m.st["load_src_"+d.src]++
	m.st["load_beh_"+d.beh]++
	e := m.next("enter", d.id, "loader of "+name+" ("+d.src+"/"+d.beh+") runs")
	m.mcalls[d.id]++
	if e.K != m.mcalls[d.id] {
		m.fail("", "loader #%d entered %d times, model counts %d", d.id, e.K, m.mcalls[d.id])
	}
	if len(e.Vals) != 2 || e.Vals[0] != lua.LNumber(1) || e.Vals[1] != lua.LString(name) {
		m.fail("", "loader of %s must be called with the single argument %q, observed (nargs,args)=(%s)", name, name, gl.CanonList(e.Vals, gl.NewIDMap()))
	}
	ret, err := m.behave(d, name, e.K)
	m.loading = m.loading[:len(m.loading)-1]
	if err != nil {
		if s.st == sLoading {
			s.st = sFailed
		}
		return result{err: err}
	}
	if ret != nil && ret != lua.LNil {
		switch s.st {
		case sLoading:
			s.st, s.v = sVal, ret
		case sVal:
			if s.v != ret {
				s.st, s.w = sEither, ret
			}
		}
	}
	if s.st == sLoading {
		s.st, s.v = sVal, lua.LTrue
		m.st["result_true_for_no_value"]++
	}
	return result{s: s}
}

func (m *sim) retEvent(d *def, want string) lua.LValue {
	e := m.next("ret", d.id, "loader returns")
	if len(e.Vals) != 1 {
		m.fail("", "internal: ret event with %d values", len(e.Vals))
	}
	v := e.Vals[0]
	switch want {
	case "table":
		if !isTable(v) {
			m.fail("", "internal: loader #%d meant to return a table, has %s", d.id, cv(v))
		}
	}
	return v
}

// behave runs a loader body in the model. It returns the loader's first
// result (nil for none) or the error that leaves it.
func (m *sim) behave(d *def, name string, k int) (lua.LValue, *merr) {
	boom := &merr{class: "boom", name: name, id: d.id, k: k}
	switch d.beh {
	case "tab", "multi":
		return m.retEvent(d, "table"), nil
	case "str":
		v := m.retEvent(d, "")
		if v != lua.LString(fmt.Sprintf("S%d:%d", d.id, k)) {
			m.fail("", "internal: loader #%d string result %s", d.id, cv(v))
		}
		return v, nil
	case "false":
		v := m.retEvent(d, "")
		if v != lua.LFalse {
			m.fail("", "internal: loader #%d false result %s", d.id, cv(v))
		}
		return v, nil
	case "none":
		return nil, nil
	case "assign", "assignret", "assignsame":
		e := m.next("set", d.id, "loader assigns package.loaded itself")
		s := m.slot(name)
		s.st, s.v, s.w = sVal, e.Vals[0], nil
		if d.beh == "assign" {
			return nil, nil
		}
		return m.retEvent(d, "table"), nil
	case "module":
		e := m.next("mod", d.id, "module(...) returned")
		if len(e.Vals) != 3 {
			m.fail("", "internal: mod event with %d values", len(e.Vals))
		}
		s := m.slot(name)
		// 5.1 module(): a table already in package.loaded[name] is the module; else the
		// global table of that name (created on demand). Inside require the slot holds
		// the sentinel, so it is the global one.
		if s.st == sVal && isTable(s.v) {
			if e.Vals[0] != s.v {
				m.fail("", "module(%q): package.loaded already held table %s, module used %s", name, cv(s.v), cv(e.Vals[0]))
			}
		} else {
			m.globalTable(name, e.Vals[0], "module("+name+")")
			s.st, s.v, s.w = sVal, e.Vals[0], nil
		}
		pkgname := ""
		if i := strings.LastIndex(name, "."); i >= 0 {
			pkgname = name[:i+1]
		}
		if e.Vals[1] != lua.LString(name) || e.Vals[2] != lua.LString(pkgname) {
			m.fail("", "module(%q): _NAME/_PACKAGE are %s/%s", name, cv(e.Vals[1]), cv(e.Vals[2]))
		}
		return nil, nil
	case "peek":
		e := m.next("peek", d.id, "loader inspects its own package.loaded entry")
		for _, v := range e.Vals {
			if sv, ok := v.(lua.LString); ok && (gl.IsGoRuntimeErrorText(string(sv)) || strings.HasPrefix(string(sv), "Go panic")) {
				m.fail("", "inspecting package.loaded[%q] while the module is being loaded (getmetatable / tostring / ==) surfaced a Go fault: %s", name, fw.Short(string(sv), 200))
			}
		}
		return m.retEvent(d, "table"), nil
	case "fail":
		return nil, boom
	case "failonce":
		if k == 1 {
			return nil, boom
		}
		return m.retEvent(d, "table"), nil
	case "req", "preq":
		r := m.require(d.t)
		if d.beh == "req" {
			if r.err != nil {
				return nil, r.err // propagates; the loader emits nothing more
			}
			e := m.next("nested", d.id, "nested require of "+d.t+" returned")
			m.match(r.s, e.Vals[1], "nested require("+d.t+") in loader of "+name)
			return m.retEvent(d, "table"), nil
		}
		e := m.next("nested", d.id, "protected nested require of "+d.t+" returned")
		if len(e.Vals) != 2 {
			m.fail("", "internal: nested event with %d values", len(e.Vals))
		}
		if r.err != nil {
			if e.Vals[0] != lua.LFalse {
				m.fail("", "nested require(%s) in loader of %s must fail (%s) but returned %s", d.t, name, r.err.class, cv(e.Vals[1]))
			}
			txt, _ := e.Vals[1].(lua.LString)
			m.checkErr(r.err, string(txt), "nested require("+d.t+") in loader of "+name)
		} else {
			if e.Vals[0] != lua.LTrue {
				m.fail("", "nested require(%s) in loader of %s must succeed but failed: %s", d.t, name, fw.Short(cv(e.Vals[1]), 200))
			}
			m.match(r.s, e.Vals[1], "nested require("+d.t+") in loader of "+name)
		}
		return m.retEvent(d, "table"), nil
	}
	m.fail("", "internal: unknown behaviour %s", d.beh)
	return nil, nil
}

// globalTable marks the global table of a dotted name as existing (with its
// parents) and ties its identity to the observed table.
func (m *sim) globalTable(name string, observed lua.LValue, what string) {
	if !isTable(observed) {
		m.fail("", "%s: expected a table, observed %s", what, cv(observed))
	}
	parts := strings.Split(name, ".")
	for i := 1; i <= len(parts); i++ {
		m.gexists[strings.Join(parts[:i], ".")] = true
	}
	if known, ok := m.gtab[name]; ok {
		if known != observed {
			m.fail("", "%s: the global table %s already exists and must be reused, observed a different table", what, name)
		}
	} else {
		m.gtab[name] = observed
	}
}

var posPrefixRe = regexp.MustCompile(`:\d+: `)

// checkErr checks an error text against the class the model expects.
func (m *sim) checkErr(e *merr, txt string, what string) {
	if gl.IsGoRuntimeErrorText(txt) {
		m.fail("", "%s: Go run-time fault surfaced: %s", what, fw.Short(txt, 300))
	}
	m.st["err_"+e.class]++
	switch e.class {
	case "loop":
		if !strings.Contains(txt, "loop") {
			m.fail("", "%s: module %s requires itself (directly or indirectly): expected a loop error, observed error %q", what, e.name, fw.Short(txt, 300))
		}
	case "notfound":
		var missing []string
		if !strings.Contains(txt, e.name) {
			missing = append(missing, "the module name "+e.name)
		}
		if !strings.Contains(txt, "preload") {
			missing = append(missing, "the package.preload lookup")
		}
		for _, c := range e.cands {
			if !strings.Contains(txt, c) {
				missing = append(missing, "candidate "+c)
			}
		}
		if len(missing) > 0 {
			m.fail("", "%s: module %s is missing; the error must list what was tried but lacks %s: %q", what, e.name, strings.Join(missing, ", "), fw.Short(txt, 400))
		}
	case "boom":
		want := fmt.Sprintf("E-boom:%d:%d", e.id, e.k)
		if !strings.Contains(txt, want) {
			m.fail("", "%s: the loader's error %s must surface, observed error %q", what, want, fw.Short(txt, 300))
		} else if head := txt[:strings.Index(txt, want)]; len(posPrefixRe.FindAllString(head, -1)) > 1 {
			// the loader's error passes through require (and through the requires that led to
			// it) unchanged: at most the one position its own error() call gave it
			m.fail("", "%s: the loader's error %s gained position prefixes on its way out of require: %q", what, want, fw.Short(txt, 300))
		}
	case "loaderr", "any":
		// an error, nothing more is stated
	}
}

// checkTop compares the outcome of a top-level require with the model's result.
func (m *sim) checkTop(name string, r result, vals []lua.LValue, o gl.Outcome) {
	what := "require(" + name + ")"
	if r.err != nil {
		if o.Err == nil {
			m.fail("", "%s must fail (%s) but returned %s", what, r.err.class, gl.CanonList(vals, gl.NewIDMap()))
		}
		m.checkErr(r.err, o.Err.Error(), what)
		return
	}
	if o.Err != nil {
		m.fail("", "%s must succeed but failed: %s", what, fw.Short(o.Err.Error(), 300))
	}
	if len(vals) != 1 {
		m.fail("", "%s returned %d values", what, len(vals))
	}
	m.match(r.s, vals[0], what)
}

// endOp: everything the loaders emitted must have been predicted.
func (m *sim) endOp() {
	if m.pos < len(m.h.ev) {
		e := m.h.ev[m.pos]
		if e.Kind == "enter" {
			m.fail("", "loader #%d ran (entry %d) although the model says no loader runs here (cached value, loop, or another loader has precedence)", e.ID, e.K)
		}
		m.fail("", "unpredicted event %s#%d", e.Kind, e.ID)
	}
}

// checkState compares package.loaded and the module globals with the model.
func (m *sim) checkState(names []string) {
	for _, n := range names {
		got := m.h.loadedGet(n)
		s := m.slot(n)
		switch s.st {
		case sEmpty:
			if got != lua.LNil {
				m.fail("", "package.loaded[%q] must be nil, observed %s", n, cv(got))
			}
		case sVal, sEither:
			m.match(s, got, "package.loaded["+n+"]")
		case sLoading:
			m.fail("", "internal: %s still loading at top level", n)
		case sFailed:
			// not stated
		}
		m.st["loaded_slot_checks"]++
		g := m.h.globalPath(n)
		if !m.gexists[n] {
			if g != lua.LNil {
				m.fail("", "global %s must not exist, observed %s", n, cv(g))
			}
			continue
		}
		if !isTable(g) {
			m.fail("", "global %s must be a table, observed %s", n, cv(g))
		}
		if known, ok := m.gtab[n]; ok {
			if known != g {
				m.fail("", "global %s changed identity", n)
			}
		} else {
			m.gtab[n] = g
		}
	}
}

func (m *sim) define(d *def) {
	switch d.src {
	case "luapre", "gopre":
		m.preload[d.name] = d
	case "file":
		m.files[m.h.candidates(d.name)[0]] = d
	case "init":
		m.files[m.h.candidates(d.name)[1]] = d
	}
}

// hostRegister models luaL_register (manual section 4.8): reuse a table in
// package.loaded[name], else the global table of that name (created on
// demand), store it in package.loaded[name], register the functions in it.
func (m *sim) hostRegister(name string, rv lua.LValue, fname string) {
	s := m.slot(name)
	reuse := (s.st == sVal && isTable(s.v)) || s.st == sEither
	if reuse {
		m.match(s, rv, "RegisterModule("+name+") with a table already in package.loaded")
		m.st["host_register:reused_loaded_table"]++
	} else {
		m.globalTable(name, rv, "RegisterModule("+name+")")
		s.st, s.v, s.w = sVal, rv, nil
		m.st["host_register:global_table"]++
	}
	t := rv.(*lua.LTable)
	if _, ok := t.RawGetString(fname).(*lua.LFunction); !ok {
		msg := fmt.Sprintf("RegisterModule(%q,{%s=...}): the module table reachable through require has no function %s (table reused from package.loaded: %v)", name, fname, fname, reuse)
		if !reuse {
			m.fail("", "%s", msg)
		}
		// Soft divergence: nothing else in the model depends on the function being
		// there, so the history goes on and later steps stay checked.
		if m.soft == nil {
			m.soft = &diverge{msg: msg, tag: "host-reuse-nofuncs"}
		}
		m.st["host_register:reused_table_lacks_funcs"]++
	}
}
