package c19

import (
	"bytes"
	"strconv"
)

// ---- case description (JSON, replayable) ----

// Arg is one argument of file:write: a byte string or a number.
type Arg struct {
	S   []byte   `json:"s,omitempty"`
	Num *float64 `json:"num,omitempty"`
}

// text is what Lua 5.1 writes for the argument: the string itself, or the
// number formatted with "%.14g" (LUA_NUMBER_FMT).
func (a Arg) text() []byte {
	if a.Num != nil {
		return []byte(strconv.FormatFloat(*a.Num, 'g', 14, 64))
	}
	return a.S
}

// Op is one Lua-level operation of a history.
type Op struct {
	H      int      `json:"h"`                // handle slot 0/1
	Op     string   `json:"op"`               // open read write seek flush setvbuf close lines
	Mode   string   `json:"mode,omitempty"`   // open: mode string; setvbuf: no|full|line
	Fmts   []string `json:"fmts,omitempty"`   // read: "*l" "*a" "*n" or a decimal count
	Args   []Arg    `json:"args,omitempty"`   // write
	NA     int      `json:"na,omitempty"`     // seek: explicit arguments passed (0..2); setvbuf: 1 or 2
	Whence string   `json:"whence,omitempty"` // seek
	Off    int64    `json:"off,omitempty"`    // seek
	Size   int      `json:"size,omitempty"`   // setvbuf
	Max    int      `json:"max,omitempty"`    // lines: leave the loop after Max lines (0 = run to EOF)
}

// Case is one history over one file.
type Case struct {
	Absent bool   `json:"absent,omitempty"` // the file does not exist initially
	Init   []byte `json:"init,omitempty"`   // initial content
	Chunk  int    `json:"chunk,omitempty"`  // fresh-handle verification reads "*a" (0), by chunks of this size (>0) or with io.lines(path) (-1)
	Ops    []Op   `json:"ops"`
}

// ---- finding ids ----

const (
	fWriteAfterReadFlush = "C19-write-after-read-flush"
	fSeekBufferedWrites  = "C19-seek-ignores-buffered-writes"
	fSetvbufDrops        = "C19-setvbuf-drops-pending-writes"
	fClosedNoError       = "C19-closed-handle-no-error"
	fLineStripsCR        = "C19-readline-strips-cr"
	fLinesSplitLong      = "C19-lines-splits-long-lines"
	fAppendReadable      = "C19-append-mode-readable"
	fSetvbufLine         = "C19-setvbuf-line-rejected"
	fOpenPlusB           = "C19-open-mode-plus-b-rejected"
	fNumberNewline       = "C19-read-number-stops-at-newline"
	fNumberDrops         = "C19-read-number-failure-drops-results"
	fNumberConsumes      = "C19-read-number-consumes-non-numeral"
)

// ---- the reference model: a byte sequence and one cursor per handle ----

type mfile struct {
	exists bool
	data   []byte
}

type mhandle struct {
	opened     bool // io.open succeeded
	closed     bool
	mode       string
	rd, wr     bool
	app        bool
	cur        int64
	curUnknown bool // the manual/ISO C leave the position open (append-mode initial position, failed "*n")
	last       byte // 0, 'r', 'w': direction of the last data transfer since the last seek/flush (ISO C 7.19.5.3)
	dirty      bool // wrote since the last flush/close: the file on disk need not show it yet

	// shape tracking for the known-finding matchers (not part of the model's results)
	rbuf    bool   // a read since the last seek stopped short of end-of-file
	vbuf    string // "no" | "full" (setvbuf mode in force; "line" counts as full)
	pending int    // bytes written in a buffered mode since the last flush/setvbuf
	stale   bool   // another handle changed the file since this handle's last seek (generator discipline)
}

func (h *mhandle) live() bool { return h.opened && !h.closed }

type world struct {
	f  mfile
	hs [2]mhandle
}

func newWorld(cs *Case) *world {
	w := &world{}
	if !cs.Absent {
		w.f.exists = true
		w.f.data = append([]byte{}, cs.Init...)
	}
	return w
}

type expKind int

const (
	expAny         expKind = iota // not asserted (only the canaries)
	expValues                     // exact values
	expRaise                      // must raise a Lua error
	expFailOrRaise                // must not succeed: first result nil, or a Lua error
	expTruthy                     // no error, first result neither nil nor false
	expHandle                     // no error, one userdata
	expNilFirst                   // no error, first result nil
	expLines                      // lines(): exact list of lines
)

type mval struct {
	kind     byte // 'n' nil, 's' string, 'd' number
	s        []byte
	d        float64
	fromLine bool // produced by "*l"
}

type want struct {
	kind    expKind
	vals    []mval
	failed  bool // vals ends with the nil of the first failing format; what follows is not fixed by the manual
	openEnd bool // results from len(vals) on are not asserted
	lines   [][]byte
	taint   []string // findings whose deviant input shape this operation has; may corrupt later state
	imm     string   // shape key for a finding that shows in this operation's own result only
	// setvbuf: state to restore if the call is rejected
	prevVbuf    string
	prevPending int
}

func baseMode(mode string) (base string, plusB bool, ok bool) {
	switch mode {
	case "r", "rb":
		return "r", false, true
	case "w", "wb":
		return "w", false, true
	case "a", "ab":
		return "a", false, true
	case "r+", "rb+":
		return "r+", false, true
	case "w+", "wb+":
		return "w+", false, true
	case "a+", "ab+":
		return "a+", false, true
	case "r+b":
		return "r+", true, true
	case "w+b":
		return "w+", true, true
	case "a+b":
		return "a+", true, true
	}
	return "", false, false
}

func (w *world) markStale(except *mhandle) {
	for i := range w.hs {
		h := &w.hs[i]
		if h != except && h.live() {
			h.stale = true
		}
	}
}

func (w *world) apply(op *Op) want {
	h := &w.hs[op.H]
	if op.Op == "open" {
		return w.open(h, op)
	}
	if !h.opened {
		return want{kind: expAny}
	}
	if h.closed {
		wt := want{kind: expRaise}
		switch op.Op {
		case "seek", "setvbuf":
			wt.imm = "closed"
		case "write", "flush":
			if !h.wr {
				wt.imm = "closed"
			}
		case "read":
			if !h.rd {
				wt.imm = "closed"
			}
		}
		return wt
	}
	switch op.Op {
	case "read":
		return w.read(h, op)
	case "itnext":
		// one step of the handle's line iterator = read("*l") at the handle's cursor
		if !h.rd {
			return want{kind: expAny}
		}
		return w.read(h, &Op{H: op.H, Op: "read", Fmts: []string{"*l"}})
	case "write":
		return w.write(h, op)
	case "seek":
		return w.seek(h, op)
	case "flush":
		if !h.wr {
			return want{kind: expAny}
		}
		h.pending = 0
		h.dirty = false
		h.last = 0
		return want{kind: expTruthy}
	case "setvbuf":
		if !h.wr {
			return want{kind: expAny}
		}
		wt := want{kind: expTruthy, prevVbuf: h.vbuf, prevPending: h.pending}
		if h.vbuf != "no" && h.pending > 0 {
			wt.taint = append(wt.taint, fSetvbufDrops)
		}
		if op.Mode == "line" {
			wt.imm = "line"
		}
		if op.Mode == "no" {
			h.vbuf = "no"
		} else {
			h.vbuf = "full"
		}
		h.pending = 0
		return wt
	case "close":
		h.closed = true
		h.dirty = false
		h.pending = 0
		return want{kind: expTruthy}
	case "lines":
		return w.lines(h, op)
	}
	return want{kind: expAny}
}

func (w *world) open(h *mhandle, op *Op) want {
	base, plusB, ok := baseMode(op.Mode)
	if !ok {
		return want{kind: expRaise}
	}
	wt := want{kind: expHandle}
	if plusB {
		wt.imm = "plusb"
	}
	*h = mhandle{}
	switch base {
	case "r", "r+":
		if !w.f.exists {
			wt.kind = expNilFirst
			return wt
		}
	case "w", "w+":
		if w.f.exists && len(w.f.data) > 0 {
			w.markStale(h)
		}
		w.f.exists = true
		w.f.data = w.f.data[:0]
	case "a", "a+":
		w.f.exists = true
	}
	h.opened = true
	h.mode = op.Mode
	h.rd = base == "r" || base == "r+" || base == "w+" || base == "a+"
	h.wr = base != "r"
	h.app = base == "a" || base == "a+"
	h.curUnknown = h.app // ISO C: initial position in append mode is implementation-defined
	h.vbuf = "no"
	return wt
}

func isCSpace(b byte) bool {
	return b == ' ' || (b >= '\t' && b <= '\r')
}

func isDigit(b byte) bool { return b >= '0' && b <= '9' }

// Classification of what "*n" finds at position p (after white space).
const (
	numEOF   = iota // end of file: nil
	numClean        // -?digits(.digits)? followed by white space or EOF: that number
	numFail         // a byte that cannot start a numeral: nil, nothing consumed beyond the white space
	numOther        // anything else: C's fscanf consumes an implementation-dependent amount; not asserted
)

func classifyNumber(data []byte, p int) (class int, end int, val float64) {
	n := len(data)
	if p >= n {
		return numEOF, p, 0
	}
	c := data[p]
	q := p
	if c == '-' {
		q++
	}
	if q < n && isDigit(data[q]) {
		s := q
		for q < n && isDigit(data[q]) {
			q++
		}
		if q-s > 15 {
			return numOther, p, 0
		}
		if q < n && data[q] == '.' {
			t := q + 1
			for t < n && isDigit(data[t]) {
				t++
			}
			if t == q+1 || t-q-1 > 6 {
				return numOther, p, 0
			}
			q = t
		}
		if q < n && !isCSpace(data[q]) {
			return numOther, p, 0
		}
		f, err := strconv.ParseFloat(string(data[p:q]), 64)
		if err != nil {
			return numOther, p, 0
		}
		return numClean, q, f
	}
	switch c {
	case '+', '-', '.', 'i', 'I', 'n', 'N':
		return numOther, p, 0
	}
	if isDigit(c) {
		return numOther, p, 0
	}
	return numFail, p, 0
}

func (w *world) read(h *mhandle, op *Op) want {
	if !h.rd {
		wt := want{kind: expFailOrRaise}
		if h.app {
			wt.imm = "aread"
		}
		return wt
	}
	fmts := op.Fmts
	if len(fmts) == 0 {
		fmts = []string{"*l"}
	}
	for _, f := range fmts {
		if f == "" || f[0] == '*' && f != "*l" && f != "*a" && f != "*n" {
			// a malformed format: nothing is stated (5.1 raises "invalid format");
			// only the canaries apply, and where the cursor is afterwards is unknown
			h.curUnknown = true
			return want{kind: expAny}
		}
	}
	data := w.f.data
	n := int64(len(data))
	wt := want{kind: expValues}
	for i, f := range fmts {
		if h.curUnknown {
			wt.openEnd = true
			break
		}
		atEOF := h.cur >= n
		switch f {
		case "*a":
			if atEOF {
				wt.vals = append(wt.vals, mval{kind: 's'})
			} else {
				wt.vals = append(wt.vals, mval{kind: 's', s: data[h.cur:]})
				h.cur = n
			}
			continue
		case "*l":
			if atEOF {
				wt.failed = true
				break
			}
			idx := bytes.IndexByte(data[h.cur:], '\n')
			if idx < 0 {
				wt.vals = append(wt.vals, mval{kind: 's', s: data[h.cur:], fromLine: true})
				h.cur = n
			} else {
				wt.vals = append(wt.vals, mval{kind: 's', s: data[h.cur : h.cur+int64(idx)], fromLine: true})
				h.cur += int64(idx) + 1
			}
			continue
		case "*n":
			if atEOF {
				wt.failed = true
				break
			}
			p := int(h.cur)
			nl := false
			for p < len(data) && isCSpace(data[p]) {
				if data[p] == '\n' {
					nl = true
				}
				p++
			}
			if nl {
				wt.taint = append(wt.taint, fNumberNewline)
			}
			class, end, val := classifyNumber(data, p)
			switch class {
			case numEOF:
				h.cur = n
				wt.failed = true
			case numClean:
				h.cur = int64(end)
				wt.vals = append(wt.vals, mval{kind: 'd', d: val})
				continue
			case numFail:
				h.cur = int64(p)
				wt.failed = true
				if i > 0 && !nl {
					wt.imm = "ndrop"
				}
				switch data[p] {
				case 'e', 'E', 'p', 'P', '_':
					wt.taint = append(wt.taint, fNumberConsumes)
				}
			default:
				h.curUnknown = true
				wt.openEnd = true
				if i > 0 && !nl {
					wt.imm = "ndrop"
				}
			}
		default:
			cnt, err := strconv.ParseInt(f, 10, 64)
			if err != nil || cnt < 0 {
				wt.openEnd = true
				h.curUnknown = true
				break
			}
			if atEOF {
				wt.failed = true
				break
			}
			e := h.cur + cnt
			if e > n {
				e = n
			}
			wt.vals = append(wt.vals, mval{kind: 's', s: data[h.cur:e]})
			h.cur = e
			continue
		}
		break
	}
	if wt.failed {
		wt.vals = append(wt.vals, mval{kind: 'n'})
	}
	h.last = 'r'
	h.rbuf = h.curUnknown || h.cur < n
	return wt
}

func (w *world) lines(h *mhandle, op *Op) want {
	if !h.rd {
		return want{kind: expFailOrRaise}
	}
	if h.curUnknown {
		h.last = 'r'
		h.rbuf = true
		return want{kind: expAny}
	}
	data := w.f.data
	n := int64(len(data))
	wt := want{kind: expLines}
	long := false
	for h.cur < n {
		idx := bytes.IndexByte(data[h.cur:], '\n')
		var line []byte
		if idx < 0 {
			line = data[h.cur:]
			h.cur = n
		} else {
			line = data[h.cur : h.cur+int64(idx)]
			h.cur += int64(idx) + 1
		}
		if len(line) >= 4096 {
			long = true
		}
		wt.lines = append(wt.lines, line)
		if op.Max > 0 && len(wt.lines) >= op.Max {
			break
		}
	}
	if long {
		wt.taint = append(wt.taint, fLinesSplitLong)
	}
	h.last = 'r'
	h.rbuf = h.cur < n
	return wt
}

func (w *world) write(h *mhandle, op *Op) want {
	if !h.wr {
		return want{kind: expFailOrRaise}
	}
	var s []byte
	for _, a := range op.Args {
		s = append(s, a.text()...)
	}
	wt := want{kind: expTruthy}
	if len(s) > 0 {
		if h.rbuf {
			wt.taint = append(wt.taint, fWriteAfterReadFlush)
		}
		pos := h.cur
		if h.app {
			pos = int64(len(w.f.data))
		}
		end := pos + int64(len(s))
		if int64(len(w.f.data)) < end {
			// a hole between the old end and pos reads as NULs
			nd := make([]byte, end)
			copy(nd, w.f.data)
			w.f.data = nd
		}
		copy(w.f.data[pos:], s)
		h.cur = end
		if h.app {
			h.curUnknown = false
		}
		h.dirty = true
		if h.vbuf != "no" {
			h.pending += len(s)
		}
		w.markStale(h)
	}
	h.last = 'w'
	h.rbuf = false
	return wt
}

func (op *Op) seekArgs() (whence string, off int64) {
	whence, off = "cur", 0
	if op.NA >= 1 {
		whence = op.Whence
	}
	if op.NA >= 2 {
		off = op.Off
	}
	return
}

func (w *world) seek(h *mhandle, op *Op) want {
	whence, off := op.seekArgs()
	wt := want{kind: expValues}
	if h.vbuf != "no" && h.pending > 0 {
		wt.taint = append(wt.taint, fSeekBufferedWrites)
	}
	var base int64
	switch whence {
	case "set":
	case "cur":
		if h.curUnknown {
			wt.kind = expAny
			h.last = 0
			h.rbuf = false
			h.stale = false
			return wt
		}
		base = h.cur
	case "end":
		base = int64(len(w.f.data))
	default:
		return want{kind: expRaise}
	}
	t := base + off
	if t < 0 {
		wt.kind = expNilFirst
		return wt
	}
	h.cur = t
	h.curUnknown = false
	h.last = 0
	h.rbuf = false
	h.stale = false
	wt.vals = []mval{{kind: 'd', d: float64(t)}}
	return wt
}
