// Package c19: io handles act as a byte sequence with one cursor under any
// read/write/seek (model-based monitoring over generated operation histories).
//
// The reference model (model.go) is an in-memory byte slice per file and
// {cursor, mode flags, closed} per handle, written from the Lua 5.1 manual
// (section 5.7) and the ISO C stdio semantics it defers to. Every Lua-level
// operation is executed on the real io library against a real file in the
// worker's scratch directory and its results are compared with the model;
// whenever no handle holds unflushed writes the file's bytes on disk (read by
// the harness with os.ReadFile) and, at close points, the reads of a freshly
// opened handle must equal the model's byte sequence.
package c19

import (
	"bytes"
	"encoding/json"
	"fmt"
	"os"
	"path/filepath"
	"strconv"

	lua "github.com/yuin/gopher-lua"

	"verif/internal/fw"
	"verif/internal/gl"
)

func init() {
	fw.Register(&fw.Prop{
		ID:    "C19",
		Level: "exploration",
		Rule: "(1) bounded-exhaustive: every ISO-C-legal sequence of 3 (quick) / 4 (thorough) operations over a 13-letter alphabet of reads/writes/seeks/flush placed around the 4096-byte read-ahead boundary x modes r+,a+,rb+ x sizes 4097,8192, non-trivial = >=3 operation kinds and the final on-disk comparison reached; " +
			"(2) random histories (quick 20 000, thorough 600 000): seeded random sequences of ~10-60 io.open/read/write/seek/flush/setvbuf/lines/close calls on one file through one or two handles " +
			"(15 mode strings; initial sizes 0,1,4095,4096,4097,8192,10000, small, absent; content with NUL, CR, CRLF, 0xff, lines around 4096 bytes, numerals), " +
			"obeying ISO C 7.19.5.3 (seek/flush between read and write); every result compared with a byte-slice+cursor model, file bytes compared via os.ReadFile " +
			"whenever no handle has unflushed writes, a fresh handle's reads (\"*a\", chunked read(n), io.lines) compared at close points; " +
			"op itnext: an iterator taken from f:lines() is called one step at a time (= read(\"*l\") at the handle's cursor), also after the handle was closed (must raise); " +
			"non-trivial = >=8 operations executed, >=3 distinct operation kinds, >=1 byte of read data compared and >=1 on-disk comparison, history not cut short by a divergence; distinct by case content",
		Assumptions: []string{
			"the byte-slice/cursor model of Lua 5.1 io handles (manual 5.7 + ISO C stdio) is correct",
			"two simultaneously open handles are only compared at points where the writer has flushed and the reader has re-positioned (its read-ahead may legitimately be stale otherwise)",
			"initial position of append-mode handles and the position after a malformed numeral are treated as unspecified (not asserted)",
			"the scratch directory is an ordinary local file system (sparse writes read back as NULs)",
		},
		CrashIsViolation: true,
		Run:              run,
		Replay:           replay,
		Reproducers:      reproducers,
	})
}

const helpers = `
return {
  read = function(f, ...) return f:read(...) end,
  write = function(f, ...) return f:write(...) end,
  seek = function(f, ...) return f:seek(...) end,
  flush = function(f) return f:flush() end,
  setvbuf = function(f, ...) return f:setvbuf(...) end,
  close = function(f) return f:close() end,
  mkit = function(f) return f:lines() end,
  lines = function(f, max)
    local t, n = {}, 0
    for l in f:lines() do
      n = n + 1
      t[n] = l
      if n == max then break end
      if n > 1000000 then error("runaway lines iterator") end
    end
    return n, t
  end,
  freshlines = function(path)
    local t, n = {}, 0
    for l in io.lines(path) do
      n = n + 1
      t[n] = l
      if n > 1000000 then error("runaway lines iterator") end
    end
    return n, t
  end,
  fresh = function(path, chunk)
    local f, err = io.open(path, "rb")
    if not f then return nil, err end
    local s
    if chunk == 0 then
      s = f:read("*a")
    else
      local t = {}
      while true do
        local b = f:read(chunk)
        if not b then break end
        t[#t + 1] = b
      end
      s = table.concat(t)
    end
    f:close()
    return s
  end,
}
`

type env struct {
	L                                                                        *lua.LState
	open, read, write, seek, flush, setvbuf, close, lines, fresh, freshlines, mkit lua.LValue
}

func newEnv() *env {
	L := lua.NewState()
	e := &env{L: L}
	e.open = L.GetField(L.GetGlobal("io"), "open")
	h := gl.MustLoad(L, helpers).(*lua.LTable)
	e.read = h.RawGetString("read")
	e.write = h.RawGetString("write")
	e.seek = h.RawGetString("seek")
	e.flush = h.RawGetString("flush")
	e.setvbuf = h.RawGetString("setvbuf")
	e.close = h.RawGetString("close")
	e.lines = h.RawGetString("lines")
	e.mkit = h.RawGetString("mkit")
	e.fresh = h.RawGetString("fresh")
	e.freshlines = h.RawGetString("freshlines")
	return e
}

// divergence is one disagreement between the implementation and the model.
type divergence struct {
	Step  int    // index into Ops (len(Ops) = final verification)
	Op    string // rendered operation
	Where string // result | disk | fresh-handle | canary
	Want  string
	Got   string
	Cand  string // finding id the divergence is attributed to ("" = none: a violation)
}

func (d *divergence) String() string {
	return fmt.Sprintf("step %d %s [%s]: want %s; got %s", d.Step, d.Op, d.Where, d.Want, d.Got)
}

func showBytes(b []byte) string {
	if len(b) <= 48 {
		return fmt.Sprintf("%q(len %d)", b, len(b))
	}
	return fmt.Sprintf("%q…%q(len %d)", b[:24], b[len(b)-16:], len(b))
}

func showVal(v lua.LValue) string {
	switch x := v.(type) {
	case lua.LString:
		return showBytes([]byte(x))
	case lua.LNumber:
		return gl.NumStr(float64(x))
	case *lua.LUserData:
		return "userdata"
	}
	if v == nil {
		return "<none>"
	}
	return v.String()
}

func showVals(vs []lua.LValue) string {
	s := "("
	for i, v := range vs {
		if i > 0 {
			s += ", "
		}
		if i >= 6 {
			s += "…"
			break
		}
		s += showVal(v)
	}
	return s + ")"
}

func showM(vs []mval, open bool) string {
	s := "("
	for i, v := range vs {
		if i > 0 {
			s += ", "
		}
		switch v.kind {
		case 'n':
			s += "nil"
		case 's':
			s += showBytes(v.s)
		case 'd':
			s += gl.NumStr(v.d)
		}
	}
	if open {
		s += ", ?…"
	}
	return s + ")"
}

func showOp(op *Op) string {
	s := fmt.Sprintf("h%d:%s", op.H, op.Op)
	switch op.Op {
	case "open":
		s += "(" + strconv.Quote(op.Mode) + ")"
	case "read":
		s += fmt.Sprint(op.Fmts)
	case "write":
		s += "("
		for i, a := range op.Args {
			if i > 0 {
				s += ", "
			}
			if a.Num != nil {
				s += gl.NumStr(*a.Num)
			} else {
				s += showBytes(a.S)
			}
		}
		s += ")"
	case "seek":
		wh, off := op.seekArgs()
		s += fmt.Sprintf("(%s,%d;na=%d)", wh, off, op.NA)
	case "setvbuf":
		s += fmt.Sprintf("(%s,%d;na=%d)", op.Mode, op.Size, op.NA)
	case "lines":
		s += fmt.Sprintf("(max=%d)", op.Max)
	case "itnext":
		s += "(one call of the iterator f:lines() returned earlier, or returns now)"
	}
	return s
}

func truthy(v lua.LValue) bool { return v != lua.LNil && v != lua.LFalse }

// execCase runs one history against the implementation and the model.
// isOpen tells which findings may absorb a divergence. It returns every
// divergence seen (the history stops at the first one that can have
// corrupted the state).
func execCase(c *fw.Ctx, cs *Case, path string, count bool, isOpen func(string) bool) (divs []divergence, st stats) {
	os.Remove(path)
	if !cs.Absent {
		if err := os.WriteFile(path, cs.Init, 0o600); err != nil {
			panic("harness cannot create the case file: " + err.Error())
		}
	}
	defer os.Remove(path)
	e := newEnv()
	defer e.L.Close()
	L := e.L
	w := newWorld(cs)
	var uds [2]lua.LValue
	var its [2]lua.LValue // the iterator f:lines() gave for the handle in this slot
	defer func() {
		for _, ud := range uds {
			if ud != nil {
				gl.Call(L, e.close, ud) // release the descriptor; result ignored
			}
		}
	}()
	cnt := func(k string, n int64) {
		if count {
			c.Count(k, n)
		}
	}
	taint := "" // most recent open finding whose deviant shape has executed
	kinds := map[string]bool{}
	executed, readBytes, diskCmp := 0, 0, 0
	cut := stats{}

	// attribute records a divergence: under the own-result finding imm when
	// that is open, else under the most recent open finding whose deviant shape
	// has executed in this history, else as a violation (Cand "").
	attribute := func(step int, op string, where, wantS, gotS string, imm string) {
		d := divergence{Step: step, Op: op, Where: where, Want: wantS, Got: gotS}
		if imm != "" && isOpen(imm) {
			d.Cand = imm
		} else if taint != "" {
			d.Cand = taint
		}
		divs = append(divs, d)
	}

	diskCheck := func(step int, opS string) bool {
		for i := range w.hs {
			if w.hs[i].live() && w.hs[i].dirty {
				return true
			}
		}
		b, err := os.ReadFile(path)
		diskCmp++
		cnt("disk_compares", 1)
		if !w.f.exists {
			if err == nil {
				attribute(step, opS, "disk", "file absent", "file exists, "+showBytes(b), "")
				return false
			}
			return true
		}
		if err != nil {
			attribute(step, opS, "disk", showBytes(w.f.data), "cannot read: "+err.Error(), "")
			return false
		}
		if !bytes.Equal(b, w.f.data) {
			attribute(step, opS, "disk", showBytes(w.f.data)+diffAt(w.f.data, b), showBytes(b), "")
			return false
		}
		cnt("disk_bytes_compared", int64(len(b)))
		return true
	}
	// freshLines: the fresh handle is the one io.lines(path) opens (its own iterator in iolib.go)
	freshLines := func(step int, opS string) bool {
		res, o := gl.Call(L, e.freshlines, lua.LString(path))
		cnt("fresh_iolines_compares", 1)
		if o.GoPanic != nil || (o.Err != nil && gl.IsGoRuntimeErrorText(o.Err.Error())) {
			divs = append(divs, divergence{Step: step, Op: opS, Where: "canary", Want: "no Go panic / run-time fault", Got: o.PanicStr + gl.ErrText(o.Err)})
			return false
		}
		if !w.f.exists {
			if o.Err == nil {
				attribute(step, opS, "fresh-handle", "io.lines raises (file absent)", showVals(res), "")
				return false
			}
			return true
		}
		var wl want
		wl.kind = expLines
		long := false
		for d := w.f.data; len(d) > 0; {
			idx := bytes.IndexByte(d, '\n')
			line := d
			if idx >= 0 {
				line, d = d[:idx], d[idx+1:]
			} else {
				d = nil
			}
			long = long || len(line) >= 4096
			wl.lines = append(wl.lines, line)
		}
		mm, cr := cmpLines(&wl, res, o.Err != nil)
		gotS := showVals(res)
		if o.Err != nil {
			gotS = "error: " + fw.Short(o.Err.Error(), 160)
		}
		switch {
		case mm != "":
			imm := ""
			if long {
				imm = fLinesSplitLong
			}
			attribute(step, opS, "fresh-handle", "io.lines: "+mm, gotS, imm)
			return divs[len(divs)-1].Cand == imm && imm != ""
		case cr:
			d := divergence{Step: step, Op: opS, Where: "fresh-handle", Want: "io.lines: the line with its CR (only the LF ends a line)", Got: gotS}
			if isOpen(fLineStripsCR) {
				d.Cand = fLineStripsCR
			} else if isOpen(fLinesSplitLong) {
				d.Cand = fLinesSplitLong
			}
			divs = append(divs, d)
			return d.Cand != ""
		}
		return true
	}
	freshCheck := func(step int, opS string) bool {
		for i := range w.hs {
			if w.hs[i].live() && w.hs[i].dirty {
				return true
			}
		}
		if cs.Chunk < 0 {
			return freshLines(step, opS)
		}
		res, o := gl.Call(L, e.fresh, lua.LString(path), lua.LNumber(cs.Chunk))
		cnt("fresh_handle_compares", 1)
		if o.GoPanic != nil || (o.Err != nil && gl.IsGoRuntimeErrorText(o.Err.Error())) {
			divs = append(divs, divergence{Step: step, Op: opS, Where: "canary", Want: "no Go panic / run-time fault", Got: o.PanicStr + gl.ErrText(o.Err)})
			return false
		}
		if o.Err != nil {
			attribute(step, opS, "fresh-handle", "reads", "error "+gl.ErrText(o.Err), "")
			return false
		}
		if !w.f.exists {
			if len(res) == 0 || res[0] != lua.LNil {
				attribute(step, opS, "fresh-handle", "open fails (file absent)", showVals(res), "")
				return false
			}
			return true
		}
		s, ok := res[0].(lua.LString)
		if !ok || !bytes.Equal([]byte(s), w.f.data) {
			attribute(step, opS, "fresh-handle", showBytes(w.f.data), showVals(res), "")
			return false
		}
		return true
	}

	for si := range cs.Ops {
		op := &cs.Ops[si]
		opS := showOp(op)
		if op.H < 0 || op.H > 1 {
			continue
		}
		hm := &w.hs[op.H]
		if op.Op != "open" && uds[op.H] == nil {
			cnt("ops_skipped_no_handle", 1)
			continue
		}
		wasClosed := hm.opened && hm.closed
		wt := w.apply(op)
		for _, t := range wt.taint {
			cnt("deviant_shape_"+t, 1)
			if isOpen(t) {
				taint = t
			}
		}
		var res []lua.LValue
		var o gl.Outcome
		ud := uds[op.H]
		switch op.Op {
		case "open":
			res, o = gl.Call(L, e.open, lua.LString(path), lua.LString(op.Mode))
			its[op.H] = nil
		case "itnext":
			if its[op.H] == nil {
				res, o = gl.Call(L, e.mkit, ud)
				if o.Err == nil && o.GoPanic == nil && len(res) >= 1 && res[0].Type() == lua.LTFunction {
					its[op.H] = res[0]
					cnt("lines_iterators_created", 1)
				}
			}
			if its[op.H] != nil {
				res, o = gl.Call(L, its[op.H])
				if wasClosed {
					cnt("iterator_calls_after_close", 1)
				}
			}
		case "read":
			args := []lua.LValue{ud}
			for _, f := range op.Fmts {
				if f != "" && f[0] != '*' {
					n, _ := strconv.ParseInt(f, 10, 64)
					args = append(args, lua.LNumber(n))
				} else {
					args = append(args, lua.LString(f))
				}
			}
			res, o = gl.Call(L, e.read, args...)
		case "write":
			args := []lua.LValue{ud}
			for _, a := range op.Args {
				if a.Num != nil {
					args = append(args, lua.LNumber(*a.Num))
				} else {
					args = append(args, lua.LString(string(a.S)))
				}
			}
			res, o = gl.Call(L, e.write, args...)
		case "seek":
			args := []lua.LValue{ud}
			if op.NA >= 1 {
				args = append(args, lua.LString(op.Whence))
			}
			if op.NA >= 2 {
				args = append(args, lua.LNumber(op.Off))
			}
			res, o = gl.Call(L, e.seek, args...)
		case "flush":
			res, o = gl.Call(L, e.flush, ud)
		case "setvbuf":
			args := []lua.LValue{ud, lua.LString(op.Mode)}
			if op.NA >= 2 {
				args = append(args, lua.LNumber(op.Size))
			}
			res, o = gl.Call(L, e.setvbuf, args...)
		case "close":
			res, o = gl.Call(L, e.close, ud)
		case "lines":
			res, o = gl.Call(L, e.lines, ud, lua.LNumber(op.Max))
		default:
			continue
		}
		executed++
		kinds[op.Op] = true
		cnt("op_"+op.Op, 1)
		if wasClosed && op.Op != "open" {
			cnt("ops_on_closed_handle", 1)
		}

		// universal canaries
		if o.GoPanic != nil {
			divs = append(divs, divergence{Step: si, Op: opS, Where: "canary", Want: "no Go panic", Got: "Go panic: " + o.PanicStr})
			return divs, cut
		}
		if o.Err != nil && gl.IsGoRuntimeErrorText(o.Err.Error()) {
			divs = append(divs, divergence{Step: si, Op: opS, Where: "canary", Want: "no Go run-time fault", Got: o.Err.Error()})
			return divs, cut
		}
		raised := o.Err != nil
		gotS := showVals(res)
		if raised {
			gotS = "error: " + fw.Short(o.Err.Error(), 160)
		}

		immID := ""     // finding whose own-result matcher holds for this outcome
		mismatch := ""  // description of the expected outcome when it is not met
		knownOnly := "" // a known own-result deviation that leaves the state intact
		switch wt.kind {
		case expAny:
			cnt("unasserted_results", 1)
		case expRaise:
			if !raised {
				mismatch = "a Lua error (handle is closed)"
				if wt.imm == "closed" {
					immID = fClosedNoError
				}
			} else {
				cnt("closed_handle_raised", 1)
			}
		case expFailOrRaise:
			if !raised && (len(res) == 0 || res[0] != lua.LNil) {
				mismatch = "failure (nil first) or a Lua error: handle not opened for this direction"
				if wt.imm == "aread" && len(res) > 0 && res[0] == lua.LString("") {
					immID = fAppendReadable
				}
			} else {
				cnt("wrong_direction_refused", 1)
			}
		case expTruthy:
			if raised || len(res) == 0 || !truthy(res[0]) {
				mismatch = "success (truthy first result)"
				if wt.imm == "line" && raised {
					immID = fSetvbufLine
				}
			}
		case expHandle:
			if raised || len(res) != 1 || res[0].Type() != lua.LTUserData {
				mismatch = "a file handle"
				if wt.imm == "plusb" && raised {
					immID = fOpenPlusB
				}
			} else {
				uds[op.H] = res[0]
				cnt("open_mode_"+op.Mode, 1)
			}
		case expNilFirst:
			if raised || len(res) == 0 || res[0] != lua.LNil {
				mismatch = "failure (nil first result)"
				if wt.imm == "plusb" && raised {
					immID = fOpenPlusB
				}
				if op.Op == "open" && !raised && len(res) == 1 && res[0].Type() == lua.LTUserData {
					uds[op.H] = res[0] // so that it gets closed
				}
			} else {
				cnt("failed_as_expected_"+op.Op, 1)
				if op.Op == "open" {
					uds[op.H] = nil // no handle in this slot
				}
			}
		case expValues:
			var cr bool
			mismatch, cr = cmpValues(&wt, res, raised)
			if mismatch != "" {
				if wt.imm == "ndrop" && !raised && len(res) == 3 && res[0] == lua.LNil {
					immID = fNumberDrops
				}
			} else {
				if cr {
					knownOnly = fLineStripsCR
				}
				if op.Op == "read" {
					for _, v := range wt.vals {
						switch v.kind {
						case 's':
							readBytes += len(v.s)
							cnt("read_bytes_compared", int64(len(v.s)))
						case 'n':
							cnt("read_nil_at_eof_or_failure", 1)
						case 'd':
							cnt("read_numbers_compared", 1)
						}
					}
				}
				if op.Op == "seek" && int64(wt.vals[0].d) > int64(len(w.f.data)) {
					cnt("seek_beyond_eof", 1)
				}
			}
		case expLines:
			var cr bool
			mismatch, cr = cmpLines(&wt, res, raised)
			if mismatch == "" {
				if cr {
					// the iterators strip the CR for two reasons: they call ReadLine
					// themselves, and the helper they should call strips it too
					knownOnly = fLineStripsCR
					if !isOpen(fLineStripsCR) {
						knownOnly = fLinesSplitLong
					}
				}
				for _, l := range wt.lines {
					readBytes += len(l)
				}
				cnt("lines_compared", int64(len(wt.lines)))
			}
		}
		if mismatch == "" && knownOnly != "" {
			// the values differ from the model only in the recorded way of an
			// own-result finding (same bytes consumed): the history goes on
			d := divergence{Step: si, Op: opS, Where: "result", Want: "the line with its CR (only the LF ends a line)", Got: gotS}
			if isOpen(knownOnly) {
				d.Cand = knownOnly
				divs = append(divs, d)
			} else {
				divs = append(divs, d)
				return divs, cut
			}
		}
		if mismatch != "" {
			attribute(si, opS, "result", mismatch, gotS, immID)
			d := &divs[len(divs)-1]
			if d.Cand == "" || immID == "" || d.Cand != immID {
				// a violation, or absorbed by a finding that corrupts the state: stop here
				return divs, cut
			}
			// an own-result finding: the state is intact; undo what the model assumed where needed
			switch immID {
			case fSetvbufLine:
				hm.vbuf, hm.pending = wt.prevVbuf, wt.prevPending
			case fOpenPlusB:
				return divs, cut // no handle to go on with
			}
		}

		// on-disk state and a freshly opened handle
		switch {
		case op.Op == "flush" || op.Op == "close" || op.Op == "open" || wasClosed:
			if !diskCheck(si, opS) {
				return divs, cut
			}
			if op.Op == "close" && !wasClosed {
				if !freshCheck(si, opS) {
					return divs, cut
				}
			}
		}
	}
	// final verification
	if !diskCheck(len(cs.Ops), "end") || !freshCheck(len(cs.Ops), "end") {
		return divs, cut
	}
	return divs, stats{complete: true, executed: executed, kinds: len(kinds), readBytes: readBytes, diskCmp: diskCmp}
}

// stats of one executed history, for the non-triviality rule.
type stats struct {
	complete  bool // ran to the end (not cut short by a divergence)
	executed  int
	kinds     int
	readBytes int
	diskCmp   int
}

func (s stats) nontrivial() bool {
	return s.complete && s.executed >= 8 && s.kinds >= 3 && s.readBytes >= 1 && s.diskCmp >= 1
}

// nontrivialEnum: rule for the bounded-exhaustive short histories.
func (s stats) nontrivialEnum() bool {
	return s.complete && s.kinds >= 3 && s.diskCmp >= 1
}

func diffAt(want, got []byte) string {
	n := len(want)
	if len(got) < n {
		n = len(got)
	}
	i := 0
	for i < n && want[i] == got[i] {
		i++
	}
	return fmt.Sprintf(" [first difference at offset %d]", i)
}

func eqVal(m mval, v lua.LValue) bool {
	switch m.kind {
	case 'n':
		return v == lua.LNil
	case 's':
		s, ok := v.(lua.LString)
		return ok && string(s) == string(m.s)
	case 'd':
		n, ok := v.(lua.LNumber)
		return ok && float64(n) == m.d
	}
	return false
}

// crStripped: the value is the expected line minus its final CR (recorded way of C19-readline-strips-cr).
func crStripped(want []byte, v lua.LValue) bool {
	s, ok := v.(lua.LString)
	return ok && len(want) > 0 && want[len(want)-1] == '\r' && string(s) == string(want[:len(want)-1])
}

func cmpValues(wt *want, res []lua.LValue, raised bool) (mismatch string, cr bool) {
	desc := "results " + showM(wt.vals, wt.openEnd || wt.failed)
	if raised {
		return desc, false
	}
	if len(res) < len(wt.vals) {
		return desc, false
	}
	if !wt.failed && !wt.openEnd && len(res) != len(wt.vals) {
		return desc, false
	}
	for i, m := range wt.vals {
		if eqVal(m, res[i]) {
			continue
		}
		if m.fromLine && crStripped(m.s, res[i]) {
			cr = true
			continue
		}
		return desc, false
	}
	return "", cr
}

func cmpLines(wt *want, res []lua.LValue, raised bool) (mismatch string, cr bool) {
	desc := fmt.Sprintf("%d lines", len(wt.lines))
	if raised || len(res) != 2 {
		return desc, false
	}
	n, ok := res[0].(lua.LNumber)
	t, ok2 := res[1].(*lua.LTable)
	if !ok || !ok2 {
		return desc, false
	}
	if int(n) != len(wt.lines) {
		return desc + fmt.Sprintf(" (got %d)", int(n)), false
	}
	for i, l := range wt.lines {
		v := t.RawGetInt(i + 1)
		if eqVal(mval{kind: 's', s: l}, v) {
			continue
		}
		if crStripped(l, v) {
			cr = true
			continue
		}
		return fmt.Sprintf("line %d = %s (got %s)", i+1, showBytes(l), showVal(v)), false
	}
	return "", cr
}

// ---- workload ----

func casePath(c *fw.Ctx, i int) string {
	return filepath.Join(c.Work, fmt.Sprintf("c19-%d.dat", i))
}

func report(c *fw.Ctx, cs *Case, divs []divergence) {
	for i := range divs {
		d := &divs[i]
		c.ViolationOrKnown(d.Cand, d.Cand != "", "io history diverges from the byte-sequence model: "+d.String(), cs)
	}
}

func hardDiv(divs []divergence) bool {
	for _, d := range divs {
		if d.Cand == "" {
			return true
		}
	}
	return false
}

func run(c *fw.Ctx) {
	// 1. bounded-exhaustive short histories around the read-ahead boundary
	k := c.Pick(3, 4)
	alpha := enumAlphabet()
	total := enumCount(k)
	for idx := 0; idx < total; idx++ {
		if !c.Mine(idx) {
			continue
		}
		cs := enumCase(idx, k, alpha)
		if cs == nil {
			c.Count("enum_sequences_skipped_not_iso_legal", 1)
			continue
		}
		c.Begin(cs)
		divs, st := execCase(c, cs, casePath(c, 0), true, c.FindingOpen)
		report(c, cs, divs)
		c.Count("enum_histories", 1)
		if hardDiv(divs) {
			c.End(false, "")
			continue
		}
		b, _ := json.Marshal(cs.Ops)
		c.End(st.nontrivialEnum(), fmt.Sprintf("enum/%d/%s", len(cs.Init), b))
	}
	// 2. random histories
	n := c.Share(c.Pick(20000, 600000))
	for i := 0; i < n; i++ {
		cs := genCase(c.R)
		c.Begin(cs)
		divs, st := execCase(c, cs, casePath(c, i), true, c.FindingOpen)
		nt := st.nontrivial()
		report(c, cs, divs)
		if len(cs.Ops) > 0 {
			c.Count("init_size_class_"+sizeClass(cs), 1)
		}
		two := false
		for _, op := range cs.Ops {
			if op.H == 1 {
				two = true
			}
		}
		if two {
			c.Count("two_handle_histories", 1)
		}
		if hardDiv(divs) {
			c.End(false, "")
			continue
		}
		b, _ := json.Marshal(cs)
		c.End(nt, string(b))
		if i < 2 && c.Shard == 0 {
			c.Sample(summary(cs))
		}
	}
}

func sizeClass(cs *Case) string {
	if cs.Absent {
		return "absent"
	}
	n := len(cs.Init)
	for _, s := range initSizes {
		if n == s {
			return strconv.Itoa(s)
		}
	}
	if n < 400 {
		return "small"
	}
	return "near4096"
}

// summary is a compact rendering of a case for the evidence file.
func summary(cs *Case) map[string]any {
	var ops []string
	for i := range cs.Ops {
		ops = append(ops, showOp(&cs.Ops[i]))
	}
	return map[string]any{"absent": cs.Absent, "init_len": len(cs.Init), "ops": ops}
}

func replay(c *fw.Ctx, raw json.RawMessage) {
	var cs Case
	if err := json.Unmarshal(raw, &cs); err != nil {
		fmt.Println("bad case:", err)
		return
	}
	divs, _ := execCase(c, &cs, casePath(c, 0), false, c.FindingOpen)
	report(c, &cs, divs)
}
