package c19

import (
	"math/rand"
	"strconv"
)

// All mode strings of the manual ("r","w","a","r+","w+","a+", optionally with a
// 'b' at the end) plus the ISO C spellings with the 'b' before the '+'.
var modes12 = []string{"r", "rb", "w", "wb", "a", "ab", "r+", "rb+", "w+", "wb+", "a+", "ab+"}
var modesPlusB = []string{"r+b", "w+b", "a+b"}

var initSizes = []int{0, 1, 4095, 4096, 4097, 8192, 10000}

type gen struct {
	r     *rand.Rand
	cs    *Case
	w     *world
	style string
	// itMade: a lines iterator has been taken from the handle now in the slot
	itMade [2]bool
}

func (g *gen) emit(op Op) {
	g.cs.Ops = append(g.cs.Ops, op)
	g.w.apply(&g.cs.Ops[len(g.cs.Ops)-1])
}

func (g *gen) pick(xs ...int) int { return xs[g.r.Intn(len(xs))] }

// randBytes draws n-ish bytes from an alphabet with NUL, CR, CRLF, LF, 0xff.
func randBytes(r *rand.Rand, n int) []byte {
	b := make([]byte, 0, n+1)
	for len(b) < n {
		switch k := r.Intn(100); {
		case k < 52:
			b = append(b, byte('a'+r.Intn(26)))
		case k < 60:
			b = append(b, byte('0'+r.Intn(10)))
		case k < 68:
			b = append(b, ' ')
		case k < 77:
			b = append(b, '\n')
		case k < 81:
			b = append(b, '\r', '\n')
		case k < 84:
			b = append(b, '\r')
		case k < 88:
			b = append(b, 0)
		case k < 92:
			b = append(b, 0xff)
		case k < 94:
			b = append(b, '\t')
		default:
			b = append(b, byte(r.Intn(256)))
		}
	}
	return b[:n]
}

func fill(r *rand.Rand, n int, c byte) []byte {
	b := make([]byte, n)
	for i := range b {
		b[i] = c
		if r.Intn(64) == 0 {
			b[i] = byte('A' + r.Intn(26))
		}
	}
	return b
}

func numeral(r *rand.Rand) string {
	switch r.Intn(6) {
	case 0:
		return strconv.Itoa(r.Intn(10))
	case 1:
		return strconv.Itoa(-r.Intn(1000))
	case 2:
		return strconv.Itoa(r.Intn(100000)) + ".5"
	case 3:
		return "00" + strconv.Itoa(r.Intn(100))
	case 4:
		return strconv.Itoa(r.Intn(1000)) + "." + strconv.Itoa(r.Intn(1000))
	}
	return strconv.Itoa(r.Intn(1000000))
}

var longLens = []int{4094, 4095, 4096, 4097, 4098, 5000, 8191, 8192, 8193, 9000}

func content(r *rand.Rand, style string, size int) []byte {
	var b []byte
	switch style {
	case "bin":
		b = randBytes(r, size)
	case "lines":
		for len(b) < size {
			n := r.Intn(80)
			if r.Intn(6) == 0 {
				n = 0
			}
			b = append(b, fill(r, n, byte('a'+r.Intn(26)))...)
			if r.Intn(4) == 0 {
				b = append(b, '\r')
			}
			b = append(b, '\n')
		}
	case "long":
		for len(b) < size {
			n := longLens[r.Intn(len(longLens))]
			if r.Intn(4) == 0 {
				n = r.Intn(40)
			}
			b = append(b, fill(r, n, byte('a'+r.Intn(26)))...)
			if r.Intn(5) == 0 {
				b = append(b, '\r')
			}
			b = append(b, '\n')
		}
	case "nums":
		seps := []string{" ", " ", "\n", "\n", "\t", "  ", "\r\n", " \n ", "\n\n"}
		if r.Intn(3) == 0 {
			seps = []string{" ", "\t", "  "} // one line of numbers
		}
		for len(b) < size {
			if r.Intn(12) == 0 {
				b = append(b, "abc"...)
			} else {
				b = append(b, numeral(r)...)
			}
			b = append(b, seps[r.Intn(len(seps))]...)
		}
	case "nonl":
		b = fill(r, size, byte('a'+r.Intn(26)))
	}
	if len(b) > size {
		b = b[:size]
	}
	return b
}

func genCase(r *rand.Rand) *Case {
	cs := &Case{}
	g := &gen{r: r, cs: cs}
	g.style = []string{"bin", "bin", "lines", "lines", "long", "nums", "nums", "nonl"}[r.Intn(8)]
	switch k := r.Intn(20); {
	case k == 0:
		cs.Absent = true
	case k < 12:
		cs.Init = content(r, g.style, initSizes[r.Intn(len(initSizes))])
	case k < 17:
		cs.Init = content(r, g.style, 2+r.Intn(300))
	default:
		cs.Init = content(r, g.style, 4000+r.Intn(200))
	}
	cs.Chunk = g.pick(0, 0, 1000, 4096, 5000, -1)
	g.w = newWorld(cs)
	two := r.Intn(4) == 0
	target := 8 + r.Intn(50)
	cur := 0
	g.openHandle(0)
	for len(cs.Ops) < target {
		if two && r.Intn(6) == 0 {
			g.makeClean(cur)
			cur = 1 - cur
		}
		h := &g.w.hs[cur]
		if !h.live() {
			if h.opened && h.closed && r.Intn(5) < 3 {
				g.closedOp(cur)
				continue
			}
			g.openHandle(cur)
			continue
		}
		g.step(cur)
	}
	if r.Intn(25) == 0 {
		// a malformed read format at the very end: whatever the answer is (the model
		// leaves it open), it is an answer of the library, not a Go run-time fault
		for i := range g.w.hs {
			if g.w.hs[i].live() {
				g.emit(Op{H: i, Op: "read", Fmts: []string{[]string{"", "*", "*z", "**"}[r.Intn(4)]}})
				break
			}
		}
	}
	for i := range g.w.hs {
		if g.w.hs[i].live() && r.Intn(10) != 0 {
			g.emit(Op{H: i, Op: "close"})
		}
	}
	return cs
}

func (g *gen) makeClean(i int) {
	h := &g.w.hs[i]
	if h.live() && h.dirty {
		if g.r.Intn(5) == 0 {
			g.emit(Op{H: i, Op: "close"})
		} else {
			g.emit(Op{H: i, Op: "flush"})
		}
	}
}

func (g *gen) openHandle(i int) {
	r := g.r
	var mode string
	switch {
	case r.Intn(30) == 0:
		mode = modesPlusB[r.Intn(len(modesPlusB))]
	case !g.w.f.exists && r.Intn(3) != 0:
		mode = []string{"w", "wb", "a", "ab", "w+", "wb+", "a+", "ab+"}[r.Intn(8)]
	case r.Intn(3) == 0:
		// update modes exercise the reader/writer reconciliation most
		mode = []string{"r+", "rb+", "w+", "wb+", "a+", "ab+"}[r.Intn(6)]
	default:
		mode = modes12[r.Intn(len(modes12))]
	}
	g.emit(Op{H: i, Op: "open", Mode: mode})
	g.itMade[i] = false
	if g.w.hs[i].live() && g.w.hs[i].wr && r.Intn(5) == 0 {
		g.setvbuf(i)
	}
}

func (g *gen) setvbuf(i int) {
	op := Op{H: i, Op: "setvbuf", NA: 1}
	op.Mode = []string{"no", "full", "full", "full", "line"}[g.r.Intn(5)]
	if g.r.Intn(2) == 0 {
		op.NA = 2
		op.Size = g.pick(1, 2, 16, 100, 1024, 4096, 10000)
	}
	g.emit(op)
}

func (g *gen) closedOp(i int) {
	switch g.r.Intn(10) {
	case 8, 9:
		// the iterator taken before the close, or f:lines() on the closed handle
		g.emit(Op{H: i, Op: "itnext"})
	case 0:
		g.emit(Op{H: i, Op: "read", Fmts: []string{g.readFmt(i)}})
	case 1:
		g.emit(Op{H: i, Op: "write", Args: []Arg{{S: []byte("closed")}}})
	case 2:
		g.emit(Op{H: i, Op: "seek", NA: 2, Whence: "set", Off: int64(g.r.Intn(10))})
	case 3:
		g.emit(Op{H: i, Op: "seek", NA: g.r.Intn(2), Whence: "end"})
	case 4:
		g.emit(Op{H: i, Op: "flush"})
	case 5:
		g.emit(Op{H: i, Op: "setvbuf", NA: 1, Mode: []string{"no", "full"}[g.r.Intn(2)]})
	case 6:
		g.emit(Op{H: i, Op: "lines"})
	case 7:
		g.emit(Op{H: i, Op: "close"})
	}
}

func weighted(r *rand.Rand, ws []int) int {
	t := 0
	for _, w := range ws {
		t += w
	}
	k := r.Intn(t)
	for i, w := range ws {
		if k < w {
			return i
		}
		k -= w
	}
	return 0
}

func ifv(b bool, x, y int) int {
	if b {
		return x
	}
	return y
}

func (g *gen) step(i int) {
	h := &g.w.hs[i]
	r := g.r
	kinds := []string{"read", "write", "seek", "flush", "lines", "setvbuf", "close", "itnext"}
	k := kinds[weighted(r, []int{ifv(h.rd, 25, 2), ifv(h.wr, 25, 2), 16, ifv(h.wr, 6, 1), ifv(h.rd, 5, 1), ifv(h.wr, 3, 1), 2, ifv(h.rd, 5, 0)})]
	switch k {
	case "itnext":
		g.prelude(i, true, false)
		g.emit(Op{H: i, Op: "itnext"})
		g.itMade[i] = true
	case "read":
		g.prelude(i, true, false)
		nf := 1
		if r.Intn(4) == 0 {
			nf = 2 + r.Intn(3)
		}
		if r.Intn(12) == 0 {
			nf = 0
		}
		op := Op{H: i, Op: "read"}
		for j := 0; j < nf; j++ {
			op.Fmts = append(op.Fmts, g.readFmt(i))
		}
		g.emit(op)
	case "lines":
		g.prelude(i, true, false)
		g.emit(Op{H: i, Op: "lines", Max: g.pick(0, 0, 0, 1, 2, 5)})
	case "write":
		g.prelude(i, false, true)
		g.emit(Op{H: i, Op: "write", Args: g.writeArgs()})
	case "seek":
		g.emitSeek(i, false, false)
	case "flush":
		g.emit(Op{H: i, Op: "flush"})
	case "setvbuf":
		// mostly at points where nothing is pending (ISO C wants setvbuf before any I/O)
		if h.wr && h.dirty && r.Intn(4) != 0 {
			g.emit(Op{H: i, Op: "flush"})
		}
		g.setvbuf(i)
	case "close":
		g.emit(Op{H: i, Op: "close"})
		if g.itMade[i] && r.Intn(3) != 0 {
			// the iterator outlives its handle: it must raise, not serve read-ahead
			g.emit(Op{H: i, Op: "itnext"})
		}
	}
}

// prelude emits what ISO C 7.19.5.3 (as quoted by the property statement)
// requires before the next transfer: a seek or flush between a read and a
// following write and between a write and a following read; an absolute seek
// when the position is not fixed by the standard; a seek when another handle
// changed the file (this handle's read-ahead may be stale).
func (g *gen) prelude(i int, reads, writes bool) {
	h := &g.w.hs[i]
	willRead := reads && h.rd
	willWrite := writes && h.wr
	if !willRead && !willWrite {
		return
	}
	needAbs := h.curUnknown && (willRead || !h.app)
	if h.stale || needAbs {
		g.emitSeek(i, needAbs, true)
		return
	}
	needSep := (willRead && h.last == 'w') || (willWrite && h.last == 'r')
	if !needSep {
		return
	}
	pFlush := 50
	if willWrite {
		pFlush = 15
	}
	if h.wr && g.r.Intn(100) < pFlush {
		g.emit(Op{H: i, Op: "flush"})
		return
	}
	g.emitSeek(i, false, true)
}

func (g *gen) emitSeek(i int, absolute, mustSucceed bool) {
	h := &g.w.hs[i]
	r := g.r
	if h.vbuf != "no" && h.pending > 0 && r.Intn(100) < 85 {
		g.emit(Op{H: i, Op: "flush"})
	}
	n := int64(len(g.w.f.data))
	whs := []string{"set", "cur", "end"}
	wh := whs[r.Intn(3)]
	if h.curUnknown && wh == "cur" {
		wh = "set"
	}
	if absolute && wh == "cur" {
		wh = "end"
	}
	cur := h.cur
	cands := []int64{0, 0, 1, n, n, n - 1, n + 1, 4095, 4096, 4097, 8191, 8192, 8193, n / 2,
		r.Int63n(n + 1), r.Int63n(n + 1), r.Int63n(n + 1), cur, cur, cur + 1, cur - 1, cur + 4096, cur - 4096,
		cur - int64(r.Intn(50)), cur + int64(r.Intn(50)), n + int64(r.Intn(300))}
	if r.Intn(10) == 0 {
		cands = append(cands, n+4096, n+5000)
	}
	var t int64
	for tries := 0; ; tries++ {
		t = cands[r.Intn(len(cands))]
		if t >= 0 && (t <= n+6000 && n < 60000 || t <= n) {
			break
		}
		if tries > 20 {
			t = 0
			break
		}
	}
	if !mustSucceed && r.Intn(15) == 0 {
		t = -1 - int64(r.Intn(3))
	}
	var base int64
	switch wh {
	case "cur":
		base = cur
	case "end":
		base = n
	}
	op := Op{H: i, Op: "seek", NA: 2, Whence: wh, Off: t - base}
	if op.Off == 0 {
		if wh == "cur" {
			op.NA = r.Intn(3)
		} else {
			op.NA = 1 + r.Intn(2)
		}
	}
	g.emit(op)
}

func (g *gen) readFmt(i int) string {
	h := &g.w.hs[i]
	r := g.r
	n := int64(len(g.w.f.data))
	rem := n - h.cur
	if rem < 0 {
		rem = 0
	}
	pn := 12
	if g.style == "nums" {
		pn = 45
	}
	switch k := r.Intn(100); {
	case k < pn:
		return "*n"
	case k < pn+22:
		return "*l"
	case k < pn+30:
		return "*a"
	}
	sizes := []int64{0, 0, 1, 1, 2, 3, 10, 100, 1000, 4095, 4096, 4097, 8192, rem, rem + 1, rem - 1, rem / 2, n + 10, 20000}
	if r.Intn(40) == 0 {
		// counts far beyond any file: the bytes up to the end of the file are the answer
		sizes = []int64{1 << 31, 1 << 40, 1 << 53}
	}
	s := sizes[r.Intn(len(sizes))]
	if s < 0 {
		s = 0
	}
	return strconv.FormatInt(s, 10)
}

func (g *gen) writeArgs() []Arg {
	r := g.r
	na := 1
	switch r.Intn(10) {
	case 0:
		na = 2
	case 1:
		na = 3
	case 2:
		if r.Intn(4) == 0 {
			na = 0
		}
	}
	big := len(g.w.f.data) > 50000
	var args []Arg
	for j := 0; j < na; j++ {
		var a Arg
		switch k := r.Intn(100); {
		case k < 3:
			a.S = []byte{}
		case k < 12:
			f := float64(r.Intn(2000) - 1000)
			if r.Intn(3) == 0 {
				f += 0.5
			}
			a.Num = &f
		case k < 20:
			a.S = []byte(numeral(r) + []string{"\n", " ", "\r\n", "\t"}[r.Intn(4)])
		case k < 30:
			a.S = append(fill(r, r.Intn(30), byte('a'+r.Intn(26))), []string{"\n", "\r\n"}[r.Intn(2)]...)
		case k < 40 && !big:
			n := g.pick(4095, 4096, 4097, 5000, 8192, 8193)
			if r.Intn(2) == 0 {
				a.S = randBytes(r, n)
			} else {
				a.S = append(fill(r, n-1, byte('a'+r.Intn(26))), '\n')
			}
		case k < 50:
			a.S = randBytes(r, 100+r.Intn(300))
		default:
			a.S = randBytes(r, 1+r.Intn(20))
		}
		args = append(args, a)
	}
	return args
}
