package c19

import (
	"bytes"
	"fmt"

	"verif/internal/fw"
)

func rep(b byte, n int) []byte { return bytes.Repeat([]byte{b}, n) }

type pinned struct {
	cs   Case
	step int    // the step at which the divergence shows
	got  string // substring of the recorded wrong observation ("" = any)
}

func sarg(s string) []Arg { return []Arg{{S: []byte(s)}} }

// pinnedCases: the minimal concrete history of every finding of this property.
var pinnedCases = map[string]pinned{
	fWriteAfterReadFlush: {cs: Case{Init: rep('x', 100), Ops: []Op{
		{Op: "open", Mode: "r+"}, {Op: "read", Fmts: []string{"3"}}, {Op: "flush"}, {Op: "write", Args: sarg("ABC")}, {Op: "close"}}},
		step: 4, got: "(len 103)"},
	fSeekBufferedWrites: {cs: Case{Init: []byte("0123456789"), Ops: []Op{
		{Op: "open", Mode: "r+"}, {Op: "setvbuf", Mode: "full", NA: 1}, {Op: "write", Args: sarg("abc")}, {Op: "seek"}, {Op: "close"}}},
		step: 3, got: "(0)"},
	fSetvbufDrops: {cs: Case{Init: []byte("0123456789"), Ops: []Op{
		{Op: "open", Mode: "r+"}, {Op: "setvbuf", Mode: "full", NA: 1}, {Op: "write", Args: sarg("abc")}, {Op: "setvbuf", Mode: "no", NA: 1}, {Op: "close"}}},
		step: 4, got: `"0123456789"`},
	fClosedNoError: {cs: Case{Init: []byte("abc"), Ops: []Op{
		{Op: "open", Mode: "r"}, {Op: "close"}, {Op: "seek", NA: 2, Whence: "set"}}},
		step: 2, got: "(nil, "},
	fLineStripsCR: {cs: Case{Init: []byte("a\r\nb"), Ops: []Op{
		{Op: "open", Mode: "rb"}, {Op: "read", Fmts: []string{"*l"}}, {Op: "close"}}},
		step: 1, got: `("a"(len 1))`},
	fLinesSplitLong: {cs: Case{Init: append(append(rep('y', 4096), '\n'), 'q'), Ops: []Op{
		{Op: "open", Mode: "rb"}, {Op: "lines"}, {Op: "close"}}},
		step: 1, got: "(3, "},
	fAppendReadable: {cs: Case{Init: []byte("abc"), Ops: []Op{
		{Op: "open", Mode: "a"}, {Op: "read", Fmts: []string{"0"}}, {Op: "close"}}},
		step: 1, got: `(""(len 0))`},
	fSetvbufLine: {cs: Case{Init: []byte("abc"), Ops: []Op{
		{Op: "open", Mode: "w"}, {Op: "setvbuf", Mode: "line", NA: 1}, {Op: "close"}}},
		step: 1, got: "invalid option"},
	fOpenPlusB: {cs: Case{Init: []byte("abc"), Ops: []Op{
		{Op: "open", Mode: "r+b"}}},
		step: 0, got: "invalid option"},
	fNumberNewline: {cs: Case{Init: []byte("1\n2\n"), Ops: []Op{
		{Op: "open", Mode: "r"}, {Op: "read", Fmts: []string{"*n"}}, {Op: "read", Fmts: []string{"*n"}}, {Op: "close"}}},
		step: 2, got: "unexpected newline"},
	fNumberConsumes: {cs: Case{Init: []byte("pq"), Ops: []Op{
		{Op: "open", Mode: "r"}, {Op: "read", Fmts: []string{"*n"}}, {Op: "read", Fmts: []string{"1"}}, {Op: "close"}}},
		step: 2, got: `("q"(len 1))`},
	fNumberDrops: {cs: Case{Init: []byte("hello 12 abc"), Ops: []Op{
		{Op: "open", Mode: "r"}, {Op: "read", Fmts: []string{"5", "*n", "*n"}}, {Op: "close"}}},
		step: 1, got: "(nil, "},
}

var reproducers = func() map[string]func(c *fw.Ctx) (bool, string) {
	m := map[string]func(c *fw.Ctx) (bool, string){}
	for id := range pinnedCases {
		id := id
		m[id] = func(c *fw.Ctx) (bool, string) { return runPinned(c, id) }
	}
	return m
}()

// runPinned re-runs the pinned history with only this finding allowed to
// absorb a divergence; it still fails in the recorded way when the first
// divergence is attributed to the finding, at the recorded step, with the
// recorded observation.
func runPinned(c *fw.Ctx, id string) (bool, string) {
	p := pinnedCases[id]
	cs := p.cs
	divs, _ := execCase(c, &cs, casePath(c, 0), false, func(f string) bool { return f == id })
	if len(divs) == 0 {
		return false, "the pinned history agrees with the model"
	}
	d := divs[0]
	if d.Cand != id {
		return false, "diverges, but not in the way of this finding: " + d.String()
	}
	if d.Step != p.step || !bytes.Contains([]byte(d.Got), []byte(p.got)) {
		return false, fmt.Sprintf("diverges differently from the record (step %d, %q expected): %s", p.step, p.got, d.String())
	}
	return true, d.String()
}
