package c19

// Bounded-exhaustive part of the workload: every legal sequence of length k
// (quick k=3, thorough k=4) over a small alphabet of reads, writes, seeks and
// flushes placed around the 4096-byte read-ahead boundary, for the update
// modes and two file sizes. "Legal" = obeys the ISO C alternation rule the
// property statement quotes (the model's `last` field) and never depends on a
// position the standard leaves open.

func enumAlphabet() []Op {
	w := func(b []byte) []Arg { return []Arg{{S: b}} }
	return []Op{
		{Op: "read", Fmts: []string{"1"}},
		{Op: "read", Fmts: []string{"4095"}},
		{Op: "read", Fmts: []string{"4096"}},
		{Op: "read", Fmts: []string{"*l"}},
		{Op: "read", Fmts: []string{"*a"}},
		{Op: "write", Args: w([]byte("XY"))},
		{Op: "write", Args: w(rep('W', 4096))},
		{Op: "seek", NA: 2, Whence: "set", Off: 0},
		{Op: "seek", NA: 2, Whence: "set", Off: 4095},
		{Op: "seek", NA: 0},
		{Op: "seek", NA: 2, Whence: "cur", Off: -1},
		{Op: "seek", NA: 2, Whence: "end", Off: -1},
		{Op: "flush"},
	}
}

var enumModes = []string{"r+", "a+", "rb+"}
var enumSizes = []int{4097, 8192}

// enumContent: every byte tells its offset (mod 26) so that misplaced data shows; a LF every 100 bytes.
func enumContent(n int) []byte {
	b := make([]byte, n)
	for i := range b {
		b[i] = byte('a' + i%26)
		if i%100 == 99 {
			b[i] = '\n'
		}
	}
	return b
}

// enumCount is the size of the raw product for sequences of length k.
func enumCount(k int) int {
	n := len(enumModes) * len(enumSizes)
	for i := 0; i < k; i++ {
		n *= len(enumAlphabet())
	}
	return n
}

// enumCase builds the idx-th member of the product, or nil when the sequence is not legal.
func enumCase(idx, k int, alpha []Op) *Case {
	mode := enumModes[idx%len(enumModes)]
	idx /= len(enumModes)
	size := enumSizes[idx%len(enumSizes)]
	idx /= len(enumSizes)
	cs := &Case{Init: enumContent(size), Chunk: 4096}
	cs.Ops = append(cs.Ops, Op{Op: "open", Mode: mode})
	w := newWorld(cs)
	w.apply(&cs.Ops[0])
	h := &w.hs[0]
	for i := 0; i < k; i++ {
		op := alpha[idx%len(alpha)]
		idx /= len(alpha)
		switch op.Op {
		case "read":
			if h.last == 'w' || h.curUnknown {
				return nil
			}
		case "write":
			if h.last == 'r' || (h.curUnknown && !h.app) {
				return nil
			}
		case "seek":
			if wh, _ := op.seekArgs(); wh == "cur" && h.curUnknown {
				return nil
			}
		}
		cs.Ops = append(cs.Ops, op)
		w.apply(&cs.Ops[len(cs.Ops)-1])
	}
	cs.Ops = append(cs.Ops, Op{Op: "close"})
	return cs
}
