// Package c17: errors and debug queries report the right source line and variables.
package c17

import (
	"encoding/json"
	"fmt"
	"math/rand"
	"os"
	"regexp"
	"sort"
	"strconv"
	"strings"

	lua "github.com/yuin/gopher-lua"

	"verif/internal/canon"
	"verif/internal/fw"
	"verif/internal/last"
	"verif/internal/lgen"
	"verif/internal/lref"
	"verif/internal/lrun"
	"verif/internal/props/pcommon"
)

func init() {
	fw.Register(&fw.Prop{
		ID:    "C17",
		Level: "exploration",
		Rule: "programs: generated position programs (caught run-time faults inside multi-operand expressions, error() at level 1 and 2, currentline probes, linedefined/lastlinedefined of local/anonymous functions, " +
			"enumeration of locals after block exits, in loops, with shadowing, setlocal, upvalue enumeration) rendered in a wild layout (statements spread over lines, comments, blank lines, CR/LF/CRLF, long strings); " +
			"(1) span rule: every reported line must lie inside the line span the renderer recorded for the innermost executing statement/header (reference interpreter supplies which statement), and equal it for one-line statements; " +
			"(2) line-shift law: the same rendering with whole lines inserted (blank, -- comments, multi-line --[[ ]] blocks) must shift every reported number by exactly the token shift; " +
			"(3) getlocal/getupvalue enumerate exactly the model's named variables in scope (declaration order for locals) with current values, setlocal changes exactly that variable; " +
			"added shapes: failing statements whose first instruction fails (operands are locals) directly after and/or statements; vararg functions with parameters (setlocal on a parameter, read-back); probe2 = metamethod handlers (__add __index __concat __unm __lt __call __newindex) and for-in iterators enumerate the locals of the frame stopped at the invoking instruction; " +
			"non-trivial = >=3 position events and >=1 variable enumeration; distinct by source hash",
		Assumptions: []string{
			"the renderer's token->line map is the ground truth for positions",
			"linedefined may be any line from the `function` keyword to the `)` of the parameter list; lastlinedefined is the line of `end`",
			"upvalue enumeration order is not asserted (compared as a set)",
		},
		CrashIsViolation: true,
		Run:              run,
		Replay:           replay,
	})
}

func marker(n int) string { return canon.MarkOpen + strconv.Itoa(n) + canon.MarkClose }

func onState(L *lua.LState, r *lrun.ImplRun) {
	ev := func(parts ...string) { r.Trace = append(r.Trace, strings.Join(parts, ",")) }
	canonv := func(v lua.LValue) string {
		if s, ok := v.(lua.LString); ok {
			return canon.ImplString(string(s))
		}
		return lrun.CanonValue(r, v)
	}
	L.SetGlobal("curline", L.NewFunction(func(L *lua.LState) int {
		dbg, ok := L.GetStack(1)
		if !ok {
			L.Push(lua.LNumber(-1))
			return 1
		}
		L.GetInfo("l", dbg, lua.LNil)
		L.Push(lua.LNumber(dbg.CurrentLine))
		return 1
	}))
	L.SetGlobal("curline2", L.NewFunction(func(L *lua.LState) int {
		dbg, ok := L.GetStack(2)
		if !ok {
			L.Push(lua.LNumber(-1))
			return 1
		}
		L.GetInfo("l", dbg, lua.LNil)
		L.Push(lua.LNumber(dbg.CurrentLine))
		return 1
	}))
	L.SetGlobal("hostfail", L.NewFunction(func(L *lua.LState) int {
		L.RaiseError("Ehostiter") // luaL_error: position of the calling Lua code
		return 0
	}))
	L.SetGlobal("emitline", L.NewFunction(func(L *lua.LState) int {
		ev(strconv.Quote(L.CheckString(1)), strconv.Quote(marker(L.CheckInt(2))))
		return 0
	}))
	L.SetGlobal("emitfn", L.NewFunction(func(L *lua.LState) int {
		dbg := &lua.Debug{}
		L.GetInfo(">S", dbg, L.Get(2))
		ev(strconv.Quote(L.CheckString(1)), strconv.Quote(marker(dbg.LineDefined)), strconv.Quote(marker(dbg.LastLineDefined)))
		return 0
	}))
	probeAt := func(level int) lua.LGFunction {
		return func(L *lua.LState) int {
			dbg, ok := L.GetStack(level)
			parts := []string{strconv.Quote(L.CheckString(1))}
			if ok {
				for i := 1; i < 400; i++ {
					name, v := L.GetLocal(dbg, i)
					if name == "" {
						break
					}
					if strings.HasPrefix(name, "(") || name == "arg" {
						continue
					}
					parts = append(parts, name+"="+canonv(v))
				}
			}
			ev(parts...)
			return 0
		}
	}
	// badidx: indices that name no local (0, negative, far too large) give no
	// name and change nothing, in the caller or anywhere else
	L.SetGlobal("badidx", L.NewFunction(func(L *lua.LState) int {
		parts := []string{strconv.Quote("badidx")}
		if dbg, ok := L.GetStack(1); ok {
			for _, no := range []int{0, -1, -2, -3, -50, 100000} {
				name, v := L.GetLocal(dbg, no)
				set := L.SetLocal(dbg, no, lua.LNumber(777000+no))
				if name != "" || v != lua.LNil || set != "" {
					parts = append(parts, fmt.Sprintf("index %d: getlocal gave %q,%s setlocal gave %q", no, name, canonv(v), set))
				}
			}
		}
		ev(parts...)
		return 0
	}))
	L.SetGlobal("probe", L.NewFunction(probeAt(1)))
	// probe2: the locals of the function that called the caller (a metamethod
	// handler or an iterator asks about the frame stopped at the instruction that invoked it)
	L.SetGlobal("probe2", L.NewFunction(probeAt(2)))
	L.SetGlobal("setl", L.NewFunction(func(L *lua.LState) int {
		dbg, ok := L.GetStack(1)
		want := L.CheckString(1)
		if ok {
			last := 0
			for i := 1; i < 400; i++ {
				name, _ := L.GetLocal(dbg, i)
				if name == "" {
					break
				}
				if name == want {
					last = i
				}
			}
			if last > 0 {
				L.SetLocal(dbg, last, L.Get(2))
			}
		}
		return 0
	}))
	L.SetGlobal("probeup", L.NewFunction(func(L *lua.LState) int {
		fn := L.CheckFunction(2)
		type nv struct {
			n string
			v lua.LValue
		}
		var ups []nv
		for i := 1; i < 300; i++ {
			name, v := L.GetUpvalue(fn, i)
			if name == "" {
				break
			}
			ups = append(ups, nv{name, v})
		}
		sort.SliceStable(ups, func(a, b int) bool { return ups[a].n < ups[b].n })
		parts := []string{strconv.Quote(L.CheckString(1))}
		for _, u := range ups {
			parts = append(parts, u.n+"="+canonv(u.v))
		}
		ev(parts...)
		return 0
	}))
}

func onModel(in *lref.Interp) {
	str := func(a []lref.Value, i int) string {
		if i < len(a) {
			if s, ok := a[i].(string); ok {
				return s
			}
		}
		return ""
	}
	in.Register("curline", func(in *lref.Interp, a []lref.Value) []lref.Value {
		return []lref.Value{in.PosMarkerAtLevel(1)}
	})
	in.Register("curline2", func(in *lref.Interp, a []lref.Value) []lref.Value {
		return []lref.Value{in.PosMarkerAtLevel(2)}
	})
	in.Register("hostfail", func(in *lref.Interp, a []lref.Value) []lref.Value {
		in.RTErrorMsg("Ehostiter")
		return nil
	})
	in.Register("emitline", func(in *lref.Interp, a []lref.Value) []lref.Value {
		in.Emit(strconv.Quote(str(a, 0)) + "," + strconv.Quote(str(a, 1)))
		return nil
	})
	in.Register("emitfn", func(in *lref.Interp, a []lref.Value) []lref.Value {
		d, e := "?", "?"
		if len(a) > 1 {
			if cl, ok := a[1].(*lref.Closure); ok {
				f := cl.Func()
				d = canon.MarkOpen + strconv.Itoa(f.DefFirst) + "-" + strconv.Itoa(f.DefLast) + canon.MarkClose
				e = marker(f.LastLineDefined)
			}
		}
		in.Emit(strconv.Quote(str(a, 0)) + "," + strconv.Quote(d) + "," + strconv.Quote(e))
		return nil
	})
	probeAt := func(level int) func(in *lref.Interp, a []lref.Value) []lref.Value {
		return func(in *lref.Interp, a []lref.Value) []lref.Value {
			parts := []string{strconv.Quote(str(a, 0))}
			for _, l := range in.FrameLocals(level) {
				if l.Name == "arg" {
					continue
				}
				parts = append(parts, l.Name+"="+in.Canon(l.Cell.V))
			}
			in.Emit(strings.Join(parts, ","))
			return nil
		}
	}
	in.Register("badidx", func(in *lref.Interp, a []lref.Value) []lref.Value {
		in.Emit(strconv.Quote("badidx"))
		return nil
	})
	in.Register("probe", probeAt(1))
	in.Register("probe2", probeAt(2))
	in.Register("setl", func(in *lref.Interp, a []lref.Value) []lref.Value {
		ls := in.FrameLocals(1)
		for i := len(ls) - 1; i >= 0; i-- {
			if ls[i].Name == str(a, 0) {
				if len(a) > 1 {
					ls[i].Cell.V = a[1]
				} else {
					ls[i].Cell.V = nil
				}
				break
			}
		}
		return nil
	})
	in.Register("probeup", func(in *lref.Interp, a []lref.Value) []lref.Value {
		parts := []string{strconv.Quote(str(a, 0))}
		if len(a) > 1 {
			if cl, ok := a[1].(*lref.Closure); ok {
				names := map[string]bool{}
				collectNames(cl.Func().Body, names)
				for _, p := range cl.Func().Params {
					delete(names, p)
				}
				var ns []string
				for n := range names {
					if cl.Upvalue(n) != nil {
						ns = append(ns, n)
					}
				}
				sort.Strings(ns)
				for _, n := range ns {
					parts = append(parts, n+"="+in.Canon(cl.Upvalue(n).V))
				}
			}
		}
		in.Emit(strings.Join(parts, ","))
		return nil
	})
}

// collectNames gathers the names a closure body of the form `return a, b, ...` mentions.
func collectNames(b *last.Block, out map[string]bool) {
	for _, s := range b.Stmts {
		if r, ok := s.(*last.SReturn); ok {
			for _, e := range r.Exprs {
				if n, ok := e.(*last.EName); ok {
					out[n.Name] = true
				}
			}
		}
	}
}

func build(c *fw.Ctx, idx int) (*last.Chunk, *lgen.Gen) {
	r := c.SubRand("prog", idx)
	g := lgen.New(r, lgen.Features{})
	return g.LineProgram(), g
}

var markRe = regexp.MustCompile(`\\x01(\d+)\\x02`)

func runCase(c *fw.Ctx, idx int, count bool) {
	lr := c.SubRand("layout", idx)
	seed := lr.Int63()
	pn := 3 + lr.Intn(45)
	eol := []string{"\n", "\n", "\r\n", "\r"}[lr.Intn(4)]
	// a fifth of the programs is loaded from a file whose first line is a "#!"
	// line: every token is then one line further down
	header := ""
	if lr.Intn(5) == 0 {
		header = []string{"#!/usr/bin/env lua\n", "#\n", "#! lua -- not code: error('x') [[\n"}[lr.Intn(3)]
	}
	if header == "" && len(eol) == 2 && lr.Intn(3) == 0 {
		// a long comment as first line puts one of the program's two-byte line
		// ends near the scanner reader's 4096-byte refill
		header = "--" + strings.Repeat("p", 4090-lr.Intn(700)) + eol
		if count {
			c.Count("programs_behind_a_4k_comment_line", 1)
		}
	}
	mkLayout := func() *last.Layout {
		lay := &last.Layout{Wild: true, R: newRand(seed), PNewline: pn, AltStrings: true, Semis: true, ExtraParens: true, EOL: eol}
		if header != "" {
			lay.FirstLine = 2
		}
		return lay
	}
	chunk, g := build(c, idx)
	src1 := last.Render(chunk, mkLayout())
	cs := pcommon.Case{Index: idx, Src: src1}
	c.Begin(cs)
	cfg := &lrun.Config{OnState: onState, OnModel: onModel, FileHeader: header}
	if count && header != "" {
		c.Count("programs_loaded_from_a_file_with_a_#_first_line", 1)
	}
	// (1) + (3): the model ran on the AST whose sites were filled by this rendering
	m := lrun.RunModel(chunk, cfg)
	impl1 := lrun.RunImpl(src1, cfg)
	if m.Abort != "" {
		c.Inconclusive("model:" + m.Abort)
	} else if d := lrun.Compare(m, impl1); d != nil {
		cs.Diff = d.String()
		c.Violation("reported line / variables differ from the renderer's ground truth and the model: "+d.String(), cs)
		c.End(false, "")
		return
	}
	// (2) line-shift law
	chunk2, _ := build(c, idx)
	lay2 := mkLayout()
	lay2.Inflate = newRand(seed ^ 0x5bd1e995)
	src2 := last.Render(chunk2, lay2)
	impl2 := lrun.RunImpl(src2, cfg)
	unmapped := 0
	bad := ""
	if impl2.LoadErr != "" || impl2.GoPanic != "" {
		bad = "inflated rendering does not load: " + impl2.LoadErr + impl2.GoPanic
	} else {
		shift := func(e string) string {
			return markRe.ReplaceAllStringFunc(e, func(mk string) string {
				n, _ := strconv.Atoi(markRe.FindStringSubmatch(mk)[1])
				if v, ok := lay2.LineMap[n]; ok {
					return `\x01` + strconv.Itoa(v) + `\x02`
				}
				unmapped++
				return `\x01?` + strconv.Itoa(n) + `\x02`
			})
		}
		t1 := append([]string{}, impl1.Trace...)
		t2 := impl2.Trace
		if impl1.Failed {
			t1 = append(t1, "FAILED "+impl1.ErrCanon)
		}
		if impl2.Failed {
			t2 = append(append([]string{}, t2...), "FAILED "+impl2.ErrCanon)
		}
		if len(t1) != len(t2) {
			bad = fmt.Sprintf("traces have %d / %d events after inserting whole lines", len(t1), len(t2))
		} else {
			for i := range t1 {
				s := shift(t1[i])
				if strings.Contains(s, `\x01?`) {
					continue
				}
				if s != t2[i] {
					bad = fmt.Sprintf("event %d: reported lines do not shift with the tokens: %s became %s, expected %s", i, fw.Short(t1[i], 120), fw.Short(t2[i], 120), fw.Short(s, 120))
					break
				}
			}
		}
	}
	if count {
		c.Count("shift_law_checks", 1)
		c.Count("lines_inserted_total", int64(strings.Count(src2, eol)-strings.Count(src1, eol)))
		if unmapped > 0 {
			c.Count("reported_lines_without_token_start(skipped)", int64(unmapped))
		}
	}
	if bad != "" {
		cs.Diff = bad
		cs.Extra = src2
		c.Violation("line-shift law: "+bad, cs)
		c.End(false, "")
		return
	}
	pos, enum := 0, 0
	for _, e := range impl1.Trace {
		if strings.Contains(e, `\x01`) {
			pos++
		}
		if strings.HasPrefix(e, `"pl`) || strings.HasPrefix(e, `"after`) || strings.HasPrefix(e, `"shadow`) || strings.HasPrefix(e, `"up`) || strings.HasPrefix(e, `"mm-`) || strings.HasPrefix(e, `"iter`) {
			enum++
		}
	}
	if count {
		c.Count("position_events", int64(pos))
		c.Count("variable_enumerations", int64(enum))
		for k := range g.Cover {
			c.Count("gen_"+k, 1)
		}
		if c.WantSample() && len(src1) < 2500 && pos >= 3 {
			tr := impl1.Trace
			if len(tr) > 14 {
				tr = tr[:14]
			}
			c.Sample(map[string]any{"src": src1, "trace_head": tr})
		}
	}
	c.End(m.Abort == "" && pos >= 3 && enum >= 1, src1)
}

// enterWork: programs loaded through LoadFile are written to a file named
// "<string>" in the current directory (see lrun.Config.FileHeader); each
// worker is a process of its own with a private work directory.
func enterWork(c *fw.Ctx) {
	if err := os.MkdirAll(c.Work, 0o755); err == nil {
		os.Chdir(c.Work)
	}
}

func run(c *fw.Ctx) {
	enterWork(c)
	total := c.Pick(20000, 600000)
	for i := 0; i < total; i++ {
		if c.Mine(i) {
			runCase(c, i, true)
		}
	}
}

func replay(c *fw.Ctx, raw json.RawMessage) {
	cs, ok := pcommon.ParseCase(raw)
	if !ok {
		return
	}
	enterWork(c)
	runCase(c, cs.Index, false)
}

func newRand(seed int64) *rand.Rand { return rand.New(rand.NewSource(seed)) }
