package c03

import (
	"fmt"

	"verif/internal/fw"
	"verif/internal/last"
	"verif/internal/lgen"
	"verif/internal/lrun"
	"verif/internal/props/pcommon"
)

const quickN, thoroughN = 30000, 2000000

const rule = "programs: 2-6 scenarios each creating closures (getter/bumper pairs, captured parameters, loop variables, upvalues of upvalues, environment inheritance via setfenv/getfenv) in a scope that is then left by " +
	"fall-through, break, goto out of nested blocks, backward goto, return, tail call, an error caught by pcall or xpcall, coroutine suspension and death; afterwards unrelated code reuses the registers " +
	"(many locals, constructors, long argument lists, host scrub()) and every closure held so far is invoked; trace compared with the reference interpreter; " +
	"invariant hook: no open upvalue at or above the registry top when the chunk has returned; non-trivial = >=2 closures invoked after a non-fall-through exit; distinct by source hash"

var assumptions = []string{
	"reference interpreter: variables are heap cells created per block entry / iteration / call, so sharing and freshness hold by construction",
}

var reproducers = map[string]func(c *fw.Ctx) (bool, string){}

func config(c *fw.Ctx, idx int) *lrun.Config { return defaultConfig() }

func classify(c *fw.Ctx, o *pcommon.Outcome, cs pcommon.Case) {
	c.Violation("implementation diverges from the reference interpreter: "+o.Diff.String(), cs)
}

func nontrivial(o *pcommon.Outcome, g *lgen.Gen) bool {
	exits := 0
	for k := range g.Cover {
		if len(k) > 5 && k[:5] == "exit:" && k != "exit:0" {
			exits++
		}
	}
	return g.NClosures+len(o.Impl.Trace) >= 4 && exits >= 1
}

func extra(c *fw.Ctx, idx int, chunk *last.Chunk, o *pcommon.Outcome, count bool) {
	if count {
		c.Count("balance_canary_checks", 1)
	}
	if o.Impl.Unbalanced != "" {
		c.Violation(fmt.Sprintf("state balance after the chunk returned: %s", o.Impl.Unbalanced), pcommon.Case{Index: idx, Src: o.Src})
	}
}
