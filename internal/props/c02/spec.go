package c02

import (
	"fmt"

	lua "github.com/yuin/gopher-lua"

	"verif/internal/fw"
	"verif/internal/gl"
	"verif/internal/last"
	"verif/internal/lgen"
	"verif/internal/lrun"
	"verif/internal/props/pcommon"
)

const quickN, thoroughN = 4000, 300000

const rule = "programs: 2-5 generated callees (0-4 parameters x vararg or not x observing ... / select('#') / arg table / {...}; Lua closures, methods, __call tables, host functions hostret/hosttop, select, unpack ranges, pcall pass-through) " +
	"called from 6-20 sites in every result context (statement, open last argument, middle, parenthesised, adjusted to n locals, table constructor, select('#'), multiple assignment, operand), nested to depth 3; " +
	"plus a tail-call chain of depth 1e3..1e5 (self, mutual with varargs, through a host function) run under the default and under tiny call stacks; " +
	"each program compared with the reference interpreter; Go API sub-check: CallByParam/PCall with explicit NRet vs the adjusted model list; " +
	"non-trivial = >=3 calls with >=2 distinct (nargs,nparams,vararg) tuples; distinct by source hash"

var assumptions = []string{
	"reference interpreter implements manual 2.5.8/2.5.9 argument and result adjustment",
	"'without bound' is observed up to 1e5 chained tail calls per program",
}

var reproducers = map[string]func(c *fw.Ctx) (bool, string){}

func config(c *fw.Ctx, idx int) *lrun.Config {
	cfg := defaultConfig()
	r := c.SubRand("cfg", idx)
	// proper tail calls must not consume call-stack space: tiny stacks are fine for the chain
	switch r.Intn(4) {
	case 0:
		cfg.Opts = lua.Options{CallStackSize: 24}
	case 1:
		cfg.Opts = lua.Options{CallStackSize: 40, MinimizeStackMemory: true}
	}
	return cfg
}

func classify(c *fw.Ctx, o *pcommon.Outcome, cs pcommon.Case) {
	c.Violation("implementation diverges from the reference interpreter: "+o.Diff.String(), cs)
}

func nontrivial(o *pcommon.Outcome, g *lgen.Gen) bool {
	tuples := 0
	for k := range g.Cover {
		if len(k) > 5 && k[:5] == "call:" {
			tuples++
		}
	}
	return g.NCalls >= 3 && tuples >= 2 && len(o.Impl.Trace) >= 3
}

// extra: the Go-side call contract with explicit NRet on a callee of the program's flavour.
func extra(c *fw.Ctx, idx int, chunk *last.Chunk, o *pcommon.Outcome, count bool) {
	r := c.SubRand("goapi", idx)
	L := lua.NewState()
	defer L.Close()
	nprod := r.Intn(6)
	src := "return function(...) return "
	for i := 0; i < nprod; i++ {
		if i > 0 {
			src += ", "
		}
		src += fmt.Sprintf("%d", 100+i)
	}
	if nprod == 0 {
		src = "return function(...) "
	}
	src += " end"
	fn := gl.MustLoad(L, src)
	for _, nret := range []int{lua.MultRet, 0, 1, 2, 5} {
		nargs := r.Intn(5)
		args := make([]lua.LValue, nargs)
		for i := range args {
			args[i] = lua.LNumber(i)
		}
		L.Push(lua.LString("guard"))
		top := L.GetTop()
		err := L.CallByParam(lua.P{Fn: fn, NRet: nret, Protect: r.Intn(2) == 0}, args...)
		want := nret
		if nret == lua.MultRet {
			want = nprod
		}
		got := L.GetTop() - top
		bad := ""
		if err != nil {
			bad = "error: " + err.Error()
		} else if got != want {
			bad = fmt.Sprintf("stack grew by %d, want %d", got, want)
		} else {
			for i := 1; i <= want; i++ {
				v := L.Get(top + i)
				var w lua.LValue = lua.LNil
				if i <= nprod {
					w = lua.LNumber(99 + i)
				}
				if v != w {
					bad = fmt.Sprintf("result %d is %v, want %v", i, v, w)
				}
			}
			if L.Get(top) != lua.LString("guard") {
				bad = "value below the call was disturbed"
			}
		}
		if count {
			c.Count("goapi_calls", 1)
		}
		if bad != "" {
			c.Violation(fmt.Sprintf("CallByParam contract: callee produces %d values, NRet=%d, nargs=%d: %s", nprod, nret, nargs, bad),
				pcommon.Case{Index: idx, Kind: "goapi", Src: src})
		}
		L.SetTop(0)
	}
}
