// Package c15: string and math library functions match their definitions
// for all arguments (exhaustive small-scope enumeration + generated inputs,
// each call compared with a definitional model).
//
// Every case is one call `fn(args...)` made through LState.CallByParam with
// LValues built in Go. The oracle (oracle.go) maps (fn, args) to what the
// Lua 5.1 manual / lstrlib.c 5.1.4 / C99 printf / IEEE 754 define.
package c15

import (
	"bytes"
	"encoding/json"
	"fmt"
	"math"
	"strconv"
	"strings"

	lua "github.com/yuin/gopher-lua"

	"verif/internal/fw"
	"verif/internal/gl"
	"verif/internal/refl/lstr"
)

func init() {
	fw.Register(&fw.Prop{
		ID:    "C15",
		Level: "exploration",
		Rule: "one case = one call fn(args...) through CallByParam, result list compared byte-exactly (numbers bit-exactly, NaNs merged) with the model, string arguments re-read after the call. " +
			"EXHAUSTIVE in both tiers: all strings of length <=3 over {00,'a','Z',7f,e9} (thorough: length <=4 over 8 bytes) x every (i,j) in [-len-2,len+2]^2 plus nil/omitted for string.sub and string.byte, " +
			"x every needle of length <=2 x every init in the window plus nil/omitted x plain in {true,false,omitted} for string.find, a second find space over the pattern specials {a . % [ -} with plain=true; " +
			"all 256 bytes for upper/lower/reverse/len/rep/char/byte; every conversion d i c x X o e E f s (g G u: compared, outside the statement) x 32 flag subsets x 5 widths x 6 precisions x 44 arguments for string.format; " +
			"the special-value pool (and pool x pool for binary functions) for math. GENERATED (fixed counts per seed): random strings to 300 bytes, far positions, multi-directive formats, random float64 bit patterns. " +
			"non-trivial = positions: subject non-empty and at least one explicit position argument; byte-wise: subject non-empty; format: the directive carries a flag, width or precision, or the format has >=2 segments; " +
			"math: at least one argument is not NaN and the model asserts the result (not an open case); distinct by content hash of the case",
		Assumptions: []string{
			"the models in internal/refl/lstr (posrelat/clamping after lstrlib.c 5.1.4, C99 7.19.6.1 printf over strconv digit generation) and internal/props/c15/mathmodel.go (exact big-integer fmod, big.Float ldexp, midpoint test for sqrt, loop frexp) are correct",
			"integer conversions of string.format are asserted only for numbers whose truncation lies in the C long range (|x| < 2^63; x >= 0 for o x X); %c for |x| < 2^31; combinations C99 calls undefined (# with d c s, 0 with c s, precision with c) and inf/nan/huge arguments of integer conversions are run for the canaries only",
			"transcendental functions (exp log log10 sin cos tan asin acos atan atan2 sinh cosh tanh pow) use Go's math package as the kernel: the claim there is wrapper correctness (arity, argument order, which function), backed by an independent table of known values with 1e-13 relative tolerance",
			"%s with a number argument is asserted only for integers < 1e14 and quarter-integers (number->text is C16); strings with embedded NUL under %s and %c 0 accept both the full C output and lstrlib's strlen-cut output",
			"deg/rad accept any result within 3 ulp of the exact x*180/pi, x*pi/180; max/min compare numerically (sign of zero free) on NaN-free argument lists",
			"position arguments are integral and |pos| <= 2^53; rep/ldexp/char/random take integral arguments (lua_number2integer rounding of fractions is platform-defined in 5.1)",
		},
		CrashIsViolation: true,
		Exhaustive:       true,
		Run:              run,
		Replay:           replay,
		Reproducers:      reproducers,
	})
}

// ---- case representation ----

// Val is one Lua value of a case: number (by bits), string (bytes), nil or boolean.
type Val struct {
	T string `json:"t"`           // n | s | nil | b
	B uint64 `json:"b,omitempty"` // float64 bits (n); 1 = true (b)
	S []byte `json:"s,omitempty"` // bytes (s)
	H string `json:"h,omitempty"` // human-readable rendering; ignored when replaying
}

func num(f float64) Val { return Val{T: "n", B: math.Float64bits(f), H: gl.NumStr(f)} }
func inum(i int64) Val  { return num(float64(i)) }
func str(b []byte) Val {
	return Val{T: "s", S: append([]byte{}, b...), H: strconv.QuoteToASCII(string(b))}
}
func strs(s string) Val   { return str([]byte(s)) }
func nilv() Val           { return Val{T: "nil"} }
func boolv(b bool) Val    { return Val{T: "b", B: map[bool]uint64{true: 1, false: 0}[b]} }
func (v Val) F() float64  { return math.Float64frombits(v.B) }
func (v Val) IsNum() bool { return v.T == "n" }
func (v Val) IsStr() bool { return v.T == "s" }
func (v Val) IsNil() bool { return v.T == "nil" }

func (v Val) String() string {
	switch v.T {
	case "n":
		return gl.NumStr(v.F())
	case "s":
		return strconv.QuoteToASCII(string(v.S))
	case "b":
		return strconv.FormatBool(v.B != 0)
	}
	return "nil"
}

func valsString(vs []Val) string {
	var sb strings.Builder
	sb.WriteByte('(')
	for i, v := range vs {
		if i > 0 {
			sb.WriteString(", ")
		}
		sb.WriteString(fw.Short(v.String(), 120))
	}
	sb.WriteByte(')')
	return sb.String()
}

func valEq(a, b Val) bool {
	if a.T != b.T {
		return false
	}
	switch a.T {
	case "n":
		fa, fb := a.F(), b.F()
		if fa != fa || fb != fb {
			return fa != fa && fb != fb
		}
		return a.B == b.B
	case "s":
		return bytes.Equal(a.S, b.S)
	case "b":
		return a.B == b.B
	}
	return true
}

func valsEq(a, b []Val) bool {
	if len(a) != len(b) {
		return false
	}
	for i := range a {
		if !valEq(a[i], b[i]) {
			return false
		}
	}
	return true
}

// Seg is one segment of a structured format string.
type Seg struct {
	L []byte     `json:"l,omitempty"`  // literal bytes (no '%')
	P bool       `json:"pc,omitempty"` // "%%"
	D *lstr.Spec `json:"d,omitempty"`  // a directive
}

// Case is one call.
type Case struct {
	Fn   string `json:"fn"`            // string.sub ... math.floor ... op.pow
	Args []Val  `json:"args"`          // for string.format: the arguments after the format string
	Fmt  []Seg  `json:"fmt,omitempty"` // string.format: the format string, structured
	N    int    `json:"n,omitempty"`   // math.random: number of draws
}

func (cs *Case) formatText() []byte {
	var b []byte
	for _, s := range cs.Fmt {
		switch {
		case s.D != nil:
			b = append(b, s.D.Text()...)
		case s.P:
			b = append(b, '%', '%')
		default:
			b = append(b, s.L...)
		}
	}
	return b
}

func (cs *Case) String() string {
	if cs.Fn == "string.format" {
		return fmt.Sprintf("string.format(%s%s", strconv.QuoteToASCII(string(cs.formatText())), strings.Replace(valsString(cs.Args), "(", ", ", 1))
	}
	s := cs.Fn + valsString(cs.Args)
	if cs.N > 0 {
		s += fmt.Sprintf(" x%d draws", cs.N)
	}
	return s
}

// ---- the implementation side ----

type env struct {
	L    *lua.LState
	fns  map[string]lua.LValue
	open func(id string) bool // which known findings the run treats as open (nil: all)
}

func newEnv() *env {
	L := lua.NewState()
	e := &env{L: L, fns: map[string]lua.LValue{}}
	for _, lib := range []string{"string", "math"} {
		t := L.GetGlobal(lib).(*lua.LTable)
		t.ForEach(func(k, v lua.LValue) {
			if ks, ok := k.(lua.LString); ok {
				e.fns[lib+"."+string(ks)] = v
			}
		})
	}
	e.fns["op.pow"] = gl.MustLoad(L, "return function(a, b) return a ^ b end")
	return e
}

func toLValue(v Val) lua.LValue {
	switch v.T {
	case "n":
		return lua.LNumber(v.F())
	case "s":
		// a private copy of the bytes: the post-call comparison is against v.S
		return lua.LString(string(append([]byte{}, v.S...)))
	case "b":
		return lua.LBool(v.B != 0)
	}
	return lua.LNil
}

func fromLValue(v lua.LValue) Val {
	switch x := v.(type) {
	case lua.LNumber:
		return Val{T: "n", B: math.Float64bits(float64(x))}
	case lua.LString:
		return Val{T: "s", S: []byte(string(x))}
	case lua.LBool:
		return boolv(bool(x))
	case *lua.LNilType:
		return nilv()
	}
	return Val{T: "other:" + v.Type().String()}
}

// outcome of one case
type verdict struct {
	viol    string // non-empty: divergence text
	finding string // non-empty: the divergence matches this known finding's input predicate
	got     string // canonical rendering of what the implementation returned
	open    string // non-empty: not asserted (reason)
	info    bool   // divergence outside the statement (counted only)
	class   string // outcome class for the evidence counters
	sub     *Case  // a smaller case that diverges by itself (one directive of a longer format)
}

// runCase performs the call and judges it.
func runCase(e *env, cs *Case) verdict {
	fn := e.fns[cs.Fn]
	if fn == nil {
		return verdict{viol: "function " + cs.Fn + " is missing from the library table"}
	}
	if cs.Fn == "math.random" {
		return runRandom(e, cs)
	}
	ex := oracle(cs)
	var args []lua.LValue
	if cs.Fn == "string.format" {
		args = append(args, lua.LString(string(cs.formatText())))
	}
	for _, a := range cs.Args {
		args = append(args, toLValue(a))
	}
	res, o := gl.Call(e.L, fn, args...)
	v := verdict{open: ex.open, class: ex.class}
	fid := e.matchFinding(cs)
	fail := func(format string, a ...any) verdict {
		v.viol = cs.String() + ": " + fmt.Sprintf(format, a...)
		v.finding = fid
		if cs.Fn == "string.format" && fid == "" && !(len(cs.Fmt) == 1 && cs.Fmt[0].D != nil) {
			id, sub, subViol := attributeFormat(e, cs)
			v.finding = id
			if sub != nil {
				v.sub = sub
				v.viol = subViol + " [a directive of " + fw.Short(cs.String(), 200) + "]"
			}
		}
		return v
	}
	if o.GoPanic != nil {
		v.got = "Go panic: " + o.PanicStr
		return fail("a Go panic escaped CallByParam: %s", fw.Short(o.PanicStr, 300))
	}
	// a string argument must not have been modified in place
	off := 0
	if cs.Fn == "string.format" {
		off = 1
	}
	for i, a := range cs.Args {
		if a.T == "s" && string(args[i+off].(lua.LString)) != string(a.S) {
			fid = ""
			return fail("string argument #%d was modified in place: now %s", i+1, strconv.QuoteToASCII(string(args[i+off].(lua.LString))))
		}
	}
	if o.Err != nil {
		txt := o.Err.Error()
		v.got = "error: " + fw.Short(txt, 200)
		if gl.IsGoRuntimeErrorText(txt) {
			return fail("a Go run-time fault surfaced as the error: %s", fw.Short(txt, 300))
		}
		if ex.err || ex.open != "" {
			if ex.err {
				v.class = "lua-error(expected)"
			}
			return v
		}
		if ex.info {
			v.info = true
			return v
		}
		return fail("raised %q, the definition gives %s", fw.Short(txt, 200), ex.want())
	}
	got := make([]Val, len(res))
	for i, r := range res {
		got[i] = fromLValue(r)
	}
	v.got = valsString(got)
	if ex.open != "" {
		return v
	}
	if ex.err {
		if ex.info {
			v.info = true
			return v
		}
		return fail("returned %s, the definition requires an error (%s)", v.got, ex.desc)
	}
	ok := false
	if ex.pred != nil {
		if msg := ex.pred(got); msg == "" {
			ok = true
		} else if ex.desc == "" {
			ex.desc = msg
		} else {
			ex.desc += "; " + msg
		}
	} else {
		for _, alt := range ex.alts {
			if valsEq(alt, got) {
				ok = true
				break
			}
		}
	}
	if ok {
		return v
	}
	if ex.info {
		v.info = true
		return v
	}
	return fail("returned %s, the definition gives %s", v.got, ex.want())
}

// expect is what the oracle says about a case.
type expect struct {
	open  string             // not asserted: reason
	err   bool               // a Lua error is required
	alts  [][]Val            // acceptable result lists
	pred  func([]Val) string // alternative to alts: "" = accepted, otherwise why not
	info  bool               // outside the statement: compare but never report
	desc  string             // extra text for messages
	class string             // outcome class (evidence)
}

func (ex *expect) want() string {
	if ex.pred != nil {
		return ex.desc
	}
	var parts []string
	for i, a := range ex.alts {
		if i == 3 {
			parts = append(parts, "...")
			break
		}
		parts = append(parts, valsString(a))
	}
	s := strings.Join(parts, " or ")
	if ex.desc != "" {
		s += " [" + ex.desc + "]"
	}
	return s
}

func exact(vs ...Val) expect { return expect{alts: [][]Val{vs}} }

// ---- judge + bookkeeping ----

func caseKey(cs *Case) []byte {
	// the H fields are derived data; strip them so that keys are canonical
	cp := *cs
	cp.Args = make([]Val, len(cs.Args))
	for i, a := range cs.Args {
		a.H = ""
		cp.Args[i] = a
	}
	b, _ := json.Marshal(&cp)
	return b
}

func nontrivial(cs *Case, v *verdict) bool {
	if v.open != "" || v.info {
		return false
	}
	switch {
	case cs.Fn == "string.format":
		if len(cs.Fmt) >= 2 {
			return true
		}
		for _, s := range cs.Fmt {
			if s.D != nil && (s.D.Flags != "" || s.D.Width >= 0 || s.D.Prec != -1) {
				return true
			}
		}
		return false
	case cs.Fn == "string.sub" || cs.Fn == "string.byte" || cs.Fn == "string.find":
		if len(cs.Args) == 0 || len(cs.Args[0].S) == 0 {
			return false
		}
		first := 1
		if cs.Fn == "string.find" {
			first = 2
		}
		for _, a := range cs.Args[min(first, len(cs.Args)):] {
			if a.T == "n" {
				return true
			}
		}
		return false
	case strings.HasPrefix(cs.Fn, "string."):
		if cs.Fn == "string.char" {
			return len(cs.Args) > 0
		}
		return len(cs.Args) > 0 && (len(cs.Args[0].S) > 0 || cs.Args[0].T == "n")
	}
	// math
	for _, a := range cs.Args {
		if a.T == "n" && !isNaN(a.F()) {
			return true
		}
	}
	return cs.Fn == "math.random"
}

// do runs one case inside the workload: journal, call, count, report.
func do(c *fw.Ctx, e *env, cs *Case) {
	key := caseKey(cs)
	c.Begin(json.RawMessage(key))
	v := runCase(e, cs)
	c.Count("fn_"+cs.Fn, 1)
	if v.class != "" {
		c.Count(cs.Fn+":"+v.class, 1)
	}
	switch {
	case v.viol != "":
		rec := cs
		if v.sub != nil {
			rec = v.sub
		}
		c.ViolationOrKnown(v.finding, v.finding != "", v.viol, rec)
		c.Count("diverged_from_model", 1)
		c.End(false, "")
		return
	case v.info:
		c.Count("outside_statement_diverges:"+infoClass(cs), 1)
	case v.open != "":
		c.Count("open(canaries only):"+v.open, 1)
	}
	nt := nontrivial(cs, &v)
	if nt && wantSample(c, cs.Fn) {
		c.Sample(map[string]string{"call": fw.Short(cs.String(), 300), "got": fw.Short(v.got, 300)})
	}
	c.End(nt, string(key))
}

// each shard samples the first non-trivial case of the functions whose name hashes to it
var sampledFns = map[string]int{}

func wantSample(c *fw.Ctx, fn string) bool {
	h := 0
	for _, b := range []byte(fn) {
		h = h*31 + int(b)
	}
	if h%c.NShards != c.Shard {
		return false
	}
	sampledFns[fn]++
	return sampledFns[fn] == 40 // not the very first (usually degenerate) case
}

func infoClass(cs *Case) string {
	if cs.Fn == "string.format" {
		for _, s := range cs.Fmt {
			if s.D != nil && strings.Contains("gGu", s.D.Conv) {
				return "format-%" + s.D.Conv
			}
		}
	}
	return cs.Fn
}

func replay(c *fw.Ctx, raw json.RawMessage) {
	var cs Case
	// the journal wraps the case as {"kind":"case","bytes":<base64 json>}
	var wrap struct {
		Kind  string `json:"kind"`
		Bytes []byte `json:"bytes"`
	}
	if err := json.Unmarshal(raw, &wrap); err == nil && wrap.Kind == "case" {
		raw = wrap.Bytes
	}
	if err := json.Unmarshal(raw, &cs); err != nil {
		fmt.Println("bad case:", err)
		return
	}
	e := newEnv()
	e.open = c.FindingOpen
	defer e.L.Close()
	v := runCase(e, &cs)
	fmt.Printf("case: %s\n got: %s\n", cs.String(), v.got)
	if v.viol != "" {
		c.ViolationOrKnown(v.finding, v.finding != "", v.viol, &cs)
	}
}
