package c15

import (
	"math"
	"math/big"
)

// Definitional models of the math functions that have an exact IEEE
// definition. None of them calls the math-package function it models
// (math.Floor, Ceil, Abs, Mod, Modf, Frexp, Ldexp, Sqrt are not used here).

var (
	nan    = math.NaN()
	inf    = math.Inf(1)
	negInf = math.Inf(-1)
	negZer = math.Copysign(0, -1)
)

const two52 = 4503599627370496.0

func isNaN(x float64) bool { return x != x }
func isInf(x float64) bool { return x > math.MaxFloat64 || x < -math.MaxFloat64 }
func signbit(x float64) bool {
	return math.Float64bits(x)>>63 != 0
}

func mAbs(x float64) float64 { return math.Float64frombits(math.Float64bits(x) &^ (1 << 63)) }

func withSignOf(mag, s float64) float64 {
	b := math.Float64bits(mag) &^ (1 << 63)
	if signbit(s) {
		b |= 1 << 63
	}
	return math.Float64frombits(b)
}

// mFloor: the largest integral value <= x (floor(-0) = -0, floor of (0,1) = +0).
func mFloor(x float64) float64 {
	if isNaN(x) || isInf(x) || x == 0 || mAbs(x) >= two52 {
		return x
	}
	t := float64(int64(x)) // truncation, exact for |x| < 2^52
	if t > x {
		t--
	}
	if t == 0 {
		return 0 // x in (0,1)
	}
	return t
}

// mCeil: the smallest integral value >= x (ceil of (-1,0) = -0).
func mCeil(x float64) float64 {
	if isNaN(x) || isInf(x) || x == 0 || mAbs(x) >= two52 {
		return x
	}
	t := float64(int64(x))
	if t < x {
		t++
	}
	if t == 0 {
		return negZer // x in (-1,0)
	}
	return t
}

// mTrunc: integral part with the sign of x.
func mTrunc(x float64) float64 {
	if signbit(x) {
		return mCeil(x)
	}
	return mFloor(x)
}

// mModf: C99 modf. Integral and fractional part, both with the sign of x;
// modf(+-inf) = (+-inf, +-0).
func mModf(x float64) (ip, fp float64) {
	switch {
	case isNaN(x):
		return x, x
	case isInf(x):
		return x, withSignOf(0, x)
	}
	ip = mTrunc(x)
	fp = withSignOf(x-ip, x) // x-ip is exact
	return
}

// scaledInt returns x * 2^1074 as an integer (exact for every finite x).
func scaledInt(x float64) *big.Int {
	b := math.Float64bits(x)
	e := int(b >> 52 & 0x7ff)
	m := b & (1<<52 - 1)
	z := new(big.Int)
	if e == 0 {
		z.SetUint64(m)
	} else {
		z.SetUint64(m | 1<<52)
		z.Lsh(z, uint(e-1))
	}
	if b>>63 != 0 {
		z.Neg(z)
	}
	return z
}

// unscale returns r * 2^-1074; ok reports exactness.
func unscale(r *big.Int) (float64, bool) {
	f := new(big.Float).SetInt(r)
	f.SetMantExp(f, -1074)
	v, acc := f.Float64()
	return v, acc == big.Exact
}

// mFmod: C fmod: x - n*y with n = trunc(x/y) computed exactly; result has the sign of x.
func mFmod(x, y float64) float64 {
	switch {
	case isNaN(x) || isNaN(y) || isInf(x) || y == 0:
		return nan
	case isInf(y):
		return x
	case x == 0:
		return x
	}
	r := new(big.Int).Rem(scaledInt(x), scaledInt(y)) // truncated division: sign of the dividend
	if r.Sign() == 0 {
		return withSignOf(0, x)
	}
	v, ok := unscale(r)
	if !ok {
		panic("model: fmod result not exact")
	}
	return v
}

// mFrexp: m in [0.5,1) and e with x = m*2^e; (x,0) for zero; for inf/nan the
// exponent is unspecified (eOpen).
func mFrexp(x float64) (m float64, e int, eOpen bool) {
	switch {
	case x == 0:
		return x, 0, false
	case isNaN(x) || isInf(x):
		return x, 0, true
	}
	m = x
	for mAbs(m) >= 1 {
		m /= 2 // exact: the result is >= 0.5
		e++
	}
	for mAbs(m) < 0.5 {
		m *= 2 // exact
		e--
	}
	return m, e, false
}

// mLdexp: x * 2^e with a single rounding to nearest-even (incl. the subnormal range).
func mLdexp(x float64, e int) float64 {
	if isNaN(x) || isInf(x) || x == 0 {
		return x
	}
	f := new(big.Float).SetFloat64(x)
	if e > 5000 {
		e = 5000
	}
	if e < -5000 {
		e = -5000
	}
	f.SetMantExp(f, e)
	v, _ := f.Float64()
	return v
}

func bigF(x float64) *big.Float { return new(big.Float).SetPrec(400).SetFloat64(x) }

// sqrtOK decides "s is the correctly rounded square root of x" from the
// definition: x lies between the squares of the midpoints around s.
func sqrtOK(x, s float64) bool {
	switch {
	case isNaN(x) || x < 0:
		return isNaN(s)
	case x == 0:
		return s == 0 && signbit(s) == signbit(x)
	case isInf(x):
		return s == inf
	}
	if !(s > 0) || isInf(s) {
		return false
	}
	two := big.NewFloat(2)
	lo := bigF(s)
	lo.Add(lo, bigF(math.Nextafter(s, 0)))
	lo.Quo(lo, two)
	hi := bigF(s)
	hi.Add(hi, bigF(math.Nextafter(s, inf)))
	hi.Quo(hi, two)
	lo.Mul(lo, lo)
	hi.Mul(hi, hi)
	bx := bigF(x)
	return lo.Cmp(bx) <= 0 && bx.Cmp(hi) <= 0
}

var bigPi, _ = new(big.Float).SetPrec(400).SetString("3.14159265358979323846264338327950288419716939937510582097494459230781640628620899862803482534211706798214808651")

// ordered maps a float64 to an integer that is monotone in the value, for ulp distances.
func ordered(x float64) int64 {
	b := int64(math.Float64bits(x))
	if b < 0 {
		return math.MinInt64 - b
	}
	return b
}

func ulpDist(a, b float64) uint64 {
	oa, ob := ordered(a), ordered(b)
	if oa > ob {
		return uint64(oa - ob)
	}
	return uint64(ob - oa)
}

// degRadOK: got is within 3 ulp of the exact x*180/pi (deg) or x*pi/180 (rad).
// This admits every usual evaluation order (x*180/pi, x/(pi/180), x*(180/pi)),
// but not an intermediate overflow when the exact result is representable.
func degRadOK(x, got float64, deg bool) (bool, float64) {
	switch {
	case isNaN(x):
		return isNaN(got), nan
	case isInf(x) || x == 0:
		return got == x && signbit(got) == signbit(x), x
	}
	e := bigF(x)
	if deg {
		e.Mul(e, big.NewFloat(180))
		e.Quo(e, bigPi)
	} else {
		e.Mul(e, bigPi)
		e.Quo(e, big.NewFloat(180))
	}
	want, _ := e.Float64()
	if isNaN(got) {
		return false, want
	}
	if isInf(want) {
		return got == want || ulpDist(got, withSignOf(math.MaxFloat64, want)) <= 3, want
	}
	if isInf(got) {
		return got == withSignOf(inf, want) && ulpDist(want, withSignOf(math.MaxFloat64, want)) <= 3, want
	}
	if want == 0 || got == 0 {
		// underflow region: 3 ulp of the subnormal grid
		return ulpDist(got, want) <= 3 || (got == 0 && mAbs(want) <= 3*5e-324) || (want == 0 && mAbs(got) <= 3*5e-324), want
	}
	return ulpDist(got, want) <= 3, want
}

func isOddInt(y float64) bool {
	if isNaN(y) || isInf(y) || mAbs(y) >= 2*two52 || y != mTrunc(y) {
		return false
	}
	return int64(y)%2 != 0
}

// powSpecial: the special cases of C99 Annex F.9.4.4 / IEEE 754-2008 pow.
func powSpecial(x, y float64) (float64, bool) {
	switch {
	case y == 0:
		return 1, true
	case x == 1:
		return 1, true
	case isNaN(x) || isNaN(y):
		return nan, true
	case x == 0:
		switch {
		case y < 0 && isOddInt(y):
			return withSignOf(inf, x), true
		case y < 0:
			return inf, true
		case isOddInt(y):
			return x, true
		}
		return 0, true
	case isInf(y):
		ax := mAbs(x)
		switch {
		case ax == 1:
			return 1, true
		case (ax < 1) == (y < 0):
			return inf, true
		}
		return 0, true
	case isInf(x):
		if x < 0 {
			switch {
			case y < 0 && isOddInt(y):
				return negZer, true
			case y < 0:
				return 0, true
			case isOddInt(y):
				return negInf, true
			}
			return inf, true
		}
		if y < 0 {
			return 0, true
		}
		return inf, true
	case x < 0 && y != mTrunc(y):
		return nan, true
	}
	return 0, false
}

// powIntExact: for integral |y| <= 64 the exact x^y (400+ bits), rounded once.
func powIntExact(x, y float64) (float64, bool) {
	if isNaN(x) || isInf(x) || x == 0 || y != mTrunc(y) || mAbs(y) > 64 {
		return 0, false
	}
	n := int(mAbs(y))
	r := new(big.Float).SetPrec(4000).SetInt64(1)
	bx := new(big.Float).SetPrec(4000).SetFloat64(x)
	for i := 0; i < n; i++ {
		r.Mul(r, bx)
	}
	if y < 0 {
		r.Quo(new(big.Float).SetPrec(4000).SetInt64(1), r)
	}
	v, _ := r.Float64()
	return v, true
}

// relClose: |a-b| <= tol*|b| for finite non-zero b (wrapper-identity checks only).
func relClose(a, b, tol float64) bool {
	if isNaN(a) || isNaN(b) {
		return isNaN(a) && isNaN(b)
	}
	if isInf(a) || isInf(b) || b == 0 {
		return a == b
	}
	return mAbs(a-b) <= tol*mAbs(b)
}
