package c15

import (
	"fmt"
	"math"
	"strconv"

	lua "github.com/yuin/gopher-lua"

	"verif/internal/fw"
	"verif/internal/gl"
	"verif/internal/refl/lstr"
)

const maxPos = 1 << 53

// subject returns the bytes of a string argument (numbers are accepted where
// number->text is unambiguous).
func subject(args []Val, i int) ([]byte, string, bool) {
	if i >= len(args) || args[i].IsNil() {
		return nil, "", false // missing: a Lua error is required
	}
	switch args[i].T {
	case "s":
		return args[i].S, "", true
	case "n":
		if t, ok := lstr.Num2Str(args[i].F()); ok {
			return []byte(t), "", true
		}
		return nil, "number-to-text-is-C16", true
	}
	return nil, "non-string-subject", true
}

// intArg reads an optional integral argument. present=false for nil/omitted.
func intArg(args []Val, i int) (v int64, present bool, open string) {
	if i >= len(args) || args[i].IsNil() {
		return 0, false, ""
	}
	if !args[i].IsNum() {
		return 0, true, "non-number-position"
	}
	f := args[i].F()
	if isNaN(f) || f != mTrunc(f) || mAbs(f) > maxPos {
		return 0, true, "non-integral-or-huge-integer-argument"
	}
	return int64(f), true, ""
}

func numsToVals(xs []int) []Val {
	out := make([]Val, len(xs))
	for i, x := range xs {
		out[i] = inum(int64(x))
	}
	return out
}

func truthy(v Val) bool { return !(v.IsNil() || (v.T == "b" && v.B == 0)) }

func oracle(cs *Case) expect {
	a := cs.Args
	switch cs.Fn {
	case "string.sub":
		s, open, ok := subject(a, 0)
		if !ok {
			return expect{err: true, desc: "string expected"}
		}
		i, hasI, o1 := intArg(a, 1)
		j, hasJ, o2 := intArg(a, 2)
		if !hasI {
			return expect{err: true, desc: "bad argument #2 (number expected)"}
		}
		if open != "" || o1 != "" || o2 != "" {
			return expect{open: open + o1 + o2}
		}
		if !hasJ {
			j = -1
		}
		r := lstr.Sub(s, i, j)
		ex := exact(str(r))
		ex.class = map[bool]string{true: "empty", false: "non-empty"}[len(r) == 0]
		return ex
	case "string.byte":
		s, open, ok := subject(a, 0)
		if !ok {
			return expect{err: true, desc: "string expected"}
		}
		i, hasI, o1 := intArg(a, 1)
		j, hasJ, o2 := intArg(a, 2)
		if open != "" || o1 != "" || o2 != "" {
			return expect{open: open + o1 + o2}
		}
		r := lstr.Byte(s, hasI, i, hasJ, j)
		ex := exact(numsToVals(r)...)
		switch len(r) {
		case 0:
			ex.class = "0 values"
		case 1:
			ex.class = "1 value"
		default:
			ex.class = ">=2 values"
		}
		return ex
	case "string.find":
		s, open, ok := subject(a, 0)
		p, open2, ok2 := subject(a, 1)
		if !ok || !ok2 {
			return expect{err: true, desc: "string expected"}
		}
		init, hasInit, o3 := intArg(a, 2)
		if open != "" || open2 != "" || o3 != "" {
			return expect{open: open + open2 + o3}
		}
		explicit := len(a) > 3 && truthy(a[3])
		if !explicit {
			if lstr.HasSpecial(p) {
				return expect{open: "pattern-matching-is-C14"}
			}
			for _, b := range p {
				if b == 0 {
					return expect{open: "pattern-with-embedded-NUL"}
				}
				if b == ')' {
					// not in lstrlib's SPECIALS (5.1 searches it plainly) but malformed as a pattern
					return expect{open: "pattern-matching-is-C14"}
				}
			}
		}
		st, en, found := lstr.FindPlain(s, p, hasInit, init)
		if !found {
			ex := exact(nilv())
			ex.class = "no match"
			return ex
		}
		ex := exact(inum(st), inum(en))
		ex.class = "match"
		return ex
	case "string.len":
		s, open, ok := subject(a, 0)
		if !ok {
			return expect{err: true}
		}
		if open != "" {
			return expect{open: open}
		}
		return exact(inum(int64(len(s))))
	case "string.reverse", "string.upper", "string.lower":
		s, open, ok := subject(a, 0)
		if !ok {
			return expect{err: true}
		}
		if open != "" {
			return expect{open: open}
		}
		switch cs.Fn {
		case "string.reverse":
			return exact(str(lstr.Reverse(s)))
		case "string.upper":
			return exact(str(lstr.Upper(s)))
		}
		return exact(str(lstr.Lower(s)))
	case "string.rep":
		s, open, ok := subject(a, 0)
		if !ok {
			return expect{err: true}
		}
		n, hasN, o1 := intArg(a, 1)
		if !hasN {
			return expect{err: true, desc: "bad argument #2 (number expected)"}
		}
		if open != "" || o1 != "" {
			return expect{open: open + o1}
		}
		if n > 0 && int64(len(s))*n > 1<<24 {
			return expect{open: "result-too-large-for-the-harness"}
		}
		return exact(str(lstr.Rep(s, n)))
	case "string.char":
		out := []byte{}
		for k := range a {
			v, has, o := intArg(a, k)
			if !has {
				return expect{err: true, desc: "number expected"}
			}
			if o != "" {
				return expect{open: o}
			}
			if v < 0 || v > 255 {
				// lstrlib: luaL_argcheck(uchar(c) == c, "invalid value"); no character has this code
				return expect{err: true, desc: fmt.Sprintf("argument #%d = %d is not a character code (lstrlib: 'invalid value')", k+1, v)}
			}
			out = append(out, byte(v))
		}
		return exact(str(out))
	case "string.format":
		return oracleFormat(cs)
	}
	return oracleMath(cs)
}

// ---- string.format ----

func fargOf(v Val) (lstr.FArg, bool) {
	switch v.T {
	case "s":
		return lstr.FArg{IsStr: true, S: v.S}, true
	case "n":
		return lstr.FArg{N: v.F()}, true
	}
	return lstr.FArg{}, false
}

func oracleFormat(cs *Case) expect {
	type segAlt struct{ alts [][]byte }
	var segs []segAlt
	ai := 0
	needErr, info := false, false
	open := ""
	for _, s := range cs.Fmt {
		switch {
		case s.D != nil:
			if ai >= len(cs.Args) {
				return expect{open: "missing-format-argument"}
			}
			if nf := len(s.D.Flags); nf > 5 || (nf == 5 && s.D.Width == 0) {
				// scanformat: "invalid format (repeated flags)"; a width of 0 reads as a sixth flag character
				return expect{open: "more-than-5-flag-characters"}
			}
			fa, ok := fargOf(cs.Args[ai])
			ai++
			if !ok {
				return expect{open: "non-string-non-number-format-argument"}
			}
			o := lstr.Render(*s.D, fa)
			if o.Info {
				info = true
			}
			switch {
			case o.Open != "":
				if open == "" {
					open = o.Open
				}
			case o.Err:
				needErr = true
			default:
				segs = append(segs, segAlt{o.Alts})
			}
		case s.P:
			segs = append(segs, segAlt{[][]byte{{'%'}}})
		default:
			segs = append(segs, segAlt{[][]byte{s.L}})
		}
	}
	if open != "" {
		return expect{open: open}
	}
	if needErr {
		return expect{err: true, info: info, desc: "an argument of a numeric conversion is not convertible to a number"}
	}
	desc := ""
	for _, sg := range segs {
		desc += string(sg.alts[0])
	}
	desc = strconv.QuoteToASCII(desc)
	nalt := 1
	for _, sg := range segs {
		nalt *= len(sg.alts)
	}
	if nalt > 1 {
		desc += fmt.Sprintf(" (or one of %d implementation-defined variants)", nalt-1)
	}
	return expect{info: info, desc: fw.Short(desc, 400), pred: func(got []Val) string {
		if len(got) != 1 || got[0].T != "s" {
			return "one string result expected"
		}
		g := got[0].S
		// positions of g reachable after each segment
		reach := map[int]bool{0: true}
		for _, sg := range segs {
			next := map[int]bool{}
			for p := range reach {
				for _, alt := range sg.alts {
					if len(g)-p >= len(alt) && string(g[p:p+len(alt)]) == string(alt) {
						next[p+len(alt)] = true
					}
				}
			}
			reach = next
			if len(reach) == 0 {
				return "mismatch"
			}
		}
		if reach[len(g)] {
			return ""
		}
		return "mismatch"
	}}
}

// ---- math ----

var kernels1 = map[string]func(float64) float64{
	"math.exp": math.Exp, "math.log": math.Log, "math.log10": math.Log10,
	"math.sin": math.Sin, "math.cos": math.Cos, "math.tan": math.Tan,
	"math.asin": math.Asin, "math.acos": math.Acos, "math.atan": math.Atan,
	"math.sinh": math.Sinh, "math.cosh": math.Cosh, "math.tanh": math.Tanh,
}

// known values, independent of Go's math package (decimal expansions from tables)
type kv struct {
	fn   string
	args []float64
	want float64
}

var knownValues = []kv{
	{"math.exp", []float64{1}, 2.718281828459045235},
	{"math.exp", []float64{-1}, 0.367879441171442322},
	{"math.exp", []float64{10}, 22026.4657948067165},
	{"math.log", []float64{10}, 2.30258509299404568},
	{"math.log", []float64{2}, 0.693147180559945309},
	{"math.log", []float64{0.5}, -0.693147180559945309},
	{"math.log10", []float64{1000}, 3},
	{"math.log10", []float64{2}, 0.301029995663981195},
	{"math.log10", []float64{0.001}, -3},
	{"math.sin", []float64{1}, 0.841470984807896507},
	{"math.sin", []float64{-2}, -0.909297426825681695},
	{"math.cos", []float64{1}, 0.540302305868139717},
	{"math.cos", []float64{2}, -0.416146836547142387},
	{"math.tan", []float64{1}, 1.55740772465490223},
	{"math.tan", []float64{-0.5}, -0.546302489843790513},
	{"math.asin", []float64{0.5}, 0.523598775598298873},
	{"math.asin", []float64{-1}, -1.57079632679489662},
	{"math.acos", []float64{0.5}, 1.04719755119659775},
	{"math.acos", []float64{-1}, 3.14159265358979324},
	{"math.atan", []float64{1}, 0.785398163397448310},
	{"math.atan", []float64{-2}, -1.10714871779409050},
	{"math.sinh", []float64{1}, 1.17520119364380146},
	{"math.sinh", []float64{-2}, -3.62686040784701877},
	{"math.cosh", []float64{1}, 1.54308063481524378},
	{"math.cosh", []float64{-2}, 3.76219569108363146},
	{"math.tanh", []float64{1}, 0.761594155955764888},
	{"math.tanh", []float64{-0.5}, -0.462117157260009758},
	{"math.atan2", []float64{1, 2}, 0.463647609000806116},
	{"math.atan2", []float64{2, 1}, 1.10714871779409050},
	{"math.atan2", []float64{1, -1}, 2.35619449019234493},
	{"math.atan2", []float64{-1, 1}, -0.785398163397448310},
	{"math.atan2", []float64{-1, -2}, -2.67794504458898712},
	{"math.pow", []float64{2, 10}, 1024},
	{"math.pow", []float64{10, 2}, 100},
	{"math.pow", []float64{2, 0.5}, 1.41421356237309505},
	{"math.pow", []float64{0.5, 2}, 0.25},
	{"math.pow", []float64{2, -2}, 0.25},
	{"op.pow", []float64{2, 10}, 1024},
	{"op.pow", []float64{10, 2}, 100},
	{"op.pow", []float64{2, 0.5}, 1.41421356237309505},
	{"op.pow", []float64{2, -2}, 0.25},
	{"math.sqrt", []float64{2}, 1.41421356237309505},
	{"math.deg", []float64{1}, 57.2957795130823209},
	{"math.rad", []float64{1}, 0.0174532925199432958},
	{"math.fmod", []float64{7, 3}, 1},
	{"math.fmod", []float64{-7, 3}, -1},
	{"math.fmod", []float64{7, -3}, 1},
	{"math.fmod", []float64{3, 7}, 3},
	{"math.ldexp", []float64{3, 4}, 48},
	{"math.ldexp", []float64{4, 3}, 32},
}

func knownValue(fn string, args []float64) (float64, bool) {
	for _, k := range knownValues {
		if k.fn != fn || len(k.args) != len(args) {
			continue
		}
		same := true
		for i := range args {
			if args[i] != k.args[i] {
				same = false
			}
		}
		if same {
			return k.want, true
		}
	}
	return 0, false
}

func numArgs(a []Val, n int) ([]float64, *expect) {
	out := make([]float64, 0, n)
	for i := 0; i < n; i++ {
		if i >= len(a) || a[i].IsNil() {
			return nil, &expect{err: true, desc: fmt.Sprintf("bad argument #%d (number expected, got no value)", i+1)}
		}
		if !a[i].IsNum() {
			return nil, &expect{open: "non-number-math-argument"}
		}
		out = append(out, a[i].F())
	}
	return out, nil
}

func oneNum(f float64) expect { return exact(Val{T: "n", B: math.Float64bits(f)}) }

func predNum(desc string, f func(g float64) string) expect {
	return expect{desc: desc, pred: func(got []Val) string {
		if len(got) != 1 || got[0].T != "n" {
			return "one number expected"
		}
		return f(got[0].F())
	}}
}

func oracleMath(cs *Case) expect {
	a := cs.Args
	fn := cs.Fn
	if k, ok := kernels1[fn]; ok {
		x, e := numArgs(a, 1)
		if e != nil {
			return *e
		}
		want := k(x[0])
		if kvv, ok := knownValue(fn, x); ok {
			return predNum(fmt.Sprintf("%s (table value %s)", gl.NumStr(want), gl.NumStr(kvv)), func(g float64) string {
				if math.Float64bits(g) != math.Float64bits(want) {
					return "differs from the kernel"
				}
				if !relClose(g, kvv, 1e-13) {
					return "differs from the table value"
				}
				return ""
			})
		}
		return oneNum(want)
	}
	switch fn {
	case "math.floor", "math.ceil", "math.abs":
		x, e := numArgs(a, 1)
		if e != nil {
			return *e
		}
		switch fn {
		case "math.floor":
			return oneNum(mFloor(x[0]))
		case "math.ceil":
			return oneNum(mCeil(x[0]))
		}
		return oneNum(mAbs(x[0]))
	case "math.sqrt":
		x, e := numArgs(a, 1)
		if e != nil {
			return *e
		}
		kvv, hasKV := knownValue(fn, x)
		return predNum("the correctly rounded square root (x between the squared midpoints around the result)", func(g float64) string {
			if !sqrtOK(x[0], g) {
				return "not the correctly rounded root"
			}
			if hasKV && !relClose(g, kvv, 1e-13) {
				return "differs from the table value"
			}
			return ""
		})
	case "math.deg", "math.rad":
		x, e := numArgs(a, 1)
		if e != nil {
			return *e
		}
		_, want := degRadOK(x[0], 0, fn == "math.deg")
		return predNum(gl.NumStr(want)+" within 3 ulp", func(g float64) string {
			if ok, _ := degRadOK(x[0], g, fn == "math.deg"); !ok {
				return "more than 3 ulp from the exact value"
			}
			return ""
		})
	case "math.modf":
		x, e := numArgs(a, 1)
		if e != nil {
			return *e
		}
		ip, fp := mModf(x[0])
		return exact(num(ip), num(fp))
	case "math.frexp":
		x, e := numArgs(a, 1)
		if e != nil {
			return *e
		}
		m, ex, eOpen := mFrexp(x[0])
		if !eOpen {
			return exact(num(m), inum(int64(ex)))
		}
		return expect{desc: gl.NumStr(m) + " and an unspecified exponent", pred: func(got []Val) string {
			if len(got) != 2 || !valEq(got[0], num(m)) || got[1].T != "n" {
				return "mantissa differs"
			}
			return ""
		}}
	case "math.ldexp":
		x, e := numArgs(a, 2)
		if e != nil {
			return *e
		}
		if x[1] != mTrunc(x[1]) || mAbs(x[1]) > 2147483647 || isNaN(x[1]) {
			return expect{open: "non-integral-or-huge-integer-argument"}
		}
		return oneNum(mLdexp(x[0], int(x[1])))
	case "math.fmod":
		x, e := numArgs(a, 2)
		if e != nil {
			return *e
		}
		return oneNum(mFmod(x[0], x[1]))
	case "math.atan2":
		x, e := numArgs(a, 2)
		if e != nil {
			return *e
		}
		want := math.Atan2(x[0], x[1])
		if kvv, ok := knownValue(fn, x); ok {
			return predNum(gl.NumStr(kvv), func(g float64) string {
				if math.Float64bits(g) != math.Float64bits(want) || !relClose(g, kvv, 1e-13) {
					return "differs from the kernel / table value"
				}
				return ""
			})
		}
		return oneNum(want)
	case "math.pow", "op.pow":
		x, e := numArgs(a, 2)
		if e != nil {
			return *e
		}
		want := math.Pow(x[0], x[1])
		sp, hasSp := powSpecial(x[0], x[1])
		ie, hasIE := powIntExact(x[0], x[1])
		kvv, hasKV := knownValue(fn, x)
		return predNum(gl.NumStr(want), func(g float64) string {
			if !valEq(num(g), num(want)) {
				return "differs from the kernel"
			}
			if hasSp && !valEq(num(g), num(sp)) {
				return "C99 F.9.4.4 special case gives " + gl.NumStr(sp)
			}
			if hasIE && !hasSp && !relClose(g, ie, 1e-13) && !(mAbs(ie) < 1e-300 && mAbs(g) < 1e-300) {
				return "exact integer power is " + gl.NumStr(ie)
			}
			if hasKV && !relClose(g, kvv, 1e-13) {
				return "differs from the table value"
			}
			return ""
		})
	case "math.max", "math.min":
		if len(a) == 0 {
			return expect{err: true, desc: "number expected, got no value"}
		}
		x, e := numArgs(a, len(a))
		if e != nil {
			return *e
		}
		best := x[0]
		for _, v := range x {
			if isNaN(v) {
				return expect{open: "NaN-argument-of-max/min"}
			}
			if fn == "math.max" && v > best || fn == "math.min" && v < best {
				best = v
			}
		}
		return predNum(gl.NumStr(best), func(g float64) string {
			if g != best {
				return "not the extreme of the arguments"
			}
			return ""
		})
	}
	return expect{open: "function-not-in-the-statement"}
}

// runRandom: math.random(), random(n), random(m,n) drawn cs.N times.
func runRandom(e *env, cs *Case) verdict {
	v := verdict{}
	var lo, hi float64
	lo, hi = 0, 1
	wantErr := false
	switch len(cs.Args) {
	case 0:
	case 1:
		lo, hi = 1, cs.Args[0].F()
	default:
		lo, hi = cs.Args[0].F(), cs.Args[1].F()
	}
	for _, a := range cs.Args {
		f := a.F()
		if !a.IsNum() || f != mTrunc(f) || mAbs(f) > 2147483647 {
			v.open = "non-integral-or-huge-integer-argument"
		}
	}
	if len(cs.Args) > 0 && lo > hi {
		wantErr = true // "interval is empty"
	}
	var args []lua.LValue
	for _, a := range cs.Args {
		args = append(args, toLValue(a))
	}
	n := cs.N
	if n <= 0 {
		n = 1
	}
	fail := func(format string, a ...any) verdict {
		v.viol = cs.String() + ": " + fmt.Sprintf(format, a...)
		v.finding = e.matchFinding(cs)
		return v
	}
	seen := map[float64]bool{}
	for k := 0; k < n; k++ {
		res, o := gl.Call(e.L, e.fns["math.random"], args...)
		if o.GoPanic != nil {
			return fail("a Go panic escaped CallByParam: %s", o.PanicStr)
		}
		if o.Err != nil {
			v.got = "error: " + fw.Short(o.Err.Error(), 200)
			if gl.IsGoRuntimeErrorText(o.Err.Error()) {
				return fail("a Go run-time fault surfaced as the error: %s", o.Err.Error())
			}
			if wantErr || v.open != "" {
				v.class = "lua-error(expected)"
				return v
			}
			return fail("raised %q on a non-empty interval", fw.Short(o.Err.Error(), 200))
		}
		if len(res) != 1 || res[0].Type() != lua.LTNumber {
			return fail("returned %d values", len(res))
		}
		g := float64(res[0].(lua.LNumber))
		v.got = gl.NumStr(g)
		if v.open != "" {
			continue
		}
		if wantErr {
			return fail("returned %s for an empty interval (lstrlib: 'interval is empty')", gl.NumStr(g))
		}
		if len(cs.Args) == 0 {
			if !(g >= 0 && g < 1) {
				return fail("draw %d = %s is outside [0,1)", k, gl.NumStr(g))
			}
		} else if !(g >= lo && g <= hi) || g != mTrunc(g) {
			return fail("draw %d = %s is not an integer in [%s,%s]", k, gl.NumStr(g), gl.NumStr(lo), gl.NumStr(hi))
		}
		seen[g] = true
	}
	v.class = "in-range"
	if len(cs.Args) > 0 && hi-lo < 8 && n >= 400 && v.open == "" && !wantErr {
		// evidence only: did the draws reach both ends?
		if seen[lo] && seen[hi] {
			v.class = "in-range, both ends drawn"
		}
	}
	return v
}
