package c15

import (
	"math"
	"math/rand"

	"verif/internal/fw"
	"verif/internal/refl/lstr"
)

// ---- enumeration helpers ----

// allStrings calls f for every string over alpha of length 0..maxLen, in a fixed order.
func allStrings(alpha []byte, maxLen int, f func(s []byte)) {
	var rec func(prefix []byte, left int)
	for n := 0; n <= maxLen; n++ {
		rec = func(prefix []byte, left int) {
			if left == 0 {
				f(append([]byte{}, prefix...))
				return
			}
			for _, b := range alpha {
				rec(append(prefix, b), left-1)
			}
		}
		rec(nil, n)
	}
}

// posOpt is one way of supplying an optional position argument.
type posOpt struct {
	kind int // 0 value, 1 explicit nil, 2 omitted
	v    int64
}

func window(n int) []posOpt {
	var out []posOpt
	for v := -n - 2; v <= n+2; v++ {
		out = append(out, posOpt{0, int64(v)})
	}
	return append(out, posOpt{kind: 1}, posOpt{kind: 2})
}

// buildArgs appends optional arguments; ok=false when an omitted argument
// would be followed by a supplied one (not expressible in a call).
func buildArgs(head []Val, opts ...any) ([]Val, bool) {
	args := append([]Val{}, head...)
	omitted := false
	for _, o := range opts {
		switch x := o.(type) {
		case posOpt:
			switch x.kind {
			case 2:
				omitted = true
				continue
			case 1:
				if omitted {
					return nil, false
				}
				args = append(args, nilv())
			default:
				if omitted {
					return nil, false
				}
				args = append(args, inum(x.v))
			}
		case Val:
			if omitted {
				return nil, false
			}
			args = append(args, x)
		case nil:
			omitted = true
		}
	}
	return args, true
}

type runner struct {
	sink func(cs *Case) // what to do with a case (the workload: do)
	rnd  *rand.Rand
	own  func(i int) bool // shard ownership of a global index
	idx  int              // global index over the exhaustive spaces
}

// mine advances the global index and reports whether this shard owns the case.
func (r *runner) mine() bool {
	i := r.idx
	r.idx++
	return r.own(i)
}

func (r *runner) ex(fn string, args []Val) {
	if r.mine() {
		r.sink(&Case{Fn: fn, Args: args})
	}
}

// ---- exhaustive: positions ----

func (r *runner) positions(alpha []byte, maxLen int) {
	var needles [][]byte
	allStrings(alpha, 2, func(p []byte) { needles = append(needles, p) })
	plainOpts := []any{nil, boolv(true), boolv(false)}
	allStrings(alpha, maxLen, func(s []byte) {
		w := window(len(s))
		sv := str(s)
		for _, i := range w {
			for _, j := range w {
				if args, ok := buildArgs([]Val{sv}, i, j); ok {
					r.ex("string.sub", args)
					r.ex("string.byte", args)
				}
			}
		}
		for _, p := range needles {
			pv := str(p)
			for _, in := range w {
				for _, pl := range plainOpts {
					if args, ok := buildArgs([]Val{sv, pv}, in, pl); ok {
						r.ex("string.find", args)
					}
				}
			}
		}
	})
}

// plain find over the pattern specials: plain=true must switch them off.
func (r *runner) specials(alpha []byte, maxLen int) {
	var needles [][]byte
	allStrings(alpha, 2, func(p []byte) { needles = append(needles, p) })
	allStrings(alpha, maxLen, func(s []byte) {
		for _, p := range needles {
			for _, in := range window(len(s)) {
				if args, ok := buildArgs([]Val{str(s), str(p)}, in, boolv(true)); ok {
					r.ex("string.find", args)
					if len(args) == 4 {
						// a surplus fifth argument is dropped like any surplus argument: plain stays in force
						r.ex("string.find", append(append([]Val{}, args...), str([]byte("surplus"))))
					}
				}
			}
		}
	})
}

// ---- exhaustive: all 256 bytes ----

func (r *runner) allBytes() {
	for b := 0; b < 256; b++ {
		s1 := str([]byte{byte(b)})
		s3 := str([]byte{byte(b), 'a', byte(b)})
		s2 := str([]byte{byte(b), byte(b ^ 0xff)})
		for _, s := range []Val{s1, s2, s3} {
			for _, fn := range []string{"string.upper", "string.lower", "string.reverse", "string.len"} {
				r.ex(fn, []Val{s})
			}
			for _, n := range []int64{-1, 0, 1, 3} {
				r.ex("string.rep", []Val{s, inum(n)})
			}
			r.ex("string.byte", []Val{s})
			r.ex("string.byte", []Val{s, inum(1)})
			r.ex("string.byte", []Val{s, inum(-1)})
			r.ex("string.byte", []Val{s, inum(1), inum(-1)})
			r.ex("string.sub", []Val{s, inum(1), inum(1)})
			r.ex("string.sub", []Val{s, inum(-1)})
			r.ex("string.find", []Val{strs("xx" + string(s.S) + "yy"), s, inum(1), boolv(true)})
		}
		r.ex("string.char", []Val{inum(int64(b))})
		r.ex("string.char", []Val{inum(int64(b)), inum(int64(255 - b)), inum(0)})
	}
	for _, v := range []int64{-256, -129, -128, -2, -1, 256, 257, 511, 512, 65536, 1 << 31, 1 << 32} {
		r.ex("string.char", []Val{inum(v)})
		r.ex("string.char", []Val{inum(65), inum(v)})
	}
	r.ex("string.char", nil)
	// required arguments missing; number subjects
	for _, fn := range []string{"string.sub", "string.byte", "string.find", "string.len", "string.rep", "string.reverse", "string.upper", "string.lower"} {
		r.ex(fn, nil)
	}
	r.ex("string.sub", []Val{strs("abc")})
	r.ex("string.sub", []Val{strs("abc"), nilv(), inum(2)})
	r.ex("string.rep", []Val{strs("abc")})
	r.ex("string.find", []Val{strs("abc")})
	r.ex("string.len", []Val{inum(12345)})
	r.ex("string.rep", []Val{inum(5), inum(3)})
	r.ex("string.sub", []Val{inum(12345), inum(2), inum(3)})
	r.ex("string.byte", []Val{inum(12345), inum(2), inum(3)})
	r.ex("string.upper", []Val{inum(-7)})
	r.ex("string.reverse", []Val{inum(120)})
	r.ex("string.find", []Val{inum(12345), inum(34), inum(1), boolv(true)})
	r.ex("string.find", []Val{strs("abc"), strs("b"), inum(1), inum(0)})  // 0 is true in Lua
	r.ex("string.find", []Val{strs("a.c"), strs("."), inum(1), strs("")}) // so is ""
}

// ---- exhaustive: format directives ----

var fmtConvs = []string{"d", "i", "c", "x", "X", "o", "e", "E", "f", "s", "g", "G", "u"}
var fmtWidths = []int{-1, 0, 1, 5, 20}
var fmtPrecs = []int{-1, -2, 0, 1, 5, 20}

func flagSubsets() []string {
	var out []string
	const fl = "-+ #0"
	for m := 0; m < 32; m++ {
		s := ""
		for k := 0; k < 5; k++ {
			if m>>k&1 != 0 {
				s += string(fl[k])
			}
		}
		out = append(out, s)
	}
	return out
}

var long120 = func() []byte {
	b := make([]byte, 120)
	for i := range b {
		b[i] = byte('a' + i%26)
	}
	return b
}()

func fmtArgPool() []Val {
	return []Val{
		num(0), num(1), num(-1), num(255), num(256), num(2147483648), num(9007199254740991),
		num(0.5), num(-0.5), num(1e-7), num(1e15), num(1e300), num(5e-324), num(negZer),
		num(65), num(97), num(127), num(128), num(200), num(-56), num(1234567), num(-1234567), num(2.5), num(0.125), num(1e100),
		num(9.5), num(-9.96), num(inf), num(negInf), num(nan),
		strs(""), strs("a"), strs("hello"), strs("a\x00b"), strs("10"), strs("-3"), strs("0x10"), strs(" 7 "), strs("1e2"), strs("0.5"),
		strs("abc"), strs("hello world, this is longer than twenty"), str(long120), strs("\xe9\xff\x80"), strs("%d%s%%"),
	}
}

func (r *runner) formatDirectives() {
	pool := fmtArgPool()
	flags := flagSubsets()
	for _, conv := range fmtConvs {
		for _, fl := range flags {
			for _, w := range fmtWidths {
				for _, p := range fmtPrecs {
					for _, a := range pool {
						if r.mine() {
							sp := lstr.Spec{Flags: fl, Width: w, Prec: p, Conv: conv}
							r.sink(&Case{Fn: "string.format", Fmt: []Seg{{D: &sp}}, Args: []Val{a}})
						}
					}
				}
			}
		}
	}
	// %% and literals alone, extra arguments
	for _, a := range [][]Val{nil, {num(1)}, {strs("x"), num(2)}} {
		r.ex2(&Case{Fn: "string.format", Fmt: []Seg{{P: true}}, Args: a})
		r.ex2(&Case{Fn: "string.format", Fmt: []Seg{{L: []byte("plain text \x00\xff")}}, Args: a})
		r.ex2(&Case{Fn: "string.format", Fmt: nil, Args: a})
		r.ex2(&Case{Fn: "string.format", Fmt: []Seg{{P: true}, {P: true}, {L: []byte("d")}}, Args: a})
	}
}

func (r *runner) ex2(cs *Case) {
	if r.mine() {
		r.sink(cs)
	}
}

// ---- exhaustive: math special-value pool ----

func mathPool() []float64 {
	p := []float64{
		0, negZer, 5e-324, -5e-324, 2.2250738585072014e-308, -2.2250738585072014e-308, 2.225073858507201e-308,
		1, -1, 0.5, -0.5, 1.5, -1.5, 2.5, -2.5, 0.9999999999999999, -0.9999999999999999, 1.0000000000000002,
		2, -2, 3, -3, 7, -7, 10, 100, 1000, 0.1, 1.0 / 3, -1.0 / 3, 0.001, 1e-7, 1e15, 1e100, 1e300, -1e300, 1e-300,
		two52, -two52, two52 - 0.5, two52 + 1, -(two52 - 0.5), 2 * two52, -2 * two52, 2*two52 - 1, 2*two52 + 2,
		9223372036854775808.0, -9223372036854775808.0, 4294967296, 2147483647, -2147483648,
		math.MaxFloat64, -math.MaxFloat64, math.MaxFloat64 / 100, 1e308, -1e308, inf, negInf, nan,
		math.Pi, -math.Pi, math.Pi / 2, -math.Pi / 2, math.Pi / 4, math.E, 180, 90, 360, -180, 57.29577951308232,
		0.75, -0.75, 1e-320, 4.5, -4.5, 1023, 1024, -1074, -1075, 52, 53, 64, -64, 0.25,
	}
	for _, k := range []int{-1022, -537, -52, -1, 10, 31, 62, 63, 511, 1023} {
		x := math.Ldexp(1, k)
		p = append(p, math.Nextafter(x, inf), math.Nextafter(x, negInf), -x)
	}
	return p
}

var math1 = []string{"math.floor", "math.ceil", "math.abs", "math.sqrt", "math.exp", "math.log", "math.log10",
	"math.sin", "math.cos", "math.tan", "math.asin", "math.acos", "math.atan", "math.sinh", "math.cosh", "math.tanh",
	"math.deg", "math.rad", "math.modf", "math.frexp"}
var math2 = []string{"math.fmod", "math.pow", "op.pow", "math.atan2"}

func ldexpExps() []float64 {
	return []float64{0, 1, -1, 2, 10, -10, 52, 53, -52, -53, 63, 64, 1000, 1023, 1024, 1074, -1021, -1022, -1023, -1074, -1075, -1076, 2000, -2000, 2098, -2098, 2147483647, -2147483648}
}

func (r *runner) mathSpecials() {
	pool := mathPool()
	for _, fn := range math1 {
		for _, x := range pool {
			r.ex(fn, []Val{num(x)})
		}
		r.ex(fn, nil)                       // missing argument
		r.ex(fn, []Val{num(0.75), num(99)}) // extra argument is ignored
	}
	for _, fn := range math2 {
		for _, x := range pool {
			for _, y := range pool {
				r.ex(fn, []Val{num(x), num(y)})
			}
		}
		r.ex(fn, []Val{num(2)})
		r.ex(fn, nil)
	}
	for _, x := range pool {
		for _, e := range ldexpExps() {
			r.ex("math.ldexp", []Val{num(x), num(e)})
		}
	}
	r.ex("math.ldexp", []Val{num(1)})
	for _, fn := range []string{"math.max", "math.min"} {
		r.ex(fn, nil)
		for _, x := range pool {
			r.ex(fn, []Val{num(x)})
			for _, y := range pool {
				r.ex(fn, []Val{num(x), num(y)})
			}
		}
	}
	for _, k := range knownValues {
		var a []Val
		for _, x := range k.args {
			a = append(a, num(x))
		}
		r.ex(k.fn, a)
	}
	// math.random: empty and degenerate intervals, bounds
	rc := func(n int, args ...float64) {
		var a []Val
		for _, x := range args {
			a = append(a, num(x))
		}
		r.ex2(&Case{Fn: "math.random", Args: a, N: n})
	}
	rc(2000)
	for _, n := range []float64{1, 2, 3, 7, 100, 2147483647} {
		rc(1000, n)
	}
	for _, n := range []float64{0, -1, -100} {
		rc(3, n)
	}
	for _, mn := range [][2]float64{{1, 1}, {0, 0}, {-5, -5}, {0, 1}, {-1, 1}, {-3, 3}, {5, 9}, {-2147483648, 2147483647}, {-2147483648, -2147483647},
		{2147483646, 2147483647}, {-10, -4}, {1, 6}, {0, 255}} {
		rc(1000, mn[0], mn[1])
	}
	for _, mn := range [][2]float64{{2, 1}, {0, -1}, {10, -10}, {2147483647, -2147483648}} {
		rc(3, mn[0], mn[1])
	}
}

// ---- generated ----

func randString(r *rand.Rand, maxLen int) []byte {
	n := r.Intn(maxLen + 1)
	if r.Intn(4) == 0 {
		n = r.Intn(8)
	}
	b := make([]byte, 0, n)
	kind := r.Intn(6)
	utf := []string{"é", "ß", "ÿ", "Ā", "ı", "ſ", "K", "ǅ", "日本", "😀", "İ"}
	for len(b) < n {
		switch kind {
		case 0: // any byte
			b = append(b, byte(r.Intn(256)))
		case 1: // ASCII letters
			b = append(b, "abcxyzABCXYZ019 _"[r.Intn(17)])
		case 2: // valid UTF-8 mixed with ASCII
			if r.Intn(2) == 0 {
				b = append(b, utf[r.Intn(len(utf))]...)
			} else {
				b = append(b, byte('a'+r.Intn(26)))
			}
		case 3: // high bytes and NULs
			b = append(b, []byte{0, 0x80, 0xff, 0xc3, 0xe9, 'q', 'Q'}[r.Intn(7)])
		case 4: // runs
			c := byte(r.Intn(256))
			for k := r.Intn(6); k >= 0; k-- {
				b = append(b, c)
			}
		default: // pattern specials and letters
			b = append(b, "a.%[]-*+?^$()bB"[r.Intn(15)])
		}
	}
	if len(b) > n {
		b = b[:n]
	}
	return b
}

func randPos(r *rand.Rand, n int) int64 {
	switch r.Intn(10) {
	case 0:
		far := []int64{1 << 31, -(1 << 31), 1<<31 + 1, -(1<<31 + 1), 1 << 53, -(1 << 53), 1000, -1000, 1<<32 + 1, -(1<<32 + 1)}
		return far[r.Intn(len(far))]
	case 1:
		return int64([]int{0, 1, -1, n, -n, n + 1, -n - 1}[r.Intn(7)])
	}
	return int64(r.Intn(2*n+7) - n - 3)
}

func (r *runner) randomStrings(count int) {
	for k := 0; k < count; k++ {
		rr := r.rnd
		s := randString(rr, 300)
		sv := str(s)
		n := len(s)
		run := func(fn string, args ...Val) { r.sink(&Case{Fn: fn, Args: args}) }
		run("string.upper", sv)
		run("string.lower", sv)
		run("string.reverse", sv)
		run("string.len", sv)
		run("string.rep", sv, inum(int64(rr.Intn(9)-2)))
		if n > 0 && n <= 8 && rr.Intn(4) == 0 {
			run("string.rep", sv, inum(int64(1000+rr.Intn(1000))))
		}
		run("string.byte", sv, inum(1), inum(-1))
		i, j := randPos(rr, n), randPos(rr, n)
		run("string.byte", sv, inum(i), inum(j))
		run("string.sub", sv, inum(i), inum(j))
		run("string.sub", sv, inum(j))
		run("string.byte", sv, inum(j))
		// char round trip
		bs := make([]Val, 0, n)
		for _, b := range s {
			bs = append(bs, inum(int64(b)))
		}
		if n <= 200 {
			run("string.char", bs...)
		}
		// plain find: a substring (guaranteed hit from some init) or random bytes
		var p []byte
		if n > 0 && rr.Intn(3) != 0 {
			a := rr.Intn(n)
			p = s[a : a+rr.Intn(min(n-a, 6))+1]
		} else {
			p = randString(rr, 3)
		}
		run("string.find", sv, str(p), inum(randPos(rr, n)), boolv(true))
		run("string.find", sv, str(p), nilv(), boolv(true))
		if !lstr.HasSpecial(p) {
			run("string.find", sv, str(p), inum(randPos(rr, n)))
		}
		// a number as the subject is converted to its text: the result is a string
		// (never the number handed back), whatever part of the text is selected
		if k%6 == 0 {
			pool := []float64{0, 7, 42, 12345, -42, 1.5, -0.25, 1234567890123, 255}
			nv := num(pool[rr.Intn(len(pool))])
			pi, pj := randPos(rr, 6), randPos(rr, 6)
			run("string.sub", nv, inum(1))
			run("string.sub", nv, inum(1), inum(-1))
			run("string.sub", nv, inum(pi), inum(pj))
			run("string.sub", nv, inum(-100), inum(100))
			run("string.upper", nv)
			run("string.lower", nv)
			run("string.reverse", nv)
			run("string.len", nv)
			run("string.rep", nv, inum(int64(rr.Intn(4))))
			run("string.rep", nv, inum(1))
			run("string.byte", nv, inum(1), inum(-1))
			run("string.find", nv, strs("2"), inum(1), boolv(true))
			run("string.find", nv, num(2), inum(1), boolv(true))
		}
	}
}

func randFlags(r *rand.Rand) string {
	switch r.Intn(4) {
	case 0:
		return ""
	case 1:
		return string("-+ #0"[r.Intn(5)])
	}
	n := r.Intn(6)
	s := ""
	for i := 0; i < n; i++ {
		s += string("-+ #0"[r.Intn(5)])
	}
	return s
}

func randFmtArg(r *rand.Rand, pool []Val, conv string) Val {
	if r.Intn(3) == 0 {
		return pool[r.Intn(len(pool))]
	}
	if conv == "s" {
		if r.Intn(4) == 0 {
			return inum(int64(r.Intn(2000) - 1000))
		}
		return str(randString(r, []int{3, 12, 150}[r.Intn(3)]))
	}
	switch r.Intn(6) {
	case 0:
		return inum(int64(r.Intn(512) - 128))
	case 1:
		return inum(r.Int63n(1<<40) - 1<<39)
	case 2:
		return num(math.Ldexp(float64(r.Int63n(1<<53)), r.Intn(200)-120))
	case 3:
		return num(-math.Ldexp(float64(r.Int63n(1<<53)), r.Intn(120)-90))
	case 4:
		return num(float64(r.Intn(2000)-1000) / 8)
	}
	return num(math.Float64frombits(r.Uint64()))
}

func (r *runner) randomFormats(count int) {
	pool := fmtArgPool()
	for k := 0; k < count; k++ {
		rr := r.rnd
		cs := &Case{Fn: "string.format"}
		nseg := 1 + rr.Intn(6)
		for s := 0; s < nseg; s++ {
			switch rr.Intn(5) {
			case 0:
				lit := randString(rr, 6)
				for i := range lit {
					if lit[i] == '%' {
						lit[i] = '!'
					}
				}
				cs.Fmt = append(cs.Fmt, Seg{L: lit})
			case 1:
				cs.Fmt = append(cs.Fmt, Seg{P: true})
			default:
				conv := fmtConvs[rr.Intn(10)] // the conversions of the statement
				if rr.Intn(30) == 0 {
					conv = fmtConvs[10+rr.Intn(3)]
				}
				sp := lstr.Spec{Flags: randFlags(rr), Width: -1, Prec: -1, Conv: conv}
				if rr.Intn(2) == 0 {
					sp.Width = []int{0, 1, 2, 3, 7, 9, 10, 12, 25, 40, 99}[rr.Intn(11)]
				}
				if rr.Intn(2) == 0 {
					sp.Prec = []int{-2, 0, 1, 2, 3, 6, 10, 15, 17, 30, 99}[rr.Intn(11)]
				}
				cs.Fmt = append(cs.Fmt, Seg{D: &sp})
				cs.Args = append(cs.Args, randFmtArg(rr, pool, conv))
			}
		}
		if rr.Intn(8) == 0 { // extra arguments are ignored
			cs.Args = append(cs.Args, pool[rr.Intn(len(pool))])
		}
		r.sink(cs)
	}
}

func randFloat(r *rand.Rand, pool []float64) float64 {
	switch r.Intn(8) {
	case 0:
		return pool[r.Intn(len(pool))]
	case 1, 2:
		return math.Float64frombits(r.Uint64())
	case 3:
		return float64(r.Intn(2001) - 1000)
	case 4:
		return float64(r.Intn(4001)-2000) / 4
	case 5:
		// around a power of two, within a few ulp
		x := math.Ldexp(1, r.Intn(140)-70)
		for k := r.Intn(4); k > 0; k-- {
			x = math.Nextafter(x, []float64{inf, negInf}[r.Intn(2)])
		}
		if r.Intn(2) == 0 {
			x = -x
		}
		return x
	}
	// moderate magnitude, random mantissa
	x := math.Ldexp(1+r.Float64(), r.Intn(121)-60)
	if r.Intn(2) == 0 {
		x = -x
	}
	return x
}

func (r *runner) randomMath(count int) {
	pool := mathPool()
	exps := ldexpExps()
	for k := 0; k < count; k++ {
		rr := r.rnd
		x, y := randFloat(rr, pool), randFloat(rr, pool)
		run := func(fn string, args ...Val) { r.sink(&Case{Fn: fn, Args: args}) }
		fn := math1[k%len(math1)]
		run(fn, num(x))
		fn2 := math2[k%len(math2)]
		if rr.Intn(3) == 0 {
			// fmod/pow with related operands: small ratio, integral exponent
			y = x * float64(rr.Intn(9)-4) / float64(1+rr.Intn(7))
		}
		if (fn2 == "math.pow" || fn2 == "op.pow") && rr.Intn(2) == 0 {
			y = float64(rr.Intn(141) - 70)
			if rr.Intn(4) == 0 {
				y += 0.5
			}
		}
		run(fn2, num(x), num(y))
		e := exps[rr.Intn(len(exps))]
		if rr.Intn(2) == 0 {
			e = float64(rr.Intn(4400) - 2200)
		}
		run("math.ldexp", num(x), num(e))
		// max/min over 1..6 arguments
		na := 1 + rr.Intn(6)
		var a []Val
		for i := 0; i < na; i++ {
			v := randFloat(rr, pool)
			if isNaN(v) {
				v = 0
			}
			a = append(a, num(v))
		}
		if rr.Intn(2) == 0 {
			run("math.max", a...)
		} else {
			run("math.min", a...)
		}
		if k%50 == 0 {
			m := float64(rr.Intn(2001) - 1000)
			span := float64(rr.Intn(6))
			if rr.Intn(4) == 0 {
				span = float64(rr.Int63n(1 << 31))
			}
			r.sink(&Case{Fn: "math.random", Args: []Val{num(m), num(m + span)}, N: 500})
			r.sink(&Case{Fn: "math.random", Args: []Val{num(1 + span)}, N: 500})
		}
	}
}

// ---- the workload ----

var alphaQuick = []byte{0x00, 'a', 'Z', 0x7f, 0xe9}
var alphaThorough = []byte{0x00, 'a', 'Z', 0x7f, 0xe9, 0xc3, 0xa9, 'z'}
var alphaSpecialQ = []byte{'a', '.', '%', '['}
var alphaSpecialT = []byte{'a', '.', '%', '[', '-'}

func run(c *fw.Ctx) {
	e := newEnv()
	e.open = c.FindingOpen
	defer e.L.Close()
	r := &runner{rnd: c.R, own: c.Mine}
	r.sink = func(cs *Case) { do(c, e, cs) }
	n := workload(r, c.Quick(), c.Share)
	if c.Shard == 0 {
		c.Count("exhaustive_space_size", int64(n))
	}
}

// workload enumerates the exhaustive spaces (sharded by global index) and then
// the generated cases; it returns the size of the exhaustive part.
func workload(r *runner, quick bool, share func(int) int) int {
	pick := func(q, t int) int {
		if quick {
			return q
		}
		return t
	}
	if quick {
		r.positions(alphaQuick, 3)
		r.specials(alphaSpecialQ, 3)
	} else {
		r.positions(alphaThorough, 4)
		r.specials(alphaSpecialT, 4)
	}
	r.allBytes()
	r.formatDirectives()
	r.mathSpecials()
	n := r.idx
	r.randomStrings(share(pick(30000, 600000)))
	r.randomFormats(share(pick(300000, 8000000)))
	r.randomMath(share(pick(200000, 2000000)))
	return n
}
