package c15

import (
	"math"
	"strings"

	"verif/internal/fw"
	"verif/internal/refl/lstr"
)

// Known findings of C15 (see known_findings.d/C15.json). Every matcher is a
// predicate on the INPUT of a case (function + argument shape) that mirrors
// the root cause; a divergence of a case no predicate matches stays a VIOLATION.
const (
	fByteDefaultJ    = "C15-byte-default-j-is-end"
	fByteIZero       = "C15-byte-i-zero"
	fCaseUnicode     = "C15-upper-lower-not-bytewise"
	fFindEmptyInit   = "C15-find-empty-needle-ignores-init"
	fFindPastEnd     = "C15-find-plain-init-past-end-go-fault"
	fCharRange       = "C15-char-out-of-range-wraps"
	fFmtC            = "C15-format-c-emits-utf8"
	fFmtStrArg       = "C15-format-string-arg-not-coerced"
	fFmtInfNan       = "C15-format-inf-nan-spelling"
	fFmtSignUnsigned = "C15-format-sign-flag-on-unsigned"
	fFmtZeroPrecSign = "C15-format-zero-precision-zero-drops-sign"
	fFmtSRunes       = "C15-format-s-counts-runes"
	fFmtPctExtra     = "C15-format-percent-extra-args"
	fFmtAltForm      = "C15-format-alt-form-zero-and-padding"
	fModfInf         = "C15-modf-inf-fraction-nan"
	fDegRadOverflow  = "C15-deg-rad-intermediate-overflow"
	fPowOpNegZero    = "C15-pow-operator-loses-negative-zero"
)

func hasHigh(b []byte) bool {
	for _, c := range b {
		if c >= 0x80 {
			return true
		}
	}
	return false
}

func argInt(a []Val, i int) (int64, bool) {
	v, has, open := intArg(a, i)
	return v, has && open == ""
}

// matchDirective: the findings whose root cause one directive applied to one
// argument exercises, most specific first. A numeric string is looked at
// again as the number it converts to (it then reaches the same fmt paths).
func matchDirective(sp *lstr.Spec, a Val) []string {
	conv := sp.Conv
	numeric := strings.Contains("dicxXoeEfgGu", conv)
	var out []string
	if numeric && a.IsStr() {
		// LString.Format: %d/%i test the parse error the wrong way round, the other verbs format the Go string
		out = append(out, fFmtStrArg)
		v, st := lstr.Str2Number(a.S)
		if st != 1 {
			return out
		}
		a = num(v)
	}
	if conv == "s" && a.IsStr() && hasHigh(a.S) && (sp.Width >= 0 || sp.Prec != -1) {
		// fmt pads and truncates %s in runes, C in bytes
		return append(out, fFmtSRunes)
	}
	if !a.IsNum() {
		return out
	}
	x := a.F()
	t := mTrunc(x)
	if strings.Contains("eEfgG", conv) && (isNaN(x) || isInf(x)) {
		out = append(out, fFmtInfNan)
	}
	if conv == "c" && !(t >= 0 && t <= 127) {
		out = append(out, fFmtC)
	}
	if strings.Contains("oxX", conv) && strings.ContainsAny(sp.Flags, "+ ") {
		out = append(out, fFmtSignUnsigned)
	}
	if strings.Contains("xX", conv) && strings.Contains(sp.Flags, "#") &&
		(t == 0 || (strings.Contains(sp.Flags, "0") && !strings.Contains(sp.Flags, "-") && sp.Width >= 0 && sp.Prec == -1)) {
		// fmt writes 0x before a zero value, and zero-pads the digits to the width without counting the prefix
		out = append(out, fFmtAltForm)
	}
	if conv == "o" && strings.Contains(sp.Flags, "#") && t == 0 && (sp.Prec == 0 || sp.Prec == -2) {
		// C: "if the value and precision are both 0, a single 0 is printed"
		out = append(out, fFmtAltForm)
	}
	if (conv == "d" || conv == "i") && (sp.Prec == 0 || sp.Prec == -2) && t == 0 && strings.ContainsAny(sp.Flags, "+ ") {
		out = append(out, fFmtZeroPrecSign)
	}
	return out
}

// matchFinding returns the first finding that matches the case's input and
// that the run treats as open ("" = none).
func (e *env) matchFinding(cs *Case) string {
	for _, id := range candidates(cs) {
		if e.open == nil || e.open(id) {
			return id
		}
	}
	return ""
}

func one(id string) []string { return []string{id} }

// candidates maps a case to the known findings whose input predicate it
// satisfies.
func candidates(cs *Case) []string {
	a := cs.Args
	switch cs.Fn {
	case "string.byte":
		jAbsent := len(a) < 3 || a[2].IsNil()
		if jAbsent && len(a) != 2 {
			// strByte takes "j defaults to i" only when GetTop()==2; otherwise j defaults to -1
			return one(fByteDefaultJ)
		}
		if i, ok := argInt(a, 1); ok && i == 0 && len(a) >= 3 {
			// start = 0-1 = -1 is then read as "from the end": len+(-1)+1 = len
			return one(fByteIZero)
		}
	case "string.upper", "string.lower":
		if len(a) > 0 && a[0].IsStr() && hasHigh(a[0].S) {
			return one(fCaseUnicode)
		}
	case "string.find":
		if len(a) < 3 || !a[0].IsStr() || !a[1].IsStr() {
			return nil
		}
		init, ok := argInt(a, 2)
		if !ok {
			return nil
		}
		n := int64(len(a[0].S))
		if len(a[1].S) == 0 {
			// strFind returns (1,0) for an empty pattern before looking at init
			if st, _, _ := lstr.FindPlain(a[0].S, nil, true, init); st != 1 {
				return one(fFindEmptyInit)
			}
			return nil
		}
		if len(a) > 3 && truthy(a[3]) && init > n+1 {
			// luaIndex2StringIndex(start=true) does not clamp to len: str[init:] panics
			return one(fFindPastEnd)
		}
	case "string.char":
		for k := range a {
			if v, ok := argInt(a, k); ok && (v < 0 || v > 255) {
				return one(fCharRange)
			}
		}
	case "string.format":
		if len(cs.Fmt) == 1 && cs.Fmt[0].D != nil && len(cs.Args) >= 1 {
			return matchDirective(cs.Fmt[0].D, cs.Args[0])
		}
	case "math.modf":
		if len(a) > 0 && a[0].IsNum() && isInf(a[0].F()) {
			return one(fModfInf)
		}
	case "math.deg":
		if len(a) > 0 && a[0].IsNum() && !isInf(a[0].F()) && mAbs(a[0].F()) > math.MaxFloat64/180 {
			return one(fDegRadOverflow)
		}
	case "math.rad":
		if len(a) > 0 && a[0].IsNum() && !isInf(a[0].F()) && mAbs(a[0].F()) > math.MaxFloat64/math.Pi {
			return one(fDegRadOverflow)
		}
	case "op.pow":
		if len(a) == 2 && a[0].IsNum() && a[1].IsNum() {
			if r := math.Pow(a[0].F(), a[1].F()); r == 0 && signbit(r) {
				// registry.SetNumber -> allocator.LNumber2I maps -0 to the preloaded +0
				return one(fPowOpNegZero)
			}
		}
	}
	return nil
}

// attributeFormat handles a diverging format with several segments: every
// directive is re-run alone; a directive that diverges alone must be matched
// by a finding, otherwise the (smaller) single-directive case is reported.
// When no directive diverges alone the divergence is an interaction: only the
// "%%" + surplus-arguments root cause is known.
func attributeFormat(e *env, cs *Case) (finding string, smaller *Case, smallerViol string) {
	ai := 0
	ndir, npct := 0, 0
	first := ""
	for _, s := range cs.Fmt {
		if s.P {
			npct++
		}
		if s.D == nil {
			continue
		}
		ndir++
		if ai >= len(cs.Args) {
			break
		}
		sub := &Case{Fn: "string.format", Fmt: []Seg{{D: s.D}}, Args: []Val{cs.Args[ai]}}
		ai++
		v := runCase(e, sub)
		if v.viol == "" {
			continue
		}
		if v.finding == "" {
			return "", sub, v.viol
		}
		if first == "" {
			first = v.finding
		}
	}
	if first != "" {
		return first, nil, ""
	}
	if npct > 0 && len(cs.Args) > ndir {
		// strFormat counts '%' characters to decide how many arguments to hand to fmt.Sprintf;
		// every "%%" is counted as one directive, so surplus arguments reach Sprintf -> "%!(EXTRA ...)"
		return fFmtPctExtra, nil, ""
	}
	return "", nil, ""
}

// ---- pinned reproducers ----

func pinned(id string, cs Case, recorded string) func(c *fw.Ctx) (bool, string) {
	return func(c *fw.Ctx) (bool, string) {
		e := newEnv()
		e.open = func(x string) bool { return x == id }
		defer e.L.Close()
		v := runCase(e, &cs)
		still := v.viol != "" && v.finding == id && strings.HasPrefix(v.got, recorded)
		return still, cs.String() + " -> " + v.got
	}
}

func fmt1(flags string, w, p int, conv string, a Val) Case {
	return Case{Fn: "string.format", Fmt: []Seg{{D: &lstr.Spec{Flags: flags, Width: w, Prec: p, Conv: conv}}}, Args: []Val{a}}
}

var reproducers = map[string]func(c *fw.Ctx) (bool, string){
	fByteDefaultJ:    pinned(fByteDefaultJ, Case{Fn: "string.byte", Args: []Val{strs("abc")}}, "(97, 98, 99)"),
	fByteIZero:       pinned(fByteIZero, Case{Fn: "string.byte", Args: []Val{strs("abc"), inum(0), inum(2)}}, "()"),
	fCaseUnicode:     pinned(fCaseUnicode, Case{Fn: "string.upper", Args: []Val{strs("a\xe9")}}, `("A\ufffd")`),
	fFindEmptyInit:   pinned(fFindEmptyInit, Case{Fn: "string.find", Args: []Val{strs("abc"), strs(""), inum(3), boolv(true)}}, "(1, 0)"),
	fFindPastEnd:     pinned(fFindPastEnd, Case{Fn: "string.find", Args: []Val{strs("abc"), strs("b"), inum(5), boolv(true)}}, "error: runtime error: slice bounds out of range"),
	fCharRange:       pinned(fCharRange, Case{Fn: "string.char", Args: []Val{inum(256)}}, `("\x00")`),
	fFmtC:            pinned(fFmtC, fmt1("", -1, -1, "c", inum(200)), `("\u00c8")`),
	fFmtStrArg:       pinned(fFmtStrArg, fmt1("", -1, -1, "x", strs("10")), `("3130")`),
	fFmtInfNan:       pinned(fFmtInfNan, fmt1("", -1, -1, "f", num(inf)), `("+Inf")`),
	fFmtSignUnsigned: pinned(fFmtSignUnsigned, fmt1("+", -1, -1, "x", inum(255)), `("+ff")`),
	fFmtZeroPrecSign: pinned(fFmtZeroPrecSign, fmt1("+", -1, 0, "d", inum(0)), `("")`),
	fFmtSRunes:       pinned(fFmtSRunes, fmt1("", 5, -1, "s", strs("\xc3\xa9")), `("    \u00e9")`),
	fFmtAltForm:      pinned(fFmtAltForm, fmt1("#", -1, -1, "x", inum(0)), `("0x0")`),
	fFmtPctExtra:     pinned(fFmtPctExtra, Case{Fn: "string.format", Fmt: []Seg{{P: true}}, Args: []Val{inum(1)}}, `("%%!(EXTRA lua.LNumber=1)")`),
	fModfInf:         pinned(fModfInf, Case{Fn: "math.modf", Args: []Val{num(inf)}}, "(inf, nan)"),
	fDegRadOverflow:  pinned(fDegRadOverflow, Case{Fn: "math.rad", Args: []Val{num(1e308)}}, "(inf)"),
	fPowOpNegZero:    pinned(fPowOpNegZero, Case{Fn: "op.pow", Args: []Val{num(negZer), num(1)}}, "(0)"),
}
