package c15

import (
	"fmt"
	"math/rand"
	"os"
	"sort"
	"strings"
	"testing"
)

// TestDevClasses runs the quick workload in-process and prints the divergences
// grouped by (function, matched finding); a development aid, enabled by C15_DEV=1.
func TestDevClasses(t *testing.T) {
	if os.Getenv("C15_DEV") == "" {
		t.Skip("set C15_DEV=1")
	}
	e := newEnv()
	defer e.L.Close()
	r := &runner{rnd: rand.New(rand.NewSource(1)), own: func(int) bool { return true }}
	type cls struct {
		n  int
		ex []string
	}
	classes := map[string]*cls{}
	total, open, info := 0, 0, 0
	r.sink = func(cs *Case) {
		v := runCase(e, cs)
		total++
		if v.open != "" {
			open++
		}
		if v.info {
			info++
		}
		if v.viol == "" {
			return
		}
		k := cs.Fn + " finding=" + v.finding
		if cs.Fn == "string.format" && len(cs.Fmt) == 1 && cs.Fmt[0].D != nil {
			k += " %" + cs.Fmt[0].D.Conv + " arg:" + cs.Args[0].T
		}
		c := classes[k]
		if c == nil {
			c = &cls{}
			classes[k] = c
		}
		c.n++
		if len(c.ex) < 12 && (c.n < 6 || rand.Intn(50) == 0) {
			c.ex = append(c.ex, v.viol)
		}
	}
	div := 1
	if os.Getenv("C15_DEV") == "small" {
		div = 20
	}
	workload(r, true, func(n int) int { return n / div })
	var keys []string
	for k := range classes {
		keys = append(keys, k)
	}
	sort.Strings(keys)
	fmt.Printf("total=%d open=%d info=%d\n", total, open, info)
	for _, k := range keys {
		fmt.Printf("== %s: %d\n", k, classes[k].n)
		for i, x := range classes[k].ex {
			if !strings.Contains(k, "finding= ") && !strings.HasSuffix(k, "finding=") && i >= 2 && os.Getenv("C15_DEV") != "all" {
				break
			}
			fmt.Printf("     %s\n", x)
		}
	}
}
