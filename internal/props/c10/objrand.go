package c10

import (
	"fmt"
	"math/rand"
	"strings"

	lua "github.com/yuin/gopher-lua"

	"verif/internal/fw"
	"verif/internal/gl"
)

// ---------- (4) object-level operations on objects with arbitrary handler subsets ----------
//
// Part (3) uses a fixed pool whose objects carry every handler. Here each
// case builds fresh objects whose metatables hold a random subset of the
// events, each in a random form (function, table, chained to another object,
// shared or private comparison handler), and applies one Go API call to one
// object and the corresponding Lua expression to an identically built twin.
// Compared: the results (or that both fail), the log of handler invocations
// with their operands, and a raw read-back of what the operation stored.
// GetGlobal/SetGlobal run against a globals table carrying such a metatable.

const objRandSetup = `
LOG = {}
NAMES = setmetatable({}, {__mode = "k"})
local function desc(v)
  local t = type(v)
  if t == "table" or t == "userdata" then return NAMES[v] or t end
  if t == "function" then return "fn" end
  return t .. ":" .. tostring(v)
end
DESC = desc
local function log(...)
  local t = {...}
  for i = 1, select("#", ...) do t[i] = desc(t[i]) end
  LOG[#LOG + 1] = table.concat(t, "|")
end
local function cmp(name, ev, ret)
  return function(a, b) log(name, ev, a, b) return ret end
end
SHARED = {
  eq = {cmp("shared", "eq", true), cmp("shared", "eq2", false)},
  lt = {cmp("shared", "lt", true), cmp("shared", "lt2", nil)},
  le = {cmp("shared", "le", false), cmp("shared", "le2", "x")},
}
function mkobj(name, kind, m, other)
  local mt = {}
  if m.index == 1 then mt.__index = function(t, k) log(name, "index", t, k) return name .. ".idx" end
  elseif m.index == 2 then mt.__index = {inherited = name .. ".inh", [1] = "inh1", fls = 0}
  elseif m.index == 3 then mt.__index = other end
  if m.newindex == 1 then mt.__newindex = function(t, k, v) log(name, "newindex", t, k, v) end
  elseif m.newindex == 2 then mt.__newindex = {}; NAMES[mt.__newindex] = name .. ".sink"
  elseif m.newindex == 3 then mt.__newindex = other end
  for _, ev in ipairs{"eq", "lt", "le"} do
    local v = m[ev]
    if v == 1 or v == 2 then mt["__" .. ev] = SHARED[ev][v]
    elseif v == 3 then mt["__" .. ev] = cmp(name, ev, true)
    elseif v == 4 then mt["__" .. ev] = cmp(name, ev, false) end
  end
  if m.concat == 1 then mt.__concat = function(a, b) log(name, "concat", a, b) return "cat:" .. name end end
  if m.len == 1 then mt.__len = function(a) log(name, "len", a) return 77 end end
  if m.tostring == 1 then mt.__tostring = function(a) log(name, "tostring", a) return "str:" .. name end
  elseif m.tostring == 2 then mt.__tostring = function(a) log(name, "tostring", a) return 12 end end
  if m.metatable == 1 then mt.__metatable = "locked" end
  local o
  if kind == "ud" then o = newud(mt)
  elseif kind == "bare" then o = {present = name, [1] = name .. ".1", fls = false}
  else o = setmetatable({present = name, [1] = name .. ".1", fls = false}, mt) end
  NAMES[o] = name
  return o, mt.__newindex
end
OPS2 = {
  gettable = function(a, k) return a[k] end,
  settable = function(a, k, v) a[k] = v end,
  equal = function(a, b) return a == b end,
  rawequal = function(a, b) return rawequal(a, b) end,
  lessthan = function(a, b) return a < b end,
  concat = function(a, b) return a .. b end,
  objlen = function(a) return #a end,
  tostring = function(a) return tostring(a) end,
  nextall = function(a) local t = {} for k, v in next, a do t[#t + 1] = desc(k) .. "=" .. desc(v) end return table.concat(t, ",") end,
  getglobal = function(name) return loadstring("return " .. name)() end,
  setglobal = function(name, v) loadstring("local v = ...; " .. name .. " = v")(v) end,
  rawdump = function(a)
    if type(a) ~= "table" then return "-" end
    local t = {}
    for k, v in next, a do t[#t + 1] = desc(k) .. "=" .. desc(v) end
    table.sort(t)
    return table.concat(t, ",")
  end,
  takelog = function() local s = table.concat(LOG, ";") LOG = {} return s end,
  setgmt = function(mt) setmetatable(_G, mt) end,
}
`

type objEnv struct {
	stackBad string // set when an object-level call disturbed the calling activation's list
	L        *lua.LState
	ops      *lua.LTable
	mkobj    lua.LValue
	n        int
}

func newObjEnv() *objEnv {
	L := lua.NewState()
	L.SetGlobal("newud", L.NewFunction(func(L *lua.LState) int {
		ud := L.NewUserData()
		ud.Metatable = L.Get(1)
		L.Push(ud)
		return 1
	}))
	if err := L.DoString(objRandSetup); err != nil {
		panic(err)
	}
	return &objEnv{L: L, ops: L.GetGlobal("OPS2").(*lua.LTable), mkobj: L.GetGlobal("mkobj")}
}

type objSpec struct {
	Name  string         `json:"name"`
	Kind  string         `json:"kind"` // table | ud | bare | plain
	Mask  map[string]int `json:"mask,omitempty"`
	Plain string         `json:"plain,omitempty"`
	Other *objSpec       `json:"other,omitempty"`
}

type ObjCase struct {
	Kind string   `json:"kind"`
	Idx  int      `json:"idx"`
	Op   string   `json:"op"`
	A    *objSpec `json:"a"`
	B    *objSpec `json:"b,omitempty"`
	Key  string   `json:"key,omitempty"`
	Val  string   `json:"val,omitempty"`
	Diff string   `json:"diff,omitempty"`
}

var plainVals = map[string]lua.LValue{
	"1": lua.LNumber(1), "2.5": lua.LNumber(2.5), "'10'": lua.LString("10"), "'abc'": lua.LString("abc"), "''": lua.LString(""),
	"true": lua.LTrue, "false": lua.LFalse, "nil": lua.LNil, "'present'": lua.LString("present"), "'missing'": lua.LString("missing"),
	"'fls'": lua.LString("fls"), "'inherited'": lua.LString("inherited"), "9": lua.LNumber(9),
	"1.5": lua.LNumber(1.5), "9.75": lua.LNumber(9.75), "0.5": lua.LNumber(0.5),
}
var plainOperands = []string{"1", "2.5", "'10'", "'abc'", "''", "true", "false", "nil"}
var keyNames = []string{"'present'", "'missing'", "'fls'", "'inherited'", "1", "9", "true", "1.5", "9.75", "0.5", "2.5"}
var valNames = []string{"1", "'abc'", "false", "nil", "true"}

func genMask(r *rand.Rand, full bool) map[string]int {
	m := map[string]int{}
	pick := func(ev string, n int, p int) {
		if r.Intn(100) < p {
			m[ev] = 1 + r.Intn(n)
		}
	}
	nidx := 2
	if full {
		nidx = 3
	}
	pick("index", nidx, 50)
	pick("newindex", nidx, 50)
	pick("eq", 4, 50)
	pick("lt", 4, 50)
	pick("le", 4, 40)
	pick("concat", 1, 40)
	pick("len", 1, 40)
	pick("tostring", 2, 40)
	pick("metatable", 1, 15)
	return m
}

func genObj(r *rand.Rand, name string, allowPlain bool) *objSpec {
	if allowPlain && r.Intn(4) == 0 {
		return &objSpec{Name: name, Kind: "plain", Plain: plainOperands[r.Intn(len(plainOperands))]}
	}
	o := &objSpec{Name: name, Kind: []string{"table", "table", "ud", "bare"}[r.Intn(4)], Mask: genMask(r, true)}
	if o.Mask["index"] == 3 || o.Mask["newindex"] == 3 {
		o.Other = &objSpec{Name: name + "x", Kind: []string{"table", "ud", "bare"}[r.Intn(3)], Mask: genMask(r, false)}
	}
	return o
}

// build makes one copy of the object a spec describes.
func (e *objEnv) build(s *objSpec) lua.LValue {
	if s == nil {
		return lua.LNil
	}
	if s.Kind == "plain" {
		return plainVals[s.Plain]
	}
	L := e.L
	var other lua.LValue = lua.LNil
	if s.Other != nil {
		other = e.build(s.Other)
	}
	m := L.NewTable()
	for k, v := range s.Mask {
		m.RawSetString(k, lua.LNumber(v))
	}
	res, o := gl.Call(L, e.mkobj, lua.LString(s.Name), lua.LString(s.Kind), m, other)
	if o.Err != nil || o.GoPanic != nil || len(res) < 1 {
		panic("c10: mkobj failed: " + gl.ErrText(o.Err) + o.PanicStr)
	}
	return res[0]
}

func (e *objEnv) lua(name string, args ...lua.LValue) (string, bool) {
	res, o := gl.Call(e.L, e.ops.RawGetString(name), args...)
	if o.GoPanic != nil {
		return "GOPANIC " + o.PanicStr, false
	}
	if o.Err != nil {
		return "error", false
	}
	return e.canon(res), true
}

// canon renders results by type and, for objects, by the name they were built with.
func (e *objEnv) canon(vs []lua.LValue) string {
	var parts []string
	for _, v := range vs {
		res, o := gl.Call(e.L, e.L.GetGlobal("DESC"), v)
		if o.Err != nil || len(res) != 1 {
			parts = append(parts, "?")
			continue
		}
		parts = append(parts, string(res[0].(lua.LString)))
	}
	return strings.Join(parts, ",")
}

func (e *objEnv) goCall(f func(L *lua.LState) []lua.LValue) (string, bool) {
	var out []lua.LValue
	fn := e.L.NewFunction(func(L *lua.LState) int {
		// the object-level calls leave the activation's list as they found it:
		// two sentinels below, nothing above
		s1, s2 := lua.LString("sentinel-1"), lua.LNumber(-424242)
		L.Push(s1)
		L.Push(s2)
		out = f(L)
		if L.GetTop() != 2 || L.Get(1) != s1 || L.Get(2) != s2 || L.Get(-1) != s2 || L.Get(3) != lua.LNil {
			e.stackBad = fmt.Sprintf("after the call the host function's list is top=%d [%v %v %v], it was top=2 [sentinel-1 -424242 nil]", L.GetTop(), L.Get(1), L.Get(2), L.Get(3))
		}
		return 0
	})
	o := gl.Protect(func() error { return e.L.CallByParam(lua.P{Fn: fn, NRet: 0, Protect: true}) })
	if o.GoPanic != nil {
		return "GOPANIC " + o.PanicStr, false
	}
	if o.Err != nil {
		return "error", false
	}
	return e.canon(out), true
}

func genObjCase(r *rand.Rand, idx int) *ObjCase {
	cs := &ObjCase{Kind: "objrand", Idx: idx}
	ops := []string{"GetTable", "GetField", "SetTable", "SetField", "Equal", "RawEqual", "LessThan", "Concat", "ObjLen", "ToStringMeta", "Next", "GetGlobal", "SetGlobal", "SetTable", "SetField", "GetTable"}
	cs.Op = ops[r.Intn(len(ops))]
	cs.A = genObj(r, "A", false)
	cs.Key = keyNames[r.Intn(len(keyNames))]
	cs.Val = valNames[r.Intn(len(valNames))]
	switch cs.Op {
	case "GetField", "SetField", "GetGlobal", "SetGlobal":
		cs.Key = []string{"'present'", "'missing'", "'fls'", "'inherited'"}[r.Intn(4)]
	case "Equal", "RawEqual", "LessThan", "Concat":
		if r.Intn(5) == 0 {
			cs.A = genObj(r, "A", true)
		}
		cs.B = genObj(r, "B", true)
		if r.Intn(3) == 0 && cs.A.Kind != "plain" {
			// same shape of metatable on both sides (private handlers still differ, shared ones are identical)
			cs.B = &objSpec{Name: "B", Kind: cs.A.Kind, Mask: cs.A.Mask, Other: cs.A.Other}
			if r.Intn(2) == 0 {
				cs.B.Kind = []string{"table", "ud"}[r.Intn(2)]
			}
		}
	case "Next":
		cs.A.Kind = []string{"table", "bare"}[r.Intn(2)]
	case "ObjLen":
		if r.Intn(4) == 0 {
			cs.A = &objSpec{Name: "A", Kind: "plain", Plain: []string{"'abc'", "''", "'10'"}[r.Intn(3)]}
		}
	}
	return cs
}

// one evaluation (Go API or Lua expression) on a freshly built copy of the operands
func (e *objEnv) eval(cs *ObjCase, viaGo bool) (res string, ok bool, log string, dump string) {
	L := e.L
	e.lua("takelog")
	var gmtHolder lua.LValue
	a := e.build(cs.A)
	b := e.build(cs.B)
	k, v := plainVals[cs.Key], plainVals[cs.Val]
	ks := ""
	if s, isS := k.(lua.LString); isS {
		ks = string(s)
	}
	global := cs.Op == "GetGlobal" || cs.Op == "SetGlobal"
	gname := ""
	if global {
		// the object's metatable goes onto the globals table; "present"/"fls" exist as raw globals
		e.n++
		gname = fmt.Sprintf("%s_%d", ks, e.n)
		switch ks {
		case "present":
			L.G.Global.RawSetString(gname, lua.LString("rawglobal"))
		case "fls":
			L.G.Global.RawSetString(gname, lua.LFalse)
		}
		gmtHolder = a
		var mt lua.LValue = lua.LNil
		if t, isT := a.(*lua.LTable); isT {
			mt = L.GetMetatable(t)
		} else if u, isU := a.(*lua.LUserData); isU {
			mt = u.Metatable
		}
		if tb, isT := mt.(*lua.LTable); isT {
			// only the two events that matter for globals; an __index function
			// on _G would also be consulted by the harness's own global reads
			g := L.NewTable()
			g.RawSetString("__index", tb.RawGetString("__index"))
			g.RawSetString("__newindex", tb.RawGetString("__newindex"))
			L.SetMetatable(L.G.Global, g)
		}
		defer func() { L.SetMetatable(L.G.Global, lua.LNil) }()
	}
	_ = gmtHolder
	if viaGo {
		res, ok = e.goCall(func(L *lua.LState) []lua.LValue {
			switch cs.Op {
			case "GetTable":
				return []lua.LValue{L.GetTable(a, k)}
			case "GetField":
				return []lua.LValue{L.GetField(a, ks)}
			case "SetTable":
				L.SetTable(a, k, v)
				return nil
			case "SetField":
				L.SetField(a, ks, v)
				return nil
			case "Equal":
				return []lua.LValue{lua.LBool(L.Equal(a, b))}
			case "RawEqual":
				return []lua.LValue{lua.LBool(L.RawEqual(a, b))}
			case "LessThan":
				return []lua.LValue{lua.LBool(L.LessThan(a, b))}
			case "Concat":
				return []lua.LValue{lua.LString(L.Concat(a, b))}
			case "ObjLen":
				return []lua.LValue{lua.LNumber(L.ObjLen(a))}
			case "ToStringMeta":
				return []lua.LValue{L.ToStringMeta(a)}
			case "Next":
				tb := a.(*lua.LTable)
				var parts []string
				var key lua.LValue = lua.LNil
				for i := 0; i < 100; i++ {
					nk, nv := L.Next(tb, key)
					if nk == lua.LNil {
						break
					}
					parts = append(parts, e.canon([]lua.LValue{nk})+"="+e.canon([]lua.LValue{nv}))
					key = nk
				}
				return []lua.LValue{lua.LString(strings.Join(parts, ","))}
			case "GetGlobal":
				return []lua.LValue{L.GetGlobal(gname)}
			case "SetGlobal":
				L.SetGlobal(gname, v)
				return nil
			}
			panic("c10: unknown op " + cs.Op)
		})
	} else {
		switch cs.Op {
		case "GetTable", "GetField":
			res, ok = e.lua("gettable", a, k)
		case "SetTable", "SetField":
			res, ok = e.lua("settable", a, k, v)
		case "Equal":
			res, ok = e.lua("equal", a, b)
		case "RawEqual":
			res, ok = e.lua("rawequal", a, b)
		case "LessThan":
			res, ok = e.lua("lessthan", a, b)
		case "Concat":
			res, ok = e.lua("concat", a, b)
		case "ObjLen":
			res, ok = e.lua("objlen", a)
		case "ToStringMeta":
			res, ok = e.lua("tostring", a)
		case "Next":
			res, ok = e.lua("nextall", a)
		case "GetGlobal":
			res, ok = e.lua("getglobal", lua.LString(gname))
		case "SetGlobal":
			res, ok = e.lua("setglobal", lua.LString(gname), v)
		}
	}
	if global {
		L.SetMetatable(L.G.Global, lua.LNil)
		dump = e.canon([]lua.LValue{L.G.Global.RawGetString(gname)})
		L.G.Global.RawSetString(gname, lua.LNil)
	}
	log, _ = e.lua("takelog")
	if !global {
		d1, _ := e.lua("rawdump", a)
		dump = d1
		if cs.A != nil && cs.A.Other != nil {
			// what a chained handler stored is visible in the log (function) or in the chained object
		}
	}
	if strings.HasPrefix(res, "str:") || strings.HasPrefix(res, "string:table: 0x") || strings.HasPrefix(res, "string:userdata: 0x") {
		// addresses differ between the two copies
		if i := strings.Index(res, ": 0x"); i >= 0 {
			res = res[:i] + ": <address>"
		}
	}
	return
}

func runObjRand(c *fw.Ctx, e *objEnv, cs *ObjCase, count bool) {
	c.Begin(cs)
	// names of globals must be the same in both evaluations
	n0 := e.n
	gRes, gOK, gLog, gDump := e.eval(cs, true)
	e.n = n0
	lRes, lOK, lLog, lDump := e.eval(cs, false)
	bad := ""
	switch {
	case e.stackBad != "":
		bad = "the Go API call is not stack-neutral inside a host function: " + e.stackBad
		e.stackBad = ""
	case strings.HasPrefix(gRes, "GOPANIC"):
		bad = "Go API panicked: " + gRes
	case strings.HasPrefix(lRes, "GOPANIC"):
		bad = "the Lua expression panicked: " + lRes
	case gOK != lOK:
		bad = fmt.Sprintf("Go API %q (ok=%v) vs Lua expression %q (ok=%v)", gRes, gOK, lRes, lOK)
	case gOK && gRes != lRes:
		bad = fmt.Sprintf("Go API gives %q, the Lua expression gives %q", gRes, lRes)
	case gLog != lLog:
		bad = fmt.Sprintf("handlers invoked through the Go API: [%s]; by the Lua expression: [%s]", gLog, lLog)
	case gDump != lDump:
		bad = fmt.Sprintf("raw contents afterwards: Go API [%s], Lua expression [%s]", gDump, lDump)
	}
	if count {
		c.Count("objrand_"+cs.Op, 1)
		if gLog != "" {
			c.Count("objrand_cases_with_handler_calls", 1)
		}
		if !gOK {
			c.Count("objrand_both_raise", 1)
		}
	}
	if bad != "" {
		cs.Diff = bad
		c.ViolationOrKnown(fObjLenUserdata, cs.Op == "ObjLen" && cs.A.Kind == "ud" && cs.A.Mask["len"] == 0 && gOK && !lOK && gRes == "number:0",
			fmt.Sprintf("object-level %s on generated objects: %s", cs.Op, bad), cs)
		c.End(false, "")
		return
	}
	c.End(true, fmt.Sprintf("objrand/%d", cs.Idx))
}

const fObjLenUserdata = "C10-objlen-userdata-without-len-returns-0"
