// Package c10: Go API — faithful value stack, exact call contract, object ops
// equal Lua ops (model-based histories, enumerated call product, in-state
// differential against Lua expressions).
package c10

import (
	"encoding/json"
	"fmt"
	"math/rand"
	"strings"

	lua "github.com/yuin/gopher-lua"

	"verif/internal/fw"
	"verif/internal/gl"
)

func init() {
	fw.Register(&fw.Prop{
		ID:    "C10",
		Level: "exploration",
		Rule: "(1) stack histories: 20-80 random Push/Pop/Get/SetTop/Insert/Remove/Replace/GetTop operations (valid indices 1..top and -1..-top, reads also at 0, +-(top+1), far out of range) applied inside a host function and to a list model, GetTop and the full contents compared after every operation; " +
			"the host function runs at activation depth 0 (CallByParam from Go), called from a Lua function whose locals hold guard sentinels (fixed-arity and vararg callers, so LocalBase is shifted), inside a coroutine, and after the registry has grown; the caller's guards and the values below the frame are re-read afterwards; " +
			"(2) call contract: the full product nargs 0-3 x NRet {MultRet,0,1,2,5} x results produced 0-4 x callee {Lua, Go, __call table} x {Call, PCall, CallByParam protected/unprotected} x {returns, raises}: stack delta and contents equal the adjusted list, a failed protected call leaves neither arguments nor partial results (enumerated completely in both tiers); " +
			"(3) object level: every pair from an operand pool (numbers, numeric and plain strings, booleans, nil, tables and userdata with __index/__newindex/__eq/__lt/__le/__concat/__len/__tostring/__metatable handlers) through GetTable/SetTable/GetField/SetField/GetGlobal/SetGlobal/Equal/RawEqual/LessThan/Concat/ObjLen/GetMetatable/ToStringMeta/Next compared with the corresponding Lua expression evaluated by a chunk in the same state on the same operands (value or error); " +
			"part (2) runs at depth 0 and inside a host function, for PCall/CallByParam also with a handler that returns and one that fails, and ends by Push/Get through relative indices; every Go call of parts (3)/(4) runs between two sentinels in a host function and must leave that list unchanged; " +
			"(4) random object cases: fresh tables/userdata whose metatables hold a random subset of __index/__newindex (function, table, chained to a second object)/__eq/__lt/__le (shared or private handlers, any truth value)/__concat/__len/__tostring/__metatable, one Go API call on one copy and the Lua expression on an identically built twin, comparing result-or-error, the log of handler invocations with their operands, and a raw dump of the object afterwards; GetGlobal/SetGlobal against a globals table carrying such __index/__newindex; " +
			"part (2) also with Lua callees returning parameters, locals and varargs (registers below live registers) and NRet 0..6; part (1) also on small growable registries (size 40-128, grow step 1-32) so that the capacity is crossed inside the history; " +
			"non-trivial = a history with >=20 ops, any call-contract tuple, any operand pair, any object case; distinct by content hash",
		Assumptions: []string{
			"part (3) is a differential inside the implementation: the Lua-level operators are themselves checked against the reference interpreter by C01/C04",
			"mutating stack operations are only applied with valid indices (the statement quantifies reads outside the list, not writes)",
			"ObjLen and Concat return Go int/string: handlers are generated to return integral numbers / strings only (what a non-number __len or non-string __concat result becomes is fixed by the Go types, not by Lua)",
		},
		CrashIsViolation: true,
		// every case is a handful of API calls (microseconds): one that is still running
		// after two minutes does not terminate (e.g. a frame list that has become cyclic)
		HangSeconds: 120,
		Run:         run,
		Replay:      replay,
		Reproducers: map[string]func(c *fw.Ctx) (bool, string){
			fObjLenUserdata: func(c *fw.Ctx) (bool, string) {
				e := newObjEnv()
				defer e.L.Close()
				cs := &ObjCase{Kind: "objrand", Op: "ObjLen", A: &objSpec{Name: "A", Kind: "ud", Mask: map[string]int{}}}
				g, gok, _, _ := e.eval(cs, true)
				l, lok, _, _ := e.eval(cs, false)
				return gok && !lok && g == "number:0", fmt.Sprintf("ObjLen(userdata without __len) = %s (ok=%v); #ud = %s (ok=%v)", g, gok, l, lok)
			},
		},
	})
}

type Case struct {
	Kind string `json:"kind"`
	Idx  int    `json:"idx"`
	Diff string `json:"diff,omitempty"`
	Info string `json:"info,omitempty"`
}

// ---------- (1) stack histories ----------

func val(i int) lua.LValue { return lua.LNumber(100000 + i) }

// stackHistory runs a random op history inside the current host activation.
func stackHistory(L *lua.LState, r *rand.Rand, nops int, counts map[string]int) string {
	var model []lua.LValue
	top := L.GetTop()
	for i := 1; i <= top; i++ {
		model = append(model, L.Get(i))
	}
	next := 0
	fresh := func() lua.LValue { next++; return val(next) }
	compare := func(step int, op string) string {
		if L.GetTop() != len(model) {
			return fmt.Sprintf("op %d %s: GetTop()=%d, model %d", step, op, L.GetTop(), len(model))
		}
		for i, v := range model {
			if g := L.Get(i + 1); g != v {
				return fmt.Sprintf("op %d %s: Get(%d)=%v, model %v", step, op, i+1, g, v)
			}
			if g := L.Get(-(len(model) - i)); g != v {
				return fmt.Sprintf("op %d %s: Get(%d)=%v, model %v", step, op, -(len(model) - i), g, v)
			}
		}
		n := len(model)
		for _, idx := range []int{0, n + 1, -(n + 1), n + 7, -(n + 7), 5000} {
			if idx == 0 && n == 0 {
				continue
			}
			if g := L.Get(idx); g != lua.LNil {
				return fmt.Sprintf("op %d %s: read outside the list Get(%d) with top %d gave %v, want nil", step, op, idx, n, g)
			}
		}
		return ""
	}
	if v := compare(-1, "entry"); v != "" {
		return v
	}
	for s := 0; s < nops; s++ {
		n := len(model)
		var op string
		switch k := r.Intn(16); {
		case k == 15:
			// Remove / Replace with a negative index that reaches below the activation's own list: whatever
			// it does to this list (nothing, on this tree), it must not touch what belongs to the callers -
			// their sentinels are compared when the history ends. The model is re-read from the list.
			idx := -(n + 1 + r.Intn(5))
			func() {
				defer func() { recover() }()
				if r.Intn(2) == 0 {
					op = fmt.Sprintf("Remove(%d) with %d values", idx, n)
					L.Remove(idx)
				} else {
					op = fmt.Sprintf("Replace(%d,v) with %d values", idx, n)
					L.Replace(idx, fresh())
				}
			}()
			if L.GetTop() > n {
				return fmt.Sprintf("op %d %s: the list grew to %d values", s, op, L.GetTop())
			}
			model = model[:0]
			for i := 1; i <= L.GetTop(); i++ {
				model = append(model, L.Get(i))
			}
		case k == 14:
			// popping more than the activation owns: an error, and nothing below the
			// activation's own list is touched (the caller's sentinels are checked at
			// the end of the history). The error is taken here, in the host function.
			m := n + 1 + r.Intn(3)
			op = fmt.Sprintf("Pop(%d) with %d values", m, n)
			raised := false
			func() {
				defer func() { raised = recover() != nil }()
				L.Pop(m)
			}()
			if !raised {
				return fmt.Sprintf("op %d %s: no error, GetTop()=%d afterwards", s, op, L.GetTop())
			}
			L.SetTop(0) // (the error message the raise left behind)
			model = model[:0]
		case k < 4:
			op = "Push"
			v := fresh()
			L.Push(v)
			model = append(model, v)
		case k < 6:
			if n == 0 {
				continue
			}
			m := 1 + r.Intn(minInt(n, 3))
			op = fmt.Sprintf("Pop(%d)", m)
			L.Pop(m)
			model = model[:n-m]
		case k < 8:
			t := r.Intn(n + 4)
			op = fmt.Sprintf("SetTop(%d)", t)
			L.SetTop(t)
			for len(model) < t {
				model = append(model, lua.LNil)
			}
			model = model[:t]
		case k < 9:
			if n == 0 {
				continue
			}
			// negative SetTop: -1 keeps everything, -2 drops one ...
			t := -(1 + r.Intn(n))
			op = fmt.Sprintf("SetTop(%d)", t)
			L.SetTop(t)
			model = model[:n+t+1]
		case k < 11:
			idx := 1 + r.Intn(n+1)
			if n > 0 && r.Intn(3) == 0 {
				idx = -(1 + r.Intn(n))
			}
			v := fresh()
			op = fmt.Sprintf("Insert(v,%d)", idx)
			L.Insert(v, idx)
			pos := idx - 1
			if idx < 0 {
				pos = n + idx
			}
			model = append(model, lua.LNil)
			copy(model[pos+1:], model[pos:])
			model[pos] = v
		case k < 12:
			if n == 0 {
				continue
			}
			idx := 1 + r.Intn(n)
			if r.Intn(3) == 0 {
				idx = -(1 + r.Intn(n))
			}
			op = fmt.Sprintf("Remove(%d)", idx)
			L.Remove(idx)
			pos := idx - 1
			if idx < 0 {
				pos = n + idx
			}
			model = append(model[:pos], model[pos+1:]...)
		default:
			if n == 0 {
				continue
			}
			idx := 1 + r.Intn(n)
			if r.Intn(3) == 0 {
				idx = -(1 + r.Intn(n))
			}
			v := fresh()
			op = fmt.Sprintf("Replace(%d,v)", idx)
			L.Replace(idx, v)
			pos := idx - 1
			if idx < 0 {
				pos = n + idx
			}
			model[pos] = v
		}
		counts[strings.SplitN(op, "(", 2)[0]]++
		if v := compare(s, op); v != "" {
			return v
		}
	}
	return ""
}

func minInt(a, b int) int {
	if a < b {
		return a
	}
	return b
}

const stackDrivers = `
-- every driver tells probe how many arguments it passes (the count itself included)
local function fixed(a, b)
  local g1, g2, g3 = "guard1", 4242, a
  local r = probe(4, a, b, "x")
  return g1 == "guard1" and g2 == 4242 and g3 == a, r
end
local function vararg(...)
  local g1, g2 = "guard1", 4242
  local n = select("#", ...)
  local r = probe(n + 1, ...)
  return g1 == "guard1" and g2 == 4242 and n == select("#", ...), r
end
local function nested(d, ...)
  local g = "nested" .. d
  if d == 0 then
    local r = probe(select("#", ...) + 1, ...)
    return g == "nested0", r
  end
  local ok, r = nested(d - 1, ...)
  return ok and g == "nested" .. d, r
end
local function inco(...)
  local co = coroutine.wrap(function(...)
    local g = "inco"
    local r = probe(select("#", ...) + 1, ...)
    coroutine.yield(g == "inco", r)
  end)
  return co(...)
end
local function grown(...)
  -- grow the registry first
  local t = {}
  for i = 1, 300 do t[i] = i end
  local function many(...) return select("#", ...) end
  local n = many(unpack(t))
  local g = "grown"
  local r = probe(select("#", ...) + 1, ...)
  return g == "grown" and n == 300, r
end
-- tail calls: the calling frame (which used many more registers) is gone when probe runs
local function tailfixed(a, b)
  local t = {1, 2, 3, 4, 5, 6, 7, 8}
  local x, y, z = t[1] + t[2], {t[3], t[4]}, "pad" .. t[5]
  return true, (function(p, q) local u, v, w = {p, q, 1, 2, 3, 4, 5, 6, 7, 8, 9, 10, 11, 12}, p, q return probe(3, u[1], u[2]) end)(a, b)
end
local function tailvararg(...)
  local x, y, z = {...}, select("#", ...), "pad"
  return true, (function(...) local u = {1, 2, 3, 4, 5, 6, 7, 8, 9, 10, 11, 12, ...} return probe(select("#", ...) + 1, ...) end)(...)
end
return {fixed = fixed, vararg = vararg, nested = nested, inco = inco, grown = grown, tailfixed = tailfixed, tailvararg = tailvararg}
`

func runStack(c *fw.Ctx, idx int, count bool) {
	r := c.SubRand("stack", idx)
	cs := Case{Kind: "stack", Idx: idx}
	c.Begin(cs)
	// registry shapes: the default one, and small growable ones whose capacity
	// is reached (and re-allocated) in the middle of the history, by every
	// growth step
	opts := lua.Options{RegistrySize: 256, RegistryMaxSize: 65536, MinimizeStackMemory: r.Intn(3) == 0}
	if r.Intn(2) == 0 {
		opts.RegistrySize = []int{40, 48, 64, 100, 128}[r.Intn(5)]
		opts.RegistryGrowStep = []int{1, 1, 2, 3, 7, 32}[r.Intn(6)]
	}
	L := lua.NewState(opts)
	defer L.Close()
	counts := map[string]int{}
	nops := 20 + r.Intn(61)
	if opts.RegistryGrowStep != 0 {
		counts[fmt.Sprintf("registry_size=%d,step=%d", opts.RegistrySize, opts.RegistryGrowStep)]++
	}
	bad := ""
	L.SetGlobal("probe", L.NewFunction(func(L *lua.LState) int {
		if want, ok := L.Get(1).(lua.LNumber); (!ok || int(want) != L.GetTop()) && bad == "" {
			bad = fmt.Sprintf("the host function was called with %v arguments and sees GetTop() = %d (Get(%d) = %v)", L.Get(1), L.GetTop(), L.GetTop(), L.Get(L.GetTop()))
		}
		if opts.RegistryGrowStep != 0 {
			// bring the registry to within a few slots of its capacity, so that
			// the history crosses it (and re-allocates) at one of its operations
			st := lua.VerifSnapshot(L)
			if free := st.RegCap - st.RegTop; free <= 300 {
				for i := free - r.Intn(8); i > 0; i-- {
					L.Push(lua.LNumber(-i))
				}
				counts["registry_filled_to_capacity"]++
			}
		}
		if v := stackHistory(L, r, nops, counts); v != "" && bad == "" {
			bad = v
		}
		L.SetTop(0)
		L.Push(lua.LString("probe-result"))
		return 1
	}))
	drivers := gl.MustLoad(L, stackDrivers).(*lua.LTable)
	kind := []string{"top", "fixed", "vararg", "nested", "inco", "grown", "tailfixed", "tailvararg"}[r.Intn(8)]
	nargs := r.Intn(5)
	args := make([]lua.LValue, nargs)
	for i := range args {
		args[i] = lua.LNumber(7000 + i)
	}
	L.Push(lua.LString("below-1"))
	L.Push(lua.LNumber(31337))
	base := L.GetTop()
	var res []lua.LValue
	var o gl.Outcome
	switch kind {
	case "top":
		res, o = gl.Call(L, L.GetGlobal("probe"), append([]lua.LValue{lua.LNumber(nargs + 1)}, args...)...)
	case "nested":
		res, o = gl.Call(L, drivers.RawGetString(kind), append([]lua.LValue{lua.LNumber(1 + r.Intn(5))}, args...)...)
	default:
		res, o = gl.Call(L, drivers.RawGetString(kind), args...)
	}
	if bad == "" {
		switch {
		case o.GoPanic != nil:
			bad = "Go panic: " + o.PanicStr
		case o.Err != nil:
			bad = "error: " + o.Err.Error()
		case L.GetTop() != base || L.Get(base-1) != lua.LString("below-1") || L.Get(base) != lua.LNumber(31337):
			bad = "values below the call were disturbed"
		case kind == "top" && (len(res) != 1 || res[0] != lua.LString("probe-result")):
			bad = fmt.Sprintf("host function result: %v", res)
		case kind != "top" && (len(res) != 2 || res[0] != lua.LTrue || res[1] != lua.LString("probe-result")):
			bad = fmt.Sprintf("the caller's guard values or the host function's result are wrong: %v", res)
		}
	}
	if count {
		c.Count("stack_histories_"+kind, 1)
		for k, v := range counts {
			if strings.HasPrefix(k, "registry_size") {
				c.Count("stack_histories_"+k, int64(v))
				continue
			}
			c.Count("stackop_"+k, int64(v))
		}
	}
	if bad != "" {
		cs.Diff, cs.Info = bad, kind
		c.Violation("stack history ("+kind+" activation): "+bad, cs)
		c.End(false, "")
		return
	}
	c.End(nops >= 20, fmt.Sprintf("stack/%d", idx))
}

// ---------- (2) call contract ----------

func runCallContract(c *fw.Ctx, count bool, autoGrow bool) {
	// both call-frame stack implementations: the fixed one and the auto-growing one
	L := lua.NewState(lua.Options{MinimizeStackMemory: autoGrow})
	defer L.Close()
	Lmain := L
	idx := 0
	for _, callee := range []string{"lua", "go", "callable", "lua-params", "lua-locals", "lua-vararg", "callable-args", "callable-go-args"} {
		for produced := 0; produced <= 4; produced++ {
			for _, fails := range []bool{false, true} {
				var fn lua.LValue
				if produced > 3 && strings.HasPrefix(callee, "lua-") {
					continue
				}
				if (callee == "callable-args" || callee == "callable-go-args") && produced > 3 {
					continue
				}
				switch callee {
				case "callable-args":
					// a callable object whose handler hands back what it received: self is the
					// object, then the arguments in order (the first `produced` of a, b, c)
					src := "local obj = setmetatable({}, {__call = function(self, a, b, c) if rawequal(self, OBJ) == false then error('Eself') end "
					if fails {
						src += "error('Ecall') "
					}
					src += "return " + strings.Join([]string{"a", "b", "c"}[:produced], ", ") + " end}) OBJ = obj return obj"
					fn = gl.MustLoad(L, src)
				case "callable-go-args":
					p, f := produced, fails
					obj := L.NewTable()
					mt := L.NewTable()
					mt.RawSetString("__call", L.NewFunction(func(L *lua.LState) int {
						if L.Get(1) != lua.LValue(obj) {
							L.RaiseError("Eself: the handler's first argument is %v", L.Get(1))
						}
						if f {
							L.RaiseError("Ecall")
						}
						n := L.GetTop()
						for i := 0; i < p; i++ {
							if 2+i <= n {
								L.Push(L.Get(2 + i))
							} else {
								L.Push(lua.LNil)
							}
						}
						return p
					}))
					L.SetMetatable(obj, mt)
					fn = obj
				case "lua-params", "lua-locals", "lua-vararg":
					// results that are not fresh constants: the first parameters, the
					// first locals (registers right below other live registers), or
					// select() of the varargs
					names := []string{"a", "b", "c"}
					head := "return function(a, b, c) local pad1, pad2 = 'pad1', 'pad2' "
					if callee == "lua-locals" {
						head = "return function(...) local a, b, c, pad1 = 500, 501, 502, 'pad1' "
					}
					if callee == "lua-vararg" {
						head = "return function(...) local a, b, c = ... local pad1 = 'pad1' "
					}
					if fails {
						head += "if pad1 then error('Ecall') end "
					}
					src := head + "return " + strings.Join(names[:produced], ", ") + " end"
					fn = gl.MustLoad(L, src)
				case "lua", "callable":
					var sb strings.Builder
					sb.WriteString("return function(...) ")
					if fails {
						sb.WriteString("local partial = {1,2} error('Ecall') ")
					}
					sb.WriteString("return ")
					if callee == "callable" {
						sb.Reset()
						sb.WriteString("return setmetatable({}, {__call = function(self, ...) ")
						if fails {
							sb.WriteString("error('Ecall') ")
						}
						sb.WriteString("return ")
					}
					for i := 0; i < produced; i++ {
						if i > 0 {
							sb.WriteString(", ")
						}
						fmt.Fprintf(&sb, "%d", 500+i)
					}
					if produced == 0 {
						sb.WriteString("nil")
					}
					sb.WriteString(" end")
					if callee == "callable" {
						sb.WriteString("})")
					}
					src := sb.String()
					if produced == 0 {
						src = strings.Replace(src, "return nil end", "end", 1)
					}
					fn = gl.MustLoad(L, src)
				default:
					p, f := produced, fails
					fn = L.NewFunction(func(L *lua.LState) int {
						L.Push(lua.LString("scratch")) // a host function may leave extra values below its results
						for i := 0; i < p; i++ {
							L.Push(lua.LNumber(500 + i))
						}
						if f {
							L.RaiseError("Ecall")
						}
						return p
					})
				}
				for nargs := 0; nargs <= 3; nargs++ {
					for _, nret := range []int{lua.MultRet, 0, 1, 2, 3, 4, 5, 6} {
						for _, howFull := range []string{"Call", "PCall", "CallByParam", "CallByParam-unprotected", "PCall/handler", "PCall/failing-handler", "CallByParam/handler", "CallByParam/failing-handler"} {
							for depth := 0; depth <= 1; depth++ {
								how, handler := howFull, ""
								if i := strings.Index(how, "/"); i >= 0 {
									how, handler = how[:i], how[i+1:]
								}
								if fails && (how == "Call" || how == "CallByParam-unprotected") {
									continue // an unprotected failure propagates as a panic by contract
								}
								idx++
								if !c.Mine(idx) {
									continue
								}
								cs := Case{Kind: "call", Idx: idx, Info: fmt.Sprintf("callee=%s produced=%d fails=%v nargs=%d NRet=%d how=%s handler=%s depth=%d", callee, produced, fails, nargs, nret, how, handler, depth)}
								c.Begin(cs)
								var hf *lua.LFunction
								switch handler {
								case "handler":
									hf = Lmain.NewFunction(func(L *lua.LState) int {
										L.Push(lua.LString("handled:" + L.Get(1).String()))
										return 1
									})
								case "failing-handler":
									hf = Lmain.NewFunction(func(L *lua.LState) int { L.RaiseError("Ehandler"); return 0 })
								}
								exec := func(L *lua.LState) string {
									L.SetTop(0)
									L.Push(lua.LString("g1"))
									L.Push(lua.LString("g2"))
									base := L.GetTop()
									args := make([]lua.LValue, nargs)
									for i := range args {
										args[i] = lua.LNumber(i)
									}
									var err error
									o := gl.Protect(func() error {
										switch how {
										case "Call", "PCall":
											L.Push(fn)
											for _, a := range args {
												L.Push(a)
											}
											if how == "Call" {
												L.Call(nargs, nret)
												return nil
											}
											return L.PCall(nargs, nret, hf)
										case "CallByParam":
											return L.CallByParam(lua.P{Fn: fn, NRet: nret, Protect: true, Handler: hf}, args...)
										default:
											return L.CallByParam(lua.P{Fn: fn, NRet: nret, Protect: false}, args...)
										}
									})
									err = o.Err
									bad := ""
									want := nret
									if nret == lua.MultRet {
										want = produced
									}
									switch {
									case o.GoPanic != nil:
										bad = "Go panic: " + o.PanicStr
									case fails:
										if err == nil {
											bad = "the failing callee did not produce an error"
										} else if handler != "failing-handler" && !strings.Contains(err.Error(), "Ecall") {
											bad = "wrong error: " + err.Error()
										} else if handler == "handler" && !strings.Contains(err.Error(), "handled:") {
											bad = "the error handler's result is not what the caller received: " + err.Error()
										} else if L.GetTop() != base {
											bad = fmt.Sprintf("a failed protected call left %d values (arguments or partial results) on the stack", L.GetTop()-base)
										}
									case err != nil:
										bad = "error: " + err.Error()
									case L.GetTop()-base != want:
										bad = fmt.Sprintf("stack grew by %d, want %d", L.GetTop()-base, want)
									default:
										for i := 1; i <= want; i++ {
											var w lua.LValue = lua.LNil
											if i <= produced {
												w = lua.LNumber(499 + i)
												if callee == "lua-params" || callee == "lua-vararg" || callee == "callable-args" || callee == "callable-go-args" {
													// the i-th argument (arguments are 0, 1, 2), nil when not passed
													w = lua.LNil
													if i <= nargs {
														w = lua.LNumber(i - 1)
													}
												}
											}
											if g := L.Get(base + i); g != w {
												bad = fmt.Sprintf("result %d is %v, want %v", i, g, w)
											}
										}
									}
									if bad == "" && (L.Get(1) != lua.LString("g1") || L.Get(2) != lua.LString("g2")) {
										bad = "values below the call were disturbed"
									}
									if bad == "" {
										// the activation's list still works: relative indices address it
										top := L.GetTop()
										probe := lua.LString("probe")
										L.Push(probe)
										if L.GetTop() != top+1 || L.Get(-1) != probe || L.Get(top+1) != probe || L.Get(1) != lua.LString("g1") {
											bad = fmt.Sprintf("after the call, Push/Get address another part of the stack (top %d -> %d, Get(-1)=%v, Get(1)=%v)", top, L.GetTop(), L.Get(-1), L.Get(1))
										}
										L.Pop(1)
									}
									return bad
								}
								bad := ""
								if depth == 0 {
									bad = exec(Lmain)
								} else {
									host := Lmain.NewFunction(func(L *lua.LState) int {
										bad = exec(L)
										L.SetTop(0)
										return 0
									})
									Lmain.SetTop(0)
									if o := gl.Protect(func() error { return Lmain.CallByParam(lua.P{Fn: host, NRet: 0, Protect: true}) }); bad == "" && (o.Err != nil || o.GoPanic != nil) {
										bad = "the host function running the call failed: " + gl.ErrText(o.Err) + o.PanicStr
									}
								}
								if count {
									c.Count("call_contract_tuples", 1)
								}
								if bad != "" {
									cs.Diff = bad
									c.Violation("call contract ("+cs.Info+"): "+bad, cs)
									c.End(false, "")
									continue
								}
								c.End(true, cs.Info)
							}
						}
					}
				}
			}
		}
	}
}

// ---------- (3) object-level operations vs Lua expressions ----------

const objSetup = `
local log = {}
local function mk(name, kind)
  local mt = {}
  mt.__index = function(t, k) return name .. ".index." .. tostring(k) end
  mt.__newindex = function(t, k, v) rawset(STORE, name .. "." .. tostring(k), v) end
  mt.__eq = EQ
  mt.__lt = function(a, b) return true end
  mt.__le = function(a, b) return false end
  mt.__concat = function(a, b) return "cat(" .. type(a) .. "," .. type(b) .. ")" end
  mt.__len = function(a) return 77 end
  mt.__tostring = function(a) return "str:" .. name end
  mt.__call = function(self, x) return x end
  if kind == "ud" then return newud(mt) end
  return setmetatable({present = name}, mt)
end
STORE = {}
EQ = function(a, b) return true end
local plainmt = setmetatable({1, 2, 3, k = "v"}, {__metatable = "locked"})
POOL = {
  1, 2.5, "10", "abc", "", true, false, {10, 20, 30, x = "y"}, plainmt,
  mk("o1", "table"), mk("o2", "table"), mk("u1", "ud"), mk("u2", "ud"),
  setmetatable({}, {__index = {inherited = "yes"}}),
}
OPS = {
  gettable = function(a, k) return a[k] end,
  settable = function(a, k, v) a[k] = v; return rawget(STORE, "o1." .. tostring(k)), (type(a) == "table" and rawget(a, k) or nil) end,
  equal = function(a, b) return a == b end,
  rawequal = function(a, b) return rawequal(a, b) end,
  lessthan = function(a, b) return a < b end,
  concat = function(a, b) return a .. b end,
  objlen = function(a) return #a end,
  getmetatable = function(a) return getmetatable(a) end,
  tostring = function(a) return tostring(a) end,
  next = function(a, k) return next(a, k) end,
}
`

func canonRes(vs []lua.LValue) string {
	ids := gl.NewIDMap()
	var parts []string
	for _, v := range vs {
		s := gl.Canon(v, ids)
		if strings.HasPrefix(s, `"table: 0x`) || strings.HasPrefix(s, `"userdata: 0x`) || strings.HasPrefix(s, `"function: 0x`) {
			s = `"<address>"`
		}
		parts = append(parts, s)
	}
	return strings.Join(parts, ",")
}

func runObjects(c *fw.Ctx, count bool) {
	L := lua.NewState()
	defer L.Close()
	L.SetGlobal("newud", L.NewFunction(func(L *lua.LState) int {
		ud := L.NewUserData()
		ud.Metatable = L.Get(1)
		L.Push(ud)
		return 1
	}))
	if err := L.DoString(objSetup); err != nil {
		panic(err)
	}
	pool := L.GetGlobal("POOL").(*lua.LTable)
	ops := L.GetGlobal("OPS").(*lua.LTable)
	var operands []lua.LValue
	pool.ForEach(func(_, v lua.LValue) { operands = append(operands, v) })
	operands = append(operands, lua.LNil)
	// (numbers next to an integer key are keys of their own: 1.5 is not 1)
	keys := []lua.LValue{lua.LString("present"), lua.LString("missing"), lua.LNumber(1), lua.LNumber(9), lua.LString("x"), lua.LString("inherited"), lua.LNil,
		lua.LNumber(1.5), lua.LNumber(1.999), lua.LNumber(0.25), lua.LNumber(9.5), lua.LNumber(-1), lua.LString("1")}
	goCall := func(f func(L *lua.LState) []lua.LValue) (string, bool) {
		var out []lua.LValue
		fn := L.NewFunction(func(L *lua.LState) int {
			out = f(L)
			return 0
		})
		o := gl.Protect(func() error { return L.CallByParam(lua.P{Fn: fn, NRet: 0, Protect: true}) })
		if o.GoPanic != nil {
			return "GOPANIC " + o.PanicStr, false
		}
		if o.Err != nil {
			return "error", false
		}
		return canonRes(out), true
	}
	luaCall := func(name string, args ...lua.LValue) (string, bool) {
		res, o := gl.Call(L, ops.RawGetString(name), args...)
		if o.GoPanic != nil {
			return "GOPANIC " + o.PanicStr, false
		}
		if o.Err != nil {
			return "error", false
		}
		return canonRes(res), true
	}
	idx := 0
	check := func(opname string, info string, goRes string, goOK bool, luaRes string, luaOK bool) {
		cs := Case{Kind: "object", Idx: idx, Info: opname + " " + info}
		bad := ""
		switch {
		case strings.HasPrefix(goRes, "GOPANIC"):
			bad = "Go API panicked: " + goRes
		case goOK != luaOK:
			bad = fmt.Sprintf("Go API %s (ok=%v) vs Lua expression %s (ok=%v)", goRes, goOK, luaRes, luaOK)
		case goOK && goRes != luaRes:
			bad = fmt.Sprintf("Go API gives %s, the Lua expression gives %s", goRes, luaRes)
		}
		if count {
			c.Count("object_ops_"+opname, 1)
		}
		if bad != "" {
			cs.Diff = bad
			c.Violation("object-level "+opname+" "+info+": "+bad, cs)
			c.End(false, "")
			return
		}
		c.End(true, opname+info)
	}
	b2 := func(b bool) lua.LValue { return lua.LBool(b) }
	for ai, a := range operands {
		ainfo := fmt.Sprintf("a=#%d(%s)", ai, a.Type())
		// unary
		idx++
		if c.Mine(idx) {
			c.Begin(Case{Kind: "object", Idx: idx, Info: "unary " + ainfo})
			g, gok := goCall(func(L *lua.LState) []lua.LValue { return []lua.LValue{lua.LNumber(L.ObjLen(a))} })
			l, lok := luaCall("objlen", a)
			if _, isNum := a.(lua.LNumber); !isNum && a != lua.LNil && a.Type() != lua.LTBool {
				check("ObjLen", ainfo, g, gok, l, lok)
			} else {
				c.End(true, "objlen-skip"+ainfo)
			}
			c.Begin(Case{Kind: "object", Idx: idx, Info: "getmetatable " + ainfo})
			g, gok = goCall(func(L *lua.LState) []lua.LValue { return []lua.LValue{L.GetMetatable(a)} })
			l, lok = luaCall("getmetatable", a)
			// GetMetatable is the raw metatable; the Lua function honours __metatable: compare only when no guard field
			if !strings.Contains(l, "locked") {
				check("GetMetatable", ainfo, g, gok, l, lok)
			} else {
				c.End(true, "getmetatable-guarded"+ainfo)
			}
			c.Begin(Case{Kind: "object", Idx: idx, Info: "tostring " + ainfo})
			g, gok = goCall(func(L *lua.LState) []lua.LValue { return []lua.LValue{L.ToStringMeta(a)} })
			l, lok = luaCall("tostring", a)
			check("ToStringMeta", ainfo, g, gok, l, lok)
		}
		for ki, k := range keys {
			idx++
			if !c.Mine(idx) {
				continue
			}
			kinfo := fmt.Sprintf("%s k=#%d", ainfo, ki)
			c.Begin(Case{Kind: "object", Idx: idx, Info: "gettable " + kinfo})
			g, gok := goCall(func(L *lua.LState) []lua.LValue { return []lua.LValue{L.GetTable(a, k)} })
			l, lok := luaCall("gettable", a, k)
			check("GetTable", kinfo, g, gok, l, lok)
			if ks, ok := k.(lua.LString); ok {
				c.Begin(Case{Kind: "object", Idx: idx, Info: "getfield " + kinfo})
				g, gok = goCall(func(L *lua.LState) []lua.LValue { return []lua.LValue{L.GetField(a, string(ks))} })
				check("GetField", kinfo, g, gok, l, lok)
			}
			if tb, ok := a.(*lua.LTable); ok {
				c.Begin(Case{Kind: "object", Idx: idx, Info: "next " + kinfo})
				g, gok = goCall(func(L *lua.LState) []lua.LValue {
					nk, nv := L.Next(tb, k)
					if nk == lua.LNil {
						return []lua.LValue{lua.LNil}
					}
					return []lua.LValue{nk, nv}
				})
				l2, lok2 := luaCall("next", a, k)
				check("Next", kinfo, g, gok, l2, lok2)
			}
			// SetTable / SetField on fresh-key writes (compare the observable effect)
			if k != lua.LNil {
				c.Begin(Case{Kind: "object", Idx: idx, Info: "settable " + kinfo})
				key := lua.LString(fmt.Sprintf("w%d_%d", ai, ki))
				g, gok = goCall(func(L *lua.LState) []lua.LValue {
					L.SetTable(a, key, lua.LNumber(1))
					var raw lua.LValue = lua.LNil
					if tb, ok := a.(*lua.LTable); ok {
						raw = tb.RawGet(key)
					}
					return []lua.LValue{raw}
				})
				key2 := lua.LString(fmt.Sprintf("v%d_%d", ai, ki))
				l3, lok3 := luaCall("settable", a, key2, lua.LNumber(1))
				// the Lua helper returns (store-entry, rawget): compare only the rawget part
				if lok3 {
					parts := strings.Split(l3, ",")
					l3 = parts[len(parts)-1]
				}
				check("SetTable", kinfo, g, gok, l3, lok3)
			}
		}
		for bi, bv := range operands {
			idx++
			if !c.Mine(idx) {
				continue
			}
			pinfo := fmt.Sprintf("%s b=#%d(%s)", ainfo, bi, bv.Type())
			c.Begin(Case{Kind: "object", Idx: idx, Info: "equal " + pinfo})
			g, gok := goCall(func(L *lua.LState) []lua.LValue { return []lua.LValue{b2(L.Equal(a, bv))} })
			l, lok := luaCall("equal", a, bv)
			check("Equal", pinfo, g, gok, l, lok)
			c.Begin(Case{Kind: "object", Idx: idx, Info: "rawequal " + pinfo})
			g, gok = goCall(func(L *lua.LState) []lua.LValue { return []lua.LValue{b2(L.RawEqual(a, bv))} })
			l, lok = luaCall("rawequal", a, bv)
			check("RawEqual", pinfo, g, gok, l, lok)
			c.Begin(Case{Kind: "object", Idx: idx, Info: "lessthan " + pinfo})
			g, gok = goCall(func(L *lua.LState) []lua.LValue { return []lua.LValue{b2(L.LessThan(a, bv))} })
			l, lok = luaCall("lessthan", a, bv)
			check("LessThan", pinfo, g, gok, l, lok)
			c.Begin(Case{Kind: "object", Idx: idx, Info: "concat " + pinfo})
			g, gok = goCall(func(L *lua.LState) []lua.LValue { return []lua.LValue{lua.LString(L.Concat(a, bv))} })
			l, lok = luaCall("concat", a, bv)
			check("Concat", pinfo, g, gok, l, lok)
		}
	}
	// globals
	if c.Shard == 0 {
		c.Begin(Case{Kind: "object", Info: "globals"})
		L.SetGlobal("GX", lua.LNumber(5))
		res, _ := gl.Call(L, gl.MustLoad(L, "return function() local a = GX; GY = 6; return a end"))
		bad := ""
		if len(res) != 1 || res[0] != lua.LNumber(5) || L.GetGlobal("GY") != lua.LNumber(6) || L.GetGlobal("undefined_global") != lua.LNil {
			bad = fmt.Sprintf("SetGlobal/GetGlobal disagree with global access from Lua: %v %v", res, L.GetGlobal("GY"))
		}
		if bad != "" {
			c.Violation("object-level globals: "+bad, Case{Kind: "object", Info: "globals", Diff: bad})
		}
		c.End(true, "globals")
	}
}

func run(c *fw.Ctx) {
	n := c.Pick(60000, 3000000)
	for i := 0; i < n; i++ {
		if c.Mine(i) {
			runStack(c, i, true)
		}
	}
	runCallContract(c, true, false)
	runCallContract(c, true, true)
	runObjects(c, true)
	e := newObjEnv()
	defer e.L.Close()
	n2 := c.Pick(40000, 2000000)
	for i := 0; i < n2; i++ {
		if !c.Mine(i) {
			continue
		}
		cs := genObjCase(c.SubRand("objrand", i), i)
		runObjRand(c, e, cs, true)
		if i == 5 {
			c.Sample(cs)
		}
	}
	c.Sample(map[string]any{"kind": "call-contract tuple", "example": "callee=lua produced=3 fails=false nargs=2 NRet=5 how=PCall -> stack grows by 5: 500,501,502,nil,nil"})
}

func replay(c *fw.Ctx, raw json.RawMessage) {
	var cs Case
	if err := json.Unmarshal(raw, &cs); err != nil {
		fmt.Println("bad case:", err)
		return
	}
	switch cs.Kind {
	case "objrand":
		var oc ObjCase
		if err := json.Unmarshal(raw, &oc); err != nil {
			fmt.Println("bad case:", err)
			return
		}
		e := newObjEnv()
		defer e.L.Close()
		runObjRand(c, e, &oc, false)
	case "stack":
		runStack(c, cs.Idx, false)
	case "call":
		c.NShards, c.Shard = 1, 0
		runCallContract(c, false, false)
		runCallContract(c, false, true)
	default:
		c.NShards, c.Shard = 1, 0
		runObjects(c, false)
	}
}
