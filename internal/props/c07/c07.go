// Package c07: every compiled function is well-formed bytecode. The verifier
// internal/bcv is a monitor on the compiler's output over generated, corpus
// and adversarially large sources.
package c07

import (
	"encoding/json"
	"fmt"
	"math/rand"
	"os"
	"path/filepath"
	"sort"
	"strings"

	lua "github.com/yuin/gopher-lua"
	"github.com/yuin/gopher-lua/parse"

	"verif/internal/bcv"
	"verif/internal/fw"
	"verif/internal/gl"
	"verif/internal/last"
	"verif/internal/lgen"
)

func init() {
	fw.Register(&fw.Prop{
		ID:    "C07",
		Level: "exploration",
		Rule: "sources: every generator family of the other checks (core, calls, closures, metatables, coroutines, fault programs; canonical and wild layouts), the repository's own .lua test scripts, and an adversarial family " +
			"(1..260 locals, >256/>512/thousands of constants, string keys beyond the RK range, constructors with up to 60000 positional/keyed/mixed items and trailing calls, nesting depth up to 200, 0..60 and >255 upvalues, long jumps, every goto/label shape); " +
			"each accepted source is compiled with lua.Compile(parse.Parse(src)) and every prototype of the tree is checked by the structural verifier (operands, constants, upvalues, nested prototypes, jump targets vs instruction boundaries and multi-word groups, final RETURN, line table); " +
			"bounded-exhaustive tiny programs: 58 statement templates x 1860 expressions (21 atoms, 5 unary forms, 9 binary operators over all atom pairs) x 5 surroundings (quick: a seed-chosen quarter of the templates with all expressions, the rest with atoms and unary forms); jump-boundary family: ten constructs (numeric/generic for, while, repeat, if, if/else, jump-to-jump, break, forward and backward goto) whose bodies are 131066..131075 one-instruction statements; " +
			"rejected sources must be rejected with an error, not a panic; non-trivial = prototype tree with >=2 functions or >=30 instructions; distinct by source hash",
		Assumptions: []string{
			"the verifier decodes with the shifts/masks hard-coded in vm.go and the operand roles read from the VM's instruction handlers",
			"registers an instruction writes without naming them one by one (CALL results, SELF's method slot, FORLOOP/TFORLOOP loop variables, fixed-count VARARG) are asserted against NumUsedRegisters like operands; argument/return/concat/set-list windows (filled by earlier instructions that name each register) are only reported",
			"a jump onto the k-th word of a MOVEN group is accepted: the tail words are complete MOVE instructions of the un-merged stream, executing them one by one is what the group does",
		},
		CrashIsViolation: true,
		Run:              run,
		Replay:           replay,
		MemMB:            6000,
	})
}

// Case is one source text.
type Case struct {
	Kind string `json:"kind"`
	Name string `json:"name,omitempty"`
	Src  string `json:"src,omitempty"`
	// large adversarial sources are regenerated from (Family, N) instead of being stored
	Family string `json:"family,omitempty"`
	N      int    `json:"n,omitempty"`
	M      int    `json:"m,omitempty"`
}

func compile(src, name string) (p *lua.FunctionProto, err error, panicked string) {
	o := gl.Protect(func() error {
		chunk, e := parse.Parse(strings.NewReader(src), name)
		if e != nil {
			return e
		}
		pr, e := lua.Compile(chunk, name)
		if e != nil {
			return e
		}
		p = pr
		return nil
	})
	if o.GoPanic != nil {
		return nil, nil, o.PanicStr
	}
	return p, o.Err, ""
}

func check(c *fw.Ctx, cs Case, src string, st *bcv.Stats, count bool) {
	store := cs
	if len(src) <= 20000 {
		store.Src = src
	}
	c.Begin(store)
	p, err, pan := compile(src, "<string>")
	if pan != "" {
		c.Violation("compiling panicked instead of returning an error: "+fw.Short(pan, 300), store)
		c.End(false, "")
		return
	}
	if err != nil {
		if count {
			c.Count("rejected_"+cs.Kind, 1)
		}
		if gl.IsGoRuntimeErrorText(err.Error()) {
			c.Violation("compile error shows a Go run-time fault: "+fw.Short(err.Error(), 300), store)
		} else if cs.Kind == "gen" {
			c.Violation("generated valid program rejected: "+fw.Short(err.Error(), 300), store)
		}
		c.End(false, "")
		return
	}
	local := bcv.NewStats()
	probs := bcv.Verify(p, local)
	if count {
		st.Protos += local.Protos
		st.Instructions += local.Instructions
		st.JumpTargets += local.JumpTargets
		st.Groups += local.Groups
		st.ImplicitOver += local.ImplicitOver
		for k, v := range local.PerOp {
			st.PerOp[k] += v
		}
		if local.MaxRegs > st.MaxRegs {
			st.MaxRegs = local.MaxRegs
		}
		if local.MaxConsts > st.MaxConsts {
			st.MaxConsts = local.MaxConsts
		}
		c.Count("accepted_"+cs.Kind, 1)
	}
	// dynamic side for the constructor families: the compiled code must build the table it describes
	if want, ok := expectedLen(cs); ok {
		L := lua.NewState()
		var got lua.LValue = lua.LNil
		o := gl.Protect(func() error {
			fn := L.NewFunctionFromProto(p)
			L.Push(fn)
			if err := L.PCall(0, 1, nil); err != nil {
				return err
			}
			got = L.Get(-1)
			return nil
		})
		L.Close()
		if count {
			c.Count("constructors_executed", 1)
		}
		if o.GoPanic != nil || o.Err != nil || got != lua.LNumber(want) {
			c.Violation(fmt.Sprintf("%s program (n %d, variant %d) ran to %v (panic %v, error %v), want %d", cs.Family, cs.N, cs.M, got, o.GoPanic, o.Err, want), store)
		}
	}
	seen := map[string]bool{}
	for _, pr := range probs {
		if seen[pr.Class] {
			continue
		}
		seen[pr.Class] = true
		c.Violation("malformed bytecode ["+pr.Class+"]: "+pr.Msg, store)
	}
	key := src
	if len(key) > 4096 {
		key = fmt.Sprintf("%s/%d/%d/%d", cs.Family, cs.N, cs.M, len(src))
	}
	c.End(local.Protos >= 2 || local.Instructions >= 30, key)
}

// loopExits: loops whose body starts with, or is nothing but, a jump out of it;
// each chunk returns the number given.
var loopExits = []struct {
	src  string
	want int
}{
	{"local t = {1, 2, 3} local function f() for _ in pairs(t) do return end end f() return 1", 1},
	{"local t = {1, 2, 3} local n = 0 local function f() n = n + 1 for _ in pairs(t) do break end end f() return n", 1},
	{"local t = {1, 2, 3} local function f() for _, v in ipairs(t) do return v end end return f()", 1},
	{"local function f() for i = 1, 3 do return end end f() return 2", 2},
	{"local function f() for i = 1, 3 do break end end f() return 3", 3},
	{"local function f() while true do return end end f() return 4", 4},
	{"local function f() while true do break end end f() return 5", 5},
	{"local function f() repeat return until true end f() return 6", 6},
	{"local function f() repeat break until false end f() return 7", 7},
	{"local n = 0 for _ in pairs({1, 2, 3}) do n = n + 1 if n == 2 then break end end return n", 2},
	{"local n = 0 for k in pairs({1, 2, 3}) do do break end end for k in pairs({1}) do n = n + 1 end return n", 1},
	{"local function f(t) for k in pairs(t) do if k then return end end end f({1}) return 8", 8},
	{"local function f(t) for k in pairs(t) do goto out end ::out:: end f({1}) return 9", 9},
	{"local function f(t) for k in next, t do return end return end f({1}) return 10", 10},
}

func expectedLen(cs Case) (int, bool) {
	switch cs.Family {
	case "loop-exits":
		return loopExits[cs.M].want, true
	case "closure-into-field":
		return cs.N*(cs.N+1)/2 + 100, true
	case "move-run":
		a := [8]int{0, 1, 2, 3, 4, 5, 6, 7}
		if cs.M == 1 {
			a[1] = 10
		}
		for i := 0; i < cs.N; i++ {
			a[(i*3+1)%8] = a[(i*5)%8]
		}
		return a[0] + a[1]*2 + a[2]*3 + a[3]*5 + a[4]*7 + a[5]*11 + a[6]*13 + a[7]*17, true
	case "constructor-no-locals":
		return cs.N, true
	case "constructor":
		switch cs.M {
		case 0, 4:
			return cs.N, true
		case 1:
			return 0, true
		case 3, 5, 7:
			return cs.N + 3, true
		case 6:
			return cs.N + 2, true
		}
	}
	return 0, false
}

func corpusFiles() []string {
	var out []string
	for _, d := range []string{"/repo/_lua5.1-tests", "/repo/_glua-tests"} {
		m, _ := filepath.Glob(filepath.Join(d, "*.lua"))
		out = append(out, m...)
	}
	sort.Strings(out)
	return out
}

func genProgram(r *rand.Rand, fam int) *last.Chunk {
	switch fam {
	case 0, 1:
		f := lgen.Features{Calls: true, Varargs: true, Goto: true, Errors: true, Closures: true, BigConsts: r.Intn(6) == 0,
			MaxStmts: 10 + r.Intn(70), MaxDepth: 2 + r.Intn(5), ExprDepth: 2 + r.Intn(5)}
		return lgen.New(r, f).Program()
	case 2:
		return lgen.New(r, lgen.Features{}).CallProgram()
	case 3:
		return lgen.New(r, lgen.Features{}).ClosureProgram()
	case 4:
		return lgen.New(r, lgen.Features{}).MetaProgram()
	case 5:
		return lgen.New(r, lgen.Features{}).CoroutineProgram()
	default:
		return lgen.New(r, lgen.Features{}).FaultProgram(lgen.FaultOpts{Outer: []string{"pcall", "xpcall", "go"}[r.Intn(3)]})
	}
}

func run(c *fw.Ctx) {
	st := bcv.NewStats()
	// 1. generated programs
	total := c.Pick(6000, 500000)
	for i := 0; i < total; i++ {
		if !c.Mine(i) {
			continue
		}
		r := c.SubRand("gen", i)
		ch := genProgram(r, i%7)
		var src string
		if r.Intn(3) == 0 {
			src = last.Render(ch, &last.Layout{Wild: true, R: r, PNewline: 5 + r.Intn(30), AltStrings: true, Semis: true, ExtraParens: true})
		} else {
			src = last.Render(ch, nil)
		}
		check(c, Case{Kind: "gen", N: i}, src, st, true)
		if i < 2 && c.Shard == 0 {
			c.Sample(map[string]any{"kind": "gen", "src": fw.Short(src, 1500)})
		}
	}
	// 1b. bounded-exhaustive tiny programs
	runTiny(c, st)
	// 2. corpus
	for i, f := range corpusFiles() {
		if !c.Mine(i) {
			continue
		}
		b, err := os.ReadFile(f)
		if err != nil {
			continue
		}
		check(c, Case{Kind: "corpus", Name: f}, string(b), st, true)
	}
	// 3. adversarial
	for i, a := range adversarial(c.Quick()) {
		if !c.Mine(i) {
			continue
		}
		src := buildAdv(a.Family, a.N, a.M)
		check(c, a, src, st, true)
		if a.Family == "locals" && a.N == 199 {
			c.Sample(map[string]any{"kind": "adversarial", "family": a.Family, "n": a.N, "src_head": fw.Short(src, 300)})
		}
	}
	c.Count("protos_checked", int64(st.Protos))
	c.Count("instructions_checked", int64(st.Instructions))
	c.Count("jump_targets_checked", int64(st.JumpTargets))
	c.Count("multiword_groups_checked", int64(st.Groups))
	c.Count("implicit_ranges_beyond_declared_count(reported)", int64(st.ImplicitOver))
	for k, v := range st.PerOp {
		c.Count("op_"+k, int64(v))
	}
	c.Note("shard %d: max NumUsedRegisters seen %d, max constants in one prototype %d", c.Shard, st.MaxRegs, st.MaxConsts)
}

func adversarial(quick bool) []Case {
	var out []Case
	add := func(f string, n, m int) { out = append(out, Case{Kind: "adv", Family: f, N: n, M: m}) }
	for _, n := range []int{1, 2, 50, 150, 198, 199, 200, 201, 255, 256, 260} {
		add("locals", n, 0)
		add("locals-blocks", n, 0)
		add("params", n, 0)
	}
	for _, n := range []int{255, 256, 257, 300, 511, 512, 513, 1000, 5000} {
		add("constants-num", n, 0)
		add("constants-str", n, 0)
		add("constants-keys", n, 0)
		add("constants-arith", n, 0)
	}
	for _, n := range []int{0, 1, 49, 50, 51, 99, 100, 101, 150, 500, 2550, 25549, 25550, 25551, 25600, 26000} {
		for m := 0; m < 8; m++ {
			add("constructor", n, m)
		}
	}
	for _, n := range []int{0, 1, 2, 3, 4, 6, 10, 40} {
		for m := 0; m < 10; m++ {
			add("closure-into-field", n, m)
		}
	}
	if !quick {
		add("constants-num", 262143, 0)
		add("constants-num", 262145, 0)
		for m := 0; m < 8; m++ {
			add("constructor", 60000, m)
		}
		add("longjump", 140000, 0)
		add("longjump", 140000, 1)
	}
	for m := 0; m < 10; m++ {
		for _, n := range []int{131066, 131068, 131069, 131070, 131071, 131072, 131073, 131075} {
			if quick && n != 131070 && n != 131071 && n != 131072 && !(m == 6 && n == 131073) {
				continue
			}
			add("jump-boundary", n, m)
		}
	}
	add("longjump", 40000, 0)
	add("longjump", 40000, 1)
	add("longjump", 40000, 2)
	add("longjump", 140000, 2)
	add("many-labels", 44000, 0)
	for _, n := range []int{25550, 25551, 25600, 26000} {
		add("constructor-no-locals", n, 0)
	}
	for _, n := range []int{1, 10, 50, 100, 150, 190, 200} {
		for m := 0; m < 9; m++ {
			add("nesting", n, m)
		}
	}
	for _, n := range []int{0, 1, 2, 30, 59, 60, 100, 199, 254, 255, 256, 300} {
		add("upvalues", n, 0)
		add("upvalues", n, 1)
	}
	for m := 0; m < 12; m++ {
		add("goto", m, 0)
	}
	for _, n := range []int{100, 199, 250, 253, 254, 255, 256, 257, 300} {
		for m := 0; m < 4; m++ {
			add("many-temporaries", n, m)
		}
	}
	for _, n := range []int{300, 520, 600, 800, 1100, 1300} {
		add("constants-methods", n, 0)
		add("constants-methods", n, 1)
	}
	for _, n := range []int{100, 127, 128, 129, 200} {
		add("upvalues-passthrough", n, 0)
	}
	for _, n := range []int{2, 3, 511, 512, 513, 514, 1023, 1024, 1025, 1536, 1600} {
		add("move-run", n, 0)
		add("move-run", n, 1)
	}
	for m := range loopExits {
		add("loop-exits", 0, m)
	}
	return out
}

func buildAdv(fam string, n, m int) string {
	var sb strings.Builder
	switch fam {
	case "locals":
		sb.WriteString("local ")
		for i := 0; i < n; i++ {
			if i > 0 {
				sb.WriteString(", ")
			}
			fmt.Fprintf(&sb, "v%d", i)
		}
		sb.WriteString(" = 1, 2\nlocal f = function() return v0 end\nreturn v0, f")
	case "locals-blocks":
		for i := 0; i < n; i++ {
			fmt.Fprintf(&sb, "local v%d = %d\n", i, i)
		}
		sb.WriteString("do local x, y = v0, v0 + 1; local g = function() return x end end\nreturn v0 + 1")
	case "params":
		sb.WriteString("local function f(")
		for i := 0; i < n; i++ {
			if i > 0 {
				sb.WriteString(", ")
			}
			fmt.Fprintf(&sb, "p%d", i)
		}
		sb.WriteString(", ...) local a, b = ...; return p0, a, b, select('#', ...) end\nreturn f(1, 2, 3)")
	case "constants-num":
		sb.WriteString("local t = {")
		for i := 0; i < n; i++ {
			fmt.Fprintf(&sb, "%d.5,", i)
		}
		sb.WriteString("}\nlocal a = 7.25\nreturn t[1] + 9.75 * a, a == 11.125")
	case "constants-str":
		sb.WriteString("local t = {")
		for i := 0; i < n; i++ {
			fmt.Fprintf(&sb, "\"s%d\",", i)
		}
		sb.WriteString("}\nlocal o = {}\no.zzfield = t[1] .. \"tail\"\nreturn o.zzfield, o:zzmethod()")
	case "constants-keys":
		sb.WriteString("local t = {}\n")
		for i := 0; i < n; i++ {
			fmt.Fprintf(&sb, "t.k%d = %d\n", i, i)
		}
		fmt.Fprintf(&sb, "G%d = t.k%d\nreturn t.k0, t.k%d, t:k%d(), G%d == t.k%d", n, n-1, n-1, n-1, n, n-1)
	case "constants-arith":
		sb.WriteString("local x = 0\n")
		for i := 0; i < n; i++ {
			fmt.Fprintf(&sb, "x = x + %d.25 * 2 - (x < %d.75 and 1 or 0)\n", i, i)
		}
		sb.WriteString("return x")
	case "constructor":
		sb.WriteString("local a, b = 1, 2\nlocal function f() return 1, 2, 3 end\nlocal t = {")
		for i := 0; i < n; i++ {
			switch m {
			case 0, 3, 4, 5, 6, 7:
				fmt.Fprintf(&sb, "%d,", i)
			case 1:
				fmt.Fprintf(&sb, "k%d=%d,", i, i)
			case 2:
				if i%3 == 0 {
					fmt.Fprintf(&sb, "[%d]=%d,", i+100000, i)
				} else if i%3 == 1 {
					fmt.Fprintf(&sb, "k%d=a,", i)
				} else {
					sb.WriteString("b,")
				}
			}
		}
		switch m {
		case 3:
			sb.WriteString("f()")
		case 4:
			sb.WriteString("x = f()")
		case 5:
			sb.WriteString("a, b, 3")
		case 6:
			sb.WriteString("a, b") // the last batch ends in a run of moves between locals
		case 7:
			sb.WriteString("b, a, b")
		}
		if m == 6 || m == 7 {
			sb.WriteString("}\nif t[#t] ~= 2 or t[#t - 1] ~= 1 then return -1 end\nreturn #t, t[1]")
			break
		}
		sb.WriteString("}\nreturn #t, t[1]")
	case "longjump":
		switch m {
		case 0:
			sb.WriteString("local x = 0\nwhile x < 1 do\n")
		case 1:
			sb.WriteString("local x = 0\nif x > 1 then\n")
		default:
			sb.WriteString("local x = 0\nrepeat\n")
		}
		for i := 0; i < n; i++ {
			sb.WriteString("x = x + 1\n")
		}
		if m == 2 {
			sb.WriteString("until x > 0\nreturn x")
		} else {
			sb.WriteString("end\nreturn x")
		}
	case "jump-boundary":
		// n one-instruction statements ("x = 1" on a local) as the body of a
		// construct whose jump has to span them: at, just below and just above
		// the largest distance an sBx field holds (131071)
		fill := func(k int) {
			for i := 0; i < k; i++ {
				sb.WriteString("x = 1\n")
			}
		}
		sb.WriteString("local x, c = 0, false\n")
		switch m {
		case 0:
			sb.WriteString("for i = 1, 2 do\n")
			fill(n)
			sb.WriteString("end\n")
		case 1:
			sb.WriteString("for k in pairs({}) do\n")
			fill(n)
			sb.WriteString("end\n")
		case 2:
			sb.WriteString("while c do\n")
			fill(n)
			sb.WriteString("end\n")
		case 3:
			sb.WriteString("repeat\n")
			fill(n)
			sb.WriteString("until true\n")
		case 4:
			sb.WriteString("if c then\n")
			fill(n)
			sb.WriteString("end\n")
		case 5:
			sb.WriteString("if c then x = 2 else\n")
			fill(n)
			sb.WriteString("end\n")
		case 6:
			// a jump whose target is another jump: the end of an inner if/else that
			// ends the then-part of an outer if/else with a long else-part
			sb.WriteString("if c then\nif x then x = 3 else\n")
			fill(100)
			sb.WriteString("end\nelse\n")
			fill(n - 100)
			sb.WriteString("end\n")
		case 7:
			sb.WriteString("while true do\nif c then break end\n")
			fill(n)
			sb.WriteString("break end\n")
		case 8:
			sb.WriteString("do goto done end\n")
			fill(n)
			sb.WriteString("::done::\n")
		default:
			sb.WriteString("::top::\n")
			fill(n)
			sb.WriteString("if c then goto top end\n")
		}
		sb.WriteString("return x")
	case "many-labels":
		sb.WriteString("local x = 0\n")
		for i := 0; i < n; i++ {
			sb.WriteString("if x then x = 1 end\n")
		}
		sb.WriteString("return x")
	case "constructor-no-locals":
		sb.WriteString("T = {}\nT.x = {")
		for i := 0; i < n; i++ {
			fmt.Fprintf(&sb, "%d,", i)
		}
		sb.WriteString("}\nreturn #T.x")
	case "nesting":
		open := []string{"do ", "if x then ", "while x do ", "for i = 1, 2 do ", "repeat ", "x = function() ", "x = (", "x = {", "x = -"}[m]
		clos := []string{" end", " end", " end", " end", " until x", " end", ")", "}", ""}[m]
		sb.WriteString("local x = 1\n")
		for i := 0; i < n; i++ {
			sb.WriteString(open)
		}
		switch m {
		case 6, 7, 8:
			sb.WriteString("1")
		default:
			sb.WriteString("x = 2")
		}
		for i := 0; i < n; i++ {
			sb.WriteString(clos)
		}
		sb.WriteString("\nreturn x")
	case "upvalues":
		for i := 0; i < n; i++ {
			if i%150 == 0 {
				if i > 0 {
					sb.WriteString("\nreturn function()\n")
				}
			}
			fmt.Fprintf(&sb, "local u%d = %d\n", i, i)
		}
		sb.WriteString("local g = function()\n  return ")
		if n == 0 {
			sb.WriteString("1")
		}
		for i := 0; i < n; i++ {
			if i > 0 {
				sb.WriteString(" + ")
			}
			fmt.Fprintf(&sb, "u%d", i)
		}
		if m == 1 {
			sb.WriteString("\n  , function() return u0 end")
		}
		sb.WriteString("\nend\nreturn g")
		for i := 150; i < n; i += 150 {
			sb.WriteString("\nend")
		}
	case "many-temporaries":
		// one frame that needs about n registers through temporaries only
		sb.WriteString("local function f(...) return select('#', ...) end\nlocal a = 1\n")
		list := func(sep string, item func(i int) string) {
			for i := 0; i < n; i++ {
				if i > 0 {
					sb.WriteString(sep)
				}
				sb.WriteString(item(i))
			}
		}
		switch m {
		case 0:
			sb.WriteString("return f(")
			list(", ", func(i int) string { return fmt.Sprintf("%d", i) })
			sb.WriteString(")")
		case 1:
			sb.WriteString("return ")
			list(", ", func(i int) string { return "a" })
		case 2:
			sb.WriteString("return ")
			list(" .. ", func(i int) string { return "a" })
		default:
			sb.WriteString("local t = {f(")
			list(", ", func(i int) string { return "a + " + fmt.Sprint(i) })
			sb.WriteString(")}\nreturn t")
		}
	case "constants-methods":
		// method definitions and calls whose names land on every constant index up to n
		sb.WriteString("local o = {}\nlocal acc = 0\n")
		for i := 0; i < n; i++ {
			switch (i + m) % 3 {
			case 0:
				fmt.Fprintf(&sb, "function o:m%d() return %d.5 end\n", i, i)
			case 1:
				fmt.Fprintf(&sb, "acc = acc + %d.25\n", i)
			default:
				fmt.Fprintf(&sb, "if o.m%d then acc = acc + o:m%d() + (\"s%d\"):len() end\n", i-2, i-2, i)
			}
		}
		sb.WriteString("return acc")
	case "move-run":
		// n consecutive moves between locals (one bulk move, or several past the group limit)
		sb.WriteString("local a0, a1, a2, a3, a4, a5, a6, a7 = 0, 1, 2, 3, 4, 5, 6, 7\n")
		if m == 1 {
			sb.WriteString("if a0 == 0 then a1 = 10 end\n")
		}
		for i := 0; i < n; i++ {
			fmt.Fprintf(&sb, "a%d = a%d\n", (i*3+1)%8, (i*5)%8)
		}
		sb.WriteString("return a0 + a1 * 2 + a2 * 3 + a3 * 5 + a4 * 7 + a5 * 11 + a6 * 13 + a7 * 17")
	case "loop-exits":
		sb.WriteString(loopExits[m].src)
	case "closure-into-field":
		// a function expression with n outer upvalues and one local of the (small) enclosing function, stored
		// straight into a table field, a constructor field, a global or an upvalue; the chunk calls it
		for i := 0; i < n; i++ {
			fmt.Fprintf(&sb, "local u%d = %d\n", i, i+1)
		}
		sum := "p"
		for i := 0; i < n; i++ {
			if m == 9 {
				sum = sum + fmt.Sprintf(" + u%d", i) // the local first
			} else {
				sum = fmt.Sprintf("u%d + ", i) + sum // the local last
			}
		}
		fn := "function() return " + sum + " end"
		sb.WriteString("local T = {a = {}}\nlocal H\n")
		switch m {
		case 0, 9:
			sb.WriteString("local function factory(p) T.get = " + fn + " end\nfactory(100)\nreturn T.get()")
		case 1:
			sb.WriteString("local function factory(p) T['get it'] = " + fn + " end\nfactory(100)\nreturn T['get it']()")
		case 2:
			sb.WriteString("local function factory(p) T[p] = " + fn + " end\nfactory(100)\nreturn T[100]()")
		case 3:
			sb.WriteString("local function factory(p) local t = {get = " + fn + "} return t end\nreturn factory(100).get()")
		case 4:
			sb.WriteString("local function factory(p) return {get = " + fn + ", [p] = p} end\nreturn factory(100).get()")
		case 5:
			sb.WriteString("local function factory(p) return {" + fn + "} end\nreturn factory(100)[1]()")
		case 6:
			sb.WriteString("local function factory(p) T.a.b = " + fn + " end\nfactory(100)\nreturn T.a.b()")
		case 7:
			sb.WriteString("local function factory(p) GLOBALFN = " + fn + " end\nfactory(100)\nreturn GLOBALFN()")
		default:
			sb.WriteString("local function factory(p) H = " + fn + " T.h = H end\nfactory(100)\nreturn T.h() + H() - 100 - " + fmt.Sprint(n*(n+1)/2))
		}
	case "upvalues-passthrough":
		// a middle function gathers 2n upvalues only through closures nested inside it
		for i := 0; i < n; i++ {
			fmt.Fprintf(&sb, "local a%d = %d\n", i, i)
		}
		sb.WriteString("return function()\n")
		for i := 0; i < n; i++ {
			fmt.Fprintf(&sb, "local b%d = %d\n", i, i)
		}
		sb.WriteString("return function()\nlocal f1 = function() return a0")
		for i := 1; i < n; i++ {
			fmt.Fprintf(&sb, " + a%d", i)
		}
		sb.WriteString(" end\nlocal f2 = function() return b0")
		for i := 1; i < n; i++ {
			fmt.Fprintf(&sb, " + b%d", i)
		}
		sb.WriteString(" end\nreturn f1, f2\nend\nend")
	case "goto":
		shapes := []string{
			"do goto l1 ::l1:: end",
			"do ::l1:: end goto l2 ::l2::",
			"for i = 1, 3 do for j = 1, 3 do if j == 2 then goto continue end local x = function() return j end ::continue:: end end",
			"local i = 0 ::top:: i = i + 1 if i < 3 then goto top end",
			"do local a = 1 local f = function() return a end goto out end ::out::",
			"while true do do local z = 1 local g = function() return z end if z then goto done end end end ::done:: return 1",
			"goto f local function unreachable() end ::f::",
			"do goto e local x ::e:: end",
			"repeat local k = 1 if k then goto c end local m = function() return k end ::c:: until true",
			"::a:: ::b:: ::c:: goto a",
			"if x then goto t elseif y then goto t else goto t end ::t::",
			"for k, v in pairs({}) do goto n ::n:: end for i = 1, 2 do goto n ::n:: end",
		}
		sb.WriteString(shapes[n%len(shapes)])
	}
	return sb.String()
}

func replay(c *fw.Ctx, raw json.RawMessage) {
	var cs Case
	if err := json.Unmarshal(raw, &cs); err != nil {
		fmt.Println("bad case:", err)
		return
	}
	src := cs.Src
	if src == "" && cs.Family != "" {
		src = buildAdv(cs.Family, cs.N, cs.M)
	}
	if src == "" && cs.Name != "" {
		b, _ := os.ReadFile(cs.Name)
		src = string(b)
	}
	if src == "" && cs.Kind == "gen" {
		fmt.Println("generated case without stored source: rerun the check to regenerate it")
		return
	}
	check(c, cs, src, bcv.NewStats(), false)
}
