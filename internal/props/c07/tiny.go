package c07

import (
	"fmt"
	"strings"

	"verif/internal/bcv"
	"verif/internal/fw"
)

// Bounded-exhaustive part: every statement template x every small expression
// (atoms, unary and binary operators over atoms) x a few surroundings. Random
// generation reaches `not true`, `print(1, (...))`, a closure over a loop
// variable in an otherwise empty body or `("s").k = 1` only by luck; this
// enumeration compiles and verifies all of them. Texts the front-end rejects
// are counted, not reported.

var tinyAtoms = []string{"nil", "true", "false", "1", "2.5", "'s'", "x", "y", "g", "...", "f()", "(f())", "(...)", "{}", "{...}",
	"function() end", "function() return x end", "x.k", "x[y]", "x:m()", "g.k"}

var tinyUnary = []string{"not %s", "-%s", "#%s", "not not %s", "(%s)"}

var tinyBinary = []string{"+", "..", "==", "<", "and", "or", "^", "~=", "%"}

var tinyStmts = []string{
	"local a = %s", "local a, b = %s", "local a, b, c = %s", "local a, b = 1, %s", "x = %s", "x, y = %s", "y, x = 1, %s", "g = %s", "g, x = %s",
	"x.k = %s", "x[%s] = 1", "x[1], x = %s, 2", "(%s).k = 1", "(%s)[1] = 2", "x[y], y = %s, 3",
	"return %s", "return 1, %s", "return (%s)", "do return %s end",
	"f(%s)", "f(1, %s)", "f(1, (%s))", "x:m(%s)", "local r = f(%s)", "local r = {f(%s)}",
	"local t = {%s}", "local t = {1, 2, %s}", "local t = {k = %s}", "local t = {[%s] = 1}", "local t = {%s, 2}",
	"if %s then g = 1 end", "if %s then g = 1 else g = 2 end", "if x then g = %s elseif y then g = 2 end", "while %s do break end", "repeat until %s", "repeat local z = 1 until %s",
	"for i = %s, 2 do end", "for i = 1, %s, 1 do local z = i end", "for i = 1, 2 do g = %s end", "for k, v in %s do end", "for k, v in g, %s do x = v end",
	"local z = %s .. 'x'", "local z = (%s) and 1 or 2", "x = x and %s", "x = %s or x", "local z = not (%s)", "local z = -(%s)", "local z = #(%s)", "local z = x == (%s)",
	"for i = 1, 2 do local q = function() return i end g = %s end", "for k, v in g do local q = function() return v end g = %s end",
	"do local z = %s goto e end ::e::", "while x do if %s then break end end",
	"for k, v in %s do g = function() return v end end", "for k, v in g do g = function() return k end x = %s end", "for i = 1, %s do g = function() return i end end",
	"for i = 1, 2 do local z = %s end", "for k in g do do goto cont end ::cont:: x = %s end",
}

// surroundings: prefix, suffix
var tinyFrames = [][2]string{
	{"local x, y = {}, 2\n", ""},
	{"local x, y = {}, 2\n", "\nlocal h = function() return x, y end"},
	{"local x, y = {}, 2\nlocal function w(...)\n", "\nend"},
	{"local x, y = {}, 2\nlocal function w(...)\n", "\nlocal h = function() return x, y end\nend"},
	{"local x, y = {}, 2\nlocal function w(p, ...)\nlocal l1, l2, l3 = 1, 2, 3\n", "\nreturn l1, l2, l3\nend"},
}

func tinyExprs() []string {
	out := append([]string{}, tinyAtoms...)
	for _, u := range tinyUnary {
		for _, a := range tinyAtoms {
			out = append(out, fmt.Sprintf(u, a))
		}
	}
	for _, op := range tinyBinary {
		for _, a := range tinyAtoms {
			for _, b := range tinyAtoms {
				out = append(out, a+" "+op+" "+b)
			}
		}
	}
	return out
}

func runTiny(c *fw.Ctx, st *bcv.Stats) {
	exprs := tinyExprs()
	idx := 0
	for si, stmt := range tinyStmts {
		full := c.Quick() && si%4 != int(c.Seed%4+4)%4 // quick tier: a quarter of the templates with every expression, the rest with atoms and unary forms
		for ei, e := range exprs {
			if full && ei >= len(tinyAtoms)*(1+len(tinyUnary)) {
				break
			}
			body := strings.Replace(stmt, "%s", e, 1)
			for _, fr := range tinyFrames {
				idx++
				if !c.Mine(idx) {
					continue
				}
				check(c, Case{Kind: "tiny", N: idx}, fr[0]+body+fr[1], st, true)
			}
		}
	}
	if c.Shard == 0 {
		c.Note("tiny programs: %d statement templates x %d expressions x %d surroundings", len(tinyStmts), len(exprs), len(tinyFrames))
	}
}
