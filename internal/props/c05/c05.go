// Package c05: errors at any point are contained by protected calls and leave
// state intact. Two fault injectors: host-call faults with the reference
// interpreter as oracle, and instruction-boundary faults (one-shot counting
// context) with a structural oracle against the fault-free run.
package c05

import (
	"context"
	"encoding/json"
	"fmt"
	"reflect"
	"regexp"
	"strings"
	"sync/atomic"
	"time"

	lua "github.com/yuin/gopher-lua"

	"verif/internal/canon"
	"verif/internal/fw"
	"verif/internal/gl"
	"verif/internal/last"
	"verif/internal/lgen"
	"verif/internal/lref"
	"verif/internal/lrun"
	"verif/internal/props/pcommon"
)

func init() {
	fw.Register(&fw.Prop{
		ID:    "C05",
		Level: "fault_enumeration",
		Rule: "programs: journal-style generated programs (side effects = step(tag) journal appends/emits) with protected regions nested 1-4 deep (pcall, xpcall with handler, Go-side PCall/CallByParam with and without handler) whose bodies re-enter Lua through " +
			"nested calls, tail calls, metamethod handlers, closure iterators, host function -> L.Call, table.sort comparators, gsub callbacks, and contain ordinary errors of their own; followed by a fixed probe battery. " +
			"Injector A: the k-th host call raises (string via RaiseError / table / nil / boolean / Go panic / Go run-time fault), k enumerated over every host call of the fault-free run; whole trace compared with the reference interpreter given the same fault. " +
			"Injector B: a context whose Done() is closed on exactly the k-th poll = one-shot fault at instruction dispatch k, k enumerated over every dispatch between the two snap() of the outer protected call (capped per program, cap in evidence); oracle: events of the struck region are a prefix of its fault-free events, " +
			"everything outside is identical to the fault-free run, the cancel error is delivered exactly once, xpcall's handler ran exactly once before the continuation, hook snapshot after == before (call depth, registry top, frame, Panic mode, hasErrorFunc, open upvalues). " +
			"deliberate errors carry messages with percent signs (%d %s %%) and include a fault in the first instruction of a multi-line function; the post section also drives coroutines through the Go API (NewThread + Resume in a host function that checks its own stack height) with failing and succeeding bodies; " +
			"A case = (program, injector, k); non-trivial = the fault struck inside a protected region and the post section ran; distinct by (source hash, injector, k)",
		Assumptions: []string{
			"injector A: the reference interpreter implements pcall/xpcall/error semantics of the manual",
			"injector B: mainLoopWithContext polls the context once per dispatched instruction (read in vm.go); faults inside one instruction's own multi-step work are not injected",
			"instruction-granular injection does not reach inside coroutine threads (they poll a derived context)",
		},
		CrashIsViolation: true,
		Run:              run,
		Replay:           replay,
		WatchdogQuick:    900,
	})
}

// Case is one (program, injector, k).
type Case struct {
	Index    int    `json:"index"`
	Injector string `json:"injector"`
	Outer    string `json:"outer"`
	K        int    `json:"k"`
	Kind     string `json:"kind,omitempty"`
	Src      string `json:"src,omitempty"`
	Diff     string `json:"diff,omitempty"`
}

var faultKinds = []string{"string", "table", "nil", "bool", "gopanic", "goruntime", "number"}

func eclassStr(s string) string {
	switch {
	case strings.Contains(s, "context canceled"):
		return "cancel"
	case strings.Contains(s, lrun.FaultMsg):
		return "fault"
	case strings.Contains(s, "Eown"):
		return "own"
	case strings.Contains(s, "Epost"):
		return "post"
	}
	return "rt"
}

var posRe = regexp.MustCompile(`^(<string>:\d+: ?)+`)

func onState(L *lua.LState, r *lrun.ImplRun) {
	L.SetGlobal("eclass", L.NewFunction(func(L *lua.LState) int {
		switch v := L.Get(1).(type) {
		case lua.LString:
			L.Push(lua.LString(eclassStr(string(v))))
		default:
			L.Push(lua.LString(v.Type().String()))
		}
		return 1
	}))
	L.SetGlobal("epos", L.NewFunction(func(L *lua.LState) int {
		if s, ok := L.Get(1).(lua.LString); ok {
			L.Push(lua.LString(posRe.FindString(string(s))))
		} else {
			L.Push(lua.LString(""))
		}
		return 1
	}))
}

func onModel(in *lref.Interp) {
	in.Register("eclass", func(in *lref.Interp, a []lref.Value) []lref.Value {
		if len(a) == 0 {
			return []lref.Value{"nil"}
		}
		switch v := a[0].(type) {
		case string:
			return []lref.Value{eclassStr(v)}
		case lref.GoPanicValue:
			return []lref.Value{"rt"}
		}
		return []lref.Value{lref.TypeName(a[0])}
	})
	in.Register("epos", func(in *lref.Interp, a []lref.Value) []lref.Value {
		if len(a) > 0 {
			if s, ok := a[0].(string); ok {
				// leading position markers
				i := 0
				for strings.HasPrefix(s[i:], canon.MarkOpen) {
					j := strings.Index(s[i:], canon.MarkClose)
					if j < 0 {
						break
					}
					i += j + 1
				}
				return []lref.Value{s[:i]}
			}
		}
		return []lref.Value{""}
	})
}

func build(c *fw.Ctx, idx int) (*last.Chunk, *lgen.Gen, string, string) {
	r := c.SubRand("prog", idx)
	injector := []string{"A", "B", "B"}[r.Intn(3)]
	var outer string
	if injector == "A" {
		outer = []string{"pcall", "xpcall"}[r.Intn(2)]
	} else {
		outer = []string{"pcall", "xpcall", "go", "gohandler"}[r.Intn(4)]
	}
	g := lgen.New(r, lgen.Features{})
	ch := g.FaultProgram(lgen.FaultOpts{Outer: outer, ModelSafe: injector == "A"})
	return ch, g, injector, outer
}

func run(c *fw.Ctx) {
	total := c.Pick(160, 5000)
	for i := 0; i < total; i++ {
		if c.Mine(i) {
			runProgram(c, i, -1, "", true)
		}
	}
}

func replay(c *fw.Ctx, raw json.RawMessage) {
	var cs Case
	if err := json.Unmarshal(raw, &cs); err != nil {
		fmt.Println("bad case:", err)
		return
	}
	runProgram(c, cs.Index, cs.K, cs.Kind, false)
}

// runProgram runs every fault point of program idx (or only onlyK when >= 0).
func runProgram(c *fw.Ctx, idx int, onlyK int, onlyKind string, count bool) {
	chunk, g, injector, outer := build(c, idx)
	src := last.Render(chunk, nil)
	base := Case{Index: idx, Injector: injector, Outer: outer, Src: src}
	if injector == "A" {
		runA(c, chunk, g, base, onlyK, onlyKind, count)
	} else {
		runB(c, g, base, onlyK, count)
	}
}

// ---------- injector A ----------

func runA(c *fw.Ctx, chunk *last.Chunk, g *lgen.Gen, base Case, onlyK int, onlyKind string, count bool) {
	cfg := &lrun.Config{OnState: onState, OnModel: onModel, MaxSteps: 2000000}
	cs := base
	cs.K = 0
	c.Begin(cs)
	m := lrun.RunModel(chunk, cfg)
	if m.Abort != "" {
		c.Inconclusive("model:" + m.Abort)
		c.End(false, "")
		return
	}
	impl := lrun.RunImpl(base.Src, cfg)
	if d := lrun.Compare(m, impl); d != nil {
		cs.Diff = d.String()
		c.Violation("fault-free run diverges from the reference interpreter: "+d.String(), cs)
		c.End(false, "")
		return
	}
	if v := snapsEqual(impl.Snaps); v != "" {
		c.Violation("fault-free run: "+v, cs)
	}
	c.End(true, base.Src+"/A/0")
	n := impl.EmitCount
	if count {
		c.Count("A_programs", 1)
		c.Count("A_host_calls_fault_free", int64(n))
		for k := range g.Cover {
			c.Count("gen_"+k, 1)
		}
	}
	limit := c.Pick(60, 400)
	stride := 1
	if n > limit {
		stride = (n + limit - 1) / limit
	}
	for k := 1; k <= n; k += stride {
		kinds := []string{faultKinds[(k+base.Index)%len(faultKinds)]}
		if !c.Quick() && k%5 == 0 {
			kinds = faultKinds
		}
		if onlyK >= 0 {
			if k != onlyK {
				continue
			}
			if onlyKind != "" {
				kinds = []string{onlyKind}
			}
		}
		for _, kind := range kinds {
			cs := base
			cs.K, cs.Kind = k, kind
			c.Begin(cs)
			fcfg := &lrun.Config{OnState: onState, OnModel: onModel, MaxSteps: 2000000, FaultAt: k, FaultKind: kind}
			if strings.HasPrefix(kind, "go") && (k+base.Index)%2 == 1 {
				// the option only adds Go's stack to what the Go caller can print: where a
				// panic of a host function is delivered must not depend on it
				fcfg.Opts.IncludeGoStackTrace = true
				if count {
					c.Count("A_go_faults_with_IncludeGoStackTrace", 1)
				}
			}
			// the AST is re-rendered with the same lines; the chunk can be reused by the model
			fm := lrun.RunModel(chunk, fcfg)
			if fm.Abort != "" {
				c.Inconclusive("model:" + fm.Abort)
				c.End(false, "")
				continue
			}
			fi := lrun.RunImpl(base.Src, fcfg)
			bad := ""
			if fm.In.Tags["fault-in-handler"] > 0 {
				// the fault struck inside an xpcall message handler: only the canaries apply
				if fi.GoPanic != "" || fi.RTFault != "" {
					bad = "canary: " + fi.GoPanic + fi.RTFault
				} else {
					c.Inconclusive("fault struck inside an xpcall handler (outcome unspecified in 5.1)")
					c.End(false, "")
					continue
				}
			} else if d := lrun.Compare(fm, fi); d != nil {
				bad = d.String()
			} else if v := snapsEqual(fi.Snaps); v != "" {
				bad = v
			}
			if count {
				c.Count("A_fault_runs", 1)
				c.Count("A_kind_"+kind, 1)
			}
			if bad != "" {
				cs.Diff = bad
				c.Violation(fmt.Sprintf("host-call fault #%d (%s) in %s-protected program: %s", k, kind, base.Outer, bad), cs)
				c.End(false, "")
				continue
			}
			struck := false
			for _, e := range fi.Trace {
				if strings.HasPrefix(e, `"caught:`) && !strings.Contains(e, `,true,`) {
					struck = true
				}
			}
			c.End(struck && !fi.Failed, fmt.Sprintf("%s/A/%d/%s", base.Src, k, kind))
		}
	}
}

func snapsEqual(s []lua.VerifState) string {
	if len(s) < 2 {
		return ""
	}
	a, b := s[0], s[1]
	switch {
	case a.Sp != b.Sp:
		return fmt.Sprintf("call depth after the protected call %d != before %d", b.Sp, a.Sp)
	case a.RegTop != b.RegTop:
		return fmt.Sprintf("registry top after the protected call %d != before %d", b.RegTop, a.RegTop)
	case a.HasFrame != b.HasFrame || a.FrameIdx != b.FrameIdx:
		return "current frame after the protected call differs from before"
	case a.PanicFn != b.PanicFn:
		return "Panic mode not restored after the protected call"
	case a.HasErrorFunc != b.HasErrorFunc:
		return "hasErrorFunc not restored after the protected call"
	case !reflect.DeepEqual(a.OpenUpvalues, b.OpenUpvalues):
		return fmt.Sprintf("open upvalue list after the protected call %v != before %v", b.OpenUpvalues, a.OpenUpvalues)
	}
	for i, r := range b.OpenUpvalues {
		if r >= b.RegTop || b.OpenUpvaluesClosed[i] {
			return fmt.Sprintf("dangling open upvalue at register %d (top %d)", r, b.RegTop)
		}
	}
	return ""
}

// ---------- injector B ----------

// oneShot is a context whose Done() returns a closed channel on exactly the k-th call.
type oneShot struct {
	n      int64
	k      int64
	closed chan struct{}
	open   chan struct{}
}

func newOneShot(k int) *oneShot {
	o := &oneShot{k: int64(k), closed: make(chan struct{}), open: make(chan struct{})}
	close(o.closed)
	return o
}
func (o *oneShot) Deadline() (time.Time, bool) { return time.Time{}, false }
func (o *oneShot) Done() <-chan struct{} {
	if atomic.AddInt64(&o.n, 1) == o.k {
		return o.closed
	}
	return o.open
}
func (o *oneShot) Err() error                        { return context.Canceled }
func (o *oneShot) Value(key interface{}) interface{} { return nil }
func (o *oneShot) polls() int                        { return int(atomic.LoadInt64(&o.n)) }

type bRun struct {
	trace   []string
	snapAt  []int
	snaps   []lua.VerifState
	failed  bool
	errText string
	goPanic string
	rtFault string
	topLeft string
	polls   int
}

// runOnce executes the program with a one-shot fault at poll k (0 = never).
func runOnce(src string, outer string, k int) *bRun {
	ctx := newOneShot(k)
	res := &bRun{}
	cfg := &lrun.Config{Ctx: ctx, KeepState: true, OnState: func(L *lua.LState, r *lrun.ImplRun) {
		onState(L, r)
		L.SetGlobal("snap", L.NewFunction(func(L *lua.LState) int {
			res.snapAt = append(res.snapAt, ctx.polls())
			res.snaps = append(res.snaps, lua.VerifSnapshot(L))
			return 0
		}))
	}}
	r := lrun.RunImpl(src, cfg)
	L := r.L
	defer L.Close()
	res.failed, res.errText, res.goPanic, res.rtFault = r.Failed, r.ErrText, r.GoPanic, r.RTFault
	if (outer == "go" || outer == "gohandler") && !r.Failed {
		// the harness is the protected caller
		ids := gl.NewIDMap()
		body := L.GetGlobal("BODY")
		var handler *lua.LFunction
		if outer == "gohandler" {
			handler = L.NewFunction(func(L *lua.LState) int {
				r.Trace = append(r.Trace, `"TOP:handler-of-R0"`)
				return 1
			})
		}
		L.Push(lua.LString("guard"))
		top := L.GetTop()
		res.snapAt = append(res.snapAt, ctx.polls())
		res.snaps = append(res.snaps, lua.VerifSnapshot(L))
		o := gl.Protect(func() error {
			return L.CallByParam(lua.P{Fn: body, NRet: 2, Protect: true, Handler: handler}, lua.LNumber(1), lua.LNumber(2))
		})
		res.snapAt = append(res.snapAt, ctx.polls())
		if o.GoPanic != nil {
			res.goPanic = o.PanicStr
		}
		ok := o.Err == nil
		class, pos := "nil", ""
		if !ok {
			if obj := gl.ErrObject(o.Err); obj != nil {
				if s, isStr := obj.(lua.LString); isStr {
					class = eclassStr(string(s))
					pos = posRe.FindString(string(s))
				} else {
					class = obj.Type().String()
				}
			}
			if L.GetTop() != top {
				res.topLeft = fmt.Sprintf("failed protected CallByParam left %d values on the stack", L.GetTop()-top)
			}
		} else {
			if L.GetTop() != top+2 {
				res.topLeft = fmt.Sprintf("CallByParam with NRet=2 left %d values", L.GetTop()-top)
			}
			L.SetTop(top)
		}
		if L.Get(top) != lua.LString("guard") {
			res.topLeft = "value below the protected call was disturbed"
		}
		L.SetTop(top)
		res.snaps = append(res.snaps, lua.VerifSnapshot(L))
		_ = ids
		r.Trace = append(r.Trace, fmt.Sprintf(`"caught:R0:in:TOP",%v,%q,%s`, ok, class, canon.ImplString(pos)))
		for _, fn := range []string{"LOCALS", "POST"} {
			o := gl.Protect(func() error {
				return L.CallByParam(lua.P{Fn: L.GetGlobal(fn), NRet: 0, Protect: true})
			})
			if o.GoPanic != nil {
				res.goPanic = o.PanicStr
			}
			if o.Err != nil {
				res.failed = true
				res.errText = o.Err.Error()
			}
		}
		L.SetTop(0)
	}
	res.trace = r.Trace
	res.polls = ctx.polls()
	return res
}

var caughtRe = regexp.MustCompile(`^"caught:(R\d+):in:(\w+)",(true|false),"(\w+)"`)
var stepRe = regexp.MustCompile(`^"(\w+):(s\d+|handler-of-(R\d+))"`)

func inSub(region string, s string, parent map[string]string) bool {
	for r := region; r != "" && r != "TOP"; r = parent[r] {
		if r == s {
			return true
		}
	}
	return false
}

// checkB applies the structural oracle to a faulted run against the fault-free one.
func checkB(t0, tk *bRun, info *lgen.FaultInfo, outer string) (violation string, struck string) {
	if tk.goPanic != "" {
		return "Go panic escaped the protected call: " + tk.goPanic, ""
	}
	if tk.rtFault != "" {
		return "Go run-time fault surfaced: " + tk.rtFault, ""
	}
	if tk.topLeft != "" {
		return tk.topLeft, ""
	}
	// who caught the cancellation?
	var cancels []string
	for _, e := range tk.trace {
		if m := caughtRe.FindStringSubmatch(e); m != nil && m[4] == "cancel" {
			cancels = append(cancels, m[1])
		}
	}
	if len(cancels) > 1 {
		return fmt.Sprintf("the single fault was delivered to %d protected calls: %v", len(cancels), cancels), ""
	}
	if len(cancels) == 0 {
		// struck outside every protected region: the chunk itself must fail with the cancel error, trace a prefix
		if !tk.failed || !strings.Contains(tk.errText, "context canceled") {
			return fmt.Sprintf("fault was injected but no protected call and not the top level received it (failed=%v err=%s)", tk.failed, fw.Short(tk.errText, 120)), ""
		}
		for i, e := range tk.trace {
			if i >= len(t0.trace) || t0.trace[i] != e {
				return fmt.Sprintf("trace before the top-level failure is not a prefix of the fault-free trace at event %d: %s", i, fw.Short(e, 100)), ""
			}
		}
		return "", "TOP"
	}
	S := cancels[0]
	if tk.failed {
		return fmt.Sprintf("region %s caught the fault but the chunk still failed: %s", S, fw.Short(tk.errText, 160)), S
	}
	belongs := func(e string) (inS bool, handlerOfS bool, caughtS bool) {
		if m := caughtRe.FindStringSubmatch(e); m != nil {
			if m[1] == S {
				return false, false, true
			}
			return inSub(m[2], S, info.Parent), false, false
		}
		if m := stepRe.FindStringSubmatch(e); m != nil {
			if m[3] == S {
				return false, true, false
			}
			return inSub(m[1], S, info.Parent), false, false
		}
		return false, false, false
	}
	split := func(tr []string) (outside, inside []string, handlerIdx []int, caughtIdx int) {
		caughtIdx = -1
		for i, e := range tr {
			in, h, cgt := belongs(e)
			switch {
			case h:
				handlerIdx = append(handlerIdx, i)
			case cgt:
				caughtIdx = i
				outside = append(outside, `"caught:`+S+`"`)
			case in:
				inside = append(inside, e)
			default:
				outside = append(outside, e)
			}
		}
		return
	}
	out0, in0, _, _ := split(t0.trace)
	outk, ink, hk, ck := split(tk.trace)
	if len(ink) > len(in0) {
		return fmt.Sprintf("region %s produced %d side effects under the fault, %d fault-free (not a prefix)", S, len(ink), len(in0)), S
	}
	for i := range ink {
		if ink[i] != in0[i] {
			return fmt.Sprintf("side effects of the failed region %s are not a prefix of its fault-free side effects at #%d: %s vs %s", S, i, fw.Short(ink[i], 80), fw.Short(in0[i], 80)), S
		}
	}
	if len(outk) != len(out0) {
		return fmt.Sprintf("behaviour outside the failed region %s differs from the fault-free run: %d events vs %d", S, len(outk), len(out0)), S
	}
	for i := range outk {
		if outk[i] != out0[i] {
			return fmt.Sprintf("behaviour outside the failed region %s differs from the fault-free run at event %d: %s vs %s", S, i, fw.Short(outk[i], 100), fw.Short(out0[i], 100)), S
		}
	}
	if info.Xpcall[S] {
		h0 := 0
		for _, e := range t0.trace {
			if _, h, _ := belongs(e); h {
				h0++
			}
		}
		if len(hk) == 0 && h0 == 1 {
			// the region fails by itself in the fault-free run and the fault struck its handler before the handler's first effect
		} else if len(hk) != 1 {
			return fmt.Sprintf("xpcall handler of region %s ran %d times", S, len(hk)), S
		}
		if ck >= 0 && len(hk) > 0 && hk[0] > ck {
			return fmt.Sprintf("xpcall handler of region %s ran after the continuation", S), S
		}
	}
	if len(tk.snaps) >= 2 {
		if v := snapsEqual(tk.snaps[:2]); v != "" {
			return v, S
		}
		if len(t0.snaps) >= 2 && (tk.snaps[1].Sp != t0.snaps[1].Sp || tk.snaps[1].RegTop != t0.snaps[1].RegTop) {
			return "state after the protected call differs from the fault-free run's", S
		}
	}
	return "", S
}

func runB(c *fw.Ctx, g *lgen.Gen, base Case, onlyK int, count bool) {
	cs := base
	cs.K = 0
	c.Begin(cs)
	t0 := runOnce(base.Src, base.Outer, 0)
	if t0.goPanic != "" || t0.rtFault != "" || t0.failed || t0.topLeft != "" || len(t0.snapAt) < 2 {
		c.Violation(fmt.Sprintf("fault-free run of a journal program misbehaves: panic=%q fault=%q failed=%v (%s) %s snaps=%d", t0.goPanic, t0.rtFault, t0.failed, fw.Short(t0.errText, 200), t0.topLeft, len(t0.snapAt)), cs)
		c.End(false, "")
		return
	}
	if v := snapsEqual(t0.snaps[:2]); v != "" {
		c.Violation("fault-free run: "+v, cs)
	}
	c.End(true, base.Src+"/B/0")
	lo, hi := t0.snapAt[0]+1, t0.snapAt[1]
	if count {
		c.Count("B_programs", 1)
		c.Count("B_outer_"+base.Outer, 1)
		c.Count("B_dispatches_in_protected_call", int64(hi-lo+1))
		for k := range g.Cover {
			c.Count("gen_"+k, 1)
		}
	}
	limit := c.Pick(250, 3000)
	stride := 1
	if hi-lo+1 > limit {
		stride = (hi - lo + limit) / limit
		if count {
			c.Count("B_programs_capped", 1)
		}
	}
	for k := lo; k <= hi; k += stride {
		if onlyK >= 0 && k != onlyK {
			continue
		}
		cs := base
		cs.K = k
		c.Begin(cs)
		tk := runOnce(base.Src, base.Outer, k)
		v, struck := checkB(t0, tk, g.Fault, base.Outer)
		if count {
			c.Count("B_fault_runs", 1)
			if struck != "" {
				depth := 0
				for r := struck; r != "" && r != "TOP"; r = g.Fault.Parent[r] {
					depth++
				}
				c.Count(fmt.Sprintf("B_struck_depth_%d", depth), 1)
			}
		}
		if v != "" {
			cs.Diff = v
			c.Violation(fmt.Sprintf("one-shot fault at dispatch %d (%s outer): %s", k, base.Outer, v), cs)
			c.End(false, "")
			continue
		}
		if c.WantSample() && struck != "" && struck != "TOP" && len(base.Src) < 20000 {
			c.Sample(map[string]any{"src": base.Src, "fault_at_dispatch": k, "struck_region": struck, "trace": tk.trace})
		}
		c.End(struck != "" && struck != "TOP", fmt.Sprintf("%s/B/%d", base.Src, k))
	}
}

var _ = pcommon.Case{}
