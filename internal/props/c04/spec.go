package c04

import (
	"verif/internal/fw"
	"verif/internal/last"
	"verif/internal/lgen"
	"verif/internal/lrun"
	"verif/internal/props/pcommon"
)

const quickN, thoroughN = 30000, 2000000

const rule = "programs: 2-4 objects (tables, and userdata made by a host function) with metatables drawn from random event subsets, shared or distinct metatables, shared or distinct-but-equivalent comparison handlers, " +
	"__index/__newindex as function or table chained to earlier objects and up to the loop limit; every handler first emits (event@object, operands in the order received); " +
	"8-32 protected operations: every arithmetic/concat operator with operand pairs from {object, other object, number, numeric string, string, nil, boolean, plain table} in both orders and in constant and register form, " +
	"== ~= < <= > >=, unary minus, index (key as constant, local, number, boolean, object; method-call form), assignment to present/absent keys whose present values include false, 0 and \"\" (key in every form, values false/nil/number/string, also rawset), " +
	"calls (plain and tail position, __call as the iterator of a generic for), tostring, getmetatable/setmetatable with __metatable, rawget/rawequal; handlers are Lua functions or host (Go) functions (hosth records and returns its arguments; rawget/rawequal as __call); __newindex chains through tables to the loop limit; " +
	"trace compared with the reference interpreter (line-by-line transcription of manual 2.8); non-trivial = >=3 handler events; distinct by source hash"

var assumptions = []string{
	"reference interpreter follows the manual 2.8 pseudo-code; __len on tables and the second argument of __unm are outside the statement and not asserted",
}

var reproducers = map[string]func(c *fw.Ctx) (bool, string){}

func config(c *fw.Ctx, idx int) *lrun.Config { return defaultConfig() }

func classify(c *fw.Ctx, o *pcommon.Outcome, cs pcommon.Case) {
	c.Violation("implementation diverges from the reference interpreter: "+o.Diff.String(), cs)
}

func nontrivial(o *pcommon.Outcome, g *lgen.Gen) bool {
	ev := 0
	for _, e := range o.Impl.Trace {
		if len(e) > 3 && e[:3] == `"__` || len(e) > 3 && (e[:4] == `"eq"` || e[:4] == `"lt"` || e[:4] == `"le"`) {
			ev++
		}
	}
	return ev >= 3
}

func extra(c *fw.Ctx, idx int, chunk *last.Chunk, o *pcommon.Outcome, count bool) {
	if count {
		ev := 0
		for _, e := range o.Impl.Trace {
			if len(e) > 3 && e[:3] == `"__` {
				ev++
			}
		}
		c.Count("handler_events", int64(ev))
	}
}
