// Package c04: C04 check over generated meta programs (reference-interpreter monitor).
package c04

import (
	"encoding/json"

	lua "github.com/yuin/gopher-lua"

	"verif/internal/fw"
	"verif/internal/last"
	"verif/internal/lgen"
	"verif/internal/lrun"
	"verif/internal/props/pcommon"
)

var _ = lua.MultRet

func init() {
	fw.Register(&fw.Prop{
		ID:               "C04",
		Level:            "exploration",
		Rule:             rule,
		Assumptions:      assumptions,
		CrashIsViolation: true,
		HangSeconds:      120,
		Run:              run,
		Replay:           replay,
		Reproducers:      reproducers,
	})
}

func build(c *fw.Ctx, idx int) (*last.Chunk, *lgen.Gen) {
	r := c.SubRand("prog", idx)
	g := lgen.New(r, lgen.Features{Calls: true, Varargs: true, Closures: true})
	return g.MetaProgram(), g
}

func runCase(c *fw.Ctx, idx int, count bool) {
	chunk, g := build(c, idx)
	cfg := config(c, idx)
	o := pcommon.RunProgram(c, chunk, cfg, pcommon.Case{Index: idx}, classify)
	if o.Diff != nil || o.Impl == nil {
		c.End(false, "")
		return
	}
	extra(c, idx, chunk, o, count)
	if count {
		pcommon.CountCommon(c, o, g)
		pcommon.Sample(c, o)
	}
	c.End(!o.Aborted && nontrivial(o, g), o.Src)
}

func run(c *fw.Ctx) {
	total := c.Pick(quickN, thoroughN)
	for i := 0; i < total; i++ {
		if c.Mine(i) {
			runCase(c, i, true)
		}
	}
}

func replay(c *fw.Ctx, raw json.RawMessage) {
	cs, ok := pcommon.ParseCase(raw)
	if !ok {
		return
	}
	runCase(c, cs.Index, false)
}

func defaultConfig() *lrun.Config { return &lrun.Config{MaxSteps: 4000000} }
