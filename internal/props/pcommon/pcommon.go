// Package pcommon holds what the program-based checks (C02-C06, C12, C17)
// share: run one generated program on model and implementation, compare,
// count, and hand a disagreement to the property's classifier.
package pcommon

import (
	"encoding/json"
	"fmt"

	"verif/internal/fw"
	"verif/internal/last"
	"verif/internal/lgen"
	"verif/internal/lrun"
)

// Case identifies one generated program.
type Case struct {
	Index int    `json:"index"`
	Kind  string `json:"kind,omitempty"`
	Src   string `json:"src,omitempty"`
	Diff  string `json:"diff,omitempty"`
	Extra string `json:"extra,omitempty"`
}

// Outcome of RunProgram.
type Outcome struct {
	Model   *lrun.ModelRun
	Impl    *lrun.ImplRun
	Diff    *lrun.Diff
	Aborted bool
	Src     string
}

// Classifier decides violation vs known finding for a disagreement; it must call c.Violation / c.ViolationOrKnown itself.
type Classifier func(c *fw.Ctx, o *Outcome, cs Case)

// RunProgram renders chunk canonically, runs both sides and compares.
func RunProgram(c *fw.Ctx, chunk *last.Chunk, cfg *lrun.Config, cs Case, classify Classifier) *Outcome {
	src := last.Render(chunk, nil)
	cs.Src = src
	c.Begin(cs)
	o := &Outcome{Src: src}
	o.Model = lrun.RunModel(chunk, cfg)
	if o.Model.Abort != "" {
		c.Inconclusive("model:" + o.Model.Abort)
		o.Aborted = true
		if lrun.ResourceAbort(o.Model.Abort) {
			return o
		}
	}
	o.Impl = lrun.RunImpl(src, cfg)
	if o.Aborted {
		if o.Impl.GoPanic != "" || o.Impl.RTFault != "" || o.Impl.LoadErr != "" {
			cs.Diff = o.Impl.GoPanic + o.Impl.RTFault + o.Impl.LoadErr
			o.Diff = &lrun.Diff{Kind: "canary", Msg: cs.Diff}
			if classify != nil {
				classify(c, o, cs)
			} else {
				c.Violation("canary: "+cs.Diff, cs)
			}
		}
		return o
	}
	if d := lrun.Compare(o.Model, o.Impl); d != nil {
		o.Diff = d
		cs.Diff = d.String()
		if classify != nil {
			classify(c, o, cs)
		} else {
			c.Violation("implementation diverges from the reference interpreter: "+d.String(), cs)
		}
	}
	return o
}

// CountCommon records the usual observation counters.
func CountCommon(c *fw.Ctx, o *Outcome, g *lgen.Gen) {
	if o.Model != nil && o.Model.In != nil {
		c.Count("model_steps", int64(o.Model.In.Steps))
		for k, v := range o.Model.In.StmtKinds {
			c.Count("stmt_"+k, int64(v))
		}
		for k, v := range o.Model.In.Tags {
			c.Count("tag_"+k, int64(v))
		}
	}
	if o.Impl != nil {
		c.Count("trace_events", int64(len(o.Impl.Trace)))
		if o.Impl.Failed {
			c.Count("programs_ending_in_error", 1)
		}
	}
	if g != nil {
		for k := range g.Cover {
			c.Count("gen_"+k, 1)
		}
	}
}

// Sample keeps a short program as evidence sample.
func Sample(c *fw.Ctx, o *Outcome) {
	if c.WantSample() && o.Impl != nil && len(o.Src) < 2500 && len(o.Impl.Trace) >= 3 {
		tr := o.Impl.Trace
		if len(tr) > 12 {
			tr = tr[:12]
		}
		c.Sample(map[string]any{"src": o.Src, "trace_head": tr})
	}
}

// ParseCase decodes a replay case.
func ParseCase(raw json.RawMessage) (Case, bool) {
	var cs Case
	if err := json.Unmarshal(raw, &cs); err != nil {
		fmt.Println("bad case:", err)
		return cs, false
	}
	return cs, true
}
