// Package c08: loading arbitrary bytes ends in a function or a syntax error.
package c08

import (
	"bytes"
	"encoding/json"
	"fmt"
	"io"
	"math/rand"
	"os"
	"path/filepath"
	"runtime/debug"
	"sort"
	"strings"

	lua "github.com/yuin/gopher-lua"

	"verif/internal/fw"
	"verif/internal/gl"
	"verif/internal/last"
	"verif/internal/lgen"
	"verif/internal/lrun"
)

func init() {
	fw.Register(&fw.Prop{
		ID:    "C08",
		Level: "exploration",
		Rule: "inputs: uniformly random bytes; random token soups of the language; generated valid programs and the repository's .lua scripts mutated by byte flip/insert/delete, token swap/duplicate/delete, bracket and quote unbalancing; " +
			"truncation of generated programs at EVERY byte offset (and of corpus scripts at a stride); escapes, long brackets and numerals cut mid-way; reserved words in identifier position; goto/label shapes; nesting families ((, {, -, not, #, .., do, function, if, index/call chains) at depths 1e2..1e4 (quick) / 1e6 (thorough); shebang/empty files through LoadFile. " +
			"Oracle per input: LoadString returns a function, or an *ApiError of type ApiErrorSyntax; no Go panic, no worker death; loading the same bytes twice gives the same class and message; " +
			"every rendering (canonical, wild layouts with CR/LF/CRLF, comments, semicolons, neutral parentheses, long strings) of a generated valid program loads, and all renderings of one program behave identically when run. " +
			"a fixed program whose line ends sit in long strings, after a backslash, in a block comment and between statements is shifted byte by byte across the scanner reader's 4096/8192(/12288)-byte refills with LF, CRLF, LFCR and CR line ends: it must load and behave as the LF rendering; " +
			"deep families (conditions: not/and/or/< chains in if/while/until; flat chains of + mixed arithmetic == or; elseif, index, call, method chains) at 10^6 terms (thorough also 3*10^6) with the worker's goroutine stack limited to 64 MB so that recursion without the syntax-level guard overflows at a 4 MB input; " +
			"non-trivial = input >= 8 bytes whose outcome is not a rejection of the very first token; distinct by input hash",
		Assumptions: []string{
			"'never hangs' is restated as: the worker finishes inside a generous wall-clock watchdog; a firing is inconclusive",
			"the guarded recursion of the loader (10000 syntax levels) needs less than 8 MB of goroutine stack on every nesting family (measured with debug.SetMaxStack 4/8/16 MB); the workers run with a 64 MB limit (Go's default is 1 GB), which makes unbounded recursion show at 10^6 levels instead of 4*10^6",
			"the renderer internal/last only produces texts of the Lua 5.1 grammar (+goto); its layouts are meaning-preserving by construction",
		},
		CrashIsViolation: true,
		Run:              run,
		Replay:           replay,
		MemMB:            7000,
		// loading never takes long for its size: the largest inputs (10^6-level
		// nesting, 3*10^6 in the thorough tier) take seconds, the rest micro- to
		// milliseconds; a case that is still running after 15 minutes is a loader
		// that does not terminate (e.g. jump threading going round a cycle)
		HangSeconds: 900,
		Reproducers: map[string]func(c *fw.Ctx) (bool, string){
			"C08-deep-nesting-stack-overflow": func(c *fw.Ctx) (bool, string) {
				// dies with a fatal Go stack overflow (matcher "crash": the process death is the observation)
				src := "return " + strings.Repeat("not ", 8000000) + "1"
				cls, msg := load([]byte(src))
				return false, "survived: " + cls + " " + fw.Short(msg, 80)
			},
		},
	})
}

// Case is one input.
type Case struct {
	Kind  string `json:"kind"`
	Bytes []byte `json:"bytes,omitempty"`
	// large inputs are regenerated
	Family string `json:"family,omitempty"`
	N      int    `json:"n,omitempty"`
}

func load(b []byte) (class string, msg string) {
	L := lua.NewState(lua.Options{SkipOpenLibs: true})
	defer L.Close()
	var fn *lua.LFunction
	o := gl.Protect(func() error {
		f, err := L.LoadString(string(b))
		fn = f
		return err
	})
	if o.GoPanic != nil {
		return "panic", o.PanicStr
	}
	if o.Err != nil {
		ae, ok := o.Err.(*lua.ApiError)
		if !ok {
			return "error-not-api", fmt.Sprintf("%T: %v", o.Err, o.Err)
		}
		if ae.Type != lua.ApiErrorSyntax {
			return "error-not-syntax", fmt.Sprintf("type %d: %v", ae.Type, ae.Object)
		}
		return "syntax", ae.Object.String()
	}
	if fn == nil {
		return "nil-function", ""
	}
	return "function", ""
}

func firstTokenRejection(msg string) bool {
	return strings.Contains(msg, "line:1(column:1)") || strings.Contains(msg, "line:1(column:2)")
}

func check(c *fw.Ctx, cs Case, b []byte, count bool) string {
	store := cs
	if len(b) <= 4096 {
		store.Bytes = b
	}
	c.Begin(store)
	cls, msg := load(b)
	bad := ""
	switch cls {
	case "panic":
		bad = "Go panic out of LoadString: " + fw.Short(msg, 300)
	case "error-not-api", "error-not-syntax", "nil-function":
		bad = "load outcome is neither a function nor a syntax error: " + cls + " " + fw.Short(msg, 300)
	case "syntax":
		if gl.IsGoRuntimeErrorText(msg) {
			bad = "syntax error text shows a Go run-time fault: " + fw.Short(msg, 300)
		}
	}
	if bad == "" {
		cls2, msg2 := load(b)
		if cls2 != cls || msg2 != msg {
			bad = fmt.Sprintf("loading the same bytes twice differs: %s %q / %s %q", cls, fw.Short(msg, 120), cls2, fw.Short(msg2, 120))
		}
	}
	if count {
		c.Count("outcome_"+cls+"_"+cs.Kind, 1)
	}
	if bad != "" {
		c.Violation(bad, store)
		c.End(false, "")
		return cls
	}
	key := string(b)
	if len(b) > 4096 {
		key = fmt.Sprintf("%s/%s/%d/%d", cs.Kind, cs.Family, cs.N, len(b))
	}
	c.End(len(b) >= 8 && !(cls == "syntax" && firstTokenRejection(msg)), key)
	return cls
}

var tokens = []string{"and", "break", "do", "else", "elseif", "end", "false", "for", "function", "goto", "if", "in", "local", "nil", "not", "or",
	"repeat", "return", "then", "true", "until", "while", "+", "-", "*", "/", "%", "^", "#", "==", "~=", "<=", ">=", "<", ">", "=", "(", ")", "{", "}", "[", "]",
	";", ":", ",", ".", "..", "...", "::", "x", "y", "f", "t", "0", "1", "0x1F", "1e5", "1e", ".5", "5.", "\"s\"", "'q'", "[[long]]", "[==[a]==]", "--c\n", "--[[b]]", "\n", "\r\n", "\"\\", "\"\\9", "[[", "[=", "0x", "\"\\z"}

func corpusFiles() []string {
	var out []string
	for _, d := range []string{"/repo/_lua5.1-tests", "/repo/_glua-tests"} {
		m, _ := filepath.Glob(filepath.Join(d, "*.lua"))
		out = append(out, m...)
	}
	sort.Strings(out)
	return out
}

func mutate(r *rand.Rand, b []byte) []byte {
	out := append([]byte(nil), b...)
	if len(out) == 0 {
		return []byte{byte(r.Intn(256))}
	}
	n := 1 + r.Intn(3)
	for i := 0; i < n; i++ {
		p := r.Intn(len(out))
		switch r.Intn(9) {
		case 0:
			out[p] = byte(r.Intn(256))
		case 1:
			out = append(out[:p], append([]byte{byte(r.Intn(256))}, out[p:]...)...)
		case 2:
			out = append(out[:p], out[p+1:]...)
			if len(out) == 0 {
				return out
			}
		case 3: // insert a token
			t := tokens[r.Intn(len(tokens))]
			out = append(out[:p], append([]byte(" "+t+" "), out[p:]...)...)
		case 4: // delete a word
			q := p
			for q < len(out) && out[q] != ' ' && out[q] != '\n' {
				q++
			}
			out = append(out[:p], out[q:]...)
			if len(out) == 0 {
				return out
			}
		case 5: // duplicate a span
			q := p + r.Intn(20)
			if q > len(out) {
				q = len(out)
			}
			out = append(out[:q], append(append([]byte(nil), out[p:q]...), out[q:]...)...)
		case 6: // unbalance a bracket or quote
			br := []byte("()[]{}\"'")
			for q := p; q < len(out); q++ {
				if bytes.IndexByte(br, out[q]) >= 0 {
					out = append(out[:q], out[q+1:]...)
					break
				}
			}
			if len(out) == 0 {
				return out
			}
		case 7: // swap two spans
			q := r.Intn(len(out))
			out[p], out[q] = out[q], out[p]
		default: // replace an identifier-ish word by a reserved word
			kw := tokens[r.Intn(22)]
			out = append(out[:p], append([]byte(" "+kw+" "), out[p:]...)...)
		}
	}
	return out
}

var nestFamilies = []string{"paren", "brace", "minus", "not", "len", "concat", "do", "function", "if", "index", "call", "string-call", "while", "repeat", "for", "and", "pow", "table-nest", "method"}

func buildNest(fam string, n int) []byte {
	var sb strings.Builder
	rep := func(s string) { sb.WriteString(strings.Repeat(s, n)) }
	switch fam {
	case "paren":
		sb.WriteString("return ")
		rep("(")
		sb.WriteString("1")
		rep(")")
	case "brace":
		sb.WriteString("return ")
		rep("{")
		rep("}")
	case "minus":
		sb.WriteString("return ")
		rep("- ")
		sb.WriteString("1")
	case "not":
		sb.WriteString("return ")
		rep("not ")
		sb.WriteString("1")
	case "len":
		sb.WriteString("return ")
		rep("#")
		sb.WriteString("'x'")
	case "concat":
		sb.WriteString("return 'a'")
		rep("..'a'")
	case "do":
		rep("do ")
		rep(" end")
	case "function":
		rep("local function f() ")
		rep(" end")
	case "if":
		rep("if x then ")
		rep(" end")
	case "index":
		sb.WriteString("return t")
		rep(".a")
	case "call":
		sb.WriteString("return f")
		rep("()")
	case "string-call":
		sb.WriteString("return f")
		rep("'s'")
	case "while":
		rep("while x do ")
		rep(" end")
	case "repeat":
		rep("repeat ")
		rep(" until x")
	case "for":
		rep("for i=1,2 do ")
		rep(" end")
	case "and":
		sb.WriteString("return x")
		rep(" and x")
	case "pow":
		sb.WriteString("return 2")
		rep("^2")
	case "table-nest":
		sb.WriteString("return ")
		rep("{a=")
		sb.WriteString("1")
		rep("}")
	case "method":
		sb.WriteString("return o")
		rep(":m()")
	// conditions (compiled by the branch-condition compiler, not as values)
	case "if-not":
		sb.WriteString("if ")
		rep("not ")
		sb.WriteString("x then end")
	case "while-not":
		sb.WriteString("while ")
		rep("not ")
		sb.WriteString("x do end")
	case "until-not":
		sb.WriteString("repeat until ")
		rep("not ")
		sb.WriteString("x")
	case "if-and":
		sb.WriteString("if x")
		rep(" and x")
		sb.WriteString(" then end")
	case "if-or":
		sb.WriteString("if x")
		rep(" or x")
		sb.WriteString(" then end")
	case "if-and-right":
		sb.WriteString("if ")
		rep("x and (")
		sb.WriteString("x")
		rep(")")
		sb.WriteString(" then end")
	case "if-lt-chain":
		sb.WriteString("if x")
		rep(" < x")
		sb.WriteString(" then end")
	// flat left-associative chains (one deep left spine in the tree)
	case "flat-add":
		sb.WriteString("return x")
		rep("+x")
	case "flat-mixed-arith":
		sb.WriteString("return x")
		for i := 0; i < n; i++ {
			sb.WriteString([]string{"+x", "-1", "*x", "/2", "%x"}[i%5])
		}
	case "flat-const-add":
		sb.WriteString("return 1")
		rep("+1")
	case "flat-eq":
		sb.WriteString("return x")
		rep("==x")
	case "flat-or":
		sb.WriteString("return x")
		rep(" or x")
	case "elseif":
		sb.WriteString("if x then")
		rep(" elseif x then")
		sb.WriteString(" end")
	case "assign-chain":
		sb.WriteString("local t = {} t")
		rep(".a")
		sb.WriteString(" = 1")
	case "call-args":
		sb.WriteString("return ")
		rep("f(")
		sb.WriteString("1")
		rep(")")
	}
	return []byte(sb.String())
}

// deepFamilies are loaded at 10^6 levels / terms in both tiers. The worker's
// goroutine stack limit is lowered (see run), so a compiler or parser path
// that recurses once per level without the syntax-level guard overflows here
// at a 4 MB input instead of at the 16-30 MB one that the default limit needs.
var deepFamilies = []string{"if-not", "while-not", "until-not", "if-and", "if-or", "if-and-right", "if-lt-chain", "flat-add", "flat-mixed-arith", "flat-const-add",
	"flat-eq", "flat-or", "elseif", "assign-chain", "call-args", "not", "minus", "and", "call", "index", "method", "paren", "string-call", "len"}

// maxStackMB: the compiler's guarded recursion (10000 syntax levels) needs
// between 4 and 8 MB of goroutine stack on every nesting family (measured);
// 64 MB leaves a factor of 8. Go's default is 1 GB on 64-bit platforms.
const maxStackMB = 64

func run(c *fw.Ctx) {
	debug.SetMaxStack(maxStackMB << 20)
	// 1. random bytes and token soups
	n1 := c.Pick(20000, 2000000)
	for i := 0; i < n1; i++ {
		if !c.Mine(i) {
			continue
		}
		r := c.SubRand("rand", i)
		var b []byte
		if i%2 == 0 {
			b = make([]byte, r.Intn(64))
			for k := range b {
				b[k] = byte(r.Intn(256))
			}
			check(c, Case{Kind: "random-bytes"}, b, true)
		} else {
			var sb strings.Builder
			for k, m := 0, 1+r.Intn(40); k < m; k++ {
				sb.WriteString(tokens[r.Intn(len(tokens))])
				if r.Intn(4) != 0 {
					sb.WriteByte(' ')
				}
			}
			check(c, Case{Kind: "token-soup"}, []byte(sb.String()), true)
		}
	}
	// 2. generated programs: all layouts load and behave identically; mutations; truncation at every offset
	n2 := c.Pick(240, 20000)
	for i := 0; i < n2; i++ {
		if !c.Mine(i) {
			continue
		}
		r := c.SubRand("gen", i)
		feat := lgen.Features{Calls: true, Varargs: true, Goto: true, Closures: true, MaxStmts: 6 + r.Intn(30), MaxDepth: 2 + r.Intn(3), ExprDepth: 2 + r.Intn(3)}
		mk := func() *last.Chunk { return lgen.New(c.SubRand("genprog", i), feat).Program() }
		canon := last.Render(mk(), nil)
		c.Begin(Case{Kind: "layouts", Bytes: []byte(canon)})
		ref := lrun.RunImpl(canon, &lrun.Config{})
		if ref.LoadErr != "" || ref.GoPanic != "" {
			c.Violation("generated valid program does not load: "+ref.LoadErr+ref.GoPanic, Case{Kind: "layouts", Bytes: []byte(canon)})
			c.End(false, "")
			continue
		}
		c.End(true, canon)
		for v := 0; v < c.Pick(4, 8); v++ {
			eol := []string{"\n", "\r\n", "\r", "\n\r"}[v%4]
			src := last.Render(mk(), &last.Layout{Wild: true, R: r, PNewline: 3 + r.Intn(50), AltStrings: true, Semis: true, ExtraParens: true, EOL: eol})
			c.Begin(Case{Kind: "layout-variant", Bytes: []byte(src)})
			got := lrun.RunImpl(src, &lrun.Config{})
			c.Count("layout_variants_eol_"+fmt.Sprintf("%q", eol), 1)
			if got.LoadErr != "" || got.GoPanic != "" {
				c.Violation("a lexical rendering of a valid program does not load: "+got.LoadErr+got.GoPanic, Case{Kind: "layout-variant", Bytes: []byte(src)})
				c.End(false, "")
				continue
			}
			if d := lrun.CompareImpl(ref, got, true); d != nil {
				c.Violation("two lexical renderings of one program behave differently: "+d.String(), Case{Kind: "layout-variant", Bytes: []byte(src + "\n--[==[ canonical rendering:\n" + canon + "]==]")})
				c.End(false, "")
				continue
			}
			c.End(true, src)
			if i < 1 && v == 0 && c.Shard == 0 {
				c.Sample(map[string]any{"kind": "layout-variant", "src": fw.Short(src, 1200)})
			}
		}
		// mutations
		for m := 0; m < c.Pick(30, 60); m++ {
			check(c, Case{Kind: "mutated-gen"}, mutate(r, []byte(canon)), true)
		}
		// truncation at every offset
		if len(canon) <= 6000 {
			for k := 0; k <= len(canon); k++ {
				check(c, Case{Kind: "truncated-gen", N: k}, []byte(canon[:k]), true)
			}
			c.Count("programs_truncated_at_every_offset", 1)
		}
	}
	// 2b. line ends of every kind slid across the reader's 4096-byte refills
	{
		ref := lrun.RunImpl(alignSource(0, "\n"), &lrun.Config{})
		plen := len(alignProgram) + 40
		ai := 0
		for _, boundary := range []int{4096, 8192, 12288}[:c.Pick(2, 3)] {
			for k := boundary - plen; k <= boundary+4; k++ {
				for _, eol := range []string{"\r\n", "\n\r", "\r", "\n"} {
					ai++
					if c.Mine(ai) {
						runAlign(c, k, eol, ref, true)
					}
				}
			}
		}
	}
	// 2c. readers that break: a fixed text with comments, strings and long
	// strings, cut by a persistent read error at every offset
	{
		src := []byte("local a = 1 -- comment\nlocal s = \"str\\\nx\" --[[ block\n comment ]] local l = [==[long\nstring]==]\nreturn a, s, l, 0x10, 1e3 --[=[ tail")
		for k := 0; k <= len(src); k++ {
			if c.Mine(k) {
				runReaderFault(c, src, k, true)
			}
		}
	}
	// 3. corpus: mutations and strided truncation
	for i, f := range corpusFiles() {
		if !c.Mine(i) {
			continue
		}
		b, err := os.ReadFile(f)
		if err != nil {
			continue
		}
		r := c.SubRand("corpus", i)
		check(c, Case{Kind: "corpus", Family: f}, b, true)
		for m := 0; m < c.Pick(20, 400); m++ {
			mb := mutate(r, b)
			check(c, Case{Kind: "mutated-corpus", Family: f, Bytes: nil}, mb, true)
		}
		stride := len(b)/c.Pick(40, 1500) + 1
		for k := 0; k <= len(b); k += stride {
			check(c, Case{Kind: "truncated-corpus", Family: f, N: k}, b[:k], true)
		}
	}
	// 4. nesting families
	sizes := []int{100, 1000, 10000}
	if !c.Quick() {
		sizes = append(sizes, 100000, 1000000)
	}
	idx := 0
	for _, fam := range nestFamilies {
		for _, n := range sizes {
			idx++
			if !c.Mine(idx) {
				continue
			}
			if n >= 100000 && (fam == "do" || fam == "function" || fam == "if" || fam == "while" || fam == "repeat" || fam == "for" || fam == "concat" || fam == "and" || fam == "pow" || fam == "index" || fam == "call" || fam == "string-call" || fam == "method" || fam == "table-nest" || fam == "brace") && n > 100000 {
				continue // quadratic loader cost on these families: 1e5 is the deepest run
			}
			cls := check(c, Case{Kind: "nesting", Family: fam, N: n}, buildNest(fam, n), true)
			c.Count(fmt.Sprintf("nesting_%s_%d_%s", fam, n, cls), 1)
		}
	}
	// 4b. deep families
	for _, fam := range deepFamilies {
		// (3*10^6 levels of the right-nesting families need more than the worker's 7 GB
		// address space for the generated parser's value stack, which grows by doubling
		// at about 1 KB per entry: a resource bill, not a crash, and not what this
		// family is after - unguarded recursion already shows at 10^6 under the 64 MB
		// stack limit. The thorough tier adds a second size below, not above.)
		for _, n := range []int{1000000, 600000}[:c.Pick(1, 2)] {
			idx++
			if !c.Mine(idx) {
				continue
			}
			cls := check(c, Case{Kind: "nesting", Family: fam, N: n}, buildNest(fam, n), true)
			c.Count(fmt.Sprintf("nesting_%s_%d_%s", fam, n, cls), 1)
		}
	}
	// 4c. flat programs: thousands of simple statements one after the other are
	// ordinary programs (nothing nests, every jump is short): they must load
	for fi, unit := range []string{"if 1 then x = 1 end ", "if true then end ", "while true do break end ", "repeat until true ", "repeat x = 1 until 'x' ", "if x then elseif true then end ",
		"x = x or 1 ", "if not nil then x = 2 end ", "do local a = 1 end ", "for i = 1, 0 do end ", "x = function() return 1 end ", "while false do end ",
		"if x == nil then x = 1 end ", "while x ~= x do end ", "repeat until x == x ", "if x and x < 2 then x = x end ", "if not (x == 3) or x then end ", "x = x == 1 and 2 or x "} {
		for _, n := range []int{9000, 12000, 20000} {
			idx++
			if !c.Mine(idx) {
				continue
			}
			b := []byte("local x\n" + strings.Repeat(unit, n) + "\nreturn x")
			cs := Case{Kind: "flat", Family: unit, N: n}
			cls := check(c, cs, b, true)
			c.Count(fmt.Sprintf("flat_%d_%d_%s", fi, n, cls), 1)
			if cls == "syntax" {
				_, msg := load(b)
				c.Violation(fmt.Sprintf("a flat program of %d statements `%s` is rejected: %s", n, strings.TrimSpace(unit), fw.Short(msg, 200)), cs)
			}
		}
	}
	// 5. special cut points
	specials := []string{"\"\\", "\"\\1", "\"\\12", "\"\\256\"", "\"\\\n", "'\\\r\n'", "[[", "[=[", "[==[x]=]", "--[[", "--[==[x]]", "0x", "0xg", "1e", "1e+", "1..2", "1...2", "3..", ".", "..", "...",
		"#!shebang\nreturn 1", "#!only", "#", "\xef\xbb\xbfreturn 1", "return\"a\\z  b\"", "x = 'a\nb'", "goto", "goto 1", "::", "::x", "::x::", "::x:: ::x::", "goto nowhere", "do local a goto l local b ::l:: b = 1 end",
		"return 1 % 0", "return 0 % 0", "return -(3) % (2-2)", "return 2^53 % 0", "return 1 / 0", "return 0 / 0", "return 5 % -0", "local a = 7 % 0.0", "return (1%0)^(0/0) .. ''", "return 2^1024, -2^1024, 2^-1080", "x = 1e308 * 10 % 3",
		"if a then a = 1 end while true do end", "if a then a = 1 end repeat until false", "if a then b = 1 else while true do end end", "while c do if d then break end end while true do end",
		"if a or b then while true do end end", "do goto l end ::l:: while true do end", "repeat if a then break end until b repeat until false", "::a:: goto a", "::a:: ::b:: goto a", "while true do end",
		"f\n(1)", "local x <const> = 1", "a.b:c = 1", "return return", "break", "for = 1", "function end", "local function", "x = }", "x = ]]", "\x00", "return '\x00'", "return \"\\0\"", "while do end", "if then end", "and = 1", "local and = 1"}
	// (inputs of a few dozen bytes load in microseconds: two minutes is non-termination)
	c.HangLimit(120)
	for i, s := range specials {
		if c.Mine(i) {
			check(c, Case{Kind: "special"}, []byte(s), true)
		}
	}
	c.HangLimit(0)
	// 6. LoadFile: shebang and empty files
	if c.Shard == 0 {
		for i, content := range []string{"", "#!/usr/bin/lua\nreturn 1", "#!x", "#", "\n", "return 1"} {
			p := filepath.Join(c.Work, fmt.Sprintf("f%d.lua", i))
			os.WriteFile(p, []byte(content), 0o644)
			c.Begin(Case{Kind: "loadfile", Bytes: []byte(content)})
			L := lua.NewState(lua.Options{SkipOpenLibs: true})
			o := gl.Protect(func() error { _, err := L.LoadFile(p); return err })
			L.Close()
			if o.GoPanic != nil {
				c.Violation("Go panic out of LoadFile: "+o.PanicStr, Case{Kind: "loadfile", Bytes: []byte(content)})
			} else if o.Err != nil {
				if ae, ok := o.Err.(*lua.ApiError); !ok || (ae.Type != lua.ApiErrorSyntax && ae.Type != lua.ApiErrorFile) {
					c.Violation("LoadFile outcome is neither a function nor a syntax/file error: "+o.Err.Error(), Case{Kind: "loadfile", Bytes: []byte(content)})
				}
			}
			c.Count("loadfile_cases", 1)
			c.End(true, "loadfile:"+content)
		}
		// a first line that starts with '#' is skipped whatever its length (also longer than the loader's read
		// buffer); what follows is the chunk
		for _, n := range []int{1, 100, 4093, 4094, 4095, 4096, 4097, 4098, 8191, 8192, 8193, 20000} {
			for _, eol := range []string{"\n", "\r\n"} {
				content := "#" + strings.Repeat("x", n-1) + eol + "return 7"
				cs := Case{Kind: "loadfile-long-first-line", Bytes: []byte(fmt.Sprintf("# line of %d bytes, line end %q, then: return 7", n, eol))}
				p := filepath.Join(c.Work, "long-first-line.lua")
				os.WriteFile(p, []byte(content), 0o644)
				c.Begin(cs)
				L := lua.NewState(lua.Options{SkipOpenLibs: true})
				var got lua.LValue = lua.LNil
				o := gl.Protect(func() error {
					fn, err := L.LoadFile(p)
					if err != nil {
						return err
					}
					L.Push(fn)
					if err := L.PCall(0, 1, nil); err != nil {
						return err
					}
					got = L.Get(-1)
					return nil
				})
				L.Close()
				if o.GoPanic != nil {
					c.Violation("Go panic out of LoadFile: "+o.PanicStr, cs)
				} else if o.Err != nil || got != lua.LNumber(7) {
					c.Violation(fmt.Sprintf("a file whose first line is a %d-byte '#' line followed by `return 7` gave %v (error %v)", n, got, o.Err), cs)
				}
				c.Count("loadfile_long_first_line_cases", 1)
				c.End(true, fmt.Sprintf("loadfile-long:%d:%q", n, eol))
			}
		}
	}
}

// faultReader serves the first k bytes of data and then fails with a
// persistent non-EOF error (a connection that broke). A loader that ignores
// the error would read "bytes" for ever: after giveUp further calls the
// reader ends the input so that the run terminates and the count is the
// verdict (logical steps, not time).
type faultReader struct {
	data  []byte
	k     int
	pos   int
	calls int
}

const giveUp = 2000

var errBroken = fmt.Errorf("verif: reader broke")

func (f *faultReader) Read(p []byte) (int, error) {
	if f.pos < f.k {
		n := copy(p, f.data[f.pos:f.k])
		f.pos += n
		return n, nil
	}
	f.calls++
	if f.calls > giveUp {
		return 0, io.EOF
	}
	return 0, errBroken
}

// runReaderFault: Load from a reader that breaks after k bytes must come back
// (with any outcome) without calling the broken reader over and over.
func runReaderFault(c *fw.Ctx, src []byte, k int, count bool) {
	cs := Case{Kind: "reader-fault", N: k}
	if len(src) <= 4096 {
		cs.Bytes = src
	}
	c.Begin(cs)
	fr := &faultReader{data: src, k: k}
	L := lua.NewState(lua.Options{SkipOpenLibs: true})
	o := gl.Protect(func() error { _, err := L.Load(fr, "<reader>"); return err })
	L.Close()
	if count {
		c.Count("reader_fault_cases", 1)
	}
	switch {
	case o.GoPanic != nil:
		c.Violation("Go panic out of Load when the reader fails: "+fw.Short(o.PanicStr, 200), cs)
	case fr.calls > giveUp:
		c.Violation(fmt.Sprintf("the reader failed after %d bytes with a persistent error; Load called Read %d more times (it never stops on its own)", k, giveUp), cs)
	}
	c.End(true, fmt.Sprintf("readerfault/%d/%d", len(src), k))
}

// alignProgram: every line end of this text is slid across the 4096-byte
// refills of the scanner's reader. The line ends sit inside long strings,
// after a backslash in a short string, inside a block comment and between
// statements; one statement fails so that a line number is reported.
const alignProgram = "local s = [[\nfirst\nsecond]]\nemit(#s, s)\nlocal t = \"a\\\nb\"\nemit(#t, t)\nlocal u = [==[\n\nx\n]==]\nemit(#u, u)\n" +
	"--[[ block\ncomment ]] emit('after-comment')\nemit(pcall(function()\n  local z = nil + 1\nend))\nemit('last')\n"

func alignSource(k int, eol string) string {
	return "--" + strings.Repeat("x", k) + eol + strings.ReplaceAll(alignProgram, "\n", eol)
}

func runAlign(c *fw.Ctx, k int, eol string, ref *lrun.ImplRun, count bool) {
	src := alignSource(k, eol)
	cs := Case{Kind: "align", N: k, Family: eol}
	c.Begin(cs)
	got := lrun.RunImpl(src, &lrun.Config{})
	if count {
		c.Count("alignment_cases", 1)
	}
	if got.LoadErr != "" || got.GoPanic != "" {
		c.Violation(fmt.Sprintf("a valid program is rejected when its line ends (%q) are shifted by %d bytes: %s", eol, k, got.LoadErr+got.GoPanic), cs)
		c.End(false, "")
		return
	}
	if d := lrun.CompareImpl(ref, got, true); d != nil {
		c.Violation(fmt.Sprintf("the meaning of a program depends on where its line ends (%q) fall (shift %d): %s", eol, k, d.String()), cs)
		c.End(false, "")
		return
	}
	c.End(true, fmt.Sprintf("align/%d/%q", k, eol))
}

func replay(c *fw.Ctx, raw json.RawMessage) {
	debug.SetMaxStack(maxStackMB << 20)
	var cs Case
	if err := json.Unmarshal(raw, &cs); err != nil {
		fmt.Println("bad case:", err)
		return
	}
	if cs.Kind == "reader-fault" {
		runReaderFault(c, cs.Bytes, cs.N, false)
		return
	}
	if cs.Kind == "align" {
		runAlign(c, cs.N, cs.Family, lrun.RunImpl(alignSource(0, "\n"), &lrun.Config{}), false)
		return
	}
	b := cs.Bytes
	if b == nil && cs.Kind == "nesting" {
		b = buildNest(cs.Family, cs.N)
	}
	if b == nil && cs.Kind == "flat" {
		b = []byte("local x\n" + strings.Repeat(cs.Family, cs.N) + "\nreturn x")
		if cls, msg := load(b); cls == "syntax" {
			c.Violation(fmt.Sprintf("a flat program of %d statements `%s` is rejected: %s", cs.N, strings.TrimSpace(cs.Family), fw.Short(msg, 200)), cs)
		}
		return
	}
	if b == nil && cs.Family != "" {
		fb, _ := os.ReadFile(cs.Family)
		if cs.Kind == "truncated-corpus" && cs.N <= len(fb) {
			fb = fb[:cs.N]
		}
		b = fb
	}
	if cs.Kind == "layout-variant" || cs.Kind == "layouts" {
		got := lrun.RunImpl(string(b), &lrun.Config{})
		if got.LoadErr != "" || got.GoPanic != "" {
			c.Violation("rendering does not load: "+got.LoadErr+got.GoPanic, cs)
		}
		return
	}
	check(c, cs, b, false)
}
