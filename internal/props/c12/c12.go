// Package c12: limits surface as catchable errors; below them Options never
// change behaviour. Three monitors: differential over configurations,
// limit-straddling programs, and model-based component histories over the
// call-frame stacks and the registry (through the verif hooks).
package c12

import (
	"context"
	"encoding/json"
	"fmt"
	"math/rand"
	"strings"
	"sync/atomic"
	"time"

	lua "github.com/yuin/gopher-lua"

	"verif/internal/fw"
	"verif/internal/last"
	"verif/internal/lgen"
	"verif/internal/lrun"
)

func init() {
	fw.Register(&fw.Prop{
		ID:    "C12",
		Level: "exploration",
		Rule: "(1) configurations x programs: each generated program (core, calls, closures, coroutines families) is run under 12 (quick) / 40 (thorough) Options drawn from CallStackSize {32,33,63,64,65,255,256,1024} x MinimizeStackMemory x " +
			"RegistrySize {128,129,256,5120} x RegistryMaxSize {0,+1,+33,1e5} x RegistryGrowStep {1,7,32,1000} x {no context, background context, never-firing counting context}; all traces must be identical and equal the reference interpreter's (a configuration in which the program meets a limit is excluded and counted); " +
			"(2b) the overflow is caught by pcall, by xpcall with a handler, or by the resume of a coroutine whose own stack/registry overflows (status dead, running() unchanged); arguments of a wrap call and of a resume of a suspended coroutine; for growable registries also windows across the first growth (every size must work); " +
			"(2) limits: recursion depth d and argument count n straddling each limit (d = L-12..L+3 for call stacks, fixed and auto-growing, also inside coroutines; n around RegistrySize / RegistryMaxSize via unpack, varargs, {...}): the overflow must be a string error caught by pcall, monotone in d/n, repeatable 100x, with caller locals intact, state balanced and a probe battery unchanged afterwards; " +
			"(3) components: random operation histories on the two call-frame stack implementations (push/pop/SetSp across 0-5 segment boundaries/At/Last/IsFull/IsEmpty/FreeAll) and on the registry (Push/Pop/Set/SetTop/CopyRange/FillNil/Insert with growth at exact growBy/maxSize boundaries) against slice models; " +
			"non-trivial = a program compared under >=3 configurations, a limit case whose window contains both outcomes, or a component history with >=20 operations; distinct by content hash",
		Assumptions: []string{
			"reference interpreter for the within-limits traces",
			"component models: a frame stack is a slice with capacity (size, or size rounded up to a segment multiple when auto-growing); the registry is an array with a top whose slots above top are unspecified",
		},
		CrashIsViolation: true,
		Run:              run,
		Replay:           replay,
		Reproducers: map[string]func(c *fw.Ctx) (bool, string){
			fResumeArgs: func(c *fw.Ctx) (bool, string) {
				res := runLimit(limitProgram("resume-args", 200, 1, false, "none"), lua.Options{RegistrySize: 256})
				return res.bad == "" && (strings.Contains(res.errText, "RESUME-RAISED") || strings.Contains(res.errText, "STATUS-OF-FAILED")), res.bad + " " + fw.Short(res.errText, 200)
			},
		},
	})
}

type Case struct {
	Kind  string `json:"kind"`
	Index int    `json:"index"`
	Src   string `json:"src,omitempty"`
	Cfg   string `json:"cfg,omitempty"`
	Diff  string `json:"diff,omitempty"`
	Ops   []Op   `json:"ops,omitempty"`
	Ops2  []Op   `json:"ops2,omitempty"` // a second stack driven side by side (Kind stack)
	Auto  bool   `json:"auto,omitempty"`
	Size  int    `json:"size,omitempty"`
	Grow  int    `json:"grow,omitempty"`
	Max   int    `json:"max,omitempty"`
}

// ---------- (1) configurations x programs ----------

type neverCtx struct {
	n    int64
	open chan struct{}
}

func (c *neverCtx) Deadline() (time.Time, bool)       { return time.Time{}, false }
func (c *neverCtx) Done() <-chan struct{}             { atomic.AddInt64(&c.n, 1); return c.open }
func (c *neverCtx) Err() error                        { return nil }
func (c *neverCtx) Value(key interface{}) interface{} { return nil }

type config struct {
	opts lua.Options
	ctx  string
}

func (c config) String() string {
	return fmt.Sprintf("CallStackSize=%d MinimizeStackMemory=%v RegistrySize=%d RegistryMaxSize=%d RegistryGrowStep=%d ctx=%s",
		c.opts.CallStackSize, c.opts.MinimizeStackMemory, c.opts.RegistrySize, c.opts.RegistryMaxSize, c.opts.RegistryGrowStep, c.ctx)
}

func randConfig(r *rand.Rand) config {
	rs := []int{128, 129, 256, 5120}[r.Intn(4)]
	var max int
	switch r.Intn(4) {
	case 1:
		max = rs + 1
	case 2:
		max = rs + 33
	case 3:
		max = 100000
	}
	return config{
		opts: lua.Options{
			CallStackSize:       []int{32, 33, 63, 64, 65, 255, 256, 1024}[r.Intn(8)],
			MinimizeStackMemory: r.Intn(2) == 0,
			RegistrySize:        rs,
			RegistryMaxSize:     max,
			RegistryGrowStep:    []int{1, 7, 32, 1000}[r.Intn(4)],
		},
		ctx: []string{"none", "background", "counting", "replaced"}[r.Intn(4)],
	}
}

func (c config) lrunConfig() *lrun.Config {
	cfg := &lrun.Config{Opts: c.opts, MaxSteps: 3000000}
	switch c.ctx {
	case "background":
		cfg.Ctx = context.Background()
	case "counting":
		cfg.Ctx = &neverCtx{open: make(chan struct{})}
	case "replaced":
		// the state carried a context that has ended; an undone one replaces it
		old, cancel := context.WithCancel(context.Background())
		cancel()
		cfg.CtxBefore = old
		cfg.Ctx = context.Background()
	}
	return cfg
}

func buildProgram(c *fw.Ctx, idx int) *last.Chunk {
	r := c.SubRand("prog", idx)
	switch idx % 5 {
	case 0, 1:
		f := lgen.Features{Calls: true, Varargs: true, Goto: r.Intn(2) == 0, Errors: r.Intn(3) == 0, Closures: true, MaxStmts: 10 + r.Intn(40), MaxDepth: 2 + r.Intn(3), ExprDepth: 2 + r.Intn(3)}
		return lgen.New(r, f).Program()
	case 2:
		return lgen.New(r, lgen.Features{}).CallProgram()
	case 3:
		return lgen.New(r, lgen.Features{}).ClosureProgram()
	default:
		return lgen.New(r, lgen.Features{}).CoroutineProgram()
	}
}

func limitText(s string) bool {
	return strings.Contains(s, "stack overflow") || strings.Contains(s, "registry overflow") || strings.Contains(s, "callstack overflow")
}

func runConfigs(c *fw.Ctx, idx int, count bool) {
	chunk := buildProgram(c, idx)
	src := last.Render(chunk, nil)
	cs := Case{Kind: "configs", Index: idx, Src: src}
	c.Begin(cs)
	m := lrun.RunModel(chunk, &lrun.Config{MaxSteps: 3000000})
	if m.Abort != "" && lrun.ResourceAbort(m.Abort) {
		c.Inconclusive("model:" + m.Abort)
		c.End(false, "")
		return
	}
	r := c.SubRand("cfgs", idx)
	ncfg := c.Pick(12, 40)
	var ref *lrun.ImplRun
	var refCfg config
	compared := 0
	for k := 0; k < ncfg; k++ {
		cf := randConfig(r)
		got := lrun.RunImpl(src, cf.lrunConfig())
		if count {
			c.Count("config_runs", 1)
			c.Count("ctx_"+cf.ctx, 1)
		}
		if got.GoPanic != "" || got.RTFault != "" {
			cs.Cfg, cs.Diff = cf.String(), got.GoPanic+got.RTFault
			c.Violation("configuration "+cf.String()+": "+cs.Diff, cs)
			c.End(false, "")
			return
		}
		hitLimit := limitText(got.ErrText)
		for _, e := range got.Trace {
			if strings.Contains(e, "<rt>") && false {
				hitLimit = true
			}
		}
		if hitLimit {
			if count {
				c.Count("configs_excluded_program_meets_a_limit", 1)
			}
			continue
		}
		if m.Abort == "" {
			if d := lrun.Compare(m, got); d != nil {
				// the same program may legitimately differ from the model only through a caught limit error: check text
				cs.Cfg, cs.Diff = cf.String(), d.String()
				c.Violation("within-limits program behaves differently from the reference under "+cf.String()+": "+d.String(), cs)
				c.End(false, "")
				return
			}
		}
		if ref == nil {
			ref, refCfg = got, cf
		} else if d := lrun.CompareImpl(ref, got, false); d != nil {
			cs.Cfg, cs.Diff = refCfg.String()+"  VS  "+cf.String(), d.String()
			c.Violation("one program, two configurations, two behaviours: "+cs.Cfg+": "+d.String(), cs)
			c.End(false, "")
			return
		}
		compared++
	}
	if count && c.WantSample() && len(src) < 1500 && ref != nil {
		c.Sample(map[string]any{"kind": "configs", "src": src, "configurations_compared": compared})
	}
	c.End(compared >= 3, src)
}

// ---------- (1b) the registry grows while captured locals are live ----------

// growthProgram: a local of the main chunk (or of a coroutine body) is captured by closures and is read and written
// through them and by its owner before, while and after the register file is made to grow (deep non-tail
// recursion with several locals per frame, a call with hundreds of arguments, a vararg collector). The values
// emitted are fixed by the text: 1 -> +10 -> +100 inside, +1000 by the owner, +1 by the closure.
func growthProgram(idx int) string {
	r := rand.New(rand.NewSource(int64(idx)*7919 + 17))
	var grow string
	switch idx % 3 {
	case 0:
		grow = fmt.Sprintf(`local function deep(n)
  local a, b, c, d, e, f = n, n, n, n, n, n
  if n == 0 then bump(10) counter = counter + 100 return peek() end
  return deep(n - 1) + (a - b) + (c - d) + (e - f)
end
local seen = deep(%d)`, 20+r.Intn(140))
	case 1:
		grow = fmt.Sprintf(`local function many(...) bump(10) counter = counter + 100 return peek() + select('#', ...) * 0 end
local t = {} for i = 1, %d do t[i] = i end
local seen = many(unpack(t))`, 100+r.Intn(900))
	default:
		grow = fmt.Sprintf(`local function collect(...) local t = {...} bump(10) counter = counter + 100 return peek() + #t * 0 end
local function spread(n, ...) if n == 0 then return collect(...) end return (spread(n - 1, n, ...)) end
local seen = spread(%d)`, 40+r.Intn(160))
	}
	body := `local counter = 0
local log = {}
local function bump(k) counter = counter + k log[#log + 1] = counter end
local function peek() return counter end
bump(1)
` + grow + `
counter = counter + 1000
bump(1)
emit(counter, seen, peek(), #log, log[1], log[2], log[3])
`
	if (idx/3)%2 == 1 {
		return "local co = coroutine.wrap(function()\n" + body + "coroutine.yield(1)\nend)\nco()\n"
	}
	return body
}

func runGrowth(c *fw.Ctx, idx int, count bool) {
	src := growthProgram(idx)
	cs := Case{Kind: "growth", Index: idx, Src: src}
	c.Begin(cs)
	const want = "1112,111,1112,3,1,11,1112"
	r := c.SubRand("growth", idx)
	compared := 0
	for k := 0; k < 10; k++ {
		cf := randConfig(r)
		switch k {
		case 0:
			cf.opts.RegistrySize, cf.opts.RegistryMaxSize = 65536, 0 // never grows
		case 1, 2, 3:
			cf.opts.RegistrySize, cf.opts.RegistryMaxSize = []int{128, 129, 256}[k-1], 100000 // grows, far below its maximum
		}
		cf.opts.CallStackSize = 1024
		got := lrun.RunImpl(src, cf.lrunConfig())
		if count {
			c.Count("growth_config_runs", 1)
		}
		if got.GoPanic != "" || got.RTFault != "" {
			cs.Cfg, cs.Diff = cf.String(), got.GoPanic+got.RTFault
			c.Violation("configuration "+cf.String()+": "+cs.Diff, cs)
			c.End(false, "")
			return
		}
		if limitText(got.ErrText) {
			if count {
				c.Count("growth_configs_excluded_program_meets_a_limit", 1)
			}
			continue
		}
		if got.Failed || len(got.Trace) != 1 || got.Trace[0] != want {
			cs.Cfg, cs.Diff = cf.String(), fmt.Sprintf("trace %v error %q, the text determines %s", got.Trace, fw.Short(got.ErrText, 120), want)
			c.Violation("a captured local read and written across a growth of the register file: under "+cf.String()+": "+cs.Diff, cs)
			c.End(false, "")
			return
		}
		if count && cf.opts.RegistryMaxSize > cf.opts.RegistrySize && cf.opts.RegistrySize < 1000 {
			c.Count("growth_runs_on_a_small_growable_registry", 1)
		}
		compared++
	}
	c.End(compared >= 3, src)
}

// ---------- (2) limits ----------

const fResumeArgs = "C12-resume-arguments-overflow-coroutine-registry"

const post = `
local function battery()
  local t = {}
  for i = 1, 5 do t[#t + 1] = i * 2 end
  local co = coroutine.wrap(function(a) local b = coroutine.yield(a + 1); return b * 2 end)
  local function fact(n) if n <= 1 then return 1 end return n * fact(n - 1) end
  return table.concat(t, ","), co(1), co(10), fact(3), ("ab"):rep(3), select("#", pcall(error, "x")), (pcall(function() return 1 end))
end
`

func limitProgram(kind string, d int, reps int, inCo bool, catch string) string {
	var sb strings.Builder
	sb.WriteString(post)
	sb.WriteString("local keep1, keep2 = 'kept', 42\nlocal up = 0\nlocal function bump() up = up + 1 return up end\n")
	switch kind {
	case "depth":
		sb.WriteString("local function rec(n) if n == 0 then return 0 end return 1 + rec(n - 1) end\n")
		fmt.Fprintf(&sb, "local function body() return rec(%d) end\n", d)
	case "depth-meta":
		sb.WriteString("local mt = {}\nmt.__index = function(t, k) if k == 0 then return 0 end return 1 + t[k - 1] end\nlocal o = setmetatable({}, mt)\n")
		fmt.Fprintf(&sb, "local function body() return o[%d] end\n", d)
	case "args-unpack":
		fmt.Fprintf(&sb, "local big = {}\nfor i = 1, %d do big[i] = i end\nlocal function cnt(...) return select('#', ...) end\n", d)
		sb.WriteString("local function body() return cnt(unpack(big)) end\n")
	case "args-table":
		fmt.Fprintf(&sb, "local big = {}\nfor i = 1, %d do big[i] = i end\n", d)
		sb.WriteString("local function body() local t = {unpack(big)} return #t end\n")
	case "wrap-args":
		// the values go through the wrap function's Insert / XMoveTo into a fresh coroutine
		fmt.Fprintf(&sb, "local big = {}\nfor i = 1, %d do big[i] = i end\n", d)
		sb.WriteString("local function body() return coroutine.wrap(function(...) return select('#', ...) end)(unpack(big)) end\n")
	case "resume-args":
		// the values given to resume do not fit into the suspended coroutine's registry
		fmt.Fprintf(&sb, "local big = {}\nfor i = 1, %d do big[i] = i end\n", d)
		sb.WriteString("local function deep(n) if n == 0 then return coroutine.yield(1) end local a, b, c, d, e, f, g, h = 1, 2, 3, 4, 5, 6, 7, 8 return (deep(n - 1)) end\n")
		sb.WriteString("local function try()\n  local co = coroutine.create(function() return deep(6) end)\n  assert(coroutine.resume(co))\n" +
			"  local pok, ok, v = pcall(coroutine.resume, co, unpack(big))\n" +
			"  if not pok then return false, 'RESUME-RAISED: ' .. tostring(ok) end\n" +
			"  if coroutine.status(co) == 'running' then return false, 'STATUS-OF-FAILED-COROUTINE-IS-running' end\n" +
			"  if coroutine.running() ~= nil and not INCO then return false, 'RUNNING-COROUTINE-LEFT-SET' end\n" +
			fmt.Sprintf("  if ok then return true, %d end\n  return ok, v\nend\n", d))
		catch = "none"
	}
	// who catches the overflow: pcall, xpcall with a handler (which may not get
	// room to run), or the resume of a coroutine whose own stack/registry overflows
	switch catch {
	case "none":
	case "xpcall":
		sb.WriteString("local function try() return xpcall(body, function(m) return m end) end\n")
	case "co-resume":
		sb.WriteString("local function try()\n  local co = coroutine.create(body)\n  local ok, v = coroutine.resume(co)\n" +
			"  if not ok and coroutine.status(co) ~= 'dead' then return false, 'STATUS-OF-FAILED-COROUTINE-IS-' .. coroutine.status(co) end\n" +
			"  if coroutine.running() ~= nil and not INCO then return false, 'RUNNING-COROUTINE-LEFT-SET' end\n  return ok, v\nend\n")
	default:
		sb.WriteString("local function try() return pcall(body) end\n")
	}
	if inCo {
		sb.WriteString("INCO = true\nlocal plain = try\ntry = function() return coroutine.wrap(function() return plain() end)() end\n")
	}
	// every call is made from the same frame shape: near the limit the outcome depends on the caller's register top
	fmt.Fprintf(&sb, "local ok, v, same = nil, nil, 0\nsnap()\nfor i = 1, %d do local ok2, v2 = try() if i == 1 then ok, v = ok2, v2 elseif (ok2 and v2 == %d) or (not ok2 and type(v2) == 'string') then same = same + 1 end end\nsnap()\n", reps+1, d)
	sb.WriteString("emit('first', ok, type(v), ok and v or 'err')\n")
	sb.WriteString("errtext(v)\n")
	sb.WriteString("emit('repeat', same)\n")
	sb.WriteString("emit('locals', keep1, keep2, up, bump())\n")
	sb.WriteString("emit('battery', battery())\n")
	return sb.String()
}

type limitRun struct {
	ok      bool
	errText string
	trace   []string
	bad     string
}

func runLimit(src string, opts lua.Options) *limitRun {
	res := &limitRun{}
	cfg := &lrun.Config{Opts: opts, OnState: func(L *lua.LState, r *lrun.ImplRun) {
		L.SetGlobal("errtext", L.NewFunction(func(L *lua.LState) int {
			if s, ok := L.Get(1).(lua.LString); ok {
				res.errText = string(s)
			}
			return 0
		}))
	}}
	r := lrun.RunImpl(src, cfg)
	res.trace = r.Trace
	switch {
	case r.GoPanic != "":
		res.bad = "Go panic escaped: " + r.GoPanic
	case r.RTFault != "":
		res.bad = "Go run-time fault: " + r.RTFault
	case r.LoadErr != "":
		res.bad = "load: " + r.LoadErr
	case r.Failed:
		res.bad = "the chunk failed although the overflow was inside pcall: " + fw.Short(r.ErrText, 200)
	case len(r.Trace) < 4:
		res.bad = "trace too short"
	}
	if res.bad != "" {
		return res
	}
	res.ok = strings.HasPrefix(r.Trace[0], `"first",true`)
	if len(r.Snaps) >= 2 {
		a, b := r.Snaps[0], r.Snaps[1]
		if a.Sp != b.Sp || a.RegTop != b.RegTop || a.PanicFn != b.PanicFn || a.HasErrorFunc != b.HasErrorFunc {
			res.bad = fmt.Sprintf("state after the caught overflow differs: Sp %d->%d top %d->%d", a.Sp, b.Sp, a.RegTop, b.RegTop)
		}
	}
	if r.Unbalanced != "" {
		res.bad = "state unbalanced at the end: " + r.Unbalanced
	}
	return res
}

func runLimits(c *fw.Ctx, idx int, count bool) {
	r := c.SubRand("limit", idx)
	kind := []string{"depth", "depth", "depth-meta", "args-unpack", "args-table", "args-unpack", "resume-args", "wrap-args", "args-unpack"}[r.Intn(9)]
	var opts lua.Options
	var lo, hi int
	firstGrowth := false
	inCo := r.Intn(4) == 0
	catch := []string{"pcall", "pcall", "xpcall", "co-resume"}[r.Intn(4)]
	reps := 100
	if strings.HasPrefix(kind, "depth") {
		L := []int{15, 16, 17, 23, 24, 25, 33, 64, 100, 256}[r.Intn(10)]
		opts = lua.Options{CallStackSize: L, MinimizeStackMemory: r.Intn(2) == 0}
		if kind == "depth-meta" {
			// two frames per level (the Lua handler and the re-entry)
			lo, hi = L/2-10, L/2+6
		} else {
			lo, hi = L-12, L+10
		}
		if opts.MinimizeStackMemory {
			hi += 8 // capacity rounds up to a segment multiple
		}
	} else {
		rs := []int{128, 160, 256, 1000}[r.Intn(4)]
		opts = lua.Options{RegistrySize: rs, RegistryGrowStep: []int{1, 7, 32}[r.Intn(3)]}
		lo, hi = rs-40, rs+12
		if r.Intn(2) == 0 {
			opts.RegistryMaxSize = rs + []int{1, 33, 200}[r.Intn(3)]
			lo, hi = opts.RegistryMaxSize-40, opts.RegistryMaxSize+12
		}
		reps = 20
		if opts.RegistryMaxSize > rs && kind != "resume-args" && r.Intn(2) == 0 {
			// a growable registry: sweep across the point where it grows for the
			// first time, far below its limit (every size must simply work; the
			// call lands exactly at the old capacity for one of them)
			lo, hi = rs-60, rs+12
			firstGrowth = true
		}
		if kind == "resume-args" {
			// the resumer holds the same values in its own (almost empty) registry:
			// stay well below its limit; the suspended coroutine has ~70 slots in use
			lo, hi = hi-12-100, hi-12-34
		}
	}
	if lo < 1 {
		lo = 1
	}
	if firstGrowth && count {
		c.Count("limit_windows_across_first_registry_growth", 1)
	}
	desc := fmt.Sprintf("%s caught-by=%s inCoroutine=%v CallStackSize=%d Minimize=%v RegistrySize=%d RegistryMaxSize=%d GrowStep=%d", kind, catch, inCo, opts.CallStackSize, opts.MinimizeStackMemory, opts.RegistrySize, opts.RegistryMaxSize, opts.RegistryGrowStep)
	var battery string
	sawOK, sawErr := false, false
	firstErr := -1
	for d := lo; d <= hi; d++ {
		src := limitProgram(kind, d, reps, inCo, catch)
		cs := Case{Kind: "limit", Index: idx, Src: src, Cfg: desc}
		c.Begin(cs)
		res := runLimit(src, opts)
		if count {
			c.Count("limit_runs", 1)
			c.Count("limit_kind_"+kind, 1)
			c.Count("limit_caught_by_"+catch, 1)
		}
		bad := res.bad
		if bad == "" {
			if res.ok {
				sawOK = true
				if firstErr >= 0 && d > firstErr+2 {
					// (a fixed registry is enlarged by one slot each time an error has to be pushed onto a full registry, so the threshold may creep by a slot or two)
					bad = fmt.Sprintf("not monotone: size %d succeeds although %d overflowed", d, firstErr)
				}
				if !strings.HasPrefix(res.trace[0], fmt.Sprintf(`"first",true,"number",%d`, d)) {
					bad = "a call within the limit returned a wrong result: " + res.trace[0]
				}
			} else {
				sawErr = true
				if firstErr < 0 {
					firstErr = d
				}
				if !limitText(res.errText) {
					bad = "the overflow error is not a stack/registry overflow message: " + fw.Short(res.errText, 160)
				}
				for _, mark := range []string{"RESUME-RAISED", "STATUS-OF-FAILED-COROUTINE-IS-", "RUNNING-COROUTINE-LEFT-SET"} {
					if strings.Contains(res.errText, mark) {
						bad = "coroutine bookkeeping after the overflow: " + fw.Short(res.errText, 160)
					}
				}
				if !strings.HasPrefix(res.trace[0], `"first",false,"string"`) {
					bad = "the overflow did not surface as a string error caught by pcall: " + res.trace[0]
				}
			}
			if !strings.HasPrefix(res.trace[1], fmt.Sprintf(`"repeat",%d`, reps)) {
				bad = fmt.Sprintf("repeating the same call %d times did not give a correct result or a catchable string error every time: %s", reps, res.trace[1])
			}
			if res.trace[2] != `"locals","kept",42,0,1` {
				bad = "caller locals/upvalues not intact after the overflow: " + res.trace[2]
			}
			if battery == "" {
				battery = res.trace[3]
			} else if res.trace[3] != battery {
				bad = "the probe battery behaves differently after the overflow: " + res.trace[3] + " vs " + battery
			}
		}
		if bad != "" {
			cs.Diff = bad
			c.ViolationOrKnown(fResumeArgs, kind == "resume-args" && (strings.Contains(bad, "RESUME-RAISED") || strings.Contains(bad, "STATUS-OF-FAILED") || strings.Contains(bad, "RUNNING-COROUTINE") || strings.Contains(bad, "repeating the same call")),
				fmt.Sprintf("limit %s at size %d: %s", desc, d, bad), cs)
			c.End(false, "")
			continue
		}
		c.End(true, fmt.Sprintf("%s/%d", desc, d))
	}
	if count {
		if sawOK && sawErr {
			c.Count("limit_windows_containing_both_outcomes", 1)
		} else {
			c.Count("limit_windows_one_sided", 1)
		}
		if c.WantSample() && sawOK && sawErr {
			c.Sample(map[string]any{"kind": "limit", "config": desc, "first_overflowing_size": firstErr, "window": []int{lo, hi}})
		}
	}
}

// ---------- (3) components ----------

type Op struct {
	Op string `json:"op"`
	A  int    `json:"a,omitempty"`
	B  int    `json:"b,omitempty"`
	C  int    `json:"c,omitempty"`
	D  int    `json:"d,omitempty"`
}

func stackCapacity(auto bool, size int) int {
	if auto {
		return (size + 7) / 8 * 8
	}
	return size
}

// stackMachine drives one call-frame stack against a slice model.
type stackMachine struct {
	name     string
	s        *lua.VerifCallFrameStack
	capacity int
	model    []int
}

func (m *stackMachine) check(i int, op Op) string {
	s, model := m.s, m.model
	if s.Sp() != len(model) {
		return fmt.Sprintf("%sop %d %+v: Sp()=%d, model %d", m.name, i, op, s.Sp(), len(model))
	}
	if s.IsEmpty() != (len(model) == 0) {
		return fmt.Sprintf("%sop %d %+v: IsEmpty()=%v with %d frames", m.name, i, op, s.IsEmpty(), len(model))
	}
	if s.IsFull() != (len(model) >= m.capacity) {
		return fmt.Sprintf("%sop %d %+v: IsFull()=%v with %d frames of capacity %d", m.name, i, op, s.IsFull(), len(model), m.capacity)
	}
	if len(model) > 0 {
		idx, tag, okTag, nonNil := s.Last()
		if !nonNil || !okTag || tag != model[len(model)-1] || idx != len(model)-1 {
			return fmt.Sprintf("%sop %d %+v: Last() = (idx %d, tag %d, consistent %v, nonNil %v), model (idx %d, tag %d)", m.name, i, op, idx, tag, okTag, nonNil, len(model)-1, model[len(model)-1])
		}
	} else if _, _, _, nonNil := s.Last(); nonNil {
		return fmt.Sprintf("%sop %d %+v: Last() non-nil on an empty stack", m.name, i, op)
	}
	for k := range model {
		idx, tag, okTag, nonNil := s.At(k)
		if !nonNil || !okTag || tag != model[k] || idx != k {
			return fmt.Sprintf("%sop %d %+v: At(%d) = (idx %d, tag %d, consistent %v), model tag %d", m.name, i, op, k, idx, tag, okTag, model[k])
		}
	}
	return ""
}

func (m *stackMachine) apply(i int, op Op) string {
	s := m.s
	switch op.Op {
	case "push":
		if len(m.model) >= m.capacity {
			return ""
		}
		s.Push(op.A)
		m.model = append(m.model, op.A)
	case "pop":
		if len(m.model) == 0 {
			return "" // popping an empty stack is outside the interface's contract
		}
		idx, tag, okTag, nonNil := s.Pop()
		want := m.model[len(m.model)-1]
		m.model = m.model[:len(m.model)-1]
		if !nonNil || !okTag || tag != want || idx != len(m.model) {
			return fmt.Sprintf("%sop %d: Pop() = (idx %d, tag %d, consistent %v), model (idx %d, tag %d)", m.name, i, idx, tag, okTag, len(m.model), want)
		}
	case "setsp":
		if len(m.model) == 0 {
			return ""
		}
		k := op.A % (len(m.model) + 1)
		s.SetSp(k)
		m.model = m.model[:k]
	case "retag":
		if len(m.model) == 0 {
			return ""
		}
		k := op.A % len(m.model)
		s.Retag(k, op.B)
		m.model[k] = op.B
	}
	return m.check(i, op)
}

// runStackHistory drives one stack, or two stacks that live side by side (a
// state and a coroutine: what one releases the other may be handed), each
// against its own model; after every operation both must still agree.
func runStackHistory(auto bool, size int, ops, ops2 []Op) string {
	a := &stackMachine{s: lua.VerifNewCallFrameStack(auto, size), capacity: stackCapacity(auto, size)}
	if ops2 == nil {
		for i, op := range ops {
			if v := a.apply(i, op); v != "" {
				return v
			}
		}
		a.s.FreeAll()
		return ""
	}
	a.name = "stack A "
	b := &stackMachine{name: "stack B ", s: lua.VerifNewCallFrameStack(auto, size), capacity: a.capacity}
	for i := 0; i < len(ops) || i < len(ops2); i++ {
		if i < len(ops) {
			if v := a.apply(i, ops[i]); v != "" {
				return v
			}
			if v := b.check(i, ops[i]); v != "" {
				return "after an operation on stack A: " + v
			}
		}
		if i < len(ops2) {
			if v := b.apply(i, ops2[i]); v != "" {
				return v
			}
			if v := a.check(i, ops2[i]); v != "" {
				return "after an operation on stack B: " + v
			}
		}
	}
	a.s.FreeAll()
	b.s.FreeAll()
	return ""
}

func genStackOps(r *rand.Rand, capacity int) []Op {
	n := 20 + r.Intn(200)
	var ops []Op
	tag := 1
	for i := 0; i < n; i++ {
		switch k := r.Intn(20); {
		case k < 9:
			m := 1
			if r.Intn(5) == 0 {
				m = 1 + r.Intn(capacity+2) // bursts across segment boundaries
			}
			for j := 0; j < m; j++ {
				tag++
				ops = append(ops, Op{Op: "push", A: tag})
			}
		case k < 14:
			m := 1
			if r.Intn(6) == 0 {
				m = 1 + r.Intn(12)
			}
			for j := 0; j < m; j++ {
				ops = append(ops, Op{Op: "pop"})
			}
		case k < 17:
			ops = append(ops, Op{Op: "setsp", A: r.Intn(1 << 20)})
		default:
			tag++
			ops = append(ops, Op{Op: "retag", A: r.Intn(1 << 20), B: tag})
		}
	}
	return ops
}

type regModel struct {
	vals map[int]lua.LValue // known slots below top
	top  int
	cap  int
}

func runRegistryHistory(size, grow, max int, ops []Op) string {
	reg := lua.VerifNewRegistry(size, grow, max)
	m := &regModel{vals: map[int]lua.LValue{}, cap: size}
	// need returns whether capacity required is available, growing the model like resize()
	need := func(required int) bool {
		if required <= m.cap {
			return true
		}
		ns := required + grow
		if ns > max {
			ns = max
		}
		if ns < required {
			return false
		}
		m.cap = ns
		return true
	}
	val := func(k int) lua.LValue { return lua.LNumber(k) }
	for i, op := range ops {
		desc := fmt.Sprintf("op %d %+v (top %d cap %d)", i, op, m.top, m.cap)
		var overflow, wantOverflow bool
		switch op.Op {
		case "push":
			wantOverflow = !need(m.top + 1)
			overflow = reg.Try(func() { reg.Push(val(op.A)) })
			if !wantOverflow {
				m.vals[m.top] = val(op.A)
				m.top++
			}
		case "pop":
			if m.top == 0 {
				continue
			}
			got := reg.Pop()
			want, known := m.vals[m.top-1]
			delete(m.vals, m.top-1)
			m.top--
			if known && got != want {
				return fmt.Sprintf("%s: Pop()=%v, model %v", desc, got, want)
			}
		case "set":
			idx := op.A % (m.top + 20)
			wantOverflow = !need(idx + 1)
			overflow = reg.Try(func() { reg.Set(idx, val(op.B)) })
			if !wantOverflow {
				if idx >= m.top {
					m.top = idx + 1
				}
				m.vals[idx] = val(op.B)
			}
		case "settop":
			n := op.A % (m.top + 30)
			wantOverflow = !need(n)
			overflow = reg.Try(func() { reg.SetTop(n) })
			if !wantOverflow {
				if n > m.top {
					for k := m.top; k < n; k++ {
						m.vals[k] = lua.LNil
					}
				} else {
					for k := range m.vals {
						if k >= n {
							delete(m.vals, k)
						}
					}
				}
				m.top = n
			}
		case "fillnil":
			at := op.A % (m.top + 5)
			n := op.B % 12
			wantOverflow = !need(at + n)
			overflow = reg.Try(func() { reg.FillNil(at, n) })
			if !wantOverflow {
				for k := range m.vals {
					if k >= at+n {
						delete(m.vals, k)
					}
				}
				for k := 0; k < n; k++ {
					m.vals[at+k] = lua.LNil
				}
				m.top = at + n
			}
		case "copyrange":
			if m.top == 0 {
				continue
			}
			start := op.A % m.top
			regv := op.B % (start + 1) // regv <= start as the VM uses it (moving results down)
			n := op.C % 14
			limit := -1
			if op.D%3 == 0 {
				limit = start + op.D%(m.top-start+1)
			}
			wantOverflow = !need(regv + n)
			overflow = reg.Try(func() { reg.CopyRange(regv, start, limit, n) })
			if !wantOverflow {
				lim := limit
				if lim == -1 || lim > m.top {
					lim = m.top
				}
				nv := map[int]lua.LValue{}
				for k, v := range m.vals {
					if k < regv {
						nv[k] = v
					}
				}
				for k := 0; k < n; k++ {
					src := start + k
					if src >= lim || src < 0 {
						nv[regv+k] = lua.LNil
					} else if v, ok := m.vals[src]; ok {
						nv[regv+k] = v
					}
				}
				m.vals = nv
				m.top = regv + n
			}
		case "insert":
			at := op.A % (m.top + 3)
			wantOverflow = !need(maxInt(at, m.top) + 1)
			overflow = reg.Try(func() { reg.Insert(val(op.B), at) })
			if !wantOverflow {
				if at >= m.top {
					m.vals[at] = val(op.B)
					m.top = at + 1
				} else {
					for k := m.top - 1; k >= at; k-- {
						if v, ok := m.vals[k]; ok {
							m.vals[k+1] = v
						} else {
							delete(m.vals, k+1)
						}
					}
					m.vals[at] = val(op.B)
					m.top++
				}
			}
		}
		if overflow != wantOverflow {
			return fmt.Sprintf("%s: overflow handler fired=%v, model expects %v (required size vs maxSize %d)", desc, overflow, wantOverflow, max)
		}
		if wantOverflow {
			// after an overflow the registry content is unspecified for this model: restart the comparison
			return ""
		}
		if reg.Top() != m.top {
			return fmt.Sprintf("%s: Top()=%d, model %d", desc, reg.Top(), m.top)
		}
		if reg.Cap() < m.top {
			return fmt.Sprintf("%s: capacity %d below top %d", desc, reg.Cap(), m.top)
		}
		if max > 0 && reg.Cap() > maxInt(max, size) {
			return fmt.Sprintf("%s: capacity %d exceeds maxSize %d", desc, reg.Cap(), max)
		}
		for k, v := range m.vals {
			if k < m.top {
				if got := reg.Get(k); got != v {
					return fmt.Sprintf("%s: slot %d holds %v, model %v", desc, k, got, v)
				}
			}
		}
	}
	return ""
}

func maxInt(a, b int) int {
	if a > b {
		return a
	}
	return b
}

func genRegOps(r *rand.Rand) []Op {
	n := 20 + r.Intn(150)
	var ops []Op
	v := 0
	names := []string{"push", "push", "push", "pop", "set", "settop", "fillnil", "copyrange", "insert"}
	for i := 0; i < n; i++ {
		v++
		op := Op{Op: names[r.Intn(len(names))], A: r.Intn(1 << 20), B: r.Intn(1 << 20), C: r.Intn(1 << 20), D: r.Intn(1 << 20)}
		if op.Op == "push" {
			op.A = v
			if r.Intn(8) == 0 {
				for j := 0; j < 1+r.Intn(40); j++ {
					v++
					ops = append(ops, Op{Op: "push", A: v})
				}
			}
		}
		if op.Op == "set" || op.Op == "insert" {
			op.B = v
		}
		ops = append(ops, op)
	}
	return ops
}

func runComponent(c *fw.Ctx, idx int, count bool, given *Case) {
	r := c.SubRand("comp", idx)
	var cs Case
	if given != nil {
		cs = *given
	} else if idx%2 == 0 {
		size := []int{1, 2, 7, 8, 9, 15, 16, 17, 24, 40, 41}[r.Intn(11)]
		auto := r.Intn(2) == 0
		cs = Case{Kind: "stack", Index: idx, Auto: auto, Size: size, Ops: genStackOps(r, stackCapacity(auto, size))}
		if r.Intn(3) == 0 {
			cs.Ops2 = genStackOps(r, stackCapacity(auto, size))
		}
	} else {
		size := []int{1, 4, 16, 33}[r.Intn(4)]
		grow := []int{1, 7, 32}[r.Intn(3)]
		max := []int{0, size + 1, size + 33, size + grow, size + 2*grow + 1, 4000}[r.Intn(6)]
		cs = Case{Kind: "registry", Index: idx, Size: size, Grow: grow, Max: max, Ops: genRegOps(r)}
	}
	c.Begin(cs)
	var v string
	if cs.Kind == "stack" {
		v = runStackHistory(cs.Auto, cs.Size, cs.Ops, cs.Ops2)
	} else {
		v = runRegistryHistory(cs.Size, cs.Grow, cs.Max, cs.Ops)
	}
	if count {
		c.Count("component_histories_"+cs.Kind, 1)
		c.Count("component_ops", int64(len(cs.Ops)+len(cs.Ops2)))
		if cs.Ops2 != nil {
			c.Count("component_histories_two_stacks_side_by_side", 1)
		}
	}
	if v != "" {
		cs.Diff = v
		c.Violation("component "+cs.Kind+fmt.Sprintf(" (auto=%v size=%d grow=%d max=%d) diverges from its model: ", cs.Auto, cs.Size, cs.Grow, cs.Max)+v, cs)
		c.End(false, "")
		return
	}
	b, _ := json.Marshal([][]Op{cs.Ops, cs.Ops2})
	c.End(len(cs.Ops) >= 20, fmt.Sprintf("%s/%v/%d/%d/%d/%s", cs.Kind, cs.Auto, cs.Size, cs.Grow, cs.Max, b))
}

func run(c *fw.Ctx) {
	n1 := c.Pick(300, 20000)
	for i := 0; i < n1; i++ {
		if c.Mine(i) {
			runConfigs(c, i, true)
		}
	}
	for i := 0; i < c.Pick(96, 3000); i++ {
		if c.Mine(i) {
			runGrowth(c, i, true)
		}
	}
	n2 := c.Pick(200, 3000)
	for i := 0; i < n2; i++ {
		if c.Mine(i) {
			runLimits(c, i, true)
		}
	}
	n3 := c.Pick(20000, 1000000)
	for i := 0; i < n3; i++ {
		if c.Mine(i) {
			runComponent(c, i, true, nil)
		}
	}
}

func replay(c *fw.Ctx, raw json.RawMessage) {
	var cs Case
	if err := json.Unmarshal(raw, &cs); err != nil {
		fmt.Println("bad case:", err)
		return
	}
	switch cs.Kind {
	case "configs":
		runConfigs(c, cs.Index, false)
	case "limit":
		runLimits(c, cs.Index, false)
	case "growth":
		runGrowth(c, cs.Index, false)
	default:
		runComponent(c, cs.Index, false, &cs)
	}
}
