package c09

import (
	"fmt"
	"math"
	"math/rand"
	"strconv"
	"strings"

	lua "github.com/yuin/gopher-lua"

	"verif/internal/fw"
	"verif/internal/gl"
)

const nRefs = 8 // reference pool: 0-3 tables, 4-5 functions, 6-7 userdata

var defaultMAI = lua.MaxArrayIndex

func itoa(i int) string { return strconv.Itoa(i) }

const helperSrc = `
local rawset, rawget, next, pairs, ipairs, tinsert, tremove = rawset, rawget, next, pairs, ipairs, table.insert, table.remove
return {
  set = function(t, k, v) t[k] = v end,
  get = function(t, k) return t[k] end,
  rawset = function(t, k, v) rawset(t, k, v) end,
  -- clears the last list element through table.remove when k is the border, else by assignment
  clearlast = function(t, k) if k >= 1 and #t == k then table.remove(t) else t[k] = nil end end,
  rawget = function(t, k) return rawget(t, k) end,
  len = function(t) return #t end,
  append = function(t, v) t[#t + 1] = v end,
  pop = function(t) t[#t] = nil end,
  tinsert = function(t, v) tinsert(t, v) end,
  tremove = function(t) return tremove(t) end,
  wnext = function(t, rec)
    local k, v = next(t)
    while k ~= nil do
      rec(k, v)
      k, v = next(t, k)
    end
  end,
  wpairs = function(t, rec) for k, v in pairs(t) do rec(k, v) end end,
  wipairs = function(t, rec) for i, v in ipairs(t) do rec(i, v) end end,
  vararg = function(...) return {...} end,
  ctor1 = function(k, v) return {[k] = v} end,
  id = function(...) return ... end,
}
`

type env struct {
	L      *lua.LState
	h      map[string]lua.LValue
	refs   []lua.LValue
	refIdx map[lua.LValue]int
	consts map[string]lua.LValue
}

func newEnv() *env {
	L := lua.NewState()
	e := &env{L: L, h: map[string]lua.LValue{}, refIdx: map[lua.LValue]int{}, consts: map[string]lua.LValue{}}
	ht := gl.MustLoad(L, helperSrc).(*lua.LTable)
	for _, n := range []string{"set", "get", "rawset", "rawget", "len", "append", "pop", "tinsert", "tremove", "clearlast", "wnext", "wpairs", "wipairs", "vararg", "ctor1", "id"} {
		e.h[n] = ht.RawGetString(n)
	}
	for i := 0; i < nRefs; i++ {
		var v lua.LValue
		switch {
		case i < 4:
			v = L.NewTable()
		case i == 4:
			v = L.NewFunction(func(*lua.LState) int { return 0 })
		case i == 5:
			v = gl.MustLoad(L, "return function() end")
		default:
			v = L.NewUserData()
		}
		e.refs = append(e.refs, v)
		e.refIdx[v] = i
	}
	return e
}

func (e *env) toLua(v V) lua.LValue {
	switch v.kind() {
	case 'T':
		return lua.LTrue
	case 'F':
		return lua.LFalse
	case 'n':
		f, _ := v.num()
		return lua.LNumber(f)
	case 's':
		return lua.LString(v.str())
	case 'r':
		i, _ := strconv.Atoi(v.str())
		if i >= 0 && i < len(e.refs) {
			return e.refs[i]
		}
	}
	return lua.LNil
}

func (e *env) fromLua(lv lua.LValue) V {
	switch x := lv.(type) {
	case *lua.LNilType:
		return vNil
	case lua.LBool:
		return boolV(bool(x))
	case lua.LNumber:
		return numV(float64(x))
	case lua.LString:
		return strV(string(x))
	case *lua.LTable, *lua.LFunction, *lua.LUserData:
		if i, ok := e.refIdx[lv]; ok {
			return refV(i)
		}
	}
	if lv == nil {
		return "?go-nil"
	}
	return V("?" + lv.Type().String())
}

func show(v V) string {
	switch v.kind() {
	case 'N':
		return "nil"
	case 'T':
		return "true"
	case 'F':
		return "false"
	case 'n':
		return v.str()
	case 's':
		return strconv.Quote(fw.Short(v.str(), 24))
	case 'r':
		return "ref#" + v.str()
	}
	return string(v)
}

// ---- Lua source literals ----

func luaStr(s string) string {
	var sb strings.Builder
	sb.WriteByte('"')
	for i := 0; i < len(s); i++ {
		c := s[i]
		if c >= 'a' && c <= 'z' || c >= 'A' && c <= 'Z' || c >= '0' && c <= '9' || c == ' ' || c == '_' || c == '-' || c == '.' {
			sb.WriteByte(c)
		} else {
			fmt.Fprintf(&sb, "\\%03d", c)
		}
	}
	sb.WriteByte('"')
	return sb.String()
}

func luaLit(v V) string {
	switch v.kind() {
	case 'N':
		return "nil"
	case 'T':
		return "true"
	case 'F':
		return "false"
	case 'n':
		f, _ := v.num()
		if f == math.Trunc(f) && math.Abs(f) < 1e15 {
			if f == 0 && math.Signbit(f) {
				return "-0"
			}
			return strconv.FormatInt(int64(f), 10)
		}
		return strconv.FormatFloat(f, 'g', 17, 64)
	case 's':
		return luaStr(v.str())
	case 'r':
		return "r" + v.str()
	}
	return "nil"
}

const refParams = "local r0,r1,r2,r3,r4,r5,r6,r7,id = ...\n"

func (e *env) constFn(kind string, k V) lua.LValue {
	ck := kind + string(k)
	if f, ok := e.consts[ck]; ok {
		return f
	}
	var idx string
	if k.isString() && isIdent(k.str()) {
		idx = "t." + k.str()
	} else {
		idx = "t[" + luaLit(k) + "]"
	}
	src := "local t, v = ...\n" + idx + " = v"
	if kind == "get" {
		src = "local t = ...\nreturn " + idx
	}
	fn, err := e.L.LoadString(src)
	if err != nil {
		panic("c09 harness: chunk does not load: " + err.Error() + "\n" + src)
	}
	e.consts[ck] = fn
	return fn
}

// ctorShape describes the features of a constructor's source text that the
// narrow matchers of the constructor findings look at.
type ctorShape struct {
	// a keyed field follows exactly k*FieldsPerFlush (k >= 1) positional
	// items (C09-ctor-setlist-reflush)
	afterFlush bool
}

// ctorSource renders a constructor. The chunk receives the reference pool,
// an identity function "id" (id(v, ...) is a call with several results whose
// first one is v) and then the values of the multiple-results tail.
func ctorSource(c *Ctor) (src string, sh ctorShape) {
	type item struct {
		text  string
		keyed bool
		call  bool
	}
	var items []item
	for _, v := range c.Pos {
		items = append(items, item{text: luaLit(v)})
	}
	// explicit fields are interleaved at positions drawn from c.Mix; the
	// relative order of positional items is kept
	r := rand.New(rand.NewSource(c.Mix))
	for i, k := range c.Keys {
		val := luaLit(c.Vals[i])
		call := i < len(c.Call) && c.Call[i]
		if call {
			val = "id(" + val + ", \"extra1\", \"extra2\")"
		}
		var it string
		if k.isString() && isIdent(k.str()) && r.Intn(2) == 0 {
			it = k.str() + " = " + val
		} else {
			it = "[" + luaLit(k) + "] = " + val
		}
		p := r.Intn(len(items) + 1)
		if c.KeysLast {
			p = len(items)
		}
		items = append(items, item{})
		copy(items[p+1:], items[p:])
		items[p] = item{it, true, call}
	}
	npos := 0
	texts := make([]string, len(items))
	for i, it := range items {
		texts[i] = it.text
		if !it.keyed {
			npos++
		} else if npos > 0 && npos%lua.FieldsPerFlush == 0 {
			sh.afterFlush = true
		}
	}
	if c.HasTail {
		texts = append(texts, "select("+itoa(nRefs+2)+", ...)")
	}
	sep := ", "
	if r.Intn(3) == 0 {
		sep = "; "
	}
	return refParams + "return {" + strings.Join(texts, sep) + "}", sh
}

// ---- runner ----

type divergence struct {
	Step int
	Op   Op
	What string
	KF   string // id of the known finding whose narrow matcher holds for this divergence ("" = none)
}

func (d *divergence) String() string {
	if d == nil {
		return "no divergence"
	}
	return fmt.Sprintf("step %d %s: %s", d.Step, opStr(d.Op), d.What)
}

func opStr(op Op) string {
	s := op.A
	if op.T != 0 {
		s += fmt.Sprintf(" tab%d", op.T)
	}
	if op.K != "" {
		s += " k=" + show(op.K)
	}
	if op.V != "" {
		s += " v=" + show(op.V)
	}
	if op.P != 0 {
		s += " pos=" + itoa(op.P)
	}
	if op.W != nil {
		s += fmt.Sprintf(" %s mods=%d", op.W.Kind, len(op.W.Mods))
	}
	if op.R != "" {
		s += " reread=" + op.R
	}
	return s
}

type runner struct {
	c     *fw.Ctx
	h     *History
	e     *env
	mai   int
	rr    *rand.Rand
	tabs  []*lua.LTable
	ms    []*model
	known map[string]string // open findings attributed without stopping (read-only divergences)
	cnt   map[string]int64
	// non-triviality bookkeeping
	classes  map[string]bool
	deletes  int
	executed int
	step     int
	op       Op
	pool     []V
}

type result struct {
	div   *divergence
	known map[string]string
	nt    bool
}

func (r *runner) fail(kf, format string, a ...any) *divergence {
	return &divergence{Step: r.step, Op: r.op, What: fmt.Sprintf(format, a...), KF: kf}
}

// soft attributes a read-only divergence to an open finding and lets the
// history continue; if the finding is not open it is an ordinary divergence.
func (r *runner) soft(kf, format string, a ...any) *divergence {
	if r.c != nil && r.c.FindingOpen(kf) {
		if _, ok := r.known[kf]; !ok {
			r.known[kf] = fmt.Sprintf("step %d %s: ", r.step, opStr(r.op)) + fmt.Sprintf(format, a...)
		}
		r.cnt["known_soft:"+kf]++
		return nil
	}
	return r.fail(kf, format, a...)
}

func outcomeErr(o gl.Outcome) string {
	if o.GoPanic != nil {
		return "Go panic escaped: " + fw.Short(o.PanicStr, 300)
	}
	if o.Err != nil {
		return "error: " + fw.Short(o.Err.Error(), 300)
	}
	return ""
}

func (r *runner) luaCall(name string, args ...lua.LValue) ([]lua.LValue, string) {
	res, o := gl.Call(r.e.L, r.e.h[name], args...)
	return res, outcomeErr(o)
}

func first(res []lua.LValue) lua.LValue {
	if len(res) == 0 {
		return lua.LNil
	}
	return res[0]
}

// read reads key k of tb through accessor acc.
func (r *runner) read(tb *lua.LTable, acc string, k V) (lua.LValue, string) {
	e := r.e
	L := e.L
	if !accOK(acc, k, r.mai) && !(k.isNil() || k.isNaN()) {
		acc = "tb.RawGet"
	}
	r.cnt["read:"+acc]++
	lk := e.toLua(k)
	var got lua.LValue = lua.LNil
	var o gl.Outcome
	switch acc {
	case "tb.RawGet":
		o = gl.Protect(func() error { got = tb.RawGet(lk); return nil })
	case "tb.RawGetInt":
		i, _ := intKey(k)
		o = gl.Protect(func() error { got = tb.RawGetInt(i); return nil })
	case "tb.RawGetString":
		o = gl.Protect(func() error { got = tb.RawGetString(k.str()); return nil })
	case "tb.RawGetH":
		o = gl.Protect(func() error { got = tb.RawGetH(lk); return nil })
	case "L.RawGet":
		o = gl.Protect(func() error { got = L.RawGet(tb, lk); return nil })
	case "L.RawGetInt":
		i, _ := intKey(k)
		o = gl.Protect(func() error { got = L.RawGetInt(tb, i); return nil })
	case "L.GetTable":
		o = gl.Protect(func() error { got = L.GetTable(tb, lk); return nil })
	case "L.GetField":
		o = gl.Protect(func() error { got = L.GetField(tb, k.str()); return nil })
	case "lua.get":
		res, s := r.luaCall("get", tb, lk)
		return first(res), s
	case "lua.rawget":
		res, s := r.luaCall("rawget", tb, lk)
		return first(res), s
	case "lua.getconst":
		res, o2 := gl.Call(L, e.constFn("get", k), tb)
		return first(res), outcomeErr(o2)
	default:
		return lua.LNil, "harness: unknown read accessor " + acc
	}
	return got, outcomeErr(o)
}

// store writes v under k through accessor acc (k is a valid key).
func (r *runner) store(tb *lua.LTable, acc string, k, v V) string {
	e := r.e
	L := e.L
	if !accOK(acc, k, r.mai) {
		acc = "tb.RawSet"
	}
	r.cnt["store:"+acc]++
	lk, lv := e.toLua(k), e.toLua(v)
	var o gl.Outcome
	switch acc {
	case "tb.RawSet":
		o = gl.Protect(func() error { tb.RawSet(lk, lv); return nil })
	case "tb.RawSetInt":
		i, _ := intKey(k)
		o = gl.Protect(func() error { tb.RawSetInt(i, lv); return nil })
	case "tb.RawSetString":
		o = gl.Protect(func() error { tb.RawSetString(k.str(), lv); return nil })
	case "tb.RawSetH":
		o = gl.Protect(func() error { tb.RawSetH(lk, lv); return nil })
	case "L.RawSet":
		o = gl.Protect(func() error { L.RawSet(tb, lk, lv); return nil })
	case "L.RawSetInt":
		i, _ := intKey(k)
		o = gl.Protect(func() error { L.RawSetInt(tb, i, lv); return nil })
	case "L.SetTable":
		o = gl.Protect(func() error { L.SetTable(tb, lk, lv); return nil })
	case "L.SetField":
		o = gl.Protect(func() error { L.SetField(tb, k.str(), lv); return nil })
	case "lua.set":
		_, s := r.luaCall("set", tb, lk, lv)
		return s
	case "lua.rawset":
		_, s := r.luaCall("rawset", tb, lk, lv)
		return s
	case "lua.setconst":
		_, o2 := gl.Call(L, e.constFn("set", k), tb, lv)
		return outcomeErr(o2)
	case "lua.tremove":
		// clearing an existing field (the list's last element) through table.remove
		if !v.isNil() {
			_, s := r.luaCall("set", tb, lk, lv)
			return s
		}
		_, s := r.luaCall("clearlast", tb, lk)
		return s
	case "tb.Remove":
		if i, ok := intKey(k); ok && i >= 1 && v.isNil() && tb.Len() == i {
			o = gl.Protect(func() error { tb.Remove(-1); return nil })
		} else {
			o = gl.Protect(func() error { tb.RawSet(lk, lv); return nil })
		}
	default:
		return "harness: unknown store accessor " + acc
	}
	return outcomeErr(o)
}

// rawgetintMiss: the narrow matcher of finding C09-rawgetint-ignores-hash-part.
func (r *runner) rawgetintMiss(acc string, k V, want, got V) bool {
	if acc != "tb.RawGetInt" && acc != "L.RawGetInt" {
		return false
	}
	i, ok := intKey(k)
	return ok && (i < 1 || i >= r.mai) && !want.isNil() && got.isNil()
}

const kfRawGetInt = "C09-rawgetint-ignores-hash-part"
const kfAppendLimit = "C09-append-insert-past-maxarrayindex"
const kfLenLimit = "C09-list-ignores-hash-continuation"

// checkRead re-reads k and compares with the model.
func (r *runner) checkRead(t int, acc string, k V, ctx string) *divergence {
	got, es := r.read(r.tabs[t], acc, k)
	if es != "" {
		return r.fail("", "%sreading key %s through %s: %s", ctx, show(k), acc, es)
	}
	want := r.ms[t].get(k)
	g := r.e.fromLua(got)
	if g != want {
		if !accOK(acc, k, r.mai) {
			acc = "tb.RawGet"
		}
		if r.rawgetintMiss(acc, k, want, g) {
			return r.soft(kfRawGetInt, "%s%s(%s) = nil but the value most recently stored under that key is %s", ctx, acc, show(k), show(want))
		}
		return r.fail("", "%skey %s read through %s gives %s, the value most recently stored is %s", ctx, show(k), acc, show(g), show(want))
	}
	return nil
}

func (r *runner) touch(t int, k V) {
	r.classes[keyClass(k, r.mai)] = true
	r.cnt["keyclass:"+keyClass(k, r.mai)]++
}

// lastSlotUsed: the narrow matcher of finding C09-append-insert-past-...: the
// last slot of the array part, t[MaxArrayIndex-1], is occupied, so Append /
// Insert / table.insert push an element to array index MaxArrayIndex, where
// RawGet/RawSet (which route integer keys >= MaxArrayIndex to the hash part)
// never look.
func (r *runner) lastSlotUsed(m *model) bool {
	return m.has(numV(float64(r.mai - 1)))
}

// hashContinues: the narrow matcher of finding C09-list-ignores-hash-...: the
// last array slot t[MaxArrayIndex-1] and its successor t[MaxArrayIndex] (hash
// part) are both non-nil; Len, Remove and everything built on them look at the
// array part only.
func (r *runner) hashContinues(m *model) bool {
	return m.has(numV(float64(r.mai-1))) && m.has(numV(float64(r.mai)))
}

// observeLen reads the length through acc and checks that it is a border.
func (r *runner) observeLen(t int, acc string) (int, *divergence) {
	tb := r.tabs[t]
	L := r.e.L
	var n int
	var es string
	switch acc {
	case "tb.Len":
		es = outcomeErr(gl.Protect(func() error { n = tb.Len(); return nil }))
	case "L.ObjLen":
		es = outcomeErr(gl.Protect(func() error { n = L.ObjLen(tb); return nil }))
	case "lua.len":
		res, s := r.luaCall("len", tb)
		es = s
		if s == "" {
			f, ok := first(res).(lua.LNumber)
			if !ok || float64(f) != math.Trunc(float64(f)) {
				return 0, r.fail("", "#t returned %s, not an integer", show(r.e.fromLua(first(res))))
			}
			n = int(f)
		}
	}
	r.cnt["len:"+acc]++
	if es != "" {
		return 0, r.fail("", "%s: %s", acc, es)
	}
	m := r.ms[t]
	if !m.isBorder(float64(n)) {
		what := fmt.Sprintf("%s = %d is not a border: t[%d]=%s, t[%d]=%s; borders of the table are %v", acc, n, n, show(m.get(numV(float64(n)))), n+1, show(m.get(numV(float64(n+1)))), m.borders())
		if r.hashContinues(m) && n == r.mai-1 {
			return n, r.soft(kfLenLimit, "%s", what)
		}
		return n, r.fail("", "%s", what)
	}
	if n > 0 {
		r.cnt["len_nonzero"]++
	}
	if len(m.borders()) > 1 {
		r.cnt["len_with_several_borders"]++
	}
	return n, nil
}

// numericAudit re-reads every number key of the model and the slot after each border.
func (r *runner) numericAudit(t int, ctx string) *divergence {
	m := r.ms[t]
	for _, k := range m.keys() {
		if k.kind() == 'n' {
			if d := r.checkRead(t, "tb.RawGet", k, ctx); d != nil {
				return d
			}
		}
	}
	for _, b := range m.borders() {
		if d := r.checkRead(t, "tb.RawGet", numV(b+1), ctx); d != nil {
			return d
		}
	}
	return nil
}

// rawNum reads t[f] through the plain accessor (used to resolve which border a list operation picked).
func (r *runner) rawNum(t int, f float64) V {
	var got lua.LValue = lua.LNil
	gl.Protect(func() error { got = r.tabs[t].RawGet(lua.LNumber(f)); return nil })
	return r.e.fromLua(got)
}

// appendOp: t[b+1] = v for some border b chosen by the implementation.
func (r *runner) appendOp(t int) *divergence {
	op := r.op
	tb := r.tabs[t]
	m := r.ms[t]
	lv := r.e.toLua(op.V)
	kf := ""
	switch {
	case (op.A == "tb.Append" || op.A == "lua.tinsert" || op.A == "tb.InsertEnd") && r.lastSlotUsed(m):
		kf = kfAppendLimit
	case op.A == "lua.append" && r.hashContinues(m):
		kf = kfLenLimit
	}
	var es string
	switch op.A {
	case "tb.Append":
		es = outcomeErr(gl.Protect(func() error { tb.Append(lv); return nil }))
	case "tb.InsertEnd":
		n, d := r.observeLen(t, "tb.Len")
		if d != nil {
			return d
		}
		es = outcomeErr(gl.Protect(func() error { tb.Insert(n+1, lv); return nil }))
	case "lua.append":
		_, es = r.luaCall("append", tb, lv)
	case "lua.tinsert":
		_, es = r.luaCall("tinsert", tb, lv)
	}
	r.cnt["op:"+op.A]++
	if es != "" {
		return r.fail("", "%s", es)
	}
	if !op.V.isNil() {
		found := false
		for _, b := range m.borders() {
			if r.rawNum(t, b+1) == op.V {
				m.set(numV(b+1), op.V)
				r.touch(t, numV(b+1))
				found = true
				break
			}
		}
		if !found {
			return r.fail(kf, "after appending %s no border b of the table (%v) has t[b+1] equal to it", show(op.V), m.borders())
		}
	}
	if d := r.numericAudit(t, "after "+op.A+": "); d != nil {
		d.KF = pickKF(d.KF, kf)
		return d
	}
	return nil
}

func pickKF(a, b string) string {
	if a != "" {
		return a
	}
	return b
}

// removeEndOp: remove t[b] for some border b chosen by the implementation.
func (r *runner) removeEndOp(t int) *divergence {
	op := r.op
	tb := r.tabs[t]
	m := r.ms[t]
	kf := ""
	if r.hashContinues(m) {
		kf = kfLenLimit
	}
	var es string
	var ret lua.LValue = lua.LNil
	hasRet := true
	switch op.A {
	case "tb.RemoveEnd":
		n, d := r.observeLen(t, "tb.Len")
		if d != nil {
			return d
		}
		if n == 0 {
			r.cnt["op:tb.RemoveEnd(skipped,empty)"]++
			return nil
		}
		es = outcomeErr(gl.Protect(func() error { ret = tb.Remove(n); return nil }))
	case "lua.tremove":
		var res []lua.LValue
		res, es = r.luaCall("tremove", tb)
		ret = first(res)
	case "lua.pop":
		_, es = r.luaCall("pop", tb)
		hasRet = false
	}
	r.cnt["op:"+op.A]++
	if es != "" {
		return r.fail("", "%s", es)
	}
	bs := m.borders()
	var changed []float64
	zeroBorder := false
	for _, b := range bs {
		if b == 0 {
			zeroBorder = true
			if op.A != "lua.pop" {
				continue // removing from an empty list removes nothing
			}
		}
		if m.has(numV(b)) && r.rawNum(t, b).isNil() {
			changed = append(changed, b)
		}
	}
	rv := r.e.fromLua(ret)
	switch {
	case len(changed) > 1:
		return r.fail(kf, "removed more than one element: keys %v became nil", changed)
	case len(changed) == 1:
		b := changed[0]
		if hasRet && rv != m.get(numV(b)) {
			return r.fail(kf, "removed t[%v] but returned %s instead of its value %s", b, show(rv), show(m.get(numV(b))))
		}
		m.set(numV(b), vNil)
		r.deletes++
		r.touch(t, numV(b))
	default:
		if !zeroBorder {
			return r.fail(kf, "nothing was removed although the table has no border 0 (borders %v); returned %s", bs, show(rv))
		}
		if hasRet && !rv.isNil() {
			return r.fail(kf, "nothing was removed but %s was returned", show(rv))
		}
	}
	if d := r.numericAudit(t, "after "+op.A+": "); d != nil {
		d.KF = pickKF(d.KF, kf)
		return d
	}
	return nil
}

// midOp: tb.Insert / tb.Remove inside a proper sequence 1..n (unique border).
func (r *runner) midOp(t int) *divergence {
	op := r.op
	tb := r.tabs[t]
	m := r.ms[t]
	n := m.seqLen()
	if n < 1 || op.P < 1 || op.P > n {
		r.cnt["op:"+op.A+"(skipped,not a sequence)"]++
		return nil
	}
	kf := ""
	switch {
	case op.A == "tb.Insert" && r.lastSlotUsed(m):
		kf = kfAppendLimit
	case op.A == "tb.Remove" && r.hashContinues(m):
		kf = kfLenLimit
	}
	r.cnt["op:"+op.A]++
	if op.A == "tb.Insert" {
		lv := r.e.toLua(op.V)
		if es := outcomeErr(gl.Protect(func() error { tb.Insert(op.P, lv); return nil })); es != "" {
			return r.fail("", "%s", es)
		}
		for i := n; i >= op.P; i-- {
			m.set(numV(float64(i+1)), m.get(numV(float64(i))))
		}
		m.set(numV(float64(op.P)), op.V)
		r.touch(t, numV(float64(n+1)))
	} else {
		var ret lua.LValue = lua.LNil
		if es := outcomeErr(gl.Protect(func() error { ret = tb.Remove(op.P); return nil })); es != "" {
			return r.fail("", "%s", es)
		}
		want := m.get(numV(float64(op.P)))
		if g := r.e.fromLua(ret); g != want {
			return r.fail(kf, "tb.Remove(%d) on the sequence 1..%d returned %s, the element there is %s", op.P, n, show(g), show(want))
		}
		for i := op.P; i < n; i++ {
			m.set(numV(float64(i)), m.get(numV(float64(i+1))))
		}
		m.set(numV(float64(n)), vNil)
		r.deletes++
		r.touch(t, numV(float64(n)))
	}
	if d := r.numericAudit(t, "after "+op.A+": "); d != nil {
		d.KF = pickKF(d.KF, kf)
		return d
	}
	return nil
}

// badStore: a store under nil / NaN must raise a Lua error and change nothing.
func (r *runner) badStore(t int) *divergence {
	op := r.op
	tb := r.tabs[t]
	L := r.e.L
	var lk lua.LValue = lua.LNil
	if op.K.isNaN() {
		lk = lua.LNumber(math.NaN())
	}
	lv := r.e.toLua(op.V)
	acc := strings.TrimPrefix(op.A, "bad:")
	var o gl.Outcome
	switch acc {
	case "lua.set":
		_, o = gl.Call(L, r.e.h["set"], tb, lk, lv)
	case "lua.rawset":
		_, o = gl.Call(L, r.e.h["rawset"], tb, lk, lv)
	case "lua.ctor":
		_, o = gl.Call(L, r.e.h["ctor1"], lk, lv)
	case "L.RawSet":
		_, o = gl.Call(L, L.NewFunction(func(L *lua.LState) int { L.RawSet(tb, lk, lv); return 0 }))
	case "L.SetTable":
		_, o = gl.Call(L, L.NewFunction(func(L *lua.LState) int { L.SetTable(tb, lk, lv); return 0 }))
	default:
		return nil
	}
	r.cnt["op:"+op.A]++
	if o.GoPanic != nil {
		return r.fail("", "store under key %s: Go panic escaped: %s", show(op.K), fw.Short(o.PanicStr, 300))
	}
	if o.Err == nil {
		return r.fail("", "store under key %s through %s did not raise an error", show(op.K), acc)
	}
	if gl.IsGoRuntimeErrorText(o.Err.Error()) {
		return r.fail("", "store under key %s: Go run-time fault: %s", show(op.K), fw.Short(o.Err.Error(), 300))
	}
	r.cnt["bad_store_raised"]++
	return nil
}

func (r *runner) makeTable(c *Ctor) (*lua.LTable, *divergence) {
	L := r.e.L
	r.cnt["make:"+c.How]++
	switch c.How {
	case "new":
		return L.NewTable(), nil
	case "create":
		return L.CreateTable(c.A, c.H), nil
	case "vararg":
		args := make([]lua.LValue, len(c.Pos))
		for i, v := range c.Pos {
			args[i] = r.e.toLua(v)
		}
		res, es := r.luaCall("vararg", args...)
		if es != "" {
			return nil, r.fail("", "{...}: %s", es)
		}
		tb, ok := first(res).(*lua.LTable)
		if !ok {
			return nil, r.fail("", "{...} did not give a table")
		}
		return tb, nil
	}
	src, _ := ctorSource(c)
	fn, err := L.LoadString(src)
	if err != nil {
		panic("c09 harness: constructor does not load: " + err.Error() + "\n" + src)
	}
	args := append([]lua.LValue{}, r.e.refs...)
	args = append(args, r.e.h["id"])
	for _, v := range c.Tail {
		args = append(args, r.e.toLua(v))
	}
	res, o := gl.Call(L, fn, args...)
	if es := outcomeErr(o); es != "" {
		return nil, r.fail("", "table constructor: %s", es)
	}
	tb, ok := first(res).(*lua.LTable)
	if !ok {
		return nil, r.fail("", "table constructor did not give a table")
	}
	return tb, nil
}

func (r *runner) exec() *divergence {
	op := r.op
	t := op.T
	if t < 0 || t >= len(r.tabs) {
		return nil
	}
	m := r.ms[t]
	switch {
	case op.A == "audit":
		return r.audit(t)
	case op.A == "walk":
		if op.W == nil {
			return nil
		}
		return r.walk(t, op.W.Kind, op.W.Mods, "")
	case op.A == "ipairs":
		return r.ipairs(t, "")
	case op.A == "ctor":
		if op.C == nil {
			return nil
		}
		tb, d := r.makeTable(op.C)
		if d != nil {
			return d
		}
		r.tabs[t] = tb
		r.ms[t] = ctorModel(op.C)
		return r.auditCtor(t, op.C)
	case strings.HasPrefix(op.A, "bad:"):
		return r.badStore(t)
	case op.A == "tb.Len" || op.A == "L.ObjLen" || op.A == "lua.len":
		_, d := r.observeLen(t, op.A)
		return d
	case op.A == "tb.MaxN":
		var n int
		if es := outcomeErr(gl.Protect(func() error { n = r.tabs[t].MaxN(); return nil })); es != "" {
			return r.fail("", "%s", es)
		}
		r.cnt["op:tb.MaxN"]++
		if m.isBorder(float64(n)) {
			r.cnt["maxn_is_a_border(info)"]++
		}
		return nil
	case op.A == "tb.Append" || op.A == "tb.InsertEnd" || op.A == "lua.append" || op.A == "lua.tinsert":
		return r.appendOp(t)
	case op.A == "tb.RemoveEnd" || op.A == "lua.tremove" || op.A == "lua.pop":
		return r.removeEndOp(t)
	case op.A == "tb.Insert" || op.A == "tb.Remove":
		return r.midOp(t)
	}
	for _, a := range readAccs {
		if a == op.A {
			r.cnt["op:read"]++
			if !op.K.isNil() && !op.K.isNaN() {
				r.touch(t, op.K)
			} else {
				r.cnt["read_nil_or_nan_key"]++
			}
			return r.checkRead(t, op.A, op.K, "")
		}
	}
	for _, a := range storeAccs {
		if a == op.A {
			if op.K.isNil() || op.K.isNaN() {
				return nil
			}
			r.cnt["op:store"]++
			if es := r.store(r.tabs[t], op.A, op.K, op.V); es != "" {
				return r.fail("", "%s", es)
			}
			had := m.has(op.K)
			if m.set(op.K, op.V) {
				r.deletes++
				r.cnt["deletes_of_present_keys"]++
			} else if !had && !op.V.isNil() {
				r.cnt["inserts_of_absent_keys"]++
			} else if had {
				r.cnt["overwrites"]++
			}
			r.touch(t, op.K)
			acc := op.R
			if acc == "" {
				acc = "tb.RawGet"
			}
			return r.checkRead(t, acc, op.K, "after the store: ")
		}
	}
	r.cnt["op:unknown"]++
	return nil
}

// ---- traversals ----

type abortWalk struct{}

type walker struct {
	r       *runner
	t       int
	kind    string
	mods    map[int][]Mod
	cleared map[V]bool
	seen    map[V]bool
	step    int
	err     *divergence
	ctx     string
}

// visit checks one (key, value) pair produced by a traversal and then applies
// the modifications scheduled after this visit. It returns false to abort.
func (w *walker) visit(k, v lua.LValue) bool {
	r := w.r
	m := r.ms[w.t]
	kv := r.e.fromLua(k)
	if kv.isNil() || kv.isNaN() || kv.kind() == '?' {
		w.err = r.fail("", "%s%s produced the key %s", w.ctx, w.kind, show(kv))
		return false
	}
	nk := norm(kv)
	if w.seen[nk] {
		w.err = r.fail("", "%s%s visited key %s twice (visit %d)", w.ctx, w.kind, show(kv), w.step)
		return false
	}
	w.seen[nk] = true
	want := m.get(kv)
	got := r.e.fromLua(v)
	if want.isNil() {
		if w.cleared[nk] {
			w.err = r.fail("", "%s%s visited key %s with value %s after it had been cleared during the traversal", w.ctx, w.kind, show(kv), show(got))
		} else {
			w.err = r.fail("", "%s%s visited key %s (value %s) which is not present in the table", w.ctx, w.kind, show(kv), show(got))
		}
		return false
	}
	if got != want {
		w.err = r.fail("", "%s%s visited key %s with value %s, its current value is %s", w.ctx, w.kind, show(kv), show(got), show(want))
		return false
	}
	r.cnt["walk_visits"]++
	for _, md := range w.mods[w.step] {
		if es := r.store(r.tabs[w.t], md.A, md.K, md.V); es != "" {
			w.err = r.fail("", "%sassignment to existing key %s during %s: %s", w.ctx, show(md.K), w.kind, es)
			return false
		}
		if m.set(md.K, md.V) {
			r.deletes++
			w.cleared[norm(md.K)] = true
			r.cnt["walk_mods_clear"]++
		} else {
			r.cnt["walk_mods_overwrite"]++
		}
		r.touch(w.t, md.K)
	}
	w.step++
	return true
}

// walk performs one complete traversal of slot t by the given method.
func (r *runner) walk(t int, kind string, mods []Mod, ctx string) *divergence {
	tb := r.tabs[t]
	m := r.ms[t]
	L := r.e.L
	w := &walker{r: r, t: t, kind: kind, mods: map[int][]Mod{}, cleared: map[V]bool{}, seen: map[V]bool{}, ctx: ctx}
	// only assignments to fields that exist when the traversal starts are
	// legal; each key is modified at most once so a cleared field is never
	// assigned again
	used := map[V]bool{}
	size := m.size()
	for _, md := range mods {
		nk := norm(md.K)
		if !m.has(md.K) || used[nk] || md.K.isNil() || md.K.isNaN() || size == 0 {
			r.cnt["walk_mods_dropped(key absent at start)"]++
			continue
		}
		used[nk] = true
		at := md.At
		if at < 0 {
			at = 0
		}
		at %= size
		w.mods[at] = append(w.mods[at], md)
	}
	r.cnt["walk:"+kind]++
	if len(w.mods) > 0 {
		r.cnt["walks_with_modification"]++
	}
	var es string
	switch kind {
	case "tb.Next", "L.Next":
		es = outcomeErr(gl.Protect(func() error {
			var k lua.LValue = lua.LNil
			for {
				var nk, nv lua.LValue
				if kind == "tb.Next" {
					nk, nv = tb.Next(k)
				} else {
					nk, nv = L.Next(tb, k)
				}
				if nk == lua.LNil {
					return nil
				}
				if !w.visit(nk, nv) {
					return nil
				}
				k = nk
			}
		}))
	case "tb.ForEach", "L.ForEach":
		cb := func(k, v lua.LValue) {
			if !w.visit(k, v) {
				panic(abortWalk{})
			}
		}
		es = outcomeErr(gl.Protect(func() (err error) {
			defer func() {
				if x := recover(); x != nil {
					if _, ok := x.(abortWalk); !ok {
						panic(x)
					}
				}
			}()
			if kind == "tb.ForEach" {
				tb.ForEach(cb)
			} else {
				L.ForEach(tb, cb)
			}
			return nil
		}))
	case "lua.next", "lua.pairs":
		rec := L.NewFunction(func(L *lua.LState) int {
			if !w.visit(L.Get(1), L.Get(2)) {
				L.RaiseError("c09-abort-walk")
			}
			return 0
		})
		name := "wnext"
		if kind == "lua.pairs" {
			name = "wpairs"
		}
		_, es = r.luaCall(name, tb, rec)
		if w.err != nil {
			es = ""
		}
	default:
		return nil
	}
	kf := ""
	if w.err != nil {
		return w.err
	}
	if es != "" {
		return r.fail("", "%s%s: %s", ctx, kind, es)
	}
	// every key present now was present throughout (nothing is inserted during a traversal)
	for _, k := range m.keys() {
		if !w.seen[k] {
			return r.fail(kf, "%s%s did not visit key %s (value %s) which was present throughout; %d of %d keys visited", ctx, kind, show(k), show(m.get(k)), len(w.seen), m.size())
		}
	}
	return nil
}

// ipairs must visit 1..n up to the first nil.
func (r *runner) ipairs(t int, ctx string) *divergence {
	m := r.ms[t]
	L := r.e.L
	r.cnt["walk:lua.ipairs"]++
	i := 0
	var bad *divergence
	rec := L.NewFunction(func(L *lua.LState) int {
		i++
		kv, vv := r.e.fromLua(L.Get(1)), r.e.fromLua(L.Get(2))
		want := m.get(numV(float64(i)))
		if kv != numV(float64(i)) || want.isNil() || vv != want {
			bad = r.fail("", "%sipairs step %d produced (%s, %s); the table has t[%d]=%s", ctx, i, show(kv), show(vv), i, show(want))
			L.RaiseError("c09-abort-walk")
		}
		return 0
	})
	_, es := r.luaCall("wipairs", r.tabs[t], rec)
	if bad != nil {
		return bad
	}
	if es != "" {
		return r.fail("", "%sipairs: %s", ctx, es)
	}
	if n := m.prefixLen(); i != n {
		what := fmt.Sprintf("%sipairs visited 1..%d but the table has non-nil values at 1..%d (t[%d]=%s)", ctx, i, n, i+1, show(m.get(numV(float64(i+1)))))
		if i == r.mai-1 && n >= r.mai {
			// ipairs reads through RawGetInt, which never looks at the hash part
			return r.soft(kfRawGetInt, "%s", what)
		}
		return r.fail("", "%s", what)
	}
	r.cnt["ipairs_elements"] += int64(i)
	return nil
}

var auditWalks = []string{"tb.Next", "tb.ForEach", "L.Next", "L.ForEach", "lua.next", "lua.pairs"}

// audit: every model key read back, absent keys read as nil, Len is a border,
// complete traversal by every method.
func (r *runner) audit(t int) *divergence {
	m := r.ms[t]
	r.cnt["audits"]++
	ctx := "audit: "
	for _, k := range m.keys() {
		acc := pickAcc(r.rr, readAccs, k, r.mai)
		if d := r.checkRead(t, acc, k, ctx); d != nil {
			return d
		}
		r.cnt["audit_present_keys_read"]++
	}
	// absent keys: neighbours and look-alikes of present keys plus pool keys
	var probes []V
	for _, k := range m.keys() {
		switch k.kind() {
		case 'n':
			f, _ := k.num()
			probes = append(probes, numV(f+1), numV(f-1), numV(f+0.5), strV(k.str()), numV(-f))
		case 's':
			if f, err := strconv.ParseFloat(k.str(), 64); err == nil && !math.IsNaN(f) {
				probes = append(probes, numV(f))
			}
			probes = append(probes, strV(k.str()+" "), strV(k.str()+"\x00"))
		case 'T':
			probes = append(probes, "F", numV(1), strV("true"))
		case 'F':
			probes = append(probes, "T", numV(0), strV("false"))
		}
	}
	if r.pool == nil {
		r.pool = keyPool(r.mai, false)
	}
	pool := r.pool
	for i := 0; i < 12; i++ {
		probes = append(probes, pool[r.rr.Intn(len(pool))])
	}
	probes = append(probes, numV(1), numV(0), numV(float64(r.mai)), vNil, numV(math.NaN()))
	if len(probes) > 80 {
		r.rr.Shuffle(len(probes), func(i, j int) { probes[i], probes[j] = probes[j], probes[i] })
		probes = probes[:80]
	}
	for _, k := range probes {
		if m.has(k) {
			continue
		}
		acc := "tb.RawGet"
		if k.isNil() || k.isNaN() {
			acc = []string{"tb.RawGet", "L.RawGet", "L.GetTable", "lua.get", "lua.rawget"}[r.rr.Intn(5)]
		} else {
			acc = pickAcc(r.rr, readAccs, k, r.mai)
		}
		if d := r.checkRead(t, acc, k, ctx+"absent key: "); d != nil {
			return d
		}
		r.cnt["audit_absent_keys_read"]++
	}
	for _, acc := range []string{"tb.Len", "L.ObjLen", "lua.len"} {
		if _, d := r.observeLen(t, acc); d != nil {
			return d
		}
	}
	for _, kind := range auditWalks {
		if d := r.walk(t, kind, nil, ctx); d != nil {
			return d
		}
	}
	return r.ipairs(t, ctx)
}

const kfCtorReflush = "C09-ctor-setlist-reflush"
const kfCtorBlock = "C09-ctor-setlist-extension-word-rewritten"

// auditCtor audits a table right after its construction; a divergence of a
// constructor in which a keyed field follows exactly k*FieldsPerFlush
// positional items matches finding C09-ctor-setlist-reflush.
func (r *runner) auditCtor(t int, c *Ctor) *divergence {
	d := r.audit(t)
	if d != nil && d.KF == "" && c.How == "lua" {
		_, sh := ctorSource(c)
		switch {
		case len(c.Pos)+len(c.Tail) > 511*lua.FieldsPerFlush:
			d.KF = kfCtorBlock
		case sh.afterFlush:
			d.KF = kfCtorReflush
		}
	}
	return d
}

// runHistory applies h to the implementation and the model.
func runHistory(c *fw.Ctx, h *History, count bool) result {
	mai := defaultMAI
	if h.MAI > 0 {
		mai = h.MAI
	}
	saved := lua.MaxArrayIndex
	lua.MaxArrayIndex = mai
	defer func() { lua.MaxArrayIndex = saved }()
	e := newEnv()
	defer e.L.Close()
	r := &runner{c: c, h: h, e: e, mai: mai, rr: rand.New(rand.NewSource(h.Seed)), known: map[string]string{},
		cnt: map[string]int64{}, classes: map[string]bool{}}
	var div *divergence
	r.step = -1
	for i := range h.Init {
		r.op = Op{A: "init", T: i, C: &h.Init[i]}
		tb, d := r.makeTable(&h.Init[i])
		if d != nil {
			div = d
			break
		}
		r.tabs = append(r.tabs, tb)
		r.ms = append(r.ms, ctorModel(&h.Init[i]))
	}
	if div == nil {
		for t := range r.tabs {
			r.op = Op{A: "init-audit", T: t}
			if div = r.auditCtor(t, &h.Init[t]); div != nil {
				break
			}
		}
	}
	if div == nil {
		m := h.M
		if m <= 0 {
			m = 10
		}
		for i, op := range h.Ops {
			r.step, r.op = i, op
			if div = r.exec(); div != nil {
				break
			}
			r.executed++
			if (i+1)%m == 0 && op.T >= 0 && op.T < len(r.tabs) {
				if div = r.audit(op.T); div != nil {
					break
				}
			}
		}
	}
	if div == nil {
		r.step = len(h.Ops)
		for t := range r.tabs {
			r.op = Op{A: "final-audit", T: t}
			if div = r.audit(t); div != nil {
				break
			}
		}
	}
	if count && c != nil {
		for k, n := range r.cnt {
			c.Count(k, n)
		}
		if h.MAI > 0 {
			c.Count("histories_with_lowered_MaxArrayIndex", 1)
		}
		if h.Huge {
			c.Count("histories_huge_default_MaxArrayIndex", 1)
		}
		c.Count("operations_executed", int64(r.executed))
	}
	return result{div: div, known: r.known, nt: r.executed >= 20 && len(r.classes) >= 2 && r.deletes >= 1}
}
