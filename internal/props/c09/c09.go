package c09

import (
	"encoding/json"
	"fmt"

	lua "github.com/yuin/gopher-lua"

	"verif/internal/fw"
)

func init() {
	fw.Register(&fw.Prop{
		ID:    "C09",
		Level: "exploration",
		Rule: "histories: seeded random sequences of 10-400 operations on 1-2 shared tables mixing Lua statements (t[k]=v, t.k=v, t[literal]=v, rawset/rawget, " +
			"constructors incl. {...}, t[#t+1]=v, t[#t]=nil, table.insert/remove at the end) and the Go API (LTable.RawSet/RawSetInt/RawSetString/RawSetH/RawGet*/Len/MaxN/" +
			"Next/ForEach/Append/Insert/Remove, LState.RawSet/RawSetInt/RawGet/RawGetInt/SetTable/GetTable/SetField/GetField/Next/ForEach/ObjLen, CreateTable); " +
			"every store is followed by a re-read of the touched key through a recorded accessor, every M (3..50) operations and at both ends a full audit " +
			"(all model keys read back, absent look-alike keys read as nil, Len/ObjLen/# is a border of the model, complete traversal by tb.Next, tb.ForEach, L.Next, L.ForEach, " +
			"Lua next, pairs, ipairs); traversals with assignments to / clears of existing fields at recorded visit indices (clears also through table.remove / LTable.Remove when the key is the border, which shortens the array part under the iterator); stores under nil/NaN must raise; " +
			"about 1/4 of the histories run with lua.MaxArrayIndex lowered to 6..41 so that the array/hash boundary is crossed, a few with the default limit and keys 2^26-1/-2 (1 GB array part), " +
			"a few start from a constructor with about 511*FieldsPerFlush positional items; " +
			"non-trivial = >=20 executed operations touching >=2 internal key classes (array-range integer, other number, string, other) with >=1 deletion of a present key; distinct by content hash",
		Assumptions: []string{
			"the reference (Go map keyed by normalised key; border and traversal rules of the Lua 5.1 manual sections 2.2, 2.5.5, 5.1) is correct",
			"lua.MaxArrayIndex is a configuration variable (config.go); lowering it before a state is created is a legal configuration and moves the array/hash boundary without changing the code paths",
			"RawSetH/RawGetH are only called with non-string keys outside 1..MaxArrayIndex-1, RawSetString/RawGetString with strings, RawSetInt/RawGetInt with integers |k| <= 2^53",
			"the Go-level LTable.RawSet* family is never called with nil/NaN keys (only the Lua-level stores and LState.RawSet/SetTable are required to raise)",
			"LTable.MaxN is only exercised for panics; its result is not part of the property",
		},
		CrashIsViolation: true,
		Run:              run,
		Replay:           replay,
		Reproducers:      reproducers,
		MemMB:            12000,
	})
}

type caseFile struct {
	H *History `json:"h"`
}

func runCase(c *fw.Ctx, h *History, sample bool) {
	c.Begin(caseFile{H: h})
	res := runHistory(c, h, true)
	for id, detail := range res.known {
		c.Known(id, detail)
	}
	if res.div != nil {
		c.ViolationOrKnown(res.div.KF, res.div.KF != "", "history diverges from the reference map: "+res.div.String(), caseFile{H: h})
		c.Count("histories_stopped_at_divergence", 1)
	}
	b, _ := json.Marshal(h)
	c.End(res.nt && (res.div == nil || res.div.KF != ""), string(b))
	if sample {
		s := *h
		if len(s.Ops) > 12 {
			s.Ops = s.Ops[:12]
		}
		c.Sample(map[string]any{"history_prefix": s, "ops_total": len(h.Ops), "nontrivial": res.nt})
	}
}

func run(c *fw.Ctx) {
	n := c.Share(c.Pick(3000, 300000))
	for i := 0; i < n; i++ {
		h := genHistory(c.R, defaultMAI, false)
		runCase(c, h, i < 1 && c.Shard < 4)
	}
	// a few histories with the default MaxArrayIndex and keys 2^26-1 / 2^26-2 (1 GB array part each)
	nh := 0
	if c.Quick() {
		if c.Shard == 0 {
			nh = 1
		}
	} else if c.Shard < 4 {
		nh = 2
	}
	for i := 0; i < nh; i++ {
		h := genHistory(c.SubRand("huge", c.Shard*16+i), defaultMAI, true)
		runCase(c, h, false)
	}
	// a few constructors with about 511*FieldsPerFlush positional items
	nb := 0
	if c.Quick() {
		if c.Shard == 1 || c.Shard == 2 {
			nb = 1
		}
	} else if c.Shard >= 4 && c.Shard < 12 {
		nb = 3
	}
	for i := 0; i < nb; i++ {
		h := genBigCtorHistory(c.SubRand("bigctor", c.Shard*16+i), defaultMAI, lua.FieldsPerFlush)
		c.Count("histories_big_constructor", 1)
		runCase(c, h, false)
	}
}

func replay(c *fw.Ctx, raw json.RawMessage) {
	var cf caseFile
	if err := json.Unmarshal(raw, &cf); err != nil || cf.H == nil {
		fmt.Println("bad case:", err)
		return
	}
	res := runHistory(c, cf.H, false)
	for id, detail := range res.known {
		c.Known(id, detail)
	}
	if res.div != nil {
		c.ViolationOrKnown(res.div.KF, res.div.KF != "", "history diverges from the reference map: "+res.div.String(), cf)
	}
}

// attributed reports whether running h ends in (or passes through) finding id.
func attributed(c *fw.Ctx, h *History, id string) (bool, string) {
	res := runHistory(c, h, false)
	if d, ok := res.known[id]; ok {
		return true, d
	}
	if res.div != nil && res.div.KF == id {
		return true, res.div.String()
	}
	return false, res.div.String()
}

var reproducers = map[string]func(c *fw.Ctx) (bool, string){
	// t:RawSetInt(0, 5); t:RawGetInt(0) -> nil
	kfRawGetInt: func(c *fw.Ctx) (bool, string) {
		h := &History{Seed: 1, M: 1000, Init: []Ctor{{How: "new"}},
			Ops: []Op{{A: "tb.RawSetInt", K: numV(0), V: numV(5), R: "tb.RawGetInt"}}}
		return attributed(c, h, kfRawGetInt)
	},
	// default MaxArrayIndex: t[2^26-1] = true; t:Append(7) -> the 7 lands in array slot 2^26, t[2^26] reads nil
	kfAppendLimit: func(c *fw.Ctx) (bool, string) {
		h := &History{Seed: 1, M: 1000, Huge: true, Init: []Ctor{{How: "create", A: defaultMAI + 64}},
			Ops: []Op{{A: "tb.RawSetInt", K: numV(float64(defaultMAI - 1)), V: "T", R: "tb.RawGet"}, {A: "tb.Append", V: numV(7)}}}
		return attributed(c, h, kfAppendLimit)
	},
	// {1, 2, ..., 50, x = false}: t[1] == false
	kfCtorReflush: func(c *fw.Ctx) (bool, string) {
		ct := Ctor{How: "lua", KeysLast: true, Keys: []V{strV("x")}, Vals: []V{"F"}}
		for i := 1; i <= lua.FieldsPerFlush; i++ {
			ct.Pos = append(ct.Pos, numV(float64(i)))
		}
		h := &History{Seed: 1, M: 1000, Init: []Ctor{ct}}
		return attributed(c, h, kfCtorReflush)
	},
	// local a, b; {1, 2, ..., 25600, a, b, 25603}: t[25551..25600] are nil
	kfCtorBlock: func(c *fw.Ctx) (bool, string) {
		ct := Ctor{How: "lua"}
		for i := 1; i <= 512*lua.FieldsPerFlush; i++ {
			ct.Pos = append(ct.Pos, numV(float64(i)))
		}
		ct.Pos = append(ct.Pos, refV(0), refV(1), numV(3))
		h := &History{Seed: 1, M: 1000, Init: []Ctor{ct}}
		return attributed(c, h, kfCtorBlock)
	},
	// default MaxArrayIndex: t[1..2^26] all true -> #t = 2^26-1 although t[2^26] ~= nil
	kfLenLimit: func(c *fw.Ctx) (bool, string) {
		L := lua.NewState()
		defer L.Close()
		mai := lua.MaxArrayIndex
		tb := L.CreateTable(mai, 0)
		for i := 1; i <= mai; i++ {
			tb.RawSetInt(i, lua.LTrue)
		}
		n := L.ObjLen(tb)
		next := tb.RawGet(lua.LNumber(n + 1))
		return n == mai-1 && next != lua.LNil, fmt.Sprintf("t[1..%d] = true: ObjLen = %d, t[%d] = %v", mai, n, n+1, next)
	},
}
