package c09

import (
	"math"
	"math/rand"
	"strings"
)

// Op is one step of a history.
type Op struct {
	A string `json:"a"`           // operation / accessor name
	T int    `json:"t,omitempty"` // table slot
	K V      `json:"k,omitempty"`
	V V      `json:"v,omitempty"`
	R string `json:"r,omitempty"` // accessor used to re-read the touched key
	P int    `json:"p,omitempty"` // position (tb.Insert / tb.Remove)
	W *Walk  `json:"w,omitempty"`
	C *Ctor  `json:"c,omitempty"`
}

// Walk is one traversal, optionally with modifications of existing fields
// applied right after the At-th visit (0-based).
type Walk struct {
	Kind string `json:"kind"`
	Mods []Mod  `json:"mods,omitempty"`
}

type Mod struct {
	At int    `json:"at"`
	K  V      `json:"k"`
	V  V      `json:"v"` // "N" clears, anything else overwrites
	A  string `json:"a"` // store accessor
}

// Ctor describes how a table is made.
type Ctor struct {
	How  string `json:"how"` // new | create | lua | vararg
	A    int    `json:"acap,omitempty"`
	H    int    `json:"hcap,omitempty"`
	Pos  []V    `json:"pos,omitempty"`  // positional items (may be nil)
	Keys []V    `json:"keys,omitempty"` // explicit keys, disjoint from 1..len(Pos)
	Vals []V    `json:"vals,omitempty"`
	Mix  int64  `json:"mix,omitempty"` // seed of the interleaving of items in the source text
	// HasTail: the constructor ends in a multiple-results call returning Tail
	HasTail bool `json:"has_tail,omitempty"`
	Tail    []V  `json:"tail,omitempty"`
	// Call[i]: the value of the i-th keyed field is written as a function call with several results
	Call []bool `json:"call,omitempty"`
	// KeysLast: the keyed fields follow all positional items (else interleaved by Mix)
	KeysLast bool `json:"keys_last,omitempty"`
}

// History is one case.
type History struct {
	MAI  int    `json:"mai,omitempty"`  // lua.MaxArrayIndex lowered to this value for the case (0: default 2^26)
	Huge bool   `json:"huge,omitempty"` // uses keys MaxArrayIndex-1/-2 with the default limit (1 GB array part)
	Seed int64  `json:"seed"`           // seeds the run-time choices of the audits
	M    int    `json:"m"`              // full audit every M operations
	Init []Ctor `json:"init"`
	Ops  []Op   `json:"ops"`
}

var storeAccs = []string{"tb.RawSet", "tb.RawSetInt", "tb.RawSetString", "tb.RawSetH", "L.RawSet", "L.RawSetInt", "L.SetTable", "L.SetField", "lua.set", "lua.rawset", "lua.setconst"}
var readAccs = []string{"tb.RawGet", "tb.RawGetInt", "tb.RawGetString", "tb.RawGetH", "L.RawGet", "L.RawGetInt", "L.GetTable", "L.GetField", "lua.get", "lua.rawget", "lua.getconst"}

var luaKeywords = map[string]bool{"and": true, "break": true, "do": true, "else": true, "elseif": true, "end": true,
	"false": true, "for": true, "function": true, "if": true, "in": true, "local": true, "nil": true, "not": true,
	"or": true, "repeat": true, "return": true, "then": true, "true": true, "until": true, "while": true, "goto": true}

func isIdent(s string) bool {
	if s == "" || luaKeywords[s] {
		return false
	}
	for i := 0; i < len(s); i++ {
		c := s[i]
		if !(c == '_' || c >= 'a' && c <= 'z' || c >= 'A' && c <= 'Z' || i > 0 && c >= '0' && c <= '9') {
			return false
		}
	}
	return true
}

// constOK: the key can be written as a literal in Lua source.
func constOK(k V) bool {
	switch k.kind() {
	case 's', 'T', 'F':
		return true
	case 'n':
		f, _ := k.num()
		return !math.IsNaN(f) && !math.IsInf(f, 0)
	}
	return false
}

// accOK reports whether accessor acc may be used with key k.
func accOK(acc string, k V, mai int) bool {
	switch acc {
	case "tb.RawSetInt", "L.RawSetInt", "tb.RawGetInt", "L.RawGetInt":
		_, ok := intKey(k)
		return ok
	case "tb.RawSetString", "L.SetField", "tb.RawGetString", "L.GetField":
		return k.isString()
	case "tb.RawSetH", "tb.RawGetH":
		return hashKeyOK(k, mai)
	case "lua.setconst", "lua.getconst":
		return constOK(k)
	case "lua.tremove", "tb.Remove":
		_, ok := intKey(k)
		return ok
	}
	return !k.isNil() && !k.isNaN()
}

func pickAcc(r *rand.Rand, accs []string, k V, mai int) string {
	var ok []string
	for _, a := range accs {
		if accOK(a, k, mai) {
			ok = append(ok, a)
			// the specialised accessors get double weight
			if strings.Contains(a, "Int") || strings.Contains(a, "String") || strings.HasSuffix(a, "H") || strings.Contains(a, "Field") {
				ok = append(ok, a)
			}
		}
	}
	return ok[r.Intn(len(ok))]
}

type gen struct {
	r    *rand.Rand
	mai  int
	huge bool
	pm   []*model // predicted contents per slot (a hint for choosing interesting keys, not an oracle)
	ctr  int
	pool []V
	ops  []Op
}

var longStr = strings.Repeat("long-key-", 40)

func keyPool(mai int, huge bool) []V {
	var p []V
	for _, f := range []float64{0, -1, -2, -40, 1.5, 0.5, -0.5, 2.5, 40.5, math.Copysign(0, -1),
		1 << 31, 1<<31 - 1, -(1 << 31), 1 << 53, 1<<53 - 1, -(1 << 53), 1 << 63, -(1 << 63), 1e300, -1e300,
		math.Inf(1), math.Inf(-1), 1e-300, 4294967296, 4294967297} {
		p = append(p, numV(f))
	}
	m := float64(mai)
	p = append(p, numV(m), numV(m+1), numV(m+2), numV(m), numV(m+1), numV(m+0.5), numV(m-0.5))
	if huge || mai < 1000 {
		p = append(p, numV(m-1), numV(m-2), numV(m-1), numV(m-2))
	}
	for _, s := range []string{"1", "2", "0", "", "x", "y", "1.0", "01", "-0", "nil", "true", "1e0", " 1", "a\x00b", "a\x00c", "é", "日本",
		longStr, longStr + "1", longStr + "2", "k1", "k2", "k3", "k4", "k5", "k6", "k7", "k8", "end", "n", "__index", "__len", "__newindex"} {
		p = append(p, strV(s))
	}
	p = append(p, "T", "F", "T", "F")
	for i := 0; i < nRefs; i++ {
		p = append(p, refV(i))
	}
	return p
}

func (g *gen) fresh() V {
	g.ctr++
	switch g.r.Intn(5) {
	case 0:
		return strV("v" + itoa(g.ctr))
	case 1:
		return numV(float64(g.ctr) + 0.5)
	}
	return numV(float64(1000 + g.ctr))
}

func (g *gen) val(pNil int) V {
	if g.r.Intn(100) < pNil {
		return vNil
	}
	switch k := g.r.Intn(100); {
	case k < 7:
		return "F"
	case k < 10:
		return "T"
	case k < 16:
		return refV(g.r.Intn(nRefs))
	}
	return g.fresh()
}

// predicted border the implementation is likely to pick (a hint only).
func (g *gen) pborder(t int) float64 {
	bs := g.pm[t].borders()
	b := bs[0]
	for _, x := range bs {
		if x < float64(g.mai) {
			b = x
		}
	}
	return b
}

func (g *gen) key(t int) V {
	m := g.pm[t]
	switch k := g.r.Intn(100); {
	case k < 18: // an existing key
		if ks := m.keys(); len(ks) > 0 {
			return ks[g.r.Intn(len(ks))]
		}
		fallthrough
	case k < 40: // around the border
		b := g.pborder(t)
		d := []float64{1, 1, 1, 0, -1, 2, 3}[g.r.Intn(7)]
		if b+d >= 1 {
			return numV(b + d)
		}
		return numV(1)
	case k < 70:
		hi := 40
		if g.r.Intn(3) == 0 {
			hi = 8
		}
		return numV(float64(1 + g.r.Intn(hi)))
	}
	return g.pool[g.r.Intn(len(g.pool))]
}

func (g *gen) slot() int {
	if len(g.pm) > 1 && g.r.Intn(4) == 0 {
		return 1 + g.r.Intn(len(g.pm)-1)
	}
	return 0
}

func (g *gen) emit(op Op) { g.ops = append(g.ops, op) }

func (g *gen) store(t int, k, v V) {
	op := Op{A: pickAcc(g.r, storeAccs, k, g.mai), T: t, K: k, V: v, R: pickAcc(g.r, readAccs, k, g.mai)}
	g.pm[t].set(k, v)
	g.emit(op)
}

func (g *gen) genCtor(big bool) *Ctor {
	c := &Ctor{Mix: g.r.Int63(), KeysLast: g.r.Intn(3) == 0}
	switch k := g.r.Intn(10); {
	case k < 2:
		c.How = "new"
		return c
	case k < 5:
		c.How = "create"
		caps := []int{0, 0, 1, 4, 31, 32, 33, 64, -1, 100}
		c.A, c.H = caps[g.r.Intn(len(caps))], caps[g.r.Intn(len(caps))]
		return c
	case k < 7:
		c.How = "vararg"
	default:
		c.How = "lua"
	}
	np := g.r.Intn(8)
	if big && g.r.Intn(3) == 0 {
		np = []int{49, 50, 50, 51, 52, 99, 100, 101, 120, 150}[g.r.Intn(10)]
	}
	if g.mai < 1000 && g.r.Intn(3) == 0 {
		np = g.mai - 2 + g.r.Intn(4)
	}
	for i := 0; i < np; i++ {
		c.Pos = append(c.Pos, g.val(15))
	}
	if c.How == "lua" {
		used := map[V]bool{}
		nt := 0
		if g.r.Intn(3) == 0 {
			c.HasTail = true
			nt = g.r.Intn(5)
			for i := 0; i < nt; i++ {
				c.Tail = append(c.Tail, g.val(15))
			}
		}
		for i := 1; i <= np+nt; i++ {
			used[numV(float64(i))] = true
		}
		// explicit fields that name an index a positional item (or a value of the tail) also fills, with the
		// very value of that item: the manual leaves the order of the assignments in a constructor open, and
		// with equal values every order gives the same table
		if np+nt > 0 && g.r.Intn(3) == 0 {
			for n := 1 + g.r.Intn(3); n > 0; n-- {
				i := 1 + g.r.Intn(np+nt)
				k := numV(float64(i))
				if used[k+"dup"] {
					continue
				}
				used[k+"dup"] = true
				v := vNil
				if i <= np {
					v = c.Pos[i-1]
				} else {
					v = c.Tail[i-1-np]
				}
				c.Keys = append(c.Keys, k)
				c.Vals = append(c.Vals, v)
				c.Call = append(c.Call, g.r.Intn(3) == 0)
			}
		}
		nk := g.r.Intn(6)
		for i := 0; i < nk; i++ {
			var k V
			if g.r.Intn(2) == 0 {
				k = numV(float64(np + nt + 1 + g.r.Intn(4)))
			} else {
				k = g.pool[g.r.Intn(len(g.pool))]
			}
			if !constOK(k) && k.kind() != 'r' || used[norm(k)] {
				continue
			}
			if f, ok := k.num(); ok && (math.IsInf(f, 0) || math.IsNaN(f)) {
				continue
			}
			used[norm(k)] = true
			c.Keys = append(c.Keys, k)
			c.Vals = append(c.Vals, g.val(10))
			c.Call = append(c.Call, g.r.Intn(3) == 0)
		}
	}
	return c
}

func ctorModel(c *Ctor) *model {
	m := newModel()
	for i, v := range c.Pos {
		m.set(numV(float64(i+1)), v)
	}
	if c.HasTail {
		for i, v := range c.Tail {
			m.set(numV(float64(len(c.Pos)+i+1)), v)
		}
	}
	for i, k := range c.Keys {
		m.set(k, c.Vals[i])
	}
	return m
}

func (g *gen) genWalk(t int) *Walk {
	kinds := []string{"tb.Next", "L.Next", "tb.ForEach", "L.ForEach", "lua.next", "lua.pairs"}
	w := &Walk{Kind: kinds[g.r.Intn(len(kinds))]}
	ks := g.pm[t].keys()
	if len(ks) == 0 || g.r.Intn(5) == 0 {
		return w
	}
	g.r.Shuffle(len(ks), func(i, j int) { ks[i], ks[j] = ks[j], ks[i] })
	nm := 1 + g.r.Intn(len(ks))
	if g.r.Intn(3) != 0 && nm > 4 {
		nm = 1 + g.r.Intn(4)
	}
	pClear := []int{100, 70, 50, 0}[g.r.Intn(4)]
	for i := 0; i < nm; i++ {
		k := ks[i]
		v := vNil
		if g.r.Intn(100) >= pClear {
			v = g.val(0)
		}
		at := g.r.Intn(len(ks))
		if g.r.Intn(4) == 0 {
			at = 0
		}
		acc := pickAcc(g.r, storeAccs, k, g.mai)
		if _, isInt := intKey(k); isInt && v.isNil() && g.r.Intn(3) == 0 {
			// clearing the last list element by table.remove / LTable.Remove is
			// clearing an existing field too (the run decides whether k is the border)
			acc = []string{"lua.tremove", "tb.Remove"}[g.r.Intn(2)]
		}
		w.Mods = append(w.Mods, Mod{At: at, K: k, V: v, A: acc})
		g.pm[t].set(k, v)
	}
	return w
}

func (g *gen) step() {
	t := g.slot()
	m := g.pm[t]
	switch k := g.r.Intn(1000); {
	case k < 380: // plain store
		key := g.key(t)
		pNil := 20
		if m.has(key) {
			pNil = 45
		}
		g.store(t, key, g.val(pNil))
	case k < 470: // plain read
		key := g.key(t)
		if g.r.Intn(12) == 0 {
			key = []V{vNil, numV(math.NaN())}[g.r.Intn(2)]
			g.emit(Op{A: []string{"tb.RawGet", "L.RawGet", "L.GetTable", "lua.get", "lua.rawget"}[g.r.Intn(5)], T: t, K: key})
			return
		}
		g.emit(Op{A: pickAcc(g.r, readAccs, key, g.mai), T: t, K: key})
	case k < 580: // border-relative stores
		a := []string{"tb.Append", "tb.Append", "lua.append", "lua.tinsert", "tb.InsertEnd"}[g.r.Intn(5)]
		v := g.fresh()
		if g.r.Intn(25) == 0 {
			v = vNil
		}
		m.set(numV(g.pborder(t)+1), v)
		g.emit(Op{A: a, T: t, V: v})
	case k < 640: // border-relative removals
		a := []string{"tb.RemoveEnd", "lua.tremove", "lua.pop", "lua.tremove"}[g.r.Intn(4)]
		b := g.pborder(t)
		if b > 0 || a == "lua.pop" {
			m.set(numV(b), vNil)
		}
		g.emit(Op{A: a, T: t})
	case k < 670: // insertion / removal inside a proper sequence
		n := m.seqLen()
		if n < 1 || g.huge {
			return
		}
		if g.r.Intn(2) == 0 {
			p := 1 + g.r.Intn(n)
			v := g.fresh()
			if g.r.Intn(6) == 0 {
				v = vNil // a nil value still shifts the elements up and leaves a hole at p
			}
			for i := n; i >= p; i-- {
				m.set(numV(float64(i+1)), m.get(numV(float64(i))))
			}
			m.set(numV(float64(p)), v)
			g.emit(Op{A: "tb.Insert", T: t, P: p, V: v})
		} else {
			p := 1 + g.r.Intn(n)
			for i := p; i < n; i++ {
				m.set(numV(float64(i)), m.get(numV(float64(i+1))))
			}
			m.set(numV(float64(n)), vNil)
			g.emit(Op{A: "tb.Remove", T: t, P: p})
		}
	case k < 710:
		g.emit(Op{A: []string{"tb.Len", "L.ObjLen", "lua.len", "tb.MaxN"}[g.r.Intn(4)], T: t})
	case k < 790:
		g.emit(Op{A: "walk", T: t, W: g.genWalk(t)})
	case k < 805:
		g.emit(Op{A: "ipairs", T: t})
	case k < 835: // store under nil / NaN must raise
		key := []V{vNil, numV(math.NaN())}[g.r.Intn(2)]
		a := []string{"lua.set", "lua.rawset", "L.RawSet", "L.SetTable", "lua.ctor"}[g.r.Intn(5)]
		g.emit(Op{A: "bad:" + a, T: t, K: key, V: g.val(15)})
	case k < 850: // replace the table
		if g.huge {
			return // keep the pre-sized table
		}
		c := g.genCtor(true)
		g.pm[t] = ctorModel(c)
		g.emit(Op{A: "ctor", T: t, C: c})
	case k < 870:
		g.emit(Op{A: "audit", T: t})
	case k < 900: // fill 1..n upwards / downwards
		n := 2 + g.r.Intn(14)
		if g.r.Intn(4) == 0 {
			n = 30 + g.r.Intn(40)
		}
		if g.mai < 1000 && g.r.Intn(2) == 0 {
			n = g.mai - 2 + g.r.Intn(5)
		}
		down := g.r.Intn(3) == 0
		for i := 1; i <= n; i++ {
			j := i
			if down {
				j = n + 1 - i
			}
			g.store(t, numV(float64(j)), g.fresh())
		}
	case k < 935: // delete a run: front / middle / end of the integer keys
		b := int(g.pborder(t))
		if b < 1 || b > 200 {
			return
		}
		n := 1 + g.r.Intn(intMin(b, 6))
		start := 1
		switch g.r.Intn(3) {
		case 1:
			start = 1 + g.r.Intn(b-n+1)
		case 2:
			start = b - n + 1
		}
		for i := 0; i < n; i++ {
			g.store(t, numV(float64(start+i)), vNil)
		}
	case k < 970: // delete / re-insert cycle over existing keys
		ks := m.keys()
		if len(ks) == 0 {
			return
		}
		g.r.Shuffle(len(ks), func(i, j int) { ks[i], ks[j] = ks[j], ks[i] })
		n := 1 + g.r.Intn(intMin(len(ks), 8))
		all := g.r.Intn(4) == 0
		if all {
			n = len(ks)
		}
		for _, key := range ks[:n] {
			g.store(t, key, vNil)
		}
		if g.r.Intn(3) == 0 {
			g.emit(Op{A: "walk", T: t, W: g.genWalk(t)})
		}
		g.r.Shuffle(n, func(i, j int) { ks[i], ks[j] = ks[j], ks[i] })
		for _, key := range ks[:n] {
			if g.r.Intn(4) != 0 {
				g.store(t, key, g.val(0))
			}
		}
	case k < 985: // make the table a proper sequence, then insert / remove inside it
		if g.huge {
			return
		}
		p := m.prefixLen()
		for _, key := range m.keys() {
			if f, ok := key.num(); ok && f > float64(p) && f == math.Trunc(f) {
				g.store(t, key, vNil)
			}
		}
		for p < 3 {
			p++
			g.store(t, numV(float64(p)), g.fresh())
		}
		for i, n := 0, 2+g.r.Intn(5); i < n; i++ {
			if g.r.Intn(2) == 0 {
				pos := 1 + g.r.Intn(p)
				v := g.fresh()
				for j := p; j >= pos; j-- {
					m.set(numV(float64(j+1)), m.get(numV(float64(j))))
				}
				m.set(numV(float64(pos)), v)
				p++
				g.emit(Op{A: "tb.Insert", T: t, P: pos, V: v})
			} else if p > 1 {
				pos := 1 + g.r.Intn(p)
				for j := pos; j < p; j++ {
					m.set(numV(float64(j)), m.get(numV(float64(j+1))))
				}
				m.set(numV(float64(p)), vNil)
				p--
				g.emit(Op{A: "tb.Remove", T: t, P: pos})
			}
		}
	default: // a burst of string / hash keys
		n := 2 + g.r.Intn(10)
		for i := 0; i < n; i++ {
			key := g.pool[g.r.Intn(len(g.pool))]
			if g.r.Intn(2) == 0 {
				key = strV("f" + itoa(g.r.Intn(30)))
			}
			g.store(t, key, g.val(10))
		}
	}
}

var loweredMAI = []int{6, 8, 16, 17, 24, 33, 41}

func genHistory(r *rand.Rand, defaultMAI int, huge bool) *History {
	h := &History{Seed: r.Int63(), M: []int{3, 5, 10, 25, 50}[r.Intn(5)]}
	g := &gen{r: r, mai: defaultMAI, huge: huge}
	if huge {
		h.Huge = true
		h.M = 1000
	} else if r.Intn(4) == 0 {
		h.MAI = loweredMAI[r.Intn(len(loweredMAI))]
		g.mai = h.MAI
	}
	g.pool = keyPool(g.mai, huge)
	nt := 1 + r.Intn(2)
	if huge {
		nt = 1
	}
	for i := 0; i < nt; i++ {
		c := g.genCtor(false)
		if huge {
			// pre-size the 1 GB array part so that growing it does not copy it repeatedly
			c = &Ctor{How: "create", A: defaultMAI + 64, H: 8}
		}
		h.Init = append(h.Init, *c)
		g.pm = append(g.pm, ctorModel(c))
	}
	nops := 30 + r.Intn(121)
	switch k := r.Intn(10); {
	case k == 0:
		nops = 10 + r.Intn(20)
	case k >= 7:
		nops = 150 + r.Intn(251)
	}
	if huge {
		nops = 20 + r.Intn(12)
		// reach the end of the array part early
		g.store(0, numV(float64(g.mai-1-r.Intn(3))), g.fresh())
	}
	for len(g.ops) < nops {
		g.step()
	}
	h.Ops = g.ops
	return h
}

// genBigCtorHistory: a constructor with about 511*FieldsPerFlush positional
// items (the SETLIST block number then no longer fits the C operand) followed
// by a short ordinary history.
func genBigCtorHistory(r *rand.Rand, defaultMAI, fieldsPerFlush int) *History {
	h := &History{Seed: r.Int63(), M: 1000}
	g := &gen{r: r, mai: defaultMAI}
	g.pool = keyPool(g.mai, false)
	limit := 511 * fieldsPerFlush
	np := limit - 60 + r.Intn(400)
	if r.Intn(4) == 0 {
		np = limit + []int{-1, 0, 1, 50}[r.Intn(4)]
	}
	c := &Ctor{How: "lua", Mix: r.Int63()}
	for i := 0; i < np; i++ {
		c.Pos = append(c.Pos, g.val(2))
	}
	// local variables as the first items of a block compile to consecutive MOVEs
	// right after the previous block's SETLIST (and its extension word)
	for b := 505 * fieldsPerFlush; b+1 < np; b += fieldsPerFlush {
		if r.Intn(2) == 0 {
			c.Pos[b], c.Pos[b+1] = refV(r.Intn(nRefs)), refV(r.Intn(nRefs))
		}
	}
	if r.Intn(2) == 0 {
		c.HasTail = true
		c.Tail = []V{g.fresh(), g.fresh()}
	}
	if r.Intn(2) == 0 {
		c.Keys = []V{strV("x"), numV(0)}
		c.Vals = []V{g.fresh(), g.fresh()}
	}
	h.Init = []Ctor{*c}
	g.pm = []*model{ctorModel(c)}
	nops := 10 + r.Intn(15)
	for len(g.ops) < nops {
		g.step()
	}
	h.Ops = g.ops
	return h
}

func intMin(a, b int) int {
	if a < b {
		return a
	}
	return b
}
