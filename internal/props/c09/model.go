// Package c09: a table is a finite map with a valid length border and
// complete traversal (model-based monitoring over generated histories).
package c09

import (
	"math"
	"sort"
	"strconv"
)

// V is the serialisable form of a Lua value used in histories and in the
// reference model. First byte = kind:
//
//	"N" nil, "T"/"F" booleans, "n<float>" number (strconv 'g' -1, so "NaN",
//	"+Inf", "-0" are representable), "s<bytes>" string (generated strings are
//	valid UTF-8 so JSON round-trips them), "r<i>" the i-th object of the
//	history's reference pool (tables, functions, userdata: identity).
type V string

const vNil V = "N"

func numV(f float64) V     { return V("n" + strconv.FormatFloat(f, 'g', -1, 64)) }
func strV(s string) V      { return V("s" + s) }
func refV(i int) V         { return V("r" + strconv.Itoa(i)) }
func (v V) kind() byte     { return v[0] }
func (v V) isNil() bool    { return v == vNil || v == "" }
func (v V) str() string    { return string(v[1:]) }
func (v V) isString() bool { return len(v) > 0 && v[0] == 's' }

func boolV(b bool) V {
	if b {
		return "T"
	}
	return "F"
}

// num returns the float of a number value.
func (v V) num() (float64, bool) {
	if len(v) == 0 || v[0] != 'n' {
		return 0, false
	}
	f, err := strconv.ParseFloat(string(v[1:]), 64)
	if err != nil {
		return 0, false
	}
	return f, true
}

func (v V) isNaN() bool {
	f, ok := v.num()
	return ok && math.IsNaN(f)
}

// norm maps a key to the representative of its equality class: numbers by
// value (-0 == 0; 1 and 1.0 are the same float64 already), everything else by
// itself (strings by bytes, booleans, references by identity).
func norm(k V) V {
	if f, ok := k.num(); ok && f == 0 {
		return "n0"
	}
	return k
}

// intKey: the key is an integer-valued number that a Go int holds exactly.
func intKey(k V) (int, bool) {
	f, ok := k.num()
	if !ok || f != math.Trunc(f) || math.Abs(f) > 1<<53 {
		return 0, false
	}
	return int(f), true
}

// arrayKey: integer-valued number in 1..mai-1 (what gopher-lua keeps in the array part).
func arrayKey(k V, mai int) bool {
	f, ok := k.num()
	return ok && f == math.Trunc(f) && f >= 1 && f < float64(mai)
}

// hashKeyOK: the key may be used with RawSetH/RawGetH (the statement: "the
// hash-part accessors being used with hash-part keys"): not a string, not an
// array-part integer, not nil, not NaN.
func hashKeyOK(k V, mai int) bool {
	if k.isNil() || k.isString() || k.isNaN() {
		return false
	}
	return !arrayKey(k, mai)
}

// keyClass is the internal key class used by the non-triviality rule.
func keyClass(k V, mai int) string {
	switch {
	case arrayKey(k, mai):
		return "array_int"
	case k.kind() == 'n':
		return "other_number"
	case k.kind() == 's':
		return "string"
	}
	return "other"
}

// model is the reference: a finite map from normalised key to non-nil value.
type model struct {
	m map[V]V
}

func newModel() *model { return &model{m: map[V]V{}} }

func (m *model) get(k V) V {
	if k.isNil() || k.isNaN() {
		return vNil
	}
	if v, ok := m.m[norm(k)]; ok {
		return v
	}
	return vNil
}

func (m *model) has(k V) bool { return !m.get(k).isNil() }

// set stores v under k; nil deletes. Returns whether a present key was removed.
func (m *model) set(k, v V) (deleted bool) {
	nk := norm(k)
	if v.isNil() {
		_, had := m.m[nk]
		delete(m.m, nk)
		return had
	}
	m.m[nk] = v
	return false
}

func (m *model) size() int { return len(m.m) }

// keys returns the present keys in a fixed (sorted) order.
func (m *model) keys() []V {
	ks := make([]V, 0, len(m.m))
	for k := range m.m {
		ks = append(ks, k)
	}
	sort.Slice(ks, func(i, j int) bool { return ks[i] < ks[j] })
	return ks
}

func (m *model) clone() *model {
	c := newModel()
	for k, v := range m.m {
		c.m[k] = v
	}
	return c
}

// isBorder: n == 0 and t[1] == nil, or t[n] ~= nil and t[n+1] == nil (manual 2.5.5).
func (m *model) isBorder(n float64) bool {
	if n == 0 {
		return !m.has(numV(1))
	}
	if n < 1 || n != math.Trunc(n) {
		return false
	}
	return m.has(numV(n)) && !m.has(numV(n+1))
}

// borders lists every border of the table in ascending order.
func (m *model) borders() []float64 {
	var bs []float64
	if m.isBorder(0) {
		bs = append(bs, 0)
	}
	for k := range m.m {
		if f, ok := k.num(); ok && f >= 1 && m.isBorder(f) {
			bs = append(bs, f)
		}
	}
	sort.Float64s(bs)
	return bs
}

// seqLen returns n if the positive-integer keys of the table are exactly 1..n
// (a proper sequence, unique border), else -1.
func (m *model) seqLen() int {
	cnt := 0
	for k := range m.m {
		if f, ok := k.num(); ok && f >= 1 && f == math.Trunc(f) {
			cnt++
		}
	}
	for i := 1; i <= cnt; i++ {
		if !m.has(numV(float64(i))) {
			return -1
		}
	}
	return cnt
}

// prefixLen returns the n such that 1..n are present and n+1 is absent (what ipairs visits).
func (m *model) prefixLen() int {
	n := 0
	for m.has(numV(float64(n + 1))) {
		n++
	}
	return n
}
