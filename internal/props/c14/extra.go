package c14

import (
	"bytes"
	"fmt"
	"strconv"
	"strings"

	lua "github.com/yuin/gopher-lua"

	"verif/internal/fw"
	"verif/internal/gl"
	"verif/internal/refl/lpat"
)

// ---- class tables: every class / set shape against all 256 byte values ----

func classPatterns() [][]byte {
	var ps [][]byte
	for i := 0; i < len(classLetters); i++ {
		l := classLetters[i]
		ps = append(ps, []byte{'%', l}, []byte{'[', '%', l, ']'}, []byte{'[', '^', '%', l, ']'},
			[]byte{'[', '%', l, '_', ']'}, []byte{'%', l, '*'})
	}
	ps = append(ps, []byte("."), []byte("[a-z]"), []byte("[^a-z]"), []byte("[0-9A-Fa-f]"), []byte("[\x80-\xff]"), []byte("[^\x01-\x7f]"),
		[]byte("[\x01-\xff]"), []byte("[%a%d_]"), []byte("[^%s%p]"), []byte("[]]"), []byte("[^]]"), []byte("[-]"), []byte("[a-]"), []byte("[z-a]"),
		[]byte("[%]%-%^]"), []byte("[^%]%-%^]"), []byte("[!-/]"), []byte("[+--]"))
	// every byte as a literal, raw (when it is not magic) and escaped (when it is not alphanumeric)
	for b := 1; b < 256; b++ {
		if strings.IndexByte(magic, byte(b)) < 0 {
			ps = append(ps, []byte{byte(b)})
		}
		if !isAlnumB(byte(b)) {
			ps = append(ps, []byte{'%', byte(b)}, []byte{'[', '%', byte(b), ']'})
		}
		if b != '%' && b != ']' && b != '^' && b != '-' {
			ps = append(ps, []byte{'[', byte(b), ']'}, []byte{'[', '^', byte(b), ']'})
		}
	}
	return ps
}

func runClasses(c *fw.Ctx, e *env) {
	var all [256]byte
	for i := range all {
		all[i] = byte(i)
	}
	for i, p := range classPatterns() {
		if !c.Mine(i) {
			continue
		}
		c.Begin(&Case{Fn: "classes", Pat: p})
		hits := classPattern(c, e, p, all[:])
		c.Count("class_table_patterns", 1)
		c.Count("class_table_byte_checks", 256)
		c.End(hits > 0 && hits < 256, "classes/"+string(p))
		if i%97 == 0 {
			c.Sample(map[string]any{"kind": "class table", "pattern": strconv.Quote(string(p)), "bytes_matched": hits})
		}
	}
}

// classPattern checks p against each single-byte subject and against the 256-byte subject.
func classPattern(c *fw.Ctx, e *env, p []byte, all []byte) (hits int) {
	bad := 0
	for b := 0; b < 256 && bad < 3; b++ {
		cs := &Case{Fn: "pmfind", Pat: p, Sub: []byte{byte(b)}, Limit: 1}
		r := runCase(c, e, cs)
		if r.matched {
			hits++
		}
		if r.bad {
			bad++
		}
	}
	for _, cs := range []*Case{
		{Fn: "pmfind", Pat: p, Sub: all, Limit: -1},
		{Fn: "gmatch", Pat: p, Sub: all},
		{Fn: "gsub", Pat: p, Sub: all, Repl: &ReplSpec{Kind: "s", Str: []byte("<%0>")}},
		{Fn: "find", Pat: p, Sub: all, HasInit: true, Init: 100},
	} {
		runCase(c, e, cs)
	}
	return hits
}

// ---- hostile inputs: long subjects, deep recursion, many captures, catastrophic backtracking ----

type hostile struct {
	fn   string
	pat  string
	sub  func(n int) []byte
	repl string
}

func rep(s string, n int) []byte { return bytes.Repeat([]byte(s), n) }

func hostileList() []hostile {
	as := func(n int) []byte { return rep("a", n) }
	asb := func(n int) []byte { return append(rep("a", n), 'b') }
	par := func(n int) []byte { return append(rep("(", n), rep(")", n)...) }
	twice := func(n int) []byte { return append(rep("ab", n/2), rep("ab", n/2)...) }
	var hs []hostile
	for _, p := range []string{"^a*$", "^(a*)$", "^.-$", "^a-$", "^a+", "^[ab]*b", "^(.-)b", "^(a?)*", "^.*()", "^%a*%d?$", "^[^b]+"} {
		hs = append(hs, hostile{fn: "find", pat: p, sub: as}, hostile{fn: "match", pat: p, sub: asb}, hostile{fn: "pmfind", pat: p, sub: asb})
	}
	hs = append(hs,
		hostile{fn: "find", pat: "%b()", sub: par},
		hostile{fn: "match", pat: "^(%b())$", sub: par},
		hostile{fn: "match", pat: "^(.*)%1$", sub: twice},
		hostile{fn: "gsub", pat: "a", sub: as, repl: "bb"},
		hostile{fn: "gsub", pat: "", sub: as, repl: "-"},
		hostile{fn: "gsub", pat: "a*", sub: asb, repl: "<%0>"},
		hostile{fn: "gsub", pat: "(a)", sub: as, repl: "%1%1"},
		hostile{fn: "gmatch", pat: "a", sub: func(n int) []byte { return as(n / 50) }},
		hostile{fn: "gmatch", pat: "()", sub: func(n int) []byte { return as(n / 50) }},
	)
	return hs
}

var catastrophic = []struct{ pat, sub string }{
	{"a*a*a*a*a*a*a*b", strings.Repeat("a", 40)},
	{"(a*)(a*)(a*)(a*)(a*)c", strings.Repeat("a", 60)},
	{".-.-.-.-.-.-.-x", strings.Repeat("ab", 32)},
	{"[ab]*[ab]*[ab]*[ab]*[ab]*[ab]*c", strings.Repeat("ab", 30)},
	{"a?a?a?a?a?a?a?a?a?a?a?a?a?a?a?a?a?a?a?a?aaaaaaaaaaaaaaaaaaaab", strings.Repeat("a", 20)},
}

func manyCaptures(n int) string {
	return strings.Repeat("(a)", n)
}

func runHostileCase(c *fw.Ctx, e *env, h *hostile, n int, hc *Case) result {
	cs := &Case{Fn: h.fn, Pat: []byte(h.pat), Sub: h.sub(n), Budget: 40 * int64(n+1000), Limit: 1, compact: hc}
	if h.fn == "gsub" {
		cs.Repl = &ReplSpec{Kind: "s", Str: []byte(h.repl)}
	}
	return runCase(c, e, cs)
}

func runHostile(c *fw.Ctx, e *env) {
	// 3*10^6: three times the depth at which the matcher's recursion guard answers
	// "pattern too complex". The worker's goroutine stack limit is 256 MB (see run):
	// the guarded recursion needs that much, anything deeper overflows it.
	sizes := []int{1000, 60000, 1100000, 3000000}
	idx := 0
	for _, h := range hostileList() {
		for _, n := range sizes {
			if n == 3000000 && (h.fn == "gsub" || h.fn == "gmatch") {
				continue
			}
			if h.fn == "gmatch" && n > 1000 {
				if n > 60000 {
					continue
				}
				n = 20000
			}
			if h.fn == "gsub" && n > 60000 {
				// a million matches: assembled in one pass this takes about a second.
				// (The pinned tree re-copied the whole subject for every match - many
				// minutes here, hours at a few megabytes: a hang for every practical purpose.)
				n = 1000000
				c.HangLimit(90)
			}
			idx++
			if !c.Mine(idx) {
				continue
			}
			hc := &Case{Fn: "hostile", Call: h.fn, Pat: []byte(h.pat), Size: n}
			c.Begin(hc)
			r := runHostileCase(c, e, &h, n, hc)
			c.Count("hostile_calls", 1)
			c.Count(fmt.Sprintf("hostile_subject_len_%d", n), 1)
			switch {
			case r.budget:
				c.Inconclusive("model_budget")
			case r.implErr:
				c.Count("hostile_impl_lua_error(recursion limit)", 1)
			case r.matched:
				c.Count("hostile_match_agreed", 1)
			}
			c.End(!r.budget, fmt.Sprintf("hostile/%s/%s/%d", h.fn, h.pat, n))
			c.HangLimit(0)
		}
	}
	for _, k := range catastrophic {
		idx++
		if !c.Mine(idx) {
			continue
		}
		cs := &Case{Fn: "find", Pat: []byte(k.pat), Sub: []byte(k.sub)}
		c.Begin(cs)
		r := runCase(c, e, cs)
		c.Count("catastrophic_shapes", 1)
		if r.budget {
			c.Inconclusive("model_budget")
			c.Count("catastrophic_abandoned_by_model", 1)
		}
		c.End(false, "")
	}
	// patterns whose captures nest n deep: the pattern compiler must not
	// recurse without bound (a Go stack overflow cannot be caught)
	deep := []int{1000, 100000, 1100000}
	if !c.Quick() {
		deep = append(deep, 4000000)
	}
	for _, n := range deep {
		for vi, mk := range []func(int) string{
			func(n int) string { return strings.Repeat("(", n) + "a" + strings.Repeat(")", n) },
			func(n int) string { return strings.Repeat("(", n) },
			func(n int) string { return strings.Repeat("(a", n) },
			func(n int) string { return strings.Repeat("(", n) + strings.Repeat(")", n) },
			func(n int) string { return strings.Repeat("()", n) },
		} {
			idx++
			if !c.Mine(idx) {
				continue
			}
			hc := &Case{Fn: "hostile", Call: "deep-captures", Variant: vi, Size: n}
			c.Begin(hc)
			runDeepPattern(c, e, mk(n), hc)
			c.Count("deep_capture_patterns", 1)
			c.Count(fmt.Sprintf("deep_capture_nesting_%d", n), 1)
			c.End(true, fmt.Sprintf("deepcap/%d/%d", vi, n))
		}
	}
	for _, n := range []int{9, 31, 32, 33, 40} {
		idx++
		if !c.Mine(idx) {
			continue
		}
		p := manyCaptures(n)
		if n == 9 {
			p += "%1%2%3%4%5%6%7%8%9"
		}
		sub := rep("a", 2*n)
		for _, fn := range []string{"pmfind", "find", "match", "gmatch", "gsub"} {
			cs := &Case{Fn: fn, Pat: []byte(p), Sub: sub, Limit: -1, Repl: &ReplSpec{Kind: "s", Str: []byte("%9%1")}}
			c.Begin(cs)
			r := runCase(c, e, cs)
			c.Count("many_captures_calls", 1)
			c.End(r.matched, fmt.Sprintf("caps/%s/%d", fn, n))
		}
	}
}

// runDeepPattern: find/match/gmatch/gsub with the pattern on a short subject.
// Any Lua-level outcome is accepted (the pattern has more than 32 captures);
// a Go panic or run-time fault is a violation, a dead worker is reported by
// the driver.
func runDeepPattern(c *fw.Ctx, e *env, pat string, hc *Case) {
	pv, sv := lua.LString(pat), lua.LString("aaaa")
	for _, f := range []struct {
		name string
		fn   lua.LValue
		args []lua.LValue
	}{{"find", e.find, []lua.LValue{sv, pv}}, {"match", e.match, []lua.LValue{sv, pv}}, {"gmatch", e.gmatch, []lua.LValue{sv, pv}}, {"gsub", e.gsub, []lua.LValue{sv, pv, lua.LString("x")}}} {
		_, o := gl.Call(e.L, f.fn, f.args...)
		switch {
		case o.GoPanic != nil:
			c.Violation(fmt.Sprintf("string.%s with %d nested captures: Go panic: %s", f.name, hc.Size, fw.Short(o.PanicStr, 200)), hc)
		case o.Err != nil && goRuntimeText(o.Err.Error()):
			c.Violation(fmt.Sprintf("string.%s with %d nested captures: Go run-time fault surfaced: %s", f.name, hc.Size, fw.Short(o.Err.Error(), 200)), hc)
		case o.Err != nil:
			c.Count("deep_capture_lua_errors", 1)
		}
	}
}

// numSubjects: a number as the subject is converted to its text; the results are
// strings whatever is (not) replaced. Expected values by the manual's rules.
var numSubjects = []struct {
	fn   string
	args []lua.LValue
	want string
}{
	{"gsub", []lua.LValue{lua.LNumber(123), lua.LString("x"), lua.LString("y")}, `"123",0`},
	{"gsub", []lua.LValue{lua.LNumber(123), lua.LString("2"), lua.LString("y")}, `"1y3",1`},
	{"gsub", []lua.LValue{lua.LNumber(12321), lua.LString("2"), lua.LString(""), lua.LNumber(0)}, `"12321",0`},
	{"gsub", []lua.LValue{lua.LNumber(-5), lua.LString("%-"), lua.LString("+")}, `"+5",1`},
	{"gsub", []lua.LValue{lua.LNumber(7), lua.LString("^$"), lua.LString("e")}, `"7",0`},
	{"find", []lua.LValue{lua.LNumber(12345), lua.LString("3")}, `3,3`},
	{"match", []lua.LValue{lua.LNumber(2024), lua.LString("%d%d$")}, `"24"`},
	{"match", []lua.LValue{lua.LNumber(2024), lua.LString("^%d+$")}, `"2024"`},
}

func runNumberSubject(c *fw.Ctx, e *env, cs *Case) {
	k := numSubjects[cs.Variant%len(numSubjects)]
	fn := map[string]lua.LValue{"gsub": e.gsub, "find": e.find, "match": e.match}[k.fn]
	res, o := gl.Call(e.L, fn, k.args...)
	got := ""
	switch {
	case o.GoPanic != nil:
		got = "Go panic: " + fw.Short(o.PanicStr, 200)
	case o.Err != nil:
		got = "error: " + fw.Short(o.Err.Error(), 200)
	default:
		got = gl.CanonList(res, gl.NewIDMap())
	}
	if got != k.want {
		c.Violation(fmt.Sprintf("string.%s with the number %v as subject: got %s, the text of the number gives %s", k.fn, k.args[0], got, k.want), cs)
	}
}

func runNumberSubjects(c *fw.Ctx, e *env) {
	if c.Shard != 3%c.NShards {
		return
	}
	for i := range numSubjects {
		cs := &Case{Fn: "numsubject", Variant: i}
		c.Begin(cs)
		runNumberSubject(c, e, cs)
		c.Count("number_subject_calls", 1)
		c.End(true, fmt.Sprintf("numsubject/%d", i))
	}
}

// ---- pinned reproducers of the open findings ----

type filed struct{ id, kind, what string }

// trap, when set, receives what file() would report (reproducers only; workers are single-threaded).
var trap *[]filed

func repro(id string, cs *Case) func(c *fw.Ctx) (bool, string) {
	return func(c *fw.Ctx) (bool, string) {
		var got []filed
		trap = &got
		defer func() { trap = nil }()
		runCase(c, newEnv(), cs)
		for _, f := range got {
			if f.id == id {
				return true, f.what
			}
		}
		if len(got) > 0 {
			return false, "fails differently now: " + got[0].what
		}
		return false, "matches the reference now: " + cs.Fn + "(" + describe(cs) + ")"
	}
}

var reproducers = map[string]func(c *fw.Ctx) (bool, string){
	fRangeDash:   repro(fRangeDash, &Case{Fn: "pmfind", Pat: []byte("[+--]"), Sub: []byte(","), Limit: 1}),
	fBackref:     repro(fBackref, &Case{Fn: "pmfind", Pat: []byte("()%1"), Sub: []byte(""), Limit: 1}),
	fFindEmpty:   repro(fFindEmpty, &Case{Fn: "find", Pat: []byte(""), Sub: []byte("abc"), Init: 3, HasInit: true}),
	fMatchNoVal:  repro(fMatchNoVal, &Case{Fn: "match", Pat: []byte("b"), Sub: []byte("a")}),
	fGsubLimit:   repro(fGsubLimit, &Case{Fn: "gsub", Pat: []byte("a"), Sub: []byte("aaa"), Repl: &ReplSpec{Kind: "s", Str: []byte("b")}, N: 0, HasN: true}),
	fGmatchCaret: repro(fGmatchCaret, &Case{Fn: "gmatch", Pat: []byte("^a"), Sub: []byte("^a^a")}),
	fPlainInit:   repro(fPlainInit, &Case{Fn: "find", Pat: []byte("b"), Sub: []byte("abc"), Init: 10, HasInit: true, Plain: true}),
}

var _ = lpat.WF
