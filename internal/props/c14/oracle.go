package c14

import (
	"fmt"
	"hash/fnv"
	"strconv"
	"strings"

	lua "github.com/yuin/gopher-lua"
	"github.com/yuin/gopher-lua/pm"

	"verif/internal/fw"
	"verif/internal/gl"
	"verif/internal/refl/lpat"
)

// ---- case description (what a replay file carries) ----

// RV is a value a table entry holds / a replacement function returns.
type RV struct {
	K string `json:"k"` // nil | false | str | num | none (function returns no value)
	S []byte `json:"s,omitempty"`
	N int    `json:"n,omitempty"`
}

type TabEnt struct {
	IsNum bool   `json:"is_num,omitempty"`
	KS    []byte `json:"ks,omitempty"`
	KN    int    `json:"kn,omitempty"`
	V     RV     `json:"v"`
}

// ReplSpec is the third argument of string.gsub.
type ReplSpec struct {
	Kind  string   `json:"kind"` // s | t | f
	Str   []byte   `json:"str,omitempty"`
	StrQ  string   `json:"str_q,omitempty"`
	Tab   []TabEnt `json:"tab,omitempty"`
	FSeed int64    `json:"fseed,omitempty"`
}

// Case is one call of the implementation.
type Case struct {
	Fn      string    `json:"fn"` // pmfind | find | match | gmatch | gsub | sweep | battery
	Pat     []byte    `json:"pat"`
	Sub     []byte    `json:"sub,omitempty"`
	PatQ    string    `json:"pat_q,omitempty"` // human-readable copies (not used by replay)
	SubQ    string    `json:"sub_q,omitempty"`
	Off     int       `json:"off,omitempty"`   // pmfind
	Limit   int       `json:"limit,omitempty"` // pmfind
	Init    int       `json:"init,omitempty"`  // find, match
	HasInit bool      `json:"has_init,omitempty"`
	Plain   bool      `json:"plain,omitempty"` // find
	Repl    *ReplSpec `json:"repl,omitempty"`  // gsub
	N       int       `json:"n,omitempty"`
	HasN    bool      `json:"has_n,omitempty"`
	// sweep: all subjects over SubAlpha up to MaxSub; Idx is the global pattern index
	SubAlpha []byte `json:"sub_alpha,omitempty"`
	MaxSub   int    `json:"max_sub,omitempty"`
	Idx      int    `json:"idx,omitempty"`
	// battery: the calls derived from (pat, sub, bseed)
	BSeed int64 `json:"bseed,omitempty"`
	// model step budget (0 = default)
	Budget int64 `json:"budget,omitempty"`
	// hostile: the call (Call) of hostileList()[..] with pattern Pat on its subject of size Size
	Call    string `json:"call,omitempty"`
	Size    int    `json:"size,omitempty"`
	Variant int    `json:"variant,omitempty"` // deep-captures: which shape

	compact *Case
}

func (cs *Case) withQ() *Case {
	d := *cs
	d.PatQ = strconv.Quote(string(cs.Pat))
	d.SubQ = fw.Short(strconv.Quote(string(cs.Sub)), 300)
	if d.Repl != nil && d.Repl.Kind == "s" {
		r := *d.Repl
		r.StrQ = strconv.Quote(string(r.Str))
		d.Repl = &r
	}
	return &d
}

const defaultBudget = 200000

// ---- finding ids ----

const (
	fRangeDash   = "C14-set-range-ending-in-dash"
	fBackref     = "C14-backref-unchecked-capture"
	fFindEmpty   = "C14-find-empty-pattern-ignores-init"
	fMatchNoVal  = "C14-match-nomatch-returns-no-value"
	fGsubLimit   = "C14-gsub-nonpositive-limit"
	fGmatchCaret = "C14-gmatch-caret-anchors"
	fPlainInit   = "C14-find-plain-init-beyond-end-go-panic"
)

// ---- the implementation side ----

type env struct {
	L                         *lua.LState
	find, match, gmatch, gsub lua.LValue
}

func newEnv() *env {
	L := lua.NewState()
	s := L.GetGlobal("string")
	return &env{L: L, find: L.GetField(s, "find"), match: L.GetField(s, "match"),
		gmatch: L.GetField(s, "gmatch"), gsub: L.GetField(s, "gsub")}
}

func (e *env) renew() {
	// after a Go panic the state may be inconsistent: drop it
	*e = *newEnv()
}

// ---- outcome of one checked call ----

type result struct {
	cls      lpat.Class
	matched  bool // the reference found a match
	modelErr bool // the reference raised a pattern/replacement error
	implErr  bool // the implementation raised a Lua error (no Go fault)
	budget   bool // the reference gave up (inconclusive)
	bad      bool // a violation was filed
	known    bool // a divergence was attributed to an open finding
}

// divergence kinds used by the finding matchers
const (
	dMismatch  = "mismatch"
	dGoPanic   = "go-panic"
	dGoRuntime = "go-runtime-error-text"
	dNoValue   = "no-value"
	dErrOnWF   = "error-on-wf"
)

// file a divergence: attribute it to an open finding through a narrow matcher
// on the input tuple, otherwise it is a violation.
func file(c *fw.Ctx, cs *Case, inf *lpat.Info, kind, what string) (violation bool) {
	id := ""
	switch {
	case cs.Fn == "gmatch" && len(cs.Pat) > 0 && cs.Pat[0] == '^':
		id = fGmatchCaret
	case cs.Fn == "match" && kind == dNoValue:
		id = fMatchNoVal
	case cs.Fn == "find" && cs.Plain && cs.HasInit && cs.Init-1 > len(cs.Sub) && len(cs.Pat) > 0 && (kind == dGoRuntime || kind == dGoPanic):
		id = fPlainInit
	case cs.Fn == "find" && len(cs.Pat) == 0 && cs.HasInit && normInit(cs.Init, len(cs.Sub)) > 0:
		id = fFindEmpty
	case cs.Fn == "gsub" && cs.HasN && cs.N <= 0 && (kind == dMismatch || kind == dErrOnWF):
		id = fGsubLimit
	case cs.Plain:
	case inf.BackrefPos || inf.BackrefOpen:
		id = fBackref
	case inf.RangeEndDash && (kind == dMismatch || kind == dErrOnWF):
		id = fRangeDash
	}
	if trap == nil && id != "" && detailed[id] && c.FindingOpen(id) {
		c.Known(id, "") // the first attributed case already gave the detail line
		return false
	}
	msg := fmt.Sprintf("%s(%s): %s", cs.Fn, describe(cs), what)
	if trap != nil {
		*trap = append(*trap, filed{id, kind, msg})
		return false
	}
	rec := cs.withQ()
	if cs.compact != nil {
		rec = cs.compact // a generator description instead of a megabyte subject
	}
	if id != "" && c.FindingOpen(id) {
		detailed[id] = true
		c.Known(id, msg)
		return false
	}
	c.Violation(msg, rec)
	return true
}

// finding ids whose detail line has been recorded by this worker
var detailed = map[string]bool{}

func (r *result) mark(violation bool) {
	if violation {
		r.bad = true
	} else {
		r.known = true
	}
}

// normInit is the 0-based start offset lstrlib derives from init.
func normInit(init, n int) int {
	if init < 0 {
		init += n + 1
		if init < 0 {
			init = 0
		}
	}
	init--
	if init < 0 {
		init = 0
	}
	if init > n {
		init = n
	}
	return init
}

func describe(cs *Case) string {
	var sb strings.Builder
	fmt.Fprintf(&sb, "s=%s, p=%s", fw.Short(strconv.Quote(string(cs.Sub)), 120), strconv.Quote(string(cs.Pat)))
	switch cs.Fn {
	case "pmfind":
		fmt.Fprintf(&sb, ", offset=%d, limit=%d", cs.Off, cs.Limit)
	case "find", "match":
		if cs.HasInit {
			fmt.Fprintf(&sb, ", init=%d", cs.Init)
		}
		if cs.Plain {
			sb.WriteString(", plain=true")
		}
	case "gsub":
		if cs.Repl != nil {
			switch cs.Repl.Kind {
			case "s":
				fmt.Fprintf(&sb, ", repl=%s", strconv.Quote(string(cs.Repl.Str)))
			case "t":
				fmt.Fprintf(&sb, ", repl=table(%d entries)", len(cs.Repl.Tab))
			case "f":
				fmt.Fprintf(&sb, ", repl=function#%d", cs.Repl.FSeed)
			}
		}
		if cs.HasN {
			fmt.Fprintf(&sb, ", n=%d", cs.N)
		}
	}
	return sb.String()
}

func valsStr(vs []lpat.Value) string {
	var p []string
	for _, v := range vs {
		p = append(p, v.String())
	}
	return strings.Join(p, ",")
}

func lvStr(vs []lua.LValue) string {
	return gl.CanonList(vs, gl.NewIDMap())
}

func sameVal(w lpat.Value, g lua.LValue) bool {
	if w.IsNum {
		n, ok := g.(lua.LNumber)
		return ok && float64(n) == float64(w.N)
	}
	s, ok := g.(lua.LString)
	return ok && string(s) == w.S
}

func sameVals(w []lpat.Value, g []lua.LValue) bool {
	if len(w) != len(g) {
		return false
	}
	for i := range w {
		if !sameVal(w[i], g[i]) {
			return false
		}
	}
	return true
}

func isLimitErr(txt string) bool { return strings.Contains(txt, "pattern/input too complex") }

// canaries checks the universal canaries on an outcome; returns true if one fired.
func canaries(c *fw.Ctx, e *env, cs *Case, inf *lpat.Info, o gl.Outcome, r *result) bool {
	if o.GoPanic != nil {
		r.mark(file(c, cs, inf, dGoPanic, "Go panic escaped: "+fw.Short(o.PanicStr, 200)))
		if e != nil {
			e.renew()
		}
		return true
	}
	if o.Err != nil && goRuntimeText(o.Err.Error()) {
		r.mark(file(c, cs, inf, dGoRuntime, "Go run-time fault surfaced as the error text: "+fw.Short(o.Err.Error(), 200)))
		return true
	}
	return false
}

// goRuntimeText is gl.IsGoRuntimeErrorText with a memo: the sweeps see the same
// few thousand error texts tens of millions of times and the regexp dominated the profile.
var rtMemo = map[string]bool{}

func goRuntimeText(s string) bool {
	if v, ok := rtMemo[s]; ok {
		return v
	}
	if len(rtMemo) > 20000 {
		rtMemo = map[string]bool{}
	}
	v := gl.IsGoRuntimeErrorText(s)
	rtMemo[s] = v
	return v
}

func budgetOf(cs *Case) int64 {
	if cs.Budget > 0 {
		return cs.Budget
	}
	return defaultBudget
}

// ---- pm.Find ----

func sameMatches(want []*lpat.Match, got []*pm.MatchData) string {
	if len(want) != len(got) {
		return fmt.Sprintf("%d matches, reference has %d", len(got), len(want))
	}
	for i, w := range want {
		g := got[i]
		if g.CaptureLength() < 2 {
			return fmt.Sprintf("match %d has CaptureLength %d", i, g.CaptureLength())
		}
		if g.Capture(0) != w.Start || g.Capture(1) != w.End {
			return fmt.Sprintf("match %d spans [%d,%d), reference [%d,%d)", i, g.Capture(0), g.Capture(1), w.Start, w.End)
		}
		if g.CaptureLength() != 2+2*len(w.Caps) {
			return fmt.Sprintf("match %d has %d capture slots, reference has %d captures", i, g.CaptureLength(), len(w.Caps))
		}
		for k, wc := range w.Caps {
			idx := 2 + 2*k
			switch {
			case wc.Len == -2:
				if !g.IsPosCapture(idx) || g.Capture(idx) != wc.Init+1 {
					return fmt.Sprintf("match %d capture %d: reference is position %d, got pos=%v %d", i, k+1, wc.Init+1, g.IsPosCapture(idx), g.Capture(idx))
				}
			case wc.Len >= 0:
				if g.IsPosCapture(idx) || g.Capture(idx) != wc.Init || g.Capture(idx+1) != wc.Init+wc.Len {
					return fmt.Sprintf("match %d capture %d: reference [%d,%d), got pos=%v [%d,%d)", i, k+1, wc.Init, wc.Init+wc.Len, g.IsPosCapture(idx), g.Capture(idx), g.Capture(idx+1))
				}
			default:
				// unfinished capture in the reference (malformed pattern): nothing to compare
			}
		}
	}
	return ""
}

func matchesStr(ms []*lpat.Match) string {
	var p []string
	for _, m := range ms {
		s := fmt.Sprintf("[%d,%d)", m.Start, m.End)
		for _, c := range m.Caps {
			if c.Len == -2 {
				s += fmt.Sprintf(" pos%d", c.Init+1)
			} else {
				s += fmt.Sprintf(" (%d,%d)", c.Init, c.Init+c.Len)
			}
		}
		p = append(p, s)
	}
	if len(p) == 0 {
		return "no match"
	}
	return strings.Join(p, "; ")
}

func checkPM(c *fw.Ctx, cs *Case, inf *lpat.Info, patStr string) (r result) {
	r.cls = inf.Class
	want, merr := lpat.Scan(cs.Sub, cs.Pat, cs.Off, cs.Limit, true, budgetOf(cs))
	if merr == lpat.ErrBudget {
		r.budget = true
		return
	}
	r.modelErr = merr != nil
	r.matched = len(want) > 0
	var got []*pm.MatchData
	o := gl.Protect(func() error {
		var err error
		got, err = pm.Find(patStr, cs.Sub, cs.Off, cs.Limit)
		return err
	})
	if canaries(c, nil, cs, inf, o, &r) {
		return
	}
	r.implErr = o.Err != nil
	if o.Err != nil && isLimitErr(o.Err.Error()) {
		return // the documented recursion limit, a catchable error
	}
	switch inf.Class {
	case lpat.WF:
		if merr != nil {
			c.Violation("HARNESS: the reference raised "+merr.Error()+" on a pattern classified well-formed", cs.withQ())
			r.bad = true
			return
		}
		if o.Err != nil {
			r.mark(file(c, cs, inf, dErrOnWF, "error on a well-formed pattern: "+fw.Short(o.Err.Error(), 200)+"; reference: "+matchesStr(want)))
			return
		}
		if d := sameMatches(want, got); d != "" {
			r.mark(file(c, cs, inf, dMismatch, d+"; reference: "+matchesStr(want)))
		}
	case lpat.Malformed:
		if o.Err != nil || len(got) == 0 {
			return // a Lua error, or simply no match
		}
		if merr != nil {
			r.mark(file(c, cs, inf, dMismatch, fmt.Sprintf("malformed pattern (%s): %d matches although the reference raises %q", inf.Why, len(got), merr.Error())))
			return
		}
		if d := sameMatches(want, got); d != "" {
			r.mark(file(c, cs, inf, dMismatch, "malformed pattern ("+inf.Why+"): neither an error, nor no match, nor the reference's result: "+d+"; reference: "+matchesStr(want)))
		}
	}
	return
}

// ---- string.find / string.match ----

func checkFind(c *fw.Ctx, e *env, cs *Case, inf *lpat.Info, sv, pv lua.LValue) (r result) {
	r.cls = inf.Class
	isFind := cs.Fn == "find"
	init := 1
	if cs.HasInit {
		init = cs.Init
	}
	want, merr := lpat.Find(cs.Sub, cs.Pat, init, isFind, cs.Plain, budgetOf(cs))
	if merr == lpat.ErrBudget {
		r.budget = true
		return
	}
	r.modelErr = merr != nil
	r.matched = want.Found
	fn := e.match
	if isFind {
		fn = e.find
	}
	var res []lua.LValue
	var o gl.Outcome
	switch {
	case cs.Plain:
		iv := lua.LValue(lua.LNil)
		if cs.HasInit {
			iv = lua.LNumber(cs.Init)
		}
		res, o = gl.Call(e.L, fn, sv, pv, iv, lua.LTrue)
	case cs.HasInit:
		res, o = gl.Call(e.L, fn, sv, pv, lua.LNumber(cs.Init))
	default:
		res, o = gl.Call(e.L, fn, sv, pv)
	}
	if canaries(c, e, cs, inf, o, &r) {
		return
	}
	r.implErr = o.Err != nil
	if o.Err != nil && isLimitErr(o.Err.Error()) {
		return
	}
	cls := inf.Class
	if cs.Plain {
		cls = lpat.WF // no pattern is involved
	}
	if cls == lpat.Undefined {
		return
	}
	// expected value list
	var wv []lpat.Value
	if want.Found {
		if isFind {
			wv = append(wv, lpat.Value{IsNum: true, N: want.Start}, lpat.Value{IsNum: true, N: want.End})
		}
		wv = append(wv, want.Vals...)
	}
	isNil := len(res) == 1 && res[0] == lua.LNil
	wantStr := func() string {
		if merr != nil {
			return "error " + merr.Error()
		}
		if !want.Found {
			return "nil"
		}
		return valsStr(wv)
	}
	beyond := cs.HasInit && cs.Init-1 > len(cs.Sub)
	switch cls {
	case lpat.WF:
		if merr != nil {
			c.Violation("HARNESS: the reference raised "+merr.Error()+" on a pattern classified well-formed", cs.withQ())
			r.bad = true
			return
		}
		if o.Err != nil {
			r.mark(file(c, cs, inf, dErrOnWF, "error on a well-formed pattern: "+fw.Short(o.Err.Error(), 200)+"; reference: "+wantStr()))
			return
		}
		if isNil && (!want.Found || beyond) {
			// init beyond len+1: lstrlib 5.1 clamps it to len+1, the manual is
			// silent (5.2 made it "no match"); nil is accepted as well
			if want.Found {
				c.Count("accepted_nil_for_init_beyond_end", 1)
			}
			return
		}
		if len(res) == 0 && (!want.Found || beyond) {
			r.mark(file(c, cs, inf, dNoValue, "returned no value at all (not even nil)"))
			return
		}
		if !sameVals(wv, res) {
			r.mark(file(c, cs, inf, dMismatch, "got "+lvStr(res)+"; reference: "+wantStr()))
		}
	case lpat.Malformed:
		if o.Err != nil || isNil || len(res) == 0 {
			return
		}
		if merr != nil || !want.Found || !sameVals(wv, res) {
			r.mark(file(c, cs, inf, dMismatch, "malformed pattern ("+inf.Why+"): neither an error, nor no match, nor the reference's result: got "+lvStr(res)+"; reference: "+wantStr()))
		}
	}
	return
}

// ---- string.gmatch ----

func checkGmatch(c *fw.Ctx, e *env, cs *Case, inf *lpat.Info, sv, pv lua.LValue) (r result) {
	r.cls = inf.Class
	want, merr := lpat.Gmatch(cs.Sub, cs.Pat, budgetOf(cs))
	if merr == lpat.ErrBudget {
		r.budget = true
		return
	}
	r.modelErr = merr != nil
	r.matched = len(want) > 0
	var got [][]lua.LValue
	res, o := gl.Call(e.L, e.gmatch, sv, pv)
	if o.GoPanic == nil && o.Err == nil {
		if len(res) == 0 || res[0].Type() != lua.LTFunction {
			r.mark(file(c, cs, inf, dMismatch, "string.gmatch did not return an iterator function: "+lvStr(res)))
			return
		}
		var st, ctl lua.LValue = lua.LNil, lua.LNil
		if len(res) > 1 {
			st = res[1]
		}
		if len(res) > 2 {
			ctl = res[2]
		}
		for {
			var vs []lua.LValue
			vs, o = gl.Call(e.L, res[0], st, ctl)
			if o.GoPanic != nil || o.Err != nil || len(vs) == 0 || vs[0] == lua.LNil {
				break
			}
			got = append(got, vs)
			ctl = vs[0]
			if len(got) > len(cs.Sub)+2 {
				r.mark(file(c, cs, inf, dMismatch, fmt.Sprintf("the gmatch iterator yielded more than len+2 = %d times", len(cs.Sub)+2)))
				return
			}
		}
		if o.GoPanic == nil && o.Err == nil {
			// an exhausted iterator keeps answering nil (lstrlib's gmatch_aux finds no further match)
			for k := 0; k < 2; k++ {
				vs, o2 := gl.Call(e.L, res[0], st, ctl)
				if o2.GoPanic != nil || o2.Err != nil || (len(vs) > 0 && vs[0] != lua.LNil) {
					o = o2
					if o2.GoPanic == nil && o2.Err == nil {
						r.mark(file(c, cs, inf, dMismatch, "the exhausted gmatch iterator, called again, returned "+lvStr(vs)))
						return
					}
					if canaries(c, e, cs, inf, o, &r) {
						return
					}
					r.mark(file(c, cs, inf, dMismatch, "the exhausted gmatch iterator, called again, raised: "+fw.Short(o2.Err.Error(), 160)))
					return
				}
			}
			// the iterator is a closure: called with no arguments at all (local it = s:gmatch(p); it())
			// it walks the same matches
			res2, o3 := gl.Call(e.L, e.gmatch, sv, pv)
			if o3.GoPanic == nil && o3.Err == nil && len(res2) > 0 && res2[0].Type() == lua.LTFunction {
				for k := 0; k <= len(got); k++ {
					vs, o4 := gl.Call(e.L, res2[0])
					if o4.GoPanic != nil || o4.Err != nil {
						o = o4
						if canaries(c, e, cs, inf, o, &r) {
							return
						}
						r.mark(file(c, cs, inf, dMismatch, "the gmatch iterator called without arguments raised: "+fw.Short(o4.Err.Error(), 160)))
						return
					}
					end := len(vs) == 0 || vs[0] == lua.LNil
					if k < len(got) && (end || lvStr(vs) != lvStr(got[k])) || k == len(got) && !end {
						r.mark(file(c, cs, inf, dMismatch, fmt.Sprintf("the gmatch iterator called without arguments yields %s at step %d, with the values of the generic for it yields %s", lvStr(vs), k+1, func() string {
							if k < len(got) {
								return lvStr(got[k])
							}
							return "nil"
						}())))
						return
					}
				}
			}
		}
	}
	if canaries(c, e, cs, inf, o, &r) {
		return
	}
	r.implErr = o.Err != nil
	if o.Err != nil && isLimitErr(o.Err.Error()) {
		return
	}
	wantStr := func() string {
		var p []string
		for _, w := range want {
			p = append(p, valsStr(w))
		}
		s := "{" + strings.Join(p, "} {") + "}"
		if merr != nil {
			s += " then error " + merr.Error()
		}
		return s
	}
	gotStr := func() string {
		var p []string
		for _, g := range got {
			p = append(p, lvStr(g))
		}
		return "{" + strings.Join(p, "} {") + "}"
	}
	prefixEq := func(n int) bool {
		for i := 0; i < n; i++ {
			if !sameVals(want[i], got[i]) {
				return false
			}
		}
		return true
	}
	switch inf.Class {
	case lpat.WF:
		if merr != nil {
			c.Violation("HARNESS: the reference raised "+merr.Error()+" on a pattern classified well-formed", cs.withQ())
			r.bad = true
			return
		}
		if o.Err != nil {
			r.mark(file(c, cs, inf, dErrOnWF, "error on a well-formed pattern: "+fw.Short(o.Err.Error(), 200)+"; reference: "+fw.Short(wantStr(), 300)))
			return
		}
		if len(want) != len(got) || !prefixEq(len(want)) {
			r.mark(file(c, cs, inf, dMismatch, "iteration yields "+fw.Short(gotStr(), 300)+"; reference: "+fw.Short(wantStr(), 300)))
		}
	case lpat.Malformed:
		if o.Err != nil || len(got) == 0 {
			return
		}
		if len(got) > len(want) || !prefixEq(len(got)) || (merr == nil && len(got) != len(want)) {
			r.mark(file(c, cs, inf, dMismatch, "malformed pattern ("+inf.Why+"): neither an error, nor no match, nor the reference's result: "+fw.Short(gotStr(), 300)+"; reference: "+fw.Short(wantStr(), 300)))
		}
	}
	return
}

// ---- string.gsub ----

// fnResult is the behaviour of the replacement function #seed: a pure function of its arguments.
func fnResult(seed int64, args []lpat.Value) RV {
	h := fnv.New64a()
	fmt.Fprintf(h, "%d", seed)
	for _, a := range args {
		h.Write([]byte(a.String()))
		h.Write([]byte{0})
	}
	x := h.Sum64()
	first := ""
	if len(args) > 0 {
		first = args[0].String()
	}
	switch x % 7 {
	case 0:
		return RV{K: "nil"}
	case 1:
		return RV{K: "false"}
	case 2:
		return RV{K: "none"}
	case 3:
		return RV{K: "num", N: int(x>>8) % 1000}
	case 4:
		return RV{K: "str", S: []byte{}}
	case 5:
		return RV{K: "str", S: []byte("<" + first + ">")}
	}
	return RV{K: "str", S: []byte(fmt.Sprintf("%d%%", len(args)))}
}

func rvToModel(v RV) lpat.RVal {
	switch v.K {
	case "false":
		return lpat.RVal{Kind: lpat.RFalse}
	case "str":
		return lpat.RVal{Kind: lpat.RStr, S: string(v.S)}
	case "num":
		return lpat.RVal{Kind: lpat.RNum, N: v.N}
	}
	return lpat.RVal{Kind: lpat.RNil}
}

func rvToLua(v RV) lua.LValue {
	switch v.K {
	case "false":
		return lua.LFalse
	case "str":
		return lua.LString(string(v.S))
	case "num":
		return lua.LNumber(v.N)
	}
	return lua.LNil
}

// replClass: 0 well-formed replacement string, 1 contains '%' followed by a
// non-digit other than '%' or a trailing '%' (no meaning in the 5.1 manual).
func replUndefined(s []byte) bool {
	for i := 0; i < len(s); i++ {
		if s[i] == '%' {
			i++
			if i >= len(s) || !(s[i] == '%' || '0' <= s[i] && s[i] <= '9') {
				return true
			}
		}
	}
	return false
}

// nestedPatternCalls runs two gsub calls of its own on the text of k (string and table replacement, at most one
// and len(k) matches) from inside a replacement callback of an outer gsub, and drops their results.
func nestedPatternCalls(L *lua.LState, gsub lua.LValue, k lua.LValue) {
	ks := lua.LString(k.String())
	top := L.GetTop()
	if err := L.CallByParam(lua.P{Fn: gsub, NRet: 2, Protect: true}, ks, lua.LString("^."), lua.LString("#")); err != nil {
		panic("nested gsub failed: " + err.Error())
	}
	if err := L.CallByParam(lua.P{Fn: gsub, NRet: 2, Protect: true}, ks, lua.LString("."), L.NewTable()); err != nil {
		panic("nested gsub failed: " + err.Error())
	}
	L.SetTop(top)
}

func checkGsub(c *fw.Ctx, e *env, cs *Case, inf *lpat.Info, sv, pv lua.LValue) (r result) {
	r.cls = inf.Class
	rs := cs.Repl
	var wantCalls, gotCalls []string
	rep := &lpat.Replacer{Kind: rs.Kind[0]}
	var rv lua.LValue
	switch rs.Kind {
	case "s":
		rep.Str = rs.Str
		rv = lua.LString(string(rs.Str))
	case "t":
		rep.Lookup = func(k lpat.Value) lpat.RVal {
			for _, en := range rs.Tab {
				if en.IsNum == k.IsNum && (k.IsNum && en.KN == k.N || !k.IsNum && string(en.KS) == k.S) {
					return rvToModel(en.V)
				}
			}
			return lpat.RVal{Kind: lpat.RNil}
		}
		t := e.L.NewTable()
		for _, en := range rs.Tab {
			if en.IsNum {
				t.RawSet(lua.LNumber(en.KN), rvToLua(en.V))
			} else {
				t.RawSet(lua.LString(string(en.KS)), rvToLua(en.V))
			}
		}
		rv = t
		if (len(cs.Sub)+len(cs.Pat))%2 == 1 {
			// every other case reaches the entries through an __index handler that itself runs pattern
			// functions on the key before answering: a replacement lookup may run arbitrary code, and the
			// outer gsub must not keep anything where a nested call can overwrite it
			proxy, mt := e.L.NewTable(), e.L.NewTable()
			mt.RawSetString("__index", e.L.NewFunction(func(L *lua.LState) int {
				k := L.Get(2)
				nestedPatternCalls(L, e.gsub, k)
				L.Push(t.RawGet(k))
				return 1
			}))
			e.L.SetMetatable(proxy, mt)
			rv = proxy
			c.Count("gsub_table_through_reentrant___index", 1)
		}
	case "f":
		rep.Call = func(args []lpat.Value) lpat.RVal {
			wantCalls = append(wantCalls, valsStr(args))
			return rvToModel(fnResult(rs.FSeed, args))
		}
		rv = e.L.NewFunction(func(L *lua.LState) int {
			var args []lpat.Value
			var raw []lua.LValue
			for i := 1; i <= L.GetTop(); i++ {
				v := L.Get(i)
				raw = append(raw, v)
				switch x := v.(type) {
				case lua.LNumber:
					if float64(x) == float64(int(x)) {
						args = append(args, lpat.Value{IsNum: true, N: int(x)})
					} else {
						args = append(args, lpat.Value{S: "<non-integer number " + x.String() + ">"})
					}
				case lua.LString:
					args = append(args, lpat.Value{S: string(x)})
				default:
					args = append(args, lpat.Value{S: "<" + v.Type().String() + ">"})
				}
			}
			gotCalls = append(gotCalls, lvStr(raw))
			if rs.FSeed%2 == 1 && len(raw) > 0 {
				nestedPatternCalls(L, e.gsub, raw[0])
			}
			res := fnResult(rs.FSeed, args)
			if res.K == "none" {
				return 0
			}
			L.Push(rvToLua(res))
			return 1
		})
	}
	wres, wn, merr := lpat.Gsub(cs.Sub, cs.Pat, rep, cs.N, cs.HasN, budgetOf(cs))
	if merr == lpat.ErrBudget {
		r.budget = true
		return
	}
	r.modelErr = merr != nil
	r.matched = wn > 0
	var res []lua.LValue
	var o gl.Outcome
	if cs.HasN {
		res, o = gl.Call(e.L, e.gsub, sv, pv, rv, lua.LNumber(cs.N))
	} else {
		res, o = gl.Call(e.L, e.gsub, sv, pv, rv)
	}
	if canaries(c, e, cs, inf, o, &r) {
		return
	}
	r.implErr = o.Err != nil
	if o.Err != nil && isLimitErr(o.Err.Error()) {
		return
	}
	if inf.Class == lpat.Undefined {
		return
	}
	wantStr := func() string {
		if merr != nil {
			return "error " + merr.Error()
		}
		return fmt.Sprintf("%s, %d", fw.Short(strconv.Quote(wres), 300), wn)
	}
	shape := len(res) == 2 && res[0].Type() == lua.LTString && res[1].Type() == lua.LTNumber
	if o.Err == nil && !shape {
		r.mark(file(c, cs, inf, dMismatch, "did not return (string, number): "+fw.Short(lvStr(res), 300)))
		return
	}
	undefRepl := rs.Kind == "s" && replUndefined(rs.Str)
	equal := o.Err == nil && merr == nil && string(res[0].(lua.LString)) == wres && float64(res[1].(lua.LNumber)) == float64(wn)
	callsEq := strings.Join(wantCalls, "|") == strings.Join(gotCalls, "|")
	switch inf.Class {
	case lpat.WF:
		if merr != nil {
			if _, ok := merr.(*lpat.Error); ok && (strings.Contains(merr.Error(), "invalid capture index")) && rs.Kind == "s" {
				// malformed replacement (%n beyond the captures): must be a Lua error
				if o.Err == nil {
					r.mark(file(c, cs, inf, dMismatch, "replacement names a capture that does not exist but no error was raised: got "+fw.Short(lvStr(res), 300)))
				}
				return
			}
			c.Violation("HARNESS: the reference raised "+merr.Error()+" on a pattern classified well-formed", cs.withQ())
			r.bad = true
			return
		}
		if undefRepl {
			// "%x" / trailing "%" in the replacement: the 5.1 manual gives it no
			// meaning; only the substitution count is compared when no error is raised
			if o.Err == nil && float64(res[1].(lua.LNumber)) != float64(wn) {
				r.mark(file(c, cs, inf, dMismatch, "substitution count "+lvStr(res[1:])+"; reference: "+wantStr()))
			}
			return
		}
		if o.Err != nil {
			r.mark(file(c, cs, inf, dErrOnWF, "error on a well-formed pattern and replacement: "+fw.Short(o.Err.Error(), 200)+"; reference: "+wantStr()))
			return
		}
		if !equal {
			r.mark(file(c, cs, inf, dMismatch, "got "+fw.Short(lvStr(res), 300)+"; reference: "+wantStr()))
			return
		}
		if rs.Kind == "f" && !callsEq {
			r.mark(file(c, cs, inf, dMismatch, "the replacement function was called with "+fw.Short(strings.Join(gotCalls, " | "), 300)+"; reference: "+fw.Short(strings.Join(wantCalls, " | "), 300)))
		}
	case lpat.Malformed:
		if o.Err != nil {
			return
		}
		noMatch := string(res[0].(lua.LString)) == string(cs.Sub) && float64(res[1].(lua.LNumber)) == 0
		if noMatch || undefRepl && merr == nil && float64(res[1].(lua.LNumber)) == float64(wn) {
			return
		}
		if !equal {
			r.mark(file(c, cs, inf, dMismatch, "malformed pattern ("+inf.Why+"): neither an error, nor no match, nor the reference's result: got "+fw.Short(lvStr(res), 300)+"; reference: "+wantStr()))
		}
	}
	return
}

// runCase runs one atomic case (used by the workload and by replay).
func runCase(c *fw.Ctx, e *env, cs *Case) result {
	inf := lpat.Classify(cs.Pat, cs.Fn != "gmatch")
	switch cs.Fn {
	case "pmfind":
		return checkPM(c, cs, &inf, string(cs.Pat))
	case "find", "match":
		return checkFind(c, e, cs, &inf, lua.LString(string(cs.Sub)), lua.LString(string(cs.Pat)))
	case "gmatch":
		return checkGmatch(c, e, cs, &inf, lua.LString(string(cs.Sub)), lua.LString(string(cs.Pat)))
	case "gsub":
		return checkGsub(c, e, cs, &inf, lua.LString(string(cs.Sub)), lua.LString(string(cs.Pat)))
	}
	return result{}
}
