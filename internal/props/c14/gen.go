package c14

import (
	"bytes"
	"math/rand"
	"strconv"
	"strings"

	"verif/internal/fw"
	"verif/internal/refl/lpat"
)

// ---- grammar-directed pattern generator ----

const (
	nLit = iota
	nAny
	nClass
	nSet
	nCap
	nPosCap
	nBackref
	nBalance
	nStray // a magic character at a place where it is an ordinary character
)

type setItem struct {
	kind int // 0 literal, 1 class letter, 2 range
	a, b byte
}

type node struct {
	kind  int
	b     byte // literal / class letter / stray character
	esc   bool // literal written with a '%'
	quant byte // 0 * + - ?
	neg   bool // set
	items []setItem
	kids  []*node // capture
	n     int     // back-reference number
	x, y  byte    // %bxy
}

const magic = "^$()%.[]*+-?"
const classLetters = "acdlpsuwxzACDLPSUWXZ"

func isAlnumB(b byte) bool {
	return '0' <= b && b <= '9' || 'a' <= b && b <= 'z' || 'A' <= b && b <= 'Z'
}

type pgen struct {
	r      *rand.Rand
	vocab  []byte // bytes the literals are drawn from (never 0)
	caps   []int  // per started capture: 0 open, 1 closed substring, 2 position
	budget int    // remaining items
}

var vocabPool = []byte("aabbcxyzAB01 _,;:=/<>{}\n\t\x01\x7f\x80\xc3\xa9\xff" + magic + magic)

func (g *pgen) lit() byte {
	if g.r.Intn(12) == 0 {
		return byte(1 + g.r.Intn(255))
	}
	return g.vocab[g.r.Intn(len(g.vocab))]
}

func (g *pgen) single() *node {
	switch k := g.r.Intn(100); {
	case k < 40:
		b := g.lit()
		n := &node{kind: nLit, b: b}
		if strings.IndexByte(magic, b) >= 0 {
			n.esc = true
		} else if !isAlnumB(b) && g.r.Intn(5) == 0 {
			n.esc = true
		}
		return n
	case k < 55:
		return &node{kind: nAny}
	case k < 75:
		return &node{kind: nClass, b: classLetters[g.r.Intn(len(classLetters))]}
	}
	// set
	n := &node{kind: nSet, neg: g.r.Intn(10) < 3}
	if g.r.Intn(10) == 0 {
		n.items = append(n.items, setItem{kind: 0, a: ']'}) // ']' first is an ordinary character
	} else if g.r.Intn(10) == 0 {
		n.items = append(n.items, setItem{kind: 0, a: '-'}) // '-' first
	}
	for i, k := 0, 1+g.r.Intn(4); i < k; i++ {
		switch q := g.r.Intn(10); {
		case q < 5:
			n.items = append(n.items, setItem{kind: 0, a: g.lit()})
		case q < 7:
			n.items = append(n.items, setItem{kind: 1, a: classLetters[g.r.Intn(len(classLetters))]})
		default:
			a, b := g.rangeEnd(), g.rangeEnd()
			if a > b && g.r.Intn(10) != 0 {
				a, b = b, a
			}
			if g.r.Intn(30) == 0 {
				b = '-' // a range ending in '-' (finding C14-set-range-ending-in-dash keeps being exercised)
			}
			n.items = append(n.items, setItem{kind: 2, a: a, b: b})
		}
	}
	if g.r.Intn(8) == 0 {
		n.items = append(n.items, setItem{kind: 0, a: '-'}) // '-' last
	}
	return n
}

func (g *pgen) rangeEnd() byte {
	for {
		b := g.lit()
		if b != '%' && b != ']' && b != '-' && b != '^' {
			return b
		}
	}
}

func (g *pgen) seq(depth int) []*node {
	var out []*node
	k := 1 + g.r.Intn(4)
	for i := 0; i < k && g.budget > 0; i++ {
		g.budget--
		q := g.r.Intn(100)
		for _, st := range g.caps {
			if st == 1 && g.r.Intn(5) == 0 {
				q = 75 // a closed capture exists: favour a back-reference
				break
			}
		}
		switch {
		case q < 50:
			n := g.single()
			if g.r.Intn(2) == 0 {
				n.quant = "*+-?"[g.r.Intn(4)]
			}
			out = append(out, n)
		case q < 66:
			if depth >= 3 || len(g.caps) >= 9 {
				continue
			}
			idx := len(g.caps)
			g.caps = append(g.caps, 0)
			n := &node{kind: nCap, kids: g.seq(depth + 1)}
			g.caps[idx] = 1
			out = append(out, n)
		case q < 72:
			if len(g.caps) >= 9 {
				continue
			}
			g.caps = append(g.caps, 2)
			out = append(out, &node{kind: nPosCap})
		case q < 82:
			// back-reference to a closed capture (a position capture only rarely:
			// finding C14-backref-unchecked-capture keeps being exercised)
			var cand []int
			for i, st := range g.caps {
				if st == 1 || st == 2 && g.r.Intn(12) == 0 {
					cand = append(cand, i+1)
				}
			}
			if len(cand) == 0 {
				continue
			}
			out = append(out, &node{kind: nBackref, n: cand[g.r.Intn(len(cand))]})
		case q < 90:
			pairs := []string{"()", "[]", "{}", "<>", "ab", "xx"}
			p := pairs[g.r.Intn(len(pairs))]
			n := &node{kind: nBalance, x: p[0], y: p[1]}
			if g.r.Intn(4) == 0 {
				n.x, n.y = g.lit(), g.lit()
			}
			out = append(out, n)
		case q < 94:
			// a quantifier character right after something that is not a single-character class
			if len(out) == 0 || out[len(out)-1].kind >= nCap && out[len(out)-1].kind <= nBalance {
				out = append(out, &node{kind: nStray, b: "*+-?"[g.r.Intn(4)]})
			}
		case q < 97:
			if len(out) > 0 || depth > 0 {
				out = append(out, &node{kind: nStray, b: '^'}) // '^' not at the start
			}
		default:
			out = append(out, &node{kind: nStray, b: ']'})
		}
	}
	return out
}

func renderSet(sb *bytes.Buffer, n *node) {
	sb.WriteByte('[')
	if n.neg {
		sb.WriteByte('^')
	}
	for i, it := range n.items {
		switch it.kind {
		case 0:
			first := i == 0
			last := i == len(n.items)-1
			switch {
			case it.a == ']' && first, it.a == '-' && (first || last):
				sb.WriteByte(it.a)
			case it.a == '%' || it.a == ']' || it.a == '-' || it.a == '^':
				sb.WriteByte('%')
				sb.WriteByte(it.a)
			default:
				sb.WriteByte(it.a)
			}
		case 1:
			sb.WriteByte('%')
			sb.WriteByte(it.a)
		case 2:
			sb.WriteByte(it.a)
			sb.WriteByte('-')
			sb.WriteByte(it.b)
		}
	}
	sb.WriteByte(']')
}

func render(sb *bytes.Buffer, ns []*node) {
	for _, n := range ns {
		switch n.kind {
		case nLit:
			if n.esc {
				sb.WriteByte('%')
			}
			sb.WriteByte(n.b)
		case nAny:
			sb.WriteByte('.')
		case nClass:
			sb.WriteByte('%')
			sb.WriteByte(n.b)
		case nSet:
			renderSet(sb, n)
		case nCap:
			sb.WriteByte('(')
			render(sb, n.kids)
			sb.WriteByte(')')
		case nPosCap:
			sb.WriteString("()")
		case nBackref:
			sb.WriteByte('%')
			sb.WriteByte(byte('0' + n.n))
		case nBalance:
			sb.WriteString("%b")
			sb.WriteByte(n.x)
			sb.WriteByte(n.y)
		case nStray:
			sb.WriteByte(n.b)
		}
		if n.quant != 0 {
			sb.WriteByte(n.quant)
		}
	}
}

func setHas(n *node, c byte) bool {
	for _, it := range n.items {
		switch it.kind {
		case 0:
			if it.a == c {
				return !n.neg
			}
		case 1:
			if lpat.MatchClass(int(c), int(it.a)) {
				return !n.neg
			}
		case 2:
			if it.a <= c && c <= it.b {
				return !n.neg
			}
		}
	}
	return n.neg
}

// sampler produces a string the item sequence is likely to match.
type sampler struct {
	r     *rand.Rand
	vocab []byte
	caps  [][]byte
}

func (s *sampler) pick(ok func(c byte) bool) (byte, bool) {
	for i := 0; i < 12; i++ {
		c := s.vocab[s.r.Intn(len(s.vocab))]
		if ok(c) {
			return c, true
		}
	}
	for i := 0; i < 40; i++ {
		c := byte(s.r.Intn(256))
		if ok(c) {
			return c, true
		}
	}
	return 0, false
}

func (s *sampler) sample(out *bytes.Buffer, ns []*node) {
	for _, n := range ns {
		reps := 1
		switch n.quant {
		case '*', '-':
			reps = s.r.Intn(4)
		case '+':
			reps = 1 + s.r.Intn(3)
		case '?':
			reps = s.r.Intn(2)
		}
		for k := 0; k < reps; k++ {
			switch n.kind {
			case nLit, nStray:
				out.WriteByte(n.b)
			case nAny:
				c, _ := s.pick(func(byte) bool { return true })
				out.WriteByte(c)
			case nClass:
				if c, ok := s.pick(func(c byte) bool { return lpat.MatchClass(int(c), int(n.b)) }); ok {
					out.WriteByte(c)
				}
			case nSet:
				if c, ok := s.pick(func(c byte) bool { return setHas(n, c) }); ok {
					out.WriteByte(c)
				}
			case nCap:
				idx := len(s.caps)
				s.caps = append(s.caps, nil)
				start := out.Len()
				s.sample(out, n.kids)
				s.caps[idx] = append([]byte(nil), out.Bytes()[start:]...)
			case nPosCap:
				s.caps = append(s.caps, nil)
			case nBackref:
				if n.n-1 < len(s.caps) {
					out.Write(s.caps[n.n-1])
				}
			case nBalance:
				out.WriteByte(n.x)
				for d := s.r.Intn(3); d > 0; d-- {
					if s.r.Intn(3) == 0 && n.x != n.y {
						out.WriteByte(n.x)
						out.WriteByte(s.vocab[s.r.Intn(len(s.vocab))])
						out.WriteByte(n.y)
					} else {
						out.WriteByte(s.vocab[s.r.Intn(len(s.vocab))])
					}
				}
				out.WriteByte(n.y)
			}
		}
	}
}

type genOut struct {
	pat   []byte
	tree  []*node
	vocab []byte
}

// genPattern returns a well-formed (by construction) pattern of at most 24 bytes.
func genPattern(r *rand.Rand) genOut {
	for {
		g := &pgen{r: r, budget: 2 + r.Intn(7)}
		for i, k := 0, 2+r.Intn(4); i < k; i++ {
			g.vocab = append(g.vocab, vocabPool[r.Intn(len(vocabPool))])
		}
		tree := g.seq(0)
		var sb bytes.Buffer
		if r.Intn(6) == 0 {
			sb.WriteByte('^')
		}
		render(&sb, tree)
		if r.Intn(6) == 0 {
			sb.WriteByte('$')
		}
		if sb.Len() <= 24 {
			return genOut{pat: sb.Bytes(), tree: tree, vocab: g.vocab}
		}
	}
}

func genSubject(r *rand.Rand, g *genOut) []byte {
	var out bytes.Buffer
	noise := func(max int) {
		for k := r.Intn(max + 1); k > 0; k-- {
			switch r.Intn(8) {
			case 0:
				out.WriteByte(byte(r.Intn(256)))
			default:
				out.WriteByte(g.vocab[r.Intn(len(g.vocab))])
			}
		}
	}
	switch r.Intn(10) {
	case 0:
		// pure noise over all byte values
		for k := r.Intn(65); k > 0; k-- {
			out.WriteByte(byte(r.Intn(256)))
		}
	case 1:
		noise(64)
	default:
		if !(len(g.pat) > 0 && g.pat[0] == '^') || r.Intn(3) == 0 {
			noise(6)
		}
		for k := 1 + r.Intn(3); k > 0; k-- {
			s := &sampler{r: r, vocab: g.vocab}
			s.sample(&out, g.tree)
			if r.Intn(2) == 0 {
				noise(5)
			}
		}
		if !(len(g.pat) > 0 && g.pat[len(g.pat)-1] == '$') || r.Intn(3) == 0 {
			noise(6)
		}
	}
	b := out.Bytes()
	// a few point mutations
	if len(b) > 0 {
		for k := r.Intn(3); k > 0 && r.Intn(3) == 0; k-- {
			i := r.Intn(len(b))
			switch r.Intn(3) {
			case 0:
				b[i] = byte(r.Intn(256))
			case 1:
				b = append(b[:i], b[i+1:]...)
			default:
				b = append(b[:i+1], b[i:]...)
			}
			if len(b) == 0 {
				break
			}
		}
	}
	if len(b) > 64 {
		b = b[:64]
	}
	return append([]byte(nil), b...)
}

// mutate damages a well-formed pattern (most results are malformed; Classify decides).
func mutate(r *rand.Rand, p []byte) []byte {
	b := append([]byte(nil), p...)
	sp := []byte("%()[]^$*+-?.b0123f\x00")
	for k := 1 + r.Intn(2); k > 0; k-- {
		switch op := r.Intn(6); {
		case op == 0 && len(b) > 0:
			i := r.Intn(len(b))
			b = append(b[:i], b[i+1:]...)
		case op == 1:
			i := r.Intn(len(b) + 1)
			b = append(b[:i], append([]byte{sp[r.Intn(len(sp)-1)]}, b[i:]...)...)
		case op == 2 && len(b) > 0:
			b = b[:r.Intn(len(b))]
		case op == 3:
			b = append(b, '%')
		case op == 4 && len(b) > 0:
			b[r.Intn(len(b))] = sp[r.Intn(len(sp))]
		default:
			// unbalance a bracket or a capture
			for i, c := range b {
				if (c == ')' || c == ']') && r.Intn(2) == 0 {
					b = append(b[:i], b[i+1:]...)
					break
				}
			}
		}
	}
	if len(b) > 26 {
		b = b[:26]
	}
	return b
}

func genRepl(r *rand.Rand, vocab []byte, ncaps int) []byte {
	var out []byte
	for k := r.Intn(6); k > 0; k-- {
		switch q := r.Intn(20); {
		case q < 8:
			c := vocab[r.Intn(len(vocab))]
			if c == '%' {
				out = append(out, '%')
			}
			out = append(out, c)
		case q < 15:
			hi := ncaps + 1
			if hi > 9 {
				hi = 9
			}
			if r.Intn(15) == 0 {
				hi = 9 // may name a capture that does not exist: an error is expected
			}
			out = append(out, '%', byte('0'+r.Intn(hi+1)))
		case q < 18:
			out = append(out, '%', '%')
		case q < 19:
			out = append(out, '%', "ax. -"[r.Intn(5)]) // no meaning in the manual
		default:
			out = append(out, byte(1+r.Intn(255)))
			if out[len(out)-1] == '%' {
				out = append(out, '%')
			}
		}
	}
	if r.Intn(40) == 0 {
		out = append(out, '%') // trailing '%': no meaning in the manual
	}
	return out
}

// genTable builds a table replacement around the keys gsub will look up
// (first capture or whole match of each match the reference finds).
func genTable(r *rand.Rand, pat, sub []byte) []TabEnt {
	var ents []TabEnt
	seen := map[string]bool{}
	ms, err := lpat.Scan(sub, pat, 0, -1, true, defaultBudget)
	if err == nil {
		for _, m := range ms {
			if len(ents) >= 12 {
				break
			}
			var key lpat.Value
			if len(m.Caps) == 0 {
				key = lpat.Value{S: string(sub[m.Start:m.End])}
			} else if vs, err := lpat.Captures(sub, m, true); err == nil {
				key = vs[0]
			} else {
				continue
			}
			if seen[key.String()] || r.Intn(4) == 0 {
				continue
			}
			seen[key.String()] = true
			en := TabEnt{IsNum: key.IsNum, KN: key.N, KS: []byte(key.S)}
			switch r.Intn(5) {
			case 0:
				en.V = RV{K: "false"}
			case 1:
				en.V = RV{K: "num", N: r.Intn(2000) - 1000}
			case 2:
				en.V = RV{K: "str", S: []byte{}}
			default:
				en.V = RV{K: "str", S: []byte("[" + key.String() + "]")}
			}
			ents = append(ents, en)
		}
	}
	if !seen[(lpat.Value{S: "zz"}).String()] {
		ents = append(ents, TabEnt{KS: []byte("zz"), V: RV{K: "str", S: []byte("ZZ")}})
	}
	return ents
}

// runBattery runs the calls derived from (pat, sub, bseed) of cs.
func runBattery(c *fw.Ctx, e *env, cs *Case, count bool) {
	r := rand.New(rand.NewSource(cs.BSeed))
	pat, sub := cs.Pat, cs.Sub
	n := len(sub)
	inf := lpat.Classify(pat, true)
	vocab := []byte("ab-")
	for _, b := range pat {
		if b != 0 {
			vocab = append(vocab, b)
		}
	}
	var cases []*Case
	add := func(x Case) {
		x.Pat, x.Sub = pat, sub
		cases = append(cases, &x)
	}
	add(Case{Fn: "pmfind", Off: 0, Limit: -1})
	add(Case{Fn: "pmfind", Off: r.Intn(n + 1), Limit: 1})
	add(Case{Fn: "pmfind", Off: r.Intn(n + 1), Limit: 2 + r.Intn(2)})
	add(Case{Fn: "find"})
	add(Case{Fn: "find", HasInit: true, Init: r.Intn(2*n+5) - n - 2})
	add(Case{Fn: "find", HasInit: true, Init: r.Intn(2*n+5) - n - 2})
	add(Case{Fn: "match"})
	add(Case{Fn: "match", HasInit: true, Init: r.Intn(2*n+5) - n - 2})
	add(Case{Fn: "gmatch"})
	pickN := func(x *Case) {
		if r.Intn(2) == 0 {
			x.HasN = true
			x.N = []int{0, 1, 1, 2, 3, n + 1, 100, -1}[r.Intn(8)]
		}
	}
	for k := 0; k < 2; k++ {
		x := Case{Fn: "gsub", Repl: &ReplSpec{Kind: "s", Str: genRepl(r, vocab, inf.NCaps)}}
		pickN(&x)
		add(x)
	}
	{
		x := Case{Fn: "gsub", Repl: &ReplSpec{Kind: "f", FSeed: r.Int63n(1000)}}
		pickN(&x)
		add(x)
		y := Case{Fn: "gsub", Repl: &ReplSpec{Kind: "t", Tab: genTable(r, pat, sub)}}
		pickN(&y)
		add(y)
	}
	if r.Intn(8) == 0 {
		add(Case{Fn: "find", HasInit: true, Init: r.Intn(2*n+5) - n - 2, Plain: true})
	}
	var matched, modelErr, implErr, budget bool
	for _, x := range cases {
		x.Budget = cs.Budget
		res := runCase(c, e, x)
		if count {
			c.Count("call_"+x.Fn, 1)
			switch {
			case res.budget:
				c.Count("outcome_model_budget", 1)
			case res.modelErr:
				c.Count("outcome_reference_error", 1)
			case res.matched:
				c.Count("outcome_match", 1)
			default:
				c.Count("outcome_nomatch", 1)
			}
			if res.implErr {
				c.Count("outcome_impl_lua_error", 1)
			}
		}
		matched = matched || res.matched
		modelErr = modelErr || res.modelErr
		implErr = implErr || res.implErr
		budget = budget || res.budget
	}
	if !count {
		return
	}
	c.Count("battery_"+inf.Class.String(), 1)
	if budget {
		c.Inconclusive("model_budget")
	}
	nt := false
	switch inf.Class {
	case lpat.WF:
		nt = matched && (inf.HasQuant || inf.HasSet || inf.HasCapture || inf.HasBackref || inf.HasBalance)
		for _, f := range []struct {
			on   bool
			name string
		}{{inf.HasQuant, "quant"}, {inf.HasSet, "set"}, {inf.HasCapture, "capture"}, {inf.HasPosCap, "poscap"}, {inf.HasBackref, "backref"},
			{inf.HasBalance, "balance"}, {inf.Anchored, "anchor^"}, {inf.TailAnchor, "anchor$"}} {
			if f.on && matched {
				c.Count("matched_wf_with_"+f.name, 1)
			}
		}
	case lpat.Malformed:
		nt = modelErr || implErr
	}
	c.End(nt, "battery/"+string(pat)+"\x00/"+string(sub))
}

func runRandom(c *fw.Ctx, e *env) {
	nwf := c.Share(c.Pick(120000, 6000000))
	for i := 0; i < nwf; i++ {
		g := genPattern(c.R)
		for k := 0; k < 2; k++ {
			cs := &Case{Fn: "battery", Pat: g.pat, Sub: genSubject(c.R, &g), BSeed: c.R.Int63()}
			c.Begin(cs)
			runBattery(c, e, cs, true)
			if i == 0 && c.Shard < 2 && k == 0 {
				c.Sample(map[string]any{"kind": "random well-formed", "pattern": strconv.Quote(string(cs.Pat)), "subject": strconv.Quote(string(cs.Sub))})
			}
		}
	}
	nmal := c.Share(c.Pick(80000, 4000000))
	for i := 0; i < nmal; i++ {
		g := genPattern(c.R)
		var pat []byte
		if c.R.Intn(4) == 0 {
			// a string over the magic characters and a few letters
			al := []byte("%()[]^$*+-?.ab1")
			for k := 1 + c.R.Intn(10); k > 0; k-- {
				pat = append(pat, al[c.R.Intn(len(al))])
			}
		} else {
			pat = mutate(c.R, g.pat)
		}
		cs := &Case{Fn: "battery", Pat: pat, Sub: genSubject(c.R, &g), BSeed: c.R.Int63()}
		c.Begin(cs)
		runBattery(c, e, cs, true)
	}
}
