// Package c14: Lua patterns match as the 5.1 matcher does; bad patterns are
// errors, not crashes. Differential monitoring of pm.Find and
// string.find/match/gmatch/gsub against the reference matcher refl/lpat.
package c14

import (
	"encoding/json"
	"fmt"
	"runtime"
	"runtime/debug"
	"strings"

	"verif/internal/fw"
)

func init() {
	fw.Register(&fw.Prop{
		ID:    "C14",
		Level: "exploration",
		Rule: "EXHAUSTIVE part (enumerated completely in each tier): 14 pattern alphabets of 5-6 symbols (sweep.go: 'ab.%*' alone and with one of + - ? ^ $ A; 'a.*+-?'; 'ab%*()'; '.%()1*'; 'ab[]-^'; 'a[]^-%'; 'a()^$*'; 'a[]()*'), " +
			"every pattern of length <= 5 (quick) / <= 6 (thorough) x every subject over the sweep's 3-byte alphabet of length <= 3 (quick; <= 4 for the base alphabet) / <= 5 (thorough; <= 6 base; thorough also runs the base alphabet's patterns of length 7 on subjects of length <= 4): " +
			"pm.Find from every offset 0..len with limit 1 and as a whole scan (limit -1). On every subject of length <= 1 and a fixed 1/16 slice of the longer ones additionally string.find and string.match with init absent and every init in [-len-2,len+2], " +
			"plain find on a 1/8 slice, string.gmatch, string.gsub with a string, a function and a table replacement (and n limits); on the other subjects of length 2 find/match without init, gmatch and one gsub. " +
			"One case per pattern; non-trivial = a well-formed pattern for which the reference found a match on some subject and none on another, or a malformed pattern whose malformed spot the reference reached on some subject. " +
			"Also exhaustive: ~1250 class/set/literal patterns (the 20 class letters bare, in sets and complemented, '.', ranges, every byte as raw and escaped literal) against all 256 byte values. " +
			"RANDOM part: grammar-directed well-formed patterns (<= 24 bytes) on subjects (<= 64 bytes, all 256 byte values) derived from the pattern, mutated patterns (malformed), each pair run through a battery of pm.Find/find/match/gmatch/gsub calls; " +
			"non-trivial = the reference found a match and the pattern has a quantifier, set, capture, back-reference or %b (well-formed), or the reference or the implementation raised a pattern error (malformed). Distinct by pattern+subject.",
		Assumptions: []string{
			"refl/lpat restates lstrlib.c 5.1 (match, max_expand, min_expand, captures, %b, sets, C-locale ctype, find/gmatch/gsub drivers) correctly; it was checked against documented manual/PiL examples",
			"patterns the 5.1 manual gives no meaning (embedded NUL, %f, '-' or classes interacting with ranges inside a set, '%x' or a trailing '%' in a replacement string) are not asserted beyond the no-crash canaries",
			"init beyond len+1: lstrlib 5.1 clamps, the manual is silent; both the clamped result and nil are accepted",
			"a hang would show as the wall-clock watchdog (inconclusive), the implementation is only run on inputs the reference finishes within its step budget; the one exception is gsub with 10^6 one-byte matches, which has to finish within 90 s (one pass: about a second; the assembly that re-copied the subject per match needed tens of minutes)",
		},
		CrashIsViolation: true,
		Exhaustive:       true,
		// per-case bound for the large hostile inputs (set with HangLimit around them); every
		// other case is bounded by the reference's step budget and runs under this generous one
		HangSeconds:      1500,
		Run:              run,
		Replay:           replay,
		Reproducers:      reproducers,
		WatchdogQuick:    600,
		WatchdogThorough: 3 * 3600,
	})
}

func run(c *fw.Ctx) {
	// 16 workers run side by side: keep each one's garbage collector off the other cores
	runtime.GOMAXPROCS(2)
	debug.SetGCPercent(400)
	// The matcher recurses once per subject byte of a greedy run and stops itself at
	// 10^6 levels, which takes a 256 MB goroutine stack (measured: 128 MB is too
	// little). Go's default limit is 1 GB; with this one a guard that lets the
	// recursion go deeper shows as a dead worker at 3*10^6 bytes instead of 6*10^6.
	debug.SetMaxStack(256 << 20)
	e := newEnv()
	runClasses(c, e)
	runSweeps(c, e)
	runRandom(c, e)
	runHostile(c, e)
	runNumberSubjects(c, e)
}

func replay(c *fw.Ctx, raw json.RawMessage) {
	var cs Case
	if err := json.Unmarshal(raw, &cs); err != nil {
		fmt.Println("bad case:", err)
		return
	}
	e := newEnv()
	switch cs.Fn {
	case "sweep":
		sw := &sweepDef{name: "replay", sub: string(cs.SubAlpha)}
		sweepPattern(c, e, sw, cs.Pat, cs.Idx, subjectsOf(sw.sub, cs.MaxSub), false)
	case "numsubject":
		runNumberSubject(c, e, &cs)
	case "battery":
		runBattery(c, e, &cs, false)
	case "classes":
		var all [256]byte
		for i := range all {
			all[i] = byte(i)
		}
		classPattern(c, e, cs.Pat, all[:])
	case "hostile":
		if cs.Call == "deep-captures" {
			shapes := []func(int) string{
				func(n int) string { return strings.Repeat("(", n) + "a" + strings.Repeat(")", n) },
				func(n int) string { return strings.Repeat("(", n) },
				func(n int) string { return strings.Repeat("(a", n) },
				func(n int) string { return strings.Repeat("(", n) + strings.Repeat(")", n) },
				func(n int) string { return strings.Repeat("()", n) },
			}
			runDeepPattern(c, e, shapes[cs.Variant%len(shapes)](cs.Size), &cs)
			return
		}
		for _, h := range hostileList() {
			if h.fn == cs.Call && h.pat == string(cs.Pat) {
				runHostileCase(c, e, &h, cs.Size, &cs)
				return
			}
		}
		fmt.Println("unknown hostile case")
	default:
		runCase(c, e, &cs)
	}
}
