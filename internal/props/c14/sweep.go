package c14

import (
	lua "github.com/yuin/gopher-lua"

	"verif/internal/fw"
	"verif/internal/refl/lpat"
)

// A sweep is one pattern alphabet together with the 3-byte subject alphabet it
// is run against. Every string over pat up to the tier's length bound is a
// pattern of the sweep (patterns made of base symbols only are enumerated by
// sweep 0 alone).
type sweepDef struct {
	name string
	pat  string
	sub  string
}

const baseAlpha = "ab.%*"

var sweeps = []sweepDef{
	{"base", "ab.%*", "ab*"},
	{"plus", "ab.%*+", "ab+"},
	{"minus", "ab.%*-", "ab-"},
	{"opt", "ab.%*?", "ab?"},
	{"caret", "ab.%*^", "ab^"},
	{"dollar", "ab.%*$", "ab$"},
	{"classA", "ab.%*A", "aA "},
	{"quant", "a.*+-?", "ab-"},
	{"capture", "ab%*()", "ab)"},
	{"backref", ".%()1*", "ab1"},
	{"set", "ab[]-^", "ab-"},
	{"setesc", "a[]^-%", "a]^"},
	{"anchcap", "a()^$*", "a^$"},
	{"setcap", "a[]()*", "ab]"},
}

func allBase(p []byte) bool {
	for _, c := range p {
		ok := false
		for i := 0; i < len(baseAlpha); i++ {
			if c == baseAlpha[i] {
				ok = true
			}
		}
		if !ok {
			return false
		}
	}
	return true
}

// enumStrings calls f with every string over alpha of length 0..maxLen, shorter first.
func enumStrings(alpha string, maxLen int, f func(s []byte)) {
	buf := make([]byte, maxLen)
	idx := make([]int, maxLen)
	for n := 0; n <= maxLen; n++ {
		for i := 0; i < n; i++ {
			idx[i] = 0
			buf[i] = alpha[0]
		}
		for {
			f(buf[:n])
			k := n - 1
			for k >= 0 {
				idx[k]++
				if idx[k] < len(alpha) {
					buf[k] = alpha[idx[k]]
					break
				}
				idx[k] = 0
				buf[k] = alpha[0]
				k--
			}
			if k < 0 {
				break
			}
		}
	}
}

type subject struct {
	b  []byte
	lv lua.LValue
}

func subjectsOf(alpha string, maxLen int) []subject {
	var out []subject
	enumStrings(alpha, maxLen, func(s []byte) {
		b := append([]byte(nil), s...)
		out = append(out, subject{b, lua.LString(string(b))})
	})
	return out
}

// fixed replacements of the sweeps
var sweepRepls = []*ReplSpec{
	{Kind: "s", Str: []byte("<%0|%1>")},
	{Kind: "f", FSeed: 7},
	{Kind: "t", Tab: []TabEnt{
		{KS: []byte("a"), V: RV{K: "str", S: []byte("X")}},
		{KS: []byte("b"), V: RV{K: "false"}},
		{KS: []byte("ab"), V: RV{K: "num", N: 7}},
		{KS: []byte(""), V: RV{K: "str", S: []byte("E")}},
		{KS: []byte("aa"), V: RV{K: "str", S: []byte("")}},
		{KS: []byte("1"), V: RV{K: "str", S: []byte("S1")}},
		{IsNum: true, KN: 1, V: RV{K: "str", S: []byte("P")}},
		{IsNum: true, KN: 2, V: RV{K: "false"}},
		{IsNum: true, KN: 3, V: RV{K: "num", N: 9}},
	}},
	{Kind: "s", Str: []byte("%2%%")},
}

// sweepPattern runs one pattern of a sweep against every subject: pm.Find
// from every offset (limit 1) and as a whole scan (limit -1); the Lua-level
// functions with every init in [-len-2, len+2], plain find, gmatch and four
// gsub replacements on the subjects of length <= 1 and on a fixed 1/16 slice of
// the longer ones; find/match without init, gmatch and one gsub on the other
// subjects of length 2. One framework case per pattern.
func sweepPattern(c *fw.Ctx, e *env, sw *sweepDef, pat []byte, gidx int, subs []subject, count bool) {
	patStr := string(pat)
	pv := lua.LString(patStr)
	// slice selector: a hash of the global pattern index, so that the slices
	// are not correlated with the shard (gidx mod 16) the pattern belongs to
	mix := int((uint64(gidx) * 0x9E3779B97F4A7C15) >> 40)
	inf := lpat.Classify(pat, true)
	infG := lpat.Classify(pat, false)
	var sawMatch, sawNoMatch, sawModelErr, sawImplErr, sawBudget bool
	var nPM, nLua int64
	note := func(r result) {
		if r.budget {
			sawBudget = true
			return
		}
		if r.modelErr {
			sawModelErr = true
		} else if r.matched {
			sawMatch = true
		} else {
			sawNoMatch = true
		}
		if r.implErr {
			sawImplErr = true
		}
	}
	bad := 0
	for j, sb := range subs {
		if bad >= 3 {
			break // enough reports for this pattern
		}
		cs := Case{Fn: "pmfind", Pat: pat, Sub: sb.b, Off: 0, Limit: -1}
		r := checkPM(c, &cs, &inf, patStr)
		note(r)
		nPM++
		if r.bad {
			bad++
		}
		for off := 0; off <= len(sb.b); off++ {
			cs := Case{Fn: "pmfind", Pat: pat, Sub: sb.b, Off: off, Limit: 1}
			r := checkPM(c, &cs, &inf, patStr)
			note(r)
			nPM++
			if r.bad {
				bad++
				break
			}
		}
		full := len(sb.b) <= 1 || (mix+j)%16 == 0
		if !full {
			if len(sb.b) == 2 {
				// light Lua-level pass: no init, one replacement
				for _, fn := range []string{"find", "match"} {
					cs := Case{Fn: fn, Pat: pat, Sub: sb.b}
					r := checkFind(c, e, &cs, &inf, sb.lv, pv)
					nLua++
					if r.bad {
						bad++
					}
				}
				cs := Case{Fn: "gmatch", Pat: pat, Sub: sb.b}
				if r := checkGmatch(c, e, &cs, &infG, sb.lv, pv); r.bad {
					bad++
				}
				cs = Case{Fn: "gsub", Pat: pat, Sub: sb.b, Repl: sweepRepls[(mix/16+j)%3]}
				if r := checkGsub(c, e, &cs, &inf, sb.lv, pv); r.bad {
					bad++
				}
				nLua += 2
			}
			continue
		}
		n := len(sb.b)
		for _, fn := range []string{"find", "match"} {
			cs := Case{Fn: fn, Pat: pat, Sub: sb.b}
			r := checkFind(c, e, &cs, &inf, sb.lv, pv)
			note(r)
			nLua++
			if r.bad {
				bad++
				continue
			}
			for init := -n - 2; init <= n+2; init++ {
				cs := Case{Fn: fn, Pat: pat, Sub: sb.b, Init: init, HasInit: true}
				r := checkFind(c, e, &cs, &inf, sb.lv, pv)
				nLua++
				if r.bad {
					bad++
					break
				}
			}
		}
		if (mix/16+j)%8 == 0 {
			for init := -n - 2; init <= n+2; init++ {
				cs := Case{Fn: "find", Pat: pat, Sub: sb.b, Init: init, HasInit: true, Plain: true}
				r := checkFind(c, e, &cs, &inf, sb.lv, pv)
				nLua++
				if r.bad {
					bad++
					break
				}
			}
		}
		{
			cs := Case{Fn: "gmatch", Pat: pat, Sub: sb.b}
			r := checkGmatch(c, e, &cs, &infG, sb.lv, pv)
			nLua++
			if r.bad {
				bad++
			}
		}
		for k, rs := range sweepRepls {
			if k == 3 && (mix/128+j)%4 != 0 {
				continue
			}
			cs := Case{Fn: "gsub", Pat: pat, Sub: sb.b, Repl: rs}
			switch (mix/512 + j + k) % 6 {
			case 0:
				cs.HasN, cs.N = true, 1
			case 1:
				cs.HasN, cs.N = true, 0
			case 2:
				cs.HasN, cs.N = true, 2
			case 3:
				cs.HasN, cs.N = true, n+1
			}
			r := checkGsub(c, e, &cs, &inf, sb.lv, pv)
			nLua++
			if r.bad {
				bad++
			}
		}
	}
	if !count {
		return
	}
	c.Count("sweep_"+sw.name+"_patterns", 1)
	c.Count("patterns_"+inf.Class.String(), 1)
	c.Count("pmfind_calls", nPM)
	c.Count("lua_level_calls", nLua)
	if sawImplErr {
		c.Count("patterns_impl_raised_lua_error", 1)
	}
	if sawModelErr {
		c.Count("patterns_reference_raised_error", 1)
	}
	if sawBudget {
		c.Inconclusive("model_budget")
	}
	nontrivial := false
	switch inf.Class {
	case lpat.WF:
		nontrivial = sawMatch && sawNoMatch
		if sawMatch {
			c.Count("wf_patterns_with_a_match", 1)
		}
	case lpat.Malformed:
		nontrivial = sawModelErr
	}
	c.End(nontrivial, "sweep/"+patStr)
}

// sweepBounds: pattern length bound and subject length bound of sweep si in this tier.
func sweepBounds(c *fw.Ctx, si int) (maxPat, maxSub int) {
	if si == 0 {
		return c.Pick(5, 6), c.Pick(4, 6)
	}
	return c.Pick(5, 6), c.Pick(3, 5)
}

func runSweeps(c *fw.Ctx, e *env) {
	gidx := 0
	one := func(sw *sweepDef, si, minPat, maxPat, maxSub int) {
		subs := subjectsOf(sw.sub, maxSub)
		enumStrings(sw.pat, maxPat, func(p []byte) {
			if len(p) < minPat || si > 0 && allBase(p) {
				return
			}
			gidx++
			if !c.Mine(gidx) {
				return
			}
			pat := append([]byte(nil), p...)
			c.Begin(&Case{Fn: "sweep", Pat: pat, SubAlpha: []byte(sw.sub), MaxSub: maxSub, Idx: gidx})
			sweepPattern(c, e, sw, pat, gidx, subs, true)
			if c.WantSample() && gidx%977 == 0 {
				c.Sample(map[string]any{"sweep": sw.name, "pattern": string(pat), "subjects": len(subs)})
			}
		})
	}
	for si := range sweeps {
		maxPat, maxSub := sweepBounds(c, si)
		one(&sweeps[si], si, 0, maxPat, maxSub)
	}
	if !c.Quick() {
		// thorough only: the base alphabet's patterns of length 7 on subjects of length <= 4
		one(&sweepDef{name: "base7", pat: sweeps[0].pat, sub: sweeps[0].sub}, 0, 7, 7, 4)
	}
}
