// Package c18: table library keeps list semantics; sort gives an ordered
// permutation (model-based monitoring over generated histories).
package c18

import (
	"encoding/json"
	"fmt"
	"math/rand"
	"sort"
	"strconv"
	"strings"

	lua "github.com/yuin/gopher-lua"

	"verif/internal/fw"
	"verif/internal/gl"
)

func init() {
	fw.Register(&fw.Prop{
		ID:    "C18",
		Level: "exploration",
		Rule: "histories: seeded random sequences of 10-120 table.insert/remove/concat/maxn/getn/unpack/sort calls and direct assignments on one list, " +
			"one history in 25 starts with 2559-8000 appended elements (lists longer than half / all of the default value stack; unpack of thousands of values may then fail with the stack limit); one in 12 ends with table.insert(t, pos, nil); " +
			"each step compared with a Go slice model (results + full read-back rawget 1..n+2 and #t); non-trivial = >=10 steps with >=3 distinct op kinds and >=1 element removed; " +
			"element kinds: numbers, strings, mixed, strings with a third empty strings, numbers with booleans (false is an element like any other); " +
			"sorts: element multisets x comparator kinds (strict weak orders and inconsistent/failing ones; after a comparator error the list must still be a permutation), non-trivial = >=3 elements and >=2 comparator calls; distinct by content hash",
		Assumptions: []string{
			"the Go slice model of a Lua 5.1 list (manual section 5.5) is correct",
			"numbers used as elements are integers or x.5 so number->string conversion is unambiguous",
		},
		CrashIsViolation: true,
		Run:              run,
		Replay:           replay,
		Reproducers: map[string]func(c *fw.Ctx) (bool, string){
			"C18-remove-trailing-nil-slot": func(c *fw.Ctx) (bool, string) {
				h := History{Kind: "num", Ops: []Op{{Op: "ins", V: 1}, {Op: "ins", V: 2}, {Op: "ins", V: 3}, {Op: "popd"}, {Op: "rem"}}}
				d := runHistory(c, &h, false)
				return d != nil && d.Trailing, fmt.Sprint(d)
			},
		},
	})
}

// Op is one step of a history.
type Op struct {
	Op  string  `json:"op"`
	Pos int     `json:"pos,omitempty"`
	I   int     `json:"i,omitempty"`
	J   int     `json:"j,omitempty"`
	V   float64 `json:"v,omitempty"` // element id; rendered by Kind
	Sep string  `json:"sep,omitempty"`
	NA  int     `json:"na,omitempty"` // number of optional arguments passed
	K   int     `json:"k,omitempty"`  // bulk: number of elements appended (ids V, V+1, ...)
}

type History struct {
	Kind string `json:"kind"` // num | str | mixed
	Ops  []Op   `json:"ops"`
}

type SortCase struct {
	Elems []float64 `json:"elems"`
	Kind  string    `json:"kind"` // num | str | tab
	Cmp   string    `json:"cmp"`
	K     int       `json:"k,omitempty"`
	Seed  int64     `json:"seed,omitempty"`
}

type caseFile struct {
	H *History  `json:"h,omitempty"`
	S *SortCase `json:"s,omitempty"`
}

type divergence struct {
	Step     int
	Op       Op
	Want     string
	Got      string
	Trailing bool // the list had been shortened by a direct t[#t]=nil before (array slot left behind)
}

func (d *divergence) String() string {
	if d == nil {
		return "no divergence"
	}
	return fmt.Sprintf("step %d %+v: want %s got %s (after direct t[#t]=nil: %v)", d.Step, d.Op, d.Want, d.Got, d.Trailing)
}

const helpers = `
return {
  appendd = function(t, v) t[#t+1] = v end,
  popd = function(t) t[#t] = nil end,
  set = function(t, i, v) t[i] = v end,
  len = function(t) return #t end,
}
`

type env struct {
	L                                                 *lua.LState
	insert, remove, concat, maxn, getn, unpack, sortf lua.LValue
	appendd, popd, set, lenf                          lua.LValue
}

func newEnv() *env {
	L := lua.NewState()
	e := &env{L: L}
	tab := L.GetGlobal("table")
	e.insert = L.GetField(tab, "insert")
	e.remove = L.GetField(tab, "remove")
	e.concat = L.GetField(tab, "concat")
	e.maxn = L.GetField(tab, "maxn")
	e.getn = L.GetField(tab, "getn")
	e.sortf = L.GetField(tab, "sort")
	e.unpack = L.GetGlobal("unpack")
	h := gl.MustLoad(L, helpers).(*lua.LTable)
	e.appendd = h.RawGetString("appendd")
	e.popd = h.RawGetString("popd")
	e.set = h.RawGetString("set")
	e.lenf = h.RawGetString("len")
	return e
}

func elem(kind string, id float64) lua.LValue {
	switch kind {
	case "str":
		return lua.LString("s" + strconv.FormatFloat(id, 'g', -1, 64))
	case "mixed":
		if int64(id*2)%3 == 0 {
			return lua.LString("s" + strconv.FormatFloat(id, 'g', -1, 64))
		}
	case "strempty":
		// a third of the elements is the empty string (an element like any other)
		if int64(id)%3 == 0 {
			return lua.LString("")
		}
		return lua.LString("s" + strconv.FormatFloat(id, 'g', -1, 64))
	case "bool":
		// false is an element like any other: only nil ends a list
		if int64(id*2)%3 != 1 {
			return lua.LBool(int64(id)%2 == 1)
		}
	}
	return lua.LNumber(id)
}

func elemStr(v lua.LValue) string {
	switch x := v.(type) {
	case lua.LString:
		return string(x)
	case lua.LNumber:
		return gl.NumStr(float64(x))
	}
	return "?"
}

func canon(vs []lua.LValue) string {
	m := gl.NewIDMap()
	return gl.CanonList(vs, m)
}

// runHistory applies h to the implementation and the model and returns the first divergence.
func runHistory(c *fw.Ctx, h *History, count bool) *divergence {
	e := newEnv()
	defer e.L.Close()
	L := e.L
	t := L.NewTable()
	var model []lua.LValue
	slack := 0 // array slots left behind by direct t[#t]=nil (root cause of finding C18-remove-trailing-nil-slot)
	kinds := map[string]bool{}
	removed := false
	final := false
	for si, op := range h.Ops {
		n := len(model)
		var want []lua.LValue
		wantErr := false
		var got []lua.LValue
		var o gl.Outcome
		trailing := slack > 0
		v := elem(h.Kind, op.V)
		kinds[op.Op] = true
		switch op.Op {
		case "ins":
			model = append(model, v)
			if slack > 0 {
				slack--
			}
			got, o = gl.Call(L, e.insert, t, v)
		case "insp":
			p := op.Pos
			model = append(model, lua.LNil)
			copy(model[p:], model[p-1:])
			model[p-1] = v
			got, o = gl.Call(L, e.insert, t, lua.LNumber(p), v)
		case "inspnil":
			// nil as the inserted value still shifts t[pos..n] up (the list then has a
			// hole, so this is the last operation of a history; only the slots are compared)
			p := op.Pos
			model = append(model, lua.LNil)
			copy(model[p:], model[p-1:])
			model[p-1] = lua.LNil
			got, o = gl.Call(L, e.insert, t, lua.LNumber(p), lua.LNil)
			final = true
		case "rem":
			if n == 0 {
				want = []lua.LValue{lua.LNil}
			} else {
				want = []lua.LValue{model[n-1]}
				model = model[:n-1]
				removed = true
			}
			got, o = gl.Call(L, e.remove, t)
			if len(got) == 0 {
				got = []lua.LValue{lua.LNil} // the manual's implementation returns no value on an empty list
			}
		case "remp":
			p := op.Pos
			want = []lua.LValue{model[p-1]}
			model = append(model[:p-1:p-1], model[p:]...)
			removed = true
			got, o = gl.Call(L, e.remove, t, lua.LNumber(p))
		case "bulk":
			// a long list: K direct appends t[#t+1] = v
			for k := 0; k < op.K && o.Err == nil && o.GoPanic == nil; k++ {
				bv := elem(h.Kind, op.V+float64(k))
				model = append(model, bv)
				got, o = gl.Call(L, e.appendd, t, bv)
			}
			slack = 0
			got = nil
		case "appendd":
			model = append(model, v)
			if slack > 0 {
				slack--
			}
			got, o = gl.Call(L, e.appendd, t, v)
		case "popd":
			if n > 0 {
				model = model[:n-1]
				removed = true
				slack++
			}
			got, o = gl.Call(L, e.popd, t)
		case "set":
			model[op.Pos-1] = v
			got, o = gl.Call(L, e.set, t, lua.LNumber(op.Pos), v)
		case "concat":
			i, j := 1, n
			args := []lua.LValue{t}
			if op.NA >= 1 {
				args = append(args, lua.LString(op.Sep))
			}
			if op.NA >= 2 {
				i = op.I
				args = append(args, lua.LNumber(op.I))
			}
			if op.NA >= 3 {
				j = op.J
				args = append(args, lua.LNumber(op.J))
			}
			sep := ""
			if op.NA >= 1 {
				sep = op.Sep
			}
			var parts []string
			for k := i; k <= j; k++ {
				parts = append(parts, elemStr(model[k-1]))
			}
			want = []lua.LValue{lua.LString(strings.Join(parts, sep))}
			got, o = gl.Call(L, e.concat, args...)
		case "maxn":
			want = []lua.LValue{lua.LNumber(n)}
			got, o = gl.Call(L, e.maxn, t)
		case "getn":
			want = []lua.LValue{lua.LNumber(n)}
			got, o = gl.Call(L, e.getn, t)
		case "len":
			want = []lua.LValue{lua.LNumber(n)}
			got, o = gl.Call(L, e.lenf, t)
		case "unpack":
			i, j := 1, n
			args := []lua.LValue{t}
			if op.NA >= 1 {
				i = op.I
				args = append(args, lua.LNumber(op.I))
			}
			if op.NA >= 2 {
				j = op.J
				args = append(args, lua.LNumber(op.J))
			}
			for k := i; k <= j; k++ {
				if k >= 1 && k <= n {
					want = append(want, model[k-1])
				} else {
					want = append(want, lua.LNil)
				}
			}
			got, o = gl.Call(L, e.unpack, args...)
			if j-i+1 > 2000 && o.Err != nil && strings.Contains(o.Err.Error(), "overflow") {
				// thousands of results do not fit the value stack: a limit (C12), not a list defect
				wantErr = true
			}
		case "sort":
			sort.SliceStable(model, func(a, b int) bool { return lessLV(model[a], model[b]) })
			got, o = gl.Call(L, e.sortf, t)
		}
		if count {
			c.Count("op_"+op.Op, 1)
		}
		mk := func(want, got string) *divergence {
			return &divergence{Step: si, Op: op, Want: want, Got: got, Trailing: trailing}
		}
		if o.GoPanic != nil {
			return mk("no Go panic", "Go panic: "+o.PanicStr)
		}
		if o.Err != nil {
			if gl.IsGoRuntimeErrorText(o.Err.Error()) {
				return mk("no Go run-time fault", o.Err.Error())
			}
			if !wantErr {
				return mk("results "+canon(want), "error "+fw.Short(o.Err.Error(), 200))
			}
		} else if canon(want) != canon(got) {
			return mk("results "+canon(want), "results "+canon(got))
		}
		// full read-back
		n = len(model)
		for k := 1; k <= n+2; k++ {
			g := t.RawGetInt(k)
			var w lua.LValue = lua.LNil
			if k <= n {
				w = model[k-1]
			}
			if g != w {
				return mk(fmt.Sprintf("t[%d]=%s", k, canon([]lua.LValue{w})), fmt.Sprintf("t[%d]=%s", k, canon([]lua.LValue{g})))
			}
		}
		if final {
			break
		}
		lres, lo := gl.Call(L, e.lenf, t)
		if lo.Err != nil || lo.GoPanic != nil || len(lres) != 1 || lres[0] != lua.LNumber(n) {
			return mk(fmt.Sprintf("#t=%d", n), "#t="+canon(lres))
		}
		if count {
			c.Count("readbacks", 1)
		}
	}
	if count {
		nt := len(h.Ops) >= 10 && len(kinds) >= 3 && removed
		b, _ := json.Marshal(h)
		c.End(nt, string(b))
	}
	return nil
}

func lessLV(a, b lua.LValue) bool {
	switch x := a.(type) {
	case lua.LNumber:
		return x < b.(lua.LNumber)
	case lua.LString:
		return string(x) < string(b.(lua.LString))
	}
	return false
}

func genHistory(r *rand.Rand) *History {
	h := genHistory0(r)
	if r.Intn(12) == 0 {
		// how long is the list now? replay the history on the length only
		n := 0
		for _, op := range h.Ops {
			switch op.Op {
			case "ins", "insp", "appendd":
				n++
			case "bulk":
				n += op.K
			case "rem", "remp", "popd":
				if n > 0 {
					n--
				}
			}
		}
		if n >= 1 {
			h.Ops = append(h.Ops, Op{Op: "inspnil", Pos: 1 + r.Intn(n)})
		}
	}
	return h
}

func genHistory0(r *rand.Rand) *History {
	h := &History{Kind: []string{"num", "num", "str", "mixed", "strempty", "bool"}[r.Intn(6)]}
	nops := 10 + r.Intn(111)
	if r.Intn(10) == 0 {
		nops = 1 + r.Intn(9)
	}
	n := 0
	next := 1.0
	fresh := func() float64 {
		next++
		if r.Intn(8) == 0 {
			return next + 0.5
		}
		return next
	}
	seps := []string{"", ",", ", ", "\x00", "ab"}
	if r.Intn(25) == 0 {
		// a list longer than half / all of the default value stack (5120 slots)
		k := []int{2559, 2560, 2561, 3000, 5119, 5120, 5121, 8000}[r.Intn(8)]
		h.Ops = append(h.Ops, Op{Op: "bulk", K: k, V: next + 1})
		next += float64(k) + 1
		n = k
		if nops > 40 {
			nops = 40
		}
	}
	for len(h.Ops) < nops {
		var op Op
		switch k := r.Intn(20); {
		case k < 4:
			op = Op{Op: "ins", V: fresh()}
			n++
		case k < 7:
			op = Op{Op: "insp", Pos: 1 + r.Intn(n+1), V: fresh()}
			n++
		case k < 9:
			op = Op{Op: "rem"}
			if n > 0 {
				n--
			}
		case k < 11:
			if n == 0 {
				continue
			}
			op = Op{Op: "remp", Pos: 1 + r.Intn(n)}
			n--
		case k < 12:
			op = Op{Op: "appendd", V: fresh()}
			n++
		case k < 13:
			op = Op{Op: "popd"}
			if n > 0 {
				n--
			}
		case k < 14:
			if n == 0 {
				continue
			}
			op = Op{Op: "set", Pos: 1 + r.Intn(n), V: fresh()}
		case k < 16:
			if h.Kind == "bool" {
				continue // booleans cannot be concatenated
			}
			op = Op{Op: "concat", NA: r.Intn(4), Sep: seps[r.Intn(len(seps))]}
			if n == 0 {
				op.I, op.J = 1+r.Intn(2), 0
			} else if r.Intn(4) == 0 {
				// i > j
				op.J = r.Intn(n + 1)
				op.I = op.J + 1 + r.Intn(2)
			} else {
				op.I = 1 + r.Intn(n)
				op.J = op.I + r.Intn(n-op.I+1)
			}
			if op.NA == 2 && op.I > n+1 {
				op.I = n + 1
			}
			if op.NA == 2 {
				op.J = 0
			}
			if op.NA < 2 {
				op.I, op.J = 0, 0
			}
		case k < 17:
			op = Op{Op: []string{"maxn", "getn", "len"}[r.Intn(3)]}
		case k < 19:
			op = Op{Op: "unpack", NA: r.Intn(3)}
			if op.NA >= 1 {
				op.I = r.Intn(n+3) - 1
			}
			if op.NA >= 2 {
				op.J = op.I - 1 + r.Intn(6)
				if r.Intn(3) == 0 {
					op.J = n + r.Intn(3)
				}
			}
		default:
			if h.Kind == "mixed" || h.Kind == "bool" {
				continue
			}
			op = Op{Op: "sort"}
		}
		h.Ops = append(h.Ops, op)
	}
	return h
}

// ---- sort ----

var swoCmps = []string{"default", "lt", "gt", "abs", "mod7", "idtie"}
var badCmps = []string{"true", "false", "random", "le", "errk", "nonbool", "nilret"}

type sortResult struct {
	viol  string
	calls int
}

func runSort(c *fw.Ctx, sc *SortCase, count bool) string {
	L := lua.NewState()
	defer L.Close()
	t := L.NewTable()
	ids := map[lua.LValue]int{}
	var elems []lua.LValue
	tabKey := map[*lua.LTable]float64{}
	for i, id := range sc.Elems {
		var v lua.LValue
		switch sc.Kind {
		case "str":
			v = lua.LString("s" + strconv.FormatFloat(id, 'g', -1, 64))
		case "tab":
			tb := L.NewTable()
			tb.RawSetString("k", lua.LNumber(id))
			tb.RawSetString("id", lua.LNumber(i))
			tabKey[tb] = id
			v = tb
		default:
			v = lua.LNumber(id)
		}
		elems = append(elems, v)
		ids[v]++
		t.RawSetInt(i+1, v)
	}
	key := func(v lua.LValue) float64 {
		switch x := v.(type) {
		case lua.LNumber:
			return float64(x)
		case *lua.LTable:
			return tabKey[x]
		case lua.LString:
			f, _ := strconv.ParseFloat(string(x)[1:], 64)
			return f
		}
		return 0
	}
	strLess := func(a, b lua.LValue) bool { return string(a.(lua.LString)) < string(b.(lua.LString)) }
	var less func(a, b lua.LValue) bool
	switch sc.Cmp {
	case "default", "lt":
		if sc.Kind == "str" {
			less = strLess
		} else {
			less = func(a, b lua.LValue) bool { return key(a) < key(b) }
		}
	case "gt":
		if sc.Kind == "str" {
			less = func(a, b lua.LValue) bool { return strLess(b, a) }
		} else {
			less = func(a, b lua.LValue) bool { return key(a) > key(b) }
		}
	case "abs":
		less = func(a, b lua.LValue) bool { return abs(key(a)) < abs(key(b)) }
	case "mod7":
		less = func(a, b lua.LValue) bool { return mod7(key(a)) < mod7(key(b)) }
	case "idtie":
		less = func(a, b lua.LValue) bool {
			if mod7(key(a)) != mod7(key(b)) {
				return mod7(key(a)) < mod7(key(b))
			}
			return key(a) < key(b)
		}
	}
	calls := 0
	foreign := ""
	r := rand.New(rand.NewSource(sc.Seed))
	cmp := L.NewFunction(func(L *lua.LState) int {
		calls++
		a, b := L.Get(1), L.Get(2)
		if L.GetTop() != 2 {
			foreign = fmt.Sprintf("comparator called with %d arguments", L.GetTop())
		}
		if ids[a] == 0 || ids[b] == 0 {
			if foreign == "" {
				m := gl.NewIDMap()
				foreign = fmt.Sprintf("comparator called with a non-element: (%s, %s)", gl.Canon(a, m), gl.Canon(b, m))
			}
			L.Push(lua.LFalse)
			return 1
		}
		switch sc.Cmp {
		case "true":
			L.Push(lua.LTrue)
		case "false":
			L.Push(lua.LFalse)
		case "random":
			L.Push(lua.LBool(r.Intn(2) == 0))
		case "le":
			L.Push(lua.LBool(key(a) <= key(b)))
		case "errk":
			if calls == sc.K {
				L.RaiseError("E-cmp")
			}
			L.Push(lua.LBool(key(a) < key(b)))
		case "nonbool":
			// truthy non-boolean results: 0 and "" are true in Lua
			if key(a) < key(b) {
				L.Push(lua.LNumber(0))
			} else {
				L.Push(lua.LNil)
			}
		case "nilret":
			if key(a) < key(b) {
				L.Push(lua.LString(""))
				return 1
			}
			return 0
		default:
			L.Push(lua.LBool(less(a, b)))
		}
		return 1
	})
	sortf := L.GetField(L.GetGlobal("table"), "sort")
	var o gl.Outcome
	if sc.Cmp == "default" {
		_, o = gl.Call(L, sortf, t)
	} else {
		_, o = gl.Call(L, sortf, t, cmp)
	}
	if count {
		c.Count("sort_cmp_"+sc.Cmp, 1)
		c.Count("comparator_calls", int64(calls))
	}
	if o.GoPanic != nil {
		return "Go panic out of table.sort: " + o.PanicStr
	}
	if foreign != "" {
		return foreign
	}
	n := len(elems)
	swo := false
	for _, s := range swoCmps {
		if s == sc.Cmp {
			swo = true
		}
	}
	if sc.Cmp == "nonbool" || sc.Cmp == "nilret" {
		swo = true
		less = func(a, b lua.LValue) bool { return key(a) < key(b) }
	}
	if o.Err != nil {
		txt := o.Err.Error()
		if gl.IsGoRuntimeErrorText(txt) {
			return "Go run-time fault surfaced from table.sort: " + txt
		}
		if swo || (sc.Cmp == "errk" && (sc.K <= 0 || calls < sc.K)) {
			return "table.sort raised with a consistent comparator: " + fw.Short(txt, 200)
		}
		if sc.Cmp == "errk" && !strings.Contains(txt, "E-cmp") {
			return "table.sort raised something other than the comparator's error: " + fw.Short(txt, 200)
		}
		if count {
			c.Count("sort_lua_errors", 1)
		}
	}
	// permutation (also after an error: swaps are whole)
	seen := map[lua.LValue]int{}
	for i := 1; i <= n; i++ {
		seen[t.RawGetInt(i)]++
	}
	permOK := len(seen) == len(ids)
	for k, v := range ids {
		if seen[k] != v {
			permOK = false
		}
	}
	if t.RawGetInt(n+1) != lua.LNil {
		permOK = false
	}
	if !permOK {
		if o.Err == nil {
			var got []lua.LValue
			for i := 1; i <= n+1; i++ {
				got = append(got, t.RawGetInt(i))
			}
			return "after table.sort the list is not a permutation of the original elements: " + fw.Short(canon(got), 300)
		}
		// The comparator's error ended the sort early; every step up to there moved
		// whole elements, so the list still holds each element exactly once. (The
		// statement's "some permutation or a Lua error" is read inclusively: an error
		// does not license losing or duplicating elements - see DESIGN.md, C18.)
		var got []lua.LValue
		for i := 1; i <= n+1; i++ {
			got = append(got, t.RawGetInt(i))
		}
		return "table.sort ended with the comparator's error and left a list that is not a permutation of the original elements: " + fw.Short(canon(got), 300)
	}
	if o.Err == nil && swo {
		for i := 1; i < n; i++ {
			if less(t.RawGetInt(i+1), t.RawGetInt(i)) {
				return fmt.Sprintf("after table.sort (%s) elements %d,%d are out of order: %s then %s", sc.Cmp, i, i+1,
					canon([]lua.LValue{t.RawGetInt(i)}), canon([]lua.LValue{t.RawGetInt(i + 1)}))
			}
		}
	}
	if count {
		b, _ := json.Marshal(sc)
		c.End(n >= 3 && (calls >= 2 || sc.Cmp == "default"), string(b))
	}
	return ""
}

func abs(f float64) float64 {
	if f < 0 {
		return -f
	}
	return f
}
func mod7(f float64) int { return int(abs(f)) % 7 }

func genSort(r *rand.Rand) *SortCase {
	sc := &SortCase{Kind: []string{"num", "num", "str", "tab"}[r.Intn(4)], Seed: r.Int63()}
	n := r.Intn(12)
	switch r.Intn(5) {
	case 0:
		n = r.Intn(4)
	case 1:
		n = 12 + r.Intn(40)
	case 2:
		n = 50 + r.Intn(151)
	}
	shape := r.Intn(6)
	for i := 0; i < n; i++ {
		var v float64
		switch shape {
		case 0:
			v = float64(i) // sorted
		case 1:
			v = float64(n - i) // reversed
		case 2:
			v = 7 // constant
		case 3:
			v = float64(r.Intn(2)) // two-valued
		case 4:
			v = float64(r.Intn(2*n+1) - n)
		default:
			v = float64(r.Intn(1000)) + 0.5*float64(r.Intn(2))
		}
		sc.Elems = append(sc.Elems, v)
	}
	if r.Intn(3) == 0 {
		sc.Cmp = badCmps[r.Intn(len(badCmps))]
	} else {
		sc.Cmp = swoCmps[r.Intn(len(swoCmps))]
	}
	if sc.Kind == "tab" && sc.Cmp == "default" {
		sc.Cmp = "lt"
	}
	if sc.Kind == "str" && (sc.Cmp == "abs" || sc.Cmp == "mod7" || sc.Cmp == "idtie") {
		sc.Cmp = "gt"
	}
	if sc.Cmp == "errk" {
		sc.K = 1 + r.Intn(3*n+2)
	}
	return sc
}

func run(c *fw.Ctx) {
	nh := c.Share(c.Pick(60000, 3000000))
	ns := c.Share(c.Pick(60000, 3000000))
	for i := 0; i < nh; i++ {
		h := genHistory(c.R)
		c.Begin(caseFile{H: h})
		d := runHistory(c, h, true)
		if d != nil {
			c.ViolationOrKnown("C18-remove-trailing-nil-slot", d.Trailing && (d.Op.Op == "rem" || d.Op.Op == "sort"),
				"list history diverges from the model: "+d.String(), caseFile{H: h})
			c.End(false, "")
		}
		if i < 2 && c.Shard == 0 {
			c.Sample(h)
		}
	}
	for i := 0; i < ns; i++ {
		sc := genSort(c.R)
		c.Begin(caseFile{S: sc})
		if v := runSort(c, sc, true); v != "" {
			c.Violation(v, caseFile{S: sc})
			c.End(false, "")
		}
		if i < 1 && c.Shard == 0 {
			c.Sample(sc)
		}
	}
}

func replay(c *fw.Ctx, raw json.RawMessage) {
	var cf caseFile
	if err := json.Unmarshal(raw, &cf); err != nil {
		fmt.Println("bad case:", err)
		return
	}
	if cf.H != nil {
		if d := runHistory(c, cf.H, false); d != nil {
			c.Violation("list history diverges from the model: "+d.String(), cf)
		}
	}
	if cf.S != nil {
		if v := runSort(c, cf.S, false); v != "" {
			c.Violation(v, cf)
		}
	}
}
